(** C04 — every evaluation path of ContainsPoint is a crossing parity from some reference
    point over some subset of the loop's edges, and under the named hypotheses
    (H-JORDAN, H-CLIP, H-LATBOUND, plus index coverage) every path equals the brute force. *)
From Coq Require Import List Bool Arith Lia Permutation.
From Geo Require Import Model.Contain Proofs.C04_Brute.
Import ListNotations.

Section Dispatch.
  Variable point : Type.
  Variable peq : point -> point -> bool.
  Variable eov : point -> point -> point -> point -> bool.
  Variable origin : point.
  Variable zeroPt : point.

  Local Notation loop := (loop point).
  Local Notation edge := (edge point).
  Local Notation brute_contains := (brute_contains point eov origin zeroPt).
  Local Notation parity := (parity point eov).
  Local Notation cross_parity := (cross_parity point eov).
  Local Notation loop_edges := (loop_edges point).
  Local Notation closed_edges := (closed_edges point).
  Local Notation chain_edges := (chain_edges point).
  Local Notation vertex := (vertex point zeroPt).
  Local Notation loop_clipped_contains := (loop_clipped_contains point eov zeroPt).
  Local Notation loop_iterator_contains := (loop_iterator_contains point eov zeroPt).
  Local Notation loop_contains_point := (loop_contains_point point eov origin zeroPt).
  Local Notation shape_clipped_contains := (shape_clipped_contains point eov zeroPt).
  Local Notation contains_brute_force := (contains_brute_force point peq eov origin zeroPt).
  Local Notation shape_edge := (shape_edge point zeroPt).
  Local Notation find_by_shape_id := (find_by_shape_id point).
  Local Notation cross_parity_cons := (cross_parity_cons point eov).
  Local Notation cross_parity_nil := (cross_parity_nil point eov).

  (** the i-th edge of a loop, as Loop.Edge(i) / the cell path see it *)
  Definition ledge (vs : list point) (i : nat) : edge := (vertex vs i, vertex vs (i + 1)).

  (** XOR of a boolean function over a list of indices *)
  Fixpoint xs (g : nat -> bool) (l : list nat) : bool :=
    match l with [] => false | i :: t => xorb (g i) (xs g t) end.

  Lemma cross_parity_map : forall a b (f : nat -> edge) l,
    cross_parity a b (map f l) = xs (fun i => eov a b (fst (f i)) (snd (f i))) l.
  Proof.
    intros a b f l. induction l as [|i l IH]; [reflexivity|].
    cbn [map xs]. rewrite cross_parity_cons, IH. reflexivity.
  Qed.

  Lemma xs_perm : forall g l l', Permutation l l' -> xs g l = xs g l'.
  Proof.
    intros g l l' H. induction H; cbn [xs].
    - reflexivity.
    - rewrite IHPermutation. reflexivity.
    - rewrite <- !xorb_assoc, (xorb_comm (g y) (g x)). reflexivity.
    - rewrite IHPermutation1. exact IHPermutation2.
  Qed.

  Lemma xs_filter : forall g h l, (forall i, In i l -> h i = false -> g i = false) ->
    xs g (filter h l) = xs g l.
  Proof.
    intros g h l. induction l as [|i l IH]; intro H; [reflexivity|].
    cbn [filter xs]. destruct (h i) eqn:E.
    - cbn [xs]. rewrite IH; [reflexivity|]. intros j Hj. apply H. right. exact Hj.
    - rewrite (H i (or_introl eq_refl) E), xorb_false_l. apply IH.
      intros j Hj. apply H. right. exact Hj.
  Qed.

  (** *** the closed chain is the list of [ledge]s *)
  Lemma chain_edges_length : forall ds c, length (chain_edges c ds) = length ds.
  Proof. induction ds as [|d ds IH]; intro c; cbn; [reflexivity|]. rewrite IH. reflexivity. Qed.

  Lemma chain_edges_nth : forall ds c k z, k < length ds ->
    nth k (chain_edges c ds) (z, z) = (nth k (c :: ds) z, nth k ds z).
  Proof.
    induction ds as [|d ds IH]; intros c k z Hk; cbn [length] in Hk; [lia|].
    destruct k as [|k]; [reflexivity|].
    cbn [Contain.chain_edges nth]. rewrite IH by lia. reflexivity.
  Qed.

  Lemma closed_edges_seq : forall vs,
    closed_edges vs = map (ledge vs) (seq 0 (length vs)).
  Proof.
    intros [|v0 rest]; [reflexivity|].
    set (vs := v0 :: rest). set (n := length vs).
    assert (Hn : n = S (length rest)) by reflexivity.
    apply (nth_ext _ _ (zeroPt, zeroPt) (ledge vs 0)).
    - unfold Contain.closed_edges, vs. rewrite chain_edges_length, map_length, seq_length, app_length.
      cbn [length]. lia.
    - intros k Hk. unfold Contain.closed_edges, vs in Hk. rewrite chain_edges_length, app_length in Hk.
      cbn [length] in Hk.
      rewrite map_nth, seq_nth by (fold n; lia). cbn [plus].
      unfold Contain.closed_edges, vs at 1.
      rewrite chain_edges_nth by (rewrite app_length; cbn [length]; lia).
      unfold ledge. f_equal.
      + (* nth k (v0 :: rest ++ [v0]) = vertex vs k *)
        unfold Contain.vertex. fold n. rewrite Nat.mod_small by lia.
        change (v0 :: rest ++ [v0]) with (vs ++ [v0]). apply app_nth1. fold n. lia.
      + (* nth k (rest ++ [v0]) = vertex vs (k+1) *)
        rewrite <- (vertex_seq point zeroPt v0 rest). fold vs. fold n.
        rewrite (nth_indep _ zeroPt (vertex vs 0)) by (rewrite map_length, seq_length; lia).
        rewrite map_nth, seq_nth by lia. f_equal. lia.
  Qed.

  Lemma loop_edges_seq : forall (L : loop),
    loop_edges L = map (ledge (verts _ L)) (seq 0 (length (verts _ L))).
  Proof. intros L. apply closed_edges_seq. Qed.

  (** *** the cell path of loop.go: the restart rule always presents edge (v_ai, v_ai+1) *)
  Definition cell_step (vs : list point) (st : bool * crosser point * option nat) (ai : nat) :=
    let '(inside, k, prev) := st in
    let consecutive := match prev with Some q => ai =? S q | None => false end in
    let k1 := if consecutive then k else restart_at point k (vertex vs ai) in
    let rk := chain_crossing point eov k1 (vertex vs (ai + 1)) in
    (xorb inside (fst rk), snd rk, Some ai).

  (* invariant: after edge q the crosser's C is vertex (q+1) *)
  Definition cell_inv (vs : list point) (st : bool * crosser point * option nat) : Prop :=
    match snd st with
    | Some q => cr_c _ (snd (fst st)) = vertex vs (q + 1)
    | None => True
    end.

  Lemma cell_fold : forall vs a b es inside k prev,
    cr_a _ k = a -> cr_b _ k = b -> cell_inv vs (inside, k, prev) ->
    fst (fst (fold_left (cell_step vs) es (inside, k, prev)))
    = xorb inside (cross_parity a b (map (ledge vs) es)).
  Proof.
    intros vs a b es. induction es as [|ai es IH]; intros inside k prev Ha Hb Hinv.
    - cbn [fold_left map fst snd]. rewrite cross_parity_nil, xorb_false_r. reflexivity.
    - cbn [fold_left map]. rewrite cross_parity_cons.
      assert (Hstep : cell_step vs (inside, k, prev) ai
                      = (xorb inside (eov a b (vertex vs ai) (vertex vs (ai + 1))),
                         mk_crosser _ a b (vertex vs (ai + 1)), Some ai)).
      { unfold cell_step. destruct prev as [q|].
        - destruct (Nat.eqb_spec ai (S q)) as [E|NE].
          + unfold cell_inv in Hinv. cbn [fst snd] in Hinv.
            unfold chain_crossing. cbn [fst snd]. rewrite Ha, Hb, Hinv.
            replace (q + 1) with ai by lia. reflexivity.
          + unfold chain_crossing, restart_at. cbn [fst snd cr_a cr_b cr_c]. rewrite Ha, Hb. reflexivity.
        - unfold chain_crossing, restart_at. cbn [fst snd cr_a cr_b cr_c]. rewrite Ha, Hb. reflexivity. }
      rewrite Hstep, IH; [|reflexivity|reflexivity|reflexivity].
      unfold ledge at 2. cbn [fst snd]. rewrite xorb_assoc. reflexivity.
  Qed.

  (** [cell_parity]: Loop.iteratorContainsPoint = parity(centre, containsCenter, listed edges) *)
  Theorem loop_clipped_parity : forall vs center cl p,
    loop_clipped_contains vs center cl p
    = parity center (cl_contains_center cl) (map (ledge vs) (cl_edges cl)) p.
  Proof.
    intros vs center cl p. unfold Contain.loop_clipped_contains, Contain.parity.
    destruct (cl_edges cl) as [|e es] eqn:E.
    - cbn. rewrite xorb_false_r. reflexivity.
    - change (fun (st : bool * crosser point * option nat) (ai : nat) => _) with (cell_step vs).
      apply cell_fold; reflexivity.
  Qed.

  Lemma edge_fold : forall (A : Type) (f : A -> edge) a b es k inside,
    cr_a _ k = a -> cr_b _ k = b ->
    fst (fold_left
           (fun (st : bool * crosser point) (x : A) =>
              let ed := f x in
              let rk := edge_crossing point eov (snd st) (fst ed) (snd ed) in
              (xorb (fst st) (fst rk), snd rk)) es (inside, k))
    = xorb inside (cross_parity a b (map f es)).
  Proof.
    intros A f a b es. induction es as [|e es IH]; intros k inside Ha Hb.
    - cbn [fold_left map fst snd]. rewrite cross_parity_nil, xorb_false_r. reflexivity.
    - cbn [fold_left map]. rewrite cross_parity_cons.
      match goal with
      | |- fst (fold_left _ _ ?st) = _ =>
        replace st with (xorb inside (eov a b (fst (f e)) (snd (f e))),
                         mk_crosser point a b (snd (f e)))
      end.
      2:{ destruct k; cbn in Ha, Hb; subst; reflexivity. }
      rewrite IH by reflexivity. rewrite xorb_assoc. reflexivity.
  Qed.

  (** Polygon.iteratorContainsPoint / ContainsPointQuery.shapeContains (semi-open) *)
  Theorem shape_clipped_parity : forall S center cl p,
    shape_clipped_contains S center cl p
    = parity center (cl_contains_center cl) (map (shape_edge S) (cl_edges cl)) p.
  Proof.
    intros S center cl p. unfold Contain.shape_clipped_contains, Contain.parity.
    apply (edge_fold nat (shape_edge S)); reflexivity.
  Qed.

  (** shapeutil.go containsBruteForce *)
  Theorem contains_brute_force_parity : forall S p,
    contains_brute_force S p
    = if peq origin p then sh_ref_inside _ S else parity origin (sh_ref_inside _ S) (sh_edges _ S) p.
  Proof.
    intros S p. unfold Contain.contains_brute_force, Contain.parity.
    destruct (peq origin p); [reflexivity|].
    rewrite <- (map_id (sh_edges _ S)) at 2.
    apply (edge_fold edge (fun e => e)); reflexivity.
  Qed.

  (** *** dispatch_structure: whatever path Loop.ContainsPoint takes, its answer is
      parity(ref, ref_inside, E) for a reference point and a list E of edges of the loop. *)
  Theorem dispatch_structure : forall (L : loop) fresh bound_contains index_shapes located p,
    exists ref ref_inside (E : list edge),
      loop_contains_point L fresh bound_contains index_shapes located p = parity ref ref_inside E p
      /\ (forall e, In e E -> exists i, e = ledge (verts _ L) i).
  Proof.
    intros L fresh bc ishapes located p. unfold Contain.loop_contains_point.
    destruct (negb fresh && negb bc).
    { exists origin, false, []. split; [reflexivity|]. intros e []. }
    destruct ((ishapes =? 0) || (length (verts _ L) <=? max_brute_force_vertices)).
    { exists origin, (origin_inside _ L), (loop_edges L). split.
      - apply parity_def.
      - intros e He. rewrite loop_edges_seq in He. apply in_map_iff in He.
        destruct He as [i [Hi _]]. exists i. symmetry. exact Hi. }
    destruct located as [c|].
    2:{ exists origin, false, []. split; [reflexivity|]. intros e []. }
    unfold Contain.loop_iterator_contains. destruct (find_by_shape_id c 0) as [cl|].
    2:{ exists origin, false, []. split; [reflexivity|]. intros e []. }
    exists (ic_center _ c), (cl_contains_center cl), (map (ledge (verts _ L)) (cl_edges cl)). split.
    - apply loop_clipped_parity.
    - intros e He. apply in_map_iff in He. destruct He as [i [Hi _]]. exists i. symmetry. exact Hi.
  Qed.

  (** *** the named hypotheses, as properties of one loop *)

  (* test edges for which the crossing predicate is meaningful (not antipodal) *)
  Variable ok : point -> point -> Prop.

  (** H-JORDAN for the edge set E: every closed chain of admissible test edges crosses E an
      even number of times. *)
  Definition H_JORDAN (E : list edge) : Prop :=
    forall qs : list point,
      (forall a b, In (a, b) (closed_edges qs) -> ok a b) ->
      xpath point (fun a b => cross_parity a b E) (cyc point qs) = false.

  Lemma jordan_two : forall E a b, H_JORDAN E -> ok a b -> ok b a ->
    cross_parity a b E = cross_parity b a E.
  Proof.
    intros E a b HJ Hab Hba. specialize (HJ [a; b]).
    cbn in HJ. rewrite xorb_false_r in HJ.
    assert (H : xorb (cross_parity a b E) (cross_parity b a E) = false).
    { apply HJ. intros x y [H|[H|[]]]; inversion H; subst; assumption. }
    destruct (cross_parity a b E), (cross_parity b a E); try reflexivity; discriminate.
  Qed.

  (** parity does not depend on the route: o->p versus o->c->p *)
  Lemma jordan_path : forall E o c p, H_JORDAN E ->
    ok o c -> ok c p -> ok p o -> ok o p ->
    cross_parity o p E = xorb (cross_parity o c E) (cross_parity c p E).
  Proof.
    intros E o c p HJ Hoc Hcp Hpo Hop.
    rewrite (jordan_two E o p HJ Hop Hpo).
    specialize (HJ [o; c; p]). cbn in HJ. rewrite xorb_false_r in HJ.
    assert (H : xorb (cross_parity o c E) (xorb (cross_parity c p E) (cross_parity p o E)) = false).
    { apply HJ. intros x y [H|[H|[H|[]]]]; inversion H; subst; assumption. }
    destruct (cross_parity o c E), (cross_parity c p E), (cross_parity p o E);
      try reflexivity; discriminate.
  Qed.

  (** H-CLIP for the located cell: the edge ids are distinct and in range (index
      well-formedness), and a loop edge that is NOT listed does not cross centre->p. *)
  Definition H_CLIP (vs : list point) (center : point) (cl : clipped) (p : point) : Prop :=
    NoDup (cl_edges cl)
    /\ (forall i, In i (cl_edges cl) -> i < length vs)
    /\ (forall i, i < length vs -> ~ In i (cl_edges cl) ->
                  eov center p (vertex vs i) (vertex vs (i + 1)) = false).

  Lemma clip_parity : forall vs center cl p, H_CLIP vs center cl p ->
    cross_parity center p (map (ledge vs) (cl_edges cl)) = cross_parity center p (closed_edges vs).
  Proof.
    intros vs center cl p [Hnd [Hrange Hmiss]].
    rewrite closed_edges_seq, !cross_parity_map.
    set (g := fun i => eov center p (fst (ledge vs i)) (snd (ledge vs i))).
    set (h := fun i => existsb (Nat.eqb i) (cl_edges cl)).
    assert (Hh : forall i, h i = true <-> In i (cl_edges cl)).
    { intro i. unfold h. rewrite existsb_exists. split.
      - intros [x [Hx E]]. apply Nat.eqb_eq in E. subst x. exact Hx.
      - intro Hi. exists i. split; [exact Hi|apply Nat.eqb_refl]. }
    rewrite <- (xs_filter g h (seq 0 (length vs))).
    - apply xs_perm. apply NoDup_Permutation.
      + exact Hnd.
      + apply NoDup_filter. apply seq_NoDup.
      + intro i. rewrite filter_In, in_seq, Hh. split.
        * intro Hi. split; [|exact Hi]. specialize (Hrange i Hi). lia.
        * intros [_ Hi]. exact Hi.
    - intros i Hi Hhi. apply in_seq in Hi. unfold g, ledge. cbn [fst snd].
      apply Hmiss; [lia|]. intro Hin. apply Hh in Hin. rewrite Hin in Hhi. discriminate.
  Qed.

  (** [paths_agree]: the reduction.  Each hypothesis is used exactly once:
      H-LATBOUND for the bound rejection, H-CLIP for "the edges crossing centre->p are
      listed", tracker correctness for containsCenter, H-JORDAN for "parity does not depend
      on the reference point", index coverage for "no index cell contains p". *)
  Theorem paths_agree : forall (L : loop) fresh bound_contains index_shapes located p,
    (* H-LATBOUND: the bound rejection is sound *)
    (bound_contains = false -> brute_contains L p = false) ->
    (* index coverage: a point outside every index cell is not contained *)
    (located = None -> brute_contains L p = false) ->
    (forall c, located = Some c ->
       exists cl, find_by_shape_id c 0 = Some cl
         (* H-CLIP *)
         /\ H_CLIP (verts _ L) (ic_center _ c) cl p
         (* tracker_correct: containsCenter is the containment of the cell centre *)
         /\ cl_contains_center cl = brute_contains L (ic_center _ c)
         (* admissible test edges *)
         /\ ok origin (ic_center _ c) /\ ok (ic_center _ c) p /\ ok p origin /\ ok origin p) ->
    H_JORDAN (loop_edges L) ->
    loop_contains_point L fresh bound_contains index_shapes located p = brute_contains L p.
  Proof.
    intros L fresh bc ishapes located p Hbound Hcover Hcell HJ.
    unfold Contain.loop_contains_point.
    destruct (negb fresh && negb bc) eqn:Erej.
    { apply andb_true_iff in Erej. destruct Erej as [_ Ebc]. apply negb_true_iff in Ebc.
      symmetry. apply Hbound. exact Ebc. }
    destruct ((ishapes =? 0) || (length (verts _ L) <=? max_brute_force_vertices)); [reflexivity|].
    destruct located as [c|]; [|symmetry; apply Hcover; reflexivity].
    destruct (Hcell c eq_refl) as [cl [Hfind [Hclip [Hcc [Hoc [Hcp [Hpo Hop]]]]]]].
    unfold Contain.loop_iterator_contains. rewrite Hfind.
    rewrite loop_clipped_parity. unfold Contain.parity.
    rewrite (clip_parity _ _ _ _ Hclip), Hcc, !parity_def. unfold Contain.parity.
    fold (loop_edges L).
    rewrite (jordan_path (loop_edges L) origin (ic_center _ c) p HJ Hoc Hcp Hpo Hop).
    rewrite xorb_assoc. reflexivity.
  Qed.

  (** ContainsPointQuery / Polygon index path on a one-shape index built from the loop's own
      edges: same reduction. *)
  Theorem shape_path_agrees : forall (L : loop) (S : shape point) c cl p,
    (forall i, i < length (verts _ L) -> shape_edge S i = ledge (verts _ L) i) ->
    H_CLIP (verts _ L) (ic_center _ c) cl p ->
    cl_contains_center cl = brute_contains L (ic_center _ c) ->
    ok origin (ic_center _ c) -> ok (ic_center _ c) p -> ok p origin -> ok origin p ->
    H_JORDAN (loop_edges L) ->
    shape_clipped_contains S (ic_center _ c) cl p = brute_contains L p.
  Proof.
    intros L S c cl p Hedges Hclip Hcc Hoc Hcp Hpo Hop HJ.
    rewrite shape_clipped_parity. unfold Contain.parity.
    assert (Hmap : map (shape_edge S) (cl_edges cl) = map (ledge (verts _ L)) (cl_edges cl)).
    { apply map_ext_in. intros i Hi. apply Hedges. destruct Hclip as [_ [Hr _]]. apply Hr. exact Hi. }
    rewrite Hmap, (clip_parity _ _ _ _ Hclip), Hcc, !parity_def. unfold Contain.parity.
    fold (loop_edges L).
    rewrite (jordan_path (loop_edges L) origin (ic_center _ c) p HJ Hoc Hcp Hpo Hop).
    rewrite xorb_assoc. reflexivity.
  Qed.
End Dispatch.

(** The hypotheses are satisfiable together with a non-trivial predicate: points are
    naturals, "crossing" means the tested edge's endpoints lie on different sides of the
    threshold a+b... a parity that is a coboundary, hence even on every closed chain. *)
Example h_jordan_satisfiable :
  let e := fun (a b c d : nat) => xorb (Nat.even a) (Nat.even b) && xorb (Nat.even c) (Nat.even d) in
  H_JORDAN nat e (fun _ _ => True) (closed_edges nat [0; 1; 2]).
Proof.
  cbv zeta. intros qs _.
  set (E := closed_edges nat [0; 1; 2]).
  assert (HX : forall a b, Contain.cross_parity nat
            (fun a b c d => xorb (Nat.even a) (Nat.even b) && xorb (Nat.even c) (Nat.even d)) a b E = false).
  { intros a b. unfold Contain.cross_parity, Contain.cross_count, E. cbn.
    destruct (xorb (Nat.even a) (Nat.even b)); reflexivity. }
  destruct qs as [|q qs]; [reflexivity|].
  unfold cyc. generalize ((q :: qs) ++ [q]) as l.
  induction l as [|x [|y l] IH]; try reflexivity.
  cbn [xpath]. cbn [xpath] in IH. rewrite HX, IH. reflexivity.
Qed.
