(** C20 — H_RTE_INT, second part: [rte_bits] on decomposed patterns and the final theorem. *)
From Coq Require Import ZArith Reals Floats Lia Lra Psatz Bool.
From Flocq Require Import Core.Core IEEE754.BinarySingleNaN IEEE754.PrimFloat.
From Geo Require Import Base.GoPrim Gen.Approx Proofs.C09_F64Bits Proofs.C12_Float Proofs.C20_RTE_Arith.
Local Open Scope Z_scope.

(** * 5. [rte_bits] on a decomposed pattern *)

Lemma go_shr_nonneg a n : 0 <= n -> go_shr a n = a / 2 ^ n.
Proof. intros H. unfold go_shr. replace (n <? 0) with false by (symmetry; apply Z.ltb_ge; lia). apply Z.shiftr_div_pow2, H. Qed.
Lemma wrap_small a : 0 <= a < 2 ^ 64 -> wrap_u64 a = a.
Proof. intros H. unfold wrap_u64, wrap_u. apply Z.mod_small, H. Qed.
Lemma land_1 a : Z.land a 1 = a mod 2.
Proof. change 1 with (Z.ones 1) at 1. rewrite Z.land_ones by lia. reflexivity. Qed.
Lemma land_pow2 a n : 0 <= n -> Z.land a (2 ^ n) = if Z.testbit a n then 2 ^ n else 0.
Proof.
  intros H. apply Z.bits_inj'. intros i Hi. rewrite Z.land_spec, Z.pow2_bits_eqb by lia.
  destruct (Z.eqb_spec n i) as [->|Ne].
  - rewrite andb_true_r. destruct (Z.testbit a i); [rewrite Z.pow2_bits_true; auto|rewrite Z.bits_0; auto].
  - rewrite andb_false_r. destruct (Z.testbit a n); [rewrite Z.pow2_bits_false by lia; auto|rewrite Z.bits_0; auto].
Qed.
Lemma clear_low a n : 0 <= n -> Z.land a (Z.lnot (Z.ones n)) = a / 2 ^ n * 2 ^ n.
Proof. intros H. rewrite <- Z.ldiff_land, Z.ldiff_ones_r, Z.shiftl_mul_pow2, Z.shiftr_div_pow2 by lia. reflexivity. Qed.

Lemma mask_shift e : 0 <= e <= 52 -> 4503599627370495 / 2 ^ e = Z.ones (52 - e).
Proof.
  intros H. rewrite Z.ones_equiv.
  assert (HP : 0 < 2 ^ e) by (apply Z.pow_pos_nonneg; lia).
  assert (E52 : 2 ^ 52 = 2 ^ e * 2 ^ (52 - e)) by (rewrite <- Z.pow_add_r by lia; f_equal; lia).
  assert (HQ : 0 < 2 ^ (52 - e)) by (apply Z.pow_pos_nonneg; lia).
  symmetry. apply (Z.div_unique_pos _ _ _ (2 ^ e - 1)); [lia|].
  change 4503599627370495 with (2 ^ 52 - 1). rewrite E52. unfold Z.pred. ring.
Qed.

Lemma field_E_of S E F : (S = 0 \/ S = 2 ^ 63) -> 0 <= E <= 2046 -> 0 <= F < 2 ^ 52 ->
  Z.land (wrap_u64 (go_shr (S + E * 2 ^ 52 + F) 52)) 2047 = E.
Proof.
  intros HS HE HF. rewrite go_shr_nonneg by lia. unfold wrap_u64, wrap_u.
  change 2047 with (Z.ones 11). rewrite Z.land_ones by lia.
  pow_consts. destruct HS as [-> | ->]; Z.div_mod_to_equations; lia.
Qed.

Lemma rte_bits_round S E F : (S = 0 \/ S = 2 ^ 63) -> 1023 <= E <= 1074 -> 0 <= F < 2 ^ 52 ->
  let b := S + E * 2 ^ 52 + F in let e := E - 1023 in let n := 52 - e in
  rte_bits b = ((b + (2251799813685247 + (b / 2 ^ n) mod 2) / 2 ^ e) / 2 ^ n) * 2 ^ n.
Proof.
  intros HS HE HF b e n. unfold rte_bits. cbv zeta. fold b.
  assert (Hve : Z.land (wrap_u64 (go_shr b 52)) 2047 = E) by (apply field_E_of; [exact HS|lia|exact HF]).
  rewrite !Hve.
  replace (1023 <=? E) with true by (symmetry; apply Z.leb_le; lia). cbv beta iota.
  fold e. rewrite (wrap_small e) by (unfold e; lia). fold n.
  rewrite (wrap_small n) by (unfold n, e; lia).
  rewrite !go_shr_nonneg by (unfold n, e; lia). rewrite land_1.
  pose proof (Z.mod_pos_bound (b / 2 ^ n) 2 ltac:(lia)) as Ht.
  set (t := (b / 2 ^ n) mod 2) in *.
  rewrite (wrap_small (2251799813685247 + t)) by lia.
  assert (HPe : 0 < 2 ^ e) by (apply Z.pow_pos_nonneg; unfold e; lia).
  assert (Hadd : 0 <= (2251799813685247 + t) / 2 ^ e <= 2251799813685248).
  { split; [apply Z.div_pos; lia|]. pose proof (Z.mul_div_le (2251799813685247 + t) (2 ^ e) HPe). nia. }
  assert (Hb : 0 <= b < 2 ^ 63 + 1075 * 2 ^ 52) by (unfold b; destruct HS as [-> | ->]; pow_consts; lia).
  rewrite wrap_small by (pow_consts; pow_consts; lia).
  rewrite mask_shift by (unfold e; lia). fold n. apply clear_low. unfold n, e; lia.
Qed.

Lemma rte_bits_big S E F : (S = 0 \/ S = 2 ^ 63) -> 1075 <= E <= 2046 -> 0 <= F < 2 ^ 52 ->
  let b := S + E * 2 ^ 52 + F in rte_bits b = b.
Proof.
  intros HS HE HF b. unfold rte_bits. cbv zeta. fold b.
  assert (Hve : Z.land (wrap_u64 (go_shr b 52)) 2047 = E) by (apply field_E_of; [exact HS|lia|exact HF]).
  rewrite !Hve.
  replace (1023 <=? E) with true by (symmetry; apply Z.leb_le; lia). cbv beta iota.
  set (e := E - 1023). rewrite (wrap_small e) by (unfold e; lia).
  rewrite land_1.
  pose proof (Z.mod_pos_bound (go_shr b (wrap_u64 (52 - e))) 2 ltac:(lia)) as Ht.
  set (t := (go_shr b (wrap_u64 (52 - e))) mod 2) in *.
  rewrite (wrap_small (2251799813685247 + t)) by lia.
  rewrite !go_shr_nonneg by (unfold e; lia).
  assert (H52 : 2 ^ 52 <= 2 ^ e) by (apply Z.pow_le_mono_r; unfold e; lia).
  rewrite (Z.div_small (2251799813685247 + t)) by (pow_consts; lia).
  rewrite (Z.div_small 4503599627370495) by (pow_consts; lia).
  rewrite Z.add_0_r. change (Z.lnot 0) with (-1). rewrite Z.land_m1_r.
  apply wrap_small. unfold b. destruct HS as [-> | ->]; pow_consts; lia.
Qed.

Lemma rte_bits_low S E F : (S = 0 \/ S = 2 ^ 63) -> 0 <= E < 1023 -> 0 <= F < 2 ^ 52 ->
  let b := S + E * 2 ^ 52 + F in rte_bits b = S \/ rte_bits b = Z.lor S 4607182418800017408.
Proof.
  intros HS HE HF b. unfold rte_bits. cbv zeta.
  assert (Hve : Z.land (wrap_u64 (go_shr b 52)) 2047 = E) by (apply field_E_of; [exact HS|lia|exact HF]).
  rewrite !Hve.
  replace (1023 <=? E) with false by (symmetry; apply Z.leb_gt; lia). cbv beta iota.
  assert (HL : Z.land b 9223372036854775808 = S).
  { change 9223372036854775808 with (2 ^ 63). rewrite land_pow2 by lia.
    destruct (Z.testbit b 63) eqn:T.
    - apply Z.testbit_true in T; [|lia]. unfold b in T. pow_consts.
      destruct HS as [-> | ->]; [exfalso|reflexivity]. Z.div_mod_to_equations. lia.
    - apply Z.testbit_false in T; [|lia]. unfold b in T. pow_consts.
      destruct HS as [-> | ->]; [reflexivity|exfalso]. Z.div_mod_to_equations. lia. }
  rewrite !HL.
  destruct ((E =? 1022) && negb (Z.land b 4503599627370495 =? 0)); [right|left]; reflexivity.
Qed.

(** * 6. H_RTE_INT, closed *)
Theorem rte_int x : go_isnan x = false -> go_isinf x 0 = false ->
  exists k : Z, PrimFloat.eqb (math_RoundToEven x) (float_of_Z k) = true.
Proof.
  intros Hn Hi. rewrite rte_unfold.
  destruct (bits_decomp x Hn Hi) as (S & E & F & Eb & HS & HE & HF). rewrite Eb. clear Eb.
  destruct (Z_lt_ge_dec E 1023) as [Hlow|Hhigh].
  - destruct (rte_bits_low S E F HS ltac:(lia) HF) as [R|R]; cbv zeta in R; rewrite R;
    destruct HS as [-> | ->].
    + exists 0. vm_compute. reflexivity.
    + exists 0. vm_compute. reflexivity.
    + exists 1. vm_compute. reflexivity.
    + exists (-1). vm_compute. reflexivity.
  - destruct (Z_le_gt_dec E 1074) as [Hmid|Hbig].
    + pose proof (rte_bits_round S E F HS ltac:(lia) HF) as R. cbv zeta in R. rewrite R. clear R.
      pose proof (rte_arith (E - 1023) S F ltac:(lia) HS HF) as A. unfold rte_arith_stmt in A. cbv zeta in A.
      replace (E - 1023 + 1023) with E in A by lia.
      set (n := 52 - (E - 1023)) in *.
      set (b' := (S + E * 2 ^ 52 + F + (2251799813685247 + (S + E * 2 ^ 52 + F) / 2 ^ n mod 2) / 2 ^ (E - 1023)) / 2 ^ n * 2 ^ n) in *.
      destruct A as (Hb' & E' & F' & Eq' & HE' & HF' & Hdiv).
      destruct (fields_of_decomp S E' F' HS ltac:(lia) HF') as (_ & FE & FF & _). rewrite <- Eq' in FE, FF.
      apply frombits_int; [exact Hb'|rewrite FE; lia|]. rewrite FE, FF.
      destruct (Z_le_gt_dec 1075 E') as [L|G]; [left; exact L|right].
      set (n' := 1075 - E'). assert (Hn' : 0 < n' <= n) by (unfold n', n; lia).
      apply Z.div_exact in Hdiv; [|apply Z.pow_nonzero; unfold n; lia].
      assert (P1 : 2 ^ n = 2 ^ (n - n') * 2 ^ n') by (rewrite <- Z.pow_add_r by lia; f_equal; lia).
      assert (P2 : 2 ^ 52 = 2 ^ (52 - n) * 2 ^ n) by (rewrite <- Z.pow_add_r by (unfold n; lia); f_equal; lia).
      rewrite Hdiv, P2, P1.
      replace (2 ^ (n - n') * 2 ^ n' * (F' / (2 ^ (n - n') * 2 ^ n')) + 2 ^ (52 - n) * (2 ^ (n - n') * 2 ^ n'))
        with ((2 ^ (n - n') * (F' / (2 ^ (n - n') * 2 ^ n')) + 2 ^ (52 - n) * 2 ^ (n - n')) * 2 ^ n') by ring.
      apply Z_mod_mult.
    + pose proof (rte_bits_big S E F HS ltac:(lia) HF) as R. cbv zeta in R. rewrite R. clear R.
      destruct (fields_of_decomp S E F HS ltac:(lia) HF) as (Hb & FE & FF & _).
      apply frombits_int; [exact Hb|rewrite FE; lia|left; rewrite FE; lia].
Qed.
Print Assumptions rte_int.
