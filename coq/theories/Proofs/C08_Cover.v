(** C08 — the index covering computed by initCovering (the repaired loop, without the stray
    break) is sound on a well-formed index: its entries are valid cells with the right
    contents and every index cell is represented by one of them. With an infinite distance
    limit these are exactly the entries initQueue hands to processOrEnqueue. *)
From Coq Require Import ZArith List Bool Lia Sorted.
From Geo Require Import Model.EdgeQuery Proofs.C05_CellFacts Proofs.C08_Post Proofs.C08_Opt Proofs.C08_Heap Proofs.C08_Main Proofs.C08_Cells Proofs.C08_Split Proofs.C08_Term.
From Geo Require Proofs.C11_Bits.
Import ListNotations.
Local Open Scope Z_scope.

(** ** Parent, Next, CommonAncestorLevel of the model on valid ids *)
Lemma cid_lsb_for_level_spec l : 0 <= l <= 30 -> cid_lsb_for_level l = lsbL l.
Proof. intros H. unfold cid_lsb_for_level. rewrite Z.shiftl_1_l. symmetry. apply lsbL_pow2. exact H. Qed.

Lemma cid_parent_formula c l : 0 <= c -> 0 <= l <= 30 ->
  cid_parent c l = c - c mod (2 * lsbL l) + lsbL l.
Proof.
  intros Hc Hl. unfold cid_parent. rewrite (cid_lsb_for_level_spec l Hl). rewrite (lsbL_pow2 l Hl).
  rewrite C11_Bits.land_opp_pow2 by lia.
  replace (2 ^ (2 * (30 - l)) * (c / 2 ^ (2 * (30 - l)))) with (c - c mod 2 ^ (2 * (30 - l))).
  - apply lor_pow2; lia.
  - pose proof (Z.div_mod c (2 ^ (2 * (30 - l))) ltac:(apply Z.pow_nonzero; lia)). lia.
Qed.

Lemma cid_parent_div c l : 0 <= c -> 0 <= l <= 30 ->
  cid_parent c l = 2 * lsbL l * (c / (2 * lsbL l)) + lsbL l.
Proof.
  intros Hc Hl. rewrite (cid_parent_formula c l Hc Hl). pose proof (lsbL_pos l Hl).
  pose proof (Z.div_mod c (2 * lsbL l) ltac:(lia)). lia.
Qed.

Lemma cid_parent_valid c L l : valid_at c L -> 0 <= l <= L -> valid_at (cid_parent c l) l.
Proof.
  intros V Hl. assert (H30 : 0 <= l <= 30) by (destruct V; lia).
  rewrite (cid_parent_formula c l ltac:(destruct V; lia) H30). rewrite <- (parent_spec c L l V Hl).
  apply (parent_valid c L l V Hl).
Qed.

(** the parent at level l is the unique level-l cell whose range contains c *)
Lemma cid_parent_unique c T l : 0 <= c -> valid_at T l -> T - lsbL l + 1 <= c <= T + lsbL l - 1 -> cid_parent c l = T.
Proof.
  intros Hc VT Hr. assert (Hl : 0 <= l <= 30) by apply VT. pose proof (lsbL_pos l Hl) as P.
  rewrite (cid_parent_div c l Hc Hl).
  destruct (valid_at_odd_mult T l VT) as (k & Hk & ET).
  assert (E : c / (2 * lsbL l) = k).
  { symmetry. apply (Z.div_unique c (2 * lsbL l) k (c - 2 * lsbL l * k)); nia. }
  rewrite E. nia.
Qed.

Lemma cid_parent_range c L l : valid_at c L -> 0 <= l <= L ->
  cid_parent c l - lsbL l + 1 <= c - lsbL L + 1 /\ c + lsbL L - 1 <= cid_parent c l + lsbL l - 1.
Proof.
  intros V Hl. assert (H30 : 0 <= l <= 30) by (destruct V; lia).
  pose proof (parent_range c L l V Hl) as R.
  rewrite (rangemin_spec c L V), (rangemax_spec c L V) in R.
  pose proof (parent_valid c L l V Hl) as VP.
  rewrite (rangemin_spec _ l VP), (rangemax_spec _ l VP) in R.
  rewrite (parent_spec c L l V Hl) in R. rewrite (cid_parent_formula c l ltac:(destruct V; lia) H30). exact R.
Qed.

Lemma cid_parent_mono c c' l : 0 <= c <= c' -> 0 <= l <= 30 -> cid_parent c l <= cid_parent c' l.
Proof.
  intros H Hl. rewrite !cid_parent_div by lia. pose proof (lsbL_pos l Hl).
  pose proof (Z.div_le_mono c c' (2 * lsbL l) ltac:(lia) ltac:(lia)). nia.
Qed.

Lemma cid_next_valid c L : valid_at c L -> cid_next c = c + 2 * lsbL L.
Proof.
  intros V. unfold cid_next. rewrite (cid_lsb_valid c L V). rewrite Z.shiftl_mul_pow2 by lia. change (2 ^ 1) with 2.
  pose proof (lsbL_le_2_60 L (proj1 V)). pose proof (lsbL_pos L (proj1 V)). destruct V as (_ & Hc & _). pose proof pow_facts.
  replace (c + lsbL L * 2) with (c + 2 * lsbL L) by lia. apply Z.mod_small. lia.
Qed.

(** bits: two numbers agree above the highest bit of their xor *)
Lemma lxor_high_agree a b k : 0 <= a -> 0 <= b -> 0 <= k -> Z.lxor a b < 2 ^ k -> a / 2 ^ k = b / 2 ^ k.
Proof.
  intros Ha Hb Hk H. rewrite <- !Z.shiftr_div_pow2 by lia.
  apply Z.lxor_eq. rewrite <- Z.shiftr_lxor. rewrite Z.shiftr_div_pow2 by lia.
  apply Z.div_small. split; [apply Z.lxor_nonneg; lia|exact H].
Qed.
Lemma lxor_agree_small a b k : 0 <= a -> 0 <= b -> 0 <= k -> a / 2 ^ k = b / 2 ^ k -> Z.lxor a b < 2 ^ k.
Proof.
  intros Ha Hb Hk H.
  assert (N : 0 <= Z.lxor a b) by (apply Z.lxor_nonneg; lia).
  assert (E : Z.lxor a b / 2 ^ k = 0).
  { rewrite <- Z.shiftr_div_pow2 by lia. rewrite Z.shiftr_lxor. rewrite !Z.shiftr_div_pow2 by lia. rewrite H. apply Z.lxor_nilpotent. }
  pose proof (Z.div_mod (Z.lxor a b) (2 ^ k) ltac:(apply Z.pow_nonzero; lia)) as DM. rewrite E in DM.
  pose proof (Z.mod_pos_bound (Z.lxor a b) (2 ^ k) ltac:(apply Z.pow_pos_nonneg; lia)). lia.
Qed.

Lemma lsbL_mono l L : 0 <= l <= L -> L <= 30 -> lsbL L <= lsbL l.
Proof. intros H H'. unfold lsbL. apply Z.pow_le_mono_r; lia. Qed.
Lemma lsbL_mono4 l L : 0 <= l < L -> L <= 30 -> 4 * lsbL L <= lsbL l.
Proof.
  intros H H'. pose proof (lsbL_step (L - 1) ltac:(lia)) as S. replace (L - 1 + 1) with L in S by lia.
  rewrite <- S. apply lsbL_mono; lia.
Qed.

Lemma cal_bits a La b Lb : valid_at a La -> valid_at b Lb ->
  let bits0 := Z.lxor a b in
  let bits1 := if bits0 <? cid_lsb a then cid_lsb a else bits0 in
  let bits2 := if bits1 <? cid_lsb b then cid_lsb b else bits1 in
  lsbL La <= bits2 /\ lsbL Lb <= bits2 /\ Z.lxor a b <= bits2 /\
  (forall B, Z.lxor a b < B -> lsbL La < B -> lsbL Lb < B -> bits2 < B).
Proof.
  intros Va Vb. cbn zeta. rewrite (cid_lsb_valid a La Va), (cid_lsb_valid b Lb Vb).
  destruct (Z.ltb_spec (Z.lxor a b) (lsbL La)) as [A|A];
    [destruct (Z.ltb_spec (lsbL La) (lsbL Lb))|destruct (Z.ltb_spec (Z.lxor a b) (lsbL Lb))]; repeat split; intros; lia.
Qed.

Lemma cal_common a La b Lb l : valid_at a La -> valid_at b Lb ->
  cid_common_ancestor_level a b = (l, true) ->
  0 <= l <= La /\ l <= Lb /\ cid_parent a l = cid_parent b l.
Proof.
  intros Va Vb H. unfold cid_common_ancestor_level in H.
  destruct (cal_bits a La b Lb Va Vb) as (B1 & B2 & B3 & _). cbn zeta in B1, B2, B3.
  set (bits2 := if (if Z.lxor a b <? cid_lsb a then cid_lsb a else Z.lxor a b) <? cid_lsb b then cid_lsb b
                else (if Z.lxor a b <? cid_lsb a then cid_lsb a else Z.lxor a b)) in *.
  destruct (Z.log2 bits2 >? 60) eqn:E; [discriminate|].
  assert (El : l = Z.shiftr (60 - Z.log2 bits2) 1) by congruence. clear H.
  assert (HLa : 0 <= La <= 30) by apply Va. assert (HLb : 0 <= Lb <= 30) by apply Vb.
  pose proof (lsbL_pos La HLa) as Pa.
  assert (M60 : Z.log2 bits2 <= 60) by lia. pose proof (Z.log2_nonneg bits2) as M0.
  set (m := Z.log2 bits2) in *. rewrite Z.shiftr_div_pow2 in El by lia. change (2 ^ 1) with 2 in El.
  assert (Hl : 0 <= l <= 30 /\ 2 * l <= 60 - m) by (subst l; split; [split|]; [apply Z.div_pos; lia|apply Z.div_le_upper_bound; lia|apply Z.mul_div_le; lia]).
  clear El.
  assert (Ub : bits2 < 2 * lsbL l).
  { rewrite (lsbL_pow2 l (proj1 Hl)). replace (2 * 2 ^ (2 * (30 - l))) with (2 ^ (61 - 2 * l)) by (rewrite <- Z.pow_succ_r by lia; f_equal; lia).
    apply Z.lt_le_trans with (2 ^ (m + 1)); [apply Z.log2_spec; lia|apply Z.pow_le_mono_r; lia]. }
  assert (LA : l <= La).
  { destruct (Z.le_gt_cases l La) as [|G]; [assumption|]. pose proof (lsbL_mono4 La l ltac:(lia) ltac:(lia)). lia. }
  assert (LB : l <= Lb).
  { destruct (Z.le_gt_cases l Lb) as [|G]; [assumption|]. pose proof (lsbL_pos Lb HLb). pose proof (lsbL_mono4 Lb l ltac:(lia) ltac:(lia)). lia. }
  split; [lia|]. split; [exact LB|].
  rewrite (cid_parent_div a l ltac:(destruct Va; lia) ltac:(lia)), (cid_parent_div b l ltac:(destruct Vb; lia) ltac:(lia)).
  assert (E2 : a / (2 * lsbL l) = b / (2 * lsbL l)).
  { rewrite (lsbL_pow2 l (proj1 Hl)). replace (2 * 2 ^ (2 * (30 - l))) with (2 ^ (61 - 2 * l)) by (rewrite <- Z.pow_succ_r by lia; f_equal; lia).
    apply lxor_high_agree; [destruct Va; lia|destruct Vb; lia|lia|].
    rewrite (lsbL_pow2 l (proj1 Hl)) in Ub. replace (2 * 2 ^ (2 * (30 - l))) with (2 ^ (61 - 2 * l)) in Ub by (rewrite <- Z.pow_succ_r by lia; f_equal; lia). lia. }
  rewrite E2. reflexivity.
Qed.

Lemma cal_ok a La b Lb P Lp : valid_at a La -> valid_at b Lb -> valid_at P Lp ->
  P - lsbL Lp + 1 <= a <= P + lsbL Lp - 1 -> P - lsbL Lp + 1 <= b <= P + lsbL Lp - 1 ->
  exists l, cid_common_ancestor_level a b = (l, true).
Proof.
  intros Va Vb VP Ra Rb. unfold cid_common_ancestor_level.
  destruct (cal_bits a La b Lb Va Vb) as (B1 & _ & _ & Bub). cbn zeta in B1, Bub.
  set (bits2 := if (if Z.lxor a b <? cid_lsb a then cid_lsb a else Z.lxor a b) <? cid_lsb b then cid_lsb b
                else (if Z.lxor a b <? cid_lsb a then cid_lsb a else Z.lxor a b)) in *.
  assert (HLp : 0 <= Lp <= 30) by apply VP. pose proof (lsbL_pos Lp HLp) as Pp.
  assert (Hx : Z.lxor a b < 2 ^ 61).
  { apply Z.lt_le_trans with (2 ^ (61 - 2 * Lp)); [|apply Z.pow_le_mono_r; lia].
    apply lxor_agree_small; [destruct Va; lia|destruct Vb; lia|lia|].
    replace (2 ^ (61 - 2 * Lp)) with (2 * lsbL Lp) by (rewrite (lsbL_pow2 Lp HLp), <- Z.pow_succ_r by lia; f_equal; lia).
    destruct (valid_at_odd_mult P Lp VP) as (k & Hk & EP).
    assert (Ea : a / (2 * lsbL Lp) = k) by (symmetry; apply (Z.div_unique a (2 * lsbL Lp) k (a - 2 * lsbL Lp * k)); nia).
    assert (Eb : b / (2 * lsbL Lp) = k) by (symmetry; apply (Z.div_unique b (2 * lsbL Lp) k (b - 2 * lsbL Lp * k)); nia).
    congruence. }
  assert (bits2 < 2 ^ 61).
  { apply Bub; [exact Hx| |]; pose proof pow_facts.
    - pose proof (lsbL_le_2_60 La (proj1 Va)). lia.
    - pose proof (lsbL_le_2_60 Lb (proj1 Vb)). lia. }
  pose proof (lsbL_pos La (proj1 Va)).
  assert (Z.log2 bits2 < 61) by (apply Z.log2_lt_pow2; lia).
  destruct (Z.log2 bits2 >? 60) eqn:E; [lia|]. eexists. reflexivity.
Qed.

Lemma cid_lsb_odd c : c mod 2 = 1 -> cid_lsb c = 1.
Proof.
  intros H. unfold cid_lsb. pose proof (Z.div_mod c 2 ltac:(lia)) as E. rewrite H in E.
  rewrite E. apply C11_Bits.land_opp_odd.
Qed.

Section Cover.
  Variable x : index.
  Hypothesis WF : IndexWF x.
  Notation len := (length (x_cells x)).
  Notation rep := C08_Opt.rep.
  Notation good := (centry_good x).

  (** addInitialRange(first, last) for two index cells under a common valid cell *)
  Lemma initial_range_sound a b P Lp : (a <= b)%nat -> (b < len)%nat -> valid_at P Lp ->
    P - lsbL Lp + 1 <= it_id x a <= P + lsbL Lp - 1 -> P - lsbL Lp + 1 <= it_id x b <= P + lsbL Lp - 1 ->
    good (initial_range x a b) /\ forall j, (a <= j <= b)%nat -> rep (initial_range x a b) (cell_at x j).
  Proof.
    intros Hab Hb VP Ra Rb. assert (Ha : (a < len)%nat) by lia.
    destruct (id_valid x WF a Ha) as (La & Va). destruct (id_valid x WF b Hb) as (Lb & Vb).
    unfold initial_range. destruct (it_id x a =? it_id x b) eqn:E.
    - apply Z.eqb_eq in E.
      assert (a = b).
      { destruct (Nat.eq_dec a b) as [|N]; [assumption|]. pose proof (ids_increasing x WF a b ltac:(lia)). lia. }
      subst b. split.
      + split; [exists La; exact Va|]. split; [|cbn; discriminate].
        intros es H. cbn in H. injection H as <-.
        exists (cell_at x a). split; [apply cell_at_in; exact Ha|]. cbn. rewrite <- it_id_at, it_cell_at. auto.
      + intros j Hj. assert (j = a) by lia. subst j. left. cbn. split; [apply it_id_at|rewrite it_cell_at; reflexivity].
    - apply Z.eqb_neq in E. assert (Lt : (a < b)%nat).
      { destruct (Nat.eq_dec a b) as [->|N]; [congruence|lia]. }
      destruct (cal_ok _ La _ Lb P Lp Va Vb VP Ra Rb) as (l & El). rewrite El. cbn [fst].
      destruct (cal_common _ La _ Lb l Va Vb El) as (Hl & Hlb & Ep).
      set (T := cid_parent (it_id x a) l) in *.
      assert (VT : valid_at T l) by (apply (cid_parent_valid _ La); [exact Va|lia]).
      pose proof (cid_parent_range _ La l Va ltac:(lia)) as Pa. fold T in Pa.
      pose proof (cid_parent_range _ Lb l Vb ltac:(lia)) as Pb. rewrite <- Ep in Pb.
      pose proof (lsbL_pos La (proj1 Va)) as Wa. pose proof (lsbL_pos Lb (proj1 Vb)) as Wb.
      assert (In_T : forall j, (a <= j <= b)%nat -> cid_range_min T <= it_id x j <= cid_range_max T).
      { intros j Hj. rewrite (cid_range_min_valid T l VT), (cid_range_max_valid T l VT).
        pose proof (ids_monotone x WF a j ltac:(lia) ltac:(lia)). pose proof (ids_monotone x WF j b ltac:(lia) Hb). lia. }
      assert (NT : forall j, (a <= j <= b)%nat -> T <> it_id x j).
      { intros j Hj ET.
        assert (a = j) by (apply (same_position x WF a j Ha ltac:(lia)); rewrite <- ET; apply In_T; lia).
        assert (b = j) by (apply (same_position x WF b j Hb ltac:(lia)); rewrite <- ET; apply In_T; lia). lia. }
      split.
      + split; [exists l; exact VT|]. split; [cbn; discriminate|].
        intros _. exists (cell_at x a). split; [apply cell_at_in; exact Ha|]. right. cbn. rewrite <- it_id_at.
        split; [reflexivity|]. split; [apply contains_iff; apply In_T; lia|apply NT; lia].
      + intros j Hj. right. cbn. rewrite <- it_id_at.
        split; [reflexivity|]. split; [apply contains_iff; apply In_T; exact Hj|apply NT; exact Hj].
  Qed.

  (** no index cell sits on the boundary id between two adjacent cells of a level it does not exceed *)
  Lemma no_gap d Ld id level : valid_at d Ld -> level <= Ld -> valid_at id level -> d <> id + lsbL level.
  Proof.
    intros Vd Hl Vi E. assert (H0 : 0 <= level <= 30) by apply Vi. pose proof (lsbL_pos level H0) as Pw.
    pose proof (cid_parent_range d Ld level Vd ltac:(lia)) as R.
    pose proof (cid_parent_valid d Ld level Vd ltac:(lia)) as VT.
    destruct (valid_at_odd_mult _ _ VT) as (j & Hj & ET). destruct (valid_at_odd_mult _ _ Vi) as (k & Hk & Ei).
    pose proof (lsbL_pos Ld (proj1 Vd)). rewrite ET in R. subst d. rewrite Ei in R.
    set (w := lsbL level) in *. assert (j <= k) by nia. assert (k < j) by nia. lia.
  Qed.

  Section Loop.
    Variable level : Z.
    Hypothesis Hlevel : 0 <= level <= 30.
    Hypothesis AllDeep : forall j, (j < len)%nat -> exists Lj, valid_at (it_id x j) Lj /\ level <= Lj.
    Variable last : nat.
    Hypothesis Hlast : (last < len)%nat.
    Notation w := (lsbL level).
    Notation top j := (cid_parent (it_id x j) level).
    Notation last_id := (cid_parent (it_id x last) level).

    Lemma top_valid j : (j < len)%nat -> valid_at (top j) level.
    Proof. intros H. destruct (AllDeep j H) as (Lj & V & Hl). apply (cid_parent_valid _ Lj); [exact V|lia]. Qed.
    Lemma top_range j : (j < len)%nat -> top j - w + 1 <= it_id x j <= top j + w - 1.
    Proof.
      intros H. destruct (AllDeep j H) as (Lj & V & Hl). pose proof (cid_parent_range _ Lj level V ltac:(lia)).
      pose proof (lsbL_pos Lj (proj1 V)). lia.
    Qed.
    Lemma top_mono i j : (i <= j)%nat -> (j < len)%nat -> top i <= top j.
    Proof.
      intros H Hj. apply cid_parent_mono; [|exact Hlevel]. pose proof (ids_monotone x WF i j H Hj).
      destruct (id_valid x WF i ltac:(lia)) as (Li & (_ & ? & _)). lia.
    Qed.
    (** two valid cells of the same level are equal or at least 2w apart *)
    Lemma same_level_step a b : valid_at a level -> valid_at b level -> a < b -> a + 2 * w <= b.
    Proof.
      intros Va Vb H. destruct (valid_at_odd_mult _ _ Va) as (i & _ & Ea). destruct (valid_at_odd_mult _ _ Vb) as (j & _ & Eb).
      pose proof (lsbL_pos level Hlevel). assert (i < j) by nia. nia.
    Qed.

    Lemma loop_sound fuel : forall id next acc,
      (next <= last)%nat -> valid_at id level -> id <= top next -> id <= last_id ->
      last_id - id < Z.of_nat fuel * (2 * w) ->
      (forall ce, In ce acc -> good ce) ->
      (forall j, (j < next)%nat -> exists ce, In ce acc /\ rep ce (cell_at x j)) ->
      let r := init_covering_loop x false fuel id last_id next acc in
      (fst r <= last)%nat /\ top (fst r) = last_id /\
      (forall ce, In ce (snd r) -> good ce) /\
      (forall j, (j < fst r)%nat -> exists ce, In ce (snd r) /\ rep ce (cell_at x j)).
    Proof.
      pose proof (lsbL_pos level Hlevel) as Pw.
      induction fuel as [|f IH]; intros id next acc Hn Vi Ht Hl Hf Ga Ra; [cbn in Hf; lia|].
      cbn [init_covering_loop].
      destruct (id =? last_id) eqn:E.
      { apply Z.eqb_eq in E. cbn. split; [exact Hn|]. split; [|split; assumption].
        pose proof (top_mono next last Hn Hlast). lia. }
      apply Z.eqb_neq in E.
      assert (Vl : valid_at last_id level) by (apply top_valid; exact Hlast).
      pose proof (same_level_step id last_id Vi Vl ltac:(lia)) as Step.
      assert (Vn : valid_at (id + 2 * w) level).
      { destruct Vi as (_ & Hi & Hm). destruct Vl as (_ & Hli & _). split; [exact Hlevel|]. split; [lia|].
        replace (id + 2 * w) with (id + 1 * (2 * w)) by lia. rewrite Z.mod_add by lia. exact Hm. }
      rewrite (cid_next_valid id level Vi).
      assert (Hnl : (next < len)%nat) by lia.
      pose proof (top_valid next Hnl) as Vtn. pose proof (top_range next Hnl) as Rtn.
      rewrite (cid_range_max_valid id level Vi).
      destruct (id + w - 1 <? it_id x next) eqn:E2.
      - (* no index cell in this top-level cell *)
        apply Z.ltb_lt in E2. apply IH; try assumption; try lia.
        destruct (Z.eq_dec id (top next)) as [Et|Nt]; [lia|]. apply (same_level_step id (top next) Vi Vtn). lia.
      - apply Z.ltb_ge in E2.
        (* this top-level cell is the one of [next] *)
        assert (Et : top next = id).
        { destruct (Z.eq_dec id (top next)) as [Et|Nt]; [congruence|].
          pose proof (same_level_step id (top next) Vi Vtn ltac:(lia)). lia. }
        assert (Odd : (id + w - 1) mod 2 = 1).
        { destruct (valid_at_odd_mult id level Vi) as (k & Hk & Ek).
          replace (id + w - 1) with (1 + ((k + 1) * w - 1) * 2) by lia. rewrite Z.mod_add by lia. reflexivity. }
        assert (Enx : cid_next (id + w - 1) = id + w + 1).
        { unfold cid_next. rewrite (cid_lsb_odd _ Odd). change (Z.shiftl 1 1) with 2.
          destruct Vi as (_ & Hi & _). pose proof (lsbL_le_2_60 level Hlevel). pose proof pow_facts.
          replace (id + w + 1) with (id + w - 1 + 2) by lia. apply Z.mod_small. lia. }
        rewrite Enx. set (next' := it_seek x (id + w + 1)).
        assert (Lt : (next < next')%nat) by (apply (seek_gt_pos x WF); [exact Hnl|lia]).
        assert (Le : (next' <= last)%nat).
        { apply (seek_le_pos x); [exact Hlast|]. pose proof (top_range last Hlast). lia. }
        assert (Hin : forall j, (next <= j < next')%nat -> id - w + 1 <= it_id x j <= id + w - 1).
        { intros j Hj. pose proof (seek_before x (id + w + 1) j ltac:(fold next'; lia)) as Sb.
          pose proof (ids_monotone x WF next j ltac:(lia) ltac:(lia)).
          destruct (AllDeep j ltac:(lia)) as (Lj & Vj & Hlj).
          pose proof (no_gap _ Lj id level Vj Hlj Vi). lia. }
        destruct (initial_range_sound next (Nat.pred next') id level ltac:(lia) ltac:(lia) Vi
                    (Hin next ltac:(lia)) (Hin (Nat.pred next') ltac:(lia))) as [G R].
        apply IH; try assumption; try lia.
        + (* the next candidate is at or before the top-level cell of next' *)
          assert (E3 : cid_parent (id + w + 1) level = id + 2 * w).
          { apply cid_parent_unique; [destruct Vi as (_ & ? & _); lia|exact Vn|lia]. }
          rewrite <- E3. apply cid_parent_mono; [|exact Hlevel].
          pose proof (seek_at x (id + w + 1) ltac:(fold next'; lia)). fold next' in H. destruct Vi as (_ & ? & _). lia.
        + intros ce H. apply in_app_iff in H. destruct H as [H|[<-|[]]]; [apply Ga; exact H|exact G].
        + intros j Hj. destruct (Nat.lt_ge_cases j next) as [Lj|Gj].
          * destruct (Ra j Lj) as (ce & Hce & Rce). exists ce. split; [apply in_app_iff; left; exact Hce|exact Rce].
          * exists (initial_range x next (Nat.pred next')). split; [apply in_app_iff; right; left; reflexivity|apply R; lia].
    Qed.
  End Loop.

  Lemma loop_length fuel : forall id last_id next acc,
    (length (snd (init_covering_loop x false fuel id last_id next acc)) <= length acc + fuel)%nat.
  Proof.
    induction fuel as [|f IH]; intros id last_id next acc; cbn [init_covering_loop]; [cbn; lia|].
    destruct (id =? last_id); [cbn; lia|].
    destruct (cid_range_max id <? it_id x next).
    - specialize (IH (cid_next id) last_id next acc). lia.
    - match goal with |- context [init_covering_loop x false f ?a ?b ?c ?d] => specialize (IH a b c d) end.
      rewrite app_length in IH. cbn in IH. lia.
  Qed.

  (** EdgeQuery.initCovering (repaired) *)
  Theorem init_covering_sound : x_cells x <> [] ->
    (forall ce, In ce (init_covering x false) -> good ce) /\
    (forall c, In c (x_cells x) -> exists ce, In ce (init_covering x false) /\ rep ce c) /\
    (length (init_covering x false) <= 9)%nat.
  Proof.
    intros NE. assert (Hlen : (0 < len)%nat) by (destruct (x_cells x); [congruence|cbn; lia]).
    unfold init_covering. rewrite ids_length.
    set (last := match len with O => O | S k => k end).
    assert (Hlast : (last < len)%nat) by (subst last; destruct len; lia).
    assert (Elast : len = S last) by (subst last; destruct len; lia).
    destruct (id_valid x WF O Hlen) as (L0 & V0). destruct (id_valid x WF last Hlast) as (Ll & Vl).
    destruct (it_id x 0 =? it_id x last) eqn:E; cbn [negb].
    - (* a single index cell *)
      apply Z.eqb_eq in E.
      assert (last = O).
      { destruct (Nat.eq_dec last O) as [|N]; [assumption|]. pose proof (ids_increasing x WF O last ltac:(lia)). lia. }
      cbn [app]. pose proof (lsbL_pos L0 (proj1 V0)).
      destruct (initial_range_sound O last (it_id x 0) L0 ltac:(lia) Hlast V0 ltac:(lia) ltac:(lia)) as [G R].
      split; [intros ce [<-|[]]; exact G|]. split; [|cbn; lia].
      intros c Hc. destruct (in_cell_at x c Hc) as (j & Hj & <-). exists (initial_range x O last).
      split; [left; reflexivity|apply R; lia].
    - apply Z.eqb_neq in E.
      assert (L0l : (0 < last)%nat) by (destruct (Nat.eq_dec last O) as [->|]; [congruence|lia]).
      destruct (cid_common_ancestor_level (it_id x 0) (it_id x last)) as (lv, ok) eqn:Ecal.
      set (level := if ok then lv + 1 else 0).
      (* the level is not deeper than any index cell, and the top-level cells are few *)
      assert (Facts : 0 <= level <= 30 /\
                (forall j, (j < len)%nat -> exists Lj, valid_at (it_id x j) Lj /\ level <= Lj) /\
                cid_parent (it_id x last) level - cid_parent (it_id x 0) level < 8 * (2 * lsbL level)).
      { destruct ok; subst level; cbv iota.
        - destruct (cal_common _ L0 _ Ll lv V0 Vl Ecal) as (Hlv & Hlv' & Ep).
          set (P := cid_parent (it_id x 0) lv) in *.
          assert (VP : valid_at P lv) by (apply (cid_parent_valid _ L0); [exact V0|lia]).
          pose proof (cid_parent_range _ L0 lv V0 ltac:(lia)) as R0. fold P in R0.
          pose proof (cid_parent_range _ Ll lv Vl ltac:(lia)) as Rl. rewrite <- Ep in Rl.
          pose proof (lsbL_pos L0 (proj1 V0)). pose proof (lsbL_pos Ll (proj1 Vl)).
          assert (InP : forall j, (j < len)%nat -> P - lsbL lv + 1 <= it_id x j <= P + lsbL lv - 1).
          { intros j Hj. pose proof (ids_monotone x WF O j ltac:(lia) Hj). pose proof (ids_monotone x WF j last ltac:(lia) Hlast). lia. }
          assert (Deep : forall j, (j < len)%nat -> exists Lj, valid_at (it_id x j) Lj /\ lv + 1 <= Lj).
          { intros j Hj. destruct (id_valid x WF j Hj) as (Lj & Vj). exists Lj. split; [exact Vj|].
            destruct (id_in_range_nested P lv _ Lj VP Vj (InP j Hj)) as (Hle & N1 & N2).
            destruct (Z.eq_dec lv Lj) as [Eq|]; [|lia]. exfalso. subst Lj.
            assert (EP : it_id x j = P) by lia.
            assert (O = j) by (apply (same_position x WF O j Hlen Hj); rewrite EP, (cid_range_min_valid P lv VP), (cid_range_max_valid P lv VP); apply InP; exact Hlen).
            assert (last = j) by (apply (same_position x WF last j Hlast Hj); rewrite EP, (cid_range_min_valid P lv VP), (cid_range_max_valid P lv VP); apply InP; exact Hlast).
            lia. }
          destruct (Deep O Hlen) as (L0' & V0' & D0).
          assert (H30 : 0 <= lv + 1 <= 30) by (destruct V0'; lia).
          split; [exact H30|]. split; [exact Deep|].
          (* both top-level cells are children of P *)
          pose proof (lsbL_step lv ltac:(lia)) as St. pose proof (lsbL_pos (lv + 1) H30) as Pw.
          destruct (valid_at_odd_mult P lv VP) as (k & Hk & EP). rewrite St in EP.
          set (w := lsbL (lv + 1)) in *.
          rewrite !cid_parent_div by (try (destruct V0 as (_ & ? & _); lia); try (destruct Vl as (_ & ? & _); lia); exact H30). fold w.
          pose proof (InP O Hlen) as I0. pose proof (InP last Hlast) as Il. rewrite St in I0, Il. fold w in I0, Il.
          assert (4 * k <= it_id x 0 / (2 * w)) by (apply Z.div_le_lower_bound; nia).
          assert (it_id x last / (2 * w) < 4 * k + 4) by (apply Z.div_lt_upper_bound; nia).
          set (qa := it_id x 0 / (2 * w)) in *. set (qb := it_id x last / (2 * w)) in *.
          assert (qb - qa <= 3) by lia. replace (2 * w * qb + w - (2 * w * qa + w)) with (2 * w * (qb - qa)) by ring. nia.
        - split; [lia|]. split.
          + intros j Hj. destruct (id_valid x WF j Hj) as (Lj & Vj). exists Lj. split; [exact Vj|apply Vj].
          + rewrite !cid_parent_div by (try (destruct V0 as (_ & ? & _); lia); try (destruct Vl as (_ & ? & _); lia); lia).
            assert (Ew : lsbL 0 = 2 ^ 60) by (rewrite lsbL_pow2 by lia; reflexivity). rewrite Ew.
            pose proof pow_facts as (F60 & F61 & _).
            assert (0 <= it_id x 0 / (2 * 2 ^ 60)) by (apply Z.div_pos; [destruct V0 as (_ & ? & _); lia|lia]).
            assert (it_id x last / (2 * 2 ^ 60) < 6) by (apply Z.div_lt_upper_bound; [lia|destruct Vl as (_ & ? & _); lia]).
            lia. }
      destruct Facts as (Hlevel & AllDeep & Few).
      pose proof (loop_sound level Hlevel AllDeep last Hlast 8 (cid_parent (it_id x 0) level) O []) as LS.
      pose proof (loop_length 8 (cid_parent (it_id x 0) level) (cid_parent (it_id x last) level) O []) as LL.
      destruct (init_covering_loop x false 8 (cid_parent (it_id x 0) level) (cid_parent (it_id x last) level) 0 []) as (next', acc').
      cbn [fst snd] in LS, LL.
      destruct LS as (Hn' & Etop & Gacc & Racc).
      + lia.
      + apply (top_valid level Hlevel AllDeep last Hlast O Hlen).
      + lia.
      + apply cid_parent_mono; [|exact Hlevel]. pose proof (ids_monotone x WF O last ltac:(lia) Hlast). destruct V0 as (_ & ? & _). lia.
      + exact Few.
      + intros ce [].
      + intros j Hj. lia.
      + pose proof (top_valid level Hlevel AllDeep last Hlast last Hlast) as Vlid.
        pose proof (top_range level Hlevel AllDeep last Hlast next' ltac:(lia)) as Rn. rewrite Etop in Rn.
        pose proof (top_range level Hlevel AllDeep last Hlast last Hlast) as Rl.
        destruct (initial_range_sound next' last _ level Hn' Hlast Vlid Rn Rl) as [G R].
        split; [|split].
        * intros ce H. apply in_app_iff in H. destruct H as [H|[<-|[]]]; [apply Gacc; exact H|exact G].
        * intros c Hc. destruct (in_cell_at x c Hc) as (j & Hj & <-).
          destruct (Nat.lt_ge_cases j next') as [Lj|Gj].
          -- destruct (Racc j Lj) as (ce & Hce & Rce). exists ce. split; [apply in_app_iff; left; exact Hce|exact Rce].
          -- exists (initial_range x next' last). split; [apply in_app_iff; right; left; reflexivity|apply R; lia].
        * rewrite app_length. cbn in LL |- *. lia.
  Qed.
End Cover.
