(** C11 — s2intersect.Find before commit aa117fb (no [lastStart <= endLeaf] guard) reports an
    intersection with an EMPTY cell union: refutation of [find_spec] for the old code. *)
From Coq Require Import ZArith List Bool Lia ZifyBool.
From Geo Require Import Base.GoPrim Gen.CellID Model.CellUnion Model.Intersect Proofs.C11_Bits.
Import ListNotations.
Local Open Scope Z_scope.

Local Ltac u64_lit := unfold u64; split; [apply Z.leb_le|apply Z.ltb_lt]; vm_compute; reflexivity.
Local Ltac valid_lit := split; [u64_lit | vm_compute; reflexivity].

Definition old_f0 := 1152921504606846976.
Definition old_witness : list (list Z) :=
  [[old_f0]; [old_f0];
   [288230376151711744; 864691128455135232]; [1441151880758558720; 2017612633061982208]].

Theorem find_old_refuted_witness :
  exists cus, Forall (Forall valid) cus /\ exists S, In (S, []) (s2i_Find_old cus).
Proof.
  exists old_witness. split.
  - unfold old_witness, old_f0.
    repeat (constructor; [repeat (constructor; [valid_lit|]); constructor|]). constructor.
  - exists [0; 1]. vm_compute. tauto.
Qed.
