(** C01 — Advance (the clamped variant): n steps along the Hilbert curve at the level of the cell,
    saturating at the first cell of the level (index 0) and at End(level) (index 6*4^l, one past the
    last cell), for every valid id and every int64 step count.  Proved on the TRANSLATED
    [s2_CellID_Advance] (Gen/CellIDFull.v), so an edit of cellid.go changes the term these proofs are about. *)
From Coq Require Import ZArith List Bool Lia.
From Geo Require Import Base.GoPrim Gen.CellIDFull Proofs.C01_Bits Proofs.C01_Algebra Proofs.C01_Advance.
Import ListNotations.
Local Open Scope Z_scope.

Lemma mod64_add_shift1 : forall c s t, 0 <= c + s * t < 2 ^ 64 ->
  wrap_u64 (c + wrap_u64 (wrap_u64 s * t)) = c + s * t.
Proof.
  intros c s t H. unfold wrap_u64, wrap_u.
  rewrite Z.mul_mod_idemp_l by lia. rewrite Z.add_mod_idemp_r by lia.
  apply Z.mod_small. exact H.
Qed.

(** the clamp: index + n forced into [0, 6*4^l] *)
Definition clamp_index (W x : Z) : Z := Z.max 0 (Z.min W x).

Lemma Advance_index : forall c f l k n, rep c f l k -> - 2 ^ 63 <= n < 2 ^ 63 ->
  s2_CellID_Advance c n = (2 * clamp_index (6 * 4 ^ l) (index f l k + n) + 1) * 4 ^ (30 - l).
Proof.
  intros c f l k n H Hn.
  pose proof H as (Hf & Hl & Hk & _). pose proof (index_bounds f l k Hf ltac:(lia) Hk) as Hi.
  pose proof (pow4_pos l ltac:(lia)) as HB. pose proof (pow4_pos (30 - l) ltac:(lia)) as Hb.
  pose proof (pow4_split l Hl) as Hs. pose proof (rep_index_form _ _ _ _ H) as Ec.
  pose proof (rep_wrap _ _ _ _ H) as Wc. pose proof (rep_u64 _ _ _ _ H) as Hcu.
  set (i := index f l k) in *. set (b := 4 ^ (30 - l)) in *. set (B := 4 ^ l) in *. set (W := 6 * B) in *.
  assert (HBle : B <= 2 ^ 60).
  { rewrite <- Hs. replace B with (B * 1) at 1 by ring. apply Z.mul_le_mono_nonneg_l; lia. }
  assert (Hble : b <= 2 ^ 60).
  { rewrite <- Hs. replace b with (1 * b) at 1 by ring. apply Z.mul_le_mono_nonneg_r; lia. }
  change (2 ^ 60) with 1152921504606846976 in HBle, Hble. change (2 ^ 63) with 9223372036854775808 in Hn.
  change (6 * 2 ^ 61) with 13835058055282163712 in Hcu.
  unfold clamp_index.
  destruct (Z.eq_dec n 0) as [->|Hn0].
  { unfold s2_CellID_Advance. cbn [Z.eqb]. rewrite Z.add_0_r.
    rewrite Z.min_r by lia. rewrite Z.max_r by lia. exact Ec. }
  unfold s2_CellID_Advance. replace (n =? 0) with false by (symmetry; apply Z.eqb_neq; exact Hn0).
  cbv zeta. rewrite (Level_rep _ _ _ _ H), (lsb_rep _ _ _ _ H), Wc. fold b.
  assert (Hsh : wrap_u64 (wrap_i64 (wrap_i64 (2 * wrap_i64 (30 - l)) + 1)) = 2 * (30 - l) + 1).
  { rewrite (wrap_i64_small (30 - l)) by (change (2 ^ 63) with 9223372036854775808; lia).
    rewrite (wrap_i64_small (2 * (30 - l))) by (change (2 ^ 63) with 9223372036854775808; lia).
    rewrite (wrap_i64_small (2 * (30 - l) + 1)) by (change (2 ^ 63) with 9223372036854775808; lia).
    apply wrap_u64_small. change (2 ^ 64) with 18446744073709551616. lia. }
  rewrite Hsh. set (sh := 2 * (30 - l) + 1).
  assert (Hp : 2 ^ sh = 2 * b).
  { unfold sh, b. rewrite Z.pow_add_r by lia. rewrite <- pow4_pow2 by lia. change (2 ^ 1) with 2. ring. }
  rewrite !go_shr_div by (unfold sh; lia). rewrite go_shl_mul by (unfold sh; lia). rewrite Hp.
  assert (E1 : c / (2 * b) = i).
  { symmetry. apply (Z.div_unique c (2 * b) i b); [left; lia|]. rewrite Ec. ring. }
  assert (E3 : wrap_u64 (wrap_u64 (13835058055282163712 + b) - c) / (2 * b) = W - i).
  { assert (E : 13835058055282163712 + b - c = (W - i) * (2 * b)).
    { change 13835058055282163712 with (6 * 2 * 2 ^ 60). rewrite <- Hs, Ec. unfold W. ring. }
    rewrite (wrap_u64_small (13835058055282163712 + b)) by (change (2 ^ 64) with 18446744073709551616; lia).
    rewrite wrap_u64_small by (change (2 ^ 64) with 18446744073709551616; lia).
    rewrite E. apply Z.div_mul. lia. }
  rewrite E1, E3.
  assert (HW : 0 < W <= 6 * 1152921504606846976) by (unfold W; lia).
  rewrite (wrap_i64_small i) by (change (2 ^ 63) with 9223372036854775808; lia).
  rewrite (wrap_i64_small (- i)) by (change (2 ^ 63) with 9223372036854775808; lia).
  rewrite (wrap_i64_small (W - i)) by (change (2 ^ 63) with 9223372036854775808; lia).
  set (s' := if n <? 0 then (if n <? - i then - i else n) else (if W - i <? n then W - i else n)).
  assert (Hs' : i + s' = Z.max 0 (Z.min W (i + n))).
  { unfold s'. destruct (n <? 0) eqn:En; [apply Z.ltb_lt in En|apply Z.ltb_ge in En].
    - destruct (n <? - i) eqn:E4; [apply Z.ltb_lt in E4|apply Z.ltb_ge in E4]; lia.
    - destruct (W - i <? n) eqn:E4; [apply Z.ltb_lt in E4|apply Z.ltb_ge in E4]; lia. }
  fold s'. rewrite <- Hs'.
  assert (Hrange : 0 <= i + s' <= W) by lia.
  assert (Eres : c + s' * (2 * b) = (2 * (i + s') + 1) * b) by (rewrite Ec; ring).
  rewrite <- Eres. apply mod64_add_shift1. rewrite Eres.
  split; [apply Z.mul_nonneg_nonneg; lia|].
  assert ((2 * (i + s') + 1) * b <= (2 * W + 1) * b) by (apply Z.mul_le_mono_nonneg_r; lia).
  change (2 ^ 64) with (16 * 2 ^ 60). rewrite <- Hs. unfold W in *.
  assert (0 < B * b) by (apply Z.mul_pos_pos; lia).
  assert (b <= B * b) by (replace b with (1 * b) at 1 by ring; apply Z.mul_le_mono_nonneg_r; lia).
  lia.
Qed.

(** inside the level Advance and AdvanceWrap are the same cell, and it is a valid cell of the level *)
Lemma Advance_in_range : forall c f l k n, rep c f l k -> - 2 ^ 63 <= n < 2 ^ 63 ->
  0 <= index f l k + n < 6 * 4 ^ l ->
  s2_CellID_Advance c n = s2_CellID_AdvanceWrap c n /\
  rep (s2_CellID_Advance c n) ((index f l k + n) / 4 ^ l) l ((index f l k + n) mod 4 ^ l).
Proof.
  intros c f l k n H Hn Hi.
  rewrite (Advance_index _ _ _ _ _ H Hn), (AdvanceWrap_index _ _ _ _ _ H Hn).
  unfold clamp_index. rewrite Z.min_r by lia. rewrite Z.max_r by lia. rewrite Z.mod_small by lia.
  split; [reflexivity|]. pose proof H as (_ & Hl & _). apply rep_of_index; [lia|exact Hi].
Qed.

(** saturation: at or beyond the ends the result is the first cell of the level, resp. End(level)
    = wrapOffset + lsb, which is NOT a cell id of the level (its face field is 6) *)
Lemma Advance_saturates : forall c f l k n, rep c f l k -> - 2 ^ 63 <= n < 2 ^ 63 ->
  (index f l k + n <= 0 -> s2_CellID_Advance c n = 4 ^ (30 - l)) /\
  (6 * 4 ^ l <= index f l k + n -> s2_CellID_Advance c n = 6 * 2 ^ 61 + 4 ^ (30 - l)).
Proof.
  intros c f l k n H Hn. pose proof H as (Hf & Hl & Hk & _).
  pose proof (pow4_pos l ltac:(lia)) as HB. pose proof (pow4_split l Hl) as Hs.
  rewrite (Advance_index _ _ _ _ _ H Hn). unfold clamp_index. split; intros Hi.
  - rewrite Z.min_r by lia. rewrite Z.max_l by lia. ring.
  - rewrite Z.min_l by lia. rewrite Z.max_r by lia.
    change (2 ^ 61) with (2 * 2 ^ 60). rewrite <- Hs. ring.
Qed.

(** Advance by +-1 is Next / Prev (Next of the last cell is End(level)); monotone in the step count;
    composition inside the level *)
Lemma Advance_one : forall c f l k, rep c f l k ->
  s2_CellID_Advance c 1 = s2_CellID_Next c /\
  (0 < index f l k -> s2_CellID_Advance c (-1) = s2_CellID_Prev c).
Proof.
  intros c f l k H. pose proof H as (Hf & Hl & Hk & _).
  pose proof (index_bounds f l k Hf ltac:(lia) Hk) as Hi. split.
  - rewrite (Advance_index _ _ _ _ 1 H) by (vm_compute; split; congruence).
    unfold clamp_index. rewrite Z.min_r by lia. rewrite Z.max_r by lia.
    rewrite (Next_eq _ _ _ _ H). rewrite (rep_index_form _ _ _ _ H) at 1. ring.
  - intros Hpos. rewrite (Advance_index _ _ _ _ (-1) H) by (vm_compute; split; congruence).
    unfold clamp_index. rewrite Z.min_r by lia. rewrite Z.max_r by lia.
    rewrite (Prev_eq _ _ _ _ H). pose proof (pow4_pos (30 - l) ltac:(lia)) as Hb.
    pose proof (rep_u64 _ _ _ _ H) as Hcu. pose proof (rep_index_form _ _ _ _ H) as Ec.
    assert (Hge : 3 * 4 ^ (30 - l) <= c) by (rewrite Ec; apply Z.mul_le_mono_nonneg_r; lia).
    rewrite wrap_u64_small by (change (2 ^ 64) with (8 * 2 ^ 61); lia).
    rewrite Ec at 1. ring.
Qed.

Lemma Advance_monotone : forall c f l k n m, rep c f l k ->
  - 2 ^ 63 <= n < 2 ^ 63 -> - 2 ^ 63 <= m < 2 ^ 63 -> n <= m ->
  s2_CellID_Advance c n <= s2_CellID_Advance c m.
Proof.
  intros c f l k n m H Hn Hm Hnm. pose proof H as (_ & Hl & _).
  pose proof (pow4_pos (30 - l) ltac:(lia)) as Hb.
  rewrite (Advance_index _ _ _ _ _ H Hn), (Advance_index _ _ _ _ _ H Hm).
  apply Z.mul_le_mono_nonneg_r; [lia|]. unfold clamp_index. lia.
Qed.

Lemma Advance_compose : forall c f l k n m, rep c f l k ->
  - 2 ^ 63 <= n < 2 ^ 63 -> - 2 ^ 63 <= m < 2 ^ 63 -> - 2 ^ 63 <= n + m < 2 ^ 63 ->
  0 <= index f l k + n < 6 * 4 ^ l ->
  s2_CellID_Advance (s2_CellID_Advance c n) m = s2_CellID_Advance c (n + m).
Proof.
  intros c f l k n m H Hn Hm Hnm Hi.
  destruct (Advance_in_range _ _ _ _ _ H Hn Hi) as [_ R].
  rewrite (Advance_index _ _ _ _ _ R Hm). rewrite (Advance_index _ _ _ _ _ H Hnm).
  pose proof H as (_ & Hl & _). pose proof (pow4_pos l ltac:(lia)).
  unfold index at 1. rewrite (Z.mul_comm (_ / 4 ^ l)). rewrite <- Z.div_mod by lia.
  f_equal. f_equal. f_equal. f_equal. ring.
Qed.

(** the premises are satisfiable: face 3, level 2, position 5, stepping past both ends *)
Example advance_clamp_example :
  rep 7710162562058289152 3 2 5 /\
  s2_CellID_Advance 7710162562058289152 1000 = 6 * 2 ^ 61 + 4 ^ 28 /\
  s2_CellID_Advance 7710162562058289152 (-1000) = 4 ^ 28 /\
  s2_CellID_Advance 7710162562058289152 3 = (2 * (3 * 16 + 5 + 3) + 1) * 4 ^ 28.
Proof. unfold rep. vm_compute. repeat split; congruence. Qed.
