(** C07 — nesting discovery (Model/Nest.v): if [nested] is a strict partial order whose
    up-sets are chains (a laminar family — what ContainsNested is on valid polygon input), then
    after initNested every loop's depth is the number of loops that contain it, so a loop is a
    hole iff an odd number of other loops enclose it, and the loop order is a pre-order
    traversal: each loop after all loops that contain it. Closed: induction on the insertion
    sequence, no geometric premise. *)
From Coq Require Import List Bool Arith Lia Permutation.
From Geo Require Import Model.Nest.
Import ListNotations.

Lemma node_eqb_spec a b : node_eqb a b = true <-> a = b.
Proof.
  destruct a as [x|], b as [y|]; simpl; try (split; congruence).
  rewrite Nat.eqb_eq. split; congruence.
Qed.
Lemma node_eqb_refl a : node_eqb a a = true.
Proof. now apply node_eqb_spec. Qed.
Lemma node_eqb_neq a b : a <> b -> node_eqb a b = false.
Proof. intro H. destruct (node_eqb a b) eqn:E; [|reflexivity]. now apply node_eqb_spec in E. Qed.

Lemma filter_length_le {A} (f g : A -> bool) (l : list A) :
  (forall x, In x l -> f x = true -> g x = true) -> length (filter f l) <= length (filter g l).
Proof.
  induction l as [|x t IH]; intros H; [simpl; lia|]. simpl.
  assert (IH' := IH (fun y Hy => H y (or_intror Hy))).
  destruct (f x) eqn:Ef; [rewrite (H x (or_introl eq_refl) Ef); simpl; lia|].
  destruct (g x); simpl; lia.
Qed.

Lemma filter_length_lt {A} (f g : A -> bool) (l : list A) z :
  (forall x, In x l -> f x = true -> g x = true) -> In z l -> f z = false -> g z = true ->
  length (filter f l) < length (filter g l).
Proof.
  induction l as [|x t IH]; intros H Hz Fz Gz; [destruct Hz|]. simpl.
  assert (H' : forall y, In y t -> f y = true -> g y = true) by (intros y Hy; apply H; now right).
  destruct Hz as [->|Hz].
  - rewrite Fz, Gz. simpl. pose proof (filter_length_le f g t H'). lia.
  - specialize (IH H' Hz Fz Gz). destruct (f x) eqn:Ef.
    + rewrite (H x (or_introl eq_refl) Ef). simpl. lia.
    + destruct (g x); simpl; lia.
Qed.

(** [f] accepts exactly what [g] accepts plus the single element [q] of a duplicate-free list *)
Lemma filter_length_succ (f g : nat -> bool) (l : list nat) q :
  NoDup l -> In q l -> g q = false ->
  (forall x, In x l -> f x = (g x || Nat.eqb x q)) ->
  length (filter f l) = S (length (filter g l)).
Proof.
  induction l as [|x t IH]; intros ND Hq Gq H; [destruct Hq|].
  inversion ND as [|? ? Hx ND']; subst. simpl.
  assert (H' : forall y, In y t -> f y = (g y || Nat.eqb y q)) by (intros y Hy; apply H; now right).
  rewrite (H x (or_introl eq_refl)). destruct Hq as [->|Hq].
  - rewrite Gq, Nat.eqb_refl. simpl. f_equal.
    assert (E : filter f t = filter g t).
    { apply filter_ext_in. intros y Hy. rewrite (H' y Hy).
      assert (y <> q) by (intro; subst; contradiction).
      apply Nat.eqb_neq in H0. rewrite H0. apply orb_false_r. }
    now rewrite E.
  - assert (x <> q) by (intro; subst; contradiction). apply Nat.eqb_neq in H0. rewrite H0, orb_false_r.
    specialize (IH ND' Hq Gq H'). destruct (g x); simpl; lia.
Qed.

Section NestProof.
  Variable nested : nat -> nat -> bool.
  Hypothesis nested_irrefl : forall a, nested a a = false.
  Hypothesis nested_trans : forall a b c, nested a b = true -> nested b c = true -> nested a c = true.
  (* up-sets are chains: two loops that both contain c are comparable *)
  Hypothesis nested_laminar : forall a b c, nested a c = true -> nested b c = true ->
    a = b \/ nested a b = true \/ nested b a = true.

  Lemma nested_asym a b : nested a b = true -> nested b a = true -> False.
  Proof. intros H1 H2. pose proof (nested_trans _ _ _ H1 H2). now rewrite nested_irrefl in H. Qed.

  (** ancestors of c among the set S, and the (unique) parent node of c with respect to S *)
  Definition anc (S : list nat) (c : nat) : list nat := filter (fun r => nested r c) S.
  Definition depth (S : list nat) (c : nat) : nat := length (anc S c).

  Definition is_parent (S : list nat) (p : node) (c : nat) : Prop :=
    match p with
    | None => forall r, In r S -> nested r c = false
    | Some q => In q S /\ nested q c = true /\
                forall r, In r S -> nested r c = true -> r = q \/ nested r q = true
    end.

  Lemma is_parent_unique S p p' c : is_parent S p c -> is_parent S p' c -> p = p'.
  Proof.
    destruct p as [q|], p' as [q'|]; simpl; try reflexivity.
    - intros [I1 [N1 U1]] [I2 [N2 U2]]. destruct (U1 q' I2 N2) as [->|H1]; [reflexivity|].
      destruct (U2 q I1 N1) as [->|H2]; [reflexivity|]. exfalso. eapply nested_asym; eassumption.
    - intros [I1 [N1 _]] H. now rewrite (H q I1) in N1.
    - intros H [I1 [N1 _]]. now rewrite (H q' I1) in N1.
  Qed.

  Lemma depth_parent S q c : NoDup S -> is_parent S (Some q) c -> depth S c = Datatypes.S (depth S q).
  Proof.
    intros ND [I [N U]]. unfold depth, anc. apply (filter_length_succ (fun r => nested r c) (fun r => nested r q) S q ND I (nested_irrefl q)).
    intros x Hx. destruct (nested x c) eqn:E.
    - destruct (U x Hx E) as [->|H]; [now rewrite Nat.eqb_refl, orb_true_r|now rewrite H].
    - destruct (nested x q) eqn:E'; [now rewrite (nested_trans _ _ _ E' N) in E|].
      destruct (Nat.eqb x q) eqn:E''; [apply Nat.eqb_eq in E''; subst; congruence|reflexivity].
  Qed.

  Lemma depth_root S c : is_parent S None c -> depth S c = 0.
  Proof.
    intro H. unfold depth, anc. replace (filter (fun r => nested r c) S) with (@nil nat); [reflexivity|].
    symmetry. induction S as [|x t IH]; [reflexivity|]. simpl. rewrite (H x (or_introl eq_refl)).
    apply IH. intros r Hr. apply H. now right.
  Qed.

  (** the invariant of the loop map after the loops of S have been inserted *)
  Record Inv (S : list nat) (lm : lmap) : Prop := {
    inv_parent : forall p c, In c (lm p) -> In c S /\ is_parent S p c;
    inv_nodup : forall p, NoDup (lm p);
    inv_all : forall c, In c S -> exists p, In c (lm p)
  }.

  Lemma inv_empty : Inv [] lm_empty.
  Proof. split; simpl; [intros p c []|intro; constructor|intros c []]. Qed.

  Lemma inv_outside S lm x : Inv S lm -> ~ In x S -> lm (Some x) = [].
  Proof.
    intros I H. destruct (lm (Some x)) as [|c t] eqn:E; [reflexivity|].
    destruct (inv_parent S lm I (Some x) c) as [_ [Hx _]]; [rewrite E; now left|contradiction].
  Qed.

  (** from a node p that contains r (or the root) some child of p leads towards r *)
  Definition above (S : list nat) (p : node) (r : nat) : Prop :=
    match p with None => True | Some q => In q S /\ nested q r = true end.

  Lemma child_towards S lm : Inv S lm -> forall n r, depth S r <= n -> In r S ->
    forall p, above S p r -> exists c, In c (lm p) /\ (c = r \/ nested c r = true).
  Proof.
    intros I n. induction n as [|n IH]; intros r Hd Hr p Hp.
    - (* no ancestors at all *)
      destruct (inv_all S lm I r Hr) as [p' Hp']. destruct (inv_parent S lm I p' r Hp') as [_ P].
      destruct p as [q|].
      + destruct Hp as [Iq Nq]. exfalso. unfold depth, anc in Hd.
        assert (In q (filter (fun x => nested x r) S)) by (apply filter_In; auto).
        destruct (filter (fun x => nested x r) S); [destruct H|simpl in Hd; lia].
      + destruct p' as [q'|]; [|now exists r; auto].
        destruct P as [Iq' [Nq' _]]. exfalso. unfold depth, anc in Hd.
        assert (In q' (filter (fun x => nested x r) S)) by (apply filter_In; auto).
        destruct (filter (fun x => nested x r) S); [destruct H|simpl in Hd; lia].
    - destruct (inv_all S lm I r Hr) as [p' Hp']. destruct (inv_parent S lm I p' r Hp') as [_ P].
      destruct (node_eqb p' p) eqn:E; [apply node_eqb_spec in E; subst p'; exists r; auto|].
      destruct p' as [q'|].
      + destruct P as [Iq' [Nq' U]].
        assert (Hlt : depth S q' < depth S r).
        { unfold depth, anc. apply (filter_length_lt _ _ S q'); auto.
          intros x _ Hx. eapply nested_trans; eassumption. }
        assert (Hab : above S p q').
        { destruct p as [q|]; [|exact Logic.I]. destruct Hp as [Iq Nq]. split; [exact Iq|].
          destruct (U q Iq Nq) as [->|H]; [now rewrite node_eqb_refl in E|exact H]. }
        destruct (IH q' ltac:(lia) Iq' p Hab) as [c [Hc [Ec|Hn]]]; exists c; (split; [exact Hc|right]).
        * now subst c.
        * eapply nested_trans; eassumption.
      + destruct p as [q|]; [|now rewrite node_eqb_refl in E].
        destruct Hp as [Iq Nq]. now rewrite (P q Iq) in Nq.
  Qed.

  (** descend ends at the parent of the new loop *)
  Definition below (p : node) (r : nat) : bool := match p with None => true | Some q => nested q r end.
  Definition remaining (S : list nat) (p : node) (new : nat) : nat :=
    length (filter (fun r => nested r new && below p r) S).

  Lemma descend_spec S lm new : Inv S lm -> forall fuel p, above S p new -> remaining S p new < fuel ->
    let p' := descend nested fuel lm p new in
    above S p' new /\ forall c, In c (lm p') -> nested c new = false.
  Proof.
    intros I fuel. induction fuel as [|f IH]; intros p Hp Hf; [lia|]. simpl.
    destruct (find (fun c => nested c new) (lm p)) as [c|] eqn:E.
    - apply find_some in E. destruct E as [Hc Nc].
      destruct (inv_parent S lm I p c Hc) as [Ic P].
      apply IH; [split; assumption|].
      assert (remaining S (Some c) new < remaining S p new); [|lia].
      unfold remaining. apply (filter_length_lt _ _ S c); auto.
      + intros x _ Hx. apply andb_true_iff in Hx. destruct Hx as [H1 H2]. simpl in H2.
        rewrite H1. simpl. destruct p as [q|]; [|reflexivity]. simpl.
        destruct P as [_ [Nq _]]. eapply nested_trans; eassumption.
      + simpl. now rewrite nested_irrefl, andb_false_r.
      + rewrite Nc. simpl. destruct p as [q|]; [|reflexivity]. simpl. now destruct P as [_ [Nq _]].
    - split; [exact Hp|]. intros c Hc. pose proof (find_none _ _ E c Hc) as H. simpl in H.
      now destruct (nested c new).
  Qed.

  Lemma descend_parent S lm new p' : Inv S lm -> above S p' new ->
    (forall c, In c (lm p') -> nested c new = false) -> is_parent S p' new.
  Proof.
    intros I Hp Hc. destruct p' as [q|]; simpl.
    - destruct Hp as [Iq Nq]. repeat split; auto. intros r Ir Nr.
      destruct (nested_laminar r q new Nr Nq) as [->|[H|H]]; auto.
      exfalso. destruct (child_towards S lm I (depth S r) r (le_n _) Ir (Some q) (conj Iq H)) as [c [Hin [Ec|Hn]]].
      + subst c. now rewrite (Hc r Hin) in Nr.
      + pose proof (nested_trans _ _ _ Hn Nr) as Hcn. now rewrite (Hc c Hin) in Hcn.
    - intros r Ir. destruct (nested r new) eqn:Nr; [|reflexivity]. exfalso.
      destruct (child_towards S lm I (depth S r) r (le_n _) Ir None Logic.I) as [c [Hin [Ec|Hn]]].
      + subst c. now rewrite (Hc r Hin) in Nr.
      + pose proof (nested_trans _ _ _ Hn Nr) as Hcn. now rewrite (Hc c Hin) in Hcn.
  Qed.

  Lemma is_parent_extend S p c new : is_parent S p c ->
    (nested new c = true -> match p with None => False | Some q => nested new q = true end) ->
    is_parent (new :: S) p c.
  Proof.
    destruct p as [q|]; simpl.
    - intros [Iq [Nq U]] H. repeat split; auto. intros r [<-|Ir] Nr; [right; auto|auto].
    - intros U H r [<-|Ir]; [|auto]. destruct (nested new c); [exfalso; auto|reflexivity].
  Qed.

  Lemma insert_inv S lm new fuel : Inv S lm -> ~ In new S -> length S < fuel ->
    Inv (new :: S) (insert_loop nested fuel lm new).
  Proof.
    intros I Hnew Hfuel. unfold insert_loop.
    set (p' := descend nested fuel lm None new).
    assert (Hrem : remaining S None new < fuel).
    { unfold remaining. pose proof (filter_length_le (fun r => nested r new && below None r) (fun _ => true) S (fun _ _ _ => eq_refl)) as H.
      assert (E : filter (fun _ : nat => true) S = S) by (clear; induction S; simpl; congruence).
      rewrite E in H. lia. }
    destruct (descend_spec S lm new I fuel None Logic.I Hrem) as [Hab Hch]. fold p' in Hab, Hch.
    pose proof (descend_parent S lm new p' I Hab Hch) as Hpar.
    assert (Hne : p' <> Some new) by (intro E; rewrite E in Hab; destruct Hab; contradiction).
    assert (Hnil : lm (Some new) = []) by (eapply inv_outside; eassumption).
    rewrite Hnil. simpl.
    assert (Hget : forall q, upd (upd lm (Some new) (filter (fun c => nested new c) (lm p'))) p'
                     (filter (fun c => negb (nested new c)) (lm p') ++ [new]) q =
                   if node_eqb q p' then filter (fun c => negb (nested new c)) (lm p') ++ [new]
                   else if node_eqb q (Some new) then filter (fun c => nested new c) (lm p') else lm q)
      by reflexivity.
    split.
    - (* inv_parent *)
      intros q c. rewrite Hget. destruct (node_eqb q p') eqn:E1.
      + apply node_eqb_spec in E1. subst q. intro Hc. apply in_app_iff in Hc. destruct Hc as [Hc|[<-|[]]].
        * apply filter_In in Hc. destruct Hc as [Hc Hn]. apply negb_true_iff in Hn.
          destruct (inv_parent S lm I p' c Hc) as [Ic P]. split; [now right|].
          apply is_parent_extend; [exact P|]. intro. congruence.
        * split; [now left|]. apply is_parent_extend; [exact Hpar|]. intro H. now rewrite nested_irrefl in H.
      + destruct (node_eqb q (Some new)) eqn:E2.
        * apply node_eqb_spec in E2. subst q. intro Hc. apply filter_In in Hc. destruct Hc as [Hc Hn].
          destruct (inv_parent S lm I p' c Hc) as [Ic P]. split; [now right|].
          simpl. repeat split; [now left|exact Hn|]. intros r [<-|Ir] Nr; [now left|right].
          destruct p' as [q'|]; simpl in P.
          -- destruct P as [_ [_ U]]. destruct Hab as [_ Nq']. destruct (U r Ir Nr) as [->|H]; [exact Nq'|].
             eapply nested_trans; eassumption.
          -- now rewrite (P r Ir) in Nr.
        * intro Hc. destruct (inv_parent S lm I q c Hc) as [Ic P]. split; [now right|].
          apply is_parent_extend; [exact P|]. intro Hn.
          destruct q as [q0|].
          -- destruct P as [Iq0 [Nq0 U]].
             destruct (nested_laminar new q0 c Hn Nq0) as [->|[H|H]]; [contradiction|exact H|].
             exfalso. (* q0 is an ancestor of new in S *)
             destruct p' as [q'|]; simpl in Hpar.
             ++ destruct Hpar as [Iq' [Nq' U']]. destruct (U' q0 Iq0 H) as [->|H'].
                ** now rewrite node_eqb_refl in E1.
                ** pose proof (nested_trans _ _ _ Nq' Hn) as Hq'c.
                   destruct (U q' Iq' Hq'c) as [->|H'']; [now rewrite node_eqb_refl in E1|].
                   eapply nested_asym; eassumption.
             ++ now rewrite (Hpar q0 Iq0) in H.
          -- (* c had no ancestor in S; p' <> None *)
             destruct p' as [q'|]; [|now rewrite node_eqb_refl in E1].
             destruct Hab as [Iq' Nq']. pose proof (nested_trans _ _ _ Nq' Hn) as H.
             simpl in P. now rewrite (P q' Iq') in H.
    - (* inv_nodup *)
      intro q. rewrite Hget. destruct (node_eqb q p').
      + pose proof (inv_nodup S lm I p') as ND.
        assert (ND' : NoDup (filter (fun c => negb (nested new c)) (lm p'))) by now apply NoDup_filter.
        assert (Hn : ~ In new (filter (fun c => negb (nested new c)) (lm p'))).
        { intro H. apply filter_In in H. destruct H as [H _].
          destruct (inv_parent S lm I p' new H). contradiction. }
        clear - ND' Hn. induction (filter (fun c => negb (nested new c)) (lm p')) as [|x t IH]; simpl.
        * constructor; [intros []|constructor].
        * inversion ND'; subst. constructor.
          -- intro H. apply in_app_iff in H. destruct H as [H|[<-|[]]]; [contradiction|]. apply Hn. now left.
          -- apply IH; [assumption|]. intro. apply Hn. now right.
      + destruct (node_eqb q (Some new)); [apply NoDup_filter|]; apply (inv_nodup S lm I).
    - (* inv_all *)
      intros c [<-|Ic].
      + exists p'. rewrite Hget, node_eqb_refl. apply in_app_iff. right. now left.
      + destruct (inv_all S lm I c Ic) as [q Hq].
        destruct (node_eqb q p') eqn:E1.
        * apply node_eqb_spec in E1. subst q. destruct (nested new c) eqn:Hn.
          -- exists (Some new). rewrite Hget, (node_eqb_neq (Some new) p') by congruence.
             rewrite node_eqb_refl. apply filter_In. auto.
          -- exists p'. rewrite Hget, node_eqb_refl. apply in_app_iff. left. apply filter_In.
             split; [exact Hq|now rewrite Hn].
        * exists q. rewrite Hget, E1. destruct (node_eqb q (Some new)) eqn:E2; [|exact Hq].
          apply node_eqb_spec in E2. subst q. rewrite Hnil in Hq. destruct Hq.
  Qed.

  Lemma insert_all_inv fuel : forall ids S lm, Inv S lm -> NoDup S -> NoDup ids ->
    (forall x, In x ids -> ~ In x S) -> length S + length ids < fuel ->
    NoDup (rev ids ++ S) /\ Inv (rev ids ++ S) (fold_left (insert_loop nested fuel) ids lm).
  Proof.
    induction ids as [|x t IH]; intros S lm I NS ND Hd Hf.
    - simpl. split; assumption.
    - inversion ND as [|? ? Hx ND']; subst. simpl.
      assert (Hxs : ~ In x S) by (apply Hd; now left).
      rewrite <- app_assoc. simpl. apply IH.
      + apply insert_inv; auto. simpl in Hf. lia.
      + now constructor.
      + exact ND'.
      + intros y Hy [<-|Hys]; [contradiction|]. apply (Hd y); [now right|exact Hys].
      + simpl in *. lia.
  Qed.

  (** ---- initLoops: the pre-order traversal ---------------------------------------------- *)
  (** [reach lm j x c]: c is j levels below x in the loop map *)
  Fixpoint reach (lm : lmap) (j : nat) (x c : nat) : Prop :=
    match j with
    | 0 => x = c
    | Datatypes.S j' => exists y, In y (lm (Some x)) /\ reach lm j' y c
    end.

  Lemma reach_snoc lm j : forall x q c, reach lm j x q -> In c (lm (Some q)) -> reach lm (Datatypes.S j) x c.
  Proof.
    induction j as [|j IH]; intros x q c H Hc; simpl in *.
    - subst. exists c. split; auto.
    - destruct H as [y [Hy H]]. exists y. split; [exact Hy|]. apply (IH y q c H Hc).
  Qed.

  Lemma reach_bottom lm j : forall x c, reach lm (Datatypes.S j) x c ->
    exists q, reach lm j x q /\ In c (lm (Some q)).
  Proof.
    induction j as [|j IH]; intros x c H.
    - simpl in H. destruct H as [y [Hy E]]. subst. exists x. split; [reflexivity|exact Hy].
    - destruct H as [y [Hy H]]. destruct (IH y c H) as [q [Hq Hc]]. exists q. split; [|exact Hc].
      simpl. exists y. split; assumption.
  Qed.

  Lemma in_preorder lm h : forall d nodes z e,
    In (z, e) (preorder h lm d nodes) <->
    exists x j, In x nodes /\ j < h /\ reach lm j x z /\ e = d + j.
  Proof.
    induction h as [|h IH]; intros d nodes z e; simpl.
    - split; [tauto|intros [x [j [_ [H _]]]]; lia].
    - rewrite in_flat_map. split.
      + intros [c [Hc [E|H]]].
        * injection E as <- <-. exists c, 0. repeat split; auto; lia.
        * apply IH in H. destruct H as [y [j [Hy [Hj [Hr He]]]]]. exists c, (Datatypes.S j).
          repeat split; auto; try lia. simpl. exists y. split; assumption.
      + intros [x [j [Hx [Hj [Hr He]]]]]. exists x. split; [exact Hx|]. destruct j as [|j]; simpl in Hr.
        * subst. left. f_equal. lia.
        * right. destruct Hr as [y [Hy Hr]]. apply IH. exists y, j. repeat split; auto; lia.
  Qed.

  Lemma reach_depth S lm : Inv S lm -> NoDup S -> forall j x z, In x S -> reach lm j x z ->
    In z S /\ depth S z = depth S x + j.
  Proof.
    intros I ND. induction j as [|j IH]; intros x z Hx H; simpl in H.
    - subst. split; [exact Hx|lia].
    - destruct H as [y [Hy H]]. destruct (inv_parent S lm I _ _ Hy) as [Iy P].
      destruct (IH y z Iy H) as [Iz E]. split; [exact Iz|]. rewrite E, (depth_parent S x y ND P). lia.
  Qed.

  Lemma reach_unique S lm : Inv S lm -> forall j x x' z, reach lm j x z -> reach lm j x' z -> x = x'.
  Proof.
    intros I. induction j as [|j IH]; intros x x' z H H'.
    - simpl in *. congruence.
    - apply reach_bottom in H. apply reach_bottom in H'.
      destruct H as [q [Hq Hz]], H' as [q' [Hq' Hz']].
      destruct (inv_parent S lm I _ _ Hz) as [_ P]. destruct (inv_parent S lm I _ _ Hz') as [_ P'].
      pose proof (is_parent_unique S _ _ z P P') as E. injection E as <-. eapply IH; eassumption.
  Qed.

  Lemma depth_le S z : depth S z <= length S.
  Proof. unfold depth, anc. induction S as [|x t IH]; simpl; [lia|]. destruct (nested x z); simpl; lia. Qed.

  Lemma reach_root S lm : Inv S lm -> NoDup S -> forall n z, depth S z <= n -> In z S ->
    exists x, In x (lm None) /\ reach lm (depth S z) x z.
  Proof.
    intros I ND. induction n as [|n IH]; intros z Hd Hz;
      destruct (inv_all S lm I z Hz) as [p Hp]; destruct (inv_parent S lm I p z Hp) as [_ P];
      destruct p as [q|].
    - rewrite (depth_parent S q z ND P) in Hd. lia.
    - rewrite (depth_root S z P). exists z. split; [exact Hp|reflexivity].
    - pose proof (depth_parent S q z ND P) as E. destruct P as [Iq _].
      destruct (IH q ltac:(lia) Iq) as [x [Hx Hr]]. exists x. split; [exact Hx|].
      rewrite E. eapply reach_snoc; eassumption.
    - rewrite (depth_root S z P). exists z. split; [exact Hp|reflexivity].
  Qed.

  (** the list produced by initLoops *)
  Definition out_of (S : list nat) (lm : lmap) := preorder (Datatypes.S (length S)) lm 0 (lm None).

  Lemma out_sound S lm z e : Inv S lm -> NoDup S -> In (z, e) (out_of S lm) -> In z S /\ e = depth S z.
  Proof.
    intros I ND H. apply in_preorder in H. destruct H as [x [j [Hx [_ [Hr He]]]]].
    destruct (inv_parent S lm I None x Hx) as [Ix P].
    destruct (reach_depth S lm I ND j x z Ix Hr) as [Iz E]. split; [exact Iz|].
    rewrite E, (depth_root S x P). lia.
  Qed.

  Lemma out_complete S lm z : Inv S lm -> NoDup S -> In z S -> In (z, depth S z) (out_of S lm).
  Proof.
    intros I ND Hz. destruct (reach_root S lm I ND _ z (le_n _) Hz) as [x [Hx Hr]].
    apply in_preorder. exists x, (depth S z). repeat split; auto. pose proof (depth_le S z). lia.
  Qed.

  Lemma NoDup_app' {A} (l1 l2 : list A) : NoDup l1 -> NoDup l2 -> (forall x, In x l1 -> ~ In x l2) ->
    NoDup (l1 ++ l2).
  Proof.
    induction l1 as [|x t IH]; intros N1 N2 H; [exact N2|]. inversion N1; subst. simpl. constructor.
    - intro Hx. apply in_app_iff in Hx. destruct Hx as [Hx|Hx]; [contradiction|]. apply (H x); [now left|exact Hx].
    - apply IH; auto. intros y Hy. apply H. now right.
  Qed.

  Lemma NoDup_flat_map {A B} (F : A -> list B) (l : list A) : NoDup l ->
    (forall c, In c l -> NoDup (F c)) ->
    (forall c c' y, In c l -> In c' l -> c <> c' -> In y (F c) -> In y (F c') -> False) ->
    NoDup (flat_map F l).
  Proof.
    induction l as [|x t IH]; intros ND H1 H2; simpl; [constructor|]. inversion ND; subst.
    apply NoDup_app'.
    - apply H1. now left.
    - apply IH; auto.
      + intros c Hc. apply H1. now right.
      + intros c c' y Hc Hc'. apply H2; now right.
    - intros y Hy Hy'. apply in_flat_map in Hy'. destruct Hy' as [c [Hc Hyc]].
      apply (H2 x c y); auto; [now left|now right|]. intro; subst; contradiction.
  Qed.

  Lemma preorder_nodup S lm : Inv S lm -> forall h d nodes, NoDup nodes -> NoDup (preorder h lm d nodes).
  Proof.
    intros I. induction h as [|h IH]; intros d nodes ND; simpl; [constructor|].
    apply NoDup_flat_map; [exact ND| |].
    - intros c _. constructor; [|apply IH, (inv_nodup S lm I)].
      intro H. apply in_preorder in H. destruct H as [x [j [_ [_ [_ E]]]]]. lia.
    - intros c c' [z e] Hc Hc' Hne H H'.
      assert (K : forall c0, In (z, e) ((c0, d) :: preorder h lm (Datatypes.S d) (lm (Some c0))) ->
                  exists j, reach lm j c0 z /\ e = d + j).
      { intros c0 [E|Hin].
        - injection E as <- <-. exists 0. split; [reflexivity|lia].
        - apply in_preorder in Hin. destruct Hin as [y [j [Hy [_ [Hr He]]]]]. exists (Datatypes.S j).
          split; [simpl; exists y; split; assumption|lia]. }
      destruct (K c H) as [j [Hr He]]. destruct (K c' H') as [j' [Hr' He']].
      assert (j = j') by lia. subst j'. apply Hne. eapply reach_unique; eassumption.
  Qed.

  (** order: x occurs strictly before y *)
  Definition before {A} (l : list A) (x y : A) : Prop := exists l1 l2 l3, l = l1 ++ x :: l2 ++ y :: l3.

  Lemma before_app {A} (a b l : list A) x y : before l x y -> before (a ++ l ++ b) x y.
  Proof.
    intros [l1 [l2 [l3 E]]]. exists (a ++ l1), l2, (l3 ++ b). subst l.
    rewrite <- !app_assoc. simpl. rewrite <- !app_assoc. reflexivity.
  Qed.

  Lemma split_unique {A} (y : A) : forall a b a' b', ~ In y a -> ~ In y a' ->
    a ++ y :: b = a' ++ y :: b' -> a = a' /\ b = b'.
  Proof.
    induction a as [|z t IH]; intros b a' b' H H' E; destruct a' as [|z' t']; simpl in *.
    - injection E as E. auto.
    - injection E as E1 E2. exfalso. apply H'. now left.
    - injection E as E1 E2. exfalso. apply H. now left.
    - injection E as E1 E2. subst z'. destruct (IH b t' b') as [-> ->]; auto.
  Qed.

  Lemma before_trans {A} (l : list A) x y z : NoDup l -> before l x y -> before l y z -> before l x z.
  Proof.
    intros ND [l1 [l2 [l3 E1]]] [m1 [m2 [m3 E2]]].
    assert (E : (l1 ++ x :: l2) ++ y :: l3 = m1 ++ y :: m2 ++ z :: m3)
      by (rewrite <- E2, E1, <- app_assoc; reflexivity).
    assert (Hn : forall a b, l = a ++ y :: b -> ~ In y a).
    { intros a b Eab Hin. rewrite Eab in ND. apply NoDup_remove_2 in ND. apply ND. apply in_app_iff. now left. }
    assert (E1' : l = (l1 ++ x :: l2) ++ y :: l3) by (rewrite <- app_assoc; exact E1).
    destruct (split_unique y _ _ _ _ (Hn _ _ E1') (Hn _ _ E2) E) as [Ea Eb].
    exists l1, (l2 ++ y :: m2), m3. rewrite E1, Eb, <- app_assoc. reflexivity.
  Qed.

  Lemma parent_before lm : forall h d nodes x j q c, In x nodes -> Datatypes.S j < h ->
    reach lm j x q -> In c (lm (Some q)) ->
    before (preorder h lm d nodes) (q, d + j) (c, d + Datatypes.S j).
  Proof.
    induction h as [|h IH]; intros d nodes x j q c Hx Hj Hr Hc; [lia|]. simpl.
    destruct (in_split _ _ Hx) as [n1 [n2 ->]]. rewrite flat_map_app.
    set (F := fun c0 : nat => (c0, d) :: preorder h lm (Datatypes.S d) (lm (Some c0))).
    change (flat_map F (x :: n2)) with (F x ++ flat_map F n2).
    apply before_app. unfold F. clear F.
    destruct j as [|j]; simpl in Hr.
    - subst q. assert (Hin : In (c, Datatypes.S d + 0) (preorder h lm (Datatypes.S d) (lm (Some x)))).
      { apply in_preorder. exists c, 0. repeat split; auto. lia. }
      destruct (in_split _ _ Hin) as [r1 [r2 E]]. exists [], r1, r2. simpl. rewrite E.
      replace (d + 0) with d by lia. replace (d + 1) with (Datatypes.S d + 0) by lia. reflexivity.
    - destruct Hr as [y [Hy Hr]].
      destruct (IH (Datatypes.S d) (lm (Some x)) y j q c Hy ltac:(lia) Hr Hc) as [l1 [l2 [l3 E]]].
      exists ((x, d) :: l1), l2, l3. rewrite E.
      replace (d + Datatypes.S j) with (Datatypes.S d + j) by lia.
      replace (d + Datatypes.S (Datatypes.S j)) with (Datatypes.S d + Datatypes.S j) by lia. reflexivity.
  Qed.

  Lemma anc_before S lm : Inv S lm -> NoDup S -> forall n b, depth S b <= n -> In b S ->
    forall a, In a S -> nested a b = true ->
    before (out_of S lm) (a, depth S a) (b, depth S b).
  Proof.
    intros I ND. induction n as [|n IH]; intros b Hd Hb a Ha Hab;
      destruct (inv_all S lm I b Hb) as [p Hp]; destruct (inv_parent S lm I p b Hp) as [_ P];
      destruct p as [q|]; try (simpl in P; now rewrite (P a Ha) in Hab).
    - rewrite (depth_parent S q b ND P) in Hd. lia.
    - pose proof (depth_parent S q b ND P) as E. destruct P as [Iq [Nq U]].
      destruct (reach_root S lm I ND _ q (le_n _) Iq) as [x [Hx Hr]].
      assert (Hpb : before (out_of S lm) (q, depth S q) (b, depth S b)).
      { rewrite E. apply (parent_before lm _ 0 _ x (depth S q) q b Hx); auto.
        pose proof (depth_le S b). lia. }
      destruct (U a Ha Hab) as [->|Haq]; [exact Hpb|].
      eapply before_trans; [apply preorder_nodup with (S := S); [exact I|apply (inv_nodup S lm I)]| |exact Hpb].
      apply IH; auto. lia.
  Qed.
  (** ---- the explicit-stack loop of initLoops equals the recursive pre-order ------------------ *)
  Lemma init_loops_done lm f out : init_loops f lm [] out = out.
  Proof. destruct f; reflexivity. Qed.

  Lemma init_loops_step lm f nd d st out :
    init_loops (Datatypes.S f) lm ((nd, d) :: st) out =
    init_loops f lm (map (fun c => (Some c, child_depth nd d)) (lm nd) ++ st)
      (match nd with Some l => out ++ [(l, d)] | None => out end).
  Proof. reflexivity. Qed.

  Lemma init_loops_sim lm : forall h d nodes f st out,
    (forall x z, In x nodes -> ~ reach lm h x z) ->
    init_loops (length (preorder h lm d nodes) + f) lm (map (fun c => (Some c, d)) nodes ++ st) out =
    init_loops f lm st (out ++ preorder h lm d nodes).
  Proof.
    induction h as [|h IHh]; intros d nodes f st out Hb.
    - destruct nodes as [|x t]; [simpl; now rewrite app_nil_r|].
      exfalso. apply (Hb x x); [now left|reflexivity].
    - revert f st out. induction nodes as [|c rest IHn]; intros f st out; [simpl; now rewrite app_nil_r|].
      cbn [preorder flat_map map app].
      change (flat_map (fun c0 : nat => (c0, d) :: preorder h lm (Datatypes.S d) (lm (Some c0))) rest)
        with (preorder (Datatypes.S h) lm d rest).
      rewrite app_comm_cons, app_length. cbn [length plus init_loops child_depth].
      rewrite <- Nat.add_assoc.
      rewrite IHh.
      + rewrite IHn; [|intros x z Hx; apply Hb; now right].
        f_equal. rewrite <- !app_assoc. reflexivity.
      + intros y z Hy Hr. apply (Hb c z); [now left|]. simpl. exists y. split; assumption.
  Qed.

  Lemma NoDup_map_inj {A B} (f : A -> B) (l : list A) : NoDup l ->
    (forall x y, In x l -> In y l -> f x = f y -> x = y) -> NoDup (map f l).
  Proof.
    induction l as [|x t IH]; intros ND H; simpl; [constructor|]. inversion ND; subst. constructor.
    - intro Hin. apply in_map_iff in Hin. destruct Hin as [y [E Hy]].
      assert (y = x) by (apply H; [now right|now left|exact E]). subst. contradiction.
    - apply IH; auto. intros a b Ha Hb. apply H; now right.
  Qed.

  Lemma out_length S lm : Inv S lm -> NoDup S -> length (out_of S lm) <= length S.
  Proof.
    intros I ND. rewrite <- (map_length fst). apply NoDup_incl_length.
    - apply NoDup_map_inj.
      + apply preorder_nodup with (S := S); [exact I|apply (inv_nodup S lm I)].
      + intros [z e] [z' e'] H H' E. simpl in E. subst z'.
        destruct (out_sound S lm z e I ND H) as [_ ->]. destruct (out_sound S lm z e' I ND H') as [_ ->].
        reflexivity.
    - intros z Hz. apply in_map_iff in Hz. destruct Hz as [[z' e] [E Hin]]. simpl in E. subst z'.
      now destruct (out_sound S lm z e I ND Hin).
  Qed.

  Lemma init_loops_eq S lm : Inv S lm -> NoDup S ->
    init_loops (Datatypes.S (Datatypes.S (length S))) lm [(None, 0)] [] = out_of S lm.
  Proof.
    intros I ND. rewrite init_loops_step. cbn [child_depth].
    pose proof (out_length S lm I ND) as HL. unfold out_of in *.
    set (P := preorder (Datatypes.S (length S)) lm 0 (lm None)) in *.
    replace (Datatypes.S (length S)) with (length P + (Datatypes.S (length S) - length P)) at 1 by lia.
    unfold P. rewrite init_loops_sim.
    - now rewrite init_loops_done.
    - intros x z Hx Hr. destruct (inv_parent S lm I None x Hx) as [Ix _].
      destruct (reach_depth S lm I ND _ x z Ix Hr) as [_ E]. pose proof (depth_le S z). lia.
  Qed.

  (** ---- the theorem ---------------------------------------------------------------------------- *)
  (** number of OTHER loops of the input that contain l *)
  Definition enclosing (ids : list nat) (l : nat) : nat :=
    length (filter (fun l' => negb (Nat.eqb l' l) && nested l' l) ids).

  Lemma filter_rev_length {A} (f : A -> bool) (l : list A) : length (filter f (rev l)) = length (filter f l).
  Proof.
    induction l as [|x t IH]; [reflexivity|]. simpl. rewrite filter_app, app_length, IH. simpl.
    destruct (f x); simpl; lia.
  Qed.

  Lemma depth_enclosing ids l : depth (rev ids) l = enclosing ids l.
  Proof.
    unfold depth, anc, enclosing. rewrite filter_rev_length. f_equal. apply filter_ext. intro a.
    destruct (Nat.eqb a l) eqn:E; simpl; [|reflexivity]. apply Nat.eqb_eq in E. subst. apply nested_irrefl.
  Qed.

  Lemma insert_all_inv' ids : NoDup ids -> NoDup (rev ids) /\ Inv (rev ids) (insert_all nested ids).
  Proof.
    intro ND. unfold insert_all.
    destruct (insert_all_inv (Datatypes.S (length ids)) ids [] lm_empty inv_empty (NoDup_nil _) ND) as [H1 H2];
      [intros x _ []|simpl; lia|]. rewrite app_nil_r in *. split; assumption.
  Qed.

  Definition nesting_result (ids : list nat) (out : list (nat * nat)) : Prop :=
    NoDup out /\
    (forall l d, In (l, d) out <-> In l ids /\ d = enclosing ids l) /\
    (forall a b, In a ids -> In b ids -> nested a b = true ->
       before out (a, enclosing ids a) (b, enclosing ids b)).

  Lemma general_result ids : NoDup ids ->
    nesting_result ids (out_of (rev ids) (insert_all nested ids)).
  Proof.
    intro ND. destruct (insert_all_inv' ids ND) as [NR I]. repeat split.
    - apply preorder_nodup with (S := rev ids); [exact I|apply (inv_nodup _ _ I)].
    - apply in_rev. now destruct (out_sound _ _ l d I NR H).
    - rewrite <- depth_enclosing. now destruct (out_sound _ _ l d I NR H).
    - intros [Hl ->]. rewrite <- depth_enclosing. apply out_complete; auto. now apply -> in_rev.
    - intros a b Ha Hb Hab. rewrite <- !depth_enclosing.
      apply (anc_before _ _ I NR (depth (rev ids) b) b (le_n _)); auto; now apply -> in_rev.
  Qed.

  Lemma single_result x : nesting_result [x] [(x, 0)].
  Proof.
    assert (E : enclosing [x] x = 0) by (unfold enclosing; simpl; now rewrite Nat.eqb_refl).
    repeat split.
    - constructor; [intros []|constructor].
    - destruct H as [H|[]]. injection H as <- <-. now left.
    - destruct H as [H|[]]. injection H as <- <-. now rewrite E.
    - intros [[<-|[]] ->]. rewrite E. now left.
    - intros a b [<-|[]] [<-|[]] H. now rewrite nested_irrefl in H.
  Qed.

  Theorem nesting_depth_spec stored ids : NoDup ids -> nesting_result ids (init_nested_spec nested stored ids).
  Proof.
    intro ND. pose proof (general_result ids ND) as G. unfold out_of in G. rewrite rev_length in G.
    destruct ids as [|x [|y t]]; [exact G|apply single_result|exact G].
  Qed.

  Theorem init_nested_eq_spec stored ids : NoDup ids ->
    init_nested nested stored ids = init_nested_spec nested stored ids.
  Proof.
    intro ND. destruct (insert_all_inv' ids ND) as [NR I].
    pose proof (init_loops_eq _ _ I NR) as E. unfold out_of in E. rewrite rev_length in E.
    destruct ids as [|x [|y t]]; [exact E|reflexivity|exact E].
  Qed.

  Theorem nesting_depth stored ids : NoDup ids -> nesting_result ids (init_nested nested stored ids).
  Proof. intro ND. rewrite init_nested_eq_spec by exact ND. now apply nesting_depth_spec. Qed.

  (** the depths a *Loop carries from an earlier polygon (or from Decode) do not influence the
      result — for every input, no premise on [nested] *)
  Theorem nesting_ignores_stale_depths stored stored' ids :
    init_nested nested stored ids = init_nested nested stored' ids.
  Proof. destruct ids as [|x [|y t]]; reflexivity. Qed.

  (** Loop.IsHole is depth&1 != 0: a loop is a hole iff an odd number of other loops enclose it *)
  Corollary hole_parity stored ids l d : NoDup ids -> In (l, d) (init_nested nested stored ids) ->
    Nat.odd d = Nat.odd (enclosing ids l).
  Proof. intros ND H. destruct (nesting_depth stored ids ND) as [_ [K _]]. now destruct (proj1 (K l d) H) as [_ ->]. Qed.
End NestProof.

(** the hypotheses are satisfiable: three loops, 0 contains 1 contains 2 *)
Example nesting_hypotheses_satisfiable :
  let nested := fun a b => Nat.ltb a b && Nat.ltb b 3 in
  (forall a, nested a a = false) /\
  (forall a b c, nested a b = true -> nested b c = true -> nested a c = true) /\
  (forall a b c, nested a c = true -> nested b c = true -> a = b \/ nested a b = true \/ nested b a = true) /\
  init_nested nested (fun _ => 5) [2; 0; 1] = [(0, 0); (1, 1); (2, 2)].
Proof.
  cbv zeta. repeat split.
  - intro a. now rewrite Nat.ltb_irrefl.
  - intros a b c H1 H2. apply andb_true_iff in H1, H2. destruct H1 as [H1 _], H2 as [H2 H3].
    apply Nat.ltb_lt in H1, H2, H3. apply andb_true_iff. split; apply Nat.ltb_lt; lia.
  - intros a b c H1 H2. apply andb_true_iff in H1, H2. destruct H1 as [H1 H3], H2 as [H2 _].
    apply Nat.ltb_lt in H1, H2, H3. destruct (Nat.lt_trichotomy a b) as [H|[H|H]]; auto.
    + right. left. apply andb_true_iff. split; apply Nat.ltb_lt; lia.
    + right. right. apply andb_true_iff. split; apply Nat.ltb_lt; lia.
Qed.
