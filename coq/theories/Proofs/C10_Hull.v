(** C10: structural invariants of monotoneChain (convex_hull_query.go) over an abstract
    orientation predicate [sign] (RobustSign; 1 = CounterClockwise).  No axiom on [sign] is
    needed for these: the output is a subsequence of the input in the same order, begins with
    the first and ends with the last input point, and every consecutive triple of the output
    is counter-clockwise.  (Containment of the dropped points needs Knuth's CC axioms on the
    input and is not proved here — [T]+[S] only.) *)
From Coq Require Import ZArith List Bool Lia.
From Geo Require Import Base.GoPrim Model.Bounds.
Import ListNotations.

Section Hull.
  Variable P : Type.
  Variable sign : P -> P -> P -> Z.
  Notation pop_while := (pop_while P sign).
  Notation chain_step := (chain_step P sign).
  Notation chain_rev := (chain_rev P sign).
  Notation monotone_chain := (monotone_chain P sign).

  Inductive subseq : list P -> list P -> Prop :=
  | sub_nil : forall l, subseq [] l
  | sub_keep : forall x s l, subseq s l -> subseq (x :: s) (x :: l)
  | sub_skip : forall x s l, subseq s l -> subseq s (x :: l).

  Lemma subseq_refl l : subseq l l.
  Proof. induction l; constructor; assumption. Qed.

  Lemma subseq_app_l t l : subseq t (l ++ t).
  Proof. induction l; cbn; [apply subseq_refl|apply sub_skip; assumption]. Qed.

  Lemma subseq_app_r s l : subseq s l -> forall t, subseq (s ++ t) (l ++ t).
  Proof.
    induction 1; intros t; cbn; [apply subseq_app_l|apply sub_keep; auto|apply sub_skip; auto].
  Qed.

  Lemma subseq_app_skip a b : subseq a b -> forall t, subseq a (b ++ t).
  Proof. induction 1; intros t; cbn; constructor; auto. Qed.

  Lemma subseq_trans b c : subseq b c -> forall a, subseq a b -> subseq a c.
  Proof.
    induction 1; intros a Ha.
    - inversion Ha; constructor.
    - inversion Ha; subst; [constructor|apply sub_keep; auto|apply sub_skip; auto].
    - apply sub_skip; auto.
  Qed.

  Lemma subseq_app_mono l a b : subseq a b -> subseq (l ++ a) (l ++ b).
  Proof. intros H. induction l; cbn; [exact H|apply sub_keep; assumption]. Qed.

  Lemma subseq_rev s l : subseq s l -> subseq (rev s) (rev l).
  Proof.
    induction 1; cbn.
    - constructor.
    - apply subseq_app_r. assumption.
    - apply subseq_app_skip. assumption.
  Qed.

  (** the stack is kept reversed: head = last output.  [ccw_stack s]: every three consecutive
      entries c :: b :: a (i.e. a, b, c in output order) satisfy sign a b c = 1. *)
  Fixpoint ccw_stack (s : list P) : Prop :=
    match s with
    | c :: ((b :: a :: _) as t) => sign a b c = 1%Z /\ ccw_stack t
    | _ => True
    end.

  Lemma ccw_tail x s : ccw_stack (x :: s) -> ccw_stack s.
  Proof. destruct s as [|b [|a t]]; cbn; tauto. Qed.

  Lemma pop_while_subseq out p : subseq (pop_while out p) out.
  Proof.
    induction out as [|b rest IH]; cbn; [constructor|].
    destruct rest as [|a t]; [apply subseq_refl|].
    destruct (sign a b p =? 1)%Z; [apply subseq_refl|]. constructor. exact IH.
  Qed.

  Lemma pop_while_nonempty out p : out <> [] -> pop_while out p <> [].
  Proof.
    induction out as [|b rest IH]; [tauto|]. intros _. cbn.
    destruct rest as [|a t]; [discriminate|].
    destruct (sign a b p =? 1)%Z; [discriminate|]. apply IH. discriminate.
  Qed.

  Lemma pop_while_last out p d : last (pop_while out p) d = last out d.
  Proof.
    induction out as [|b rest IH]; [reflexivity|]. cbn [pop_while].
    destruct rest as [|a t]; [reflexivity|].
    destruct (sign a b p =? 1)%Z; [reflexivity|]. rewrite IH. reflexivity.
  Qed.

  Lemma pop_while_ccw out p : ccw_stack out -> ccw_stack (p :: pop_while out p).
  Proof.
    induction out as [|b rest IH]; intros C; [exact I|]. cbn [pop_while].
    destruct rest as [|a t]; [exact I|].
    destruct (sign a b p =? 1)%Z eqn:E.
    - split; [apply Z.eqb_eq; exact E|exact C].
    - apply IH. apply (ccw_tail _ _ C).
  Qed.

  Lemma chain_rev_inv pts : forall acc,
    ccw_stack acc ->
    ccw_stack (fold_left chain_step pts acc) /\
    subseq (fold_left chain_step pts acc) (rev pts ++ acc) /\
    (forall d, acc <> [] -> last (fold_left chain_step pts acc) d = last acc d) /\
    (forall d, pts <> [] -> hd d (fold_left chain_step pts acc) = last pts d).
  Proof.
    induction pts as [|p t IH]; intros acc C; cbn [fold_left].
    - repeat split; auto; try apply subseq_refl. intros d H; contradiction.
    - assert (C' : ccw_stack (chain_step acc p)) by (apply pop_while_ccw; exact C).
      destruct (IH _ C') as [A [B [L H]]]. split; [exact A|]. split; [|split].
      + cbn [rev]. rewrite <- app_assoc. cbn [app].
        assert (S : subseq (chain_step acc p) (p :: acc)) by (constructor; apply pop_while_subseq).
        eapply subseq_trans; [apply subseq_app_mono; exact S|exact B].
      + intros d Hn. rewrite L by discriminate. unfold Bounds.chain_step.
        destruct acc as [|a0 acc']; [contradiction|].
        change (last (p :: pop_while (a0 :: acc') p) d) with
          (match pop_while (a0 :: acc') p with [] => p | _ :: _ => last (pop_while (a0 :: acc') p) d end).
        pose proof (pop_while_nonempty (a0 :: acc') p ltac:(discriminate)) as Ne.
        destruct (pop_while (a0 :: acc') p) eqn:E; [contradiction|]. rewrite <- E. apply pop_while_last.
      + intros d _. destruct t as [|q t'].
        * reflexivity.
        * rewrite (H d) by discriminate. reflexivity.
  Qed.

  (** output order: consecutive triples (a, b, c) of the output are counter-clockwise *)
  Definition ccw_triples (l : list P) : Prop :=
    forall i d, (i + 2 < length l)%nat ->
      sign (nth i l d) (nth (S i) l d) (nth (S (S i)) l d) = 1%Z.

  Lemma ccw_stack_nth s : ccw_stack s -> forall j d, (j + 2 < length s)%nat ->
    sign (nth (S (S j)) s d) (nth (S j) s d) (nth j s d) = 1%Z.
  Proof.
    induction s as [|c t IH]; intros C j d Hj; [cbn in Hj; lia|].
    destruct j as [|j].
    - destruct t as [|b [|a t']]; cbn in Hj; try lia. destruct C as [C _]. exact C.
    - apply (IH (ccw_tail _ _ C) j d). cbn in Hj. lia.
  Qed.

  Lemma ccw_stack_rev s : ccw_stack s -> ccw_triples (rev s).
  Proof.
    intros C i d Hi. rewrite rev_length in Hi.
    rewrite !rev_nth by lia.
    pose proof (ccw_stack_nth s C (length s - 3 - i) d ltac:(lia)) as H.
    replace (length s - S i)%nat with (S (S (length s - 3 - i))) by lia.
    replace (length s - S (S i))%nat with (S (length s - 3 - i)) by lia.
    replace (length s - S (S (S i)))%nat with (length s - 3 - i)%nat by lia.
    exact H.
  Qed.

  Lemma fold_nonempty t : forall s, s <> [] -> fold_left chain_step t s <> [].
  Proof. induction t as [|q t IH]; intros s Hs; cbn; [exact Hs|]. apply IH. discriminate. Qed.

  Theorem monotone_chain_structure pts :
    ccw_triples (monotone_chain pts) /\
    subseq (monotone_chain pts) pts /\
    (forall d, pts <> [] -> hd d (monotone_chain pts) = hd d pts) /\
    (forall d, pts <> [] -> last (monotone_chain pts) d = last pts d).
  Proof.
    unfold Bounds.monotone_chain, Bounds.chain_rev.
    destruct (chain_rev_inv pts [] I) as [A [B [_ H]]]. rewrite app_nil_r in B.
    split; [apply ccw_stack_rev; exact A|]. split; [|split].
    - apply subseq_rev in B. rewrite rev_involutive in B. exact B.
    - intros d Hn. destruct pts as [|p t]; [contradiction|]. cbn [fold_left hd].
      destruct (chain_rev_inv t (chain_step [] p) I) as [_ [_ [L _]]].
      specialize (L d ltac:(discriminate)). cbn in L.
      remember (fold_left chain_step t (chain_step [] p)) as r.
      assert (Ne : r <> []).
      { subst r. apply fold_nonempty. discriminate. }
      clear Heqr. destruct r as [|x r] using rev_ind; [contradiction|].
      rewrite rev_app_distr. cbn. rewrite last_last in L. exact L.
    - intros d Hn. specialize (H d Hn).
      remember (fold_left chain_step pts []) as r. clear Heqr.
      destruct r as [|x r]; cbn in *.
      + (* empty stack is impossible for non-empty input, but hd d [] = d = last pts d anyway *) exact H.
      + rewrite last_last. exact H.
  Qed.
End Hull.

(** the premises are satisfiable and the model runs: a square with an interior point *)
Example chain_example :
  let sign := fun (a b c : Z * Z) =>
    Z.sgn ((fst b - fst a) * (snd c - snd a) - (snd b - snd a) * (fst c - fst a))%Z in
  monotone_chain (Z * Z) sign [(0,0); (2,0); (1,1); (2,2)]%Z = [(0,0); (2,0); (2,2)]%Z.
Proof. reflexivity. Qed.
