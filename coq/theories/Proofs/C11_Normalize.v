(** C11 — Normalize: same leaf set, result sorted / disjoint / without four siblings. *)
From Coq Require Import ZArith List Bool Lia ZifyBool Sorted Permutation.
From Geo Require Import Base.GoPrim Gen.CellID Model.CellUnion Proofs.C11_Bits Proofs.C11_Cells.
Import ListNotations.
Local Open Scope Z_scope.

(** * Leaf sets *)
Definition cov (cu : list Z) (x : Z) : Prop := exists c, In c cu /\ covers c x.
Definition leaves (cu : list Z) (x : Z) : Prop := leaf x /\ cov cu x.

Lemma cov_nil x : ~ cov [] x.
Proof. intros (c & [] & _). Qed.
Lemma cov_cons a l x : cov (a :: l) x <-> covers a x \/ cov l x.
Proof.
  unfold cov; split.
  - intros (c & [->|Hin] & Hc); [left; exact Hc | right; eauto].
  - intros [Hc | (c & Hin & Hc)]; [exists a; split; [left; reflexivity | exact Hc] | exists c; split; [right; exact Hin | exact Hc]].
Qed.
Lemma cov_app l1 l2 x : cov (l1 ++ l2) x <-> cov l1 x \/ cov l2 x.
Proof.
  unfold cov; split.
  - intros (c & Hin & Hc). apply in_app_or in Hin. destruct Hin; [left | right]; eauto.
  - intros [(c & Hin & Hc) | (c & Hin & Hc)]; exists c; (split; [apply in_or_app; auto | exact Hc]).
Qed.
Lemma cov_incl l1 l2 x : (forall c, In c l1 -> In c l2) -> cov l1 x -> cov l2 x.
Proof. intros H (c & Hin & Hc). exists c; auto. Qed.
Lemma cov_rev l x : cov (rev l) x <-> cov l x.
Proof. split; apply cov_incl; intros c; rewrite <- in_rev; auto. Qed.

Lemma valid_le c : valid c -> rmin c <= rmax c.
Proof. intros V. pose proof (valid_range _ V). lia. Qed.

Lemma odd_gap x a : leaf x -> leaf a -> a < x -> a + 2 <= x.
Proof. unfold leaf. intros. Z.div_mod_to_equations. lia. Qed.

Lemma tiles4_cov p a b c d x : tiles4 p a b c d -> leaf x ->
  (covers p x <-> covers a x \/ covers b x \/ covers c x \/ covers d x).
Proof.
  intros T Lx. destruct T. unfold covers.
  pose proof (valid_range _ t4_a) as (_ & _ & _ & _ & La). pose proof (valid_range _ t4_b) as (_ & _ & _ & _ & Lb).
  pose proof (valid_range _ t4_c) as (_ & _ & _ & _ & Lc).
  pose proof (valid_le _ t4_a). pose proof (valid_le _ t4_b). pose proof (valid_le _ t4_c). pose proof (valid_le _ t4_d).
  split.
  - intros Hp.
    destruct (Z_le_gt_dec x (rmax a)); [left; lia|]. pose proof (odd_gap x _ Lx La ltac:(lia)).
    destruct (Z_le_gt_dec x (rmax b)); [right; left; lia|]. pose proof (odd_gap x _ Lx Lb ltac:(lia)).
    destruct (Z_le_gt_dec x (rmax c)); [right; right; left; lia|]. pose proof (odd_gap x _ Lx Lc ltac:(lia)).
    right; right; right; lia.
  - lia.
Qed.

(** * Sorting *)
Lemma insert_perm x l : Permutation (x :: l) (insert_id x l).
Proof.
  induction l as [|y t IH]; cbn; [reflexivity|].
  destruct (x <=? y); [reflexivity|]. rewrite perm_swap. apply perm_skip. exact IH.
Qed.
Lemma sort_perm l : Permutation l (sort_ids l).
Proof.
  induction l as [|x t IH]; cbn; [constructor|].
  rewrite <- insert_perm. apply perm_skip. exact IH.
Qed.
Lemma insert_sorted x l : StronglySorted Z.le l -> StronglySorted Z.le (insert_id x l).
Proof.
  induction l as [|y t IH]; intros HS; cbn.
  - repeat constructor.
  - inversion HS as [|? ? HS' HF]; subst. destruct (Z.leb_spec x y).
    + constructor; [exact HS|]. constructor; [assumption|].
      eapply Forall_impl; [|exact HF]. cbn; intros; lia.
    + constructor; [apply IH; exact HS'|].
      rewrite Forall_forall in *. intros z Hz.
      apply (Permutation_in _ (Permutation_sym (insert_perm x t))) in Hz. destruct Hz as [<-|Hz]; [lia|auto].
Qed.
Lemma sort_sorted l : StronglySorted Z.le (sort_ids l).
Proof. induction l; cbn; [constructor|apply insert_sorted; assumption]. Qed.

(** * The output stack (reversed output slice) *)
(** head is the last accepted cell: everything further down lies strictly before it *)
Definition SSr := StronglySorted (fun a b : Z => rmax b < rmin a).
Definition NSr (out : list Z) : Prop :=
  forall l1 d c b a l2, out = l1 ++ d :: c :: b :: a :: l2 -> s2_areSiblings a b c d = false.
Definition Inv (out : list Z) : Prop := Forall valid out /\ SSr out /\ NSr out.

Lemma NSr_suffix l1 l2 : NSr (l1 ++ l2) -> NSr l2.
Proof.
  intros H k1 d c b a k2 E. apply (H (l1 ++ k1) d c b a k2). rewrite E, app_assoc. reflexivity.
Qed.
Lemma SSr_suffix l1 l2 : SSr (l1 ++ l2) -> SSr l2.
Proof.
  induction l1; cbn; [auto|]. intros H. inversion H; subst. auto.
Qed.
Lemma Inv_suffix l1 l2 : Inv (l1 ++ l2) -> Inv l2.
Proof.
  intros (V & S & N). split; [|split].
  - apply Forall_app in V. tauto.
  - eapply SSr_suffix; eauto.
  - eapply NSr_suffix; eauto.
Qed.
Lemma Inv_nil : Inv [].
Proof.
  split; [constructor|]. split; [constructor|].
  intros l1 d c b a l2 E. destruct l1; discriminate.
Qed.

(** ** drop_contained *)
Lemma drop_contained_spec ci : valid ci -> forall out,
  Forall valid out -> SSr out -> (forall o, In o out -> rmax o < ci) ->
  exists dropped, out = dropped ++ drop_contained ci out /\
    (forall o, In o dropped -> nested_in o ci) /\
    (forall o, In o (drop_contained ci out) -> rmax o < rmin ci).
Proof.
  intros Vc. induction out as [|o rest IH]; intros V S B.
  - exists []. cbn. split; [reflexivity|]. split; intros ? [].
  - inversion V as [|? ? Vo Vr]; subst. inversion S as [|? ? Sr Fo]; subst.
    cbn [drop_contained]. destruct (s2_CellID_Contains ci o) eqn:E.
    + destruct (IH Vr Sr ltac:(intros; apply B; right; assumption)) as (dr & E1 & H1 & H2).
      exists (o :: dr). cbn. split; [f_equal; exact E1|]. split; [|exact H2].
      intros o' [<-|Hin]; [apply contains_nested; assumption | auto].
    + exists []. cbn. split; [reflexivity|]. split; [intros ? []|].
      assert (Hb : rmax o < rmin ci).
      { pose proof (B o ltac:(left; reflexivity)) as Bo.
        pose proof (valid_range _ Vc) as (_ & Hc & _). pose proof (valid_range _ Vo) as (_ & Ho & _).
        destruct (laminar o ci Vo Vc) as [N|[N|[N|N]]].
        - apply contains_nested in N; [congruence|assumption|assumption].
        - unfold nested_in in N. lia.
        - exact N.
        - lia. }
      intros o' [<-|Hin]; [exact Hb|].
      rewrite Forall_forall in Fo. specialize (Fo o' Hin). cbn in Fo.
      pose proof (valid_le _ Vo). lia.
Qed.

(** ** merge_siblings *)
Lemma push_spec out ci : valid ci -> Inv out -> (forall o, In o out -> rmax o < rmin ci) ->
  (forall o1 o2 o3 rest, out = o1 :: o2 :: o3 :: rest -> s2_areSiblings o3 o2 o1 ci = false) ->
  Inv (ci :: out) /\ (forall x, leaf x -> (cov (ci :: out) x <-> cov out x \/ covers ci x)) /\
  (exists h t, ci :: out = h :: t /\ rmin h <= rmin ci).
Proof.
  intros Vc (V & S & N) B Hns. split; [|split].
  - split; [constructor; assumption|]. split.
    + constructor; [exact S|]. rewrite Forall_forall. exact B.
    + intros l1 d c b a l2 E. destruct l1 as [|z l1].
      * cbn in E. injection E as <- E. eapply Hns. exact E.
      * cbn in E. injection E as _ E. eapply N. exact E.
  - intros x _. rewrite cov_cons. tauto.
  - exists ci, out. split; [reflexivity|lia].
Qed.

Lemma merge_siblings_spec : forall (n : nat) out ci, (length out <= n)%nat ->
  valid ci -> Inv out -> (forall o, In o out -> rmax o < rmin ci) ->
  let out' := merge_siblings ci out in
  Inv out' /\ (forall x, leaf x -> (cov out' x <-> cov out x \/ covers ci x)) /\
  (exists h t, out' = h :: t /\ rmin h <= rmin ci).
Proof.
  induction n as [|n IH]; intros out ci Hlen Vc I B.
  - destruct out; [|cbn in Hlen; lia]. apply push_spec; try assumption. intros; discriminate.
  - destruct out as [|o1 [|o2 [|o3 rest]]]; try (apply push_spec; try assumption; intros; discriminate).
    cbn [merge_siblings]. cbv zeta. destruct (s2_areSiblings o3 o2 o1 ci) eqn:E.
    + (* collapse *)
      destruct I as (V & S & N).
      inversion V as [|? ? V1 V']; subst. inversion V' as [|? ? V2 V'']; subst. inversion V'' as [|? ? V3 Vr]; subst.
      inversion S as [|? ? S' F1]; subst. inversion S' as [|? ? S'' F2]; subst. inversion S'' as [|? ? Sr F3]; subst.
      rewrite Forall_forall in F1, F2, F3.
      pose proof (F1 o2 ltac:(left; reflexivity)) as H21. pose proof (F2 o3 ltac:(left; reflexivity)) as H32. cbn in H21, H32.
      pose proof (B o1 ltac:(left; reflexivity)) as H1c.
      pose proof (valid_range _ V1) as (_ & R1 & _). pose proof (valid_range _ V2) as (_ & R2 & _).
      pose proof (valid_range _ V3) as (_ & R3 & _). pose proof (valid_range _ Vc) as (_ & Rc & _).
      destruct (siblings_tiles o3 o2 o1 ci V3 V2 V1 Vc ltac:(lia) ltac:(lia) ltac:(lia) E) as [T VP].
      set (p := s2_CellID_immediateParent ci) in *.
      assert (Ir : Inv rest).
      { split; [exact Vr|]. split; [exact Sr|]. apply (NSr_suffix [o1; o2; o3]). exact N. }
      assert (Br : forall o, In o rest -> rmax o < rmin p).
      { intros o Hin. specialize (F3 o Hin). cbn in F3. destruct T. lia. }
      destruct (IH rest p ltac:(cbn in Hlen; lia) VP Ir Br) as (I' & C' & (h & t & Eh & Hh)).
      split; [exact I'|]. split.
      * intros x Lx. rewrite (C' x Lx), (tiles4_cov _ _ _ _ _ x T Lx), !cov_cons. tauto.
      * exists h, t. split; [exact Eh|]. destruct T. pose proof (valid_le _ V3). pose proof (valid_le _ V2). pose proof (valid_le _ V1). lia.
    + apply push_spec; try assumption. intros ? ? ? ? E'. injection E' as <- <- <- <-. exact E.
Qed.

(** ** one iteration of the loop *)
Lemma step_spec out ci : valid ci -> Inv out ->
  (forall h t, out = h :: t -> rmin h <= ci) ->
  let out' := normalize_step out ci in
  Inv out' /\ (forall x, leaf x -> (cov out' x <-> cov out x \/ covers ci x)) /\
  (exists h t, out' = h :: t /\ rmin h <= ci).
Proof.
  intros Vc I H5. cbv zeta. unfold normalize_step.
  pose proof (valid_range _ Vc) as (_ & Rc & _).
  destruct out as [|h t].
  - destruct (merge_siblings_spec 0 [] ci ltac:(cbn; lia) Vc I ltac:(intros ? [])) as (I' & C' & (h & t & E & Hh)).
    split; [exact I'|]. split; [exact C'|]. exists h, t. split; [exact E|lia].
  - specialize (H5 h t eq_refl). destruct I as (V & S & N).
    inversion V as [|? ? Vh Vt]; subst. inversion S as [|? ? St Fh]; subst.
    destruct (s2_CellID_Contains h ci) eqn:E.
    + (* ci lies inside the last accepted cell *)
      split; [repeat split; assumption|]. split.
      * intros x _. apply contains_nested in E; [|assumption|assumption].
        rewrite cov_cons. unfold nested_in, covers in *. split; [tauto|]. intros [Hc|Hc]; [exact Hc|left; lia].
      * exists h, t. split; [reflexivity|exact H5].
    + assert (Hlt : rmax h < ci).
      { destruct (Z_lt_le_dec (rmax h) ci); [assumption|].
        assert (s2_CellID_Contains h ci = true) by (apply contains_spec; [assumption|apply valid_u64; assumption|lia]).
        congruence. }
      assert (B : forall o, In o (h :: t) -> rmax o < ci).
      { intros o [<-|Hin]; [exact Hlt|]. rewrite Forall_forall in Fh. specialize (Fh o Hin). cbn in Fh.
        pose proof (valid_le _ Vh). lia. }
      destruct (drop_contained_spec ci Vc (h :: t) V S B) as (dr & Ed & Hn & Hb).
      set (out2 := drop_contained ci (h :: t)) in *.
      assert (I2 : Inv out2) by (apply (Inv_suffix dr); rewrite <- Ed; repeat split; assumption).
      destruct (merge_siblings_spec (length out2) out2 ci (le_n _) Vc I2 Hb) as (I' & C' & (h' & t' & E' & Hh')).
      split; [exact I'|]. split.
      * intros x Lx. rewrite (C' x Lx). rewrite Ed. rewrite cov_app.
        split; [tauto|]. intros [[(o & Hin & Ho)|Hc]|Hc]; auto.
        right. specialize (Hn o Hin). unfold nested_in, covers in *. lia.
      * exists h', t'. split; [exact E'|lia].
Qed.

(** ** the whole loop *)
Lemma fold_spec : forall l out, StronglySorted Z.le l -> Forall valid l -> Inv out ->
  (forall h t x, out = h :: t -> In x l -> rmin h <= x) ->
  let out' := fold_left normalize_step l out in
  Inv out' /\ (forall x, leaf x -> (cov out' x <-> cov out x \/ cov l x)).
Proof.
  induction l as [|ci l IH]; intros out S V I H5; cbn [fold_left].
  - split; [exact I|]. intros x _. pose proof (cov_nil x). tauto.
  - inversion S as [|? ? Sl Fl]; subst. inversion V as [|? ? Vc Vl]; subst.
    destruct (step_spec out ci Vc I ltac:(intros h t E; apply (H5 h t ci E); left; reflexivity)) as (I' & C' & (h' & t' & E' & Hh')).
    destruct (IH (normalize_step out ci) Sl Vl I') as (I'' & C'').
    { intros h t x E Hin. rewrite E' in E. injection E as <- <-.
      rewrite Forall_forall in Fl. specialize (Fl x Hin). lia. }
    split; [exact I''|]. intros x Lx. rewrite (C'' x Lx), (C' x Lx), cov_cons. tauto.
Qed.

(** * Normal form, as a property of the (ascending) result *)
Definition before (a b : Z) : Prop := rmax a < rmin b.
(** no four consecutive entries pass the library's own sibling test *)
Definition NSc (l : list Z) : Prop :=
  forall l1 a b c d l2, l = l1 ++ a :: b :: c :: d :: l2 -> s2_areSiblings a b c d = false.
Definition normal (l : list Z) : Prop := Forall valid l /\ StronglySorted before l /\ NSc l.

Lemma SS_app (R : Z -> Z -> Prop) l1 l2 :
  StronglySorted R l1 -> StronglySorted R l2 -> (forall x y, In x l1 -> In y l2 -> R x y) ->
  StronglySorted R (l1 ++ l2).
Proof.
  induction l1 as [|a l1 IH]; cbn; intros S1 S2 H; [exact S2|].
  inversion S1; subst. constructor.
  - apply IH; auto.
  - apply Forall_app. split; [assumption|]. rewrite Forall_forall. intros y Hy. apply H; [left; reflexivity|exact Hy].
Qed.

Lemma SSr_rev out : SSr out -> StronglySorted before (rev out).
Proof.
  induction out as [|a l IH]; cbn; intros S; [constructor|].
  inversion S as [|? ? Sl F]; subst. apply SS_app; [apply IH; exact Sl|repeat constructor|].
  intros x y Hx [<-|[]]. rewrite Forall_forall in F. apply F. apply in_rev. exact Hx.
Qed.

Lemma NSr_rev out : NSr out -> NSc (rev out).
Proof.
  intros N l1 a b c d l2 E. apply (N (rev l2) d c b a (rev l1)).
  rewrite <- (rev_involutive out), E, rev_app_distr. cbn. rewrite <- !app_assoc. reflexivity.
Qed.

Lemma Forall_rev_iff (P : Z -> Prop) l : Forall P l -> Forall P (rev l).
Proof. rewrite !Forall_forall. intros H x Hx. apply H. apply in_rev. exact Hx. Qed.

Theorem normalize_spec cu : Forall valid cu ->
  normal (cu_Normalize cu) /\ (forall x, leaf x -> (cov (cu_Normalize cu) x <-> cov cu x)).
Proof.
  intros V. unfold cu_Normalize.
  assert (Vs : Forall valid (sort_ids cu)).
  { rewrite Forall_forall in *. intros x Hx. apply V. eapply Permutation_in; [apply Permutation_sym, sort_perm|exact Hx]. }
  destruct (fold_spec (sort_ids cu) [] (sort_sorted cu) Vs Inv_nil ltac:(intros; discriminate)) as ((V' & S' & N') & C).
  split.
  - split; [apply Forall_rev_iff; exact V'|]. split; [apply SSr_rev; exact S'|apply NSr_rev; exact N'].
  - intros x Lx. rewrite cov_rev, (C x Lx). pose proof (cov_nil x).
    split.
    + intros [?|H1]; [tauto|]. eapply cov_incl; [|exact H1]. intros c Hc. eapply Permutation_in; [apply Permutation_sym, sort_perm|exact Hc].
    + intros H1. right. eapply cov_incl; [|exact H1]. intros c Hc. eapply Permutation_in; [apply sort_perm|exact Hc].
Qed.
