(** Exact IEEE facts used by C17 (sign of sums/squares/quotients, x - x = +0, magnitude
    bounds that exclude overflow), derived from Flocq's BinarySingleNaN through the
    PrimFloat bridge. *)
From Coq Require Import ZArith Reals Floats Lra Lia Bool.
From Flocq Require Import Core.Core IEEE754.BinarySingleNaN IEEE754.PrimFloat.
From Geo Require Import Base.GoPrim Base.F64.
Local Open Scope R_scope.

Notation pfloat := PrimFloat.float.
#[local] Existing Instance Hprec.
#[local] Existing Instance Hmax.

Lemma prim_inj (x y : pfloat) : Prim2B x = Prim2B y -> x = y.
Proof. intros H. rewrite <- (B2Prim_Prim2B x), <- (B2Prim_Prim2B y), H. reflexivity. Qed.

Lemma prim_zero (x : pfloat) : Prim2B x = B754_zero false -> x = 0%float.
Proof. intros H. apply prim_inj. rewrite H. reflexivity. Qed.

Lemma go_signbit_equiv (x : pfloat) : go_signbit x = Bsign (Prim2B x).
Proof.
  unfold go_signbit. rewrite <- B2SF_Prim2B. destruct (Prim2B x) as [s|s| |s m e He]; reflexivity.
Qed.

(** [sp x]: the sign bit is clear, or x is NaN *)
Definition sp (x : pfloat) : Prop := Bsign (Prim2B x) = false.

Lemma overflow_sign (b : bfloat) s : B2SF b = binary_overflow prec emax mode_NE s -> Bsign b = s.
Proof.
  unfold binary_overflow. simpl. destruct b as [s'|s'| |s' m e He]; simpl; intros H; inversion H; reflexivity.
Qed.

Lemma sp_nonneg_R (x : pfloat) : sp x -> 0 <= B2R (Prim2B x).
Proof.
  unfold sp. destruct (Prim2B x) as [s|s| |s m e He]; simpl; intros H; try lra.
  subst s. apply F2R_ge_0. simpl. lia.
Qed.

Lemma sp_add (x y : pfloat) : sp x -> sp y -> sp (x + y).
Proof.
  unfold sp. rewrite add_equiv. intros Hx Hy.
  destruct (is_finite (Prim2B x)) eqn:Fx; [destruct (is_finite (Prim2B y)) eqn:Fy|].
  - pose proof (Bplus_correct _ _ _ _ mode_NE _ _ Fx Fy) as H.
    pose proof (sp_nonneg_R x Hx). pose proof (sp_nonneg_R y Hy).
    destruct (Rlt_bool _ _).
    + destruct H as [_ [_ H]]. rewrite H, Hx, Hy.
      destruct (Rcompare_spec (B2R (Prim2B x) + B2R (Prim2B y)) 0); try reflexivity. lra.
    + destruct H as [H _]. apply overflow_sign in H. congruence.
  - destruct (Prim2B x) as [sx|sx| |sx mx ex Hex], (Prim2B y) as [sy|sy| |sy my ey Hey];
      simpl in *; try discriminate; subst; reflexivity.
  - destruct (Prim2B x) as [sx|sx| |sx mx ex Hex], (Prim2B y) as [sy|sy| |sy my ey Hey];
      simpl in *; try discriminate; subst; reflexivity.
Qed.

Lemma sp_mul (x y : pfloat) : Bsign (Prim2B x) = Bsign (Prim2B y) -> sp (x * y).
Proof.
  unfold sp. rewrite mul_equiv. intros Hs.
  pose proof (Bmult_correct _ _ _ _ mode_NE (Prim2B x) (Prim2B y)) as H.
  destruct (Rlt_bool _ _).
  - destruct H as [_ [_ H]].
    destruct (is_nan (Bmult mode_NE (Prim2B x) (Prim2B y))) eqn:N.
    + destruct (Bmult mode_NE (Prim2B x) (Prim2B y)); try discriminate; reflexivity.
    + rewrite (H eq_refl), Hs. apply xorb_nilpotent.
  - apply overflow_sign in H. rewrite H, Hs. apply xorb_nilpotent.
Qed.

Lemma sp_square (x : pfloat) : sp (x * x).
Proof. apply sp_mul. reflexivity. Qed.

Lemma sp_sqrt (x : pfloat) : sp x -> sp (PrimFloat.sqrt x).
Proof.
  unfold sp. rewrite sqrt_equiv. intros Hx.
  destruct (Bsqrt_correct _ _ _ _ mode_NE (Prim2B x)) as [_ [_ H]].
  destruct (is_nan (Bsqrt mode_NE (Prim2B x))) eqn:N.
  - destruct (Bsqrt mode_NE (Prim2B x)); try discriminate; reflexivity.
  - rewrite (H eq_refl). exact Hx.
Qed.

Lemma sp_div (x y : pfloat) : sp x -> sp y -> sp (x / y).
Proof.
  unfold sp. rewrite div_equiv. intros Hx Hy.
  destruct (Req_dec (B2R (Prim2B y)) 0) as [Zy|Zy].
  - destruct (Prim2B x) as [sx|sx| |sx mx ex Hex], (Prim2B y) as [sy|sy| |sy my ey Hey];
      simpl in *; subst; try reflexivity.
    exfalso. revert Zy. apply Rgt_not_eq. apply F2R_gt_0. simpl. lia.
  - pose proof (Bdiv_correct _ _ _ _ mode_NE (Prim2B x) (Prim2B y) Zy) as H.
    destruct (Rlt_bool _ _).
    + destruct H as [_ [_ H]].
      destruct (is_nan (Bdiv mode_NE (Prim2B x) (Prim2B y))) eqn:N.
      * destruct (Bdiv mode_NE (Prim2B x) (Prim2B y)); try discriminate; reflexivity.
      * rewrite (H eq_refl), Hx, Hy. reflexivity.
    + apply overflow_sign in H. rewrite H, Hx, Hy. reflexivity.
Qed.

Lemma sp_zero : sp 0%float.
Proof. reflexivity. Qed.
Lemma sp_one : sp 1%float.
Proof. reflexivity. Qed.

(** a sign-clear non-NaN float has non-negative rank *)
Lemma sp_rank (x : pfloat) : sp x -> nonnan x -> 0 <= rank x.
Proof.
  unfold sp, nonnan, rank. rewrite go_isnan_equiv. pose proof top_pos.
  destruct (Prim2B x) as [s|s| |s m e He]; simpl; intros Hs Hn; subst; try lra; try discriminate.
  apply F2R_ge_0. simpl. lia.
Qed.

Definition finite (x : pfloat) : Prop := is_finite (Prim2B x) = true.

(** x - x = +0 for every finite x (round to nearest) *)
Lemma sub_self (x : pfloat) : finite x -> (x - x)%float = 0%float.
Proof.
  unfold finite. intros Fx. apply prim_zero. rewrite sub_equiv.
  pose proof (Bminus_correct _ _ _ _ mode_NE _ _ Fx Fx) as H.
  replace (B2R (Prim2B x) - B2R (Prim2B x)) with 0 in H by lra.
  rewrite round_0 in H by (apply valid_rnd_N). rewrite Rabs_R0 in H.
  rewrite Rlt_bool_true in H by (apply bpow_gt_0).
  destruct H as [HR [HF HS]]. rewrite Rcompare_Eq in HS by reflexivity.
  destruct (Bminus mode_NE (Prim2B x) (Prim2B x)) as [s|s| |s m e He]; simpl in *; try discriminate.
  - rewrite HS. f_equal. destruct (Bsign (Prim2B x)); reflexivity.
  - exfalso. destruct s; [apply Rlt_not_eq in HR | apply Rgt_not_eq in HR]; try exact HR.
    + apply F2R_lt_0. simpl. lia.
    + apply F2R_gt_0. simpl. lia.
Qed.
