(** Exact IEEE facts used by C17 (sign of sums/squares/quotients, x - x = +0, magnitude
    bounds that exclude overflow), derived from Flocq's BinarySingleNaN through the
    PrimFloat bridge. *)
From Coq Require Import ZArith Reals Floats Lra Lia Bool.
From Flocq Require Import Core.Core IEEE754.BinarySingleNaN IEEE754.PrimFloat.
From Geo Require Import Base.GoPrim Base.F64.
Local Open Scope R_scope.

Notation pfloat := PrimFloat.float.
#[local] Existing Instance Hprec.
#[local] Existing Instance Hmax.

Lemma prim_inj (x y : pfloat) : Prim2B x = Prim2B y -> x = y.
Proof. intros H. rewrite <- (B2Prim_Prim2B x), <- (B2Prim_Prim2B y), H. reflexivity. Qed.

Lemma prim_zero (x : pfloat) : Prim2B x = B754_zero false -> x = 0%float.
Proof. intros H. apply prim_inj. rewrite H. reflexivity. Qed.

Lemma go_signbit_equiv (x : pfloat) : go_signbit x = Bsign (Prim2B x).
Proof.
  unfold go_signbit. rewrite <- B2SF_Prim2B. destruct (Prim2B x) as [s|s| |s m e He]; reflexivity.
Qed.

(** [sp x]: the sign bit is clear, or x is NaN *)
Definition sp (x : pfloat) : Prop := Bsign (Prim2B x) = false.

Lemma overflow_sign (b : bfloat) s : B2SF b = binary_overflow prec emax mode_NE s -> Bsign b = s.
Proof.
  unfold binary_overflow. simpl. destruct b as [s'|s'| |s' m e He]; simpl; intros H; inversion H; reflexivity.
Qed.

Lemma sp_nonneg_R (x : pfloat) : sp x -> 0 <= B2R (Prim2B x).
Proof.
  unfold sp. destruct (Prim2B x) as [s|s| |s m e He]; simpl; intros H; try lra.
  subst s. apply F2R_ge_0. simpl. lia.
Qed.

Lemma sp_add (x y : pfloat) : sp x -> sp y -> sp (x + y).
Proof.
  unfold sp. rewrite add_equiv. intros Hx Hy.
  destruct (is_finite (Prim2B x)) eqn:Fx; [destruct (is_finite (Prim2B y)) eqn:Fy|].
  - pose proof (Bplus_correct _ _ _ _ mode_NE _ _ Fx Fy) as H.
    pose proof (sp_nonneg_R x Hx). pose proof (sp_nonneg_R y Hy).
    destruct (Rlt_bool _ _).
    + destruct H as [_ [_ H]]. rewrite H, Hx, Hy.
      destruct (Rcompare_spec (B2R (Prim2B x) + B2R (Prim2B y)) 0); try reflexivity. lra.
    + destruct H as [H _]. apply overflow_sign in H. congruence.
  - destruct (Prim2B x) as [sx|sx| |sx mx ex Hex], (Prim2B y) as [sy|sy| |sy my ey Hey];
      simpl in *; try discriminate; subst; reflexivity.
  - destruct (Prim2B x) as [sx|sx| |sx mx ex Hex], (Prim2B y) as [sy|sy| |sy my ey Hey];
      simpl in *; try discriminate; subst; reflexivity.
Qed.

Lemma sp_mul (x y : pfloat) : Bsign (Prim2B x) = Bsign (Prim2B y) -> sp (x * y).
Proof.
  unfold sp. rewrite mul_equiv. intros Hs.
  pose proof (Bmult_correct _ _ _ _ mode_NE (Prim2B x) (Prim2B y)) as H.
  destruct (Rlt_bool _ _).
  - destruct H as [_ [_ H]].
    destruct (is_nan (Bmult mode_NE (Prim2B x) (Prim2B y))) eqn:N.
    + destruct (Bmult mode_NE (Prim2B x) (Prim2B y)); try discriminate; reflexivity.
    + rewrite (H eq_refl), Hs. apply xorb_nilpotent.
  - apply overflow_sign in H. rewrite H, Hs. apply xorb_nilpotent.
Qed.

Lemma sp_square (x : pfloat) : sp (x * x).
Proof. apply sp_mul. reflexivity. Qed.

Lemma sp_sqrt (x : pfloat) : sp x -> sp (PrimFloat.sqrt x).
Proof.
  unfold sp. rewrite sqrt_equiv. intros Hx.
  destruct (Bsqrt_correct _ _ _ _ mode_NE (Prim2B x)) as [_ [_ H]].
  destruct (is_nan (Bsqrt mode_NE (Prim2B x))) eqn:N.
  - destruct (Bsqrt mode_NE (Prim2B x)); try discriminate; reflexivity.
  - rewrite (H eq_refl). exact Hx.
Qed.

Lemma sp_div (x y : pfloat) : sp x -> sp y -> sp (x / y).
Proof.
  unfold sp. rewrite div_equiv. intros Hx Hy.
  destruct (Req_dec (B2R (Prim2B y)) 0) as [Zy|Zy].
  - destruct (Prim2B x) as [sx|sx| |sx mx ex Hex], (Prim2B y) as [sy|sy| |sy my ey Hey];
      simpl in *; subst; try reflexivity.
    exfalso. revert Zy. apply Rgt_not_eq. apply F2R_gt_0. simpl. lia.
  - pose proof (Bdiv_correct _ _ _ _ mode_NE (Prim2B x) (Prim2B y) Zy) as H.
    destruct (Rlt_bool _ _).
    + destruct H as [_ [_ H]].
      destruct (is_nan (Bdiv mode_NE (Prim2B x) (Prim2B y))) eqn:N.
      * destruct (Bdiv mode_NE (Prim2B x) (Prim2B y)); try discriminate; reflexivity.
      * rewrite (H eq_refl), Hx, Hy. reflexivity.
    + apply overflow_sign in H. rewrite H, Hx, Hy. reflexivity.
Qed.

Lemma sp_zero : sp 0%float.
Proof. reflexivity. Qed.
Lemma sp_one : sp 1%float.
Proof. reflexivity. Qed.

(** a sign-clear non-NaN float has non-negative rank *)
Lemma sp_rank (x : pfloat) : sp x -> nonnan x -> 0 <= rank x.
Proof.
  unfold sp, nonnan, rank. rewrite go_isnan_equiv. pose proof top_pos.
  destruct (Prim2B x) as [s|s| |s m e He]; simpl; intros Hs Hn; subst; try lra; try discriminate.
  apply F2R_ge_0. simpl. lia.
Qed.

Definition finite (x : pfloat) : Prop := is_finite (Prim2B x) = true.

(** x - x = +0 for every finite x (round to nearest) *)
Lemma sub_self (x : pfloat) : finite x -> (x - x)%float = 0%float.
Proof.
  unfold finite. intros Fx. apply prim_zero. rewrite sub_equiv.
  pose proof (Bminus_correct _ _ _ _ mode_NE _ _ Fx Fx) as H.
  replace (B2R (Prim2B x) - B2R (Prim2B x)) with 0 in H by lra.
  rewrite round_0 in H by (apply valid_rnd_N). rewrite Rabs_R0 in H.
  rewrite Rlt_bool_true in H by (apply bpow_gt_0).
  destruct H as [HR [HF HS]]. rewrite Rcompare_Eq in HS by reflexivity.
  destruct (Bminus mode_NE (Prim2B x) (Prim2B x)) as [s|s| |s m e He]; simpl in *; try discriminate.
  - rewrite HS. f_equal. destruct (Bsign (Prim2B x)); reflexivity.
  - exfalso. destruct s; [apply Rlt_not_eq in HR | apply Rgt_not_eq in HR]; try exact HR.
    + apply F2R_lt_0. simpl. lia.
    + apply F2R_gt_0. simpl. lia.
Qed.

(** ** magnitude bounds that rule out overflow *)
Definition bnd (k : Z) (x : pfloat) : Prop :=
  is_finite (Prim2B x) = true /\ Rabs (B2R (Prim2B x)) <= bpow radix2 k.

Notation fexp64 := (SpecFloat.fexp prec emax).

Lemma format_bpow k : (-1074 <= k)%Z -> generic_format radix2 fexp64 (bpow radix2 k).
Proof.
  intros Hk. apply generic_format_bpow. unfold SpecFloat.fexp, SpecFloat.emin, prec, emax. lia.
Qed.

Lemma round_bnd k r : (-1074 <= k)%Z -> Rabs r <= bpow radix2 k ->
  Rabs (round radix2 fexp64 (round_mode mode_NE) r) <= bpow radix2 k.
Proof.
  intros Hk Hr. apply abs_round_le_generic; auto with typeclass_instances.
  - apply fexp_correct. reflexivity.
  - apply format_bpow; exact Hk.
Qed.

Lemma bnd_mono i j x : (i <= j)%Z -> bnd i x -> bnd j x.
Proof. intros Hij [F H]. split; [exact F|]. eapply Rle_trans; [exact H | apply bpow_le; exact Hij]. Qed.

Lemma bnd_finite k x : bnd k x -> finite x.
Proof. intros [F _]. exact F. Qed.

Lemma bnd_mul i j x y : (0 <= i)%Z -> (0 <= j)%Z -> (i + j < 1024)%Z ->
  bnd i x -> bnd j y -> bnd (i + j) (x * y).
Proof.
  intros Hi Hj Hij [Fx Hx] [Fy Hy]. unfold bnd. rewrite mul_equiv.
  pose proof (Bmult_correct _ _ _ _ mode_NE (Prim2B x) (Prim2B y)) as H.
  assert (Hr : Rabs (B2R (Prim2B x) * B2R (Prim2B y)) <= bpow radix2 (i + j)).
  { rewrite Rabs_mult, bpow_plus. apply Rmult_le_compat; auto using Rabs_pos. }
  pose proof (round_bnd (i + j) _ ltac:(lia) Hr) as Hb.
  rewrite Rlt_bool_true in H.
  - destruct H as [HR [HF _]]. rewrite HR, HF, Fx, Fy. split; [reflexivity | exact Hb].
  - eapply Rle_lt_trans; [exact Hb | apply bpow_lt; unfold emax; lia].
Qed.

Lemma bnd_add i x y : (0 <= i)%Z -> (i + 1 < 1024)%Z ->
  bnd i x -> bnd i y -> bnd (i + 1) (x + y).
Proof.
  intros Hi Hij [Fx Hx] [Fy Hy]. unfold bnd. rewrite add_equiv.
  pose proof (Bplus_correct _ _ _ _ mode_NE _ _ Fx Fy) as H.
  assert (Hr : Rabs (B2R (Prim2B x) + B2R (Prim2B y)) <= bpow radix2 (i + 1)).
  { rewrite bpow_plus. simpl (bpow radix2 1). eapply Rle_trans; [apply Rabs_triang|]. lra. }
  pose proof (round_bnd (i + 1) _ ltac:(lia) Hr) as Hb.
  rewrite Rlt_bool_true in H.
  - destruct H as [HR [HF _]]. rewrite HR, HF. split; [reflexivity | exact Hb].
  - eapply Rle_lt_trans; [exact Hb | apply bpow_lt; unfold emax; lia].
Qed.

Lemma bnd_sub i x y : (0 <= i)%Z -> (i + 1 < 1024)%Z ->
  bnd i x -> bnd i y -> bnd (i + 1) (x - y).
Proof.
  intros Hi Hij [Fx Hx] [Fy Hy]. unfold bnd. rewrite sub_equiv.
  pose proof (Bminus_correct _ _ _ _ mode_NE _ _ Fx Fy) as H.
  assert (Hr : Rabs (B2R (Prim2B x) - B2R (Prim2B y)) <= bpow radix2 (i + 1)).
  { rewrite bpow_plus. simpl (bpow radix2 1). unfold Rminus.
    eapply Rle_trans; [apply Rabs_triang|]. rewrite Rabs_Ropp. lra. }
  pose proof (round_bnd (i + 1) _ ltac:(lia) Hr) as Hb.
  rewrite Rlt_bool_true in H.
  - destruct H as [HR [HF _]]. rewrite HR, HF. split; [reflexivity | exact Hb].
  - eapply Rle_lt_trans; [exact Hb | apply bpow_lt; unfold emax; lia].
Qed.

Lemma bnd_zero k : bnd k 0%float.
Proof. split; [reflexivity|]. simpl. rewrite Rabs_R0. apply bpow_ge_0. Qed.

Lemma bnd_one : bnd 0 1%float.
Proof.
  split; [reflexivity|]. change 1%float with one. rewrite one_equiv, Prim2B_B2Prim.
  simpl. unfold F2R, Defs.F2R. simpl. rewrite Rabs_pos_eq; lra.
Qed.

Lemma B2R_one : B2R (Prim2B 1%float) = 1.
Proof.
  change 1%float with one. rewrite one_equiv, Prim2B_B2Prim. simpl. unfold F2R, Defs.F2R. simpl. lra.
Qed.

(** 1/sqrt(n) for a finite, sign-clear, non-zero n: at most 2^537, so no overflow *)
Lemma bnd_inv_sqrt n : finite n -> sp n -> PrimFloat.eqb n 0%float = false ->
  bnd 537 (1 / PrimFloat.sqrt n).
Proof.
  unfold finite, sp. rewrite eqb_equiv. change (Prim2B 0%float) with (B754_zero false : bfloat).
  intros Fn Sn Zn.
  (* n is a positive finite number, hence at least the smallest subnormal *)
  assert (Hpos : 0 < B2R (Prim2B n)).
  { destruct (Prim2B n) as [s|s| |s m e He]; try discriminate.
    simpl in Sn. subst s. simpl. apply F2R_gt_0. simpl. lia. }
  assert (Hn : bpow radix2 (-1074) <= B2R (Prim2B n)).
  { apply (generic_format_ge_bpow radix2 fexp64); [|exact Hpos | apply generic_format_B2R].
    intros e. unfold SpecFloat.fexp, SpecFloat.emin, prec, emax. lia. }
  (* its square root is finite and at least 2^-537 *)
  destruct (Bsqrt_correct _ _ _ _ mode_NE (Prim2B n)) as [HR [HF _]].
  assert (HFs : is_finite (Bsqrt mode_NE (Prim2B n)) = true).
  { rewrite HF. destruct (Prim2B n) as [s|s| |s m e He]; try discriminate; try reflexivity.
    simpl in Sn. subst s. reflexivity. }
  assert (Hs : bpow radix2 (-537) <= B2R (Bsqrt mode_NE (Prim2B n))).
  { rewrite HR. apply round_ge_generic; auto with typeclass_instances.
    - apply fexp_correct. reflexivity.
    - apply format_bpow. lia.
    - change (-537)%Z with ((-1074) / 2)%Z. eapply Rle_trans; [apply sqrt_bpow_ge|].
      apply sqrt_le_1_alt. exact Hn. }
  assert (Hs0 : 0 < bpow radix2 (-537)) by apply bpow_gt_0.
  unfold bnd. rewrite div_equiv, sqrt_equiv.
  assert (Zy : B2R (Bsqrt mode_NE (Prim2B n)) <> 0) by lra.
  pose proof (Bdiv_correct _ _ _ _ mode_NE (Prim2B 1%float) _ Zy) as H.
  rewrite B2R_one in H.
  assert (Hr : Rabs (1 / B2R (Bsqrt mode_NE (Prim2B n))) <= bpow radix2 537).
  { rewrite Rabs_pos_eq.
    - apply Rle_trans with (1 / bpow radix2 (-537)).
      + unfold Rdiv. rewrite !Rmult_1_l. apply Rinv_le; lra.
      + unfold Rdiv. rewrite Rmult_1_l, <- bpow_opp. simpl Z.opp. lra.
    - apply Rlt_le. apply Rdiv_lt_0_compat; lra. }
  pose proof (round_bnd 537 _ ltac:(lia) Hr) as Hb.
  rewrite Rlt_bool_true in H.
  - destruct H as [HR' [HF' _]]. rewrite HR', HF'. split; [reflexivity | exact Hb].
  - eapply Rle_lt_trans; [exact Hb | apply bpow_lt; unfold emax; lia].
Qed.
