(** C03 — the cyclic-order law of OrderedCCW (four rays around a vertex) derived from the
    Grassmann-Pluecker sign condition of the orientation predicate, and AngleContainsVertex
    property (3) with exactly the guards it needs. *)
From Coq Require Import ZArith List Bool Lia ZifyBool.
From Geo Require Import Model.Crosser Proofs.C03_Crosser Proofs.C03_Vertex Proofs.C03_Extra.
Import ListNotations.
Local Open Scope Z_scope.
Local Open Scope bool_scope.

(** OrderedCCW as a function of its three signs ([occw_eq]) *)
Definition occwb (x y z : Z) : bool :=
  (negb (x =? -1) && negb (y =? -1)) || (negb (x =? -1) && (z =? 1)) || (negb (y =? -1) && (z =? 1)).
Definition pm (x : Z) : Prop := x = 1 \/ x = -1.

(** all sign patterns of four rays in general position that satisfy Grassmann-Pluecker *)
Lemma split_numeric A B C P Q S : pm A -> pm B -> pm C -> pm P -> pm Q -> pm S ->
  ~ (0 < - (A * S) /\ 0 < C * Q /\ 0 < - (P * B)) ->
  ~ (- (A * S) < 0 /\ C * Q < 0 /\ - (P * B) < 0) ->
  occwb (-A) (-B) C = true ->
  Z.b2z (negb (occwb (-P) (-C) S)) = Z.b2z (negb (occwb (-P) (-A) Q)) + Z.b2z (negb (occwb (-Q) (-B) S)).
Proof.
  intros [->| ->] [->| ->] [->| ->] [->| ->] [->| ->] [->| ->] G1 G2 H;
    vm_compute in H |- *; try reflexivity; try discriminate; exfalso; first [apply G1; lia | apply G2; lia].
Qed.
(** the start ray coincides with u, v or w: no constraint is needed *)
Lemma split_numeric_ru A B C : pm A -> pm B -> pm C -> occwb (-A) (-B) C = true ->
  Z.b2z (negb (occwb 0 (-C) C)) = Z.b2z (negb (occwb 0 (-A) A)) + Z.b2z (negb (occwb (-A) (-B) C)).
Proof. intros [->| ->] [->| ->] [->| ->] H; vm_compute in H |- *; try reflexivity; discriminate. Qed.
Lemma split_numeric_rv A B C : pm A -> pm B -> pm C -> occwb (-A) (-B) C = true ->
  Z.b2z (negb (occwb A (-C) B)) = Z.b2z (negb (occwb A (-A) 0)) + Z.b2z (negb (occwb 0 (-B) B)).
Proof. intros [->| ->] [->| ->] [->| ->] H; vm_compute in H |- *; try reflexivity; discriminate. Qed.
Lemma split_numeric_rw A B C : pm A -> pm B -> pm C -> occwb (-A) (-B) C = true ->
  Z.b2z (negb (occwb C (-C) 0)) = Z.b2z (negb (occwb C (-A) (-B))) + Z.b2z (negb (occwb B (-B) 0)).
Proof. intros [->| ->] [->| ->] [->| ->] H; vm_compute in H |- *; try reflexivity; discriminate. Qed.

Section Cyclic.
Variable point : Type.
Variable peq : point -> point -> bool.
Variable sign : point -> point -> point -> Z.
Variable refdir : point -> point.

Hypothesis peq_refl : forall a, peq a a = true.
Hypothesis peq_sym : forall a b, peq a b = peq b a.
Hypothesis peq_trans : forall a b c, peq a b = true -> peq b c = true -> peq a c = true.
Hypothesis sign_rotate : forall a b c, sign b c a = sign a b c.
Hypothesis sign_swap : forall a b c, sign c b a = - sign a b c.
Hypothesis sign_range : forall a b c, sign a b c = -1 \/ sign a b c = 0 \/ sign a b c = 1.
Hypothesis sign_zero_iff : forall a b c,
  sign a b c = 0 <-> (peq a b = true \/ peq b c = true \/ peq c a = true).
Hypothesis sign_peq : forall a b c c', peq c c' = true -> sign a b c = sign a b c'.
Hypothesis sign_gp : law_sign_gp point peq sign.

Notation occw := (ordered_ccw point sign).

Lemma occw_b a b c o : occw a b c o = occwb (sign b o a) (sign c o b) (sign a o c).
Proof. apply (occw_eq point sign). Qed.

Lemma sign_pm a b c : peq a b = false -> peq b c = false -> peq c a = false -> pm (sign a b c).
Proof.
  intros H1 H2 H3. unfold pm.
  pose proof (C03_Vertex.sign_z point peq sign sign_zero_iff a b c H1 H2 H3).
  destruct (sign_range a b c) as [E|[E|E]]; auto. contradiction.
Qed.

Lemma sign_mid_first x o y : sign o x y = - sign x o y.
Proof. apply (sign_213 point sign sign_rotate sign_swap). Qed.

Lemma sign_xox x o : sign x o x = 0.
Proof. apply sign_zero_iff. right. right. apply peq_refl. Qed.

Lemma peq_false_congr r u x : peq r u = true -> peq u x = false -> peq r x = false.
Proof.
  intros H1 H2. destruct (peq r x) eqn:E; [|reflexivity].
  rewrite (peq_sym r u) in H1. rewrite (peq_trans u r x H1 E) in H2. discriminate.
Qed.

Theorem occw_split_ne : law_occw_split_ne point peq sign.
Proof.
  intros r u v w o Hro Huo Hvo Hwo Huv Hvw Huw H.
  assert (Hou : peq o u = false) by (rewrite (peq_sym o u); exact Huo).
  assert (Hov : peq o v = false) by (rewrite (peq_sym o v); exact Hvo).
  assert (How : peq o w = false) by (rewrite (peq_sym o w); exact Hwo).
  assert (Hor : peq o r = false) by (rewrite (peq_sym o r); exact Hro).
  assert (Hvu : peq v u = false) by (rewrite (peq_sym v u); exact Huv).
  assert (Hwv : peq w v = false) by (rewrite (peq_sym w v); exact Hvw).
  assert (Hwu : peq w u = false) by (rewrite (peq_sym w u); exact Huw).
  pose proof (sign_pm u o v Huo Hov Hvu) as PA.
  pose proof (sign_pm v o w Hvo How Hwv) as PB.
  pose proof (sign_pm u o w Huo How Hwu) as PC.
  rewrite !occw_b in *.
  rewrite (sign_swap u o v), (sign_swap v o w) in H.
  rewrite (sign_swap u o v), (sign_swap v o w), (sign_swap u o w).
  (* sign peq in first and third position *)
  assert (P1 : forall x x' y, peq x x' = true -> sign x o y = sign x' o y).
  { intros x x' y E. rewrite <- (sign_rotate x o y), <- (sign_rotate x' o y). now apply sign_peq. }
  assert (P3 : forall x x' y, peq x x' = true -> sign y o x = sign y o x').
  { intros x x' y E. now apply sign_peq. }
  destruct (peq r u) eqn:Eru; [|destruct (peq r v) eqn:Erv; [|destruct (peq r w) eqn:Erw]].
  - rewrite (P3 r u u Eru), (P1 r u w Eru), (P1 r u v Eru), (P3 r u v Eru), sign_xox.
    rewrite (sign_swap u o v).
    exact (split_numeric_ru _ _ _ PA PB PC H).
  - rewrite (P3 r v u Erv), (P1 r v w Erv), (P1 r v v Erv), (P3 r v v Erv), sign_xox.
    exact (split_numeric_rv _ _ _ PA PB PC H).
  - rewrite (P3 r w u Erw), (P1 r w w Erw), (P1 r w v Erw), (P3 r w v Erw), sign_xox.
    rewrite (sign_swap v o w).
    exact (split_numeric_rw _ _ _ PA PB PC H).
  - assert (Hur : peq u r = false) by (rewrite (peq_sym u r); exact Eru).
    assert (Hvr : peq v r = false) by (rewrite (peq_sym v r); exact Erv).
    assert (Hwr : peq w r = false) by (rewrite (peq_sym w r); exact Erw).
    pose proof (sign_pm r o u Hro Hou Hur) as PP.
    pose proof (sign_pm r o v Hro Hov Hvr) as PQ.
    pose proof (sign_pm r o w Hro How Hwr) as PS.
    rewrite (sign_swap r o u), (sign_swap r o v).
    destruct (sign_gp o u v w r Hou Hov How Hor Huv Huw Hur Hvw Hvr Hwr) as [G1 G2].
    cbv zeta in G1, G2.
    rewrite (sign_mid_first u o v), (sign_mid_first w o r), (sign_mid_first u o w),
      (sign_mid_first v o r), (sign_mid_first u o r), (sign_mid_first v o w) in G1, G2.
    rewrite (sign_swap r o w), (sign_swap r o v), (sign_swap r o u) in G1, G2.
    replace (- sign u o v * - - sign r o w) with (- (sign u o v * sign r o w)) in G1, G2 by ring.
    replace (- (- sign u o w * - - sign r o v)) with (sign u o w * sign r o v) in G1, G2 by ring.
    replace (- - sign r o u * - sign v o w) with (- (sign r o u * sign v o w)) in G1, G2 by ring.
    exact (split_numeric _ _ _ _ _ _ PA PB PC PP PQ PS G1 G2 H).
Qed.

(** ** AngleContainsVertex (3) with the guard refdir o <> o *)
Variable o : point.
Hypothesis refdir_ne : peq (refdir o) o = false.

Theorem acv_exactly_one_wedge_ne : forall u v l, ccw_listed point peq sign o (u :: v :: l) ->
  open_count point sign refdir o (u :: v :: l) + wedge point sign refdir o (last l v) u = 1.
Proof.
  (* the unguarded law is only ever used at r = refdir o *)
  assert (split_o : forall u v w,
    peq u o = false -> peq v o = false -> peq w o = false ->
    peq u v = false -> peq v w = false -> peq u w = false ->
    occw u v w o = true ->
    Z.b2z (negb (occw (refdir o) u w o)) =
    Z.b2z (negb (occw (refdir o) u v o)) + Z.b2z (negb (occw (refdir o) v w o))).
  { intros. now apply occw_split_ne. }
  exact (acv_exactly_one_wedge_at point peq sign refdir peq_sym sign_swap sign_range sign_zero_iff o split_o).
Qed.

End Cyclic.
