(** C19, s1.Interval.Expanded, part 1: (a) the real-arithmetic core — if the two new endpoints
    lie outside the old arc, the enlarged arc is shorter than the circle, and the wrapped
    endpoints differ from them by multiples of 2*pi, then the wrapped interval contains the old
    arc; (b) the rounding facts used to establish those premises for the float code. *)
From Coq Require Import ZArith Reals Floats Lra Lia Bool List Psatz.
From Geo Require Import Base.GoPrim Base.F64 Gen.S1 Proofs.C19_S1.
Local Open Scope R_scope.

Definition norm_hi (l h : R) : R := if Req_EM_T h (- rpi) then (if Req_EM_T l rpi then h else rpi) else h.

Lemma small_int (k : Z) (x : R) : -2 < IZR k < 2 -> (k = -1 \/ k = 0 \/ k = 1)%Z.
Proof.
  intros [H1 H2]. apply lt_IZR in H1. apply lt_IZR in H2. lia.
Qed.

Lemma arc_cover (lo hi a b l h : R) (k j : Z) :
  - rpi <= lo <= rpi -> - rpi <= hi <= rpi ->
  (lo = - rpi -> hi = rpi) -> (hi = - rpi -> lo = rpi) -> ~ (lo = rpi /\ hi = - rpi) ->
  a <= lo -> hi <= b ->
  (lo <= hi -> b - a < 2 * rpi) -> (hi < lo -> b < a) ->
  l = a - IZR k * (2 * rpi) -> h = b - IZR j * (2 * rpi) ->
  - rpi <= l <= rpi -> - rpi <= h <= rpi ->
  (- rpi <= a <= rpi -> k = 0%Z) -> (- rpi <= b <= rpi -> j = 0%Z) ->
  forall y, - rpi < y <= rpi -> memR lo hi y -> memR (normR l) (norm_hi l h) y.
Proof.
  intros Rlo Rhi V1 V2 Ne Ha Hb Dn Di El Eh Rl Rh Ka Kb y Hy Hm.
  pose proof rpi_pos as Pp.
  assert (Ba : - 3 * rpi < a <= rpi) by (destruct (Rle_lt_dec lo hi); [specialize (Dn r)|specialize (Di r)]; lra).
  assert (Bb : - rpi <= b < 3 * rpi) by (destruct (Rle_lt_dec lo hi); [specialize (Dn r)|specialize (Di r)]; lra).
  assert (Kk : (k = -1 \/ k = 0 \/ k = 1)%Z) by (apply (small_int k 0); split; nra).
  assert (Kj : (j = -1 \/ j = 0 \/ j = 1)%Z) by (apply (small_int j 0); split; nra).
  unfold memR in *. unfold norm_hi.
  destruct (normR_cases l) as [[L1 Ln]|[L1 Ln]]; rewrite Ln;
  destruct (Req_EM_T h (- rpi)) as [H1|H1]; try destruct (Req_EM_T l rpi) as [L2|L2];
  destruct Kk as [ -> | [ -> | -> ] ]; destruct Kj as [ -> | [ -> | -> ] ];
  simpl in El, Eh; subst l h;
  destruct (Rle_lt_dec lo hi) as [O|O]; try specialize (Dn O); try specialize (Di O);
  try lra; exfalso;
  first [ assert (- rpi <= a <= rpi) as Q by lra; specialize (Ka Q); discriminate
        | assert (- rpi <= b <= rpi) as Q by lra; specialize (Kb Q); discriminate ].
Qed.

(** * Rounding facts (Flocq) *)
From Flocq Require Import Core.Core IEEE754.BinarySingleNaN IEEE754.PrimFloat Plus_error.
From Geo Require Import Base.F64Arith.

Definition u51 : R := bpow radix2 (-51).

Lemma fexp64_FLT : forall e, fexp64 e = FLT_exp (-1074) 53 e.
Proof. intros e. reflexivity. Qed.

Lemma err8 r : Rabs r < 8 -> Rabs (rnd r - r) <= u51.
Proof.
  intros H. unfold rnd, u51.
  destruct (Req_dec r 0) as [->|Nz].
  { rewrite round_0 by apply valid_rnd_N. rewrite Rminus_0_r, Rabs_R0. apply bpow_ge_0. }
  eapply Rle_trans; [apply error_le_half_ulp; apply valid_exp64|].
  rewrite ulp_neq_0 by exact Nz. unfold cexp.
  assert (M : (mag radix2 r <= 3)%Z).
  { apply mag_le_bpow; [exact Nz|]. change (bpow radix2 3) with 8. exact H. }
  assert (E : (fexp64 (mag radix2 r) <= -50)%Z).
  { rewrite fexp64_FLT. unfold FLT_exp. lia. }
  apply Rle_trans with (/ 2 * bpow radix2 (-50)).
  - apply Rmult_le_compat_l; [lra|]. apply bpow_le. exact E.
  - assert (Q : bpow radix2 (-50) = 2 * bpow radix2 (-51))
      by (change (-50)%Z with (1 + -51)%Z; rewrite bpow_plus; reflexivity).
    rewrite Q. lra.
Qed.

Lemma notFTZ64 : Exp_not_FTZ fexp64.
Proof.
  apply monotone_exp_not_FTZ; [apply valid_exp64|].
  change fexp64 with (FLT_exp (-1074) 53). apply FLT_exp_monotone.
Qed.

(** the rounded difference of two distinct floats is not zero *)
Lemma rnd_sub_neg x y : repr x -> repr y -> x < y -> rnd (x - y) < 0.
Proof.
  intros Rx Ry H.
  assert (L : rnd (x - y) <= 0) by (rewrite <- rnd_0; apply rnd_le; lra).
  assert (N : rnd (x - y) <> 0).
  { unfold rnd. replace (x - y) with (x + - y) by lra.
    apply round_plus_neq_0; try apply valid_rnd_N; try apply valid_exp64; try apply notFTZ64.
    - exact Rx.
    - apply repr_opp. exact Ry.
    - lra. }
  lra.
Qed.
