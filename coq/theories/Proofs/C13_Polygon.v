(** C13, polygon machine: after any number of Inverts a polygon is, in everything a query can
    see (loop order, edge-offset table, own index, Edge/ChainPosition lookup), the polygon a
    fresh PolygonFromLoops builds from its current loops. The variant that keeps a stale
    offset table of the right length is refuted. *)
From Coq Require Import List Bool Arith Lia.
From Geo Require Import Model.Lazy Proofs.C13_Index.
Import ListNotations.

Section PolygonProofs.
  Context {V : Type}.
  Variable reorder : list (list V) -> list (list V).

  Lemma locate_tab_cons2 c c' r i e :
    locate_tab (c :: c' :: r) i e = if e <? c' then (i, e - c) else locate_tab (c' :: r) (Datatypes.S i) e.
  Proof. reflexivity. Qed.

  Lemma locate_lin_cons n r i e :
    locate_lin (n :: r) i e = if n <=? e then locate_lin r (Datatypes.S i) (e - n) else (i, e).
  Proof. reflexivity. Qed.

  Lemma locate_psums (lens : list nat) : forall acc i e,
    acc <= e -> e < acc + fold_right Nat.add 0 lens ->
    locate_tab (psums acc lens) i e = locate_lin lens i (e - acc).
  Proof.
    induction lens as [|n [|m r] IH]; intros acc i e Hle Hlt; cbn [fold_right] in Hlt.
    - lia.
    - cbn. destruct (Nat.leb_spec n (e - acc)); [lia|reflexivity].
    - assert (HT : exists t, psums (acc + n) (m :: r) = (acc + n) :: t) by (eexists; reflexivity).
      destruct HT as [t HT].
      change (psums acc (n :: m :: r)) with (acc :: psums (acc + n) (m :: r)).
      rewrite HT, locate_tab_cons2, <- HT.
      rewrite (locate_lin_cons n). destruct (Nat.ltb_spec e (acc + n)); destruct (Nat.leb_spec n (e - acc)); try lia.
      + reflexivity.
      + rewrite IH by (cbn [fold_right]; lia). f_equal. lia.
  Qed.

  Definition total_edges (loops : list (list V)) : nat := fold_right Nat.add 0 (map (@length V) loops).

  (** a freshly initialised polygon looks every edge up in the right loop, with or without table *)
  Lemma poly_new_edge (loops : list (list V)) e : e < total_edges loops ->
    pedge (poly_new loops) e = locate_lin (map (@length V) loops) 0 e.
  Proof.
    intros He. unfold pedge, poly_new, poly_init_edges. cbn [andb ptab ploops].
    destruct (max_linear_search_loops <? length loops); [|reflexivity].
    destruct (psums 0 (map (@length V) loops)) eqn:E; [reflexivity|]. rewrite <- E.
    rewrite locate_psums by (unfold total_edges in He; lia). rewrite Nat.sub_0_r. reflexivity.
  Qed.

  (** Invert leaves exactly the polygon a fresh construction from the current loops gives *)
  Lemma poly_invert_fresh p : poly_invert reorder false p = poly_new (reorder (ploops p)).
  Proof. reflexivity. Qed.

  Theorem polygon_invert_matches_fresh (n : nat) : forall loops,
    let p := poly_iter reorder false n (poly_new loops) in
    p = poly_new (ploops p) /\
    (forall e, e < total_edges (ploops p) -> pedge p e = locate_lin (map (@length V) (ploops p)) 0 e) /\
    exists ix, run (istep (apply (fun _ : unit => ploops p)) index_reset) (pindex p) [IQuery]
               = Ok (ix, [canonical (fun _ : unit => ploops p) [tt]]).
  Proof.
    induction n as [|n IH]; intros loops; cbn [poly_iter].
    - cbn zeta. split; [reflexivity|]. split; [intros e He; apply poly_new_edge; exact He|].
      eexists. cbn. reflexivity.
    - rewrite poly_invert_fresh. apply IH.
  Qed.
End PolygonProofs.

(** the seeded variant: 13 loops, Invert moves loop 3 (the big one) to the front; the table
    still describes the old order, so edge 3 is looked up in the wrong loop *)
Definition toy_loops : list (list nat) :=
  [[1;1;1]; [1;1;1;1]; [1;1;1]; [1;1;1;1;1;1;1;1]; [1;1;1]; [1;1;1]; [1;1;1]; [1;1;1]; [1;1;1]; [1;1;1]; [1;1;1]; [1;1;1]; [1;1;1]].
Definition toy_reorder (l : list (list nat)) : list (list nat) :=
  nth 3 l [] :: firstn 3 l ++ skipn 4 l.

Theorem polygon_stale_table_refuted :
  exists e, let p := poly_invert toy_reorder true (poly_new toy_loops) in
            pedge p e <> locate_lin (map (@length nat) (ploops p)) 0 e.
Proof. exists 3. vm_compute. discriminate. Qed.

Example polygon_invert_example :
  let p := poly_iter toy_reorder false 2 (poly_new toy_loops) in
  forallb (fun e => let a := pedge p e in let b := locate_lin (map (@length nat) (ploops p)) 0 e in
                    (fst a =? fst b) && (snd a =? snd b)) (seq 0 45) = true.
Proof. vm_compute. reflexivity. Qed.
