(** C01 — the point path: cellIDFromPoint always returns a valid leaf (closed, for every
    triple of floats including NaN/Inf/zero), and the leaf contains the point under the
    named numeric hypotheses H_FACEUV / H_UVROUNDTRIP. *)
From Coq Require Import ZArith List Bool Lia Floats Reals Lra.
From Geo Require Import Base.GoPrim Base.F64 Base.F64Arith Gen.CellIDFull Model.CellIDTables
  Proofs.C01_Bits Proofs.C01_Algebra Proofs.C01_IJ Proofs.StUV_Mono.
Import ListNotations.
Local Open Scope Z_scope.

(** ** integer/structural part: closed *)
Lemma clampInt_range : forall x lo hi, lo <= hi -> lo <= s2_clampInt x lo hi <= hi.
Proof.
  intros x lo hi H. unfold s2_clampInt.
  destruct (x <? lo) eqn:E1; [lia|]. apply Z.ltb_ge in E1.
  destruct (hi <? x) eqn:E2; [lia|]. apply Z.ltb_ge in E2. lia.
Qed.

(** stToIJ lands in [0, 2^30) for EVERY float (the clamp) *)
Lemma stToIJ_range : forall s, 0 <= s2_stToIJ s < 2 ^ 30.
Proof.
  intros s. unfold s2_stToIJ.
  pose proof (clampInt_range (wrap_i64 (Z_of_float_trunc (go_floor (PrimFloat.mul (0x1p+30)%float s)))) 0 1073741823 ltac:(lia)).
  change (2 ^ 30) with 1073741824. lia.
Qed.

Lemma LargestComponent_range : forall v, 0 <= r3_Vector_LargestComponent v <= 2.
Proof.
  intros v. unfold r3_Vector_LargestComponent. cbv zeta.
  repeat match goal with |- context [if ?b then _ else _] => destruct b end; lia.
Qed.

(** face() is one of the six faces for EVERY vector *)
Lemma face_range : forall r, 0 <= s2_face r < 6.
Proof.
  intros r. unfold s2_face. cbv zeta.
  pose proof (LargestComponent_range r) as H. set (a := r3_Vector_LargestComponent r) in *.
  assert (Hc : a = 0 \/ a = 1 \/ a = 2) by lia.
  destruct Hc as [-> | [-> | ->]]; cbn [Z.eqb andb];
    repeat match goal with |- context [if ?b then _ else _] => destruct b end;
    vm_compute; split; congruence.
Qed.

Lemma xyzToFaceUV_face : forall r, fst (fst (s2_xyzToFaceUV r)) = s2_face r.
Proof.
  intros r. unfold s2_xyzToFaceUV. cbv zeta.
  destruct (s2_validFaceXYZToUV (s2_face r) r) as [u v]. reflexivity.
Qed.

(** [leaf_valid]: for every p (any three floats) cellIDFromPoint p is a valid leaf cell on
    the face chosen by face(), at the (i,j) computed by stToIJ. *)
Lemma cellIDFromPoint_eq : forall p,
  let '(f, u, v) := s2_xyzToFaceUV (s2_Point_Vector p) in
  s2_cellIDFromPoint p = s2_cellIDFromFaceIJ f (s2_stToIJ (s2_uvToST u)) (s2_stToIJ (s2_uvToST v)).
Proof.
  intros [[x y z]]. unfold s2_cellIDFromPoint. cbn [s2_Point_Vector r3_Vector_X r3_Vector_Y r3_Vector_Z].
  destruct (s2_xyzToFaceUV (mk_r3_Vector x y z)) as [[f u] v]. reflexivity.
Qed.

Lemma leaf_valid : forall p, exists f k, 0 <= f < 6 /\ rep (s2_cellIDFromPoint p) f 30 k /\
  s2_CellID_IsValid (s2_cellIDFromPoint p) = true /\ s2_CellID_IsLeaf (s2_cellIDFromPoint p) = true /\
  s2_CellID_Level (s2_cellIDFromPoint p) = 30.
Proof.
  intros p. pose proof (cellIDFromPoint_eq p) as E.
  pose proof (xyzToFaceUV_face (s2_Point_Vector p)) as Ef.
  destruct (s2_xyzToFaceUV (s2_Point_Vector p)) as [[f u] v]. cbn [fst] in Ef.
  pose proof (face_range (s2_Point_Vector p)) as Hf. rewrite <- Ef in Hf.
  destruct (ij_roundtrip f _ _ Hf (stToIJ_range (s2_uvToST u)) (stToIJ_range (s2_uvToST v))) as (o & k & _ & Hrep & _).
  rewrite <- E in Hrep. exists f, k. split; [exact Hf|]. split; [exact Hrep|].
  split; [exact (IsValid_rep _ _ _ _ Hrep)|]. split; [apply (IsLeaf_rep _ _ _ _ Hrep); reflexivity|].
  exact (Level_rep _ _ _ _ Hrep).
Qed.

(** ** the leaf contains the point, under the numeric hypotheses *)
Definition dblEps : float := (0x1p-52)%float.

(** u is within 2^-52 (float subtraction/addition as in r1.Interval.Expanded) of [lo, hi] *)
Definition uv_within (lo hi u : float) : Prop :=
  nonnan lo /\ nonnan hi /\ nonnan u /\ nonnan (PrimFloat.sub lo dblEps) /\ nonnan (PrimFloat.add hi dblEps) /\
  (rank lo <= rank hi)%R /\ (rank (PrimFloat.sub lo dblEps) <= rank u <= rank (PrimFloat.add hi dblEps))%R.

(** H-UVROUNDTRIP (DESIGN.md section 4): a statement about float64 arithmetic only. *)
Definition uv_roundtrip_at (u : float) : Prop :=
  let i := s2_stToIJ (s2_uvToST u) in
  uv_within (s2_stToUV (s2_ijToSTMin i)) (s2_stToUV (s2_ijToSTMin (i + 1))) u.
Definition H_UVROUNDTRIP : Prop := forall u, inR (-1) 1 u -> uv_roundtrip_at u.

(** the projection of p on its own face succeeds with |u|,|v| <= 1 (true of every finite non-zero p) *)
Definition H_FACEUV (p : s2_Point) : Prop :=
  let '(f, u, v) := s2_xyzToFaceUV (s2_Point_Vector p) in
  s2_faceXYZToUV f p = (u, v, true) /\ inR (-1) 1 u /\ inR (-1) 1 v.

Lemma interval_expanded_contains : forall lo hi u, uv_within lo hi u ->
  r1_Interval_IsEmpty (r1_Interval_Expanded (mk_r1_Interval lo hi) dblEps) = false /\
  r1_Interval_Contains (r1_Interval_Expanded (mk_r1_Interval lo hi) dblEps) u = true.
Proof.
  intros lo hi u (Nlo & Nhi & Nu & Nl & Nh & Hle & Hlo & Hhi).
  unfold r1_Interval_Expanded, r1_Interval_IsEmpty, r1_Interval_Contains.
  cbn [r1_Interval_Lo r1_Interval_Hi].
  assert (E : PrimFloat.ltb hi lo = false) by (float_cmp_to_R; exact Hle).
  rewrite E. cbn [r1_Interval_Lo r1_Interval_Hi]. split.
  - float_cmp_to_R. lra.
  - apply andb_true_iff. split; float_cmp_to_R; assumption.
Qed.

Lemma land_m1 : forall x, Z.land x (wrap_i64 (- 1)) = x.
Proof. intros x. change (wrap_i64 (- 1)) with (-1). apply Z.land_m1_r. Qed.

Theorem leaf_contains : H_UVROUNDTRIP -> forall p, H_FACEUV p ->
  s2_Cell_ContainsPoint (s2_CellFromCellID (s2_cellIDFromPoint p)) p = true.
Proof.
  intros HU p HF. unfold H_FACEUV in HF.
  pose proof (cellIDFromPoint_eq p) as E.
  pose proof (xyzToFaceUV_face (s2_Point_Vector p)) as Ef.
  destruct (s2_xyzToFaceUV (s2_Point_Vector p)) as [[f u] v]. cbn [fst] in Ef.
  destruct HF as (Hok & Hu & Hv).
  pose proof (face_range (s2_Point_Vector p)) as Hf. rewrite <- Ef in Hf.
  pose proof (stToIJ_range (s2_uvToST u)) as Ri. pose proof (stToIJ_range (s2_uvToST v)) as Rj.
  change (2 ^ 30) with 1073741824 in Ri, Rj.
  set (i := s2_stToIJ (s2_uvToST u)) in *. set (j := s2_stToIJ (s2_uvToST v)) in *.
  destruct (ij_roundtrip f i j Hf Ri Rj) as (o & k & Ho & Hrep & Hij).
  rewrite <- E in Hrep, Hij.
  unfold s2_CellFromCellID. cbv zeta. cbv beta iota delta [set_s2_Cell_id s2_Cell_id set_s2_Cell_face set_s2_Cell_level set_s2_Cell_orientation set_s2_Cell_uv s2_Cell_face s2_Cell_level s2_Cell_orientation s2_Cell_uv].
  rewrite Hij. cbv beta iota delta [set_s2_Cell_id s2_Cell_id set_s2_Cell_face set_s2_Cell_level set_s2_Cell_orientation set_s2_Cell_uv s2_Cell_face s2_Cell_level s2_Cell_orientation s2_Cell_uv].
  rewrite (Level_rep _ _ _ _ Hrep).
  unfold s2_Cell_ContainsPoint. cbv zeta. cbv beta iota delta [set_s2_Cell_id s2_Cell_id set_s2_Cell_face set_s2_Cell_level set_s2_Cell_orientation set_s2_Cell_uv s2_Cell_face s2_Cell_level s2_Cell_orientation s2_Cell_uv].
  assert (Ef8 : wrap_i64 (wrap_i8 f) = f).
  { assert (Hc : f = 0 \/ f = 1 \/ f = 2 \/ f = 3 \/ f = 4 \/ f = 5) by lia.
    destruct Hc as [-> | [-> | [-> | [-> | [-> | ->]]]]]; reflexivity. }
  rewrite Ef8, Hok. cbn [negb set_r2_Point_X set_r2_Point_Y].
  change (wrap_i64 (wrap_i8 30)) with 30.
  unfold s2_ijLevelToBoundUV. cbv zeta. change (s2_sizeIJ 30) with 1.
  rewrite !land_m1. rewrite !(wrap_i64_small (_ + 1)) by (change (2 ^ 63) with 9223372036854775808; lia).
  pose proof (interval_expanded_contains _ _ _ (HU u Hu)) as (EX & CX). fold i in EX, CX.
  pose proof (interval_expanded_contains _ _ _ (HU v Hv)) as (EY & CY). fold j in EY, CY.
  unfold r2_Rect_ExpandedByMargin, r2_Rect_Expanded. cbv zeta.
  cbn [r2_Rect_X r2_Rect_Y r2_Point_X r2_Point_Y].
  change (0x1p-52)%float with dblEps.
  rewrite EX, EY. cbn [orb]. unfold r2_Rect_ContainsPoint. cbn [r2_Rect_X r2_Rect_Y r2_Point_X r2_Point_Y].
  cbv beta iota delta [set_r2_Point_X set_r2_Point_Y r2_Point_X r2_Point_Y]. rewrite CX, CY. reflexivity.
Qed.

(** the hypotheses are satisfiable: H_FACEUV holds of the face-0 centre, and the body of
    H_UVROUNDTRIP holds at u = 0 and u = 1 (checked by evaluation) *)
Example H_FACEUV_example : H_FACEUV (mk_s2_Point (mk_r3_Vector 1 0 0)).
Proof.
  unfold H_FACEUV. vm_compute s2_xyzToFaceUV. split; [vm_compute; reflexivity|].
  split; (split; [exact zero_fin|rewrite zero_RV; lra]).
Qed.

Lemma uv_within_by_eval : forall lo hi u,
  go_isnan lo = false -> go_isnan hi = false -> go_isnan u = false ->
  go_isnan (PrimFloat.sub lo dblEps) = false -> go_isnan (PrimFloat.add hi dblEps) = false ->
  PrimFloat.leb lo hi = true -> PrimFloat.leb (PrimFloat.sub lo dblEps) u = true ->
  PrimFloat.leb u (PrimFloat.add hi dblEps) = true -> uv_within lo hi u.
Proof.
  intros lo hi u N1 N2 N3 N4 N5 L1 L2 L3. unfold uv_within.
  repeat split; try assumption; float_cmp_to_R; assumption.
Qed.

Example H_UVROUNDTRIP_instances :
  uv_roundtrip_at 0%float /\ uv_roundtrip_at 1%float /\ uv_roundtrip_at (-1)%float /\
  uv_roundtrip_at (0x1.ff8a824e9296ap-1)%float.
Proof.
  split; [|split; [|split]]; unfold uv_roundtrip_at; cbv zeta; apply uv_within_by_eval; vm_compute; reflexivity.
Qed.
