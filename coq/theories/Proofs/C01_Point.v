(** C01 — the point path: cellIDFromPoint always returns a valid leaf (closed, for every
    triple of floats including NaN/Inf/zero), and the leaf contains the point under the
    named numeric hypotheses H_FACEUV / H_UVROUNDTRIP. *)
From Coq Require Import ZArith List Bool Lia Floats Reals Lra.
From Flocq Require Import Core.Raux IEEE754.BinarySingleNaN IEEE754.PrimFloat.
From Geo Require Import Base.GoPrim Base.F64 Base.F64Arith Gen.CellIDFull Model.CellIDTables
  Proofs.C01_Bits Proofs.C01_Algebra Proofs.C01_IJ Proofs.StUV_Mono.
Import ListNotations.
Local Open Scope Z_scope.

(** ** integer/structural part: closed *)
Lemma clampInt_range : forall x lo hi, lo <= hi -> lo <= s2_clampInt x lo hi <= hi.
Proof.
  intros x lo hi H. unfold s2_clampInt.
  destruct (x <? lo) eqn:E1; [lia|]. apply Z.ltb_ge in E1.
  destruct (hi <? x) eqn:E2; [lia|]. apply Z.ltb_ge in E2. lia.
Qed.

(** stToIJ lands in [0, 2^30) for EVERY float (the clamp) *)
Lemma stToIJ_range : forall s, 0 <= s2_stToIJ s < 2 ^ 30.
Proof.
  intros s. unfold s2_stToIJ.
  pose proof (clampInt_range (wrap_i64 (Z_of_float_trunc (go_floor (PrimFloat.mul (0x1p+30)%float s)))) 0 1073741823 ltac:(lia)).
  change (2 ^ 30) with 1073741824. lia.
Qed.

Lemma LargestComponent_range : forall v, 0 <= r3_Vector_LargestComponent v <= 2.
Proof.
  intros v. unfold r3_Vector_LargestComponent. cbv zeta.
  repeat match goal with |- context [if ?b then _ else _] => destruct b end; lia.
Qed.

(** face() is one of the six faces for EVERY vector *)
Lemma face_range : forall r, 0 <= s2_face r < 6.
Proof.
  intros r. unfold s2_face. cbv zeta.
  pose proof (LargestComponent_range r) as H. set (a := r3_Vector_LargestComponent r) in *.
  assert (Hc : a = 0 \/ a = 1 \/ a = 2) by lia.
  destruct Hc as [-> | [-> | ->]]; cbn [Z.eqb andb];
    repeat match goal with |- context [if ?b then _ else _] => destruct b end;
    vm_compute; split; congruence.
Qed.

Lemma xyzToFaceUV_face : forall r, fst (fst (s2_xyzToFaceUV r)) = s2_face r.
Proof.
  intros r. unfold s2_xyzToFaceUV. cbv zeta.
  destruct (s2_validFaceXYZToUV (s2_face r) r) as [u v]. reflexivity.
Qed.

(** [leaf_valid]: for every p (any three floats) cellIDFromPoint p is a valid leaf cell on
    the face chosen by face(), at the (i,j) computed by stToIJ. *)
Lemma cellIDFromPoint_eq : forall p,
  let '(f, u, v) := s2_xyzToFaceUV (s2_Point_Vector p) in
  s2_cellIDFromPoint p = s2_cellIDFromFaceIJ f (s2_stToIJ (s2_uvToST u)) (s2_stToIJ (s2_uvToST v)).
Proof.
  intros [[x y z]]. unfold s2_cellIDFromPoint. cbn [s2_Point_Vector r3_Vector_X r3_Vector_Y r3_Vector_Z].
  destruct (s2_xyzToFaceUV (mk_r3_Vector x y z)) as [[f u] v]. reflexivity.
Qed.

Lemma leaf_valid : forall p, exists f k, 0 <= f < 6 /\ rep (s2_cellIDFromPoint p) f 30 k /\
  s2_CellID_IsValid (s2_cellIDFromPoint p) = true /\ s2_CellID_IsLeaf (s2_cellIDFromPoint p) = true /\
  s2_CellID_Level (s2_cellIDFromPoint p) = 30.
Proof.
  intros p. pose proof (cellIDFromPoint_eq p) as E.
  pose proof (xyzToFaceUV_face (s2_Point_Vector p)) as Ef.
  destruct (s2_xyzToFaceUV (s2_Point_Vector p)) as [[f u] v]. cbn [fst] in Ef.
  pose proof (face_range (s2_Point_Vector p)) as Hf. rewrite <- Ef in Hf.
  destruct (ij_roundtrip f _ _ Hf (stToIJ_range (s2_uvToST u)) (stToIJ_range (s2_uvToST v))) as (o & k & _ & Hrep & _).
  rewrite <- E in Hrep. exists f, k. split; [exact Hf|]. split; [exact Hrep|].
  split; [exact (IsValid_rep _ _ _ _ Hrep)|]. split; [apply (IsLeaf_rep _ _ _ _ Hrep); reflexivity|].
  exact (Level_rep _ _ _ _ Hrep).
Qed.

(** ** the leaf contains the point: positive theorem with the round-trip bound as a premise on
       the point, and refutation of the unconditional statement on the unchanged code *)
Local Open Scope R_scope.

(** the margin by which Cell.ContainsPoint expands the uv bound: dblEpsilon = 2^-52 (the literal
    in the translated code; a change of the constant in /repo breaks the proofs below) *)
Definition uvMargin : float := (0x1p-52)%float.
Lemma uvMargin_fin : fin uvMargin. Proof. exact (lit_fin uvMargin _ _ _ eq_refl). Qed.
Lemma uvMargin_RV : RV uvMargin = 1 / 4503599627370496. Proof. lit_value. Qed.

(** u is within margin m (float subtraction/addition as in r1.Interval.Expanded) of [lo, hi] *)
Definition uv_within_m (m lo hi u : float) : Prop :=
  nonnan lo /\ nonnan hi /\ nonnan u /\ nonnan (PrimFloat.sub lo m) /\ nonnan (PrimFloat.add hi m) /\
  (rank lo <= rank hi) /\ (rank (PrimFloat.sub lo m) <= rank u <= rank (PrimFloat.add hi m)).
Definition uv_within := uv_within_m uvMargin.

(** the per-coordinate premise: u lies within the code's margin of the uv-interval of the leaf
    column i = stToIJ(uvToST u) it is assigned to *)
Definition uv_roundtrip_at (u : float) : Prop :=
  let i := s2_stToIJ (s2_uvToST u) in
  uv_within (s2_stToUV (s2_ijToSTMin i)) (s2_stToUV (s2_ijToSTMin (i + 1)%Z)) u.

(** H-UVROUNDTRIP (float64 arithmetic only): the st/uv round trip moves u in [-1,1] by at most 4.5 * 2^-52 *)
Definition H_UVROUNDTRIP : Prop := forall u, inR (-1) 1 u ->
  inR 0 1 (s2_uvToST u) /\ fin (s2_stToUV (s2_uvToST u)) /\
  Rabs (RV (s2_stToUV (s2_uvToST u)) - RV u) <= 9 / 2 / 4503599627370496.

(** H-GRIDCELL (float64 arithmetic only): for s in [0,1] the uv-interval of column stToIJ(s) brackets stToUV(s) *)
Definition H_GRIDCELL : Prop := forall s, inR 0 1 s ->
  let i := s2_stToIJ s in
  let lo := s2_stToUV (s2_ijToSTMin i) in let hi := s2_stToUV (s2_ijToSTMin (i + 1)%Z) in
  inR (-1) 1 lo /\ inR (-1) 1 hi /\ RV lo <= RV (s2_stToUV s) <= RV hi.

(** the projection of p on its own face succeeds with |u|,|v| <= 1 (true of every finite non-zero p) *)
Definition H_FACEUV (p : s2_Point) : Prop :=
  let '(f, u, v) := s2_xyzToFaceUV (s2_Point_Vector p) in
  s2_faceXYZToUV f p = (u, v, true) /\ inR (-1) 1 u /\ inR (-1) 1 v.

(** the round-trip premise on the point: both face coordinates satisfy [uv_roundtrip_at] *)
Definition roundtrip_ok (p : s2_Point) : Prop :=
  let '(f, u, v) := s2_xyzToFaceUV (s2_Point_Vector p) in uv_roundtrip_at u /\ uv_roundtrip_at v.

Lemma ok2 : okbound 2. Proof. apply (okbound_IZR 2). lia. Qed.

(** what margin would do: under H_UVROUNDTRIP and H_GRIDCELL every u in [-1,1] is within ANY margin
    m >= 4.5 * 2^-52 of its column's interval (the code uses 2^-52, for which this fails, see below) *)
Lemma within_any_margin_ge_4p5 : H_UVROUNDTRIP -> H_GRIDCELL -> forall m, fin m ->
  9 / 2 / 4503599627370496 <= RV m <= 1 -> forall u, inR (-1) 1 u ->
  let i := s2_stToIJ (s2_uvToST u) in
  uv_within_m m (s2_stToUV (s2_ijToSTMin i)) (s2_stToUV (s2_ijToSTMin (i + 1)%Z)) u.
Proof.
  intros HU HG m Fm Rm u Hu. destruct (HU u Hu) as (Hs & Fst & Herr). specialize (HG _ Hs). cbv zeta in HG.
  cbv zeta.
  set (lo := s2_stToUV (s2_ijToSTMin (s2_stToIJ (s2_uvToST u)))) in *.
  set (hi := s2_stToUV (s2_ijToSTMin (s2_stToIJ (s2_uvToST u) + 1)%Z)) in *.
  set (st := s2_stToUV (s2_uvToST u)) in *.
  destruct HG as ((Flo & Rlo) & (Fhi & Rhi) & Hbr). destruct Hu as (Fu & Ru).
  destruct (sub_inR 2 lo m ok2 Flo Fm) as (Fsub & Esub & _).
  { apply Rabs_le. lra. }
  destruct (add_inR 2 hi m ok2 Fhi Fm) as (Fadd & Eadd & _).
  { apply Rabs_le. lra. }
  apply Rabs_le_inv in Herr.
  unfold uv_within_m. repeat split; try (apply fin_nonnan; assumption).
  - rewrite !rank_fin by assumption. lra.
  - rewrite !rank_fin by assumption. rewrite Esub.
    rewrite <- (rnd_repr (RV u) (repr_RV u)). apply rnd_le. lra.
  - rewrite !rank_fin by assumption. rewrite Eadd.
    rewrite <- (rnd_repr (RV u) (repr_RV u)) at 1. apply rnd_le. lra.
Qed.

Lemma interval_expanded_contains : forall lo hi u, uv_within lo hi u ->
  r1_Interval_IsEmpty (r1_Interval_Expanded (mk_r1_Interval lo hi) uvMargin) = false /\
  r1_Interval_Contains (r1_Interval_Expanded (mk_r1_Interval lo hi) uvMargin) u = true.
Proof.
  intros lo hi u (Nlo & Nhi & Nu & Nl & Nh & Hle & Hlo & Hhi).
  unfold r1_Interval_Expanded, r1_Interval_IsEmpty, r1_Interval_Contains.
  cbn [r1_Interval_Lo r1_Interval_Hi].
  assert (E : PrimFloat.ltb hi lo = false) by (float_cmp_to_R; exact Hle).
  rewrite E. cbn [r1_Interval_Lo r1_Interval_Hi]. split.
  - float_cmp_to_R. lra.
  - apply andb_true_iff. split; float_cmp_to_R; assumption.
Qed.
Local Close Scope R_scope.

Lemma land_m1 : forall x, Z.land x (wrap_i64 (- 1)) = x.
Proof. intros x. change (wrap_i64 (- 1)) with (-1). apply Z.land_m1_r. Qed.

(** [leaf_contains]: the leaf of p contains p whenever the projection succeeds and both face
    coordinates are within the code's margin of their leaf column (premises on the point) *)
Theorem leaf_contains : forall p, H_FACEUV p -> roundtrip_ok p ->
  s2_Cell_ContainsPoint (s2_CellFromCellID (s2_cellIDFromPoint p)) p = true.
Proof.
  intros p HF HR. unfold H_FACEUV in HF. unfold roundtrip_ok in HR.
  pose proof (cellIDFromPoint_eq p) as E.
  pose proof (xyzToFaceUV_face (s2_Point_Vector p)) as Ef.
  destruct (s2_xyzToFaceUV (s2_Point_Vector p)) as [[f u] v]. cbn [fst] in Ef.
  destruct HF as (Hok & Hu & Hv). destruct HR as (HRu & HRv).
  pose proof (face_range (s2_Point_Vector p)) as Hf. rewrite <- Ef in Hf.
  pose proof (stToIJ_range (s2_uvToST u)) as Ri. pose proof (stToIJ_range (s2_uvToST v)) as Rj.
  change (2 ^ 30) with 1073741824 in Ri, Rj.
  set (i := s2_stToIJ (s2_uvToST u)) in *. set (j := s2_stToIJ (s2_uvToST v)) in *.
  destruct (ij_roundtrip f i j Hf Ri Rj) as (o & k & Ho & Hrep & Hij).
  rewrite <- E in Hrep, Hij.
  unfold s2_CellFromCellID. cbv zeta. cbv beta iota delta [set_s2_Cell_id s2_Cell_id set_s2_Cell_face set_s2_Cell_level set_s2_Cell_orientation set_s2_Cell_uv s2_Cell_face s2_Cell_level s2_Cell_orientation s2_Cell_uv].
  rewrite Hij. cbv beta iota delta [set_s2_Cell_id s2_Cell_id set_s2_Cell_face set_s2_Cell_level set_s2_Cell_orientation set_s2_Cell_uv s2_Cell_face s2_Cell_level s2_Cell_orientation s2_Cell_uv].
  rewrite (Level_rep _ _ _ _ Hrep).
  unfold s2_Cell_ContainsPoint. cbv zeta. cbv beta iota delta [set_s2_Cell_id s2_Cell_id set_s2_Cell_face set_s2_Cell_level set_s2_Cell_orientation set_s2_Cell_uv s2_Cell_face s2_Cell_level s2_Cell_orientation s2_Cell_uv].
  assert (Ef8 : wrap_i64 (wrap_i8 f) = f).
  { assert (Hc : f = 0 \/ f = 1 \/ f = 2 \/ f = 3 \/ f = 4 \/ f = 5) by lia.
    destruct Hc as [-> | [-> | [-> | [-> | [-> | ->]]]]]; reflexivity. }
  rewrite Ef8, Hok. cbn [negb set_r2_Point_X set_r2_Point_Y].
  change (wrap_i64 (wrap_i8 30)) with 30.
  unfold s2_ijLevelToBoundUV. cbv zeta. change (s2_sizeIJ 30) with 1.
  rewrite !land_m1. rewrite !(wrap_i64_small (_ + 1)) by (change (2 ^ 63) with 9223372036854775808; lia).
  pose proof (interval_expanded_contains _ _ _ HRu) as (EX & CX). fold i in EX, CX.
  pose proof (interval_expanded_contains _ _ _ HRv) as (EY & CY). fold j in EY, CY.
  unfold r2_Rect_ExpandedByMargin, r2_Rect_Expanded. cbv zeta.
  cbn [r2_Rect_X r2_Rect_Y r2_Point_X r2_Point_Y].
  change (0x1p-52)%float with uvMargin.
  rewrite EX, EY. cbn [orb]. unfold r2_Rect_ContainsPoint. cbn [r2_Rect_X r2_Rect_Y r2_Point_X r2_Point_Y].
  cbv beta iota delta [set_r2_Point_X set_r2_Point_Y r2_Point_X r2_Point_Y]. rewrite CX, CY. reflexivity.
Qed.

(** ** refutation on the unchanged code: a finite unit-length point whose own leaf does not
       contain it (u is 1.25 * 2^-52 below the leaf's lower u bound), and the 1-D cause *)
Definition witness_p : s2_Point :=
  mk_s2_Point (mk_r3_Vector (0x1.7eb16c58621d8p-3)%float (-0x1.c3f608ffa12fdp-1)%float (0x1.b975da6a83768p-2)%float).
Definition witness_u : float := (-0x1.f41ab7ac2b477p-2)%float.

Lemma fin_by_eval : forall x,
  (match Prim2SF x with SpecFloat.S754_finite _ _ _ => true | SpecFloat.S754_zero _ => true | _ => false end) = true -> fin x.
Proof.
  intros x H. unfold fin, Prim2B. rewrite is_finite_SF2B.
  destruct (Prim2SF x); try discriminate; reflexivity.
Qed.

Lemma witness_p_finite :
  fin (r3_Vector_X (s2_Point_Vector witness_p)) /\ fin (r3_Vector_Y (s2_Point_Vector witness_p)) /\
  fin (r3_Vector_Z (s2_Point_Vector witness_p)).
Proof. repeat split; apply fin_by_eval; vm_compute; reflexivity. Qed.

Theorem leaf_contains_refuted : exists p,
  (fin (r3_Vector_X (s2_Point_Vector p)) /\ fin (r3_Vector_Y (s2_Point_Vector p)) /\ fin (r3_Vector_Z (s2_Point_Vector p))) /\
  s2_CellID_IsValid (s2_cellIDFromPoint p) = true /\
  s2_Cell_ContainsPoint (s2_CellFromCellID (s2_cellIDFromPoint p)) p = false.
Proof.
  exists witness_p. split; [exact witness_p_finite|]. split; vm_compute; reflexivity.
Qed.

(** the same defect in one dimension: u = -0.48838316906296292 is finite, in [-1,1], and more than
    2^-52 below stToUV(i/2^30) for its own column i = stToIJ(uvToST u) *)
Theorem uv_roundtrip_refuted : exists u, fin u /\
  PrimFloat.leb (-1)%float u = true /\ PrimFloat.leb u 1%float = true /\
  PrimFloat.leb (PrimFloat.sub (s2_stToUV (s2_ijToSTMin (s2_stToIJ (s2_uvToST u)))) uvMargin) u = false /\
  ~ uv_roundtrip_at u.
Proof.
  exists witness_u. split; [apply fin_by_eval; vm_compute; reflexivity|].
  split; [vm_compute; reflexivity|]. split; [vm_compute; reflexivity|].
  assert (E : PrimFloat.leb (PrimFloat.sub (s2_stToUV (s2_ijToSTMin (s2_stToIJ (s2_uvToST witness_u)))) uvMargin) witness_u = false)
    by (vm_compute; reflexivity).
  split; [exact E|].
  intros (N1 & N2 & N3 & N4 & N5 & _ & Hlo & _).
  apply (proj2 (leb_true_iff _ _ N4 N3)) in Hlo. rewrite E in Hlo. discriminate.
Qed.

(** the premises of the positive theorem are satisfiable *)
Example H_FACEUV_example : H_FACEUV (mk_s2_Point (mk_r3_Vector 1 0 0)).
Proof.
  unfold H_FACEUV. vm_compute s2_xyzToFaceUV. split; [vm_compute; reflexivity|].
  split; (split; [exact zero_fin|rewrite zero_RV; lra]).
Qed.

Lemma uv_within_by_eval : forall lo hi u,
  go_isnan lo = false -> go_isnan hi = false -> go_isnan u = false ->
  go_isnan (PrimFloat.sub lo uvMargin) = false -> go_isnan (PrimFloat.add hi uvMargin) = false ->
  PrimFloat.leb lo hi = true -> PrimFloat.leb (PrimFloat.sub lo uvMargin) u = true ->
  PrimFloat.leb u (PrimFloat.add hi uvMargin) = true -> uv_within lo hi u.
Proof.
  intros lo hi u N1 N2 N3 N4 N5 L1 L2 L3. unfold uv_within, uv_within_m.
  repeat split; try assumption; float_cmp_to_R; assumption.
Qed.

Example roundtrip_ok_example : roundtrip_ok (mk_s2_Point (mk_r3_Vector 1 0 0)) /\
  uv_roundtrip_at 1%float /\ uv_roundtrip_at (-1)%float /\ uv_roundtrip_at (0x1.ff8a824e9296ap-1)%float.
Proof.
  split; [unfold roundtrip_ok; vm_compute s2_xyzToFaceUV; split|split; [|split]];
    unfold uv_roundtrip_at; cbv zeta; apply uv_within_by_eval; vm_compute; reflexivity.
Qed.
