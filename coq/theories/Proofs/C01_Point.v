(** C01 — the point path: cellIDFromPoint always returns a valid leaf (closed, for every
    triple of floats including NaN/Inf/zero), and the leaf contains the point under the
    named numeric hypotheses H_FACEUV / H_UVROUNDTRIP. *)
From Coq Require Import ZArith List Bool Lia Floats Reals.
From Geo Require Import Base.GoPrim Base.F64 Base.F64Arith Gen.CellIDFull Model.CellIDTables
  Proofs.C01_Bits Proofs.C01_Algebra Proofs.C01_IJ Proofs.StUV_Mono.
Import ListNotations.
Local Open Scope Z_scope.

(** ** integer/structural part: closed *)
Lemma clampInt_range : forall x lo hi, lo <= hi -> lo <= s2_clampInt x lo hi <= hi.
Proof.
  intros x lo hi H. unfold s2_clampInt.
  destruct (x <? lo) eqn:E1; [lia|]. apply Z.ltb_ge in E1.
  destruct (hi <? x) eqn:E2; [lia|]. apply Z.ltb_ge in E2. lia.
Qed.

(** stToIJ lands in [0, 2^30) for EVERY float (the clamp) *)
Lemma stToIJ_range : forall s, 0 <= s2_stToIJ s < 2 ^ 30.
Proof.
  intros s. unfold s2_stToIJ.
  pose proof (clampInt_range (wrap_i64 (Z_of_float_trunc (go_floor (PrimFloat.mul (0x1p+30)%float s)))) 0 1073741823 ltac:(lia)).
  change (2 ^ 30) with 1073741824. lia.
Qed.

Lemma LargestComponent_range : forall v, 0 <= r3_Vector_LargestComponent v <= 2.
Proof.
  intros v. unfold r3_Vector_LargestComponent. cbv zeta.
  repeat match goal with |- context [if ?b then _ else _] => destruct b end; lia.
Qed.

(** face() is one of the six faces for EVERY vector *)
Lemma face_range : forall r, 0 <= s2_face r < 6.
Proof.
  intros r. unfold s2_face. cbv zeta.
  pose proof (LargestComponent_range r) as H. set (a := r3_Vector_LargestComponent r) in *.
  assert (Hc : a = 0 \/ a = 1 \/ a = 2) by lia.
  destruct Hc as [-> | [-> | ->]]; cbn [Z.eqb andb];
    repeat match goal with |- context [if ?b then _ else _] => destruct b end;
    vm_compute; split; congruence.
Qed.

Lemma xyzToFaceUV_face : forall r, fst (fst (s2_xyzToFaceUV r)) = s2_face r.
Proof.
  intros r. unfold s2_xyzToFaceUV. cbv zeta.
  destruct (s2_validFaceXYZToUV (s2_face r) r) as [u v]. reflexivity.
Qed.

(** [leaf_valid]: for every p (any three floats) cellIDFromPoint p is a valid leaf cell on
    the face chosen by face(), at the (i,j) computed by stToIJ. *)
Lemma cellIDFromPoint_eq : forall p,
  let '(f, u, v) := s2_xyzToFaceUV (s2_Point_Vector p) in
  s2_cellIDFromPoint p = s2_cellIDFromFaceIJ f (s2_stToIJ (s2_uvToST u)) (s2_stToIJ (s2_uvToST v)).
Proof.
  intros [[x y z]]. unfold s2_cellIDFromPoint. cbn [s2_Point_Vector r3_Vector_X r3_Vector_Y r3_Vector_Z].
  destruct (s2_xyzToFaceUV (mk_r3_Vector x y z)) as [[f u] v]. reflexivity.
Qed.

Lemma leaf_valid : forall p, exists f k, 0 <= f < 6 /\ rep (s2_cellIDFromPoint p) f 30 k /\
  s2_CellID_IsValid (s2_cellIDFromPoint p) = true /\ s2_CellID_IsLeaf (s2_cellIDFromPoint p) = true /\
  s2_CellID_Level (s2_cellIDFromPoint p) = 30.
Proof.
  intros p. pose proof (cellIDFromPoint_eq p) as E.
  pose proof (xyzToFaceUV_face (s2_Point_Vector p)) as Ef.
  destruct (s2_xyzToFaceUV (s2_Point_Vector p)) as [[f u] v]. cbn [fst] in Ef.
  pose proof (face_range (s2_Point_Vector p)) as Hf. rewrite <- Ef in Hf.
  destruct (ij_roundtrip f _ _ Hf (stToIJ_range (s2_uvToST u)) (stToIJ_range (s2_uvToST v))) as (o & k & _ & Hrep & _).
  rewrite <- E in Hrep. exists f, k. split; [exact Hf|]. split; [exact Hrep|].
  split; [exact (IsValid_rep _ _ _ _ Hrep)|]. split; [apply (IsLeaf_rep _ _ _ _ Hrep); reflexivity|].
  exact (Level_rep _ _ _ _ Hrep).
Qed.
