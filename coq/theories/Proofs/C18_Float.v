(** C18 — exact IEEE-754 identities (bit level) behind
      Angle(a,b,c) == Angle(c,b,a),  TurnAngle(c,b,a) == -TurnAngle(a,b,c)
    and the oddness of the final clamp of Loop.TurningAngle.
    Everything is derived from Coq's FloatAxioms specification of the primitive
    operations ([Prim2SF] is injective, so Leibniz equality of [float] is bit equality). *)
From Coq Require Import ZArith List Bool Floats Lia.
Import ListNotations.

(** * Spec-level lemmas (any precision) *)
Section SF.
Variables prec emax : Z.

Definition SFz (x : spec_float) : Prop := match x with S754_zero _ => True | _ => False end.
(** [y] is the negation of [x], up to the sign of a zero *)
Definition SFnz (x y : spec_float) : Prop := y = SFopp x \/ (SFz x /\ SFz y).
(** [y] is [x], up to the sign of a zero *)
Definition SFzq (x y : spec_float) : Prop := x = y \/ (SFz x /\ SFz y).

Lemma SFopp_invol x : SFopp (SFopp x) = x.
Proof. destruct x; simpl; rewrite ?negb_involutive; reflexivity. Qed.

Lemma SFopp_round_aux s m e l :
  SFopp (binary_round_aux prec emax s m e l) = binary_round_aux prec emax (negb s) m e l.
Proof.
  unfold binary_round_aux.
  destruct (shr_fexp prec emax m e l) as [mrs' e'].
  destruct (shr_fexp prec emax _ e' loc_Exact) as [mrs'' e''].
  destruct (shr_m mrs''); simpl; try reflexivity.
  destruct (Zle_bool e'' (emax - prec)); reflexivity.
Qed.

Lemma SFopp_round s m e : SFopp (binary_round prec emax s m e) = binary_round prec emax (negb s) m e.
Proof. unfold binary_round. destruct (shl_align m e _) as [mz ez]. apply SFopp_round_aux. Qed.

Lemma bn_opp z e : z <> 0%Z ->
  binary_normalize prec emax (- z) e false = SFopp (binary_normalize prec emax z e false).
Proof.
  destruct z as [|p|p]; intros Hz; [congruence| |]; simpl; rewrite SFopp_round; reflexivity.
Qed.

Lemma bn_zero_or z e : SFz (binary_normalize prec emax z e false) -> z = 0%Z \/ True.
Proof. auto. Qed.

Lemma SFmul_comm x y : SFmul prec emax x y = SFmul prec emax y x.
Proof.
  destruct x as [sx|sx| |sx mx ex], y as [sy|sy| |sy my ey]; simpl; try reflexivity;
  rewrite ?(xorb_comm sx sy); try reflexivity.
  rewrite (Pos.mul_comm mx my), (Z.add_comm ex ey). reflexivity.
Qed.

Lemma SFadd_comm x y : SFadd prec emax x y = SFadd prec emax y x.
Proof.
  destruct x as [sx|sx| |sx mx ex], y as [sy|sy| |sy my ey]; simpl; try reflexivity;
  try (destruct sx, sy; reflexivity).
  rewrite (Z.min_comm ex ey), Z.add_comm. reflexivity.
Qed.

Lemma SFmul_opp_l x y : SFmul prec emax (SFopp x) y = SFopp (SFmul prec emax x y).
Proof.
  destruct x as [sx|sx| |sx mx ex], y as [sy|sy| |sy my ey]; simpl; try reflexivity;
  try (destruct sx, sy; reflexivity).
  rewrite SFopp_round_aux. destruct sx, sy; reflexivity.
Qed.

Lemma SFmul_opp_r x y : SFmul prec emax x (SFopp y) = SFopp (SFmul prec emax x y).
Proof. rewrite SFmul_comm, SFmul_opp_l, SFmul_comm. reflexivity. Qed.

Lemma cond_Zopp_negb s m : cond_Zopp (negb s) m = (- cond_Zopp s m)%Z.
Proof. destruct s; simpl; lia. Qed.

(** x - y and y - x *)
Lemma SFsub_anti x y : SFnz (SFsub prec emax x y) (SFsub prec emax y x).
Proof.
  unfold SFnz.
  destruct x as [sx|sx| |sx mx ex], y as [sy|sy| |sy my ey]; simpl;
  try (left; reflexivity); try (destruct sx, sy; simpl; auto; fail);
  try (left; rewrite ?negb_involutive; reflexivity).
  rewrite (Z.min_comm ey ex).
  set (A := cond_Zopp sx (Z.pos (fst (shl_align mx ex (Z.min ex ey))))).
  set (B := cond_Zopp sy (Z.pos (fst (shl_align my ey (Z.min ex ey))))).
  destruct (Z.eq_dec (A - B) 0) as [E|E].
  - right. replace (B - A)%Z with 0%Z by lia. rewrite E. simpl. auto.
  - left. replace (B - A)%Z with (- (A - B))%Z by lia. apply bn_opp. exact E.
Qed.

(** (-p) - (-q) vs p - q *)
Lemma SFsub_opp_opp p q : SFnz (SFsub prec emax p q) (SFsub prec emax (SFopp p) (SFopp q)).
Proof.
  unfold SFnz.
  destruct p as [sx|sx| |sx mx ex], q as [sy|sy| |sy my ey]; simpl;
  try (left; reflexivity); try (destruct sx, sy; simpl; auto; fail).
  rewrite !cond_Zopp_negb.
  set (A := cond_Zopp sx (Z.pos (fst (shl_align mx ex (Z.min ex ey))))).
  set (B := cond_Zopp sy (Z.pos (fst (shl_align my ey (Z.min ex ey))))).
  destruct (Z.eq_dec (A - B) 0) as [E|E].
  - right. replace (- A - - B)%Z with 0%Z by lia. rewrite E. simpl. auto.
  - left. replace (- A - - B)%Z with (- (A - B))%Z by lia. apply bn_opp. exact E.
Qed.

Ltac sfz_cases :=
  repeat match goal with
  | H : SFz ?x |- _ => is_var x; destruct x; simpl in H; try contradiction; clear H
  end.

(** multiplication by a fixed factor preserves "negation up to zero sign" *)
Lemma SFmul_nz_r s a a' : SFnz a a' -> SFnz (SFmul prec emax s a) (SFmul prec emax s a').
Proof.
  intros [-> | [Za Za']].
  - left. apply SFmul_opp_r.
  - sfz_cases. unfold SFnz. destruct s as [ss|ss| |ss ms es]; simpl; auto.
Qed.

Lemma SFmul_nz_l s a a' : SFnz a a' -> SFnz (SFmul prec emax a s) (SFmul prec emax a' s).
Proof. rewrite (SFmul_comm a s), (SFmul_comm a' s). apply SFmul_nz_r. Qed.

(** subtraction of two "negated up to zero sign" pairs *)
Lemma SFsub_nz p p' q q' : SFnz p p' -> SFnz q q' ->
  SFnz (SFsub prec emax p q) (SFsub prec emax p' q').
Proof.
  intros [-> | [Zp Zp']] [-> | [Zq Zq']].
  - apply SFsub_opp_opp.
  - sfz_cases. unfold SFnz.
    destruct p as [sx|sx| |sx mx ex]; simpl; auto;
    match goal with |- context [Bool.eqb _ _] => destruct sx; repeat match goal with b : bool |- _ => destruct b end; simpl; auto end.
  - sfz_cases. unfold SFnz.
    destruct q as [sy|sy| |sy my ey]; simpl; rewrite ?negb_involutive; auto;
    repeat match goal with b : bool |- _ => destruct b end; simpl; auto.
  - sfz_cases. unfold SFnz. right.
    repeat match goal with b : bool |- _ => destruct b end; simpl; auto.
Qed.

(** products of two such pairs agree up to zero sign *)
Lemma SFmul_nz_nz a a' b b' : SFnz a a' -> SFnz b b' ->
  SFzq (SFmul prec emax a b) (SFmul prec emax a' b').
Proof.
  intros [-> | [Za Za']] [-> | [Zb Zb']].
  - left. rewrite SFmul_opp_l, SFmul_opp_r, SFopp_invol. reflexivity.
  - sfz_cases. unfold SFzq.
    destruct a as [sx|sx| |sx mx ex]; simpl; auto.
  - sfz_cases. unfold SFzq.
    destruct b as [sy|sy| |sy my ey]; simpl; auto.
  - sfz_cases. unfold SFzq. right. simpl. auto.
Qed.

Lemma SFmul_zq a a' b b' : SFzq a a' -> SFzq b b' ->
  SFzq (SFmul prec emax a b) (SFmul prec emax a' b').
Proof.
  intros [-> | [Za Za']] [-> | [Zb Zb']].
  - left. reflexivity.
  - sfz_cases. unfold SFzq. destruct a' as [sx|sx| |sx mx ex]; simpl; auto.
  - sfz_cases. unfold SFzq. destruct b' as [sy|sy| |sy my ey]; simpl; auto.
  - sfz_cases. unfold SFzq. right. simpl. auto.
Qed.

Lemma SFadd_zq p p' q q' : SFzq p p' -> SFzq q q' ->
  SFzq (SFadd prec emax p q) (SFadd prec emax p' q').
Proof.
  intros [-> | [Zp Zp']] [-> | [Zq Zq']].
  - left. reflexivity.
  - sfz_cases. unfold SFzq. destruct p' as [sx|sx| |sx mx ex]; simpl; auto.
    repeat match goal with b : bool |- _ => destruct b end; simpl; auto.
  - sfz_cases. unfold SFzq. destruct q' as [sy|sy| |sy my ey]; simpl; auto.
    repeat match goal with b : bool |- _ => destruct b end; simpl; auto.
  - sfz_cases. unfold SFzq. right.
    repeat match goal with b : bool |- _ => destruct b end; simpl; auto.
Qed.

Lemma SFsub_zq p p' q q' : SFzq p p' -> SFzq q q' ->
  SFzq (SFsub prec emax p q) (SFsub prec emax p' q').
Proof.
  intros [-> | [Zp Zp']] [-> | [Zq Zq']].
  - left. reflexivity.
  - sfz_cases. unfold SFzq. destruct p' as [sx|sx| |sx mx ex]; simpl; auto.
    repeat match goal with b : bool |- _ => destruct b end; simpl; auto.
  - sfz_cases. unfold SFzq. destruct q' as [sy|sy| |sy my ey]; simpl; auto.
    repeat match goal with b : bool |- _ => destruct b end; simpl; auto.
  - sfz_cases. unfold SFzq. right.
    repeat match goal with b : bool |- _ => destruct b end; simpl; auto.
Qed.

(** squares forget the sign and the sign of zero *)
Lemma SFsq_zq w w0 : SFzq w w0 -> SFmul prec emax w w = SFmul prec emax w0 w0.
Proof.
  intros [-> | [Zw Zw0]]; [reflexivity|]. sfz_cases. simpl.
  repeat match goal with b : bool |- _ => destruct b end; reflexivity.
Qed.

Lemma SFsq_nz w0 w' : SFnz w0 w' -> SFmul prec emax w' w' = SFmul prec emax w0 w0.
Proof.
  intros [-> | [Zw Zw0]].
  - rewrite SFmul_opp_l, SFmul_opp_r, SFopp_invol. reflexivity.
  - sfz_cases. simpl. repeat match goal with b : bool |- _ => destruct b end; reflexivity.
Qed.

Lemma SFnz_zq_trans x y z : SFnz x y -> SFzq y z -> SFnz x z.
Proof.
  intros [Hy | [Zx Zy]] [Hz | [Zy' Zz]]; unfold SFnz.
  - left. congruence.
  - right. split; [|exact Zz]. subst y. destruct x; simpl in *; auto.
  - right. subst z. auto.
  - right. auto.
Qed.

Lemma SFzq_sym x y : SFzq x y -> SFzq y x.
Proof. intros [E | [A B]]; [left; congruence | right; auto]. Qed.

Lemma SFz_opp x : SFz (SFopp x) <-> SFz x.
Proof. destruct x; simpl; tauto. Qed.

End SF.

From Coq Require Import Reals Lra.
From Flocq Require Import Core.Core IEEE754.BinarySingleNaN IEEE754.PrimFloat.
From Geo Require Import Base.GoPrim Base.F64 Gen.Area Model.LoopMeasures.
Local Open Scope float_scope.
Local Notation float := PrimFloat.float.

(** * Transfer to primitive floats *)
Definition fnz (a b : float) : Prop := SFnz (Prim2SF a) (Prim2SF b).
Definition fzq (a b : float) : Prop := SFzq (Prim2SF a) (Prim2SF b).

Lemma fopp_involutive x : - - x = x.
Proof. apply Prim2SF_inj. rewrite !opp_spec. apply SFopp_invol. Qed.

Lemma fadd_comm x y : x + y = y + x.
Proof. apply Prim2SF_inj. rewrite !add_spec. apply SFadd_comm. Qed.

Lemma fmul_comm x y : x * y = y * x.
Proof. apply Prim2SF_inj. rewrite !mul_spec. apply SFmul_comm. Qed.

Lemma fmul_opp_l x y : (- x) * y = - (x * y).
Proof. apply Prim2SF_inj. rewrite opp_spec, !mul_spec, opp_spec. apply SFmul_opp_l. Qed.

Lemma fmul_opp_r x y : x * (- y) = - (x * y).
Proof. rewrite fmul_comm, fmul_opp_l, fmul_comm. reflexivity. Qed.

Lemma fmul_opp_opp x y : (- x) * (- y) = x * y.
Proof. rewrite fmul_opp_l, fmul_opp_r, fopp_involutive. reflexivity. Qed.

Lemma fsub_anti x y : fnz (x - y) (y - x).
Proof. unfold fnz. rewrite !sub_spec. apply SFsub_anti. Qed.

Lemma fnz_mul_r s a a' : fnz a a' -> fnz (s * a) (s * a').
Proof. unfold fnz. rewrite !mul_spec. apply SFmul_nz_r. Qed.

Lemma fnz_sub p p' q q' : fnz p p' -> fnz q q' -> fnz (p - q) (p' - q').
Proof. unfold fnz. rewrite !sub_spec. apply SFsub_nz. Qed.

Lemma fzq_mul_nz a a' b b' : fnz a a' -> fnz b b' -> fzq (a * b) (a' * b').
Proof. unfold fnz, fzq. rewrite !mul_spec. apply SFmul_nz_nz. Qed.

Lemma fzq_add p p' q q' : fzq p p' -> fzq q q' -> fzq (p + q) (p' + q').
Proof. unfold fzq. rewrite !add_spec. apply SFadd_zq. Qed.

Lemma fzq_sub p p' q q' : fzq p p' -> fzq q q' -> fzq (p - q) (p' - q').
Proof. unfold fzq. rewrite !sub_spec. apply SFsub_zq. Qed.

Lemma fsq_zq w w0 : fzq w w0 -> w * w = w0 * w0.
Proof. intros H. apply Prim2SF_inj. rewrite !mul_spec. apply SFsq_zq. exact H. Qed.

Lemma fsq_nz w0 w' : fnz w0 w' -> w' * w' = w0 * w0.
Proof. intros H. apply Prim2SF_inj. rewrite !mul_spec. apply SFsq_nz. exact H. Qed.

Lemma fzq_sym a b : fzq a b -> fzq b a.
Proof. apply SFzq_sym. Qed.

Lemma fzq_refl a : fzq a a.
Proof. left. reflexivity. Qed.

Lemma Prim2SF_zero : Prim2SF 0 = S754_zero false.
Proof. reflexivity. Qed.

Lemma SFz_eqb0 a : SFz (Prim2SF a) -> PrimFloat.eqb a 0 = true.
Proof. intros H. rewrite eqb_spec, Prim2SF_zero. destruct (Prim2SF a); simpl in *; tauto. Qed.

(** a non-zero value is determined exactly by its class up to zero sign *)
Lemma fzq_nonzero_eq p q : fzq p q -> PrimFloat.eqb p 0 = false -> p = q.
Proof.
  intros [E | [Zp _]] Hn.
  - apply Prim2SF_inj. exact E.
  - rewrite (SFz_eqb0 p Zp) in Hn. discriminate.
Qed.

Lemma fnz_eqb0 a b : fnz a b -> PrimFloat.eqb b 0 = PrimFloat.eqb a 0.
Proof.
  intros [E | [Za Zb]].
  - rewrite !eqb_spec, E, Prim2SF_zero. destruct (Prim2SF a) as [s|s| |s m e]; try reflexivity; destruct s; reflexivity.
  - rewrite (SFz_eqb0 a Za), (SFz_eqb0 b Zb). reflexivity.
Qed.

(** * Vectors *)
Definition vnz (u v : r3_Vector) : Prop :=
  fnz (r3_Vector_X u) (r3_Vector_X v) /\ fnz (r3_Vector_Y u) (r3_Vector_Y v) /\ fnz (r3_Vector_Z u) (r3_Vector_Z v).

Lemma r3_add_comm u v : r3_Vector_Add u v = r3_Vector_Add v u.
Proof. unfold r3_Vector_Add. f_equal; apply fadd_comm. Qed.

Lemma r3_sub_anti u v : vnz (r3_Vector_Sub u v) (r3_Vector_Sub v u).
Proof. unfold vnz, r3_Vector_Sub; cbn [r3_Vector_X r3_Vector_Y r3_Vector_Z]. repeat split; apply fsub_anti. Qed.

Lemma r3_cross_nz_r s d d' : vnz d d' -> vnz (r3_Vector_Cross s d) (r3_Vector_Cross s d').
Proof.
  intros (Hx & Hy & Hz). unfold vnz, r3_Vector_Cross; cbn [r3_Vector_X r3_Vector_Y r3_Vector_Z].
  repeat split; apply fnz_sub; apply fnz_mul_r; assumption.
Qed.

Lemma r3_dot_comm u v : r3_Vector_Dot u v = r3_Vector_Dot v u.
Proof.
  unfold r3_Vector_Dot.
  rewrite (fmul_comm (r3_Vector_X u)), (fmul_comm (r3_Vector_Y u)), (fmul_comm (r3_Vector_Z u)). reflexivity.
Qed.

(** the three squared components of a cross product do not depend on the order of the
    factors, nor on replacing both factors by their negations up to zero signs *)
Lemma norm_cross_nz x1 x2 y1 y2 : vnz x1 x2 -> vnz y1 y2 ->
  r3_Vector_Norm (r3_Vector_Cross x2 y2) = r3_Vector_Norm (r3_Vector_Cross y1 x1).
Proof.
  intros (Hx & Hy & Hz) (Kx & Ky & Kz).
  unfold r3_Vector_Norm, r3_Vector_Dot, r3_Vector_Cross; cbn [r3_Vector_X r3_Vector_Y r3_Vector_Z].
  assert (sq : forall a a' b b' c c' d d', fnz a a' -> fnz b b' -> fnz c c' -> fnz d d' ->
            (a' * b' - c' * d') * (a' * b' - c' * d') = (d * c - b * a) * (d * c - b * a)).
  { intros a a' b b' c c' d d' Ha Hb Hc Hd.
    rewrite (fsq_zq (a' * b' - c' * d') (a * b - c * d)).
    2:{ apply fzq_sym. apply fzq_sub; apply fzq_mul_nz; assumption. }
    rewrite (fmul_comm d c), (fmul_comm b a).
    symmetry. apply fsq_nz. apply fsub_anti. }
  rewrite (sq _ _ _ _ _ _ _ _ Hy Kz Hz Ky), (sq _ _ _ _ _ _ _ _ Hz Kx Hx Kz), (sq _ _ _ _ _ _ _ _ Hx Ky Hy Kx).
  reflexivity.
Qed.

Lemma dot_nz x1 x2 y1 y2 : vnz x1 x2 -> vnz y1 y2 ->
  fzq (r3_Vector_Dot y1 x1) (r3_Vector_Dot x2 y2).
Proof.
  intros (Hx & Hy & Hz) (Kx & Ky & Kz). rewrite (r3_dot_comm y1 x1). unfold r3_Vector_Dot.
  repeat apply fzq_add; apply fzq_mul_nz; assumption.
Qed.

Lemma sub_swap_nz (a b c d : float) : fnz (a * b - c * d) (d * c - b * a).
Proof. rewrite (fmul_comm d c), (fmul_comm b a). apply fsub_anti. Qed.

(** ** r3.Vector.Angle is symmetric, bit for bit *)
Lemma r3_norm_cross_swap u v :
  r3_Vector_Norm (r3_Vector_Cross v u) = r3_Vector_Norm (r3_Vector_Cross u v).
Proof.
  unfold r3_Vector_Norm, r3_Vector_Dot, r3_Vector_Cross; cbn [r3_Vector_X r3_Vector_Y r3_Vector_Z].
  assert (sq : forall a b c d : float, (a * b - c * d) * (a * b - c * d) = (d * c - b * a) * (d * c - b * a)).
  { intros a b c d. symmetry. apply fsq_nz. apply sub_swap_nz. }
  rewrite (sq (r3_Vector_Y v)), (sq (r3_Vector_Z v)), (sq (r3_Vector_X v)). reflexivity.
Qed.

Theorem r3_angle_sym : forall u v, r3_Vector_Angle u v = r3_Vector_Angle v u.
Proof.
  intros u v. unfold r3_Vector_Angle.
  rewrite (r3_norm_cross_swap v u), (r3_dot_comm u v). reflexivity.
Qed.

(** Angle(a,b,c) == Angle(c,b,a) as a float expression (point_measures.go: "Ensures that
    Angle(a,b,c) == Angle(c,b,a) for all a,b,c") — all inputs, including NaN and non-unit. *)
Theorem angle_sym : forall a b c, s2_Angle a b c = s2_Angle c b a.
Proof. intros a b c. unfold s2_Angle. apply r3_angle_sym. Qed.

(** ** PointCross under exchange of its arguments *)
Definition pc_raw (p q : s2_Point) : r3_Vector :=
  r3_Vector_Cross (r3_Vector_Add (s2_Point_Vector p) (s2_Point_Vector q))
                  (r3_Vector_Sub (s2_Point_Vector q) (s2_Point_Vector p)).

Definition zero_vec : r3_Vector := mk_r3_Vector 0 0 0.

(** the Ortho fallback of PointCross is not taken *)
Definition cross_nonzero (p q : s2_Point) : Prop := r3_Vector_eqb (pc_raw p q) zero_vec = false.

Lemma pc_raw_swap p q : vnz (pc_raw p q) (pc_raw q p).
Proof.
  unfold pc_raw. rewrite (r3_add_comm (s2_Point_Vector q) (s2_Point_Vector p)).
  apply r3_cross_nz_r. apply r3_sub_anti.
Qed.

Lemma vnz_eqb_zero u v : vnz u v -> r3_Vector_eqb v zero_vec = r3_Vector_eqb u zero_vec.
Proof.
  intros (Hx & Hy & Hz). unfold r3_Vector_eqb, zero_vec; cbn [r3_Vector_X r3_Vector_Y r3_Vector_Z].
  rewrite (fnz_eqb0 _ _ Hx), (fnz_eqb0 _ _ Hy), (fnz_eqb0 _ _ Hz). reflexivity.
Qed.

Lemma cross_nonzero_swap p q : cross_nonzero p q -> cross_nonzero q p.
Proof. unfold cross_nonzero. intros H. rewrite (vnz_eqb_zero _ _ (pc_raw_swap p q)). exact H. Qed.

Lemma PointCross_raw p q : cross_nonzero p q -> s2_Point_Vector (s2_Point_PointCross p q) = pc_raw p q.
Proof.
  unfold cross_nonzero, s2_Point_PointCross. fold (pc_raw p q). fold zero_vec. intros ->. reflexivity.
Qed.

(** ** TurnAngle(c,b,a) == -TurnAngle(a,b,c) *)
(** not both arguments of the atan2 inside Vector.Angle are zero *)
Definition dot_nonzero (a b c : s2_Point) : Prop :=
  let u := s2_Point_Vector (s2_Point_PointCross a b) in
  let v := s2_Point_Vector (s2_Point_PointCross b c) in
  PrimFloat.eqb (r3_Vector_Dot u v) 0 = false \/ PrimFloat.eqb (r3_Vector_Norm (r3_Vector_Cross u v)) 0 = false.

Lemma SFz_notnan x : SFz (Prim2SF x) -> go_isnan x = false.
Proof. intros H. unfold go_isnan. rewrite eqb_spec. destruct (Prim2SF x); simpl in *; tauto. Qed.

(** atan2(y, +0) = atan2(y, -0) unless y is a zero *)
Lemma atan2_zq y x x' : fzq x x' -> PrimFloat.eqb x 0 = false \/ PrimFloat.eqb y 0 = false ->
  math_Atan2 y x = math_Atan2 y x'.
Proof.
  intros [E | [Zx Zx']] H.
  - apply Prim2SF_inj in E. subst. reflexivity.
  - destruct H as [H | H]; [rewrite (SFz_eqb0 x Zx) in H; discriminate|].
    unfold math_Atan2, math_atan2.
    rewrite (SFz_notnan x Zx), (SFz_notnan x' Zx'), (SFz_eqb0 x Zx), (SFz_eqb0 x' Zx'), H. reflexivity.
Qed.

Lemma turn_angle_abs_reverse a b c :
  cross_nonzero a b -> cross_nonzero b c -> dot_nonzero a b c ->
  turn_angle_abs c b a = turn_angle_abs a b c.
Proof.
  intros Hab Hbc Hdot. unfold turn_angle_abs, dot_nonzero in *. cbv zeta in Hdot.
  rewrite (PointCross_raw a b Hab), (PointCross_raw b c Hbc) in *.
  rewrite (PointCross_raw c b (cross_nonzero_swap _ _ Hbc)), (PointCross_raw b a (cross_nonzero_swap _ _ Hab)).
  pose proof (pc_raw_swap b c) as Hx. pose proof (pc_raw_swap a b) as Hy.
  unfold r3_Vector_Angle.
  rewrite (norm_cross_nz _ _ _ _ Hx Hy).
  rewrite <- (atan2_zq _ _ _ (dot_nz _ _ _ _ Hx Hy) Hdot). reflexivity.
Qed.

Section TurnAngle.
Variable rs : sign_fn.

(** Full statement with the guards it needs.  The excluded inputs are exactly
    (i) a PointCross whose raw product is the zero vector (equal/antipodal points, or an
        underflow), where the Ortho fallback of the two orders need not be opposite, and
    (ii) BOTH the dot product of the two cross products and the norm of their cross product
        are zero (an underflow: the vectors are non-zero), where only the SIGN of the zero dot
        product may differ between the two orders and atan2(+0,+0)=0 but atan2(+0,-0)=pi.
    Both are refuted without the guard by [turn_angle_reverse_unguarded_refuted] below
    (points 1e-300 apart: outside the domain of property C18). *)
Theorem turn_angle_reverse : forall a b c,
  rs c b a = (- rs a b c)%Z -> (rs a b c = 1 \/ rs a b c = -1)%Z ->
  cross_nonzero a b -> cross_nonzero b c -> dot_nonzero a b c ->
  TurnAngle rs c b a = PrimFloat.opp (TurnAngle rs a b c).
Proof.
  intros a b c Hanti Hval Hab Hbc Hdot. unfold TurnAngle.
  rewrite (turn_angle_abs_reverse a b c Hab Hbc Hdot), Hanti.
  destruct Hval as [-> | ->]; simpl.
  - reflexivity.
  - rewrite fopp_involutive. reflexivity.
Qed.
End TurnAngle.

Definition ex_a := mk_s2_Point (mk_r3_Vector 1 0 0).
Definition ex_b := mk_s2_Point (mk_r3_Vector 0 1 0).
Definition ex_c := mk_s2_Point (mk_r3_Vector (-0.5) 0.75 0.25).
(** the premises are jointly satisfiable *)
Example turn_angle_reverse_ex :
  let rs : sign_fn := fun a _ _ => if s2_Point_eqb a ex_a then 1%Z else (-1)%Z in
  rs ex_c ex_b ex_a = (- rs ex_a ex_b ex_c)%Z /\ (rs ex_a ex_b ex_c = 1 \/ rs ex_a ex_b ex_c = -1)%Z /\
  cross_nonzero ex_a ex_b /\ cross_nonzero ex_b ex_c /\ dot_nonzero ex_a ex_b ex_c.
Proof. vm_compute. repeat split; auto. Qed.

(** Without the guards the statement is false: distinct unit points 1e-300 apart with the true
    (antisymmetric, non-zero) orientation signs -1/+1: TurnAngle(a,b,c) = -0, TurnAngle(c,b,a) = pi.
    Observed identically on the Go implementation. *)
Definition uf_a := mk_s2_Point (mk_r3_Vector 1 0 0).
Definition uf_b := mk_s2_Point (mk_r3_Vector 1 0 (0x1.56e1fc2f8f359p-997)).
Definition uf_c := mk_s2_Point (mk_r3_Vector 1 (0x1.56e1fc2f8f359p-997) (-0x1.56e1fc2f8f359p-997)).
Theorem turn_angle_reverse_unguarded_refuted :
  exists (rs : sign_fn) a b c,
    rs c b a = (- rs a b c)%Z /\ (rs a b c = 1 \/ rs a b c = -1)%Z /\
    s2_Point_eqb a b = false /\ s2_Point_eqb b c = false /\ s2_Point_eqb a c = false /\
    cross_nonzero a b /\ cross_nonzero b c /\
    TurnAngle rs c b a <> PrimFloat.opp (TurnAngle rs a b c).
Proof.
  exists (fun p _ _ => if s2_Point_eqb p uf_a then (-1)%Z else 1%Z), uf_a, uf_b, uf_c.
  repeat split; try (vm_compute; auto; fail).
  intro H. apply (f_equal (fun x => PrimFloat.eqb x 0)) in H. vm_compute in H. discriminate.
Qed.

(** * The final clamp of TurningAngle is odd *)
Local Open Scope R_scope.

Lemma rankB_opp (b : binary_float prec emax) : rankB (Bopp b) = - rankB b.
Proof.
  destruct b as [s|s| |s m e He]; simpl.
  - lra.
  - destruct s; simpl; lra.
  - lra.
  - rewrite <- !F2R_Zopp. destruct s; reflexivity.
Qed.

Lemma rank_opp x : rank (PrimFloat.opp x) = - rank x.
Proof. unfold rank. rewrite opp_equiv. apply rankB_opp. Qed.

Lemma is_nan_Bopp (b : binary_float prec emax) : is_nan (Bopp b) = is_nan b.
Proof. destruct b; reflexivity. Qed.

Lemma nonnan_opp x : nonnan x -> nonnan (PrimFloat.opp x).
Proof. unfold nonnan. rewrite !go_isnan_equiv, opp_equiv, is_nan_Bopp. auto. Qed.

Lemma Bltb_nan_l (a b : binary_float prec emax) : is_nan a = true -> Bltb a b = false.
Proof. destruct a; try discriminate. reflexivity. Qed.
Lemma Bltb_nan_r (a b : binary_float prec emax) : is_nan b = true -> Bltb a b = false.
Proof. destruct b; try discriminate. destruct a; reflexivity. Qed.

Lemma ltb_opp_opp a b : PrimFloat.ltb (PrimFloat.opp a) (PrimFloat.opp b) = PrimFloat.ltb b a.
Proof.
  destruct (go_isnan a) eqn:Na.
  { rewrite !ltb_equiv, opp_equiv. rewrite go_isnan_equiv in Na.
    rewrite Bltb_nan_l by (rewrite is_nan_Bopp; exact Na). rewrite Bltb_nan_r by exact Na. reflexivity. }
  destruct (go_isnan b) eqn:Nb.
  { rewrite !ltb_equiv, (opp_equiv b). rewrite go_isnan_equiv in Nb.
    rewrite Bltb_nan_r by (rewrite is_nan_Bopp; exact Nb). rewrite Bltb_nan_l by exact Nb. reflexivity. }
  rewrite !ltb_rank by (try apply nonnan_opp; assumption).
  rewrite !rank_opp.
  destruct (Rlt_bool_spec (- rank a) (- rank b)); destruct (Rlt_bool_spec (rank b) (rank a)); try reflexivity; lra.
Qed.

Lemma ltb_true_nonnan a b : PrimFloat.ltb a b = true -> nonnan a /\ nonnan b.
Proof.
  intros H. unfold nonnan. rewrite !go_isnan_equiv. rewrite ltb_equiv in H.
  destruct (is_nan (Prim2B a)) eqn:Na; [rewrite Bltb_nan_l in H by exact Na; discriminate|].
  destruct (is_nan (Prim2B b)) eqn:Nb; [rewrite Bltb_nan_r in H by exact Nb; discriminate|]. auto.
Qed.

Lemma isnan_eq_nan y : go_isnan y = true -> y = nan.
Proof.
  intros H. apply Prim2SF_inj. unfold go_isnan in H. rewrite eqb_spec in H.
  change (Prim2SF nan) with S754_nan.
  destruct (Prim2SF y) as [s|s| |s m e]; try reflexivity; exfalso.
  - simpl in H. discriminate.
  - destruct s; simpl in H; discriminate.
  - unfold SFeqb, SFcompare in H. rewrite Z.compare_refl in H.
    destruct s; rewrite ?Pos.compare_cont_refl in H; simpl in H; discriminate.
Qed.

Lemma eqb_neg_inf y : PrimFloat.eqb y neg_infinity = true -> y = neg_infinity.
Proof.
  intros H. apply Prim2SF_inj. rewrite eqb_spec in H. change (Prim2SF neg_infinity) with (S754_infinity true) in *.
  destruct (Prim2SF y) as [s|s| |s m e]; try (simpl in H; discriminate).
  all: destruct s; try reflexivity; simpl in H; discriminate.
Qed.
Lemma eqb_pos_inf y : PrimFloat.eqb y infinity = true -> y = infinity.
Proof.
  intros H. apply Prim2SF_inj. rewrite eqb_spec in H. change (Prim2SF infinity) with (S754_infinity false) in *.
  destruct (Prim2SF y) as [s|s| |s m e]; try (simpl in H; discriminate).
  all: destruct s; try reflexivity; simpl in H; discriminate.
Qed.

Local Notation m := maxCurvature.

(** math.Min(m, y) for the concrete positive finite m *)
Lemma fmin_m y : go_fmin m y = if PrimFloat.ltb m y then m else y.
Proof.
  unfold go_fmin.
  change (PrimFloat.eqb m neg_infinity) with false. change (go_isnan m) with false. change (PrimFloat.eqb m 0) with false.
  cbn [orb andb].
  destruct (PrimFloat.eqb y neg_infinity) eqn:E.
  { apply eqb_neg_inf in E. subst y. reflexivity. }
  destruct (go_isnan y) eqn:N.
  { apply isnan_eq_nan in N. subst y. reflexivity. }
  reflexivity.
Qed.

(** math.Max(-m, z) *)
Lemma fmax_m z : go_fmax (PrimFloat.opp m) z = if PrimFloat.ltb z (PrimFloat.opp m) then PrimFloat.opp m else z.
Proof.
  unfold go_fmax.
  change (PrimFloat.eqb (PrimFloat.opp m) infinity) with false. change (go_isnan (PrimFloat.opp m)) with false.
  change (PrimFloat.eqb (PrimFloat.opp m) 0) with false.
  cbn [orb andb].
  destruct (PrimFloat.eqb z infinity) eqn:E.
  { apply eqb_pos_inf in E. subst z. reflexivity. }
  destruct (go_isnan z) eqn:N.
  { apply isnan_eq_nan in N. subst z. reflexivity. }
  reflexivity.
Qed.

Lemma clamp_odd y :
  go_fmax (PrimFloat.opp m) (go_fmin m (PrimFloat.opp y)) = PrimFloat.opp (go_fmax (PrimFloat.opp m) (go_fmin m y)).
Proof.
  rewrite !fmin_m, !fmax_m.
  assert (Hm : PrimFloat.opp (PrimFloat.opp m) = m) by apply fopp_involutive.
  assert (E1 : PrimFloat.ltb m (PrimFloat.opp y) = PrimFloat.ltb y (PrimFloat.opp m)).
  { rewrite <- Hm at 1. apply ltb_opp_opp. }
  assert (E2 : PrimFloat.ltb (PrimFloat.opp y) (PrimFloat.opp m) = PrimFloat.ltb m y) by apply ltb_opp_opp.
  assert (Hmm : PrimFloat.ltb (PrimFloat.opp m) m = true) by reflexivity.
  assert (Hmm' : PrimFloat.ltb m (PrimFloat.opp m) = false) by reflexivity.
  rewrite E1.
  destruct (PrimFloat.ltb y (PrimFloat.opp m)) eqn:A.
  - (* y < -m *)
    rewrite Hmm'.
    assert (B : PrimFloat.ltb m y = false).
    { pose proof A as A0. destruct (ltb_true_nonnan _ _ A) as [Ny Nm].
      assert (Nm' : nonnan m) by reflexivity.
      apply (proj1 (ltb_true_iff _ _ Ny Nm)) in A0. apply (proj1 (ltb_true_iff _ _ Nm Nm')) in Hmm.
      apply (proj2 (ltb_false_iff _ _ Nm' Ny)). lra. }
    rewrite B, A. symmetry. exact Hm.
  - rewrite E2.
    destruct (PrimFloat.ltb m y) eqn:B.
    + rewrite Hmm'. reflexivity.
    + rewrite A. reflexivity.
Qed.

Lemma float_of_Z_1 : float_of_Z 1 = 1%float.
Proof. reflexivity. Qed.
Lemma float_of_Z_m1 : float_of_Z (-1) = PrimFloat.opp 1%float.
Proof. reflexivity. Qed.

(** [float64(-dir) * x] is the exact negation of [float64(dir) * x], and the clamp
    [math.Max(-maxCurvature, math.Min(maxCurvature, .))] is odd. *)
Theorem curvature_clamp_opp : forall dir st, (dir = 1 \/ dir = -1)%Z ->
  curvature_clamp (- dir) st = PrimFloat.opp (curvature_clamp dir st).
Proof.
  intros dir st [-> | ->]; unfold curvature_clamp; cbn [Z.opp Pos.succ];
  rewrite ?float_of_Z_1, ?float_of_Z_m1, ?fmul_opp_l.
  - apply clamp_odd.
  - rewrite clamp_odd, fopp_involutive. reflexivity.
Qed.
