(** C18 — exact IEEE-754 identities (bit level) behind
      Angle(a,b,c) == Angle(c,b,a),  TurnAngle(c,b,a) == -TurnAngle(a,b,c)
    and the oddness of the final clamp of Loop.TurningAngle.
    Everything is derived from Coq's FloatAxioms specification of the primitive
    operations ([Prim2SF] is injective, so Leibniz equality of [float] is bit equality). *)
From Coq Require Import ZArith Reals List Bool Floats Lia Lra.
From Flocq Require Import Core.Core IEEE754.BinarySingleNaN IEEE754.PrimFloat.
From Geo Require Import Base.GoPrim Base.F64 Gen.Area Model.LoopMeasures.
Import ListNotations.

(** * Spec-level lemmas (any precision) *)
Section SF.
Variables prec emax : Z.

Definition SFz (x : spec_float) : Prop := match x with S754_zero _ => True | _ => False end.
(** [y] is the negation of [x], up to the sign of a zero *)
Definition SFnz (x y : spec_float) : Prop := y = SFopp x \/ (SFz x /\ SFz y).
(** [y] is [x], up to the sign of a zero *)
Definition SFzq (x y : spec_float) : Prop := x = y \/ (SFz x /\ SFz y).

Lemma SFopp_invol x : SFopp (SFopp x) = x.
Proof. destruct x; simpl; rewrite ?negb_involutive; reflexivity. Qed.

Lemma SFopp_round_aux s m e l :
  SFopp (binary_round_aux prec emax s m e l) = binary_round_aux prec emax (negb s) m e l.
Proof.
  unfold binary_round_aux.
  destruct (shr_fexp prec emax m e l) as [mrs' e'].
  destruct (shr_fexp prec emax _ e' loc_Exact) as [mrs'' e''].
  destruct (shr_m mrs''); simpl; try reflexivity.
  destruct (Zle_bool e'' (emax - prec)); reflexivity.
Qed.

Lemma SFopp_round s m e : SFopp (binary_round prec emax s m e) = binary_round prec emax (negb s) m e.
Proof. unfold binary_round. destruct (shl_align m e _) as [mz ez]. apply SFopp_round_aux. Qed.

Lemma bn_opp z e : z <> 0%Z ->
  binary_normalize prec emax (- z) e false = SFopp (binary_normalize prec emax z e false).
Proof.
  destruct z as [|p|p]; intros Hz; [congruence| |]; simpl; rewrite SFopp_round; reflexivity.
Qed.

Lemma bn_zero_or z e : SFz (binary_normalize prec emax z e false) -> z = 0%Z \/ True.
Proof. auto. Qed.

Lemma SFmul_comm x y : SFmul prec emax x y = SFmul prec emax y x.
Proof.
  destruct x as [sx|sx| |sx mx ex], y as [sy|sy| |sy my ey]; simpl; try reflexivity;
  rewrite ?(xorb_comm sx sy); try reflexivity.
  rewrite (Pos.mul_comm mx my), (Z.add_comm ex ey). reflexivity.
Qed.

Lemma SFadd_comm x y : SFadd prec emax x y = SFadd prec emax y x.
Proof.
  destruct x as [sx|sx| |sx mx ex], y as [sy|sy| |sy my ey]; simpl; try reflexivity;
  try (destruct sx, sy; reflexivity).
  rewrite (Z.min_comm ex ey), Z.add_comm. reflexivity.
Qed.

Lemma SFmul_opp_l x y : SFmul prec emax (SFopp x) y = SFopp (SFmul prec emax x y).
Proof.
  destruct x as [sx|sx| |sx mx ex], y as [sy|sy| |sy my ey]; simpl; try reflexivity;
  try (destruct sx, sy; reflexivity).
  rewrite SFopp_round_aux. destruct sx, sy; reflexivity.
Qed.

Lemma SFmul_opp_r x y : SFmul prec emax x (SFopp y) = SFopp (SFmul prec emax x y).
Proof. rewrite SFmul_comm, SFmul_opp_l, SFmul_comm. reflexivity. Qed.

Lemma cond_Zopp_negb s m : cond_Zopp (negb s) m = (- cond_Zopp s m)%Z.
Proof. destruct s; simpl; lia. Qed.

(** x - y and y - x *)
Lemma SFsub_anti x y : SFnz (SFsub prec emax x y) (SFsub prec emax y x).
Proof.
  unfold SFnz.
  destruct x as [sx|sx| |sx mx ex], y as [sy|sy| |sy my ey]; simpl;
  try (left; reflexivity); try (destruct sx, sy; simpl; auto; fail);
  try (left; rewrite ?negb_involutive; reflexivity).
  rewrite (Z.min_comm ey ex).
  set (A := cond_Zopp sx (Z.pos (fst (shl_align mx ex (Z.min ex ey))))).
  set (B := cond_Zopp sy (Z.pos (fst (shl_align my ey (Z.min ex ey))))).
  destruct (Z.eq_dec (A - B) 0) as [E|E].
  - right. replace (B - A)%Z with 0%Z by lia. rewrite E. simpl. auto.
  - left. replace (B - A)%Z with (- (A - B))%Z by lia. apply bn_opp. exact E.
Qed.

(** (-p) - (-q) vs p - q *)
Lemma SFsub_opp_opp p q : SFnz (SFsub prec emax p q) (SFsub prec emax (SFopp p) (SFopp q)).
Proof.
  unfold SFnz.
  destruct p as [sx|sx| |sx mx ex], q as [sy|sy| |sy my ey]; simpl;
  try (left; reflexivity); try (destruct sx, sy; simpl; auto; fail).
  rewrite !cond_Zopp_negb.
  set (A := cond_Zopp sx (Z.pos (fst (shl_align mx ex (Z.min ex ey))))).
  set (B := cond_Zopp sy (Z.pos (fst (shl_align my ey (Z.min ex ey))))).
  destruct (Z.eq_dec (A - B) 0) as [E|E].
  - right. replace (- A - - B)%Z with 0%Z by lia. rewrite E. simpl. auto.
  - left. replace (- A - - B)%Z with (- (A - B))%Z by lia. apply bn_opp. exact E.
Qed.

Ltac sfz_cases :=
  repeat match goal with
  | H : SFz ?x |- _ => is_var x; destruct x; simpl in H; try contradiction; clear H
  end.

(** multiplication by a fixed factor preserves "negation up to zero sign" *)
Lemma SFmul_nz_r s a a' : SFnz a a' -> SFnz (SFmul prec emax s a) (SFmul prec emax s a').
Proof.
  intros [-> | [Za Za']].
  - left. apply SFmul_opp_r.
  - sfz_cases. unfold SFnz. destruct s as [ss|ss| |ss ms es]; simpl; auto.
Qed.

Lemma SFmul_nz_l s a a' : SFnz a a' -> SFnz (SFmul prec emax a s) (SFmul prec emax a' s).
Proof. rewrite (SFmul_comm a s), (SFmul_comm a' s). apply SFmul_nz_r. Qed.

(** subtraction of two "negated up to zero sign" pairs *)
Lemma SFsub_nz p p' q q' : SFnz p p' -> SFnz q q' ->
  SFnz (SFsub prec emax p q) (SFsub prec emax p' q').
Proof.
  intros [-> | [Zp Zp']] [-> | [Zq Zq']].
  - apply SFsub_opp_opp.
  - sfz_cases. unfold SFnz.
    destruct p as [sx|sx| |sx mx ex]; simpl; auto;
    match goal with |- context [Bool.eqb _ _] => destruct sx; repeat match goal with b : bool |- _ => destruct b end; simpl; auto end.
  - sfz_cases. unfold SFnz.
    destruct q as [sy|sy| |sy my ey]; simpl; rewrite ?negb_involutive; auto;
    repeat match goal with b : bool |- _ => destruct b end; simpl; auto.
  - sfz_cases. unfold SFnz. right.
    repeat match goal with b : bool |- _ => destruct b end; simpl; auto.
Qed.

(** products of two such pairs agree up to zero sign *)
Lemma SFmul_nz_nz a a' b b' : SFnz a a' -> SFnz b b' ->
  SFzq (SFmul prec emax a b) (SFmul prec emax a' b').
Proof.
  intros [-> | [Za Za']] [-> | [Zb Zb']].
  - left. rewrite SFmul_opp_l, SFmul_opp_r, SFopp_invol. reflexivity.
  - sfz_cases. unfold SFzq.
    destruct a as [sx|sx| |sx mx ex]; simpl; auto.
  - sfz_cases. unfold SFzq.
    destruct b as [sy|sy| |sy my ey]; simpl; auto.
  - sfz_cases. unfold SFzq. right. simpl. auto.
Qed.

Lemma SFmul_zq a a' b b' : SFzq a a' -> SFzq b b' ->
  SFzq (SFmul prec emax a b) (SFmul prec emax a' b').
Proof.
  intros [-> | [Za Za']] [-> | [Zb Zb']].
  - left. reflexivity.
  - sfz_cases. unfold SFzq. destruct a' as [sx|sx| |sx mx ex]; simpl; auto.
  - sfz_cases. unfold SFzq. destruct b' as [sy|sy| |sy my ey]; simpl; auto.
  - sfz_cases. unfold SFzq. right. simpl. auto.
Qed.

Lemma SFadd_zq p p' q q' : SFzq p p' -> SFzq q q' ->
  SFzq (SFadd prec emax p q) (SFadd prec emax p' q').
Proof.
  intros [-> | [Zp Zp']] [-> | [Zq Zq']].
  - left. reflexivity.
  - sfz_cases. unfold SFzq. destruct p' as [sx|sx| |sx mx ex]; simpl; auto.
    repeat match goal with b : bool |- _ => destruct b end; simpl; auto.
  - sfz_cases. unfold SFzq. destruct q' as [sy|sy| |sy my ey]; simpl; auto.
    repeat match goal with b : bool |- _ => destruct b end; simpl; auto.
  - sfz_cases. unfold SFzq. right.
    repeat match goal with b : bool |- _ => destruct b end; simpl; auto.
Qed.

Lemma SFsub_zq p p' q q' : SFzq p p' -> SFzq q q' ->
  SFzq (SFsub prec emax p q) (SFsub prec emax p' q').
Proof.
  intros [-> | [Zp Zp']] [-> | [Zq Zq']].
  - left. reflexivity.
  - sfz_cases. unfold SFzq. destruct p' as [sx|sx| |sx mx ex]; simpl; auto.
    repeat match goal with b : bool |- _ => destruct b end; simpl; auto.
  - sfz_cases. unfold SFzq. destruct q' as [sy|sy| |sy my ey]; simpl; auto.
    repeat match goal with b : bool |- _ => destruct b end; simpl; auto.
  - sfz_cases. unfold SFzq. right.
    repeat match goal with b : bool |- _ => destruct b end; simpl; auto.
Qed.

(** squares forget the sign and the sign of zero *)
Lemma SFsq_zq w w0 : SFzq w w0 -> SFmul prec emax w w = SFmul prec emax w0 w0.
Proof.
  intros [-> | [Zw Zw0]]; [reflexivity|]. sfz_cases. simpl.
  repeat match goal with b : bool |- _ => destruct b end; reflexivity.
Qed.

Lemma SFsq_nz w0 w' : SFnz w0 w' -> SFmul prec emax w' w' = SFmul prec emax w0 w0.
Proof.
  intros [-> | [Zw Zw0]].
  - rewrite SFmul_opp_l, SFmul_opp_r, SFopp_invol. reflexivity.
  - sfz_cases. simpl. repeat match goal with b : bool |- _ => destruct b end; reflexivity.
Qed.

Lemma SFnz_zq_trans x y z : SFnz x y -> SFzq y z -> SFnz x z.
Proof.
  intros [-> | [Zx Zy]] [<- | [Zy' Zz]]; unfold SFnz; auto.
  - right. split; [|exact Zz]. destruct x; simpl in *; auto.
  - right. subst. auto.
Qed.

Lemma SFz_opp x : SFz (SFopp x) <-> SFz x.
Proof. destruct x; simpl; tauto. Qed.

End SF.
