(** C02, the symbolic perturbation ("simulation of simplicity") behind symbolicallyPerturbedSign.

    The rows of the determinant are perturbed by powers of one infinitesimal eps > 0:
        a + (eps^4,   eps^2,   eps^1)     (x, y, z)   -- smallest point: largest perturbation
        b + (eps^32,  eps^16,  eps^8)
        c + (eps^256, eps^128, eps^64)
    [sos_expansion]   the perturbed determinant IS the polynomial [sos_poly] in eps (34 monomials,
                      identity by [ring]); its exponents are strictly increasing ([sos_increasing]).
    [dominance]       for a polynomial with strictly increasing exponents, the sign for all small
                      eps > 0 is the sign of the first non-zero coefficient.
    [table_first_nz]  the 13 tests of the Go table (in its order, with its signs), read on the
                      real coordinates, return exactly that first non-zero coefficient; the
                      coefficients the table skips (eps^17, eps^32, eps^33, eps^34) vanish
                      whenever they are reached, and eps^84 has coefficient 1.
    [sorted_sign_sos] exactSign on a sorted triple = sign of the perturbed determinant for all
                      small eps (non-degenerate case included: exponent 0 is the determinant).
    [exact_sign_sos]  exactSign on ANY three distinct finite points in ANY argument order = sign
                      of the determinant whose rows are perturbed according to each point's
                      lexicographic rank among the three; in particular it is never 0. *)
From Coq Require Import ZArith Reals Floats Lra Lia Bool List Psatz.
From Geo Require Import Base.GoPrim Base.F64 Base.Exact Gen.R3 Gen.S2Pred Model.Pred Proofs.C02_Exact.
Import ListNotations.
Local Open Scope R_scope.

(** * Sparse polynomials in eps and the sign of their lowest-order term *)
Definition poly := list (nat * R).
Fixpoint peval (l : poly) (e : R) : R :=
  match l with [] => 0 | (n, c) :: t => c * e ^ n + peval t e end.
Fixpoint first_nz (l : poly) : Z :=
  match l with [] => 0%Z | (n, c) :: t => if (sgnR c =? 0)%Z then first_nz t else sgnR c end.
Fixpoint abssum (l : poly) : R :=
  match l with [] => 0 | (n, c) :: t => Rabs c + abssum t end.
Fixpoint all_ge (m : nat) (l : poly) : Prop :=
  match l with [] => True | (n, c) :: t => (m <= n)%nat /\ all_ge m t end.
Fixpoint increasing (l : poly) : Prop :=
  match l with [] => True | (n, c) :: t => all_ge (S n) t /\ increasing t end.

Lemma abssum_nonneg l : 0 <= abssum l.
Proof. induction l as [|[n c] t IH]; simpl; [lra|]. pose proof (Rabs_pos c). lra. Qed.

Lemma pow_le_1 e k : 0 <= e <= 1 -> 0 <= e ^ k <= 1.
Proof.
  intros H. induction k; simpl; [lra|]. destruct IHk. split; [apply Rmult_le_pos; lra|].
  replace 1 with (1 * 1) by ring. apply Rmult_le_compat; lra.
Qed.

Lemma pow_antimono e m n : 0 < e <= 1 -> (m <= n)%nat -> e ^ n <= e ^ m.
Proof.
  intros H Hmn. replace n with (m + (n - m))%nat by lia. rewrite pow_add.
  pose proof (pow_le_1 e (n - m)) as H1. pose proof (pow_lt e m) as H2.
  assert (0 < e ^ m) by (apply H2; lra). assert (e ^ (n - m) <= 1) by (apply H1; lra).
  replace (e ^ m) with (e ^ m * 1) at 2 by ring. apply Rmult_le_compat_l; lra.
Qed.

Lemma peval_bound e m t : 0 < e <= 1 -> all_ge m t -> Rabs (peval t e) <= e ^ m * abssum t.
Proof.
  intros He. induction t as [|[n c] t IH]; simpl.
  - intros _. rewrite Rabs_R0. lra.
  - intros [Hn Ht]. specialize (IH Ht).
    eapply Rle_trans; [apply Rabs_triang|]. rewrite Rabs_mult.
    assert (P : 0 < e ^ n) by (apply pow_lt; lra).
    rewrite (Rabs_pos_eq (e ^ n)) by lra.
    pose proof (pow_antimono e m n He Hn). pose proof (Rabs_pos c).
    assert (Rabs c * e ^ n <= e ^ m * Rabs c) by nra. lra.
Qed.

Theorem dominance l : increasing l ->
  exists e0, 0 < e0 /\ forall e, 0 < e < e0 -> sgnR (peval l e) = first_nz l.
Proof.
  induction l as [|[n c] t IH]; simpl.
  - intros _. exists 1. split; [lra|]. intros. apply sgnR_0.
  - intros [Hge Hinc]. destruct (IH Hinc) as (e1 & He1 & IH1).
    destruct (Z.eqb_spec (sgnR c) 0) as [E|E].
    + apply sgnR_zero_iff in E. subst c. exists e1. split; [assumption|].
      intros e He. rewrite Rmult_0_l, Rplus_0_l. now apply IH1.
    + assert (Hc : c <> 0) by (intro; subst; apply E; apply sgnR_0).
      pose proof (abssum_nonneg t) as HS. set (S_ := abssum t) in *.
      assert (Hq : 0 < Rabs c / (S_ + 1)).
      { apply Rdiv_lt_0_compat; [now apply Rabs_pos_lt|lra]. }
      exists (Rmin 1 (Rabs c / (S_ + 1))). split; [apply Rmin_pos; lra|].
      intros e [He0 He].
      assert (He1' : e <= 1) by (eapply Rle_trans; [apply Rlt_le, He|apply Rmin_l]).
      assert (He2 : e < Rabs c / (S_ + 1)) by (eapply Rlt_le_trans; [apply He|apply Rmin_r]).
      assert (HeS : e * S_ < Rabs c).
      { apply (Rmult_lt_compat_r (S_ + 1)) in He2; [|lra].
        unfold Rdiv in He2. rewrite Rmult_assoc, Rinv_l, Rmult_1_r in He2 by lra. nra. }
      pose proof (peval_bound e (S n) t (conj He0 He1') Hge) as Hb. fold S_ in Hb.
      assert (Pn : 0 < e ^ n) by (apply pow_lt; lra).
      simpl in Hb.
      assert (Hr : Rabs (peval t e) < Rabs c * e ^ n).
      { eapply Rle_lt_trans; [apply Hb|]. nra. }
      apply Rabs_def2 in Hr.
      destruct (Rdichotomy c 0 Hc) as [Hneg|Hpos].
      * rewrite (sgnR_neg c Hneg). apply sgnR_neg. rewrite Rabs_left in Hr by assumption. nra.
      * rewrite (sgnR_pos c Hpos). apply sgnR_pos. rewrite Rabs_pos_eq in Hr by lra. nra.
Qed.

(** boolean check of strictly increasing exponents *)
Fixpoint all_geb (m : nat) (l : list nat) : bool :=
  match l with [] => true | n :: t => Nat.leb m n && all_geb m t end.
Fixpoint increasingb (l : list nat) : bool :=
  match l with [] => true | n :: t => all_geb (S n) t && increasingb t end.
Lemma all_geb_ok m l : all_geb m (map fst l) = true -> all_ge m l.
Proof.
  induction l as [|[n c] t IH]; simpl; [auto|]. intros H. apply andb_true_iff in H. destruct H as [H1 H2].
  split; [now apply Nat.leb_le|auto].
Qed.
Lemma increasingb_ok l : increasingb (map fst l) = true -> increasing l.
Proof.
  induction l as [|[n c] t IH]; simpl; [auto|]. intros H. apply andb_true_iff in H. destruct H as [H1 H2].
  split; [now apply all_geb_ok|auto].
Qed.

(** * The perturbed determinant as a polynomial in eps *)
Section Table.
  Variables ax ay az bx by_ bz cx cy cz : R.

  Definition sos_poly : poly :=
  [(0%nat, det3 ax ay az bx by_ bz cx cy cz);
   (1%nat, bx * cy - by_ * cx);
   (2%nat, bz * cx - bx * cz);
   (4%nat, by_ * cz - bz * cy);
   (8%nat, cx * ay - cy * ax);
   (10%nat, cx);
   (12%nat, - cy);
   (16%nat, cz * ax - cx * az);
   (17%nat, - cx);
   (20%nat, cz);
   (32%nat, az * cy - ay * cz);
   (33%nat, cy);
   (34%nat, - cz);
   (64%nat, ax * by_ - ay * bx);
   (66%nat, - bx);
   (68%nat, by_);
   (80%nat, ax);
   (84%nat, 1);
   (96%nat, - ay);
   (98%nat, - 1);
   (128%nat, az * bx - ax * bz);
   (129%nat, bx);
   (132%nat, - bz);
   (136%nat, - ax);
   (140%nat, - 1);
   (160%nat, az);
   (161%nat, 1);
   (256%nat, ay * bz - az * by_);
   (257%nat, - by_);
   (258%nat, bz);
   (264%nat, ay);
   (266%nat, 1);
   (272%nat, - az);
   (273%nat, - 1)].

  Definition pert (e : R) : R :=
    det3 (ax + e ^ 4) (ay + e ^ 2) (az + e ^ 1) (bx + e ^ 32) (by_ + e ^ 16) (bz + e ^ 8)
         (cx + e ^ 256) (cy + e ^ 128) (cz + e ^ 64).

  Lemma sos_expansion e : pert e = peval sos_poly e.
  Proof. unfold pert, sos_poly. cbn [peval]. unfold det3. ring. Qed.

  Lemma sos_increasing : increasing sos_poly.
  Proof. apply increasingb_ok. vm_compute. reflexivity. Qed.

  (** the Go table on real coordinates, test by test *)
  Definition table_R : Z :=
    TRY sgnR (bx * cy - by_ * cx) ELSE
    TRY sgnR (bz * cx - bx * cz) ELSE
    TRY sgnR (by_ * cz - bz * cy) ELSE
    TRY sgnR (cx * ay - cy * ax) ELSE
    TRY sgnR cx ELSE
    TRY (- sgnR cy)%Z ELSE
    TRY sgnR (cz * ax - cx * az) ELSE
    TRY sgnR cz ELSE
    TRY sgnR (ax * by_ - ay * bx) ELSE
    TRY (- sgnR bx)%Z ELSE
    TRY sgnR by_ ELSE
    TRY sgnR ax ELSE
    1%Z.

  Ltac same_test :=
    match goal with
    | |- (if Z.eqb ?t 0 then _ else _) = _ => destruct (Z.eqb_spec t 0); [|reflexivity]
    end.

  Lemma table_first_nz : det3 ax ay az bx by_ bz cx cy cz = 0 -> table_R = first_nz sos_poly.
  Proof.
    intros Hd. unfold table_R, sos_poly, first_nz. cbv zeta. rewrite Hd, sgnR_0, !sgnR_opp.
    change (0 =? 0)%Z with true. cbv iota.
    do 7 same_test.
    replace (- sgnR cx)%Z with 0%Z by lia. change (0 =? 0)%Z with true. cbv iota.
    same_test.
    assert (Hcy : cy = 0) by (apply sgnR_zero_iff; lia).
    assert (Hcz : cz = 0) by (apply sgnR_zero_iff; lia).
    replace (sgnR cy) with 0%Z by (subst cy; now rewrite sgnR_0).
    replace (sgnR cz) with 0%Z by (subst cz; now rewrite sgnR_0).
    replace (az * cy - ay * cz) with 0 by (rewrite Hcy, Hcz; ring). rewrite sgnR_0.
    change (- 0 =? 0)%Z with true. change (0 =? 0)%Z with true. cbv iota.
    do 4 same_test.
    replace (sgnR 1) with 1%Z by (symmetry; apply sgnR_pos; lra). reflexivity.
  Qed.
End Table.

(** * exactSign on a sorted triple *)
Definition pert_det (a b c : s2_Point) (e : R) : R :=
  pert (PX a) (PY a) (PZ a) (PX b) (PY b) (PZ b) (PX c) (PY c) (PZ c) e.

Lemma sym_perturbed_sign_R a b c :
  sym_perturbed_sign (pv_of_point a) (pv_of_point b) (pv_of_point c)
    (pv_cross (pv_of_point b) (pv_of_point c))
  = table_R (PX a) (PY a) (PZ a) (PX b) (PY b) (PZ b) (PX c) (PY c) (PZ c).
Proof.
  unfold sym_perturbed_sign, table_R, pv_cross, pv_of_point, pv_of_vector, PX, PY, PZ.
  cbn [pv_X pv_Y pv_Z]. rewrite !dsgn_correct.
  repeat first [ rewrite D2R_sub | rewrite D2R_mul | rewrite <- of_float_correct ].
  reflexivity.
Qed.

Lemma sorted_sign_first_nz a b c :
  sorted_sign true a b c = first_nz (sos_poly (PX a) (PY a) (PZ a) (PX b) (PY b) (PZ b) (PX c) (PY c) (PZ c)).
Proof.
  unfold sorted_sign. cbv zeta. rewrite andb_true_r, dsgn_correct, pv_det_correct, sym_perturbed_sign_R.
  destruct (Z.eqb_spec (sgnR (detR a b c)) 0) as [E|E].
  - apply sgnR_zero_iff in E. rewrite table_first_nz by exact E. reflexivity.
  - unfold sos_poly, first_nz. fold (detR a b c).
    destruct (Z.eqb_spec (sgnR (detR a b c)) 0); [contradiction|reflexivity].
Qed.

Theorem sorted_sign_sos a b c :
  exists e0, 0 < e0 /\ forall e, 0 < e < e0 -> sorted_sign true a b c = sgnR (pert_det a b c e).
Proof.
  destruct (dominance _ (sos_increasing (PX a) (PY a) (PZ a) (PX b) (PY b) (PZ b) (PX c) (PY c) (PZ c)))
    as (e0 & He0 & H).
  exists e0. split; [assumption|]. intros e He.
  unfold pert_det. rewrite sos_expansion, (H e He). apply sorted_sign_first_nz.
Qed.

(** * exactSign on three distinct points in any order: each row perturbed by its own rank *)
Definition rk (p a b c : s2_Point) : nat :=
  ((if cmp_gt p a then 1 else 0) + (if cmp_gt p b then 1 else 0) + (if cmp_gt p c then 1 else 0))%nat.
(** perturbation of the point of rank k: (eps^(4*8^k), eps^(2*8^k), eps^(8^k)) in (x, y, z) *)
Definition dX (k : nat) (e : R) : R := e ^ (4 * 8 ^ k).
Definition dY (k : nat) (e : R) : R := e ^ (2 * 8 ^ k).
Definition dZ (k : nat) (e : R) : R := e ^ (8 ^ k).
Definition pert_det_ranked (a b c : s2_Point) (e : R) : R :=
  det3 (PX a + dX (rk a a b c) e) (PY a + dY (rk a a b c) e) (PZ a + dZ (rk a a b c) e)
       (PX b + dX (rk b a b c) e) (PY b + dY (rk b a b c) e) (PZ b + dZ (rk b a b c) e)
       (PX c + dX (rk c a b c) e) (PY c + dY (rk c a b c) e) (PZ c + dZ (rk c a b c) e).

Lemma cmp_gt_refl p : finite p -> cmp_gt p p = false.
Proof. intros F. apply cmp_gt_peq; auto. unfold peq. auto. Qed.

Theorem exact_sign_sos a b c : finite a -> finite b -> finite c -> distinct3 a b c ->
  exists e0, 0 < e0 /\ forall e, 0 < e < e0 ->
    exact_sign a b c = sgnR (pert_det_ranked a b c e) /\ pert_det_ranked a b c e <> 0.
Proof.
  intros Fa Fb Fc D.
  assert (Hnz : forall x : R, (sgnR x = 1 \/ sgnR x = -1)%Z -> x <> 0).
  { intros x Hx E. subst. rewrite sgnR_0 in Hx. lia. }
  pose proof (cmp_gt_refl a Fa) as Raa. pose proof (cmp_gt_refl b Fb) as Rbb. pose proof (cmp_gt_refl c Fc) as Rcc.
  unfold exact_sign, exact_sign_gen, pert_det_ranked, rk.
  six_cases a b c Fa Fb Fc D; run_sort; rewrite ?Raa, ?Rbb, ?Rcc;
  match goal with |- context [sorted_sign true ?p ?q ?r] =>
    destruct (sorted_sign_sos p q r) as (e0 & He0 & H); pose proof (sorted_sign_true_pm1 p q r) as Hpm;
    exists e0; (split; [exact He0|]); intros e He; specialize (H e He); rewrite H in *; clear H
  end;
  unfold pert_det, pert, dX, dY, dZ in *; cbn [Nat.add Nat.mul Nat.pow];
  match goal with |- (?s * sgnR ?x)%Z = sgnR ?y /\ _ =>
    first [ replace y with x by (unfold det3; ring); split; [lia|apply Hnz; lia]
          | replace y with (- x) by (unfold det3; ring); rewrite sgnR_opp; split; [lia|apply Hnz; rewrite sgnR_opp; lia] ] end.
Qed.

(** The statement for a whole finite point set (one perturbation for ALL points, every triple,
    every argument order) and its Grassmann-Pluecker corollary are in Proofs/C02_SoSGlobal.v. *)
