(** C11 — CellIndex.Build: the walk over the sorted deltas maintains the stack of the
    (cell, label) pairs that cover the current leaf; every emitted range node points at it. *)
From Coq Require Import ZArith List Bool Lia ZifyBool Sorted Permutation.
From Geo Require Import Base.GoPrim Gen.CellID Model.CellUnion Model.CellIndex
  Proofs.C11_Bits Proofs.C11_Cells Proofs.C11_Normalize Proofs.C11_Unique Proofs.C11_Search Proofs.C11_SetOps Proofs.C11_Range.
Import ListNotations.
Local Open Scope Z_scope.

(** * Generic list facts *)
Lemma Permutation_filter {A} (f : A -> bool) l l' : Permutation l l' -> Permutation (filter f l) (filter f l').
Proof.
  induction 1; cbn.
  - constructor.
  - destruct (f x); [constructor|]; assumption.
  - destruct (f x), (f y); auto using Permutation_refl, perm_swap, perm_skip.
  - eapply Permutation_trans; eassumption.
Qed.

Lemma SS_split' {A} (R : A -> A -> Prop) l1 a l2 : StronglySorted R (l1 ++ a :: l2) ->
  (forall x, In x l1 -> R x a) /\ (forall y, In y l2 -> R a y).
Proof.
  induction l1 as [|z l1 IH]; cbn; intros S; inversion S as [|? ? S' F]; subst.
  - split; [intros ? []|]. rewrite Forall_forall in F. exact F.
  - destruct (IH S') as [H1 H2]. split; [|exact H2].
    intros x [<-|Hx]; [|auto]. rewrite Forall_forall in F. apply F. apply in_or_app. right. left. reflexivity.
Qed.

Lemma SS_suffix' {A} (R : A -> A -> Prop) l1 l2 : StronglySorted R (l1 ++ l2) -> StronglySorted R l2.
Proof. induction l1; cbn; [auto|]. intros H. inversion H; subst. auto. Qed.

Definition cnt {A} (f : A -> bool) (l : list A) : nat := length (filter f l).
Lemma cnt_app {A} (f : A -> bool) l1 l2 : cnt f (l1 ++ l2) = (cnt f l1 + cnt f l2)%nat.
Proof. unfold cnt. rewrite filter_app, app_length. reflexivity. Qed.
Lemma cnt_perm {A} (f : A -> bool) l l' : Permutation l l' -> cnt f l = cnt f l'.
Proof. intros H. unfold cnt. apply Permutation_length. apply Permutation_filter. exact H. Qed.
Lemma cnt_zero {A} (f : A -> bool) l : (forall x, In x l -> f x = false) -> cnt f l = 0%nat.
Proof.
  induction l as [|a l IH]; intros H; [reflexivity|]. unfold cnt in *. cbn.
  rewrite (H a ltac:(left; reflexivity)). apply IH. intros; apply H; right; assumption.
Qed.
Lemma cnt_pos_ex {A} (f : A -> bool) l : (0 < cnt f l)%nat -> exists x, In x l /\ f x = true.
Proof.
  unfold cnt. destruct (filter f l) as [|x t] eqn:E; [cbn; lia|]. intros _.
  assert (In x (filter f l)) by (rewrite E; left; reflexivity). apply filter_In in H. exists x. exact H.
Qed.
Lemma cnt_in_pos {A} (f : A -> bool) l x : In x l -> f x = true -> (0 < cnt f l)%nat.
Proof.
  intros Hin Hf. unfold cnt. assert (In x (filter f l)) by (apply filter_In; auto).
  destruct (filter f l); [destruct H|cbn; lia].
Qed.
Lemma filter_true {A} (f : A -> bool) l : (forall x, In x l -> f x = true) -> filter f l = l.
Proof.
  induction l as [|a l IH]; intros H; [reflexivity|]. cbn. rewrite (H a ltac:(left; reflexivity)). f_equal. apply IH. intros; apply H; right; assumption.
Qed.
Lemma filter_false {A} (f : A -> bool) l : (forall x, In x l -> f x = false) -> filter f l = [].
Proof.
  induction l as [|a l IH]; intros H; [reflexivity|]. cbn. rewrite (H a ltac:(left; reflexivity)). apply IH. intros; apply H; right; assumption.
Qed.
Lemma filter_filter {A} (f g : A -> bool) l : filter g (filter f l) = filter (fun a => f a && g a) l.
Proof.
  induction l as [|a l IH]; [reflexivity|]. cbn. destruct (f a); cbn; [destruct (g a); cbn; rewrite IH; reflexivity|exact IH].
Qed.
Lemma cnt_cons {A} (f : A -> bool) a l : cnt f (a :: l) = ((if f a then 1 else 0) + cnt f l)%nat.
Proof. unfold cnt. cbn. destruct (f a); reflexivity. Qed.

(** * The order on deltas and the sort *)
Definition delta_le (a b : delta) : Prop := delta_less b a = false.

Lemma delta_less_irrefl a : delta_less a a = false.
Proof. unfold delta_less. rewrite !Z.eqb_refl. cbn. lia. Qed.

Lemma delta_le_total a b : delta_le a b \/ delta_le b a.
Proof.
  unfold delta_le, delta_less.
  destruct (Z.eqb_spec (d_start a) (d_start b)), (Z.eqb_spec (d_start b) (d_start a)); cbn; try lia.
  destruct (Z.eqb_spec (d_cell a) (d_cell b)), (Z.eqb_spec (d_cell b) (d_cell a)); cbn; lia.
Qed.

Lemma delta_le_trans a b c : delta_le a b -> delta_le b c -> delta_le a c.
Proof.
  unfold delta_le, delta_less.
  destruct (Z.eqb_spec (d_start b) (d_start a)), (Z.eqb_spec (d_start c) (d_start b)), (Z.eqb_spec (d_start c) (d_start a)); cbn; try lia;
  destruct (Z.eqb_spec (d_cell b) (d_cell a)), (Z.eqb_spec (d_cell c) (d_cell b)), (Z.eqb_spec (d_cell c) (d_cell a)); cbn; lia.
Qed.

(** what [delta_le a b] says *)
Lemma delta_le_spec a b : delta_le a b <->
  d_start a < d_start b \/ (d_start a = d_start b /\ (d_cell b < d_cell a \/ (d_cell a = d_cell b /\ d_label a <= d_label b))).
Proof.
  unfold delta_le, delta_less.
  destruct (Z.eqb_spec (d_start b) (d_start a)); cbn; [|lia].
  destruct (Z.eqb_spec (d_cell b) (d_cell a)); cbn; lia.
Qed.

Lemma insert_delta_perm x l : Permutation (x :: l) (insert_delta x l).
Proof.
  induction l as [|y t IH]; cbn; [reflexivity|].
  destruct (delta_less y x); [|reflexivity]. rewrite perm_swap. apply perm_skip. exact IH.
Qed.
Lemma sort_deltas_perm l : Permutation l (sort_deltas l).
Proof.
  induction l as [|x t IH]; cbn; [constructor|]. rewrite <- insert_delta_perm. apply perm_skip. exact IH.
Qed.
Lemma insert_delta_sorted x l : StronglySorted delta_le l -> StronglySorted delta_le (insert_delta x l).
Proof.
  induction l as [|y t IH]; intros HS; cbn; [repeat constructor|].
  inversion HS as [|? ? HS' HF]; subst. destruct (delta_less y x) eqn:E.
  - constructor; [apply IH; exact HS'|]. rewrite Forall_forall in *. intros z Hz.
    apply (Permutation_in _ (Permutation_sym (insert_delta_perm x t))) in Hz. destruct Hz as [<-|Hz]; [|auto].
    destruct (delta_le_total y x) as [H|H]; [exact H|]. unfold delta_le in H. congruence.
  - constructor; [exact HS|]. constructor; [exact E|].
    rewrite Forall_forall in *. intros z Hz. apply (delta_le_trans x y z); [exact E|auto].
Qed.
Lemma sort_deltas_sorted l : StronglySorted delta_le (sort_deltas l).
Proof. induction l; cbn; [constructor|apply insert_delta_sorted; assumption]. Qed.

(** * Positions of the emitted range nodes *)
Fixpoint gstarts (ds : list delta) : list Z :=
  match ds with
  | [] => []
  | d :: rest =>
      match rest with
      | d2 :: _ => if d_start d2 =? d_start d then gstarts rest else d_start d :: gstarts rest
      | [] => [d_start d]
      end
  end.

Lemma build_walk_starts : forall ds tree contents, map fst (snd (build_walk ds tree contents)) = gstarts ds.
Proof.
  induction ds as [|d rest IH]; intros tree contents; [reflexivity|].
  cbn [build_walk gstarts]. destruct (apply_delta d tree contents) as [tree' contents'].
  destruct rest as [|d2 rest']; [reflexivity|].
  destruct (d_start d2 =? d_start d); [apply IH|].
  specialize (IH tree' contents'). destruct (build_walk (d2 :: rest') tree' contents') as [t rs].
  cbn in *. f_equal. exact IH.
Qed.

Definition start_sorted (ds : list delta) : Prop := StronglySorted (fun a b => d_start a <= d_start b) ds.

Lemma sorted_start_sorted ds : StronglySorted delta_le ds -> start_sorted ds.
Proof.
  induction 1; constructor; [assumption|]. eapply Forall_impl; [|eassumption].
  intros b Hb. apply delta_le_spec in Hb. cbn. lia.
Qed.

Lemma gstarts_spec : forall ds, start_sorted ds ->
  StronglySorted Z.lt (gstarts ds) /\
  (forall s, In s (gstarts ds) <-> exists d, In d ds /\ d_start d = s) /\
  (forall s d, In s (gstarts ds) -> In d ds -> True) .
Proof.
  induction ds as [|d rest IH]; intros S.
  - cbn. split; [constructor|]. split; [|auto]. intros s. split; [intros []|intros (? & [] & _)].
  - inversion S as [|? ? S' F]; subst. destruct (IH S') as (I1 & I2 & _). cbn [gstarts].
    destruct rest as [|d2 rest'].
    + split; [repeat constructor|]. split; [|auto]. intros s. cbn. split.
      * intros [<-|[]]. exists d. auto.
      * intros (d' & [<-|[]] & E). left. exact E.
    + rewrite Forall_forall in F.
      destruct (Z.eqb_spec (d_start d2) (d_start d)) as [E|NE].
      * split; [exact I1|]. split; [|auto]. intros s. rewrite I2. split.
        -- intros (d' & Hin & E'). exists d'. split; [right; exact Hin|exact E'].
        -- intros (d' & [<-|Hin] & E'); [exists d2; split; [left; reflexivity|lia]|exists d'; auto].
      * split; [|split; [|auto]].
        -- constructor; [exact I1|]. rewrite Forall_forall. intros s Hs. apply I2 in Hs. destruct Hs as (d' & Hin & <-).
           pose proof (F d2 ltac:(left; reflexivity)) as H2. cbn in H2.
           inversion S' as [|? ? _ F2]; subst. rewrite Forall_forall in F2.
           destruct Hin as [<-|Hin]; [lia|]. specialize (F2 d' Hin). cbn in F2. lia.
        -- intros s. cbn [In]. rewrite I2. split.
           ++ intros [<-|(d' & Hin & E')]; [exists d; auto|exists d'; split; [right; exact Hin|exact E']].
           ++ intros (d' & [<-|Hin] & E'); [left; exact E'|right; exists d'; auto].
Qed.

(** * The pairs and their leaf ranges *)
Definition pair := (Z * Z)%type.
Definition p_open (a : pair) : Z := rmin (fst a).               (* first leaf *)
Definition p_close (a : pair) : Z := rmax (fst a) + 2.           (* leaf after the last one *)
Definition good_pair (a : pair) : Prop := valid (fst a) /\ 0 <= snd a.
Definition nested_pair (a b : pair) : Prop := nested_in (fst a) (fst b).

Lemma next_rmax c : valid c -> s2_CellID_Next (rmax c) = rmax c + 2.
Proof.
  intros V. pose proof (valid_range _ V) as (H0 & H1 & H2 & _ & L).
  assert (CF : cellform (rmax c) 0) by (unfold cellform; cbn; unfold leaf in L; lia).
  rewrite (next_form _ _ CF). reflexivity.
Qed.

Lemma first_leaf_eq : first_leaf = 1. Proof. reflexivity. Qed.
Lemma end_leaf_eq : end_leaf = 6 * 2 ^ 61 + 1. Proof. reflexivity. Qed.

Definition pushes (L : list delta) : list pair :=
  flat_map (fun d => if 0 <=? d_label d then [(d_cell d, d_label d)] else []) L.
Definition is_pop (q : Z) (d : delta) : bool := (d_label d <? 0) && (d_cell d =? SentinelCellID) && (d_start d =? q).
Definition closes_at (q : Z) (a : pair) : bool := p_close a =? q.

Lemma pushes_app L1 L2 : pushes (L1 ++ L2) = pushes L1 ++ pushes L2.
Proof. unfold pushes. apply flat_map_app. Qed.

Lemma deltas_of_eq a : good_pair a ->
  deltas_of a = [(p_open a, fst a, snd a); (p_close a, SentinelCellID, -1)].
Proof. intros [V _]. destruct a as [c l]. cbn [deltas_of fst snd p_open p_close]. rewrite (next_rmax c V). reflexivity. Qed.

Lemma pushes_flat adds : Forall good_pair adds -> pushes (flat_map deltas_of adds) = adds.
Proof.
  induction 1 as [|a l Ha Hl IH]; [reflexivity|].
  cbn [flat_map]. rewrite pushes_app, IH, (deltas_of_eq a Ha). unfold pushes. cbn [flat_map d_label d_cell fst snd app].
  destruct Ha as [_ Hl0]. destruct (Z.leb_spec 0 (snd a)); [|lia]. cbn. destruct a; reflexivity.
Qed.

Lemma pushes_all adds : Forall good_pair adds -> pushes (all_deltas adds) = adds.
Proof.
  intros H. unfold all_deltas. rewrite pushes_app, (pushes_flat adds H). cbn. apply app_nil_r.
Qed.

Lemma pops_flat adds q : Forall good_pair adds -> cnt (is_pop q) (flat_map deltas_of adds) = cnt (closes_at q) adds.
Proof.
  induction 1 as [|a l Ha Hl IH]; [reflexivity|].
  cbn [flat_map]. rewrite cnt_app, IH, (deltas_of_eq a Ha), !cnt_cons.
  unfold is_pop, closes_at. cbn [d_label d_cell d_start fst snd]. destruct Ha as [V Hl0].
  destruct (Z.ltb_spec (snd a) 0); [lia|]. cbn [andb]. rewrite Z.eqb_refl. cbn [andb Z.ltb Z.compare].
  change (cnt (fun d : delta => (d_label d <? 0) && (d_cell d =? SentinelCellID) && (d_start d =? q)) []) with 0%nat.
  destruct (p_close a =? q); lia.
Qed.

Lemma pops_all adds q : Forall good_pair adds -> cnt (is_pop q) (all_deltas adds) = cnt (closes_at q) adds.
Proof.
  intros H. unfold all_deltas. rewrite cnt_app, (pops_flat adds q H).
  replace (cnt (is_pop q) [(first_leaf, 0, -1); (end_leaf, 0, -1)]) with 0%nat by reflexivity. lia.
Qed.

Section Build.
  Variable adds : list pair.
  Hypothesis Hadds : Forall good_pair adds.

  Let AD := all_deltas adds.

  (** every delta is one of: a push of an added pair at its first leaf, a pop at a close, a no-op *)
  Lemma delta_kinds d : In d AD ->
    (exists a, In a adds /\ d = (p_open a, fst a, snd a)) \/
    (exists a, In a adds /\ d = (p_close a, SentinelCellID, -1)) \/
    d = (first_leaf, 0, -1) \/ d = (end_leaf, 0, -1).
  Proof.
    unfold AD, all_deltas. intros Hin. apply in_app_or in Hin. destruct Hin as [Hin|[<-|[<-|[]]]]; [|tauto|tauto].
    apply in_flat_map in Hin. destruct Hin as (a & Ha & Hd). pose proof Hadds as HA. rewrite Forall_forall in HA.
    rewrite (deltas_of_eq a (HA a Ha)) in Hd. destruct Hd as [<-|[<-|[]]]; [left|right; left]; exists a; auto.
  Qed.

  Lemma sentinel_big a : good_pair a -> 0 < fst a < SentinelCellID.
  Proof. intros [V _]. pose proof (valid_range _ V). unfold SentinelCellID. lia. Qed.

  Lemma open_lt_close a : good_pair a -> p_open a < p_close a.
  Proof. intros [V _]. pose proof (valid_le _ V). unfold p_open, p_close. lia. Qed.

  (** ** The sorted delta list and the walk invariant *)
  Variable D : list delta.
  Hypothesis HDperm : Permutation AD D.
  Hypothesis HDsort : StronglySorted delta_le D.

  Definition pairs_of (tree : list node) (stk : list Z) : list pair :=
    map (fun i => (n_cell (nth_node tree i), n_label (nth_node tree i))) stk.

  Inductive is_chain (tree : list node) : Z -> list Z -> Prop :=
  | chain_nil : is_chain tree (-1) []
  | chain_cons k s : 0 <= k < nlen tree -> is_chain tree (n_parent (nth_node tree k)) s -> is_chain tree k (k :: s).

  Definition tree_wf (tree : list node) : Prop :=
    forall i, 0 <= i < nlen tree -> -1 <= n_parent (nth_node tree i) < i.

  Record INV (P : list delta) (tree : list node) (contents : Z) (stk : list Z) (Popped : list pair) : Prop := {
    inv_wf : tree_wf tree;
    inv_chain : is_chain tree contents stk;
    inv_sorted : StronglySorted nested_pair (pairs_of tree stk);
    inv_perm : Permutation (pushes P) (pairs_of tree stk ++ Popped);
    inv_cnt : forall q, cnt (closes_at q) Popped = cnt (is_pop q) P
  }.

  Lemma nth_node_app tree ext i : 0 <= i < nlen tree -> nth_node (tree ++ ext) i = nth_node tree i.
  Proof.
    intros Hi. unfold nth_node, nthZ, nlen in *. destruct (Z.ltb_spec i 0); [lia|]. apply app_nth1. lia.
  Qed.
  Lemma nth_node_last tree nd : nth_node (tree ++ [nd]) (nlen tree) = nd.
  Proof.
    unfold nth_node, nthZ, nlen. destruct (Z.ltb_spec (Z.of_nat (length tree)) 0); [lia|].
    rewrite Nat2Z.id, app_nth2, Nat.sub_diag by lia. reflexivity.
  Qed.
  Lemma nlen_app tree ext : nlen (tree ++ ext) = nlen tree + nlen ext.
  Proof. unfold nlen. rewrite app_length. lia. Qed.

  Lemma is_chain_bound tree k s : is_chain tree k s -> -1 <= k < nlen tree /\ forall i, In i s -> 0 <= i < nlen tree.
  Proof.
    induction 1 as [|k s Hk Hc IH]; [split; [unfold nlen; lia|intros ? []]|].
    split; [lia|]. intros i [<-|Hi]; [lia|]. apply IH. exact Hi.
  Qed.
  Lemma is_chain_app tree ext k s : is_chain tree k s -> is_chain (tree ++ ext) k s.
  Proof.
    induction 1 as [|k s Hk Hc IH]; [constructor|]. constructor; [rewrite nlen_app; unfold nlen in *; lia|].
    rewrite nth_node_app by exact Hk. exact IH.
  Qed.
  Lemma is_chain_fun tree k s1 : is_chain tree k s1 -> forall s2, is_chain tree k s2 -> s1 = s2.
  Proof.
    induction 1 as [|k s Hk Hc IH]; intros s2 H2; inversion H2; subst; try lia; [reflexivity|]. f_equal. apply IH. assumption.
  Qed.
  Lemma pairs_of_app tree ext stk : (forall i, In i stk -> 0 <= i < nlen tree) -> pairs_of (tree ++ ext) stk = pairs_of tree stk.
  Proof.
    intros H. unfold pairs_of. apply map_ext_in. intros i Hi. rewrite nth_node_app by (apply H; exact Hi). reflexivity.
  Qed.
  Lemma chain_decreasing tree : tree_wf tree -> forall k s, is_chain tree k s -> forall i, In i s -> i <= k.
  Proof.
    intros W. induction 1 as [|k s Hk Hc IH]; intros i Hi; [destruct Hi|].
    destruct Hi as [<-|Hi]; [lia|]. specialize (IH i Hi). pose proof (W k Hk). lia.
  Qed.

  (** elements of a prefix are below, elements of the rest above *)
  Lemma split_sorted P d R : D = P ++ d :: R ->
    (forall x, In x P -> delta_le x d) /\ (forall y, In y R -> delta_le d y).
  Proof. intros E. rewrite E in HDsort. apply (SS_split' delta_le). exact HDsort. Qed.

  (** ** Accounting over a split D = P ++ R *)
  Lemma pushes_perm L L' : Permutation L L' -> Permutation (pushes L) (pushes L').
  Proof. unfold pushes. apply Permutation_flat_map. Qed.

  Lemma pushes_split P R : D = P ++ R -> Permutation adds (pushes P ++ pushes R).
  Proof.
    intros E. rewrite <- pushes_app, <- E, <- (pushes_all adds Hadds). apply pushes_perm. exact HDperm.
  Qed.

  Lemma pops_split P R q : D = P ++ R -> cnt (closes_at q) adds = (cnt (is_pop q) P + cnt (is_pop q) R)%nat.
  Proof.
    intros E. rewrite <- cnt_app, <- E, <- (pops_all adds q Hadds). apply cnt_perm. exact HDperm.
  Qed.

  Lemma in_pushes L a : In a (pushes L) <-> exists d, In d L /\ 0 <= d_label d /\ a = (d_cell d, d_label d).
  Proof.
    unfold pushes. rewrite in_flat_map. split.
    - intros (d & Hd & Ha). destruct (Z.leb_spec 0 (d_label d)); [|destruct Ha]. destruct Ha as [<-|[]]. exists d. auto.
    - intros (d & Hd & Hl & ->). exists d. split; [exact Hd|]. destruct (Z.leb_spec 0 (d_label d)); [left; reflexivity|lia].
  Qed.

  Lemma in_D d : In d D -> In d AD.
  Proof. apply Permutation_in. apply Permutation_sym. exact HDperm. Qed.

  Lemma push_delta_facts d : In d D -> 0 <= d_label d ->
    good_pair (d_cell d, d_label d) /\ d_start d = p_open (d_cell d, d_label d) /\ In (d_cell d, d_label d) adds.
  Proof.
    intros Hd Hl. pose proof Hadds as HA. rewrite Forall_forall in HA.
    destruct (delta_kinds d (in_D d Hd)) as [(a & Ha & ->)|[(a & Ha & ->)|[->| ->]]]; cbn in Hl; try lia.
    cbn [d_cell d_label d_start fst snd]. destruct a as [c l]. cbn [fst snd]. split; [apply (HA _ Ha)|]. split; [reflexivity|exact Ha].
  Qed.

  Lemma nonpush_kinds d : In d D -> d_label d < 0 ->
    (d_cell d = SentinelCellID /\ exists a, In a adds /\ p_close a = d_start d) \/ d_cell d = 0.
  Proof.
    intros Hd Hl. pose proof Hadds as HA. rewrite Forall_forall in HA.
    destruct (delta_kinds d (in_D d Hd)) as [(a & Ha & ->)|[(a & Ha & ->)|[->| ->]]]; cbn [d_cell d_label d_start fst snd] in *.
    - destruct (HA a Ha). lia.
    - left. split; [reflexivity|]. exists a. auto.
    - right; reflexivity.
    - right; reflexivity.
  Qed.

  (** the stack never holds a pair whose close position has been fully processed *)
  Lemma no_closed P R tree contents stk Popped q : D = P ++ R -> INV P tree contents stk Popped ->
    cnt (is_pop q) R = 0%nat -> forall a, In a (pairs_of tree stk) -> p_close a <> q.
  Proof.
    intros E I HR a Ha Hq.
    pose proof (cnt_perm (closes_at q) _ _ (pushes_split P R E)) as C1. rewrite cnt_app in C1.
    pose proof (cnt_perm (closes_at q) _ _ (inv_perm _ _ _ _ _ I)) as C2. rewrite cnt_app in C2.
    pose proof (pops_split P R q E) as C3. pose proof (inv_cnt _ _ _ _ _ I q) as C4.
    pose proof (cnt_in_pos (closes_at q) _ a Ha ltac:(unfold closes_at; lia)). lia.
  Qed.

  (** ** One delta *)
  Lemma step_inv P d R tree contents stk Popped : D = P ++ d :: R -> INV P tree contents stk Popped ->
    exists stk' Popped' ext,
      INV (P ++ [d]) (fst (apply_delta d tree contents)) (snd (apply_delta d tree contents)) stk' Popped' /\
      fst (apply_delta d tree contents) = tree ++ ext /\
      (forall i, In i stk' -> i < nlen tree -> In i stk).
  Proof.
    intros E I. destruct (split_sorted P d R E) as [HP HR].
    assert (HdD : In d D) by (rewrite E; apply in_or_app; right; left; reflexivity).
    destruct (is_chain_bound _ _ _ (inv_chain _ _ _ _ _ I)) as [Hcb Hsb].
    unfold apply_delta. destruct (Z.leb_spec 0 (d_label d)) as [Hl|Hl].
    - (* push *)
      destruct (push_delta_facts d HdD Hl) as (G & Hst & Hin).
      cbn [fst snd]. exists (nlen tree :: stk), Popped, [(d_cell d, d_label d, contents)].
      assert (Epairs : pairs_of (tree ++ [(d_cell d, d_label d, contents)]) (nlen tree :: stk) = (d_cell d, d_label d) :: pairs_of tree stk).
      { unfold pairs_of at 1. cbn [map]. rewrite nth_node_last. cbn [n_cell n_label fst snd]. f_equal.
        apply pairs_of_app. exact Hsb. }
      split; [|split; [reflexivity|]].
      + constructor.
        * intros i Hi. rewrite nlen_app in Hi. change (nlen [(d_cell d, d_label d, contents)]) with 1 in Hi.
          destruct (Z.eq_dec i (nlen tree)) as [->|Hne].
          -- rewrite nth_node_last. cbn [n_parent snd]. lia.
          -- rewrite nth_node_app by lia. apply (inv_wf _ _ _ _ _ I). lia.
        * constructor; [rewrite nlen_app; change (nlen [(d_cell d, d_label d, contents)]) with 1; unfold nlen; lia|].
          rewrite nth_node_last. cbn [n_parent snd]. apply is_chain_app. apply (inv_chain _ _ _ _ _ I).
        * rewrite Epairs. constructor; [apply (inv_sorted _ _ _ _ _ I)|].
          rewrite Forall_forall. intros u Hu.
          assert (HuP : In u (pushes P)).
          { apply (Permutation_in _ (Permutation_sym (inv_perm _ _ _ _ _ I))). apply in_or_app. left. exact Hu. }
          apply in_pushes in HuP. destruct HuP as (du & HduP & Hlu & ->).
          assert (HduD : In du D) by (rewrite E; apply in_or_app; left; exact HduP).
          destruct (push_delta_facts du HduD Hlu) as (Gu & Hstu & _).
          pose proof (HP du HduP) as Hle. apply delta_le_spec in Hle.
          unfold nested_pair. cbn [fst]. destruct G as [Vc _]. destruct Gu as [Vu _]. cbn [fst] in Vc, Vu.
          unfold p_open in Hst, Hstu. cbn [fst] in Hst, Hstu.
          assert (Hcase : rmin (d_cell du) < rmin (d_cell d) \/ (rmin (d_cell du) = rmin (d_cell d) /\ d_cell d <= d_cell du)) by lia.
          destruct Hcase as [Hlt|[Heq Hge]]; [|apply same_min_nested; auto].
          (* the earlier pair has not been closed yet *)
          assert (Hclose : p_close (d_cell du, d_label du) > rmin (d_cell d)).
          { destruct (Z_le_gt_dec (p_close (d_cell du, d_label du)) (rmin (d_cell d))) as [Hq|]; [exfalso|assumption].
            refine (no_closed P (d :: R) _ _ _ _ (p_close (d_cell du, d_label du)) E I _ _ Hu eq_refl).
            apply cnt_zero. intros y Hy. unfold is_pop.
            destruct (Z.ltb_spec (d_label y) 0); [|reflexivity].
            destruct (Z.eqb_spec (d_cell y) SentinelCellID); [|reflexivity].
            destruct (Z.eqb_spec (d_start y) (p_close (d_cell du, d_label du))); [|reflexivity]. exfalso.
            destruct Hy as [<-|Hy]; [lia|]. pose proof (HR y Hy) as Hy'. apply delta_le_spec in Hy'.
            pose proof (sentinel_big (d_cell d, d_label d) ltac:(split; [exact Vc|exact Hl])). cbn [fst] in H0. lia. }
          unfold p_close in Hclose. cbn [fst] in Hclose.
          pose proof (valid_range _ Vu) as (_ & Ru & _ & _ & Lu). pose proof (valid_range _ Vc) as (_ & Rc & _ & Lc & _).
          assert (rmin (d_cell d) <= rmax (d_cell du)).
          { destruct (Z_le_gt_dec (rmin (d_cell d)) (rmax (d_cell du))); [assumption|].
            pose proof (odd_gap _ _ Lc Lu ltac:(lia)). lia. }
          destruct (laminar (d_cell d) (d_cell du) Vc Vu) as [N|[N|[N|N]]]; unfold nested_in in *; lia.
        * rewrite pushes_app, Epairs. cbn [pushes flat_map]. destruct (Z.leb_spec 0 (d_label d)); [|lia]. cbn [app].
          apply Permutation_sym. apply Permutation_cons_app. rewrite app_nil_r. apply Permutation_sym. apply (inv_perm _ _ _ _ _ I).
        * intros q. rewrite cnt_app, (inv_cnt _ _ _ _ _ I q), (cnt_cons (is_pop q) d []).
          change (cnt (is_pop q) []) with 0%nat.
          assert (Hnp : is_pop q d = false) by (unfold is_pop; lia). rewrite Hnp. lia.
      + intros i [<-|Hi] Hlt; [lia|exact Hi].
    - destruct (Z.eqb_spec (d_cell d) SentinelCellID) as [Hs|Hs]; cbn [fst snd].
      + (* pop *)
        set (p := d_start d).
        assert (Hpopd : is_pop p d = true) by (unfold is_pop, p; lia).
        (* some pair on the stack closes at p *)
        assert (Hex : exists a, In a (pairs_of tree stk) /\ p_close a = p).
        { pose proof (cnt_perm (closes_at p) _ _ (pushes_split P (d :: R) E)) as C1. rewrite cnt_app in C1.
          pose proof (cnt_perm (closes_at p) _ _ (inv_perm _ _ _ _ _ I)) as C2. rewrite cnt_app in C2.
          pose proof (pops_split P (d :: R) p E) as C3. pose proof (inv_cnt _ _ _ _ _ I p) as C4.
          rewrite cnt_cons, Hpopd in C3.
          assert (C5 : cnt (closes_at p) (pushes (d :: R)) = 0%nat).
          { apply cnt_zero. intros a Ha. apply in_pushes in Ha. destruct Ha as (y & Hy & Hly & ->).
            destruct Hy as [<-|Hy]; [lia|].
            assert (HyD : In y D) by (rewrite E; apply in_or_app; right; right; exact Hy).
            destruct (push_delta_facts y HyD Hly) as (Gy & Hsty & _).
            pose proof (open_lt_close _ Gy). pose proof (HR y Hy) as Hy'. apply delta_le_spec in Hy'.
            unfold closes_at. fold p in Hy'. lia. }
          destruct (cnt_pos_ex (closes_at p) (pairs_of tree stk) ltac:(lia)) as (a & Ha & Hc).
          exists a. split; [exact Ha|]. unfold closes_at in Hc. lia. }
        destruct Hex as (a & Ha & Hca).
        destruct (inv_chain _ _ _ _ _ I) as [|k stk0 Hk Hc0]; [destruct Ha|].
        set (t := (n_cell (nth_node tree k), n_label (nth_node tree k))).
        assert (Et : pairs_of tree (k :: stk0) = t :: pairs_of tree stk0) by reflexivity.
        pose proof (inv_sorted _ _ _ _ _ I) as Ssorted. rewrite Et in Ssorted, Ha.
        apply StronglySorted_inv in Ssorted. destruct Ssorted as [Ssorted' Ft].
        assert (HtP : In t (pushes P)).
        { apply (Permutation_in _ (Permutation_sym (inv_perm _ _ _ _ _ I))). apply in_or_app. left. rewrite Et. left. reflexivity. }
        apply in_pushes in HtP. destruct HtP as (dt & HdtP & Hlt' & Etd).
        assert (HdtD : In dt D) by (rewrite E; apply in_or_app; left; exact HdtP).
        destruct (push_delta_facts dt HdtD Hlt') as (Gt & _). rewrite <- Etd in Gt.
        (* the top closes at p *)
        assert (Hct : p_close t = p).
        { assert (Hle : p_close t <= p).
          { destruct Ha as [<-|Ha]; [lia|]. rewrite Forall_forall in Ft. specialize (Ft a Ha).
            unfold nested_pair, nested_in, p_close in *. lia. }
          destruct (Z.eq_dec (p_close t) p) as [|Hne]; [assumption|exfalso].
          refine (no_closed P (d :: R) _ _ _ _ (p_close t) E I _ t ltac:(rewrite Et; left; reflexivity) eq_refl).
          apply cnt_zero. intros y Hy. unfold is_pop.
          destruct (Z.eqb_spec (d_start y) (p_close t)); [|lia]. exfalso.
          destruct Hy as [<-|Hy]; [fold p in e; lia|]. pose proof (HR y Hy) as Hy'. apply delta_le_spec in Hy'. fold p in Hy'. lia. }
        exists stk0, (t :: Popped), []. rewrite app_nil_r. split; [|split; [reflexivity|]].
        * constructor.
          -- apply (inv_wf _ _ _ _ _ I).
          -- exact Hc0.
          -- exact Ssorted'.
          -- rewrite pushes_app. cbn [pushes flat_map]. destruct (Z.leb_spec 0 (d_label d)); [lia|]. cbn [app]. rewrite app_nil_r.
             eapply Permutation_trans; [apply (inv_perm _ _ _ _ _ I)|]. rewrite Et. cbn [app]. apply Permutation_middle.
          -- intros q. rewrite cnt_app, cnt_cons, (inv_cnt _ _ _ _ _ I q). rewrite (cnt_cons (is_pop q) d []).
             change (cnt (is_pop q) []) with 0%nat.
             assert (Hpq : is_pop q d = closes_at q t) by (unfold is_pop, closes_at; fold p; rewrite Hct; lia).
             rewrite Hpq. destruct (closes_at q t); lia.
        * intros i Hi _. right. exact Hi.
      + (* no-op *)
        exists stk, Popped, []. rewrite app_nil_r. split; [|split; [reflexivity|auto]].
        constructor; try apply I.
        * rewrite pushes_app. cbn [pushes flat_map]. destruct (Z.leb_spec 0 (d_label d)); [lia|]. cbn [app]. rewrite app_nil_r. apply I.
        * intros q. rewrite cnt_app, (inv_cnt _ _ _ _ _ I q). rewrite (cnt_cons (is_pop q) d []). change (cnt (is_pop q) []) with 0%nat.
          assert (Hnp : is_pop q d = false) by (unfold is_pop; lia). rewrite Hnp. lia.
  Qed.

  (** ** Emission: at the end of the group of position p the stack is exactly the pairs open at p *)
  Definition open_at (p : Z) : list pair := filter (fun a => (p_open a <=? p) && (p <? p_close a)) adds.

  Lemma emission P R tree contents stk Popped p : D = P ++ R -> INV P tree contents stk Popped ->
    (forall x, In x P -> d_start x <= p) -> (forall y, In y R -> p < d_start y) ->
    Permutation (pairs_of tree stk) (open_at p).
  Proof.
    intros E I HP HR. unfold open_at. rewrite <- filter_filter.
    set (f := fun a : pair => p_open a <=? p). set (g := fun a : pair => p <? p_close a).
    assert (F1 : Permutation (filter f adds) (pushes P)).
    { eapply Permutation_trans; [apply Permutation_filter; apply (pushes_split P R E)|].
      rewrite filter_app, (filter_true f (pushes P)), (filter_false f (pushes R)), app_nil_r; [apply Permutation_refl| |].
      - intros a Ha. apply in_pushes in Ha. destruct Ha as (y & Hy & Hl & ->).
        assert (HyD : In y D) by (rewrite E; apply in_or_app; right; exact Hy).
        destruct (push_delta_facts y HyD Hl) as (_ & Hst & _). specialize (HR y Hy). unfold f. lia.
      - intros a Ha. apply in_pushes in Ha. destruct Ha as (y & Hy & Hl & ->).
        assert (HyD : In y D) by (rewrite E; apply in_or_app; left; exact Hy).
        destruct (push_delta_facts y HyD Hl) as (_ & Hst & _). specialize (HP y Hy). unfold f. lia. }
    assert (F2 : filter g (pairs_of tree stk) = pairs_of tree stk).
    { apply filter_true. intros a Ha. unfold g. destruct (Z.ltb_spec p (p_close a)) as [|Hle]; [reflexivity|exfalso].
      refine (no_closed P R _ _ _ _ (p_close a) E I _ a Ha eq_refl).
      apply cnt_zero. intros y Hy. unfold is_pop. specialize (HR y Hy). lia. }
    assert (F3 : filter g Popped = []).
    { apply filter_false. intros a Ha. unfold g.
      pose proof (cnt_in_pos (closes_at (p_close a)) Popped a Ha ltac:(unfold closes_at; lia)) as Hc.
      rewrite (inv_cnt _ _ _ _ _ I) in Hc. destruct (cnt_pos_ex _ _ Hc) as (y & Hy & Hpop).
      specialize (HP y Hy). unfold is_pop in Hpop. lia. }
    rewrite <- F2. eapply Permutation_trans; [|apply Permutation_filter; apply Permutation_sym; exact F1].
    eapply Permutation_trans; [|apply Permutation_filter; apply Permutation_sym; apply (inv_perm _ _ _ _ _ I)].
    rewrite filter_app, F3, app_nil_r. apply Permutation_refl.
  Qed.

  (** ** The whole walk *)
  Definition chain_mono (tf : list node) (rs : list rnode) : Prop :=
    forall rs1 rn rs2, rs = rs1 ++ rn :: rs2 -> forall rn', In rn' rs2 ->
    forall s s', is_chain tf (snd rn) s -> is_chain tf (snd rn') s' -> forall i, In i s' -> i <= snd rn -> In i s.

  Definition range_ok (tf : list node) (tree : list node) (stk : list Z) (rn : rnode) : Prop :=
    exists stk', is_chain tf (snd rn) stk' /\ StronglySorted nested_pair (pairs_of tf stk') /\
                 Permutation (pairs_of tf stk') (open_at (fst rn)) /\
                 (forall i, In i stk' -> i < nlen tree -> In i stk).

  Lemma build_walk_cons d rest tree contents :
    build_walk (d :: rest) tree contents =
    let tree' := fst (apply_delta d tree contents) in
    let contents' := snd (apply_delta d tree contents) in
    if match rest with d2 :: _ => d_start d2 =? d_start d | [] => false end
    then build_walk rest tree' contents'
    else (fst (build_walk rest tree' contents'), (d_start d, contents') :: snd (build_walk rest tree' contents')).
  Proof.
    cbn [build_walk]. destruct (apply_delta d tree contents) as [tree' contents']. cbn [fst snd].
    destruct rest as [|d2 rest']; [reflexivity|]. destruct (d_start d2 =? d_start d); [reflexivity|].
    destruct (build_walk (d2 :: rest') tree' contents'); reflexivity.
  Qed.

  Lemma walk_ok : forall R P tree contents stk Popped, D = P ++ R -> INV P tree contents stk Popped ->
    exists ext, fst (build_walk R tree contents) = tree ++ ext /\ tree_wf (tree ++ ext) /\
      Forall (range_ok (tree ++ ext) tree stk) (snd (build_walk R tree contents)) /\
      chain_mono (tree ++ ext) (snd (build_walk R tree contents)).
  Proof.
    induction R as [|d rest IH]; intros P tree contents stk Popped E I.
    - exists []. cbn. rewrite app_nil_r. split; [reflexivity|]. split; [apply I|]. split; [constructor|].
      intros rs1 rn rs2 E'. destruct rs1; discriminate.
    - destruct (step_inv P d rest tree contents stk Popped E I) as (stk' & Popped' & ext1 & I' & Et & Hdead).
      rewrite build_walk_cons. cbv zeta.
      set (tree' := fst (apply_delta d tree contents)) in *. set (contents' := snd (apply_delta d tree contents)) in *.
      assert (E' : D = (P ++ [d]) ++ rest) by (rewrite <- app_assoc; exact E).
      destruct (IH (P ++ [d]) tree' contents' stk' Popped' E' I') as (ext2 & Ef & Wf & Fr & Cm).
      exists (ext1 ++ ext2). rewrite app_assoc, <- Et.
      destruct (is_chain_bound _ _ _ (inv_chain _ _ _ _ _ I')) as [Hcb' Hsb'].
      assert (Hlen : nlen tree <= nlen tree') by (rewrite Et, nlen_app; unfold nlen; lia).
      assert (Fr' : Forall (range_ok (tree' ++ ext2) tree stk) (snd (build_walk rest tree' contents'))).
      { eapply Forall_impl; [|exact Fr]. intros rn (s' & H1 & H2 & H3 & H4). exists s'. repeat split; try assumption.
        intros i Hi Hlt. apply Hdead; [|exact Hlt]. apply H4; [exact Hi|lia]. }
      destruct (match rest with d2 :: _ => d_start d2 =? d_start d | [] => false end) eqn:Same.
      + split; [exact Ef|]. split; [exact Wf|]. split; [exact Fr'|exact Cm].
      + cbn [fst snd]. split; [exact Ef|]. split; [exact Wf|].
        destruct (split_sorted P d rest E) as [HP HR].
        (* the group of position d_start d is complete *)
        assert (HPle : forall x, In x (P ++ [d]) -> d_start x <= d_start d).
        { intros x Hx. apply in_app_or in Hx. destruct Hx as [Hx|[<-|[]]]; [|lia].
          specialize (HP x Hx). apply delta_le_spec in HP. lia. }
        assert (HRgt : forall y, In y rest -> d_start d < d_start y).
        { intros y Hy. destruct rest as [|d2 rest']; [destruct Hy|].
          assert (d_start d <= d_start d2) by (specialize (HR d2 ltac:(left; reflexivity)); apply delta_le_spec in HR; lia).
          assert (d_start d2 <> d_start d) by lia.
          destruct Hy as [<-|Hy]; [lia|].
          pose proof (sorted_start_sorted _ HDsort) as SS2. rewrite E in SS2.
          assert (SS3 : start_sorted (d2 :: rest')).
          { replace (P ++ d :: d2 :: rest') with ((P ++ [d]) ++ d2 :: rest') in SS2 by (rewrite <- app_assoc; reflexivity).
            apply (SS_suffix' _ (P ++ [d])). exact SS2. }
          apply StronglySorted_inv in SS3. destruct SS3 as [_ F3]. rewrite Forall_forall in F3. specialize (F3 y Hy). cbn in F3. lia. }
        pose proof (emission (P ++ [d]) rest tree' contents' stk' Popped' (d_start d) E' I' HPle HRgt) as Pm.
        assert (Hhead : range_ok (tree' ++ ext2) tree stk (d_start d, contents')).
        { exists stk'. cbn [fst snd]. rewrite (pairs_of_app tree' ext2 stk' Hsb').
          split; [apply is_chain_app; apply I'|]. split; [apply I'|]. split; [exact Pm|exact Hdead]. }
        split; [constructor; [exact Hhead|exact Fr']|].
        intros rs1 rn rs2 Ers rn' Hrn' s s' Hs Hs' i Hi Hle.
        destruct rs1 as [|r0 rs1]; cbn in Ers; injection Ers as E0 Ers.
        * subst rn rs2. cbn [snd] in *.
          rewrite Forall_forall in Fr. destruct (Fr rn' Hrn') as (s'' & H1 & _ & _ & H4).
          rewrite (is_chain_fun _ _ _ Hs' _ H1) in Hi.
          rewrite (is_chain_fun _ _ _ Hs _ (is_chain_app tree' ext2 _ _ (inv_chain _ _ _ _ _ I'))).
          apply H4; [exact Hi|lia].
        * apply (Cm rs1 rn rs2 Ers rn' Hrn' s s' Hs Hs' i Hi Hle).
  Qed.
End Build.
