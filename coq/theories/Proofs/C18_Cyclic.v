(** C18 — CanonicalFirstVertex / TurningAngle depend only on the cyclic vertex sequence.

    Rotation of the vertex list leaves TurningAngle bit-identical; inversion (list
    reversal) negates it exactly (given the float fact [curvature_clamp (-dir) st =
    opp (curvature_clamp dir st)], proved in C18_Float.v and taken as a premise here).

    [strict_order_on lt n V] is stated in its WEAKEST form: transitivity, asymmetry and
    totality are all restricted to the values [V i], [0 <= i < n]. *)
From Coq Require Import ZArith List Bool Lia ZifyBool Floats.
From Geo Require Import Base.GoPrim Gen.Area Model.LoopMeasures.
Import ListNotations.
Local Open Scope Z_scope.

(** * Generic helpers *)

Lemma zrange_up_snoc lo hi : lo <= hi -> zrange_up lo (hi + 1) = zrange_up lo hi ++ [hi].
Proof.
  intros H. unfold zrange_up.
  replace (Z.to_nat (hi + 1 - lo)) with (S (Z.to_nat (hi - lo))) by lia.
  rewrite seq_S, map_app. cbn [map]. f_equal. f_equal. lia.
Qed.

Lemma fold_left_ext2 {S T} (f g : S -> T -> S) (l : list T) :
  (forall a b, f a b = g a b) -> forall a0 b0, a0 = b0 -> fold_left f l a0 = fold_left g l b0.
Proof.
  intros Hfg. induction l as [|x l IH]; intros a0 b0 E; cbn [fold_left].
  - exact E.
  - apply IH. rewrite E. apply Hfg.
Qed.

Lemma mod_ex a n : 0 < n -> exists q, a mod n = a + q * n.
Proof.
  intros Hn. exists (- (a / n)). pose proof (Z.div_mod a n ltac:(lia)) as H. lia.
Qed.

Lemma mod_eq_ex a b n : 0 < n -> a mod n = b mod n -> exists q, a = b + q * n.
Proof.
  intros Hn E. exists (a / n - b / n).
  pose proof (Z.div_mod a n ltac:(lia)) as Ha. pose proof (Z.div_mod b n ltac:(lia)) as Hb. lia.
Qed.

Lemma cong_mod a b q n : a = b + q * n -> a mod n = b mod n.
Proof. intros ->. apply Z_mod_plus_full. Qed.

Lemma mod_shift_inv n i k : 0 < n -> 0 <= i < n -> ((i + k) mod n - k) mod n = i.
Proof.
  intros Hn Hi. rewrite Zminus_mod_idemp_l. replace (i + k - k) with i by lia.
  apply Z.mod_small; lia.
Qed.

(** Kahan accumulation of the turn angles along a vertex sequence [C] (j = 0 .. n-1) *)
Definition kahan_of {A} (turn : A -> A -> A -> float) (n : Z) (C : Z -> A) : float * float :=
  fold_left (fun st j => kahan_step st (turn (C (j - 1)) (C j) (C (j + 1))))
            (zrange_up 1 n) (turn (C (-1)) (C 0) (C 1), (0x0p+00)%float).

(** * Part 1: abstract vertex functions *)
Section Cyclic.
Context {A : Type} (lt : A -> A -> bool) (n : Z).

Definition periodic (V : Z -> A) : Prop := forall i, V (i mod n) = V i.

(** all three conjuncts restricted to the values [V i], [0 <= i < n] *)
Definition strict_order_on (V : Z -> A) : Prop :=
  (forall i j k, 0 <= i < n -> 0 <= j < n -> 0 <= k < n ->
     lt (V i) (V j) = true -> lt (V j) (V k) = true -> lt (V i) (V k) = true)
  /\ (forall i j, 0 <= i < n -> 0 <= j < n -> lt (V i) (V j) = true -> lt (V j) (V i) = false)
  /\ (forall i j, 0 <= i < n -> 0 <= j < n -> i <> j ->
        lt (V i) (V j) = true \/ lt (V j) (V i) = true).

Definition is_min (V : Z -> A) (f : Z) : Prop :=
  0 <= f < n /\ forall j, 0 <= j < n -> j <> f -> lt (V f) (V j) = true.

(** ** periodicity *)
Lemma periodic_add V : periodic V -> forall i q, V (i + q * n) = V i.
Proof. intros HP i q. rewrite <- (HP (i + q * n)), Z_mod_plus_full. apply HP. Qed.

Lemma periodic_cong V : periodic V -> forall a b q, a = b + q * n -> V a = V b.
Proof. intros HP a b q ->. apply periodic_add; exact HP. Qed.

Lemma periodic_succ V : periodic V -> forall i, V (i + n) = V i.
Proof. intros HP i. apply (periodic_cong V HP _ _ 1). lia. Qed.

Lemma periodic_of_succ V : 0 < n -> (forall i, V (i + n) = V i) -> periodic V.
Proof.
  intros Hn HS.
  assert (Hnat : forall (m : nat) i, V (i + Z.of_nat m * n) = V i).
  { induction m as [|m IH]; intros i.
    - f_equal. lia.
    - replace (i + Z.of_nat (S m) * n) with ((i + Z.of_nat m * n) + n) by lia.
      rewrite HS. apply IH. }
  intros i. destruct (mod_ex i n Hn) as [q Hq]. rewrite Hq.
  destruct (Z_le_gt_dec 0 q) as [Hq0|Hq0].
  - replace q with (Z.of_nat (Z.to_nat q)) by lia. apply Hnat.
  - rewrite <- (Hnat (Z.to_nat (- q)) (i + q * n)). f_equal. lia.
Qed.

Lemma periodic_shift V W k : periodic V -> (forall i, W i = V (i + k)) -> periodic W.
Proof.
  intros HP HW i. rewrite !HW. destruct (Z.eq_dec n 0) as [->|Hn].
  - rewrite Zmod_0_r. reflexivity.
  - assert (Hq : exists q, i mod n = i + q * n).
    { exists (- (i / n)). pose proof (Z.div_mod i n Hn). lia. }
    destruct Hq as [q Hq]. apply (periodic_cong V HP _ _ q). lia.
Qed.

Lemma periodic_reflect V W : periodic V -> (forall i, W i = V (n - 1 - i)) -> periodic W.
Proof.
  intros HP HW i. rewrite !HW. destruct (Z.eq_dec n 0) as [->|Hn].
  - rewrite Zmod_0_r. reflexivity.
  - assert (Hq : exists q, i mod n = i + q * n).
    { exists (- (i / n)). pose proof (Z.div_mod i n Hn). lia. }
    destruct Hq as [q Hq]. apply (periodic_cong V HP _ _ (- q)). lia.
Qed.

(** ** (1) cfv_first returns the strict minimum *)
Definition cfv_step (V : Z -> A) (f i : Z) : Z := if lt (V i) (V f) then i else f.

Lemma cfv_first_inv V : strict_order_on V -> forall (m : nat) f,
  1 + Z.of_nat m <= n ->
  f = fold_left (cfv_step V) (zrange_up 1 (1 + Z.of_nat m)) 0 ->
  0 <= f < 1 + Z.of_nat m /\
  forall j, 0 <= j < 1 + Z.of_nat m -> j <> f -> lt (V f) (V j) = true.
Proof.
  intros [Htr [Has Hto]] m. induction m as [|m IH]; intros f Hm Hf.
  - change (zrange_up 1 (1 + Z.of_nat 0)) with (@nil Z) in Hf. cbn [fold_left] in Hf. subst f.
    split; [lia|]. intros j Hj Hne. lia.
  - replace (1 + Z.of_nat (S m)) with ((1 + Z.of_nat m) + 1) in Hf by lia.
    rewrite zrange_up_snoc in Hf by lia. rewrite fold_left_app in Hf. cbn [fold_left] in Hf.
    remember (fold_left (cfv_step V) (zrange_up 1 (1 + Z.of_nat m)) 0) as f0 eqn:Ef0.
    destruct (IH f0 ltac:(lia) eq_refl) as [Hf0 Hmin].
    unfold cfv_step in Hf. destruct (lt (V (1 + Z.of_nat m)) (V f0)) eqn:E; subst f.
    + split; [lia|]. intros j Hj Hne.
      destruct (Z.eq_dec j f0) as [->|Hjf]; [exact E|].
      apply (Htr _ f0 _); [lia|lia|lia|exact E|]. apply Hmin; lia.
    + split; [lia|]. intros j Hj Hne.
      destruct (Z.eq_dec j (1 + Z.of_nat m)) as [->|Hjm].
      * destruct (Hto f0 (1 + Z.of_nat m)) as [H|H]; [lia|lia|lia|exact H|congruence].
      * apply Hmin; lia.
Qed.

Lemma cfv_first_spec V : 1 <= n -> strict_order_on V ->
  let f := cfv_first lt n V in
  0 <= f < n /\ forall j, 0 <= j < n -> j <> f -> lt (V f) (V j) = true.
Proof.
  intros Hn HS. cbv zeta.
  pose proof (cfv_first_inv V HS (Z.to_nat (n - 1)) (cfv_first lt n V)) as H.
  replace (1 + Z.of_nat (Z.to_nat (n - 1))) with n in H by lia.
  apply H; [lia|reflexivity].
Qed.

Lemma cfv_first_is_min V : 1 <= n -> strict_order_on V -> is_min V (cfv_first lt n V).
Proof. intros Hn HS. exact (cfv_first_spec V Hn HS). Qed.

(** ** (2) uniqueness of the strict minimum index *)
Lemma min_unique V f g : strict_order_on V -> is_min V f -> is_min V g -> f = g.
Proof.
  intros [_ [Has _]] [Hf Hfm] [Hg Hgm].
  destruct (Z.eq_dec f g) as [E|NE]; [exact E|exfalso].
  pose proof (Hfm g Hg ltac:(lia)) as H1. pose proof (Hgm f Hf NE) as H2.
  pose proof (Has f g Hf Hg H1) as H3. congruence.
Qed.

(** ** re-indexing by a bijection of [0,n) *)
Section Reindex.
Variables (V W : Z -> A) (sigma : Z -> Z).
Hypothesis Hr : forall i, 0 <= i < n -> 0 <= sigma i < n.
Hypothesis Hinj : forall i j, 0 <= i < n -> 0 <= j < n -> sigma i = sigma j -> i = j.
Hypothesis HW : forall i, 0 <= i < n -> W i = V (sigma i).

Lemma strict_order_reindex : strict_order_on V -> strict_order_on W.
Proof.
  intros [Htr [Has Hto]]. split; [|split].
  - intros i j k Hi Hj Hk. rewrite (HW i Hi), (HW j Hj), (HW k Hk). apply Htr; auto.
  - intros i j Hi Hj. rewrite (HW i Hi), (HW j Hj). apply Has; auto.
  - intros i j Hi Hj Hne. rewrite (HW i Hi), (HW j Hj). apply Hto; auto.
Qed.

Lemma cfv_first_reindex : 1 <= n -> strict_order_on V ->
  forall g, 0 <= g < n -> sigma g = cfv_first lt n V -> cfv_first lt n W = g.
Proof.
  intros Hn HS g Hg Eg.
  pose proof (strict_order_reindex HS) as HSW.
  apply (min_unique W _ _ HSW (cfv_first_is_min W Hn HSW)).
  split; [exact Hg|]. intros j Hj Hne.
  rewrite (HW g Hg), (HW j Hj), Eg.
  destruct (cfv_first_is_min V Hn HS) as [Hf Hmin].
  apply Hmin; [auto|]. rewrite <- Eg. intro E. apply Hne. apply Hinj; auto.
Qed.
End Reindex.

(** ** (3) shift *)
Section Shift.
Variables (V W : Z -> A) (k : Z).
Hypothesis Hn : 3 <= n.
Hypothesis HP : periodic V.
Hypothesis HS : strict_order_on V.
Hypothesis HW : forall i, W i = V (i + k).

Let sigma (i : Z) : Z := (i + k) mod n.

Lemma shift_range : forall i, 0 <= i < n -> 0 <= sigma i < n.
Proof. intros i Hi. unfold sigma. apply Z.mod_pos_bound. lia. Qed.

Lemma shift_inj : forall i j, 0 <= i < n -> 0 <= j < n -> sigma i = sigma j -> i = j.
Proof.
  intros i j Hi Hj E. unfold sigma in E.
  pose proof (mod_shift_inv n i k ltac:(lia) Hi) as Ei.
  pose proof (mod_shift_inv n j k ltac:(lia) Hj) as Ej. congruence.
Qed.

Lemma shift_W : forall i, 0 <= i < n -> W i = V (sigma i).
Proof. intros i _. unfold sigma. rewrite HP. apply HW. Qed.

Lemma strict_order_shift : strict_order_on W.
Proof. exact (strict_order_reindex V W sigma shift_range shift_inj shift_W HS). Qed.

Lemma cfv_first_shift : cfv_first lt n W = (cfv_first lt n V - k) mod n.
Proof.
  apply (cfv_first_reindex V W sigma shift_range shift_inj shift_W ltac:(lia) HS).
  - apply Z.mod_pos_bound. lia.
  - unfold sigma. rewrite Zplus_mod_idemp_l.
    replace (cfv_first lt n V - k + k) with (cfv_first lt n V) by lia.
    apply Z.mod_small. apply (cfv_first_is_min V ltac:(lia) HS).
Qed.

Lemma cfv_gen_shift :
  fst (cfv_gen lt n W) mod n = (fst (cfv_gen lt n V) - k) mod n
  /\ snd (cfv_gen lt n W) = snd (cfv_gen lt n V).
Proof.
  unfold cfv_gen. rewrite cfv_first_shift.
  set (fV := cfv_first lt n V).
  destruct (mod_ex (fV - k) n ltac:(lia)) as [q Hq].
  set (fW := (fV - k) mod n) in *.
  rewrite !HW.
  rewrite (periodic_cong V HP (fW + 1 + k) (fV + 1) q) by lia.
  rewrite (periodic_cong V HP (fW + n - 1 + k) (fV + n - 1) q) by lia.
  destruct (lt (V (fV + 1)) (V (fV + n - 1))); cbn [fst snd]; (split; [|reflexivity]).
  - apply (cong_mod _ _ q). lia.
  - apply (cong_mod _ _ q). lia.
Qed.
End Shift.

(** ** (4) reflection *)
Section Reflect.
Variables (V W : Z -> A).
Hypothesis Hn : 3 <= n.
Hypothesis HP : periodic V.
Hypothesis HS : strict_order_on V.
Hypothesis HW : forall i, W i = V (n - 1 - i).

Let sigma (i : Z) : Z := n - 1 - i.

Lemma strict_order_reflect : strict_order_on W.
Proof.
  apply (strict_order_reindex V W sigma); auto; unfold sigma; intros; lia.
Qed.

Lemma cfv_first_reflect : cfv_first lt n W = n - 1 - cfv_first lt n V.
Proof.
  pose proof (cfv_first_is_min V ltac:(lia) HS) as [Hf _].
  apply (cfv_first_reindex V W sigma); auto; unfold sigma; intros; lia.
Qed.

(** the two neighbours of the minimum are different vertices: exactly one of the two
    comparisons holds *)
Lemma neighbours_exclusive :
  let f := cfv_first lt n V in
  lt (V (f - 1)) (V (f + 1)) = negb (lt (V (f + 1)) (V (f - 1))).
Proof.
  cbv zeta. set (f := cfv_first lt n V).
  pose proof (cfv_first_is_min V ltac:(lia) HS) as [Hf _]. fold f in Hf.
  assert (Ha : exists ia, 0 <= ia < n /\ V ia = V (f + 1) /\ (ia = f + 1 \/ ia = f + 1 - n)).
  { destruct (Z_lt_dec (f + 1) n) as [H|H].
    - exists (f + 1). repeat split; try lia.
    - exists (f + 1 - n). repeat split; try lia. apply (periodic_cong V HP _ _ (-1)). lia. }
  assert (Hb : exists ib, 0 <= ib < n /\ V ib = V (f - 1) /\ (ib = f - 1 \/ ib = f - 1 + n)).
  { destruct (Z_le_dec 1 f) as [H|H].
    - exists (f - 1). repeat split; try lia.
    - exists (f - 1 + n). repeat split; try lia. apply (periodic_cong V HP _ _ 1). lia. }
  destruct Ha as [ia [Hia [Ea Hia']]]. destruct Hb as [ib [Hib [Eb Hib']]].
  rewrite <- Ea, <- Eb.
  destruct HS as [_ [Has Hto]].
  destruct (lt (V ia) (V ib)) eqn:E1.
  - cbn [negb]. apply Has; auto.
  - cbn [negb]. destruct (Hto ia ib Hia Hib ltac:(lia)) as [H|H]; congruence.
Qed.

Lemma cfv_gen_reflect :
  fst (cfv_gen lt n W) mod n = (n - 1 - fst (cfv_gen lt n V)) mod n
  /\ snd (cfv_gen lt n W) = - snd (cfv_gen lt n V).
Proof.
  pose proof neighbours_exclusive as HX. cbv zeta in HX.
  unfold cfv_gen. rewrite cfv_first_reflect.
  set (f := cfv_first lt n V) in *.
  rewrite !HW.
  rewrite (periodic_cong V HP (n - 1 - (n - 1 - f + 1)) (f - 1) 0) by lia.
  rewrite (periodic_cong V HP (n - 1 - (n - 1 - f + n - 1)) (f + 1) (-1)) by lia.
  rewrite (periodic_cong V HP (f + n - 1) (f - 1) 1) by lia.
  rewrite HX.
  destruct (lt (V (f + 1)) (V (f - 1))); cbn [negb fst snd]; (split; [|reflexivity]).
  - apply (cong_mod _ _ 1). lia.
  - apply (cong_mod _ _ 1). lia.
Qed.
End Reflect.

(** ** (5) canonical form of the turning angle *)
Definition canon_seq (V : Z -> A) : Z -> A :=
  let '(i0, dir) := cfv_gen lt n V in fun j => V (i0 + j * dir).


Lemma kahan_of_ext (turn : A -> A -> A -> float) (C C' : Z -> A) : (forall j, C j = C' j) -> kahan_of turn n C = kahan_of turn n C'.
Proof.
  intros E. unfold kahan_of. apply fold_left_ext2.
  - intros st j. rewrite !E. reflexivity.
  - rewrite !E. reflexivity.
Qed.

Lemma cfv_gen_dir V : snd (cfv_gen lt n V) = 1 \/ snd (cfv_gen lt n V) = -1.
Proof. unfold cfv_gen. destruct (lt _ _); cbn [snd]; auto. Qed.

Lemma turning_angle_gen_canon turn V : 3 <= n -> periodic V ->
  turning_angle_gen lt turn n V
  = curvature_clamp (snd (cfv_gen lt n V)) (kahan_of turn n (canon_seq V)).
Proof.
  intros Hn HP. unfold turning_angle_gen, canon_seq, kahan_of.
  destruct (n <? 3) eqn:E; [lia|].
  destruct (cfv_gen lt n V) as [i0 dir]. cbn [snd]. cbv beta zeta.
  f_equal. apply fold_left_ext2.
  - intros st j. f_equal. f_equal; f_equal; lia.
  - assert (E1 : V ((i0 + n - dir) mod n) = V (i0 + -1 * dir)).
    { rewrite HP. apply (periodic_cong V HP _ _ 1). lia. }
    assert (E2 : V i0 = V (i0 + 0 * dir)) by (f_equal; lia).
    assert (E3 : V ((i0 + dir) mod n) = V (i0 + 1 * dir)) by (rewrite HP; f_equal; lia).
    congruence.
Qed.

(** ** (6) the canonical sequence is invariant under shift and reflection *)
Lemma canon_seq_shift V W k : 3 <= n -> periodic V -> strict_order_on V ->
  (forall i, W i = V (i + k)) -> forall j, canon_seq W j = canon_seq V j.
Proof.
  intros Hn HP HS HW j.
  destruct (cfv_gen_shift V W k Hn HP HS HW) as [Hf Hs]. revert Hf Hs.
  unfold canon_seq.
  destruct (cfv_gen lt n W) as [iW dW]. destruct (cfv_gen lt n V) as [iV dV].
  cbn [fst snd]. intros Hf Hs. subst dW.
  apply mod_eq_ex in Hf; [|lia]. destruct Hf as [q Hq].
  rewrite HW. apply (periodic_cong V HP _ _ q). lia.
Qed.

Lemma canon_seq_reflect V W : 3 <= n -> periodic V -> strict_order_on V ->
  (forall i, W i = V (n - 1 - i)) -> forall j, canon_seq W j = canon_seq V j.
Proof.
  intros Hn HP HS HW j.
  destruct (cfv_gen_reflect V W Hn HP HS HW) as [Hf Hs]. revert Hf Hs.
  unfold canon_seq.
  destruct (cfv_gen lt n W) as [iW dW]. destruct (cfv_gen lt n V) as [iV dV].
  cbn [fst snd]. intros Hf Hs. subst dW.
  apply mod_eq_ex in Hf; [|lia]. destruct Hf as [q Hq].
  rewrite HW. apply (periodic_cong V HP _ _ (- q)). lia.
Qed.

Lemma turning_angle_gen_shift turn V W k : 3 <= n -> periodic V -> strict_order_on V ->
  (forall i, W i = V (i + k)) ->
  turning_angle_gen lt turn n W = turning_angle_gen lt turn n V.
Proof.
  intros Hn HP HS HW.
  rewrite (turning_angle_gen_canon turn W Hn (periodic_shift V W k HP HW)).
  rewrite (turning_angle_gen_canon turn V Hn HP).
  destruct (cfv_gen_shift V W k Hn HP HS HW) as [_ Hs]. rewrite Hs.
  f_equal. apply kahan_of_ext. apply (canon_seq_shift V W k); assumption.
Qed.

Lemma turning_angle_gen_reflect turn V W : 3 <= n -> periodic V -> strict_order_on V ->
  (forall i, W i = V (n - 1 - i)) ->
  turning_angle_gen lt turn n W
  = curvature_clamp (- snd (cfv_gen lt n V)) (kahan_of turn n (canon_seq V)).
Proof.
  intros Hn HP HS HW.
  rewrite (turning_angle_gen_canon turn W Hn (periodic_reflect V W HP HW)).
  destruct (cfv_gen_reflect V W Hn HP HS HW) as [_ Hs]. rewrite Hs.
  f_equal. apply kahan_of_ext. apply (canon_seq_reflect V W); assumption.
Qed.

End Cyclic.

Arguments periodic {A} n V.
Arguments strict_order_on {A} lt n V.
Arguments is_min {A} lt n V f.
Arguments canon_seq {A} lt n V _.

(** * Part 2: vertex lists *)
Definition rot {A} (k : nat) (vs : list A) : list A := skipn k vs ++ firstn k vs.

Lemma length_rot {A} (k : nat) (vs : list A) : length (rot k vs) = length vs.
Proof. unfold rot. rewrite app_length, skipn_length, firstn_length. lia. Qed.

Lemma length_rev {A} (vs : list A) : length (rev vs) = length vs.
Proof. apply rev_length. Qed.

Lemma nth_skipn' {A} : forall (k : nat) (l : list A) (i : nat) d,
  nth i (skipn k l) d = nth (k + i) l d.
Proof.
  induction k as [|k IH]; intros l i d; [reflexivity|].
  destruct l as [|x l].
  - cbn. destruct i; reflexivity.
  - cbn. apply IH.
Qed.

Lemma nth_firstn' {A} : forall (k : nat) (l : list A) (i : nat) d,
  (i < k)%nat -> nth i (firstn k l) d = nth i l d.
Proof.
  induction k as [|k IH]; intros l i d Hi; [lia|].
  destruct l as [|x l]; cbn [firstn]; [reflexivity|].
  destruct i as [|i]; cbn [nth]; [reflexivity|]. apply IH. lia.
Qed.

Lemma nthZ_nonneg {A} (l : list A) i d : 0 <= i -> nthZ l i d = nth (Z.to_nat i) l d.
Proof. intros Hi. unfold nthZ. destruct (i <? 0) eqn:E; [lia|reflexivity]. Qed.

Lemma nthZ_nil {A} i (d : A) : nthZ [] i d = d.
Proof. unfold nthZ. destruct (i <? 0); [reflexivity|]. destruct (Z.to_nat i); reflexivity. Qed.

Lemma vertex_periodic vs i : vertex vs (i mod Z.of_nat (length vs)) = vertex vs i.
Proof. unfold vertex. rewrite Zmod_mod. reflexivity. Qed.

Lemma vertex_is_periodic vs : periodic (Z.of_nat (length vs)) (vertex vs).
Proof. intros i. apply vertex_periodic. Qed.

Lemma vertex_rot vs k i : (k <= length vs)%nat ->
  vertex (rot k vs) i = vertex vs (i + Z.of_nat k).
Proof.
  intros Hk. unfold vertex. rewrite length_rot.
  destruct (Nat.eq_dec (length vs) 0) as [E0|N0].
  { apply length_zero_iff_nil in E0. subst vs. cbn [length] in Hk.
    assert (k = 0)%nat by lia. subst k. unfold rot. cbn [skipn firstn app].
    rewrite !nthZ_nil. reflexivity. }
  remember (Z.of_nat (length vs)) as n eqn:En. assert (Hn : 0 < n) by lia.
  pose proof (Z.mod_pos_bound i n Hn) as Hm. pose proof (Z.div_mod i n ltac:(lia)) as Hd.
  remember (i mod n) as m eqn:Em.
  pose proof (Z.mod_pos_bound (i + Z.of_nat k) n Hn) as Hm'.
  rewrite !nthZ_nonneg by lia. unfold rot.
  destruct (Z_lt_dec (m + Z.of_nat k) n) as [Hlt|Hge].
  - rewrite <- (Zmod_unique (i + Z.of_nat k) n (i / n) (m + Z.of_nat k)) by lia.
    rewrite app_nth1 by (rewrite skipn_length; lia).
    rewrite nth_skipn'. f_equal. lia.
  - rewrite <- (Zmod_unique (i + Z.of_nat k) n (i / n + 1) (m + Z.of_nat k - n)) by lia.
    rewrite app_nth2 by (rewrite skipn_length; lia).
    rewrite skipn_length. rewrite nth_firstn' by lia. f_equal. lia.
Qed.

Lemma vertex_rev vs i : vertex (rev vs) i = vertex vs (Z.of_nat (length vs) - 1 - i).
Proof.
  unfold vertex. rewrite rev_length.
  destruct (Nat.eq_dec (length vs) 0) as [E0|N0].
  { apply length_zero_iff_nil in E0. subst vs. cbn [rev]. rewrite !nthZ_nil. reflexivity. }
  remember (Z.of_nat (length vs)) as n eqn:En. assert (Hn : 0 < n) by lia.
  pose proof (Z.mod_pos_bound i n Hn) as Hm. pose proof (Z.div_mod i n ltac:(lia)) as Hd.
  remember (i mod n) as m eqn:Em.
  rewrite <- (Zmod_unique (n - 1 - i) n (- (i / n)) (n - 1 - m)) by lia.
  rewrite !nthZ_nonneg by lia. rewrite rev_nth by lia. f_equal. lia.
Qed.

(** * Part 3: loop-level theorems *)
Definition distinct_ordered (vs : list s2_Point) : Prop :=
  strict_order_on pt_lt (Z.of_nat (length vs)) (vertex vs).

Theorem canonical_first_vertex_rotate : forall vs k,
  (3 <= length vs)%nat -> (k <= length vs)%nat -> distinct_ordered vs ->
  let n := Z.of_nat (length vs) in
  fst (CanonicalFirstVertex (rot k vs)) mod n = (fst (CanonicalFirstVertex vs) - Z.of_nat k) mod n
  /\ snd (CanonicalFirstVertex (rot k vs)) = snd (CanonicalFirstVertex vs).
Proof.
  intros vs k H3 Hk HD. cbv zeta. unfold CanonicalFirstVertex. rewrite length_rot.
  apply cfv_gen_shift; [lia | apply vertex_is_periodic | exact HD |].
  intros i. apply vertex_rot. exact Hk.
Qed.

Theorem canonical_first_vertex_invert : forall vs,
  (3 <= length vs)%nat -> distinct_ordered vs ->
  let n := Z.of_nat (length vs) in
  fst (CanonicalFirstVertex (rev vs)) mod n = (n - 1 - fst (CanonicalFirstVertex vs)) mod n
  /\ snd (CanonicalFirstVertex (rev vs)) = - snd (CanonicalFirstVertex vs).
Proof.
  intros vs H3 HD. cbv zeta. unfold CanonicalFirstVertex. rewrite rev_length.
  apply cfv_gen_reflect; [lia | apply vertex_is_periodic | exact HD |].
  intros i. apply vertex_rev.
Qed.

Theorem turning_angle_rotate : forall rs l k,
  (3 <= length (lp_vs l))%nat -> (k <= length (lp_vs l))%nat -> distinct_ordered (lp_vs l) ->
  TurningAngle rs (mk_loop (rot k (lp_vs l)) (lp_origin_inside l) (lp_depth l) (lp_lng_len l))
  = TurningAngle rs l.
Proof.
  intros rs l k H3 Hk HD.
  assert (E : (Z.of_nat (length (lp_vs l)) =? 1) = false) by lia.
  unfold TurningAngle, is_empty_or_full, lp_n. cbn [lp_vs lp_origin_inside].
  rewrite length_rot, E.
  apply (turning_angle_gen_shift pt_lt _ (TurnAngle rs) (vertex (lp_vs l)) _ (Z.of_nat k));
    [lia | apply vertex_is_periodic | exact HD |].
  intros i. apply vertex_rot. exact Hk.
Qed.

Theorem turning_angle_invert_gen : forall rs l x,
  (3 <= length (lp_vs l))%nat -> distinct_ordered (lp_vs l) ->
  (forall dir st, dir = 1 \/ dir = -1 ->
     curvature_clamp (- dir) st = PrimFloat.opp (curvature_clamp dir st)) ->
  TurningAngle rs (Invert x l) = PrimFloat.opp (TurningAngle rs l).
Proof.
  intros rs l x H3 HD Hclamp.
  assert (E : (Z.of_nat (length (lp_vs l)) =? 1) = false) by lia.
  unfold TurningAngle, Invert, is_empty_or_full, lp_n. cbn [lp_vs lp_origin_inside].
  rewrite !E. rewrite rev_length, E.
  rewrite (turning_angle_gen_reflect pt_lt _ (TurnAngle rs) (vertex (lp_vs l)) (vertex (rev (lp_vs l))));
    [| lia | apply vertex_is_periodic | exact HD | intros i; apply vertex_rev].
  rewrite (turning_angle_gen_canon pt_lt _ (TurnAngle rs) (vertex (lp_vs l)));
    [| lia | apply vertex_is_periodic].
  apply Hclamp. apply cfv_gen_dir.
Qed.

Theorem turning_angle_invert_special : forall rs l x,
  length (lp_vs l) = 1%nat ->
  TurningAngle rs (Invert x l) = PrimFloat.opp (TurningAngle rs l).
Proof.
  intros rs l x H1. destruct l as [vs oi d ll]. cbn [lp_vs] in H1.
  unfold TurningAngle, Invert, is_empty_or_full, lp_n. cbn [lp_vs lp_origin_inside lp_depth].
  rewrite H1. destruct oi; vm_compute; reflexivity.
Qed.

(** [distinct_ordered] is satisfiable *)
Definition ex_vs : list s2_Point :=
  [ mk_s2_Point (mk_r3_Vector 1%float 0%float 0%float);
    mk_s2_Point (mk_r3_Vector 0%float 1%float 0%float);
    mk_s2_Point (mk_r3_Vector 0%float 0%float 1%float) ].

Ltac idx3 i := assert (i = 0 \/ i = 1 \/ i = 2) as [ -> | [ -> | -> ] ] by lia.

Example distinct_ordered_ex : distinct_ordered ex_vs.
Proof.
  unfold distinct_ordered, strict_order_on.
  change (Z.of_nat (length ex_vs)) with 3.
  split; [|split].
  - intros i j k Hi Hj Hk. idx3 i; idx3 j; idx3 k; vm_compute; intros; congruence.
  - intros i j Hi Hj. idx3 i; idx3 j; vm_compute; intros; congruence.
  - intros i j Hi Hj Hne. idx3 i; idx3 j; try congruence; vm_compute; auto.
Qed.
