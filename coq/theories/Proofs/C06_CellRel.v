(** C06 — Loop/Polygon.ContainsCell and IntersectsCell through the index: one-sided safety against
    a brute-force specification, under [index_ok] and the H-CLIP family. *)
From Coq Require Import ZArith List Bool Lia.
From Geo Require Import Base.GoPrim Model.Index Proofs.C06_Index Proofs.C06_IndexOk.
Import ListNotations.
Local Open Scope Z_scope.

Section CellRel.
  Variable point : Type.
  Variable pt_eqb : point -> point -> bool.
  Variable crossing_sign : point -> point -> point -> point -> crossing.
  Variable vertex_crossing : point -> point -> point -> point -> bool.
  Variable cell_center : Z -> point.
  Variable leaf_of_point : point -> Z.
  Variable approx_meets : point * point -> Z -> bool.
  (** the loop / polygon as a shape (its own index holds it as shape 0) and its reference point *)
  Variable s : qshape point.
  Variable ref : point.
  Variable ref_inside : bool.
  (** specification side: the exact geodesic edge meets the exact target cell *)
  Variable meets : point * point -> Z -> Prop.
  Variable idx : index.

  Let shapes := [s].
  Let ref_of (_ : Z) := ref.
  Let ref_inside_of (_ : Z) := ref_inside.

  Notation parity := (parity_crossings point crossing_sign vertex_crossing).
  Notation brute := (brute_contains point crossing_sign vertex_crossing).
  Notation ccell := (contains_cell point crossing_sign vertex_crossing cell_center approx_meets).
  Notation icell := (intersects_cell point crossing_sign vertex_crossing cell_center approx_meets).

  Hypothesis Hdim : q_dim s = 2.
  Hypothesis Hok : index_ok point crossing_sign vertex_crossing cell_center shapes ref_of ref_inside_of idx.
  Hypothesis HJ : H_JORDAN point crossing_sign vertex_crossing shapes ref_of.
  Hypothesis HC : H_CLIP point crossing_sign vertex_crossing cell_center leaf_of_point shapes idx.
  Hypothesis HCov : H_COVER point crossing_sign vertex_crossing leaf_of_point shapes ref_of ref_inside_of idx.
  (** the centre of a cell lies in the cell (C12) *)
  Hypothesis H_CENTER_LEAF : forall T, 0 < T -> in_cell T (leaf_of_point (cell_center T)).
  (** H-CLIP for boundaryApproxIntersects: the padded clipping test never misses an edge that meets the target *)
  Hypothesis H_CLIP_APPROX : forall e T, In e (q_edges s) -> meets e T -> approx_meets e T = true.
  (** completeness: an edge meeting a target inside index cell [pos] meets that cell, hence is listed there *)
  Hypothesis H_COMPLETE_NESTED : forall pos e T, 0 <= pos < lenZ idx ->
    range_min (cell_id idx pos) <= range_min T -> range_max T <= range_max (cell_id idx pos) ->
    In e (q_edges s) -> meets e T -> In e (listed point shapes idx pos 0).
  (** coverage: every edge lies in index cells, so a target disjoint from all of them meets no edge *)
  Hypothesis H_COVER_CELL : forall T,
    (forall pos, 0 <= pos < lenZ idx ->
       range_max (cell_id idx pos) < range_min T \/ range_max T < range_min (cell_id idx pos)) ->
    forall e, In e (q_edges s) -> ~ meets e T.

  Lemma icp_is_parity cl center p :
    iterator_contains_point point crossing_sign vertex_crossing s cl center p =
    xorb (cl_containsCenter cl) (parity center p (edges_of point s (cl_edges cl))).
  Proof.
    unfold iterator_contains_point. destruct (lenZ (cl_edges cl) =? 0) eqn:E.
    - apply Z.eqb_eq in E. unfold lenZ in E. destruct (cl_edges cl); [|cbn in E; lia].
      cbn. rewrite xorb_false_r. reflexivity.
    - apply (parity_acc point crossing_sign vertex_crossing).
  Qed.

  (** the centre containment computed in an index cell holding the target is brute force *)
  Lemma icp_eq_brute pos cl T : 0 < T -> 0 <= pos < lenZ idx ->
    range_min (cell_id idx pos) <= range_min T -> range_max T <= range_max (cell_id idx pos) ->
    entry idx pos 0 = Some cl ->
    iterator_contains_point point crossing_sign vertex_crossing s cl (cell_center (cell_id idx pos)) (cell_center T) =
    brute s ref ref_inside (cell_center T).
  Proof.
    intros HT Hpos Hlo Hhi He. rewrite icp_is_parity.
    assert (0 <= 0 < lenZ shapes) as Hsid by (cbn; lia).
    pose proof (ok_center _ _ _ _ _ _ _ _ Hok pos 0 Hpos Hsid) as H1. rewrite He in H1.
    assert (in_cell (cell_id idx pos) (leaf_of_point (cell_center T))) as Hin.
    { pose proof (H_CENTER_LEAF T HT) as Hc. unfold in_cell in *. lia. }
    pose proof (HC pos 0 (cell_center T) Hpos Hsid Hin Hdim) as Hclip.
    unfold listed in Hclip. rewrite He in Hclip.
    pose proof (HJ 0 (cell_center (cell_id idx pos)) (cell_center T) Hsid Hdim) as Hj.
    change (nth_shape point shapes 0) with s in *. unfold ref_of, ref_inside_of in *.
    unfold brute_contains in *. rewrite Hdim in *. cbn [Z.eqb Pos.eqb negb] in *.
    rewrite H1, <- Hclip, <- Hj, xorb_assoc. reflexivity.
  Qed.

  Lemma bai_false_no_edge pos cl T : 0 <= pos < lenZ idx ->
    range_min (cell_id idx pos) <= range_min T -> range_max T <= range_max (cell_id idx pos) ->
    entry idx pos 0 = Some cl ->
    boundary_approx_intersects point approx_meets s cl (cell_id idx pos) T = false ->
    forall e, In e (q_edges s) -> ~ meets e T.
  Proof.
    intros Hpos Hlo Hhi He Hb e Hin Hm.
    pose proof (H_COMPLETE_NESTED pos e T Hpos Hlo Hhi Hin Hm) as Hl.
    unfold listed in Hl. rewrite He in Hl. change (nth_shape point shapes 0) with s in Hl.
    unfold boundary_approx_intersects in Hb.
    destruct (lenZ (cl_edges cl) =? 0) eqn:E0.
    - apply Z.eqb_eq in E0. unfold lenZ in E0. destruct (cl_edges cl); [contradiction|cbn in E0; lia].
    - destruct (cell_id idx pos =? T); [discriminate|].
      assert (existsb (fun e0 => approx_meets e0 T) (edges_of point s (cl_edges cl)) = true) as Hex.
      { apply existsb_exists. exists e. split; [exact Hl|apply H_CLIP_APPROX; assumption]. }
      congruence.
  Qed.

  Lemma locate_Indexed T pos : 0 < T -> locate_cellid (cell_ids idx) T = Indexed pos ->
    0 <= pos < lenZ idx /\ range_min (cell_id idx pos) <= range_min T /\ range_max T <= range_max (cell_id idx pos).
  Proof.
    intros HT Hl. pose proof (locate_cellid_spec (cell_ids idx) T (ok_cells _ _ _ _ _ _ _ _ Hok) HT) as Hs.
    rewrite Hl in Hs. rewrite cell_ids_len, cell_ids_nth in Hs. exact Hs.
  Qed.

  (** ContainsCell = true  ==>  no edge meets the cell and its centre is inside *)
  Theorem contains_cell_safe T : 0 < T -> ccell s idx T = Some true ->
    (forall e, In e (q_edges s) -> ~ meets e T) /\ brute s ref ref_inside (cell_center T) = true.
  Proof.
    intros HT H. unfold contains_cell in H.
    destruct (locate_cellid (cell_ids idx) T) as [pos|pos|] eqn:El; try discriminate.
    destruct (locate_Indexed T pos HT El) as (Hpos & Hlo & Hhi).
    pose proof (eq_refl : cell_id idx pos = fst (nth_cell idx pos)) as Hid.
    pose proof (eq_refl : entry idx pos 0 = find_by_shape (snd (nth_cell idx pos)) 0) as Hent.
    destruct (nth_cell idx pos) as [id cell]. cbn [fst snd] in *.
    destruct (find_by_shape cell 0) as [cl|]; [|discriminate].
    rewrite <- Hid in H.
    destruct (boundary_approx_intersects point approx_meets s cl (cell_id idx pos) T) eqn:Eb; [discriminate|].
    injection H as Hicp. split.
    - apply (bai_false_no_edge pos cl T); assumption.
    - rewrite <- (icp_eq_brute pos cl T) by assumption. exact Hicp.
  Qed.

  (** IntersectsCell = false  ==>  no edge meets the cell and its centre is outside *)
  Theorem intersects_cell_safe T : 0 < T -> icell s idx T = Some false ->
    (forall e, In e (q_edges s) -> ~ meets e T) /\ brute s ref ref_inside (cell_center T) = false.
  Proof.
    intros HT H. unfold intersects_cell in H.
    destruct (locate_cellid (cell_ids idx) T) as [pos|pos|] eqn:El; try discriminate.
    - destruct (locate_Indexed T pos HT El) as (Hpos & Hlo & Hhi).
      pose proof (eq_refl : cell_id idx pos = fst (nth_cell idx pos)) as Hid.
      pose proof (eq_refl : entry idx pos 0 = find_by_shape (snd (nth_cell idx pos)) 0) as Hent.
      destruct (nth_cell idx pos) as [id cell]. cbn [fst snd] in *.
      destruct (id =? T); [discriminate|].
      destruct (find_by_shape cell 0) as [cl|]; [|discriminate].
      rewrite <- Hid in H.
      destruct (boundary_approx_intersects point approx_meets s cl (cell_id idx pos) T) eqn:Eb; [discriminate|].
      injection H as Hicp. split.
      + apply (bai_false_no_edge pos cl T); assumption.
      + rewrite <- (icp_eq_brute pos cl T) by assumption. exact Hicp.
    - (* Disjoint *)
      pose proof (locate_cellid_spec (cell_ids idx) T (ok_cells _ _ _ _ _ _ _ _ Hok) HT) as Hs.
      rewrite El in Hs.
      assert (forall pos, 0 <= pos < lenZ idx ->
                range_max (cell_id idx pos) < range_min T \/ range_max T < range_min (cell_id idx pos)) as Hd.
      { intros pos Hpos. specialize (Hs pos). rewrite cell_ids_len, cell_ids_nth in Hs. apply Hs; exact Hpos. }
      split; [apply H_COVER_CELL; exact Hd|].
      apply (HCov (cell_center T) 0); [cbn; lia|].
      intros pos Hpos Hin. pose proof (H_CENTER_LEAF T HT) as Hc. specialize (Hd pos Hpos).
      unfold in_cell in *. lia.
  Qed.
End CellRel.

(** no nil dereference: in the index of a single shape every cell has the entry of shape 0 *)
Theorem cell_relations_total (point : Type) crossing_sign vertex_crossing cell_center approx_meets
        (s : qshape point) (n : Z) (idx : index) (T : Z) :
  index_ok_struct [n] idx -> 0 < T ->
  contains_cell point crossing_sign vertex_crossing cell_center approx_meets s idx T <> None /\
  intersects_cell point crossing_sign vertex_crossing cell_center approx_meets s idx T <> None.
Proof.
  intros Hst HT.
  assert (forall pos, 0 <= pos < lenZ idx -> find_by_shape (snd (nth_cell idx pos)) 0 <> None) as Hfind.
  { intros pos Hpos Hn. destruct (st_cell _ _ Hst pos Hpos) as (Hne & _).
    destruct (snd (nth_cell idx pos)) as [|cl t] eqn:E; [congruence|].
    unfold find_by_shape in Hn. pose proof (find_none _ _ Hn cl (or_introl eq_refl)) as Hf.
    destruct (st_clipped _ _ Hst pos cl Hpos) as (Hs & _); [rewrite E; left; reflexivity|].
    cbn in Hs. apply Z.eqb_neq in Hf. lia. }
  pose proof (locate_cellid_spec (cell_ids idx) T (index_ok_struct_cells_ok _ _ Hst) HT) as Hs.
  unfold contains_cell, intersects_cell.
  destruct (locate_cellid (cell_ids idx) T) as [pos|pos|]; try (split; discriminate).
  rewrite cell_ids_len in Hs. destruct Hs as (Hpos & _).
  specialize (Hfind pos Hpos). destruct (nth_cell idx pos) as [id cell]. cbn [snd] in Hfind.
  destruct (find_by_shape cell 0); [|congruence].
  split.
  - destruct (boundary_approx_intersects _ _ _ _ _ _); discriminate.
  - destruct (id =? T); [discriminate|]. destruct (boundary_approx_intersects _ _ _ _ _ _); discriminate.
Qed.

(** * The named premises, and the theorems in the form stated in Props/C06.v *)
Definition H_CENTER_LEAF {point} (cell_center : Z -> point) (leaf_of_point : point -> Z) : Prop :=
  forall T, 0 < T -> in_cell T (leaf_of_point (cell_center T)).
Definition H_CLIP_APPROX {point} (approx_meets : point * point -> Z -> bool) (s : qshape point)
           (meets : point * point -> Z -> Prop) : Prop :=
  forall e T, In e (q_edges s) -> meets e T -> approx_meets e T = true.
Definition H_COMPLETE_NESTED {point} (s : qshape point) (meets : point * point -> Z -> Prop) (idx : index) : Prop :=
  forall pos e T, 0 <= pos < lenZ idx ->
    range_min (cell_id idx pos) <= range_min T -> range_max T <= range_max (cell_id idx pos) ->
    In e (q_edges s) -> meets e T -> In e (listed point [s] idx pos 0).
Definition H_COVER_CELL {point} (s : qshape point) (meets : point * point -> Z -> Prop) (idx : index) : Prop :=
  forall T,
    (forall pos, 0 <= pos < lenZ idx ->
       range_max (cell_id idx pos) < range_min T \/ range_max T < range_min (cell_id idx pos)) ->
    forall e, In e (q_edges s) -> ~ meets e T.

Theorem contains_cell_one_sided :
  forall (point : Type) (crossing_sign : point -> point -> point -> point -> crossing)
         (vertex_crossing : point -> point -> point -> point -> bool) (cell_center : Z -> point)
         (leaf_of_point : point -> Z) (approx_meets : point * point -> Z -> bool)
         (s : qshape point) (ref : point) (ref_inside : bool) (meets : point * point -> Z -> Prop) (idx : index),
  q_dim s = 2 ->
  index_ok point crossing_sign vertex_crossing cell_center [s] (fun _ => ref) (fun _ => ref_inside) idx ->
  H_JORDAN point crossing_sign vertex_crossing [s] (fun _ => ref) ->
  H_CLIP point crossing_sign vertex_crossing cell_center leaf_of_point [s] idx ->
  H_CENTER_LEAF cell_center leaf_of_point -> H_CLIP_APPROX approx_meets s meets -> H_COMPLETE_NESTED s meets idx ->
  forall T, 0 < T ->
  contains_cell point crossing_sign vertex_crossing cell_center approx_meets s idx T = Some true ->
  (forall e, In e (q_edges s) -> ~ meets e T) /\
  brute_contains point crossing_sign vertex_crossing s ref ref_inside (cell_center T) = true.
Proof. exact contains_cell_safe. Qed.

Theorem intersects_cell_one_sided :
  forall (point : Type) (crossing_sign : point -> point -> point -> point -> crossing)
         (vertex_crossing : point -> point -> point -> point -> bool) (cell_center : Z -> point)
         (leaf_of_point : point -> Z) (approx_meets : point * point -> Z -> bool)
         (s : qshape point) (ref : point) (ref_inside : bool) (meets : point * point -> Z -> Prop) (idx : index),
  q_dim s = 2 ->
  index_ok point crossing_sign vertex_crossing cell_center [s] (fun _ => ref) (fun _ => ref_inside) idx ->
  H_JORDAN point crossing_sign vertex_crossing [s] (fun _ => ref) ->
  H_CLIP point crossing_sign vertex_crossing cell_center leaf_of_point [s] idx ->
  H_COVER point crossing_sign vertex_crossing leaf_of_point [s] (fun _ => ref) (fun _ => ref_inside) idx ->
  H_CENTER_LEAF cell_center leaf_of_point -> H_CLIP_APPROX approx_meets s meets -> H_COMPLETE_NESTED s meets idx ->
  H_COVER_CELL s meets idx ->
  forall T, 0 < T ->
  intersects_cell point crossing_sign vertex_crossing cell_center approx_meets s idx T = Some false ->
  (forall e, In e (q_edges s) -> ~ meets e T) /\
  brute_contains point crossing_sign vertex_crossing s ref ref_inside (cell_center T) = false.
Proof. exact intersects_cell_safe. Qed.

(** * Both directions for an edge-free index cell queried exactly: when the target IS index cell
      [pos] and that cell lists no edge of the shape, ContainsCell is exactly "the centre is
      inside" (brute force) and IntersectsCell is true. (The seeded change C06-mut4 - the
      id shortcut of boundaryApproxIntersects moved before the no-edges test - breaks this.) *)
Lemma locate_own_cell cells pos : cells_ok cells -> 0 <= pos < lenZ cells ->
  locate_cellid cells (nthZ cells pos 0) = Indexed pos.
Proof.
  intros Hok Hpos. pose proof Hok as (Hv & Hd).
  pose proof (Hv pos Hpos) as Hvp. pose proof (range_bounds _ (proj1 Hvp)) as Hb.
  pose proof (locate_cellid_spec cells (nthZ cells pos 0) Hok ltac:(lia)) as Hs.
  destruct (locate_cellid cells (nthZ cells pos 0)) as [k|k|].
  - destruct Hs as (Hk & Hlo & Hhi). f_equal.
    destruct (Z.lt_trichotomy k pos) as [L|[E|L]]; [exfalso|exact E|exfalso].
    + specialize (Hd k pos ltac:(lia) ltac:(lia)). lia.
    + specialize (Hd pos k ltac:(lia) ltac:(lia)). lia.
  - exfalso. destruct Hs as (Hk & Hlo & Hhi & Hne & _).
    pose proof (range_bounds _ (proj1 (Hv k Hk))) as Hbk.
    destruct (Z.lt_trichotomy k pos) as [L|[E|L]].
    + specialize (Hd k pos ltac:(lia) ltac:(lia)). lia.
    + subst k. apply Hne. reflexivity.
    + specialize (Hd pos k ltac:(lia) ltac:(lia)). lia.
  - exfalso. specialize (Hs pos Hpos). lia.
Qed.

Theorem cell_relations_edge_free :
  forall (point : Type) (crossing_sign : point -> point -> point -> point -> crossing)
         (vertex_crossing : point -> point -> point -> point -> bool) (cell_center : Z -> point)
         (approx_meets : point * point -> Z -> bool)
         (s : qshape point) (ref : point) (ref_inside : bool) (idx : index) (pos : Z) (cl : clipped),
  index_ok point crossing_sign vertex_crossing cell_center [s] (fun _ => ref) (fun _ => ref_inside) idx ->
  0 <= pos < lenZ idx -> entry idx pos 0 = Some cl -> cl_edges cl = [] ->
  contains_cell point crossing_sign vertex_crossing cell_center approx_meets s idx (cell_id idx pos) =
    Some (brute_contains point crossing_sign vertex_crossing s ref ref_inside (cell_center (cell_id idx pos))) /\
  intersects_cell point crossing_sign vertex_crossing cell_center approx_meets s idx (cell_id idx pos) = Some true.
Proof.
  intros point crossing_sign vertex_crossing cell_center approx_meets s ref ref_inside idx pos cl Hok Hpos He Hnil.
  pose proof (ok_cells _ _ _ _ _ _ _ _ Hok) as Hcells.
  pose proof (locate_own_cell (cell_ids idx) pos Hcells ltac:(rewrite cell_ids_len; exact Hpos)) as Hl.
  rewrite cell_ids_nth in Hl.
  pose proof (ok_center _ _ _ _ _ _ _ _ Hok pos 0 Hpos ltac:(cbn; lia)) as H1. rewrite He in H1.
  unfold contains_cell, intersects_cell. rewrite Hl.
  unfold cell_id, entry in *. destruct (nth_cell idx pos) as [id cell]. cbn [fst snd] in *.
  rewrite He. rewrite Z.eqb_refl.
  unfold boundary_approx_intersects, iterator_contains_point. rewrite Hnil. cbn [lenZ length Z.of_nat Z.eqb].
  split; [|reflexivity]. f_equal. exact H1.
Qed.
