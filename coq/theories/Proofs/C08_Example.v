(** C08 — the premises of the search theorems are satisfiable: a concrete index, target and
    option set on which every field of [SearchPremises] and [Terminates] holds. *)
From Coq Require Import ZArith List Bool Lia.
From Geo Require Import Model.EdgeQuery Proofs.C05_CellFacts Proofs.C08_Post Proofs.C08_Opt Proofs.C08_Heap Proofs.C08_Main Proofs.C08_Refute
  Proofs.C08_Cells Proofs.C08_Split Proofs.C08_Term Proofs.C08_Cover Proofs.C08_Cleanup Proofs.C08_Approx Proofs.C08_Final.
Import ListNotations.
Local Open Scope Z_scope.

Lemma zops_ok : DistOK zops.
Proof.
  split; cbn.
  - intros a b. apply Z.eqb_eq.
  - intros a. apply Z.ltb_irrefl.
  - intros a b c H1 H2. apply Z.ltb_lt in H1, H2. apply Z.ltb_lt. lia.
  - intros a b H1 H2. apply Z.ltb_ge in H1, H2. lia.
Qed.

(** two index cells (children 0 and 1 of face 0), one edge each; the search cap's covering
    always contains both cells *)
Definition ex_target : target Z :=
  mkTarget (fun e lim => if dist2 e <? lim then Some (dist2 e) else None)
           (fun c lim => if 0 <? lim then Some 0 else None)
           false 0 [] false 1 (fun _ => [2 ^ 58; 3 * 2 ^ 58]).
Definition ex_opts : options Z := mkOptions 2 (10 ^ 9) 1 true false.
Definition ex_vq (q : Z) : Prop := q = 2 ^ 58 \/ q = 3 * 2 ^ 58.

Lemma ex_in_index e : in_index idx2 e <-> (e = (0, 0) \/ e = (0, 1)).
Proof.
  unfold in_index, idx2. cbn. split.
  - intros (c & [ <- | [ <- | [] ] ] & He); cbn in He; intuition.
  - intros [ -> | -> ]; [exists (2 ^ 58, [(0, 0)])|exists (3 * 2 ^ 58, [(0, 1)])]; cbn; intuition.
Qed.

Example premises_satisfiable :
  SearchPremises Z zops ex_opts ex_target idx2 false dist2 (fun _ => 0) ex_vq /\
  Terminates Z zops ex_opts ex_target idx2 false /\
  used_optimized zops ex_opts ex_target idx2 false false = true.
Proof.
  split; [|split; [vm_compute; reflexivity|vm_compute; reflexivity]].
  split.
  - split; intros; reflexivity.
  - intros d. cbn. apply Z.ltb_ge. lia.
  - intros ce c e _ Hc _ He. cbn.
    assert (Hi : in_index idx2 e) by (exists c; auto).
    apply ex_in_index in Hi. destruct Hi as [ -> | -> ]; reflexivity.
  - intros q Hq (c & Hc & [[_ H]|(_ & H1 & H2)]); [cbn in H; discriminate|]. exfalso. cbn [fst] in H1, H2.
    destruct Hq as [ -> | -> ]; destruct Hc as [ <- | [ <- | [] ] ]; cbn [fst] in H1, H2;
      try (apply H2; reflexivity); vm_compute in H1; discriminate.
  - intros H. discriminate.
  - intros e. cbn. unfold dist2. destruct (snd e =? 0); reflexivity.
  - intros lim.
    assert (E : init_entries Z zops ex_target idx2 false lim = [(2 ^ 58, Some [(0, 0)]); (3 * 2 ^ 58, Some [(0, 1)])]).
    { unfold init_entries. destruct (d_eqb zops lim (d_inf zops)); vm_compute; reflexivity. }
    rewrite E. split.
    + intros ce [ <- | [ <- | [] ] ]; (split; [unfold ex_vq; cbn; auto|]);
        (split; [|cbn; discriminate]); intros es H; injection H as <-;
        [exists (2 ^ 58, [(0, 0)])|exists (3 * 2 ^ 58, [(0, 1)])]; cbn; auto.
    + intros c [ <- | [ <- | [] ] ] _; [exists (2 ^ 58, Some [(0, 0)])|exists (3 * 2 ^ 58, Some [(0, 1)])];
        (split; [cbn; auto|left; split; reflexivity]).
  - intros e. rewrite ex_in_index. vm_compute. intuition.
Qed.

(** hence, on this instance, the optimized result is the brute-force result *)
Example opt_eq_brute_instance :
  find_edges zops ex_opts ex_target idx2 false false =
  find_edges zops (with_brute Z ex_opts) ex_target idx2 false false.
Proof.
  destruct premises_satisfiable as (P & T & _).
  apply (opt_eq_brute_main Z zops zops_ok ex_opts ex_target idx2 false dist2 (fun _ => 0) ex_vq P T).
  cbn. discriminate.
Qed.

(** the premises of the discharged theorems (C08_Final) hold on the same instance *)
Lemma idx2_wf : IndexWF idx2.
Proof.
  split.
  - intros c [ <- | [ <- | [] ] ]; exists 1; (split; [lia|split; [vm_compute; split; reflexivity|vm_compute; reflexivity]]).
  - unfold idx_sorted. cbn. constructor; [constructor; [constructor|constructor]|].
    constructor; [vm_compute; reflexivity|constructor].
Qed.

Lemma ex_cover_finite : CoverFinite Z zops idx2 ex_target dist2.
Proof.
  intros lim E.
  assert (Ee : init_entries Z zops ex_target idx2 false lim = [(2 ^ 58, Some [(0, 0)]); (3 * 2 ^ 58, Some [(0, 1)])]).
  { unfold init_entries. rewrite E. vm_compute. reflexivity. }
  clear Ee. split; [|split; [|split; [|vm_compute; reflexivity]]].
  - intros id [ <- | [ <- | [] ] ]; exists 1; (split; [lia|split; [vm_compute; split; reflexivity|vm_compute; reflexivity]]).
  - cbn. constructor; [constructor; [constructor|constructor]|]. constructor; [vm_compute; reflexivity|constructor].
  - intros c [ <- | [ <- | [] ] ] _; [exists (2 ^ 58)|exists (3 * 2 ^ 58)]; (split; [cbn; auto|left; cbn [fst]; vm_compute; split; discriminate]).
Qed.

Example wf_premises_satisfiable :
  WfPremises Z zops idx2 ex_opts ex_target dist2 (fun _ => 0) /\
  ApxPremises Z zops idx2 ex_opts ex_target dist2 (fun _ => 0) (fun e v => v = dist2 e) false.
Proof.
  destruct premises_satisfiable as ([Ex Sl Lb _ Em Zm _ Ix] & _ & _).
  assert (LBv : LB Z zops idx2 dist2 (fun _ => 0) valid).
  { intros ce c e _ Hc _ He. cbn. assert (Hi : in_index idx2 e) by (exists c; auto).
    apply ex_in_index in Hi. destruct Hi as [ -> | -> ]; reflexivity. }
  split.
  - split; try assumption. apply ex_cover_finite.
  - split; try assumption.
    + intros e lim. cbn. destruct (dist2 e <? lim) eqn:E; [split; [first [exact E|reflexivity]|reflexivity]|first [exact E|reflexivity]].
    + intros c lim. cbn. destruct (0 <? lim) eqn:E; first [reflexivity|exact E].
    + intros e v -> . cbn. apply Z.ltb_irrefl.
    + intros e v h -> H. cbn in *. apply Z.ltb_ge in H. apply Z.ltb_ge. lia.
    + intros a b H. cbn in *. apply Z.ltb_ge in H. apply Z.ltb_ge. lia.
    + apply ex_cover_finite.
Qed.
