(** C11 — the hypotheses of the theorems are satisfiable (concrete witnesses). *)
From Coq Require Import ZArith List Bool Lia ZifyBool Sorted.
From Geo Require Import Base.GoPrim Gen.CellID Model.CellUnion Proofs.C11_Bits Proofs.C11_Cells
  Proofs.C11_Normalize Proofs.C11_Unique Proofs.C11_Search Proofs.C11_SetOps Proofs.C11_Range Proofs.C11_Checks.
Import ListNotations.
Local Open Scope Z_scope.

Ltac u64_lit := unfold u64; split; [apply Z.leb_le|apply Z.ltb_lt]; vm_compute; reflexivity.
Ltac valid_lit := split; [u64_lit | vm_compute; reflexivity].
Ltac u64_list := repeat (constructor; [u64_lit|]); constructor.

(** face 0, its four children, a level-30 leaf, the last leaf of face 5 *)
Definition ex_face0 := 1152921504606846976.
Definition ex_children0 := [288230376151711744; 864691128455135232; 1441151880758558720; 2017612633061982208].
Definition ex_leaf := 1152921504606846977.
Definition ex_lastleaf := 13835058055282163711.

Example ex_valid_face : valid ex_face0. Proof. valid_lit. Qed.
Example ex_valid_leaf : valid ex_leaf /\ leaf ex_leaf. Proof. split; [valid_lit|reflexivity]. Qed.
Example ex_valid_children : Forall valid ex_children0.
Proof. repeat (constructor; [valid_lit|]). constructor. Qed.
Example ex_children_not_normal : ~ normal ex_children0.
Proof. intros N. apply isnormalized_spec in N; [vm_compute in N; discriminate|unfold ex_children0; u64_list]. Qed.
Example ex_normal : normal [288230376151711744; 864691128455135232; 3458764513820540928].
Proof. apply isnormalized_spec; [u64_list|vm_compute; reflexivity]. Qed.
Example ex_sorted_not_normal : sorted_cu ex_children0.
Proof. apply isvalid_spec; [unfold ex_children0; u64_list|vm_compute; reflexivity]. Qed.
Example ex_limit_sentinel : limit_id (6 * 2 ^ 61 + 1).
Proof. split; [reflexivity|lia]. Qed.
Example ex_range : valid 5 /\ leaf 5 /\ limit_id ex_lastleaf /\ 5 <= ex_lastleaf.
Proof. split; [valid_lit|]. split; [reflexivity|]. split; [split; [reflexivity|unfold ex_lastleaf; lia]|unfold ex_lastleaf; lia]. Qed.
Example ex_normalize : cu_Normalize (ex_leaf :: ex_children0) = [ex_face0].
Proof. vm_compute. reflexivity. Qed.
