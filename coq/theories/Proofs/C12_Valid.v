(** C12: every valid id (translated [CellID.IsValid]) is a structured id
    sid K e = (2K+1)*4^e with sid_ok K e, and conversely.  This turns the theorems
    on structured ids into theorems "for every valid id". *)
From Coq Require Import ZArith List Bool Lia.
From Geo Require Import Base.GoPrim Gen.CellGeom Proofs.C12_Hilbert Proofs.C12_Ids.
Import ListNotations.
Local Open Scope Z_scope.

Lemma odd_pow2_decomp (N : nat) : forall c, 0 < c < 2 ^ Z.of_nat N ->
  exists (t : nat) m, (t < N)%nat /\ 0 <= m /\ c = (2 * m + 1) * 2 ^ Z.of_nat t.
Proof.
  induction N as [|N IH]; intros c Hc.
  - change (2 ^ Z.of_nat 0) with 1 in Hc. lia.
  - rewrite Nat2Z.inj_succ, Z.pow_succ_r in Hc by lia.
    destruct (Z.even c) eqn:Ev.
    + apply Z.even_spec in Ev. destruct Ev as [h Eh].
      destruct (IH h ltac:(lia)) as (t & m & Ht & Hm & E).
      exists (S t), m. split; [lia|]. split; [assumption|].
      rewrite Nat2Z.inj_succ, Z.pow_succ_r by lia. rewrite Eh, E. ring.
    + assert (Od : Z.odd c = true) by (rewrite <- Z.negb_even, Ev; reflexivity).
      apply Z.odd_spec in Od. destruct Od as [h Eh].
      exists 0%nat, h. split; [lia|]. split; [lia|]. change (2 ^ Z.of_nat 0) with 1. lia.
Qed.

Lemma valid_mask (t : nat) : (t < 64)%nat ->
  Z.eqb (Z.land (2 ^ Z.of_nat t) 1537228672809129301) 0 = negb (Nat.even t && Nat.leb t 60).
Proof. intros H. do 64 (destruct t as [|t]; [vm_compute; reflexivity|]). lia. Qed.

Theorem valid_is_struct c : 0 <= c < 2 ^ 64 -> s2_CellID_IsValid c = true ->
  exists K (e : nat), c = sid K e /\ sid_ok K e.
Proof.
  intros Hc Hv. unfold s2_CellID_IsValid in Hv. apply andb_true_iff in Hv. destruct Hv as [Hf Hm].
  assert (Hpos : 0 < c).
  { destruct (Z.eq_dec c 0) as [->|]; [|lia]. vm_compute in Hm. discriminate. }
  destruct (odd_pow2_decomp 64 c ltac:(change (Z.of_nat 64) with 64; lia)) as (t & m & Ht & Hm0 & E).
  unfold s2_CellID_lsb in Hm. rewrite !(wrap_u64_small c) in Hm by lia.
  rewrite land_wrap_opp in Hm by lia. rewrite E, land_opp_pow2 in Hm.
  rewrite valid_mask in Hm by assumption. rewrite negb_involutive in Hm.
  apply andb_true_iff in Hm. destruct Hm as [Hev Hle].
  apply Nat.even_spec in Hev. destruct Hev as [e Ee]. apply Nat.leb_le in Hle.
  exists m, e. assert (He : (e <= 30)%nat) by lia.
  assert (Ep : 2 ^ Z.of_nat t = 4 ^ Z.of_nat e) by (rewrite pow4_pow2; f_equal; lia).
  split; [unfold sid; rewrite <- Ep; exact E|]. split; [exact He|]. split; [exact Hm0|].
  (* face < 6 *)
  apply Z.ltb_lt in Hf. unfold s2_CellID_Face, go_shr in Hf. rewrite wrap_u64_small in Hf by lia.
  destruct (Z.ltb_spec 61 0); [lia|]. rewrite Z.shiftr_div_pow2 in Hf by lia.
  assert (D : 0 <= c / 2 ^ 61 < 8).
  { split; [apply Z.div_pos; lia|]. apply Z.div_lt_upper_bound; lia. }
  rewrite wrap_i64_small in Hf by lia.
  assert (Hlt : c < 6 * 2 ^ 61).
  { destruct (Z_lt_le_dec c (6 * 2 ^ 61)) as [L|G]; [exact L|].
    assert (6 <= c / 2 ^ 61) by (apply Z.div_le_lower_bound; lia). lia. }
  rewrite E, Ep in Hlt. pose proof (pow4_split e He) as S4.
  pose proof (pow4_pos e) as P. pose proof (pow4_pos (30 - e)) as Q.
  set (p := 4 ^ Z.of_nat e) in *. set (q := 4 ^ Z.of_nat (30 - e)) in *.
  change (2 ^ 61) with (2 * 2 ^ 60) in Hlt. rewrite <- S4 in Hlt.
  assert ((2 * m + 1) < 12 * q) by nia. lia.
Qed.

Theorem valid_nonleaf_is_struct c : 0 <= c < 2 ^ 64 ->
  s2_CellID_IsValid c = true -> s2_CellID_IsLeaf c = false ->
  exists K (e : nat), c = sid K (S e) /\ sid_ok K (S e).
Proof.
  intros Hc Hv Hl. destruct (valid_is_struct c Hc Hv) as (K & e & -> & Hok).
  rewrite isleaf_spec in Hl by assumption. destruct e as [|e]; [discriminate|].
  exists K, e. split; [reflexivity|assumption].
Qed.

(** conversely, every structured id is valid (so the theorems are not vacuous) *)
Theorem struct_is_valid K e : sid_ok K e -> s2_CellID_IsValid (sid K e) = true.
Proof.
  intros Hok. pose proof (sid_range K e Hok) as R. pose proof (sid_range' K e Hok) as R'.
  destruct Hok as [He HK].
  unfold s2_CellID_IsValid. rewrite lsb_spec by (split; assumption).
  rewrite pow4_pow2, valid_mask by lia. rewrite negb_involutive.
  apply andb_true_iff. split.
  - apply Z.ltb_lt. unfold s2_CellID_Face, go_shr. rewrite wrap_u64_small by lia.
    destruct (Z.ltb_spec 61 0); [lia|]. rewrite Z.shiftr_div_pow2 by lia.
    assert (D : 0 <= sid K e / 2 ^ 61 < 6).
    { split; [apply Z.div_pos; lia|]. apply Z.div_lt_upper_bound; [lia|].
      pose proof (pow4_pos e). change (2 ^ 61 * 6) with (12 * 2 ^ 60). lia. }
    rewrite wrap_i64_small by lia. lia.
  - apply andb_true_iff. split.
    + rewrite Nat.even_mul. reflexivity.
    + apply Nat.leb_le. lia.
Qed.
