(** C06 — proofs of the Shape contract for the seven shape types (all sizes), and the
    refutations of the three repaired variants. *)
From Coq Require Import ZArith List Bool Lia.
From Geo Require Import Base.GoPrim Gen.CellIDCov Model.Shapes Proofs.C06_Slices.
Import ListNotations.
Local Open Scope Z_scope.

(** * PointVector *)
Theorem pv_contract : forall p, contract (pv_ops p).
Proof.
  intros p. pose proof (len_nonneg p) as Hn.
  unfold contract, pv_ops; ops_cbn.
  split; [lia|]. split; [lia|]. split; [|split; [|split]].
  - intros e He. exists e, 0, (nth (Z.to_nat e) p 0, nth (Z.to_nat e) p 0).
    rewrite (idx_ok p e 0 He). cbn. repeat split; try lia.
    exists e, 1. repeat split; lia.
  - intros i Hi. exists i, 1. repeat split; try lia.
    intros j Hj. assert (j = 0) by lia; subst j. rewrite Z.add_0_r.
    exists (nth (Z.to_nat i) p 0, nth (Z.to_nat i) p 0).
    rewrite (idx_ok p i 0 Hi). cbn. auto.
  - lia.
  - intros i st ln Hi Hc. inv_ok. repeat split; try lia. intros _. exists 1. reflexivity.
Qed.

(** the variant before fix 01aa6cd: chain 1 of a two-point vector *)
Theorem pv_contract_old_refuted : exists p, ~ contract (pv_ops_old p).
Proof.
  exists [10; 20]. intros (_ & _ & _ & H & _).
  destruct (H 1 ltac:(cbn; lia)) as (st & ln & Hc & _ & _ & _ & Hj).
  cbn in Hc. inv_ok.
  destruct (Hj 0 ltac:(lia)) as (ed & He & Hce & _).
  vm_compute in He, Hce. congruence.
Qed.

(** * Polylines (both kinds): one chain [0, n-1) *)
Lemma polyline_like_contract (v : list vertex) (ne : Z) :
  ne = (if 0 <? len v - 1 then len v - 1 else 0) ->
  contract {|
    numEdges := ne;
    edgeAt e := mk_edge (idx v e) (idx v (e + 1));
    numChains := s2_minInt 1 [ne];
    chainAt i := Ok (0, ne);
    chainEdge i j := mk_edge (idx v j) (idx v (j + 1));
    chainPosition e := Ok (0, e) |}.
Proof.
  intros Hne. pose proof (len_nonneg v) as Hn.
  assert (0 <= ne) as Hne0 by (subst ne; zb; lia).
  assert (ne = 0 \/ ne = len v - 1) as Hne1 by (subst ne; zb; lia).
  clear Hne.
  unfold contract; ops_cbn.
  rewrite minInt1.
  assert (forall e, 0 <= e < ne ->
            mk_edge (idx v e) (idx v (e + 1)) = Ok (nth (Z.to_nat e) v 0, nth (Z.to_nat (e + 1)) v 0)) as Hedge.
  { intros e He. rewrite (idx_ok v e 0), (idx_ok v (e + 1) 0) by lia. reflexivity. }
  assert ((if ne <? 1 then ne else 1) = (if ne =? 0 then 0 else 1)) as -> by (zb; lia).
  split; [lia|]. split; [zb; lia|]. split; [|split; [|split]].
  - intros e He. exists 0, e, (nth (Z.to_nat e) v 0, nth (Z.to_nat (e + 1)) v 0).
    rewrite Hedge by lia. repeat split; try (zb; lia).
    exists 0, ne. repeat split; lia.
  - intros i Hi. exists 0, ne. repeat split; try lia.
    intros j Hj. rewrite Z.add_0_l. exists (nth (Z.to_nat j) v 0, nth (Z.to_nat (j + 1)) v 0).
    rewrite Hedge by lia. repeat split. f_equal. f_equal. revert Hi. zb; lia.
  - zb; lia.
  - intros i st ln Hi Hc. inv_ok. revert Hi. zb; intros; repeat split; lia.
Qed.

Theorem lax_polyline_contract : forall v, contract (lax_polyline_ops v).
Proof.
  intros v. apply polyline_like_contract.
  unfold lax_polyline_num_edges. rewrite maxInt0. reflexivity.
Qed.

Theorem polyline_contract : forall v, contract (polyline_ops v).
Proof.
  intros v. apply polyline_like_contract.
  unfold polyline_num_edges. pose proof (len_nonneg v). zb; lia.
Qed.

(** * LaxLoop *)
Theorem lax_loop_contract : forall l, ll_numVertices l = len (ll_vertices l) -> contract (lax_loop_ops l).
Proof.
  intros [n v] Hwf. cbn in Hwf. subst n. pose proof (len_nonneg v) as Hn.
  unfold contract, lax_loop_ops; ops_cbn. cbn [ll_numVertices ll_vertices].
  rewrite minInt1.
  assert ((if len v <? 1 then len v else 1) = (if len v =? 0 then 0 else 1)) as -> by (zb; lia).
  assert (forall e, 0 <= e < len v ->
     mk_edge (idx v e) (idx v (if negb (e + 1 =? len v) then e + 1 else 0)) =
     mk_edge (idx v e) (idx v (if e + 1 =? len v then 0 else e + 1))) as Hsame.
  { intros e He. destruct (e + 1 =? len v); reflexivity. }
  assert (forall e, 0 <= e < len v -> exists ed,
     mk_edge (idx v e) (idx v (if e + 1 =? len v then 0 else e + 1)) = Ok ed) as Hok.
  { intros e He. rewrite (idx_ok v e 0) by lia.
    destruct (e + 1 =? len v) eqn:E.
    - rewrite (idx_ok v 0 0) by lia. eexists; reflexivity.
    - apply Z.eqb_neq in E. rewrite (idx_ok v (e + 1) 0) by lia. eexists; reflexivity. }
  split; [lia|]. split; [zb; lia|]. split; [|split; [|split]].
  - intros e He. destruct (Hok e He) as (ed & Hed). exists 0, e, ed.
    rewrite Hsame by lia. repeat split; try assumption; try (zb; lia).
    exists 0, (len v). repeat split; lia.
  - intros i Hi. exists 0, (len v). repeat split; try lia.
    intros j Hj. rewrite Z.add_0_l. destruct (Hok j Hj) as (ed & Hed). exists ed.
    rewrite Hsame by lia. repeat split; try assumption. f_equal. f_equal. revert Hi. zb; lia.
  - zb; lia.
  - intros i st ln Hi Hc. inv_ok. revert Hi. zb; intros; repeat split; lia.
Qed.

Theorem lax_loop_from_points_contract : forall v, contract (lax_loop_ops (lax_loop_from_points v)).
Proof. intros v. apply lax_loop_contract. reflexivity. Qed.

(** the variant before fix a88af59: edge 0 of a 3-vertex loop ends at vertex 0, edge 2 indexes v[3] *)
Theorem lax_loop_contract_old_refuted : exists v, ~ contract (lax_loop_ops_old (lax_loop_from_points v)).
Proof.
  exists [10; 20; 30]. intros (_ & _ & H & _).
  destruct (H 0 ltac:(cbn; lia)) as (i & j & ed & Hp & He & Hce & _).
  vm_compute in Hp. inv_ok. vm_compute in He, Hce. congruence.
Qed.
Theorem lax_loop_old_panics : chainEdge (lax_loop_ops_old (lax_loop_from_points [10; 20; 30])) 0 2 = Panic.
Proof. reflexivity. Qed.

(** * Loop *)
Lemma loop_vertex_ok (l : loop) (i : Z) :
  0 <= i <= len (lp_vertices l) -> 0 < len (lp_vertices l) -> exists x, loop_Vertex l i = Ok x.
Proof.
  intros Hi Hn. unfold loop_Vertex.
  destruct (len (lp_vertices l) =? 0) eqn:E; [apply Z.eqb_eq in E; lia|].
  assert (0 <= Z.rem i (len (lp_vertices l)) < len (lp_vertices l)) as Hr.
  { apply Z.rem_bound_pos; lia. }
  rewrite (idx_ok (lp_vertices l) _ 0 Hr). eexists; reflexivity.
Qed.

Theorem loop_contract : forall l, contract (loop_ops l).
Proof.
  intros l. pose proof (len_nonneg (lp_vertices l)) as Hn.
  unfold contract, loop_ops; ops_cbn.
  assert (0 <= loop_NumEdges l <= len (lp_vertices l)) as Hne.
  { unfold loop_NumEdges. destruct (loop_isEmptyOrFull l); lia. }
  assert (loop_IsEmpty l = true -> loop_NumEdges l = 0) as Hemp.
  { unfold loop_IsEmpty, loop_NumEdges. destruct (loop_isEmptyOrFull l); cbn; [reflexivity|discriminate]. }
  assert (forall e, 0 <= e < loop_NumEdges l -> exists ed,
            mk_edge (loop_Vertex l e) (loop_Vertex l (e + 1)) = Ok ed) as Hok.
  { intros e He.
    destruct (loop_vertex_ok l e) as (x & Hx); [lia|lia|].
    destruct (loop_vertex_ok l (e + 1)) as (y & Hy); [lia|lia|].
    rewrite Hx, Hy. eexists; reflexivity. }
  split; [lia|]. split; [destruct (loop_IsEmpty l); lia|]. split; [|split; [|split]].
  - intros e He. destruct (Hok e He) as (ed & Hed). exists 0, e, ed.
    repeat split; try assumption; try lia.
    + destruct (loop_IsEmpty l); [specialize (Hemp eq_refl)|]; lia.
    + exists 0, (loop_NumEdges l). repeat split; lia.
  - intros i Hi. exists 0, (loop_NumEdges l). repeat split; try lia.
    intros j Hj. rewrite Z.add_0_l. destruct (Hok j Hj) as (ed & Hed). exists ed.
    repeat split; try assumption. f_equal. f_equal. destruct (loop_IsEmpty l); lia.
  - destruct (loop_IsEmpty l); [auto|lia].
  - intros i st ln Hi Hc. inv_ok. destruct (loop_IsEmpty l); repeat split; lia.
Qed.
