(** C18 — the vertex comparison of CanonicalFirstVertex ([r3.Vector.Cmp == -1]) is a strict
    total order on points with non-NaN coordinates that are pairwise different (Go [!=]).
    This discharges the guard [distinct_ordered] of the rotation/inversion theorems for
    every loop that passes Loop.Validate (no duplicate vertices, unit length => no NaN). *)
From Coq Require Import ZArith Reals List Bool Floats Lia Lra.
From Geo Require Import Base.GoPrim Base.F64 Gen.Area Model.LoopMeasures Proofs.C18_Cyclic.
Import ListNotations.
Local Open Scope R_scope.

Definition pt_nonnan (p : s2_Point) : Prop :=
  nonnan (r3_Vector_X (s2_Point_Vector p)) /\ nonnan (r3_Vector_Y (s2_Point_Vector p)) /\
  nonnan (r3_Vector_Z (s2_Point_Vector p)).

Definition rx p := rank (r3_Vector_X (s2_Point_Vector p)).
Definition ry p := rank (r3_Vector_Y (s2_Point_Vector p)).
Definition rz p := rank (r3_Vector_Z (s2_Point_Vector p)).

(** lexicographic strict order on the coordinate ranks *)
Definition lexlt (p q : s2_Point) : Prop :=
  rx p < rx q \/ (rx p = rx q /\ (ry p < ry q \/ (ry p = ry q /\ rz p < rz q))).

Lemma pt_lt_spec p q : pt_nonnan p -> pt_nonnan q -> (pt_lt p q = true <-> lexlt p q).
Proof.
  intros (Px & Py & Pz) (Qx & Qy & Qz). unfold pt_lt, r3_Vector_Cmp, lexlt, rx, ry, rz.
  destruct (PrimFloat.ltb (r3_Vector_X (s2_Point_Vector p)) (r3_Vector_X (s2_Point_Vector q))) eqn:E1;
  [float_cmp_to_R; split; [intros _; lra | reflexivity]|].
  destruct (PrimFloat.ltb (r3_Vector_X (s2_Point_Vector q)) (r3_Vector_X (s2_Point_Vector p))) eqn:E2;
  [float_cmp_to_R; split; [discriminate | intros H; exfalso; lra]|].
  destruct (PrimFloat.ltb (r3_Vector_Y (s2_Point_Vector p)) (r3_Vector_Y (s2_Point_Vector q))) eqn:E3;
  [float_cmp_to_R; split; [intros _; lra | reflexivity]|].
  destruct (PrimFloat.ltb (r3_Vector_Y (s2_Point_Vector q)) (r3_Vector_Y (s2_Point_Vector p))) eqn:E4;
  [float_cmp_to_R; split; [discriminate | intros H; exfalso; lra]|].
  destruct (PrimFloat.ltb (r3_Vector_Z (s2_Point_Vector p)) (r3_Vector_Z (s2_Point_Vector q))) eqn:E5;
  [float_cmp_to_R; split; [intros _; lra | reflexivity]|].
  destruct (PrimFloat.ltb (r3_Vector_Z (s2_Point_Vector q)) (r3_Vector_Z (s2_Point_Vector p))) eqn:E6;
  float_cmp_to_R; (split; [discriminate | intros H; exfalso; lra]).
Qed.

Lemma pt_lt_false_spec p q : pt_nonnan p -> pt_nonnan q -> (pt_lt p q = false <-> ~ lexlt p q).
Proof.
  intros Hp Hq. rewrite <- (pt_lt_spec p q Hp Hq). destruct (pt_lt p q); split; intros; try congruence; auto.
Qed.

Lemma pt_lt_trans p q r : pt_nonnan p -> pt_nonnan q -> pt_nonnan r ->
  pt_lt p q = true -> pt_lt q r = true -> pt_lt p r = true.
Proof.
  intros Hp Hq Hr. rewrite (pt_lt_spec p q Hp Hq), (pt_lt_spec q r Hq Hr), (pt_lt_spec p r Hp Hr).
  unfold lexlt. intros H1 H2. lra.
Qed.

Lemma pt_lt_asym p q : pt_nonnan p -> pt_nonnan q -> pt_lt p q = true -> pt_lt q p = false.
Proof.
  intros Hp Hq. rewrite (pt_lt_spec p q Hp Hq), (pt_lt_false_spec q p Hq Hp). unfold lexlt. intros H1 H2. lra.
Qed.

Lemma pt_lt_total p q : pt_nonnan p -> pt_nonnan q -> s2_Point_eqb p q = false ->
  pt_lt p q = true \/ pt_lt q p = true.
Proof.
  intros Hp Hq. rewrite (pt_lt_spec p q Hp Hq), (pt_lt_spec q p Hq Hp).
  destruct Hp as (Px & Py & Pz). destruct Hq as (Qx & Qy & Qz).
  unfold s2_Point_eqb, r3_Vector_eqb, lexlt, rx, ry, rz. intros H.
  destruct (PrimFloat.eqb (r3_Vector_X (s2_Point_Vector p)) (r3_Vector_X (s2_Point_Vector q))) eqn:E1;
  destruct (PrimFloat.eqb (r3_Vector_Y (s2_Point_Vector p)) (r3_Vector_Y (s2_Point_Vector q))) eqn:E2;
  destruct (PrimFloat.eqb (r3_Vector_Z (s2_Point_Vector p)) (r3_Vector_Z (s2_Point_Vector q))) eqn:E3;
  try discriminate; float_cmp_to_R; lra.
Qed.

(** Every list of non-NaN, pairwise different points satisfies the guard of the theorems. *)
Theorem valid_vertices_distinct_ordered : forall vs,
  (forall p, In p vs -> pt_nonnan p) ->
  (forall i j : nat, (i < j < length vs)%nat ->
     s2_Point_eqb (nth i vs zero_point) (nth j vs zero_point) = false) ->
  distinct_ordered vs.
Proof.
  intros vs Hnn Hd. unfold distinct_ordered, strict_order_on.
  set (n := Z.of_nat (length vs)).
  assert (Hv : forall i, (0 <= i < n)%Z -> vertex vs i = nth (Z.to_nat i) vs zero_point).
  { intros i Hi. unfold vertex. fold n. rewrite Z.mod_small by lia. apply nthZ_nonneg. lia. }
  assert (Hin : forall i, (0 <= i < n)%Z -> pt_nonnan (vertex vs i)).
  { intros i Hi. rewrite (Hv i Hi). apply Hnn. apply nth_In. unfold n in Hi. lia. }
  assert (Hsym : forall p q, pt_nonnan p -> pt_nonnan q -> s2_Point_eqb q p = false -> s2_Point_eqb p q = false).
  { intros p q (Px & Py & Pz) (Qx & Qy & Qz). unfold s2_Point_eqb, r3_Vector_eqb. intros H.
    destruct (PrimFloat.eqb (r3_Vector_X (s2_Point_Vector q)) (r3_Vector_X (s2_Point_Vector p))) eqn:E1;
    destruct (PrimFloat.eqb (r3_Vector_Y (s2_Point_Vector q)) (r3_Vector_Y (s2_Point_Vector p))) eqn:E2;
    destruct (PrimFloat.eqb (r3_Vector_Z (s2_Point_Vector q)) (r3_Vector_Z (s2_Point_Vector p))) eqn:E3;
    try discriminate;
    destruct (PrimFloat.eqb (r3_Vector_X (s2_Point_Vector p)) (r3_Vector_X (s2_Point_Vector q))) eqn:F1;
    destruct (PrimFloat.eqb (r3_Vector_Y (s2_Point_Vector p)) (r3_Vector_Y (s2_Point_Vector q))) eqn:F2;
    destruct (PrimFloat.eqb (r3_Vector_Z (s2_Point_Vector p)) (r3_Vector_Z (s2_Point_Vector q))) eqn:F3;
    try reflexivity; float_cmp_to_R; exfalso; lra. }
  repeat split.
  - intros i j k Hi Hj Hk. apply pt_lt_trans; auto.
  - intros i j Hi Hj. apply pt_lt_asym; auto.
  - intros i j Hi Hj Hij. apply pt_lt_total; auto.
    rewrite (Hv i Hi), (Hv j Hj).
    destruct (Z_lt_ge_dec i j) as [L|G].
    + apply Hd. unfold n in *. lia.
    + apply Hsym; [rewrite <- (Hv i Hi); auto | rewrite <- (Hv j Hj); auto |].
      apply Hd. unfold n in *. lia.
Qed.

Example valid_vertices_ex : distinct_ordered ex_vs.
Proof.
  apply valid_vertices_distinct_ordered.
  - intros p [<- | [<- | [<- | []]]]; repeat split; reflexivity.
  - intros i j Hij. cbn [ex_vs length] in Hij.
    assert (i = 0 /\ j = 1 \/ i = 0 /\ j = 2 \/ i = 1 /\ j = 2)%nat as [[-> ->] | [[-> ->] | [-> ->]]] by lia;
    reflexivity.
Qed.
