(** C08 — statements at the level of FindEdges / Distance / IsDistanceLess, the premises
    bundled, [interior_zero], and the refutation witnesses for the unrepaired code. *)
From Coq Require Import ZArith List Bool Lia Sorted.
From Geo Require Import Model.EdgeQuery Proofs.C08_Post Proofs.C08_Opt Proofs.C08_Heap.
Import ListNotations.
Local Open Scope Z_scope.

Section Premises.
  Variable D : Type.
  Variable ops : dist_ops D.
  Notation less := (d_less ops).
  Notation sub := (d_sub ops).

  (** the target's update functions answer "d < limit ? d" for distance tables [edist], [cdist] *)
  Definition ExactTarget (t : target D) (edist : eid -> D) (cdist : Z -> D) : Prop :=
    (forall e lim, t_upd_edge t e lim = if less (edist e) lim then Some (edist e) else None) /\
    (forall c lim, t_upd_cell t c lim = if less (cdist c) lim then Some (cdist c) else None).
  Definition SubLe (o : options D) : Prop := forall d, less d (sub d (o_max_error o)) = false.
  Definition ErrZero (o : options D) : Prop := forall d, sub d (o_max_error o) = d.
  Definition ZeroSub (o : options D) : Prop := sub (d_zero ops) (o_max_error o) = d_zero ops.
  (** [LB] *)
  Definition LB (x : index) (edist : eid -> D) (cdist : Z -> D) (Vq : Z -> Prop) : Prop :=
    forall ce c e, Vq (fst ce) -> In c (x_cells x) -> rep ce c -> In e (snd c) ->
      less (edist e) (cdist (fst ce)) = false.
  Definition SplitSound (x : index) (Vq : Z -> Prop) : Prop :=
    forall q, Vq q -> (exists c, In c (x_cells x) /\ rep (q, None) c) ->
    (forall ce, In ce (split_cell x q) -> Vq (fst ce) /\ centry_ok x ce) /\
    (forall c, In c (x_cells x) -> rep (q, None) c -> exists ce, In ce (split_cell x q) /\ rep ce c).
  Definition EmptyFar (t : target D) (edist : eid -> D) : Prop :=
    t_cap_empty t = true -> forall e lim, less (edist e) lim = false.
  Definition ZeroMin (edist : eid -> D) : Prop := forall e, less (edist e) (d_zero ops) = false.
  (** [CoverSound] *)
  Definition CoverSound (t : target D) (x : index) (brk : bool) (edist : eid -> D) (Vq : Z -> Prop) : Prop :=
    forall lim,
    (forall ce, In ce (init_entries D ops t x brk lim) -> Vq (fst ce) /\ centry_ok x ce) /\
    (forall c, In c (x_cells x) -> (exists e, In e (snd c) /\ less (edist e) lim = true) ->
       exists ce, In ce (init_entries D ops t x brk lim) /\ rep ce c).
  (** [index_ok]: the index cells list exactly the edges of the shapes *)
  Definition IndexOK (x : index) : Prop := forall e, in_index x e <-> In e (all_edges x).

  Record SearchPremises (o : options D) (t : target D) (x : index) (brk : bool)
      (edist : eid -> D) (cdist : Z -> D) (Vq : Z -> Prop) : Prop := mkPremises {
    p_exact : ExactTarget t edist cdist;
    p_suble : SubLe o;
    p_lb : LB x edist cdist Vq;
    p_split : SplitSound x Vq;
    p_empty : EmptyFar t edist;
    p_zeromin : ZeroMin edist;
    p_cover : CoverSound t x brk edist Vq;
    p_index : IndexOK x
  }.

  (** the optimized loop ran to completion within the modelled 2^81 iterations *)
  Definition Terminates (o : options D) (t : target D) (x : index) (brk : bool) : Prop :=
    s_queue (snd (find_edges_internal ops o t x false brk (0, 0))) = [].

  Definition with_brute (o : options D) : options D :=
    mkOptions (o_max_results o) (o_limit o) (o_max_error o) (o_interiors o) true.

  Hypothesis OK : DistOK ops.

  (** the state after the interior results *)
  Definition interiors_state (o : options D) (t : target D) : state D :=
    let st0 := mkSt (o_limit o) [] [] [] in
    if o_interiors o then
      fold_left (fun st s => add_result D ops o st (mkR (d_zero ops) s (-1))) (containing_shapes D o (t_containing t) []) st0
    else st0.

  Lemma fold_interiors o l : forall st,
    let st' := fold_left (fun st s => add_result D ops o st (mkR (d_zero ops) s (-1))) l st in
    s_queue st' = s_queue st /\ s_tested st' = s_tested st /\ (l = [] -> st' = st) /\
    (l <> [] -> o_max_results o = 1 -> s_limit st' = sub (d_zero ops) (o_max_error o)) /\
    (o_max_results o <> 1 -> s_limit st' = s_limit st) /\
    s_results st' = rev (map (fun s => mkR (d_zero ops) s (-1)) l) ++ s_results st.
  Proof.
    induction l as [|s l IH]; intros st; cbn.
    - repeat split; congruence.
    - destruct (IH (add_result D ops o st (mkR (d_zero ops) s (-1)))) as (Q & T & N & L & Ln & R).
      split; [|split; [|split; [|split; [|split]]]].
      + rewrite Q. unfold add_result. destruct (o_max_results o =? 1); reflexivity.
      + rewrite T. unfold add_result. destruct (o_max_results o =? 1); reflexivity.
      + discriminate.
      + intros _ K. destruct l as [|s' l'].
        * cbn. unfold add_result. rewrite K. reflexivity.
        * apply L; [discriminate|exact K].
      + intros K. rewrite (Ln K). unfold add_result.
        destruct (o_max_results o =? 1) eqn:E; [apply Z.eqb_eq in E; contradiction|reflexivity].
      + rewrite R. rewrite <- app_assoc. cbn. f_equal.
        unfold add_result. destruct (o_max_results o =? 1); reflexivity.
  Qed.

  Lemma interiors_state_props o t :
    let st1 := interiors_state o t in
    s_queue st1 = [] /\ s_tested st1 = [] /\
    (o_max_results o = 1 -> s_results st1 = [] \/ s_limit st1 = sub (d_zero ops) (o_max_error o)).
  Proof.
    cbn. unfold interiors_state. destruct (o_interiors o); [|cbn; auto].
    set (l := containing_shapes D o (t_containing t) []).
    destruct (fold_interiors o l (mkSt (o_limit o) [] [] [])) as (Q & T & N & L & _).
    split; [exact Q|split; [exact T|]]. intros K. destruct l as [|s l'].
    - left. rewrite (N eq_refl). reflexivity.
    - right. apply L; [discriminate|exact K].
  Qed.

  Lemma interiors_state_limit o t :
    (o_max_results o <> 1 \/ s_results (interiors_state o t) = []) -> s_limit (interiors_state o t) = o_limit o.
  Proof.
    unfold interiors_state. destruct (o_interiors o); [|reflexivity].
    set (l := containing_shapes D o (t_containing t) []).
    destruct (fold_interiors o l (mkSt (o_limit o) [] [] [])) as (_ & _ & N & _ & Ln & R).
    intros [K|E]; [apply (Ln K)|].
    destruct l as [|s l']; [rewrite (N eq_refl); reflexivity|].
    exfalso. rewrite R in E. cbn in E. apply app_eq_nil in E. destruct E as [E _].
    apply app_eq_nil in E. destruct E as [_ E]. discriminate.
  Qed.

  (** the shape of findEdgesInternal: an early exit, or one of the two searches from the
      state after the interior results *)
  Lemma fei_shape o t x brk :
    let r := snd (find_edges_internal ops o t x false brk (0, 0)) in
    let st1 := interiors_state o t in
    (r = mkSt (o_limit o) [] [] [] /\ d_eqb ops (o_limit o) (d_zero ops) = true) \/
    (r = st1 /\ d_eqb ops (o_limit o) (d_zero ops) = false /\ d_eqb ops (s_limit st1) (d_zero ops) = true /\ o_interiors o = true) \/
    (d_eqb ops (o_limit o) (d_zero ops) = false /\
     (o_interiors o && d_eqb ops (s_limit st1) (d_zero ops) = false) /\
     (r = find_edges_brute D ops o t x false st1 \/
      (o_brute o = false /\ exists cons avoid, r = find_edges_optimized D ops o t x false brk cons avoid st1))).
  Proof.
    cbn. unfold find_edges_internal. cbn [s_limit].
    destruct (d_eqb ops (o_limit o) (d_zero ops)) eqn:E0; [left; split; reflexivity|].
    right. fold (interiors_state o t).
    destruct (o_interiors o && d_eqb ops (s_limit (interiors_state o t)) (d_zero ops)) eqn:E1.
    - left. apply andb_prop in E1. destruct E1 as [E1 E2]. cbn. auto.
    - right. split; [reflexivity|split; [reflexivity|]].
      destruct (o_brute o) eqn:Eb; cbn [orb].
      + left. reflexivity.
      + match goal with |- context [if ?c then _ else _] => destruct c end; cbn.
        * left. reflexivity.
        * right. split; [reflexivity|]. eexists. eexists. reflexivity.
  Qed.

  Lemma fei_brute o t x brk :
    let r := snd (find_edges_internal ops (with_brute o) t x false brk (0, 0)) in
    let st1 := interiors_state o t in
    (r = mkSt (o_limit o) [] [] [] /\ d_eqb ops (o_limit o) (d_zero ops) = true) \/
    (r = st1 /\ d_eqb ops (o_limit o) (d_zero ops) = false /\ d_eqb ops (s_limit st1) (d_zero ops) = true /\ o_interiors o = true) \/
    (d_eqb ops (o_limit o) (d_zero ops) = false /\
     (o_interiors o && d_eqb ops (s_limit st1) (d_zero ops) = false) /\
     r = find_edges_brute D ops o t x false st1).
  Proof.
    destruct (fei_shape (with_brute o) t x brk) as [H|[H|(H1 & H2 & [H3|(H3 & _)])]].
    - left. exact H.
    - right. left. exact H.
    - right. right. split; [exact H1|split; [exact H2|exact H3]].
    - discriminate.
  Qed.

  Theorem opt_eq_brute_main o t x brk edist cdist Vq :
    SearchPremises o t x brk edist cdist Vq -> Terminates o t x brk ->
    let out_o := find_edges ops o t x false brk in
    let out_b := find_edges ops (with_brute o) t x false brk in
    (o_max_results o <> 1 -> out_o = out_b) /\
    (ErrZero o -> map r_dist out_o = map r_dist out_b).
  Proof.
    intros [[Ee Ec] Sl Lb Sp Em Zm Cv Ix] Term. cbn.
    destruct (heap_spec D ops OK) as (HI & Hn & Hpush & Hpop).
    unfold find_edges, find_edges_from. unfold Terminates in Term.
    change (truncate D (with_brute o)) with (truncate D o).
    destruct (interiors_state_props o t) as (Q1 & T1 & K1).
    destruct (fei_shape o t x brk) as [[Ho A0]|[(Ho & A0 & A1 & Ai)|(N0 & N1 & Ho)]]; cbn in Ho.
    - destruct (fei_brute o t x brk) as [[Hb _]|[(Hb & B0 & _)|(B0 & _ & _)]].
      + cbn in Hb. rewrite Ho, Hb. split; reflexivity.
      + congruence.
      + congruence.
    - destruct (fei_brute o t x brk) as [[Hb B0]|[(Hb & _)|(_ & B1 & _)]].
      + congruence.
      + cbn in Hb. rewrite Ho, Hb. split; reflexivity.
      + rewrite Ai, A1 in B1. discriminate.
    - destruct (fei_brute o t x brk) as [[Hb B0]|[(Hb & _ & B1 & Bi)|(_ & _ & Hb)]].
      + congruence.
      + rewrite Bi, B1 in N1. discriminate.
      + cbn in Hb. destruct Ho as [Ho|(_ & cons & avoid & Ho)]; [rewrite Ho, Hb; split; reflexivity|].
        rewrite Ho in Term |- *. rewrite Hb.
        destruct (opt_eq_brute_core D ops OK o t x edist cdist Ee Ec Sl Vq HI Lb Sp Hn Hpush Hpop brk Em Zm Cv Ix
                    cons avoid (interiors_state o t) Q1 T1 Term) as (Hk & H1 & _).
        split.
        * intros K. rewrite (Hk K). reflexivity.
        * intros Ez. destruct (Z.eq_dec (o_max_results o) 1) as [K|K]; [|rewrite (Hk K); reflexivity].
          apply H1; [exact K| |exact Ez].
          destruct (K1 K) as [R|L]; [exact R|]. exfalso.
          rewrite L, Ez in N1. rewrite (proj2 (eqb_spec _ OK _ _) eq_refl) in N1.
          destruct (o_interiors o) eqn:Ei; cbn in N1; [discriminate|].
          unfold interiors_state in L. rewrite Ei in L. cbn in L.
          rewrite L, Ez in N0. rewrite (proj2 (eqb_spec _ OK _ _) eq_refl) in N0. discriminate.
  Qed.

  (** *** MaxResults = 1 with a permitted error (this is also how IsDistanceLess searches) *)
  Theorem opt_within_error_main o t x brk edist cdist Vq :
    SearchPremises o t x brk edist cdist Vq -> Terminates o t x brk ->
    o_max_results o = 1 -> d_eqb ops (o_limit o) (d_zero ops) = false ->
    s_results (interiors_state o t) = [] ->
    let out := find_edges ops o t x false brk in
    (out = [] <-> forall e, In e (all_edges x) -> less (edist e) (o_limit o) = false) /\
    (forall r, In r out ->
       (exists e, In e (all_edges x) /\ r = mkres D edist e /\ less (edist e) (o_limit o) = true) /\
       (forall e, In e (all_edges x) -> less (edist e) (sub (r_dist r) (o_max_error o)) = false)).
  Proof.
    intros [[Ee Ec] Sl Lb Sp Em Zm Cv Ix] Term K L0 R1. cbn.
    destruct (heap_spec D ops OK) as (HI & Hn & Hpush & Hpop).
    unfold find_edges, find_edges_from. unfold Terminates in Term.
    destruct (interiors_state_props o t) as (Q1 & T1 & _).
    assert (Lim1 : s_limit (interiors_state o t) = o_limit o) by (apply interiors_state_limit; right; exact R1).
    assert (T0 : TestedOK D ops edist (interiors_state o t)) by (intros e He; rewrite T1 in He; contradiction).
    pose proof (EI_init D ops OK o edist (fun e => In e (all_edges x)) (interiors_state o t)) as E0.
    rewrite R1, Lim1 in E0.
    destruct (fei_shape o t x brk) as [[_ A0]|[(_ & _ & A1 & _)|(_ & _ & Ho)]].
    - congruence.
    - rewrite Lim1 in A1. congruence.
    - cbn in Ho. destruct Ho as [Ho|(_ & cons & avoid & Ho)].
      + (* the brute-force path *)
        rewrite Ho. destruct (brute_spec D ops OK o t x edist Ee Sl [] (o_limit o) _ T0 E0) as (EIb & Dnb & _).
        cbn in EIb, Dnb. set (sb := find_edges_brute D ops o t x false (interiors_state o t)) in *.
        destruct (k1_result D ops OK o edist Sl (o_limit o) (fun e => In e (all_edges x)) sb K EIb Dnb) as [Hnil Hne].
        cbn in Hnil, Hne. destruct (s_results sb) as [|r0 l0] eqn:Ers.
        * destruct (Hnil eq_refl) as [Eo Far]. rewrite Eo. split; [split; [intros _; exact Far|reflexivity]|intros r []].
        * destruct Hne as (hd & Eo & Hh & Opt); [discriminate|]. rewrite Eo.
          destruct EIb as (Sb & _). destruct (Sb hd) as [[]|(e & Pe & E & L)]; [rewrite Ers; exact Hh|].
          split.
          -- split; [discriminate|]. intros Far. rewrite (Far e Pe) in L. discriminate.
          -- intros r [<-|[]]. split; [exists e; auto|exact Opt].
      + rewrite Ho in Term |- *.
        pose proof (opt_within_error_core D ops OK o t x edist cdist Ee Ec Sl Vq HI Lb Sp Hn Hpush Hpop brk Em Zm Cv Ix
                      cons avoid (interiors_state o t) Q1 T1 R1 K Term) as H.
        cbn in H. rewrite Lim1 in H. exact H.
  Qed.

  (** *** what the brute-force path returns: the MaxResults best of the exhaustive scan *)
  Definition scan_candidate (o : options D) (t : target D) (x : index) (edist : eid -> D) (r : result D) : Prop :=
    In r (s_results (interiors_state o t)) \/
    exists e, In e (all_edges x) /\ r = mkres D edist e /\ less (edist e) (o_limit o) = true.

  Theorem brute_is_scan o t x brk edist :
    (forall e lim, t_upd_edge t e lim = if less (edist e) lim then Some (edist e) else None) ->
    SubLe o -> o_max_results o <> 1 -> d_eqb ops (o_limit o) (d_zero ops) = false ->
    exists l, find_edges ops (with_brute o) t x false brk = truncate D o l /\
      StronglySorted (fun a b => r_less ops a b = true) l /\
      forall r, In r l <-> scan_candidate o t x edist r.
  Proof.
    intros Ee Sl K L0. unfold find_edges, find_edges_from.
    change (truncate D (with_brute o)) with (truncate D o).
    destruct (interiors_state_props o t) as (Q1 & T1 & _).
    assert (Lim1 : s_limit (interiors_state o t) = o_limit o) by (apply interiors_state_limit; left; exact K).
    destruct (fei_brute o t x brk) as [[_ A]|[(_ & _ & A & _)|(_ & _ & Hb)]].
    - congruence.
    - rewrite Lim1 in A. congruence.
    - cbn in Hb. rewrite Hb. eexists. split; [reflexivity|]. split; [apply (sort_unique_sorted D ops OK)|].
      assert (T0 : TestedOK D ops edist (interiors_state o t)) by (intros e He; rewrite T1 in He; contradiction).
      destruct (brute_spec D ops OK o t x edist Ee Sl _ _ _ T0
                  (EI_init D ops OK o edist (fun e => In e (all_edges x)) (interiors_state o t))) as (EIb & Dnb & Xb).
      cbn in EIb, Dnb, Xb. intros r. rewrite (sort_unique_in D ops OK), <- in_rev.
      rewrite (final_set D ops o edist (fun e => In e (all_edges x)) _ _ _ K EIb (proj1 (proj2 Xb)) Dnb).
      unfold scan_candidate. rewrite Lim1. tauto.
  Qed.

  (** *** Distance and IsDistanceLess *)
  Theorem distance_eq_brute o t x edist cdist Vq :
    SearchPremises (with_max_results D o 1) t x false edist cdist Vq ->
    Terminates (with_max_results D o 1) t x false -> ErrZero o ->
    distance ops o t x = distance ops (with_brute o) t x.
  Proof.
    intros P Term Ez. unfold distance, find_edge.
    change (with_max_results D (with_brute o) 1) with (with_brute (with_max_results D o 1)).
    destruct (opt_eq_brute_main _ t x false edist cdist Vq P Term) as [_ H]. cbn in H.
    specialize (H Ez).
    destruct (find_edges ops (with_max_results D o 1) t x false false) as [|a la];
      destruct (find_edges ops (with_brute (with_max_results D o 1)) t x false false) as [|b lb];
      cbn in H; try discriminate; [reflexivity|]. injection H as H _. exact H.
  Qed.

  Theorem is_distance_less_spec straight o t x lim edist cdist Vq :
    let o' := mkOptions 1 lim straight (o_interiors o) (o_brute o) in
    SearchPremises o' t x false edist cdist Vq -> Terminates o' t x false ->
    d_eqb ops lim (d_zero ops) = false -> s_results (interiors_state o' t) = [] ->
    (forall e, In e (all_edges x) -> 0 <= fst e) ->
    (is_distance_less ops straight o t x lim = true <-> exists e, In e (all_edges x) /\ less (edist e) lim = true).
  Proof.
    cbn. intros P Term L0 R1 Pos. unfold is_distance_less, find_edge.
    change (with_max_results D (mkOptions 1 lim straight (o_interiors o) (o_brute o)) 1)
      with (mkOptions 1 lim straight (o_interiors o) (o_brute o)).
    destruct (opt_within_error_main _ t x false edist cdist Vq P Term eq_refl L0 R1) as [Hnil Hval].
    cbn in Hnil, Hval.
    destruct (find_edges ops (mkOptions 1 lim straight (o_interiors o) (o_brute o)) t x false false) as [|r l].
    - cbn. split; [discriminate|]. intros (e & He & L). rewrite (proj1 Hnil eq_refl e He) in L. discriminate.
    - destruct (Hval r (or_introl eq_refl)) as [(e & He & -> & L) _]. cbn.
      split; [intros _; exists e; auto|]. intros _.
      destruct (fst e <? 0) eqn:E; [apply Z.ltb_lt in E; specialize (Pos e He); lia|reflexivity].
  Qed.

  (** *** interior results: a target inside an indexed polygon is at distance zero *)
  Theorem interior_zero_gen o t x old brk s rest :
    o_interiors o = true -> d_eqb ops (o_limit o) (d_zero ops) = false ->
    t_containing t = s :: rest -> ZeroSub o ->
    find_edge ops o t x old brk = mkR (d_zero ops) s (-1).
  Proof.
    intros Ei L0 Ec Zs. unfold find_edge, find_edges, find_edges_from, find_edges_internal.
    cbn [with_max_results o_limit o_interiors o_max_results o_max_error s_limit].
    rewrite L0, Ei, Ec. cbn [containing_shapes existsb app length Z.of_nat]. cbn [Z.ltb Z.compare Pos.of_succ_nat Pos.compare Pos.compare_cont].
    cbn [fold_left]. unfold add_result at 1. cbn [o_max_results with_max_results Z.eqb Pos.eqb o_max_error].
    unfold set_limit. cbn [s_limit r_dist]. unfold ZeroSub in Zs. rewrite Zs.
    rewrite (proj2 (eqb_spec _ OK _ _) eq_refl). cbn. reflexivity.
  Qed.
End Premises.
