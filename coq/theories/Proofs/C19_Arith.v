(** C19: the few facts about rounded float64 arithmetic the interval/cap theorems use,
    stated on ranks (Base/F64.v).  All from Flocq's correctness theorems for
    Bplus/Bminus/Bmult; round-to-nearest-even is monotone, so adding a non-negative float
    never decreases a float and subtracting one never increases it (overflow goes to the
    infinity of the right sign; NaN results are excluded by a guard). *)
From Coq Require Import ZArith Reals Floats Lra Bool Psatz.
From Flocq Require Import Core.Core IEEE754.BinarySingleNaN IEEE754.PrimFloat.
From Geo Require Import Base.GoPrim Base.F64.
From Geo Require Base.F64Arith.
Local Open Scope R_scope.

Notation rnd := (round radix2 (SpecFloat.fexp prec emax) (round_mode mode_NE)).

Local Existing Instance Hprec.
Local Existing Instance Hmax.
Local Instance fexp_valid_f64 : Valid_exp (SpecFloat.fexp prec emax) := fexp_correct prec emax Hprec.
Lemma rnd_le x y : x <= y -> rnd x <= rnd y.
Proof. intros. apply round_le; [exact fexp_valid_f64|apply valid_rnd_N|assumption]. Qed.
Lemma rnd_B2R (b : bfloat) : rnd (B2R b) = B2R b.
Proof. apply round_generic; [apply valid_rnd_N|]. apply generic_format_B2R. Qed.
Lemma rnd_0 : rnd 0 = 0.
Proof. apply round_0. apply valid_rnd_N. Qed.

Lemma B2SF_infinity (r : bfloat) s : B2SF r = SpecFloat.S754_infinity s -> r = B754_infinity s.
Proof. destruct r; simpl; intros H; try discriminate. injection H as ->. reflexivity. Qed.

Lemma sign_true_le0 (b : bfloat) : Bsign b = true -> B2R b <= 0.
Proof.
  destruct b as [s|s| |s m e He]; simpl; intros H; try lra. subst s.
  apply F2R_le_0. simpl. lia.
Qed.
Lemma sign_false_ge0 (b : bfloat) : Bsign b = false -> 0 <= B2R b.
Proof.
  destruct b as [s|s| |s m e He]; simpl; intros H; try lra. subst s.
  apply F2R_ge_0. simpl. lia.
Qed.

(** x + e >= x when e >= 0 *)
Lemma Bplus_ge (x e : bfloat) : is_nan x = false -> is_nan e = false -> 0 <= rankB e ->
  is_nan (Bplus mode_NE x e) = false -> rankB x <= rankB (Bplus mode_NE x e).
Proof.
  intros Nx Ne He Nr. pose proof top_pos as Tp.
  destruct (is_finite x) eqn:Fx; [destruct (is_finite e) eqn:Fe|].
  - rewrite (rankB_finite e Fe) in He. rewrite (rankB_finite x Fx).
    pose proof (Bplus_correct prec emax Hprec Hmax mode_NE x e Fx Fe) as C.
    destruct (Rlt_bool_spec (Rabs (rnd (B2R x + B2R e))) (bpow radix2 emax)) as [Hlt|Hge].
    + destruct C as [Cv [Cf _]]. rewrite (rankB_finite _ Cf), Cv.
      rewrite <- (rnd_B2R x) at 1. apply rnd_le. lra.
    + destruct C as [Co Cs]. unfold binary_overflow in Co. simpl in Co.
      apply B2SF_infinity in Co. rewrite Co.
      destruct (Bsign x) eqn:Sx.
      * (* both negative-signed: e is a zero, so no overflow is possible *)
        exfalso. symmetry in Cs. apply sign_true_le0 in Cs.
        assert (E0 : B2R e = 0) by lra. rewrite E0, Rplus_0_r, rnd_B2R in Hge.
        pose proof (abs_B2R_lt_emax prec emax x). lra.
      * simpl. pose proof (finite_lt_top x Fx). lra.
  - (* e infinite, necessarily +inf *)
    destruct e as [se|[|]| |se me ee Hee]; try discriminate.
    + simpl in He. lra.
    + pose proof (rankB_bounds x) as Bx.
      destruct x as [sx|sx| |sx mx ex Hx]; try discriminate; simpl in *; lra.
  - destruct x as [sx|[|]| |sx mx ex Hx]; try discriminate.
    + pose proof (rankB_bounds (Bplus mode_NE (B754_infinity true) e)).
      change (rankB (B754_infinity true)) with (- top). lra.
    + destruct e as [se|[|]| |se me ee Hee]; try discriminate; simpl in *; lra.
Qed.

(** x - e <= x when e >= 0 *)
Lemma Bminus_le (x e : bfloat) : is_nan x = false -> is_nan e = false -> 0 <= rankB e ->
  is_nan (Bminus mode_NE x e) = false -> rankB (Bminus mode_NE x e) <= rankB x.
Proof.
  intros Nx Ne He Nr. pose proof top_pos as Tp.
  destruct (is_finite x) eqn:Fx; [destruct (is_finite e) eqn:Fe|].
  - rewrite (rankB_finite e Fe) in He. rewrite (rankB_finite x Fx).
    pose proof (Bminus_correct prec emax Hprec Hmax mode_NE x e Fx Fe) as C.
    destruct (Rlt_bool_spec (Rabs (rnd (B2R x - B2R e))) (bpow radix2 emax)) as [Hlt|Hge].
    + destruct C as [Cv [Cf _]]. rewrite (rankB_finite _ Cf), Cv.
      rewrite <- (rnd_B2R x) at 2. apply rnd_le. lra.
    + destruct C as [Co Cs]. unfold binary_overflow in Co. simpl in Co.
      apply B2SF_infinity in Co. rewrite Co.
      destruct (Bsign x) eqn:Sx.
      * simpl. pose proof (finite_lt_top x Fx). lra.
      * exfalso. assert (Se : Bsign e = true) by (destruct (Bsign e); [reflexivity|discriminate]).
        apply sign_true_le0 in Se.
        assert (E0 : B2R e = 0) by lra. rewrite E0, Rminus_0_r, rnd_B2R in Hge.
        pose proof (abs_B2R_lt_emax prec emax x). lra.
  - destruct e as [se|[|]| |se me ee Hee]; try discriminate.
    + simpl in He. lra.
    + pose proof (rankB_bounds x) as Bx.
      destruct x as [sx|sx| |sx mx ex Hx]; try discriminate; simpl in *; lra.
  - destruct x as [sx|[|]| |sx mx ex Hx]; try discriminate.
    + destruct e as [se|[|]| |se me ee Hee]; try discriminate; simpl in *; lra.
    + pose proof (rankB_bounds (Bminus mode_NE (B754_infinity false) e)).
      change (rankB (B754_infinity false)) with top. lra.
Qed.

(** a product of two non-negative floats is non-negative; so is a square *)
Lemma Bmult_nonneg_val (x y : bfloat) : is_nan (Bmult mode_NE x y) = false ->
  is_finite x = true -> is_finite y = true -> 0 <= B2R x * B2R y ->
  0 <= rankB (Bmult mode_NE x y).
Proof.
  intros Nr Fx Fy Hp. pose proof top_pos as Tp.
  pose proof (Bmult_correct prec emax Hprec Hmax mode_NE x y) as C.
  destruct (Rlt_bool_spec (Rabs (rnd (B2R x * B2R y))) (bpow radix2 emax)) as [Hlt|Hge].
  - destruct C as [Cv [Cf _]]. rewrite Fx, Fy in Cf. rewrite (rankB_finite _ Cf), Cv.
    rewrite <- rnd_0. apply rnd_le. exact Hp.
  - unfold binary_overflow in C. simpl in C. apply B2SF_infinity in C. rewrite C.
    destruct (xorb (Bsign x) (Bsign y)) eqn:Sx; [|simpl; lra].
    exfalso.
    assert (Z0 : B2R x * B2R y = 0).
    { destruct (Bsign x) eqn:S1, (Bsign y) eqn:S2; try discriminate.
      - apply sign_true_le0 in S1. apply sign_false_ge0 in S2. nra.
      - apply sign_false_ge0 in S1. apply sign_true_le0 in S2. nra. }
    rewrite Z0, rnd_0, Rabs_R0 in Hge. pose proof (bpow_gt_0 radix2 emax). lra.
Qed.

Lemma Bmult_nonneg (x y : bfloat) : is_nan (Bmult mode_NE x y) = false ->
  0 <= rankB x -> 0 <= rankB y -> 0 <= rankB (Bmult mode_NE x y).
Proof.
  intros Nr Hx Hy. pose proof top_pos as Tp.
  destruct (is_finite x) eqn:Fx; [destruct (is_finite y) eqn:Fy|].
  - rewrite (rankB_finite x Fx) in Hx. rewrite (rankB_finite y Fy) in Hy.
    apply Bmult_nonneg_val; auto. nra.
  - destruct y as [sy|[|]| |sy my ey Hey]; try discriminate; simpl in Hy; try lra;
    try (destruct x; discriminate).
    destruct x as [sx|sx| |sx mx ex Hex]; try discriminate; simpl in *; try discriminate.
    destruct sx; simpl; try lra.
    exfalso. match goal with H : 0 <= F2R ?f |- _ =>
      assert (F2R f < 0) by (apply F2R_lt_0; simpl; lia); lra end.
  - destruct x as [sx|[|]| |sx mx ex Hex]; try discriminate; simpl in Hx; try lra;
    try (destruct y; discriminate).
    destruct y as [sy|[|]| |sy my ey Hey]; try discriminate; simpl in *; try discriminate; try lra.
    destruct sy; simpl; try lra.
    exfalso. match goal with H : 0 <= F2R ?f |- _ =>
      assert (F2R f < 0) by (apply F2R_lt_0; simpl; lia); lra end.
Qed.

Lemma Bmult_self_nonneg (x : bfloat) : is_nan (Bmult mode_NE x x) = false ->
  0 <= rankB (Bmult mode_NE x x).
Proof.
  intros Nr. pose proof top_pos as Tp.
  destruct (is_finite x) eqn:Fx.
  - apply Bmult_nonneg_val; auto. nra.
  - destruct x as [sx|[|]| |sx mx ex Hex]; try discriminate; simpl; lra.
Qed.

(** * The same on primitive floats *)
Lemma nonnan_B x : nonnan x <-> is_nan (Prim2B x) = false.
Proof. unfold nonnan. rewrite go_isnan_equiv. tauto. Qed.

Lemma rank_add_ge x e : nonnan x -> nonnan e -> 0 <= rank e -> nonnan (PrimFloat.add x e) ->
  rank x <= rank (PrimFloat.add x e).
Proof.
  rewrite !nonnan_B. unfold rank. rewrite add_equiv. apply Bplus_ge.
Qed.
Lemma rank_sub_le x e : nonnan x -> nonnan e -> 0 <= rank e -> nonnan (PrimFloat.sub x e) ->
  rank (PrimFloat.sub x e) <= rank x.
Proof.
  rewrite !nonnan_B. unfold rank. rewrite sub_equiv. apply Bminus_le.
Qed.
Lemma rank_mul_nonneg x y : nonnan (PrimFloat.mul x y) -> 0 <= rank x -> 0 <= rank y ->
  0 <= rank (PrimFloat.mul x y).
Proof.
  rewrite !nonnan_B. unfold rank. rewrite mul_equiv. apply Bmult_nonneg.
Qed.
Lemma rank_sqr_nonneg x : nonnan (PrimFloat.mul x x) -> 0 <= rank (PrimFloat.mul x x).
Proof.
  rewrite !nonnan_B. unfold rank. rewrite mul_equiv. apply Bmult_self_nonneg.
Qed.
(** a NaN operand gives a NaN sum: non-NaN sums have non-NaN operands *)
Lemma nonnan_add_inv x y : nonnan (PrimFloat.add x y) -> nonnan x /\ nonnan y.
Proof.
  rewrite !nonnan_B, add_equiv.
  destruct (Prim2B x) as [?|?| |? ? ? ?], (Prim2B y) as [?|?| |? ? ? ?]; simpl; auto; discriminate.
Qed.
Lemma rank_add_nonneg x y : nonnan (PrimFloat.add x y) -> 0 <= rank x -> 0 <= rank y ->
  0 <= rank (PrimFloat.add x y).
Proof.
  intros N Hx Hy. destruct (nonnan_add_inv x y N) as [Nx Ny].
  pose proof (rank_add_ge x y Nx Ny Hy N). lra.
Qed.

(** * Exact zeros: x - x, products and sums of zeros (for the distance of a point to itself) *)
Definition fin (x : PrimFloat.float) : Prop := is_finite (Prim2B x) = true.
Definition isz (b : bfloat) : Prop := is_finite b = true /\ B2R b = 0.

Lemma no_overflow_0 : Rlt_bool (Rabs (rnd 0)) (bpow radix2 emax) = true.
Proof. rewrite rnd_0, Rabs_R0. apply Rlt_bool_true. apply bpow_gt_0. Qed.

Lemma Bminus_self (x : bfloat) : is_finite x = true -> isz (Bminus mode_NE x x).
Proof.
  intros F. pose proof (Bminus_correct prec emax Hprec Hmax mode_NE x x F F) as C.
  replace (B2R x - B2R x) with 0 in C by lra. rewrite no_overflow_0 in C.
  destruct C as [Cv [Cf _]]. split; [exact Cf|]. rewrite Cv. apply rnd_0.
Qed.
Lemma Bmult_isz (a b : bfloat) : isz a -> isz b -> isz (Bmult mode_NE a b).
Proof.
  intros [Fa Za] [Fb Zb]. pose proof (Bmult_correct prec emax Hprec Hmax mode_NE a b) as C.
  rewrite Za, Zb in C. replace (0 * 0) with 0 in C by lra. rewrite no_overflow_0 in C.
  destruct C as [Cv [Cf _]]. rewrite Fa, Fb in Cf. split; [exact Cf|]. rewrite Cv. apply rnd_0.
Qed.
Lemma Bplus_isz (a b : bfloat) : isz a -> isz b -> isz (Bplus mode_NE a b).
Proof.
  intros [Fa Za] [Fb Zb]. pose proof (Bplus_correct prec emax Hprec Hmax mode_NE a b Fa Fb) as C.
  rewrite Za, Zb in C. replace (0 + 0) with 0 in C by lra. rewrite no_overflow_0 in C.
  destruct C as [Cv [Cf _]]. split; [exact Cf|]. rewrite Cv. apply rnd_0.
Qed.
Lemma isz_rank x : isz (Prim2B x) -> nonnan x /\ rank x = 0.
Proof.
  intros [F Z]. split.
  - apply nonnan_B. destruct (Prim2B x); try discriminate; reflexivity.
  - unfold rank. rewrite (rankB_finite _ F). exact Z.
Qed.
Lemma sub_self_isz x : fin x -> isz (Prim2B (PrimFloat.sub x x)).
Proof. unfold fin. rewrite sub_equiv. apply Bminus_self. Qed.
Lemma mul_isz a b : isz (Prim2B a) -> isz (Prim2B b) -> isz (Prim2B (PrimFloat.mul a b)).
Proof. rewrite mul_equiv. apply Bmult_isz. Qed.
Lemma add_isz a b : isz (Prim2B a) -> isz (Prim2B b) -> isz (Prim2B (PrimFloat.add a b)).
Proof. rewrite add_equiv. apply Bplus_isz. Qed.

(** finite operands never give NaN *)
Lemma Bmult_nonnan_fin (a b : bfloat) : is_finite a = true -> is_finite b = true ->
  is_nan (Bmult mode_NE a b) = false.
Proof.
  intros Fa Fb. pose proof (Bmult_correct prec emax Hprec Hmax mode_NE a b) as C.
  destruct (Rlt_bool _ _).
  - destruct C as [_ [Cf _]]. rewrite Fa, Fb in Cf. destruct (Bmult mode_NE a b); try discriminate; reflexivity.
  - unfold binary_overflow in C. simpl in C. apply B2SF_infinity in C. rewrite C. reflexivity.
Qed.
Lemma Bplus_nonnan_fin (a b : bfloat) : is_finite a = true -> is_finite b = true ->
  is_nan (Bplus mode_NE a b) = false.
Proof.
  intros Fa Fb. pose proof (Bplus_correct prec emax Hprec Hmax mode_NE a b Fa Fb) as C.
  destruct (Rlt_bool _ _).
  - destruct C as [_ [Cf _]]. destruct (Bplus mode_NE a b); try discriminate; reflexivity.
  - destruct C as [C _]. unfold binary_overflow in C. simpl in C. apply B2SF_infinity in C. rewrite C. reflexivity.
Qed.
Lemma mul_nonnan_fin a b : fin a -> fin b -> nonnan (PrimFloat.mul a b).
Proof. unfold fin. rewrite nonnan_B, mul_equiv. apply Bmult_nonnan_fin. Qed.
Lemma add_nonnan_fin a b : fin a -> fin b -> nonnan (PrimFloat.add a b).
Proof. unfold fin. rewrite nonnan_B, add_equiv. apply Bplus_nonnan_fin. Qed.
Lemma rank_fin x : nonnan x -> - top < rank x < top -> fin x.
Proof.
  rewrite nonnan_B. unfold fin, rank. destruct (Prim2B x) as [s|[|]| |s m e He]; simpl; intros N H;
  try reflexivity; try discriminate; lra.
Qed.
Lemma rank_top_inf x : nonnan x -> rank x = top -> Prim2B x = B754_infinity false.
Proof.
  rewrite nonnan_B. unfold rank. pose proof top_pos.
  destruct (Prim2B x) as [s|[|]| |s m e He] eqn:E; simpl; intros N R; try reflexivity; try discriminate; try lra.
  pose proof (finite_lt_top (B754_finite s m e He) eq_refl). simpl in *. lra.
Qed.
Lemma add_fin_inf d e : fin d -> Prim2B e = B754_infinity false -> nonnan (PrimFloat.add d e).
Proof.
  unfold fin. rewrite nonnan_B, add_equiv. intros F ->.
  destruct (Prim2B d); try discriminate; reflexivity.
Qed.

(** * Lower bounds that survive overflow (used to show that a guard fires for large margins) *)
Lemma repr_small_int (z : Z) : (Z.abs z < 2 ^ 53)%Z -> rnd (IZR z) = IZR z.
Proof.
  intros H. apply round_generic; [apply valid_rnd_N|]. apply Geo.Base.F64Arith.repr_IZR. exact H.
Qed.

Lemma Bmult2_ge8 (m : bfloat) : is_nan m = false -> 4 <= rankB m ->
  is_nan (Bmult mode_NE (Prim2B 2%float) m) = false /\ 8 <= rankB (Bmult mode_NE (Prim2B 2%float) m).
Proof.
  intros Nm Hm. pose proof top_pos as Tp.
  assert (T8 : 8 < top).
  { unfold top. change 8 with (bpow radix2 3). apply bpow_lt. reflexivity. }
  assert (V2 : B2R (Prim2B 2%float) = 2).
  { change (B2R (Prim2B 2%float)) with (Geo.Base.F64Arith.RV 2%float). Geo.Base.F64Arith.lit_value. }
  assert (F2 : is_finite (Prim2B 2%float) = true) by reflexivity.
  assert (S2 : Bsign (Prim2B 2%float) = false) by reflexivity.
  destruct (is_finite m) eqn:Fm.
  - rewrite (rankB_finite m Fm) in Hm.
    pose proof (Bmult_correct prec emax Hprec Hmax mode_NE (Prim2B 2%float) m) as C.
    destruct (Rlt_bool_spec (Rabs (rnd (B2R (Prim2B 2%float) * B2R m))) (bpow radix2 emax)) as [Hlt|Hge].
    + destruct C as [Cv [Cf _]]. rewrite F2, Fm in Cf.
      split; [destruct (Bmult mode_NE (Prim2B 2%float) m); try discriminate; reflexivity|].
      rewrite (rankB_finite _ Cf), Cv, V2.
      rewrite <- (repr_small_int 8) by (simpl; lia). apply rnd_le. lra.
    + unfold binary_overflow in C. simpl in C. apply B2SF_infinity in C. rewrite C.
      rewrite S2. destruct (Bsign m) eqn:Sm.
      * apply sign_true_le0 in Sm. lra.
      * simpl. split; [reflexivity|lra].
  - destruct m as [s|[|]| |s mm e He]; try discriminate.
    + simpl in Hm. lra.
    + revert V2 F2 S2. destruct (Prim2B 2%float) as [s2|s2| |s2 m2 e2 H2]; simpl; intros V2 F2 S2;
      try discriminate; try lra. subst s2. simpl. split; [reflexivity|lra].
Qed.

Lemma Bplus_ge7 (x y : bfloat) : is_finite x = true -> -1 <= B2R x ->
  is_nan y = false -> 8 <= rankB y ->
  is_nan (Bplus mode_NE x y) = false /\ 7 <= rankB (Bplus mode_NE x y).
Proof.
  intros Fx Hx Ny Hy. pose proof top_pos as Tp.
  assert (T8 : 8 < top).
  { unfold top. change 8 with (bpow radix2 3). apply bpow_lt. reflexivity. }
  destruct (is_finite y) eqn:Fy.
  - rewrite (rankB_finite y Fy) in Hy.
    pose proof (Bplus_correct prec emax Hprec Hmax mode_NE x y Fx Fy) as C.
    destruct (Rlt_bool_spec (Rabs (rnd (B2R x + B2R y))) (bpow radix2 emax)) as [Hlt|Hge].
    + destruct C as [Cv [Cf _]].
      split; [destruct (Bplus mode_NE x y); try discriminate; reflexivity|].
      rewrite (rankB_finite _ Cf), Cv.
      rewrite <- (repr_small_int 7) by (simpl; lia). apply rnd_le. lra.
    + destruct C as [Co Cs]. unfold binary_overflow in Co. simpl in Co.
      apply B2SF_infinity in Co. rewrite Co.
      destruct (Bsign y) eqn:Sy.
      * apply sign_true_le0 in Sy. lra.
      * rewrite Cs. simpl. split; [reflexivity|lra].
  - destruct y as [s|[|]| |s mm e He]; try discriminate.
    + simpl in Hy. lra.
    + destruct x as [sx|sx| |sx mx ex Hex]; try discriminate; simpl; split; try reflexivity; lra.
Qed.

Lemma mul2_ge8 m : nonnan m -> 4 <= rank m ->
  nonnan (PrimFloat.mul 2%float m) /\ 8 <= rank (PrimFloat.mul 2%float m).
Proof. rewrite !nonnan_B. unfold rank. rewrite mul_equiv. apply Bmult2_ge8. Qed.
Lemma add_ge7 x y : fin x -> -1 <= rank x -> nonnan y -> 8 <= rank y ->
  nonnan (PrimFloat.add x y) /\ 7 <= rank (PrimFloat.add x y).
Proof.
  unfold fin. rewrite !nonnan_B. unfold rank. rewrite add_equiv. intros F H.
  apply Bplus_ge7; [exact F|]. rewrite (rankB_finite _ F) in H. exact H.
Qed.
Lemma nonnan_add_fin x y : nonnan x -> fin y -> 0 <= rank x -> nonnan (PrimFloat.add x y).
Proof.
  unfold fin. rewrite !nonnan_B. unfold rank. rewrite add_equiv. pose proof top_pos. intros Nx Fy Hx.
  destruct (is_finite (Prim2B x)) eqn:Fx; [apply Bplus_nonnan_fin; assumption|].
  destruct (Prim2B x) as [?|[|]| |? ? ? ?]; try discriminate.
  - simpl in Hx. lra.
  - destruct (Prim2B y); try discriminate; reflexivity.
Qed.
Lemma Bminus_nonnan_fin (a b : bfloat) : is_finite a = true -> is_finite b = true ->
  is_nan (Bminus mode_NE a b) = false.
Proof.
  intros Fa Fb. pose proof (Bminus_correct prec emax Hprec Hmax mode_NE a b Fa Fb) as C.
  destruct (Rlt_bool _ _).
  - destruct C as [_ [Cf _]]. destruct (Bminus mode_NE a b); try discriminate; reflexivity.
  - destruct C as [C _]. unfold binary_overflow in C. simpl in C. apply B2SF_infinity in C. rewrite C. reflexivity.
Qed.
