(** C11 — Denormalize: same leaf set, every output cell at the documented level. *)
From Coq Require Import ZArith List Bool Lia ZifyBool Sorted.
From Geo Require Import Base.GoPrim Gen.CellID Model.CellUnion Proofs.C11_Bits Proofs.C11_Cells
  Proofs.C11_Normalize Proofs.C11_Range Proofs.C11_SetOps.
Import ListNotations.
Local Open Scope Z_scope.

Lemma wrap_i64_small x : - 2 ^ 63 <= x < 2 ^ 63 -> wrap_i64 x = x.
Proof.
  intros H. unfold wrap_i64, wrap_i. change (64 - 1) with 63.
  destruct (Z_le_gt_dec 0 x).
  - rewrite Z.mod_small by lia. destruct (x <? 2 ^ 63) eqn:E; lia.
  - replace (x mod 2 ^ 64) with (x + 2 ^ 64).
    + destruct (x + 2 ^ 64 <? 2 ^ 63) eqn:E; lia.
    + apply (Z.mod_unique_pos _ _ (-1)); lia.
Qed.

Lemma findlsb_pow2 j : 0 <= j < 64 -> s2_findLSBSetNonZero64 (2 ^ j) = j.
Proof.
  intros Hj. pose (P := fun j => s2_findLSBSetNonZero64 (2 ^ j) =? j).
  assert (HP : P j = true) by (apply forall_below_64; [vm_compute; reflexivity|exact Hj]).
  unfold P in HP. lia.
Qed.

Lemma findlsb_lsb c : u64 c -> s2_findLSBSetNonZero64 c = s2_findLSBSetNonZero64 (s2_CellID_lsb c).
Proof.
  intros Hu. unfold s2_findLSBSetNonZero64. f_equal. f_equal. f_equal. f_equal. f_equal.
  rewrite <- (wrap_small c Hu) at 1 2. fold (s2_CellID_lsb c).
  (* lsb (lsb c) = lsb c : lsb c is 0 or a power of two *)
  destruct (Z.eq_dec c 0) as [->|Hne]; [reflexivity|].
  destruct (ctz_exists 64 c) as (j & k & Hj & Hc & Hk); [unfold u64 in Hu; cbn; lia|].
  rewrite (lsb_shape c j k Hu ltac:(lia) Hc).
  assert (Hu2 : u64 (2 ^ j)).
  { unfold u64. split; [apply Z.pow_nonneg; lia|]. apply Z.pow_lt_mono_r; cbn in Hj; lia. }
  symmetry. rewrite <- (wrap_small (2 ^ j) Hu2) at 1 2. fold (s2_CellID_lsb (2 ^ j)).
  apply (lsb_shape (2 ^ j) j 0 Hu2); lia.
Qed.

Lemma level_form c s : cellform c s -> s2_CellID_Level c = 30 - s.
Proof.
  intros H. pose proof (cellform_u64 _ _ H) as Hu. unfold s2_CellID_Level.
  rewrite (wrap_small c Hu), (findlsb_lsb c Hu), (cellform_lsb _ _ H).
  destruct H as (Hs & _ & _). rewrite pow4, findlsb_pow2 by lia.
  unfold go_shr. cbn [Z.ltb Z.compare]. rewrite Z.shiftr_div_pow2 by lia. change (2 ^ 1) with 2.
  rewrite Z.mul_comm, Z.div_mul by lia. apply wrap_i64_small. lia.
Qed.

Lemma lsbforlevel_form L : 0 <= L <= 30 -> s2_lsbForLevel L = 4 ^ (30 - L).
Proof.
  intros HL. unfold s2_lsbForLevel.
  rewrite (wrap_i64_small (30 - L)) by lia. rewrite (wrap_i64_small (2 * (30 - L))) by lia.
  rewrite (wrap_small (2 * (30 - L))) by (unfold u64; lia).
  unfold go_shl. destruct (Z.ltb_spec (2 * (30 - L)) 0); [lia|].
  rewrite Z.shiftl_mul_pow2, Z.mul_1_l by lia. rewrite <- pow4 by lia.
  apply wrap_small. pose proof (pow4_bound (30 - L) ltac:(lia)). unfold u64. lia.
Qed.

(** the cells c, c.Next(), ... (k of them) at height s' *)
Lemma iter_next_spec s' : 0 <= s' <= 30 -> forall (k : nat) c, cellform c s' ->
  c - 4 ^ s' + Z.of_nat k * (2 * 4 ^ s') <= 6 * 2 ^ 61 ->
  let l := iter_next k c (c + Z.of_nat k * (2 * 4 ^ s')) in
  Forall (fun d => cellform d s') l /\
  forall x, leaf x -> (cov l x <-> c - 4 ^ s' < x < c - 4 ^ s' + Z.of_nat k * (2 * 4 ^ s')).
Proof.
  intros Hs'. pose proof (pow4_bound s' Hs') as Hw. set (w := 4 ^ s') in *.
  induction k as [|k IH]; intros c H Htop; cbn [iter_next]; cbv zeta.
  - split; [constructor|]. intros x _. pose proof (cov_nil x). split; [tauto|lia].
  - destruct (Z.eqb_spec c (c + Z.of_nat (S k) * (2 * w))) as [E|_]; [lia|].
    rewrite (next_form _ _ H). fold w.
    replace (c + Z.of_nat (S k) * (2 * w)) with ((c + 2 * w) + Z.of_nat k * (2 * w)) by lia.
    destruct k as [|k'].
    + cbn [iter_next]. split; [constructor; [exact H|constructor]|]. intros x Lx. rewrite cov_cons.
      pose proof (cov_nil x). unfold covers. rewrite (rangemin_form _ _ H), (rangemax_form _ _ H). fold w.
      split; [intros [Hc|Hc]; [lia|tauto]|intros Hc; left; lia].
    + assert (HN : cellform (c + 2 * w) s').
      { replace (c + 2 * w) with (s2_CellID_Next c) by (rewrite (next_form _ _ H); reflexivity). apply next_valid; [exact H|]. rewrite (rangemax_form _ _ H). fold w. lia. }
      destruct (IH (c + 2 * w) HN ltac:(lia)) as [F C]. split; [constructor; assumption|].
      intros x Lx. rewrite cov_cons, (C x Lx). unfold covers. rewrite (rangemin_form _ _ H), (rangemax_form _ _ H). fold w.
      pose proof (cellform_parity _ _ H) as Hp. fold w in Hp. unfold leaf in Lx.
      assert (x <> c + w) by (intro; subst x; Z.div_mod_to_equations; lia).
      split; [intros [Hc|Hc]; lia|intros Hc; destruct (Z_lt_le_dec x (c + w)); [left; lia|right; lia]].
Qed.

Lemma denorm_level_bounds level minLevel levelMod : 0 <= level <= 30 -> 0 <= minLevel <= 30 -> 1 <= levelMod ->
  level <= denorm_level level minLevel levelMod <= 30 /\ minLevel <= denorm_level level minLevel levelMod.
Proof.
  intros Hl Hm Hmod. unfold denorm_level, go_rem.
  set (nl0 := if level <? minLevel then minLevel else level).
  assert (H0 : level <= nl0 <= 30 /\ minLevel <= nl0) by (unfold nl0; destruct (Z.ltb_spec level minLevel); lia).
  destruct (Z.ltb_spec 1 levelMod); [|lia].
  pose proof (Z.rem_nonneg (30 - (nl0 - minLevel)) levelMod ltac:(lia) ltac:(lia)).
  destruct (Z.ltb_spec 30 (nl0 + Z.rem (30 - (nl0 - minLevel)) levelMod)); lia.
Qed.

Lemma denorm_level_mod level minLevel levelMod : 0 <= level <= 30 -> 0 <= minLevel <= 30 -> 1 <= levelMod <= 3 ->
  let nl := denorm_level level minLevel levelMod in (nl - minLevel) mod levelMod = 0 \/ nl = 30.
Proof.
  intros Hl Hm Hmod. cbv zeta. unfold denorm_level, go_rem.
  set (nl0 := if level <? minLevel then minLevel else level).
  assert (H0 : level <= nl0 <= 30 /\ minLevel <= nl0) by (unfold nl0; destruct (Z.ltb_spec level minLevel); lia).
  destruct (Z.ltb_spec 1 levelMod).
  - rewrite Z.rem_mod_nonneg by lia.
    destruct (Z.ltb_spec 30 (nl0 + (30 - (nl0 - minLevel)) mod levelMod)); [right; reflexivity|left].
    assert (levelMod = 2 \/ levelMod = 3) as [-> | ->] by lia; Z.div_mod_to_equations; lia.
  - left. assert (levelMod = 1) by lia. subst. apply Z.mod_1_r.
Qed.

Theorem denormalize_spec cu minLevel levelMod : Forall valid cu -> 0 <= minLevel <= 30 -> 1 <= levelMod ->
  Forall valid (cu_Denormalize cu minLevel levelMod) /\
  (forall x, leaf x -> (cov (cu_Denormalize cu minLevel levelMod) x <-> cov cu x)) /\
  (levelMod <= 3 ->
   Forall (fun c => minLevel <= s2_CellID_Level c /\
              ((s2_CellID_Level c - minLevel) mod levelMod = 0 \/ s2_CellID_Level c = 30))
          (cu_Denormalize cu minLevel levelMod)).
Proof.
  intros V Hm Hmod. unfold cu_Denormalize.
  assert (Per : forall id, In id cu ->
    let level := s2_CellID_Level id in
    let newLevel := denorm_level level minLevel levelMod in
    let l := if newLevel =? level then [id]
             else iter_next (Z.to_nat (4 ^ (newLevel - level))) (s2_CellID_ChildBeginAtLevel id newLevel) (s2_CellID_ChildEndAtLevel id newLevel) in
    Forall (fun d => valid d /\ s2_CellID_Level d = newLevel) l /\ forall x, leaf x -> (cov l x <-> covers id x)).
  { intros id Hin. rewrite Forall_forall in V. destruct (valid_cellform _ (V id Hin)) as [s H]. cbv zeta.
    rewrite (level_form _ _ H). pose proof (proj1 H) as Hs.
    destruct (denorm_level_bounds (30 - s) minLevel levelMod ltac:(lia) Hm Hmod) as [Hb _].
    set (L := denorm_level (30 - s) minLevel levelMod) in *.
    destruct (Z.eqb_spec L (30 - s)) as [E|Hne].
    - split; [constructor; [split; [apply V; exact Hin|rewrite (level_form _ _ H); lia]|constructor]|].
      intros x _. rewrite cov_cons. pose proof (cov_nil x). tauto.
    - set (s' := 30 - L). assert (Hs' : 0 <= s' < s) by (unfold s'; lia).
      pose proof (cellform_u64 _ _ H) as Hu. pose proof (cellform_bounds _ _ H) as Hcb.
      pose proof (pow4_bound s Hs) as Hw. pose proof (pow4_bound s' ltac:(lia)) as Hw'.
      assert (EB : s2_CellID_ChildBeginAtLevel id L = id - 4 ^ s + 4 ^ s').
      { unfold s2_CellID_ChildBeginAtLevel. rewrite (cellform_lsb _ _ H), (lsbforlevel_form L ltac:(lia)). fold s'.
        unfold u64 in Hu. rewrite (wrap_small id) by exact Hu. rewrite (wrap_small (id - 4 ^ s)) by (unfold u64; lia).
        rewrite !(wrap_small (id - 4 ^ s + 4 ^ s')) by (unfold u64; lia). reflexivity. }
      assert (EE : s2_CellID_ChildEndAtLevel id L = id + 4 ^ s + 4 ^ s').
      { unfold s2_CellID_ChildEndAtLevel. rewrite (cellform_lsb _ _ H), (lsbforlevel_form L ltac:(lia)). fold s'.
        unfold u64 in Hu. rewrite (wrap_small id) by exact Hu.
        assert (6 * 2 ^ 61 + 2 ^ 60 < 2 ^ 64) by reflexivity.
        rewrite (wrap_small (id + 4 ^ s)) by (unfold u64; lia).
        rewrite !(wrap_small (id + 4 ^ s + 4 ^ s')) by (unfold u64; lia). reflexivity. }
      rewrite EB, EE. replace (L - (30 - s)) with (s - s') by (unfold s'; lia).
      assert (E4 : 4 ^ s = 4 ^ (s - s') * 4 ^ s') by (rewrite <- Z.pow_add_r by lia; f_equal; lia).
      pose proof (pow4_pos (s - s') ltac:(lia)) as Hk. pose proof (pow4_le s' s ltac:(lia)) as Hws.
      set (k := 4 ^ (s - s')) in *. set (w := 4 ^ s') in *.
      assert (CB : cellform (id - 4 ^ s + w) s').
      { destruct (cellform_split _ _ H) as [Ec Hq]. split; [lia|]. split; [|lia].
        set (q := id / (2 * 4 ^ s)) in *.
        replace (id - 4 ^ s + w) with (w + (q * k) * (2 * w)) by (rewrite E4 in Ec; rewrite E4; lia).
        rewrite Z.mod_add by lia. apply Z.mod_small. lia. }
      destruct (iter_next_spec s' ltac:(lia) (Z.to_nat k) _ CB) as [F C].
      { fold w. rewrite Z2Nat.id by lia. rewrite E4. lia. }
      fold w in F, C. rewrite Z2Nat.id in F, C by lia.
      replace (id - 4 ^ s + w + k * (2 * w)) with (id + 4 ^ s + w) in F, C by (rewrite E4; lia).
      split.
      + eapply Forall_impl; [|exact F]. intros d Hd. cbv beta in Hd |- *. split; [eapply cellform_valid; exact Hd|].
        rewrite (level_form _ _ Hd). unfold s'. lia.
      + intros x Lx. rewrite (C x Lx). unfold covers. rewrite (rangemin_form _ _ H), (rangemax_form _ _ H).
        rewrite E4. lia. }
  split; [|split].
  - rewrite Forall_forall. intros d Hd. apply in_flat_map in Hd. destruct Hd as (id & Hin & Hd).
    destruct (Per id Hin) as [F _]. cbv zeta in F. rewrite Forall_forall in F. apply (F d Hd).
  - intros x Lx. rewrite cov_flat_map. split.
    + intros (id & Hin & Hc). exists id. split; [exact Hin|]. apply (proj2 (Per id Hin) x Lx). exact Hc.
    + intros (id & Hin & Hc). exists id. split; [exact Hin|]. apply (proj2 (Per id Hin) x Lx). exact Hc.
  - intros Hmod3. rewrite Forall_forall. intros d Hd. apply in_flat_map in Hd. destruct Hd as (id & Hin & Hd).
    destruct (Per id Hin) as [F _]. cbv zeta in F. rewrite Forall_forall in F. destruct (F d Hd) as [_ EL]. rewrite EL.
    rewrite Forall_forall in V. destruct (valid_cellform _ (V id Hin)) as [s H]. rewrite (level_form _ _ H).
    pose proof (proj1 H) as Hs.
    destruct (denorm_level_bounds (30 - s) minLevel levelMod ltac:(lia) Hm Hmod) as [_ Hb].
    split; [exact Hb|]. apply denorm_level_mod; lia.
Qed.
