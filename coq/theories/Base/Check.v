(** Support for the correspondence files written by the harness: each case is a
    boolean term comparing the model's value with the value the implementation
    produced; [mismatches] lists the indices of the cases that are false. *)
From Coq Require Import List Bool ZArith Floats.
From Geo Require Import Base.GoPrim.
Import ListNotations.

Fixpoint mismatches_from (i : nat) (l : list bool) : list nat :=
  match l with
  | [] => []
  | true :: t => mismatches_from (S i) t
  | false :: t => i :: mismatches_from (S i) t
  end.
Definition mismatches := mismatches_from 0.

Definition pair_beq {A B} (ea : A -> A -> bool) (eb : B -> B -> bool) (x y : A * B) : bool :=
  ea (fst x) (fst y) && eb (snd x) (snd y).
Definition option_beq {A} (e : A -> A -> bool) (x y : option A) : bool :=
  match x, y with Some a, Some b => e a b | None, None => true | _, _ => false end.
