(** Go primitive semantics used by the generated files (Gen/*.v).
    Integers of every Go width are [Z] with the wrap of the type written out;
    float64 is Coq's primitive binary64 ([PrimFloat]), which the kernel and
    [vm_compute] evaluate with the hardware's IEEE-754 operations, i.e. the same
    operations the Go compiler emits on amd64 (GOAMD64=v1, no fused multiply-add).
    Definitions only; facts about them live in Base/GoPrimFacts.v. *)
From Coq Require Import ZArith List Bool Floats SpecFloat Uint63.
Import ListNotations.
Local Open Scope Z_scope.

(** * Integer wrap-around *)
Definition wrap_u (bits : Z) (x : Z) : Z := x mod 2 ^ bits.
Definition wrap_i (bits : Z) (x : Z) : Z :=
  let m := 2 ^ bits in
  let r := x mod m in
  if r <? 2 ^ (bits - 1) then r else r - m.

Definition wrap_u64 := wrap_u 64.
Definition wrap_u32 := wrap_u 32.
Definition wrap_u16 := wrap_u 16.
Definition wrap_u8 := wrap_u 8.
Definition wrap_i64 := wrap_i 64.
Definition wrap_i32 := wrap_i 32.
Definition wrap_i16 := wrap_i 16.
Definition wrap_i8 := wrap_i 8.

(** Go shifts: a count >= width gives 0 (or the sign for signed >>), which is what
    unbounded [Z.shiftl]/[Z.shiftr] give after the wrap of the result type.
    A negative count panics in Go; the model returns the operand (flagged by the
    translator's users where relevant). *)
Definition go_shl (a n : Z) : Z := if n <? 0 then a else Z.shiftl a n.
Definition go_shr (a n : Z) : Z := if n <? 0 then a else Z.shiftr a n.

(** * Lists as arrays/slices *)
Definition nthZ {A} (l : list A) (i : Z) (d : A) : A :=
  if i <? 0 then d else nth (Z.to_nat i) l d.
Fixpoint upd_nat {A} (l : list A) (i : nat) (v : A) : list A :=
  match l, i with
  | [], _ => []
  | _ :: t, O => v :: t
  | h :: t, S j => h :: upd_nat t j v
  end.
Definition updZ {A} (l : list A) (i : Z) (v : A) : list A :=
  if i <? 0 then l else upd_nat l (Z.to_nat i) v.
Fixpoint list_eqb {A} (eq : A -> A -> bool) (a b : list A) : bool :=
  match a, b with
  | [], [] => true
  | x :: a', y :: b' => eq x y && list_eqb eq a' b'
  | _, _ => false
  end.
(** [lo; lo+1; ...; hi-1] *)
Definition zrange_up (lo hi : Z) : list Z :=
  map (fun k => lo + Z.of_nat k) (seq 0 (Z.to_nat (hi - lo))).
(** [hi; hi-1; ...; lo] (inclusive lower bound) *)
Definition zrange_down (hi lo : Z) : list Z :=
  map (fun k => hi - Z.of_nat k) (seq 0 (Z.to_nat (hi - lo + 1))).
Definition enumZ {A} (l : list A) : list (Z * A) :=
  combine (map Z.of_nat (seq 0 (length l))) l.

(** * float64 *)
Local Open Scope float_scope.


Definition go_isnan (x : float) : bool := negb (PrimFloat.eqb x x).
Definition go_signbit (x : float) : bool :=
  match Prim2SF x with
  | S754_zero s => s
  | S754_infinity s => s
  | S754_finite s _ _ => s
  | S754_nan => false
  end.
Definition go_isinf (x : float) (sign : Z) : bool :=
  ((0 <=? sign)%Z && PrimFloat.eqb x infinity) || ((sign <=? 0)%Z && PrimFloat.eqb x neg_infinity).
Definition go_inf (sign : Z) : float := if (0 <=? sign)%Z then infinity else neg_infinity.

(** bit-level equality: distinguishes +0/-0, identifies NaNs *)
Definition fbiteq (x y : float) : bool :=
  if go_isnan x then go_isnan y
  else PrimFloat.eqb x y && Bool.eqb (go_signbit x) (go_signbit y).

(** math.Max / math.Min exactly as documented (and as the amd64 assembly behaves) *)
Definition go_fmax (x y : float) : float :=
  if PrimFloat.eqb x infinity || PrimFloat.eqb y infinity then infinity
  else if go_isnan x || go_isnan y then nan
  else if PrimFloat.eqb x 0 && PrimFloat.eqb x y then (if go_signbit x then y else x)
  else if PrimFloat.ltb y x then x else y.
Definition go_fmin (x y : float) : float :=
  if PrimFloat.eqb x neg_infinity || PrimFloat.eqb y neg_infinity then neg_infinity
  else if go_isnan x || go_isnan y then nan
  else if PrimFloat.eqb x 0 && PrimFloat.eqb x y then (if go_signbit x then x else y)
  else if PrimFloat.ltb x y then x else y.

(** correctly rounded (to nearest even) value of m * 2^e *)
Definition float_of_Z_scaled (m e : Z) : float := SF2Prim (binary_normalize prec emax m e false).
Definition float_of_Z (z : Z) : float := float_of_Z_scaled z 0.

(** truncation toward zero; NaN/Inf give 0 here (Go: implementation-defined) *)
Definition Z_of_float_trunc (x : float) : Z :=
  match Prim2SF x with
  | S754_finite s m e =>
      let a := if (0 <=? e)%Z then (Z.pos m * 2 ^ e)%Z else Z.shiftr (Z.pos m) (- e) in
      if s then (- a)%Z else a
  | _ => 0%Z
  end.

Definition go_copysign (x y : float) : float :=
  if Bool.eqb (go_signbit x) (go_signbit y) then x
  else if go_isnan x then x else PrimFloat.opp x.

Definition go_floor (x : float) : float :=
  match Prim2SF x with
  | S754_finite s m e =>
      if (0 <=? e)%Z then x else
      let q := Z.shiftr (Z.pos m) (- e) in
      let exact := (Z.shiftl q (- e) =? Z.pos m)%Z in
      if s then (if exact then x else PrimFloat.opp (float_of_Z (q + 1)))
      else float_of_Z q
  | _ => x
  end.
Definition go_ceil (x : float) : float := PrimFloat.opp (go_floor (PrimFloat.opp x)).
Definition go_trunc (x : float) : float :=
  if PrimFloat.ltb x 0 then go_ceil x else go_floor x.

(** round half to even on a rational p/q, q > 0 *)
Definition round_half_even (p q : Z) : Z :=
  let f := (p / q)%Z in
  let r2 := (2 * (p - f * q))%Z in
  if (r2 <? q)%Z then f else if (q <? r2)%Z then (f + 1)%Z
  else if Z.even f then f else (f + 1)%Z.

(** math.Remainder: IEEE 754 remainder, exact. *)
Definition go_remainder (x y : float) : float :=
  if go_isnan x || go_isnan y then nan else
  match Prim2SF x, Prim2SF y with
  | S754_infinity _, _ => nan
  | _, S754_zero _ => nan
  | _, S754_infinity _ => x
  | S754_zero _, _ => x
  | S754_finite sx mx ex, S754_finite sy my ey =>
      let e := Z.min ex ey in
      let X := ((if sx then -1 else 1) * Z.pos mx * 2 ^ (ex - e))%Z in
      let Y := (Z.pos my * 2 ^ (ey - e))%Z in
      let n := round_half_even X Y in
      let R := (X - n * Y)%Z in
      if (R =? 0)%Z then (if sx then (-0) else 0) else float_of_Z_scaled R e
  | _, _ => nan
  end.

(** IEEE-754 binary64 bit pattern as an integer in [0, 2^64) and back. *)
Definition go_float64bits (x : float) : Z :=
  match Prim2SF x with
  | S754_zero s => if s then (2 ^ 63)%Z else 0%Z
  | S754_infinity s => ((if s then 2 ^ 63 else 0) + 2047 * 2 ^ 52)%Z
  | S754_nan => (2047 * 2 ^ 52 + 2 ^ 51 + 1)%Z  (* Go's math.NaN() pattern 0x7FF8000000000001 *)
  | S754_finite s m e =>
      let sgn := (if s then 2 ^ 63 else 0)%Z in
      if (Z.pos m <? 2 ^ 52)%Z then (sgn + Z.pos m)%Z  (* subnormal: e = -1074 *)
      else (sgn + (e + 1075) * 2 ^ 52 + (Z.pos m - 2 ^ 52))%Z
  end.
Definition go_float64frombits (b : Z) : float :=
  let s := (2 ^ 63 <=? b)%Z in
  let ex := ((b / 2 ^ 52) mod 2048)%Z in
  let mant := (b mod 2 ^ 52)%Z in
  let mag :=
    if (ex =? 2047)%Z then (if (mant =? 0)%Z then infinity else nan)
    else if (ex =? 0)%Z then float_of_Z_scaled mant (-1074)
    else float_of_Z_scaled (mant + 2 ^ 52) (ex - 1075) in
  if s then PrimFloat.opp mag else mag.

Definition go_nextafter (x y : float) : float :=
  if go_isnan x || go_isnan y then nan
  else if PrimFloat.eqb x y then x
  else if PrimFloat.eqb x 0 then go_copysign (go_float64frombits 1) y
  else if Bool.eqb (PrimFloat.ltb x y) (PrimFloat.ltb 0 x)
       then go_float64frombits (go_float64bits x + 1)
       else go_float64frombits (go_float64bits x - 1).

Definition go_ldexp (x : float) (e : Z) : float :=
  match Prim2SF x with
  | S754_finite s m ex => float_of_Z_scaled (if s then Z.neg m else Z.pos m) (ex + e)
  | _ => x
  end.

(** Payne–Hanek reduction for |x| >= 2^29 is not modelled: the model's trigonometric
    functions return NaN there (marked Diverge in DESIGN.md); the correspondence
    generators stay below that threshold and report if they ever reach it. *)
Definition math_trigReduce (x : float) : Z * float := (0%Z, nan).

(** * math/bits (arguments are in [0, 2^64)) *)
Local Open Scope Z_scope.
Definition go_bits_Len64 (x : Z) : Z := if x <=? 0 then 0 else Z.log2 x + 1.
Definition go_bits_LeadingZeros64 (x : Z) : Z := 64 - go_bits_Len64 x.
Fixpoint go_ctz_pos (p : positive) : Z := match p with xO q => 1 + go_ctz_pos q | _ => 0 end.
Definition go_bits_TrailingZeros64 (x : Z) : Z := match x with Zpos p => go_ctz_pos p | _ => 64 end.
