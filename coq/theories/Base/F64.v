(** Order-theoretic view of float64 used by all comparison-only theorems.
    [rank x] embeds every non-NaN float into the reals, strictly monotonically
    (±infinity go to ±2^1024, beyond every finite float; +0 and -0 both go to 0),
    so that Go's [<], [<=], [==] on non-NaN floats are exactly [Rlt], [Rle], [=]
    on ranks.  Everything is derived from Coq's FloatAxioms through Flocq's
    IEEE754.PrimFloat bridge. *)
From Coq Require Import ZArith Reals Floats Lra Bool Psatz.
From Flocq Require Import Core.Core IEEE754.BinarySingleNaN IEEE754.PrimFloat.
From Geo Require Import Base.GoPrim.
Local Open Scope R_scope.

Notation bfloat := (binary_float prec emax).

Definition top : R := bpow radix2 emax.

Definition rankB (b : bfloat) : R :=
  match b with
  | B754_infinity false => top
  | B754_infinity true => - top
  | _ => B2R b
  end.

Definition rank (x : PrimFloat.float) : R := rankB (Prim2B x).

Definition nonnan (x : PrimFloat.float) : Prop := go_isnan x = false.

Lemma top_pos : 0 < top.
Proof. unfold top. apply bpow_gt_0. Qed.

Lemma go_isnan_equiv x : go_isnan x = is_nan (Prim2B x).
Proof.
  unfold go_isnan. rewrite eqb_equiv, Beqb_refl. apply negb_involutive.
Qed.

Lemma finite_lt_top (b : bfloat) : is_finite b = true -> - top < B2R b < top.
Proof.
  intros _. pose proof (abs_B2R_lt_emax prec emax b) as H.
  unfold top. apply Rabs_def2 in H. lra.
Qed.

Lemma rankB_finite (b : bfloat) : is_finite b = true -> rankB b = B2R b.
Proof. destruct b as [s|[|]| |s m e He]; simpl; try reflexivity; discriminate. Qed.

Lemma rankB_bounds (b : bfloat) : - top <= rankB b <= top.
Proof.
  pose proof top_pos.
  destruct b as [s|[|]| |s m e He]; simpl; try lra.
  pose proof (finite_lt_top (B754_finite s m e He) eq_refl). simpl in *. lra.
Qed.

Lemma Bleb_rank (a b : bfloat) :
  is_nan a = false -> is_nan b = false -> Bleb a b = Rle_bool (rankB a) (rankB b).
Proof.
  intros Ha Hb. pose proof top_pos as Ht.
  destruct (is_finite a) eqn:Fa, (is_finite b) eqn:Fb.
  - rewrite !rankB_finite by assumption. now apply Bleb_correct.
  - destruct b as [sb|[|]| |sb mb eb Heb]; try discriminate;
    pose proof (finite_lt_top a Fa) as Hr; rewrite (rankB_finite a Fa);
    destruct a as [sa|[|]| |sa ma ea Hea]; try discriminate; simpl in *;
    try (destruct sa); try (symmetry; apply Rle_bool_true; lra);
    try (symmetry; apply Rle_bool_false; lra).
  - destruct a as [sa|[|]| |sa ma ea Hea]; try discriminate;
    pose proof (finite_lt_top b Fb) as Hr; rewrite (rankB_finite b Fb);
    destruct b as [sb|[|]| |sb mb eb Heb]; try discriminate; simpl in *;
    try (destruct sb); try (symmetry; apply Rle_bool_true; lra);
    try (symmetry; apply Rle_bool_false; lra).
  - destruct a as [sa|[|]| |sa ma ea Hea]; try discriminate;
    destruct b as [sb|[|]| |sb mb eb Heb]; try discriminate; simpl;
    try (symmetry; apply Rle_bool_true; lra);
    try (symmetry; apply Rle_bool_false; lra).
Qed.

Lemma Bltb_Bleb (a b : bfloat) :
  is_nan a = false -> is_nan b = false -> Bltb a b = negb (Bleb b a).
Proof.
  intros Ha Hb. unfold Bltb, Bleb, SpecFloat.SFltb, SpecFloat.SFleb.
  change (SpecFloat.SFcompare (B2SF a) (B2SF b)) with (Bcompare a b).
  change (SpecFloat.SFcompare (B2SF b) (B2SF a)) with (Bcompare b a).
  rewrite (Bcompare_swap _ _ b a).
  destruct (Bcompare b a) as [[| |]|] eqn:E; simpl; try reflexivity.
  destruct a as [sa|[|]| |sa ma ea Hea]; try discriminate;
  destruct b as [sb|[|]| |sb mb eb Heb]; try discriminate; simpl in E; try discriminate.
Qed.

Lemma Beqb_Bleb (a b : bfloat) :
  is_nan a = false -> is_nan b = false -> Beqb a b = Bleb a b && Bleb b a.
Proof.
  intros Ha Hb. unfold Beqb, Bleb, SpecFloat.SFeqb, SpecFloat.SFleb.
  change (SpecFloat.SFcompare (B2SF a) (B2SF b)) with (Bcompare a b).
  change (SpecFloat.SFcompare (B2SF b) (B2SF a)) with (Bcompare b a).
  rewrite (Bcompare_swap _ _ b a).
  destruct (Bcompare b a) as [[| |]|] eqn:E; simpl; reflexivity.
Qed.

(** ** The three comparison operators on non-NaN primitive floats *)

Lemma leb_rank x y : nonnan x -> nonnan y ->
  PrimFloat.leb x y = Rle_bool (rank x) (rank y).
Proof.
  unfold nonnan. rewrite !go_isnan_equiv. intros Hx Hy.
  rewrite leb_equiv. now apply Bleb_rank.
Qed.

Lemma ltb_rank x y : nonnan x -> nonnan y ->
  PrimFloat.ltb x y = Rlt_bool (rank x) (rank y).
Proof.
  unfold nonnan. rewrite !go_isnan_equiv. intros Hx Hy.
  rewrite ltb_equiv, Bltb_Bleb, Bleb_rank by assumption.
  unfold rank. destruct (Rle_bool_spec (rankB (Prim2B y)) (rankB (Prim2B x)));
  simpl; symmetry; [apply Rlt_bool_false | apply Rlt_bool_true]; lra.
Qed.

Lemma eqb_rank x y : nonnan x -> nonnan y ->
  PrimFloat.eqb x y = Req_bool (rank x) (rank y).
Proof.
  unfold nonnan. rewrite !go_isnan_equiv. intros Hx Hy.
  rewrite eqb_equiv, Beqb_Bleb, !Bleb_rank by assumption. unfold rank.
  destruct (Rle_bool_spec (rankB (Prim2B x)) (rankB (Prim2B y)));
  destruct (Rle_bool_spec (rankB (Prim2B y)) (rankB (Prim2B x))); simpl; symmetry;
  try (apply Req_bool_true; lra); apply Req_bool_false; lra.
Qed.

(** Propositional forms, convenient with [lra]. *)
Lemma leb_true_iff x y : nonnan x -> nonnan y -> (PrimFloat.leb x y = true <-> rank x <= rank y).
Proof.
  intros Hx Hy. rewrite leb_rank by assumption.
  destruct (Rle_bool_spec (rank x) (rank y)); split; intros; try lra; try reflexivity; discriminate.
Qed.
Lemma leb_false_iff x y : nonnan x -> nonnan y -> (PrimFloat.leb x y = false <-> rank y < rank x).
Proof.
  intros Hx Hy. rewrite leb_rank by assumption.
  destruct (Rle_bool_spec (rank x) (rank y)); split; intros; try lra; try reflexivity; discriminate.
Qed.
Lemma ltb_true_iff x y : nonnan x -> nonnan y -> (PrimFloat.ltb x y = true <-> rank x < rank y).
Proof.
  intros Hx Hy. rewrite ltb_rank by assumption.
  destruct (Rlt_bool_spec (rank x) (rank y)); split; intros; try lra; try reflexivity; discriminate.
Qed.
Lemma ltb_false_iff x y : nonnan x -> nonnan y -> (PrimFloat.ltb x y = false <-> rank y <= rank x).
Proof.
  intros Hx Hy. rewrite ltb_rank by assumption.
  destruct (Rlt_bool_spec (rank x) (rank y)); split; intros; try lra; try reflexivity; discriminate.
Qed.
Lemma eqb_true_iff x y : nonnan x -> nonnan y -> (PrimFloat.eqb x y = true <-> rank x = rank y).
Proof.
  intros Hx Hy. rewrite eqb_rank by assumption.
  destruct (Req_bool_spec (rank x) (rank y)); split; intros; try lra; try reflexivity; try discriminate; try contradiction.
Qed.
Lemma eqb_false_iff x y : nonnan x -> nonnan y -> (PrimFloat.eqb x y = false <-> rank x <> rank y).
Proof.
  intros Hx Hy. rewrite eqb_rank by assumption.
  destruct (Req_bool_spec (rank x) (rank y)); split; intros; try reflexivity; try discriminate; try assumption; try contradiction.
Qed.

(** math.Max / math.Min on non-NaN arguments *)
Lemma rank_infinity : rank infinity = top.
Proof. unfold rank. rewrite infinity_equiv, Prim2B_B2Prim. reflexivity. Qed.
Lemma rank_neg_infinity : rank neg_infinity = - top.
Proof. unfold rank. rewrite neg_infinity_equiv, Prim2B_B2Prim. reflexivity. Qed.
Lemma nonnan_infinity : nonnan infinity.
Proof. reflexivity. Qed.
Lemma nonnan_neg_infinity : nonnan neg_infinity.
Proof. reflexivity. Qed.
Lemma rank_bounds x : - top <= rank x <= top.
Proof. apply rankB_bounds. Qed.

Lemma go_fmax_rank x y : nonnan x -> nonnan y ->
  nonnan (go_fmax x y) /\ rank (go_fmax x y) = Rmax (rank x) (rank y).
Proof.
  intros Hx Hy. unfold go_fmax.
  pose proof (rank_bounds x). pose proof (rank_bounds y).
  destruct (PrimFloat.eqb x infinity) eqn:E1.
  { apply eqb_true_iff in E1; auto using nonnan_infinity. rewrite rank_infinity in E1.
    simpl. split; [reflexivity|]. rewrite rank_infinity, E1. rewrite Rmax_left; lra. }
  destruct (PrimFloat.eqb y infinity) eqn:E2.
  { apply eqb_true_iff in E2; auto using nonnan_infinity. rewrite rank_infinity in E2.
    simpl. split; [reflexivity|]. rewrite rank_infinity, E2. rewrite Rmax_right; lra. }
  simpl. rewrite Hx, Hy. simpl.
  destruct (PrimFloat.eqb x 0 && PrimFloat.eqb x y) eqn:E3.
  { apply andb_true_iff in E3. destruct E3 as [_ E3].
    apply eqb_true_iff in E3; auto.
    destruct (go_signbit x); (split; [assumption|]); rewrite E3; rewrite Rmax_left; lra. }
  destruct (PrimFloat.ltb y x) eqn:E4.
  - apply ltb_true_iff in E4; auto. split; auto. rewrite Rmax_left; lra.
  - apply ltb_false_iff in E4; auto. split; auto. rewrite Rmax_right; lra.
Qed.

Lemma go_fmin_rank x y : nonnan x -> nonnan y ->
  nonnan (go_fmin x y) /\ rank (go_fmin x y) = Rmin (rank x) (rank y).
Proof.
  intros Hx Hy. unfold go_fmin.
  pose proof (rank_bounds x). pose proof (rank_bounds y).
  destruct (PrimFloat.eqb x neg_infinity) eqn:E1.
  { apply eqb_true_iff in E1; auto using nonnan_neg_infinity. rewrite rank_neg_infinity in E1.
    simpl. split; [reflexivity|]. rewrite rank_neg_infinity, E1. rewrite Rmin_left; lra. }
  destruct (PrimFloat.eqb y neg_infinity) eqn:E2.
  { apply eqb_true_iff in E2; auto using nonnan_neg_infinity. rewrite rank_neg_infinity in E2.
    simpl. split; [reflexivity|]. rewrite rank_neg_infinity, E2. rewrite Rmin_right; lra. }
  simpl. rewrite Hx, Hy. simpl.
  destruct (PrimFloat.eqb x 0 && PrimFloat.eqb x y) eqn:E3.
  { apply andb_true_iff in E3. destruct E3 as [_ E3].
    apply eqb_true_iff in E3; auto.
    destruct (go_signbit x); (split; [assumption|]); rewrite E3; rewrite Rmin_left; lra. }
  destruct (PrimFloat.ltb x y) eqn:E4.
  - apply ltb_true_iff in E4; auto. split; auto. rewrite Rmin_left; lra.
  - apply ltb_false_iff in E4; auto. split; auto. rewrite Rmin_right; lra.
Qed.

(** A tactic that turns every float comparison in the context/goal whose arguments
    are known non-NaN into a real (in)equality on ranks. *)
Ltac nonnan_solve := assumption || (apply nonnan_infinity) || (apply nonnan_neg_infinity) || reflexivity.
Ltac float_cmp_to_R :=
  repeat match goal with
  | H : PrimFloat.leb ?x ?y = true |- _ => apply (proj1 (leb_true_iff x y ltac:(nonnan_solve) ltac:(nonnan_solve))) in H
  | H : PrimFloat.leb ?x ?y = false |- _ => apply (proj1 (leb_false_iff x y ltac:(nonnan_solve) ltac:(nonnan_solve))) in H
  | H : PrimFloat.ltb ?x ?y = true |- _ => apply (proj1 (ltb_true_iff x y ltac:(nonnan_solve) ltac:(nonnan_solve))) in H
  | H : PrimFloat.ltb ?x ?y = false |- _ => apply (proj1 (ltb_false_iff x y ltac:(nonnan_solve) ltac:(nonnan_solve))) in H
  | H : PrimFloat.eqb ?x ?y = true |- _ => apply (proj1 (eqb_true_iff x y ltac:(nonnan_solve) ltac:(nonnan_solve))) in H
  | H : PrimFloat.eqb ?x ?y = false |- _ => apply (proj1 (eqb_false_iff x y ltac:(nonnan_solve) ltac:(nonnan_solve))) in H
  | |- PrimFloat.leb ?x ?y = true => apply (proj2 (leb_true_iff x y ltac:(nonnan_solve) ltac:(nonnan_solve)))
  | |- PrimFloat.leb ?x ?y = false => apply (proj2 (leb_false_iff x y ltac:(nonnan_solve) ltac:(nonnan_solve)))
  | |- PrimFloat.ltb ?x ?y = true => apply (proj2 (ltb_true_iff x y ltac:(nonnan_solve) ltac:(nonnan_solve)))
  | |- PrimFloat.ltb ?x ?y = false => apply (proj2 (ltb_false_iff x y ltac:(nonnan_solve) ltac:(nonnan_solve)))
  | |- PrimFloat.eqb ?x ?y = true => apply (proj2 (eqb_true_iff x y ltac:(nonnan_solve) ltac:(nonnan_solve)))
  | |- PrimFloat.eqb ?x ?y = false => apply (proj2 (eqb_false_iff x y ltac:(nonnan_solve) ltac:(nonnan_solve)))
  end.
