(** Byte-level primitives shared by the codec model (C09, C15).

    A byte is a [Z] in [0,256).  This file gives
    - little-endian fixed-width write/read ([le_bytes], [le_val]) for 1,2,4,8 bytes,
      float64 through [go_float64bits]/[go_float64frombits];
    - Go's [binary.PutUvarint] / [binary.ReadUvarint] with the exact overflow rule of
      encoding/binary/varint.go (at most 10 bytes; the 10th byte must be 0 or 1);
    - the sticky-error reader of s2/encode.go ([decoder]): once the status is not [SOk]
      every read returns 0 and leaves the state unchanged;
    - a counted loop [rep] that is structurally recursive on the (binary) count and
      stops iterating once the reader has failed (the remaining iterations of the Go
      loop are no-ops on a failed decoder);
    and the lemmas: read-after-write is the identity for each width, the uvarint round
    trip for every x < 2^64, totality/range facts of the readers. *)
From Coq Require Import ZArith List Bool Lia Floats.
From Geo Require Import Base.GoPrim.
Import ListNotations.
Local Open Scope Z_scope.

(** * Bytes *)
Definition byte_ok (b : Z) : Prop := 0 <= b < 256.
Definition bytes_ok (bs : list Z) : Prop := Forall byte_ok bs.

(** [n] little-endian bytes of [x] (the low [8n] bits) *)
Fixpoint le_bytes (n : nat) (x : Z) : list Z :=
  match n with
  | O => []
  | S k => (x mod 256) :: le_bytes k (x / 256)
  end.
Fixpoint le_val (bs : list Z) : Z :=
  match bs with
  | [] => 0
  | b :: t => b + 256 * le_val t
  end.

Lemma le_bytes_length n x : length (le_bytes n x) = n.
Proof. revert x; induction n; intros; cbn; auto. Qed.

Lemma le_bytes_ok n x : bytes_ok (le_bytes n x).
Proof.
  revert x; induction n; intros; cbn; constructor.
  - unfold byte_ok. apply Z.mod_pos_bound. lia.
  - apply IHn.
Qed.

Lemma le_val_le_bytes n x : 0 <= x < 256 ^ Z.of_nat n -> le_val (le_bytes n x) = x.
Proof.
  revert x; induction n; intros x Hx.
  - cbn in *. lia.
  - cbn [le_bytes le_val]. rewrite IHn.
    + pose proof (Z.div_mod x 256). lia.
    + rewrite Nat2Z.inj_succ, Z.pow_succ_r in Hx by lia.
      split. { apply Z.div_pos; lia. } apply Z.div_lt_upper_bound; lia.
Qed.

Lemma le_val_range bs : bytes_ok bs -> 0 <= le_val bs < 256 ^ Z.of_nat (length bs).
Proof.
  induction 1 as [|b t Hb Ht IH]; cbn [le_val length].
  - cbn. lia.
  - rewrite Nat2Z.inj_succ, Z.pow_succ_r by lia. unfold byte_ok in Hb. lia.
Qed.

Lemma le_bytes_le_val bs : bytes_ok bs -> le_bytes (length bs) (le_val bs) = bs.
Proof.
  induction 1 as [|b t Hb Ht IH]; cbn [le_val length le_bytes]; auto.
  unfold byte_ok in Hb.
  assert (H1 : (b + 256 * le_val t) mod 256 = b) by (Z.div_mod_to_equations; lia).
  assert (H2 : (b + 256 * le_val t) / 256 = le_val t) by (Z.div_mod_to_equations; lia).
  rewrite H1, H2.
  now rewrite IH.
Qed.

(** * Uvarint (encoding/binary/varint.go) *)

(** [PutUvarint]: 7 bits per byte, low group first, high bit = "more follows".
    [fuel] is the number of continuation bytes still allowed (9 for a uint64). *)
Fixpoint put_uvarint_fuel (fuel : nat) (x : Z) : list Z :=
  match fuel with
  | O => [x mod 256]
  | S k => if x <? 128 then [x] else (x mod 128 + 128) :: put_uvarint_fuel k (x / 128)
  end.
Definition put_uvarint (x : Z) : list Z := put_uvarint_fuel 9 x.

Inductive uv_result := UvOk (x : Z) (rest : list Z) | UvErr.

(** [ReadUvarint]: [i] = number of bytes that may still be read (10 at the start),
    [s] = current shift, [x] = accumulated value.  Errors: end of input, a 10th byte
    greater than 1, or ten continuation bytes (overflow). *)
Fixpoint read_uvarint_aux (i : nat) (s x : Z) (bs : list Z) : uv_result :=
  match i with
  | O => UvErr
  | S i' =>
    match bs with
    | [] => UvErr
    | b :: t =>
      if b <? 128 then
        (if Nat.eqb i' 0 && (1 <? b) then UvErr else UvOk (Z.lor x (Z.shiftl b s)) t)
      else read_uvarint_aux i' (s + 7) (Z.lor x (Z.shiftl (Z.land b 127) s)) t
    end
  end.
Definition read_uvarint_pure (bs : list Z) : uv_result := read_uvarint_aux 10 0 0 bs.

Lemma lor_shiftl_add a b s : 0 <= s -> 0 <= a < 2 ^ s -> 0 <= b ->
  Z.lor a (Z.shiftl b s) = a + b * 2 ^ s.
Proof.
  intros Hs Ha Hb.
  assert (Hl : Z.land a (Z.shiftl b s) = 0).
  { apply Z.bits_inj'. intros n Hn. rewrite Z.land_spec, Z.bits_0.
    destruct (Z.lt_ge_cases n s) as [Hlt|Hge].
    - rewrite Z.shiftl_spec_low by lia. apply andb_false_r.
    - replace a with (a mod 2 ^ s) by (apply Z.mod_small; lia).
      rewrite Z.mod_pow2_bits_high by lia. reflexivity. }
  rewrite <- Z.lxor_lor by exact Hl.
  rewrite <- Z.add_nocarry_lxor by exact Hl.
  now rewrite Z.shiftl_mul_pow2 by lia.
Qed.

Lemma put_uvarint_fuel_ok k x : 0 <= x -> bytes_ok (put_uvarint_fuel k x).
Proof.
  revert x; induction k; intros x Hx; cbn [put_uvarint_fuel].
  - constructor; [|constructor]. unfold byte_ok. apply Z.mod_pos_bound; lia.
  - destruct (x <? 128) eqn:E.
    + constructor; [|constructor]. unfold byte_ok. lia.
    + constructor.
      * unfold byte_ok. pose proof (Z.mod_pos_bound x 128). lia.
      * apply IHk. apply Z.div_pos; lia.
Qed.

Lemma put_uvarint_ok x : 0 <= x -> bytes_ok (put_uvarint x).
Proof. apply put_uvarint_fuel_ok. Qed.

Lemma put_uvarint_fuel_length k x : (1 <= length (put_uvarint_fuel k x) <= S k)%nat.
Proof.
  revert x; induction k; intros x; cbn [put_uvarint_fuel length]; [lia|].
  destruct (x <? 128); cbn [length]; [lia|]. specialize (IHk (x / 128)). lia.
Qed.

Lemma put_uvarint_nonempty x : put_uvarint x <> [].
Proof.
  unfold put_uvarint. pose proof (put_uvarint_fuel_length 9 x).
  destruct (put_uvarint_fuel 9 x); cbn in *; [lia|discriminate].
Qed.

Lemma read_uvarint_aux_cons i s x b t :
  read_uvarint_aux (S i) s x (b :: t) =
  if b <? 128 then
    (if Nat.eqb i 0 && (1 <? b) then UvErr else UvOk (Z.lor x (Z.shiftl b s)) t)
  else read_uvarint_aux i (s + 7) (Z.lor x (Z.shiftl (Z.land b 127) s)) t.
Proof. reflexivity. Qed.

(** reading what [put_uvarint_fuel k y] wrote, with [k+1] bytes still allowed *)
Lemma read_put_uvarint_aux k : forall s acc y t,
  0 <= s -> 0 <= acc < 2 ^ s -> 0 <= y < 2 ^ (7 * Z.of_nat k + 1) ->
  read_uvarint_aux (S k) s acc (put_uvarint_fuel k y ++ t) = UvOk (acc + y * 2 ^ s) t.
Proof.
  induction k; intros s acc y t Hs Hacc Hy.
  - cbn [put_uvarint_fuel app read_uvarint_aux]. cbn in Hy.
    rewrite Z.mod_small by lia.
    replace (y <? 128) with true by (symmetry; apply Z.ltb_lt; lia).
    replace (1 <? y) with false by (symmetry; apply Z.ltb_ge; lia).
    cbn. now rewrite lor_shiftl_add by lia.
  - cbn [put_uvarint_fuel]. destruct (y <? 128) eqn:E.
    + apply Z.ltb_lt in E. cbn [app]. rewrite read_uvarint_aux_cons. rewrite (proj2 (Z.ltb_lt _ _) E).
      cbn [Nat.eqb andb]. now rewrite lor_shiftl_add by lia.
    + apply Z.ltb_ge in E. rewrite <- app_comm_cons. rewrite read_uvarint_aux_cons.
      pose proof (Z.mod_pos_bound y 128 ltac:(lia)) as Hm.
      replace (y mod 128 + 128 <? 128) with false by (symmetry; apply Z.ltb_ge; lia).
      assert (Hland : Z.land (y mod 128 + 128) 127 = y mod 128).
      { change 127 with (Z.ones 7). rewrite Z.land_ones by lia.
        change (2 ^ 7) with 128. rewrite <- Z.add_mod_idemp_r by lia.
        change (128 mod 128) with 0. rewrite Z.add_0_r. apply Z.mod_small. lia. }
      rewrite Hland. rewrite lor_shiftl_add by lia.
      rewrite IHk.
      * f_equal. rewrite Z.pow_add_r by lia. pose proof (Z.div_mod y 128). change (2 ^ 7) with 128. nia.
      * lia.
      * rewrite Z.pow_add_r by lia. change (2 ^ 7) with 128.
        assert (2 ^ s > 0) by (apply Z.lt_gt, Z.pow_pos_nonneg; lia). nia.
      * split. { apply Z.div_pos; lia. }
        apply Z.div_lt_upper_bound; [lia|].
        replace (7 * Z.of_nat (S k) + 1) with (7 + (7 * Z.of_nat k + 1)) in Hy by lia.
        rewrite Z.pow_add_r in Hy by lia. change (2 ^ 7) with 128 in Hy. lia.
Qed.

(** Uvarint round trip for every uint64. *)
Theorem uvarint_roundtrip x t : 0 <= x < 2 ^ 64 ->
  read_uvarint_pure (put_uvarint x ++ t) = UvOk x t.
Proof.
  intros Hx. unfold read_uvarint_pure, put_uvarint.
  rewrite (read_put_uvarint_aux 9 0 0 x t); try (cbn; lia).
  f_equal. cbn. lia.
Qed.

(** The reader is total by construction (a Coq function); on success it consumed at
    least one byte and returns a suffix of its input. *)
Lemma read_uvarint_aux_suffix i : forall s x bs v rest,
  read_uvarint_aux i s x bs = UvOk v rest -> exists pre, bs = pre ++ rest /\ pre <> [].
Proof.
  induction i; intros s x bs v rest H; cbn in H; [discriminate|].
  destruct bs as [|b t]; [discriminate|].
  destruct (b <? 128).
  - destruct (Nat.eqb i 0 && (1 <? b)); inversion H; subst. exists [b]. split; [reflexivity|discriminate].
  - apply IHi in H. destruct H as [pre [-> _]]. exists (b :: pre). split; [reflexivity|discriminate].
Qed.

Lemma read_uvarint_suffix bs v rest :
  read_uvarint_pure bs = UvOk v rest -> exists pre, bs = pre ++ rest /\ pre <> [].
Proof. apply read_uvarint_aux_suffix. Qed.

Lemma read_uvarint_aux_range i : forall s x bs v rest,
  bytes_ok bs -> 0 <= s -> s = 7 * (10 - Z.of_nat i) -> 0 <= x < 2 ^ s ->
  read_uvarint_aux i s x bs = UvOk v rest -> 0 <= v < 2 ^ 64.
Proof.
  induction i; intros s x bs v rest Hbs Hs Hsi Hx H; [discriminate|].
  destruct bs as [|b t]; [discriminate|]. rewrite read_uvarint_aux_cons in H.
  apply Forall_cons_iff in Hbs. destruct Hbs as [Hb Ht]. unfold byte_ok in Hb.
  destruct (b <? 128) eqn:E.
  - apply Z.ltb_lt in E.
    destruct (Nat.eqb i 0 && (1 <? b)) eqn:E2; [discriminate|]. injection H as Hv Hr. subst v.
    rewrite lor_shiftl_add by lia.
    apply andb_false_iff in E2. destruct E2 as [E2|E2].
    + apply Nat.eqb_neq in E2.
      assert (s + 7 <= 63) by lia.
      assert (2 ^ (s + 7) <= 2 ^ 63) by (apply Z.pow_le_mono_r; lia).
      rewrite Z.pow_add_r in H0 by lia. change (2 ^ 7) with 128 in H0.
      change (2 ^ 64) with (2 * 2 ^ 63). nia.
    + apply Z.ltb_ge in E2.
      assert (2 ^ s <= 2 ^ 63) by (apply Z.pow_le_mono_r; lia).
      change (2 ^ 64) with (2 * 2 ^ 63). nia.
  - apply Z.ltb_ge in E.
    destruct i as [|i]; [discriminate|].
    eapply IHi in H; eauto; try lia.
    assert (Hl : 0 <= Z.land b 127 < 128).
    { change 127 with (Z.ones 7). rewrite Z.land_ones by lia. apply Z.mod_pos_bound. lia. }
    rewrite lor_shiftl_add by lia.
    rewrite Z.pow_add_r by lia. change (2 ^ 7) with 128.
    assert (2 ^ s > 0) by (apply Z.lt_gt, Z.pow_pos_nonneg; lia). nia.
Qed.

Lemma read_uvarint_range bs v rest : bytes_ok bs ->
  read_uvarint_pure bs = UvOk v rest -> 0 <= v < 2 ^ 64.
Proof.
  intros Hbs H. eapply (read_uvarint_aux_range 10 0 0); eauto; cbn; lia.
Qed.

(** * The sticky-error reader (s2/encode.go, type decoder) *)

Inductive status := SOk | SErr | SPanic.

(** kinds of allocation whose element count comes from the input *)
Inductive alloc_kind := AVertices | ALoops | ACells | AFaceRuns.

Record dec := mkdec { d_rest : list Z; d_st : status; d_log : list (alloc_kind * Z) }.

Definition dec_init (bs : list Z) : dec := mkdec bs SOk [].
Definition failed (d : dec) : bool := match d_st d with SOk => false | _ => true end.
(** [d.err = errors.New(...)]; a pending panic is never overwritten *)
Definition set_err (d : dec) : dec :=
  match d_st d with SPanic => d | _ => mkdec (d_rest d) SErr (d_log d) end.
Definition set_panic (d : dec) : dec := mkdec (d_rest d) SPanic (d_log d).

(** largest element count [make] accepts before "len out of range" (conservative: 2^47) *)
Definition max_make : Z := 2 ^ 47.
(** [make([]T, n)] with [n] taken from the input: panics on a negative or absurd length,
    otherwise the request is recorded in the allocation log. *)
Definition go_make (k : alloc_kind) (n : Z) (d : dec) : dec :=
  if failed d then d
  else if (n <? 0) || (max_make <? n) then set_panic d
  else mkdec (d_rest d) SOk ((k, n) :: d_log d).

(** read [n] bytes little-endian; fewer than [n] available => error (io.ReadFull / binary.Read) *)
Definition read_le (n : nat) (d : dec) : Z * dec :=
  if failed d then (0, d)
  else if (length (d_rest d) <? n)%nat then (0, mkdec [] SErr (d_log d))
  else (le_val (firstn n (d_rest d)), mkdec (skipn n (d_rest d)) SOk (d_log d)).

Definition read_u8 := read_le 1.
Definition read_u16 := read_le 2.
Definition read_u32 := read_le 4.
Definition read_u64 := read_le 8.
Definition read_i8 (d : dec) : Z * dec := let '(b, d) := read_u8 d in (wrap_i8 b, d).
Definition read_i64 (d : dec) : Z * dec := let '(b, d) := read_u64 d in (wrap_i64 b, d).
(** readBool: [val == 1] on the int8 read *)
Definition read_bool (d : dec) : bool * dec := let '(b, d) := read_i8 d in (b =? 1, d).
(** float64 values travel as their 64-bit patterns; [read_f64]/[write_f64] are the float views *)
Definition read_f64 (d : dec) : float * dec := let '(b, d) := read_u64 d in (go_float64frombits b, d).
Definition write_f64 (x : float) : list Z := le_bytes 8 (go_float64bits x).

Definition read_uvarint (d : dec) : Z * dec :=
  if failed d then (0, d)
  else match read_uvarint_pure (d_rest d) with
       | UvOk x rest => (x, mkdec rest SOk (d_log d))
       | UvErr => (0, mkdec [] SErr (d_log d))
       end.

(** * Counted loops *)
Fixpoint iter_n {A} (n : nat) (f : A -> A) (a : A) : A :=
  match n with O => a | S k => iter_n k f (f a) end.

Lemma iter_n_add {A} (f : A -> A) n m (a : A) : iter_n (n + m) f a = iter_n m f (iter_n n f a).
Proof. revert a; induction n; intros; cbn [iter_n Nat.add]; auto. Qed.

Section Rep.
  Context {St : Type} (stop : St -> bool) (body : St -> St).
  (** [body] applied [p] times, except that nothing more happens once [stop] holds *)
  Fixpoint rep_pos (p : positive) (s : St) : St :=
    if stop s then s else
    match p with
    | xH => body s
    | xO q => rep_pos q (rep_pos q s)
    | xI q => rep_pos q (rep_pos q (body s))
    end.
  Definition rep (n : Z) (s : St) : St :=
    match n with Zpos p => rep_pos p s | _ => s end.

  Definition step (s : St) : St := if stop s then s else body s.

  Lemma iter_step_stop n s : stop s = true -> iter_n n step s = s.
  Proof.
    intros H. induction n; cbn [iter_n]; auto.
    replace (step s) with s; auto. unfold step. now rewrite H.
  Qed.

  Lemma rep_pos_iter p : forall s, rep_pos p s = iter_n (Pos.to_nat p) step s.
  Proof.
    induction p; intros s; cbn [rep_pos]; destruct (stop s) eqn:E.
    - now rewrite iter_step_stop.
    - rewrite !IHp. rewrite Pos2Nat.inj_xI.
      replace (S (2 * Pos.to_nat p)) with (1 + (Pos.to_nat p + Pos.to_nat p))%nat by lia.
      rewrite !iter_n_add. cbn [iter_n]. replace (step s) with (body s) by (unfold step; now rewrite E). reflexivity.
    - now rewrite iter_step_stop.
    - rewrite !IHp. rewrite Pos2Nat.inj_xO.
      replace (2 * Pos.to_nat p)%nat with (Pos.to_nat p + Pos.to_nat p)%nat by lia.
      now rewrite iter_n_add.
    - now rewrite iter_step_stop.
    - change (Pos.to_nat 1) with 1%nat. cbn [iter_n]. unfold step. now rewrite E.
  Qed.

  Lemma rep_iter n s : rep n s = iter_n (Z.to_nat n) step s.
  Proof.
    destruct n; cbn [rep Z.to_nat iter_n]; auto. apply rep_pos_iter.
  Qed.

  Lemma rep_succ n s : 0 <= n -> rep (n + 1) s = rep n (step s).
  Proof.
    intros H. rewrite !rep_iter. rewrite Z2Nat.inj_add by lia.
    change (Z.to_nat 1) with 1%nat. rewrite Nat.add_comm. reflexivity.
  Qed.

  Lemma rep_of_nat_succ n s : rep (Z.of_nat (S n)) s = rep (Z.of_nat n) (step s).
  Proof. rewrite Nat2Z.inj_succ. unfold Z.succ. apply rep_succ. lia. Qed.

  Lemma rep_zero s : rep 0 s = s.
  Proof. reflexivity. Qed.

  Lemma rep_stop n s : stop s = true -> rep n s = s.
  Proof. intros. rewrite rep_iter. now apply iter_step_stop. Qed.

  (** invariants are preserved *)
  Lemma rep_inv (P : St -> Prop) :
    (forall s, P s -> stop s = false -> P (body s)) -> forall n s, P s -> P (rep n s).
  Proof.
    intros Hb n s Hs. rewrite rep_iter. revert s Hs. induction (Z.to_nat n); intros s Hs; cbn [iter_n]; auto.
    apply IHn0. unfold step. destruct (stop s) eqn:E; auto.
  Qed.
End Rep.

(** * Facts about the reader *)

Lemma read_le_failed n d : failed d = true -> read_le n d = (0, d).
Proof. unfold read_le. now intros ->. Qed.

Lemma read_uvarint_failed d : failed d = true -> read_uvarint d = (0, d).
Proof. unfold read_uvarint. now intros ->. Qed.

(** no read ever panics, and none touches the allocation log *)
Lemma read_le_st n d : d_st (snd (read_le n d)) = SPanic -> d_st d = SPanic.
Proof.
  unfold read_le, failed. destruct (d_st d) eqn:E; [|cbn; rewrite ?E; auto..].
  destruct (length (d_rest d) <? n)%nat; cbn; congruence.
Qed.
Lemma read_le_log n d : d_log (snd (read_le n d)) = d_log d.
Proof.
  unfold read_le. destruct (failed d); [reflexivity|].
  destruct (length (d_rest d) <? n)%nat; reflexivity.
Qed.
Lemma read_uvarint_st d : d_st (snd (read_uvarint d)) = SPanic -> d_st d = SPanic.
Proof.
  unfold read_uvarint, failed. destruct (d_st d) eqn:E; [|cbn; rewrite ?E; auto..].
  destruct (read_uvarint_pure (d_rest d)); cbn; congruence.
Qed.
Lemma read_uvarint_log d : d_log (snd (read_uvarint d)) = d_log d.
Proof.
  unfold read_uvarint. destruct (failed d); [reflexivity|].
  destruct (read_uvarint_pure (d_rest d)); reflexivity.
Qed.

(** read after write, each width *)
Lemma read_le_app n x t lg : 0 <= x < 256 ^ Z.of_nat n ->
  read_le n (mkdec (le_bytes n x ++ t) SOk lg) = (x, mkdec t SOk lg).
Proof.
  intros Hx. unfold read_le. cbn [failed d_st d_rest d_log].
  rewrite app_length, le_bytes_length.
  replace (n + length t <? n)%nat with false by (symmetry; apply Nat.ltb_ge; lia).
  rewrite firstn_app, le_bytes_length, Nat.sub_diag, firstn_O, app_nil_r.
  rewrite firstn_all2 by (rewrite le_bytes_length; lia).
  rewrite skipn_app, le_bytes_length, Nat.sub_diag, skipn_O.
  rewrite skipn_all2 by (rewrite le_bytes_length; lia).
  now rewrite le_val_le_bytes.
Qed.

Lemma read_u8_write x t lg : 0 <= x < 2 ^ 8 ->
  read_u8 (mkdec (le_bytes 1 x ++ t) SOk lg) = (x, mkdec t SOk lg).
Proof. intros. apply read_le_app. cbn; lia. Qed.
Lemma read_u16_write x t lg : 0 <= x < 2 ^ 16 ->
  read_u16 (mkdec (le_bytes 2 x ++ t) SOk lg) = (x, mkdec t SOk lg).
Proof. intros. apply read_le_app. cbn; lia. Qed.
Lemma read_u32_write x t lg : 0 <= x < 2 ^ 32 ->
  read_u32 (mkdec (le_bytes 4 x ++ t) SOk lg) = (x, mkdec t SOk lg).
Proof. intros. apply read_le_app. cbn; lia. Qed.
Lemma read_u64_write x t lg : 0 <= x < 2 ^ 64 ->
  read_u64 (mkdec (le_bytes 8 x ++ t) SOk lg) = (x, mkdec t SOk lg).
Proof. intros. apply read_le_app. cbn; lia. Qed.

Lemma read_uvarint_write x t lg : 0 <= x < 2 ^ 64 ->
  read_uvarint (mkdec (put_uvarint x ++ t) SOk lg) = (x, mkdec t SOk lg).
Proof.
  intros Hx. unfold read_uvarint. cbn [failed d_st d_rest d_log].
  now rewrite uvarint_roundtrip.
Qed.

Lemma Forall_firstn_skipn {A} (P : A -> Prop) n l : Forall P l -> Forall P (firstn n l) /\ Forall P (skipn n l).
Proof. intros H. rewrite <- (firstn_skipn n l) in H. now apply Forall_app in H. Qed.

(** every value a read returns is in the range of its type *)
Lemma read_le_range n d : bytes_ok (d_rest d) ->
  0 <= fst (read_le n d) < 256 ^ Z.of_nat n /\ bytes_ok (d_rest (snd (read_le n d))).
Proof.
  intros Hb. unfold read_le. destruct (failed d).
  { cbn. split; auto. split; [lia|]. apply Z.pow_pos_nonneg; lia. }
  destruct (length (d_rest d) <? n)%nat eqn:E; cbn.
  { split; [|constructor]. split; [lia|]. apply Z.pow_pos_nonneg; lia. }
  apply Nat.ltb_ge in E. destruct (Forall_firstn_skipn byte_ok n _ Hb) as [Hf Hs]. split; [|exact Hs].
  pose proof (le_val_range _ Hf) as H. rewrite firstn_length_le in H by lia. exact H.
Qed.

Lemma read_uvarint_value_range d : bytes_ok (d_rest d) ->
  0 <= fst (read_uvarint d) < 2 ^ 64 /\ bytes_ok (d_rest (snd (read_uvarint d))).
Proof.
  intros Hb. unfold read_uvarint. destruct (failed d). { cbn [fst snd]. split; auto; lia. }
  destruct (read_uvarint_pure (d_rest d)) eqn:E; cbn [fst snd d_rest].
  - split. 1:{ exact (read_uvarint_range _ _ _ Hb E). }
    apply read_uvarint_suffix in E. destruct E as [pre [Hp _]]. rewrite Hp in Hb.
    unfold bytes_ok in *. now apply Forall_app in Hb.
  - split; [lia|constructor].
Qed.
