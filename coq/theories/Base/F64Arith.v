(** Real-number view of float64 arithmetic on finite, bounded operands, derived from
    Flocq's IEEE754.PrimFloat bridge.  [RV x] is the real value of a finite float;
    [rnd] is rounding to nearest-even in binary64.  The lemmas here are what the
    monotonicity arguments (stToUV, interval expansion, bound accumulation) consume:
    each primitive operation on finite operands whose rounded exact result is below
    2^1024 returns a finite float whose value is [rnd] of the exact result, and [rnd]
    is monotone and fixes representable numbers.  No rounding-ERROR analysis is
    involved anywhere in this file. *)
From Coq Require Import ZArith Reals Floats Lra Bool Psatz.
From Flocq Require Import Core.Core IEEE754.BinarySingleNaN IEEE754.PrimFloat.
From Geo Require Import Base.GoPrim Base.F64.
Local Open Scope R_scope.

Notation fexp64 := (SpecFloat.fexp prec emax).
Definition rnd (r : R) : R := round radix2 fexp64 ZnearestE r.
Definition RV (x : PrimFloat.float) : R := B2R (Prim2B x).
Definition fin (x : PrimFloat.float) : Prop := is_finite (Prim2B x) = true.
Definition repr (r : R) : Prop := generic_format radix2 fexp64 r.

Lemma valid_exp64 : Valid_exp fexp64.
Proof. apply (fexp_correct prec emax Hprec). Qed.
#[global] Existing Instance valid_exp64.

Lemma rnd_le a b : a <= b -> rnd a <= rnd b.
Proof. intros H. unfold rnd. apply round_le; auto with typeclass_instances. Qed.

Lemma rnd_repr r : repr r -> rnd r = r.
Proof. intros H. unfold rnd. apply round_generic; auto with typeclass_instances. Qed.

Lemma rnd_0 : rnd 0 = 0.
Proof. unfold rnd. apply round_0. auto with typeclass_instances. Qed.

Lemma rnd_opp r : rnd (- r) = - rnd r.
Proof. unfold rnd. rewrite round_NE_opp. reflexivity. Qed.

Lemma repr_RV x : repr (RV x).
Proof. unfold repr, RV. apply generic_format_B2R. Qed.

Lemma repr_opp r : repr r -> repr (- r).
Proof. unfold repr. apply generic_format_opp. Qed.

Lemma repr_0 : repr 0.
Proof. unfold repr. apply generic_format_0. Qed.

(** integers of magnitude below 2^53 are representable *)
Lemma repr_IZR (z : Z) : (Z.abs z < 2 ^ 53)%Z -> repr (IZR z).
Proof.
  intros Hz. unfold repr.
  replace (IZR z) with (F2R (Float radix2 z 0)) by (unfold F2R; simpl; lra).
  apply generic_format_FLT.
  exists (Float radix2 z 0); simpl; try reflexivity.
  - exact Hz.
  - unfold SpecFloat.emin, prec, emax. lia.
Qed.

(** dyadic numbers m * 2^e with |m| < 2^53 and e >= -1074 are representable *)
Lemma repr_F2R (m e : Z) : (Z.abs m < 2 ^ 53)%Z -> (-1074 <= e)%Z -> repr (F2R (Float radix2 m e)).
Proof.
  intros Hm He. unfold repr. apply generic_format_FLT.
  exists (Float radix2 m e); simpl; try reflexivity; auto.
Qed.

Lemma rnd_bounded r M : repr M -> Rabs r <= M -> Rabs (rnd r) <= M.
Proof.
  intros HM Hr. apply Rabs_le. apply Rabs_le_inv in Hr. destruct Hr as [H1 H2]. split.
  - rewrite <- (rnd_repr (- M)) by (apply repr_opp; exact HM). apply rnd_le. exact H1.
  - rewrite <- (rnd_repr M) by exact HM. apply rnd_le. exact H2.
Qed.

Lemma fin_nonnan x : fin x -> nonnan x.
Proof.
  unfold fin, nonnan. rewrite go_isnan_equiv. destruct (Prim2B x); simpl; congruence.
Qed.

Lemma rank_fin x : fin x -> rank x = RV x.
Proof. intros H. unfold rank, RV. apply rankB_finite. exact H. Qed.

Lemma RV_lt_top x : Rabs (RV x) < bpow radix2 emax.
Proof. unfold RV. apply abs_B2R_lt_emax. Qed.

(** ** The four operations on finite operands without overflow *)

Lemma add_fin x y : fin x -> fin y -> Rabs (rnd (RV x + RV y)) < bpow radix2 emax ->
  fin (PrimFloat.add x y) /\ RV (PrimFloat.add x y) = rnd (RV x + RV y).
Proof.
  unfold fin, RV. intros Fx Fy Hb. rewrite add_equiv.
  pose proof (Bplus_correct prec emax Hprec Hmax mode_NE (Prim2B x) (Prim2B y) Fx Fy) as H.
  change (round radix2 (SpecFloat.fexp prec emax) (round_mode mode_NE)) with rnd in H.
  rewrite Rlt_bool_true in H by exact Hb. destruct H as [H1 [H2 _]]. split; assumption.
Qed.

Lemma sub_fin x y : fin x -> fin y -> Rabs (rnd (RV x - RV y)) < bpow radix2 emax ->
  fin (PrimFloat.sub x y) /\ RV (PrimFloat.sub x y) = rnd (RV x - RV y).
Proof.
  unfold fin, RV. intros Fx Fy Hb. rewrite sub_equiv.
  pose proof (Bminus_correct prec emax Hprec Hmax mode_NE (Prim2B x) (Prim2B y) Fx Fy) as H.
  change (round radix2 (SpecFloat.fexp prec emax) (round_mode mode_NE)) with rnd in H.
  rewrite Rlt_bool_true in H by exact Hb. destruct H as [H1 [H2 _]]. split; assumption.
Qed.

Lemma mul_fin x y : fin x -> fin y -> Rabs (rnd (RV x * RV y)) < bpow radix2 emax ->
  fin (PrimFloat.mul x y) /\ RV (PrimFloat.mul x y) = rnd (RV x * RV y).
Proof.
  unfold fin, RV. intros Fx Fy Hb. rewrite mul_equiv.
  pose proof (Bmult_correct prec emax Hprec Hmax mode_NE (Prim2B x) (Prim2B y)) as H.
  change (round radix2 (SpecFloat.fexp prec emax) (round_mode mode_NE)) with rnd in H.
  rewrite Rlt_bool_true in H by exact Hb. destruct H as [H1 [H2 _]].
  rewrite Fx, Fy in H2. split; assumption.
Qed.

Lemma div_fin x y : fin x -> fin y -> RV y <> 0 -> Rabs (rnd (RV x / RV y)) < bpow radix2 emax ->
  fin (PrimFloat.div x y) /\ RV (PrimFloat.div x y) = rnd (RV x / RV y).
Proof.
  unfold fin, RV. intros Fx Fy Hy Hb. rewrite div_equiv.
  pose proof (Bdiv_correct prec emax Hprec Hmax mode_NE (Prim2B x) (Prim2B y) Hy) as H.
  change (round radix2 (SpecFloat.fexp prec emax) (round_mode mode_NE)) with rnd in H.
  rewrite Rlt_bool_true in H by exact Hb. destruct H as [H1 [H2 _]].
  rewrite Fx in H2. split; assumption.
Qed.

Lemma opp_fin x : fin x -> fin (PrimFloat.opp x) /\ RV (PrimFloat.opp x) = - RV x.
Proof.
  unfold fin, RV. intros Fx. rewrite opp_equiv. rewrite is_finite_Bopp, B2R_Bopp. split; auto.
Qed.

(** a bound M < 2^1024 that is representable keeps every rounded result finite *)
Definition okbound (M : R) : Prop := repr M /\ M < bpow radix2 emax.

Lemma below_top r M : okbound M -> Rabs r <= M -> Rabs (rnd r) < bpow radix2 emax.
Proof.
  intros [HM HT] Hr. apply Rle_lt_trans with M; [|exact HT]. apply rnd_bounded; assumption.
Qed.

(** ** Intervals of float values: [inR lo hi x] = x is finite with lo <= value <= hi *)
Definition inR (lo hi : R) (x : PrimFloat.float) : Prop := fin x /\ lo <= RV x <= hi.

Lemma inR_weaken lo hi lo' hi' x : inR lo hi x -> lo' <= lo -> hi <= hi' -> inR lo' hi' x.
Proof. intros [F [H1 H2]] Hl Hh. split; [exact F|lra]. Qed.

(** float "less or equal" as a relation between finite floats *)
Definition fle (x y : PrimFloat.float) : Prop := fin x /\ fin y /\ RV x <= RV y.

Lemma fle_leb x y : fle x y -> PrimFloat.leb x y = true.
Proof.
  intros [Fx [Fy H]]. apply leb_true_iff; auto using fin_nonnan.
  rewrite !rank_fin by assumption. exact H.
Qed.

Lemma leb_fle x y : fin x -> fin y -> PrimFloat.leb x y = true -> fle x y.
Proof.
  intros Fx Fy H. split; [exact Fx|split; [exact Fy|]].
  apply leb_true_iff in H; auto using fin_nonnan. rewrite !rank_fin in H by assumption. exact H.
Qed.

Lemma fle_refl x : fin x -> fle x x.
Proof. intros F. split; [exact F|split; [exact F|lra]]. Qed.

Lemma fle_trans x y z : fle x y -> fle y z -> fle x z.
Proof. intros [Fx [Fy H1]] [_ [Fz H2]]. split; [exact Fx|split; [exact Fz|lra]]. Qed.

(** Monotonicity of the operations, with explicit magnitude bounds M (any representable M < 2^1024). *)
Lemma add_mono M x x' y y' : okbound M ->
  fle x x' -> fle y y' -> Rabs (RV x + RV y) <= M -> Rabs (RV x' + RV y') <= M ->
  fle (PrimFloat.add x y) (PrimFloat.add x' y').
Proof.
  intros HM [Fx [Fx' Hx]] [Fy [Fy' Hy]] B1 B2.
  destruct (add_fin x y Fx Fy (below_top _ _ HM B1)) as [F1 E1].
  destruct (add_fin x' y' Fx' Fy' (below_top _ _ HM B2)) as [F2 E2].
  split; [exact F1|split; [exact F2|]]. rewrite E1, E2. apply rnd_le. lra.
Qed.

Lemma sub_mono M x x' y y' : okbound M ->
  fle x x' -> fle y' y -> Rabs (RV x - RV y) <= M -> Rabs (RV x' - RV y') <= M ->
  fle (PrimFloat.sub x y) (PrimFloat.sub x' y').
Proof.
  intros HM [Fx [Fx' Hx]] [Fy' [Fy Hy]] B1 B2.
  destruct (sub_fin x y Fx Fy (below_top _ _ HM B1)) as [F1 E1].
  destruct (sub_fin x' y' Fx' Fy' (below_top _ _ HM B2)) as [F2 E2].
  split; [exact F1|split; [exact F2|]]. rewrite E1, E2. apply rnd_le. lra.
Qed.

Lemma mul_mono_nonneg M x x' y y' : okbound M ->
  fle x x' -> fle y y' -> 0 <= RV x -> 0 <= RV y -> RV x' * RV y' <= M ->
  fle (PrimFloat.mul x y) (PrimFloat.mul x' y').
Proof.
  intros HM [Fx [Fx' Hx]] [Fy [Fy' Hy]] Px Py B2.
  assert (Hle : RV x * RV y <= RV x' * RV y') by (apply Rmult_le_compat; lra).
  assert (P1 : 0 <= RV x * RV y) by (apply Rmult_le_pos; lra).
  assert (B1' : Rabs (RV x * RV y) <= M) by (rewrite Rabs_pos_eq; lra).
  assert (B2' : Rabs (RV x' * RV y') <= M) by (rewrite Rabs_pos_eq; lra).
  destruct (mul_fin x y Fx Fy (below_top _ _ HM B1')) as [F1 E1].
  destruct (mul_fin x' y' Fx' Fy' (below_top _ _ HM B2')) as [F2 E2].
  split; [exact F1|split; [exact F2|]]. rewrite E1, E2. apply rnd_le. exact Hle.
Qed.

(** value and range of a product / sum / difference *)
Lemma mul_inR M x y : okbound M -> fin x -> fin y -> Rabs (RV x * RV y) <= M ->
  fin (PrimFloat.mul x y) /\ RV (PrimFloat.mul x y) = rnd (RV x * RV y) /\ Rabs (RV (PrimFloat.mul x y)) <= M.
Proof.
  intros HM Fx Fy B. destruct (mul_fin x y Fx Fy (below_top _ _ HM B)) as [F E].
  split; [exact F|split; [exact E|]]. rewrite E. apply rnd_bounded; [apply HM|exact B].
Qed.
Lemma add_inR M x y : okbound M -> fin x -> fin y -> Rabs (RV x + RV y) <= M ->
  fin (PrimFloat.add x y) /\ RV (PrimFloat.add x y) = rnd (RV x + RV y) /\ Rabs (RV (PrimFloat.add x y)) <= M.
Proof.
  intros HM Fx Fy B. destruct (add_fin x y Fx Fy (below_top _ _ HM B)) as [F E].
  split; [exact F|split; [exact E|]]. rewrite E. apply rnd_bounded; [apply HM|exact B].
Qed.
Lemma sub_inR M x y : okbound M -> fin x -> fin y -> Rabs (RV x - RV y) <= M ->
  fin (PrimFloat.sub x y) /\ RV (PrimFloat.sub x y) = rnd (RV x - RV y) /\ Rabs (RV (PrimFloat.sub x y)) <= M.
Proof.
  intros HM Fx Fy B. destruct (sub_fin x y Fx Fy (below_top _ _ HM B)) as [F E].
  split; [exact F|split; [exact E|]]. rewrite E. apply rnd_bounded; [apply HM|exact B].
Qed.

(** small integers are okbounds *)
Lemma okbound_IZR (z : Z) : (0 <= z < 2 ^ 53)%Z -> okbound (IZR z).
Proof.
  intros Hz. split.
  - apply repr_IZR. lia.
  - apply Rlt_trans with (IZR (2 ^ 53)).
    + apply IZR_lt. lia.
    + change (bpow radix2 emax) with (IZR (2 ^ 1024)). apply IZR_lt. reflexivity.
Qed.

(** ** Literals: value and finiteness of a float constant, by computation of its decomposition *)
Lemma lit_fin x s m e : Prim2SF x = SpecFloat.S754_finite s m e -> fin x.
Proof. intros H. unfold fin, Prim2B. rewrite is_finite_SF2B. rewrite H. reflexivity. Qed.
Lemma lit_RV x s m e : Prim2SF x = SpecFloat.S754_finite s m e ->
  RV x = F2R (Float radix2 (cond_Zopp s (Z.pos m)) e).
Proof. intros H. unfold RV, Prim2B. rewrite B2R_SF2B. rewrite H. reflexivity. Qed.
Lemma zero_fin : fin 0%float.
Proof. unfold fin, Prim2B. rewrite is_finite_SF2B. reflexivity. Qed.
Lemma zero_RV : RV 0%float = 0.
Proof. unfold RV, Prim2B. rewrite B2R_SF2B. reflexivity. Qed.

(** turns [RV <literal> = <rational>] into linear arithmetic over constants *)
Ltac lit_value :=
  match goal with
  | |- RV ?c = _ =>
      rewrite (lit_RV c _ _ _ eq_refl); unfold F2R; simpl;
      repeat match goal with
      | |- context [Z.pow_pos ?a ?b] =>
          let v := eval vm_compute in (Z.pow_pos a b) in change (Z.pow_pos a b) with v
      end; lra
  end.

(** multiplication by a non-negative finite constant is monotone whatever the sign of the other factor *)
Lemma mul_mono_l M c y y' : okbound M -> fin c -> 0 <= RV c ->
  fle y y' -> Rabs (RV c * RV y) <= M -> Rabs (RV c * RV y') <= M ->
  fle (PrimFloat.mul c y) (PrimFloat.mul c y').
Proof.
  intros HM Fc Pc [Fy [Fy' Hy]] B1 B2.
  destruct (mul_fin c y Fc Fy (below_top _ _ HM B1)) as [F1 E1].
  destruct (mul_fin c y' Fc Fy' (below_top _ _ HM B2)) as [F2 E2].
  split; [exact F1|split; [exact F2|]]. rewrite E1, E2. apply rnd_le.
  apply Rmult_le_compat_l; assumption.
Qed.
