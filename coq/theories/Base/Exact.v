(** Exact dyadic numbers [m * 2^e] (m, e : Z): the model of math/big.Float at
    r3.MaxPrec (64 Mbit) as it is used by r3.PreciseVector and s2/predicates.go.

    MODELLED, NOT VERIFIED: big.Float at precision 64<<20 never rounds on the sums
    and products formed by the predicates (at most six float64 factors per term:
    mantissas <= 6*53 bits, exponent span <= 6*2098 bits, far below 64 Mbit), so
    every big.Float operation there is the exact operation below. Non-finite
    float64 values are outside the model (big.Float.SetFloat64 panics on NaN and
    keeps +-Inf); [of_float] maps them to 0 and every theorem carries the guard
    [ffinite]. The correspondence generators never produce them.

    Everything is executable under [vm_compute] (alignment uses [Z.shiftl]).

    Interface for later files:
      [dyadic] [Dy] [dm] [de] [dzero] [done] [dhalf] [dopp] [dadd] [dsub] [dmul]
      [dsgn] [dcmp] [deqb] [of_float] [ffinite]
      [D2R : dyadic -> R] [FR : float -> R] [sgnR : R -> Z]
      [D2R_add] [D2R_sub] [D2R_mul] [D2R_opp] [dsgn_correct] [dcmp_correct]
      [of_float_correct : FR x = D2R (of_float x)]
      [ffinite_rank : ffinite x = true -> nonnan x /\ rank x = FR x]
      tactic [d2r] (pushes D2R through an expression). *)
From Coq Require Import ZArith Reals Floats SpecFloat Lia Lra Bool Psatz.
From Flocq Require Import Core.Core IEEE754.BinarySingleNaN IEEE754.PrimFloat.
From Geo Require Import Base.GoPrim Base.F64.

Record dyadic := Dy { dm : Z; de : Z }.

Definition dzero : dyadic := Dy 0 0.
Definition done : dyadic := Dy 1 0.
Definition dhalf : dyadic := Dy 1 (-1).
Definition dopp (a : dyadic) : dyadic := Dy (- dm a) (de a).
Definition dmul (a b : dyadic) : dyadic := Dy (dm a * dm b) (de a + de b).
(** mantissa of [a] re-expressed at exponent [e <= de a] *)
Definition dalign (a : dyadic) (e : Z) : Z := Z.shiftl (dm a) (de a - e).
Definition dadd (a b : dyadic) : dyadic :=
  let e := Z.min (de a) (de b) in Dy (dalign a e + dalign b e) e.
Definition dsub (a b : dyadic) : dyadic := dadd a (dopp b).
Definition dsgn (a : dyadic) : Z := Z.sgn (dm a).
Definition dcmp (a b : dyadic) : Z := dsgn (dsub a b).
Definition deqb (a b : dyadic) : bool := Z.eqb (dcmp a b) 0.

(** a finite float64 as the dyadic it denotes; NaN and infinities give 0 (guard: [ffinite]) *)
Definition of_float (x : PrimFloat.float) : dyadic :=
  match Prim2SF x with
  | S754_finite s m e => Dy (if s then Z.neg m else Z.pos m) e
  | _ => dzero
  end.
Definition ffinite (x : PrimFloat.float) : bool :=
  match Prim2SF x with
  | S754_finite _ _ _ | S754_zero _ => true
  | _ => false
  end.

(** * Semantics *)
Local Open Scope R_scope.

Definition D2R (a : dyadic) : R := IZR (dm a) * bpow radix2 (de a).
(** the real number a float denotes (0 for NaN / infinities) *)
Definition FR (x : PrimFloat.float) : R := B2R (Prim2B x).
Definition sgnR (x : R) : Z :=
  match Rcompare x 0 with Lt => (-1)%Z | Eq => 0%Z | Gt => 1%Z end.

Lemma sgnR_pos x : 0 < x -> sgnR x = 1%Z.
Proof. intros H. unfold sgnR. now rewrite Rcompare_Gt. Qed.
Lemma sgnR_neg x : x < 0 -> sgnR x = (-1)%Z.
Proof. intros H. unfold sgnR. now rewrite Rcompare_Lt. Qed.
Lemma sgnR_0 : sgnR 0 = 0%Z.
Proof. unfold sgnR. now rewrite Rcompare_Eq. Qed.
Lemma sgnR_zero_iff x : sgnR x = 0%Z <-> x = 0.
Proof.
  unfold sgnR. destruct (Rcompare_spec x 0); split; intros; try lra; try discriminate; reflexivity.
Qed.
Lemma sgnR_pos_iff x : sgnR x = 1%Z <-> 0 < x.
Proof.
  unfold sgnR. destruct (Rcompare_spec x 0); split; intros; try lra; try discriminate; reflexivity.
Qed.
Lemma sgnR_neg_iff x : sgnR x = (-1)%Z <-> x < 0.
Proof.
  unfold sgnR. destruct (Rcompare_spec x 0); split; intros; try lra; try discriminate; reflexivity.
Qed.
Lemma sgnR_opp x : sgnR (- x) = (- sgnR x)%Z.
Proof.
  destruct (Rtotal_order x 0) as [H|[H|H]].
  - rewrite (sgnR_neg x H), sgnR_pos by lra. reflexivity.
  - subst. rewrite Ropp_0, sgnR_0. reflexivity.
  - rewrite (sgnR_pos x H), sgnR_neg by lra. reflexivity.
Qed.
Lemma sgnR_cases x : (x < 0 /\ sgnR x = (-1)%Z) \/ (x = 0 /\ sgnR x = 0%Z) \/ (0 < x /\ sgnR x = 1%Z).
Proof.
  destruct (Rtotal_order x 0) as [H|[H|H]].
  - left. split; [assumption|now apply sgnR_neg].
  - right; left. subst. split; [reflexivity|apply sgnR_0].
  - right; right. split; [assumption|now apply sgnR_pos].
Qed.
Lemma sgnR_mult x y : sgnR (x * y) = (sgnR x * sgnR y)%Z.
Proof.
  destruct (sgnR_cases x) as [[Hx Ex]|[[Hx Ex]|[Hx Ex]]];
  destruct (sgnR_cases y) as [[Hy Ey]|[[Hy Ey]|[Hy Ey]]]; rewrite Ex, Ey; simpl;
  try (subst; rewrite ?Rmult_0_l, ?Rmult_0_r; apply sgnR_0).
  - apply sgnR_pos. nra.
  - apply sgnR_neg. nra.
  - apply sgnR_neg. nra.
  - apply sgnR_pos. nra.
Qed.
Lemma sgnR_pos_mult x y : 0 < y -> sgnR (x * y) = sgnR x.
Proof. intros H. rewrite sgnR_mult, (sgnR_pos y H). lia. Qed.

Lemma bpow2_pos e : 0 < bpow radix2 e.
Proof. apply bpow_gt_0. Qed.

Lemma D2R_opp a : D2R (dopp a) = - D2R a.
Proof. unfold D2R, dopp. simpl. rewrite opp_IZR. ring. Qed.

Lemma D2R_mul a b : D2R (dmul a b) = D2R a * D2R b.
Proof. unfold D2R, dmul. simpl. rewrite mult_IZR, bpow_plus. ring. Qed.

Lemma dalign_correct a e : (e <= de a)%Z -> IZR (dalign a e) * bpow radix2 e = D2R a.
Proof.
  intros H. unfold dalign, D2R. rewrite Z.shiftl_mul_pow2 by lia.
  rewrite mult_IZR. change 2%Z with (radix_val radix2).
  rewrite IZR_Zpower by lia. rewrite Rmult_assoc, <- bpow_plus.
  replace (de a - e + e)%Z with (de a) by lia. reflexivity.
Qed.

Lemma D2R_add a b : D2R (dadd a b) = D2R a + D2R b.
Proof.
  unfold dadd. cbv zeta. unfold D2R at 1. cbn [dm de].
  rewrite plus_IZR, Rmult_plus_distr_r.
  rewrite !dalign_correct by lia. reflexivity.
Qed.

Lemma D2R_sub a b : D2R (dsub a b) = D2R a - D2R b.
Proof. unfold dsub. rewrite D2R_add, D2R_opp. ring. Qed.

Lemma D2R_zero : D2R dzero = 0.
Proof. unfold D2R. simpl. ring. Qed.
Lemma D2R_one : D2R done = 1.
Proof. unfold D2R. simpl. ring. Qed.
Lemma D2R_half : D2R dhalf = / 2.
Proof. unfold D2R. simpl. lra. Qed.

Lemma sgnR_IZR z : sgnR (IZR z) = Z.sgn z.
Proof.
  destruct (Z.lt_trichotomy z 0) as [H|[H|H]].
  - rewrite Z.sgn_neg by assumption. apply sgnR_neg. now apply IZR_lt.
  - subst. apply sgnR_0.
  - rewrite Z.sgn_pos by assumption. apply sgnR_pos. now apply IZR_lt.
Qed.

Lemma dsgn_correct a : dsgn a = sgnR (D2R a).
Proof.
  unfold dsgn, D2R. rewrite sgnR_pos_mult by apply bpow2_pos. symmetry. apply sgnR_IZR.
Qed.

Lemma dcmp_correct a b : dcmp a b = sgnR (D2R a - D2R b).
Proof. unfold dcmp. now rewrite dsgn_correct, D2R_sub. Qed.

Lemma deqb_true_iff a b : deqb a b = true <-> D2R a = D2R b.
Proof.
  unfold deqb. rewrite Z.eqb_eq, dcmp_correct, sgnR_zero_iff. lra.
Qed.

(** [of_float] is exact *)
Lemma of_float_correct x : FR x = D2R (of_float x).
Proof.
  unfold FR, of_float. rewrite <- B2SF_Prim2B.
  destruct (Prim2B x) as [s|s| |s m e He]; simpl; try (now rewrite D2R_zero).
  unfold D2R, F2R. simpl. destruct s; reflexivity.
Qed.

Lemma ffinite_equiv x : ffinite x = is_finite (Prim2B x).
Proof.
  unfold ffinite. rewrite <- B2SF_Prim2B.
  destruct (Prim2B x) as [s|s| |s m e He]; reflexivity.
Qed.

Lemma ffinite_rank x : ffinite x = true -> nonnan x /\ rank x = FR x.
Proof.
  rewrite ffinite_equiv. intros H. split.
  - unfold nonnan. rewrite go_isnan_equiv. destruct (Prim2B x); try reflexivity; discriminate.
  - unfold rank, FR. now apply rankB_finite.
Qed.

(** Push [D2R] through an expression built from the operations above. *)
Ltac d2r := rewrite ?dsgn_correct, ?dcmp_correct;
  repeat first [ rewrite D2R_add | rewrite D2R_sub | rewrite D2R_mul | rewrite D2R_opp
               | rewrite D2R_zero | rewrite D2R_one | rewrite D2R_half | rewrite <- of_float_correct ].
