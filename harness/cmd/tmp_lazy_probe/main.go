package main

import (
	"fmt"
	"os"
	"sync"

	"github.com/golang/geo/s1"
	"github.com/golang/geo/s2"
)

func bigLoop(n int, lat, lng, r float64) *s2.Loop {
	return s2.RegularLoop(s2.PointFromLatLng(s2.LatLngFromDegrees(lat, lng)), s1.Angle(r)*s1.Degree, n)
}

func main() {
	mode := os.Args[1]
	switch mode {
	case "race":
		idx := s2.NewShapeIndex()
		idx.Add(bigLoop(200, 10, 10, 5))
		idx.Add(bigLoop(200, -10, 40, 5))
		var wg sync.WaitGroup
		for g := 0; g < 8; g++ {
			wg.Add(1)
			go func(g int) {
				defer wg.Done()
				opts := s2.NewClosestEdgeQueryOptions().IncludeInteriors(false)
				q := s2.NewClosestEdgeQuery(idx, opts)
				t := s2.NewMinDistanceToPointTarget(s2.PointFromLatLng(s2.LatLngFromDegrees(float64(g), 20)))
				_ = q.Distance(t)
			}(g)
		}
		wg.Wait()
		fmt.Println("done")
	case "target":
		idx := s2.NewShapeIndex()
		idx.Add(bigLoop(200, 10, 10, 5))
		idx2 := s2.NewShapeIndex()
		idx2.Add(bigLoop(100, 10, 30, 5))
		idx2.Add(bigLoop(100, 10, 22, 1))
		q := s2.NewClosestEdgeQuery(idx, s2.NewClosestEdgeQueryOptions())
		t := s2.NewMinDistanceToShapeIndexTarget(idx2)
		d0 := s2.NewClosestEdgeQuery(idx, s2.NewClosestEdgeQueryOptions()).Distance(s2.NewMinDistanceToShapeIndexTarget(idx2))
		less := q.IsDistanceLess(t, s1.ChordAngleFromAngle(30*s1.Degree))
		d1 := q.Distance(t)
		fmt.Println("fresh", d0.Angle().Degrees(), "less", less, "after IsDistanceLess same target", d1.Angle().Degrees())
	}
}
