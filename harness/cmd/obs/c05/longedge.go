package main

// longEdgeFamily [S]: polylines and loops with long geodesic edges (30..170 degrees) at mid and high
// latitudes of both hemispheres, across the antimeridian, and edges passing within 1e-6..5 degrees of a
// pole.  Such an edge leaves the latitude-longitude box of its end points (it bulges poleward, or runs
// over the pole), so any shortcut that bounds the shape by its vertices loses the edge interior.
// For every edge the witnesses are the points at 1/4, 1/2, 3/4 and at the latitude extremum; each is
// within rounding (1e-15) of a point of the edge, so
//   - of the cell at each tested level (incl. 30) around the witness and its neighbours, at least one
//     must report IntersectsCell, and
//   - Covering / CellUnion / FastCovering must contain the witness' leaf cell or an adjacent leaf.

import (
	"fmt"
	"math"

	"github.com/golang/geo/s1"
	"github.com/golang/geo/s2"
	"verifharness/internal/vkit"
)

func llPoint(latDeg, lngDeg float64) s2.Point {
	return s2.PointFromLatLng(s2.LatLngFromDegrees(latDeg, lngDeg))
}

// nearPoleEdge: an edge whose closest approach to the pole (north: sgn=+1) is d radians, at longitude lng0,
// extending t1 and t2 radians to either side.
func nearPoleEdge(sgn, d, lng0, t1, t2 float64) (s2.Point, s2.Point) {
	q := s2.PointFromLatLng(s2.LatLng{Lat: s1.Angle(sgn * (math.Pi/2 - d)), Lng: s1.Angle(lng0)})
	e := s2.PointFromCoords(-math.Sin(lng0), math.Cos(lng0), 0) // east at q
	a := s2.Point{Vector: q.Mul(math.Cos(t1)).Sub(e.Mul(math.Sin(t1))).Normalize()}
	b := s2.Point{Vector: q.Mul(math.Cos(t2)).Add(e.Mul(math.Sin(t2))).Normalize()}
	return a, b
}

func edgeWitnesses(a, b s2.Point) []s2.Point {
	ws := []s2.Point{s2.Interpolate(0.25, a, b), s2.Interpolate(0.5, a, b), s2.Interpolate(0.75, a, b)}
	if p, ok := edgeExtremum(a, b); ok {
		ws = append(ws, p)
	}
	return ws
}

func longEdgeFamily(c *vkit.Collector, rng *vkit.Rng, budget int) {
	type shape struct {
		name string
		vs   []s2.Point
		loop bool
	}
	shapes := []shape{}
	rounds := mini(budget, 4)
	for k := 0; k < rounds; k++ {
		for _, sgn := range []float64{1, -1} {
			// east-west edges at mid/high latitude, one of them across the antimeridian
			lat := sgn * rng.Range(30, 75)
			span := rng.Range(30, 170)
			l0 := rng.Range(-180, 180)
			shapes = append(shapes, shape{fmt.Sprintf("polyline-longedge(lat=%.0f,span=%.0f)", lat, span), []s2.Point{llPoint(lat, l0), llPoint(lat, l0+span)}, false})
			lat2 := sgn * rng.Range(40, 70)
			span2 := rng.Range(40, 120)
			shapes = append(shapes, shape{fmt.Sprintf("polyline-antimeridian(lat=%.0f,span=%.0f)", lat2, span2),
				[]s2.Point{llPoint(lat2, 180-span2/2), llPoint(lat2, -180+span2/2), llPoint(lat2-sgn*10, -180+span2/2+rng.Range(20, 60))}, false})
			// edges passing near a pole
			d := math.Pow(10, rng.Range(-6, math.Log10(5*math.Pi/180)))
			a, b := nearPoleEdge(sgn, d, rng.Range(-math.Pi, math.Pi), rng.Range(0.15, 1.0), rng.Range(0.15, 1.0))
			shapes = append(shapes, shape{fmt.Sprintf("polyline-nearpole(%+.0f,d=%.2g)", sgn, d), []s2.Point{a, b}, false})
			// a loop around the pole with 3..5 long edges (vertices counter-clockwise around the enclosed pole)
			n := 3 + rng.Intn(3)
			rlat := rng.Range(35, 70)
			vs := []s2.Point{}
			ph := rng.Range(0, 360)
			for i := 0; i < n; i++ {
				vs = append(vs, llPoint(sgn*rlat, ph+sgn*360*float64(i)/float64(n)))
			}
			shapes = append(shapes, shape{fmt.Sprintf("loop-longedge(%+.0f,lat=%.0f,n=%d)", sgn, rlat, n), vs, true})
		}
	}
	for si, sh := range shapes {
		var tr *testRegion
		edges := [][2]s2.Point{}
		if sh.loop {
			l := s2.LoopFromPoints(sh.vs)
			if l.Area() > 2*math.Pi { // keep the side that contains the near pole
				continue
			}
			var r s2.Region = l
			kind := "loop-longedge"
			if (si/4)%2 == 1 {
				r = s2.PolygonFromLoops([]*s2.Loop{l})
				kind = "polygon-longedge"
			}
			tr = &testRegion{name: sh.name, kind: kind, r: r, size: math.Pi, replay: map[string]interface{}{"type": kind, "vertices": ptsJSON(sh.vs)}}
			for i := range sh.vs {
				edges = append(edges, [2]s2.Point{sh.vs[i], sh.vs[(i+1)%len(sh.vs)]})
			}
		} else {
			pl := s2.Polyline(sh.vs)
			tr = &testRegion{name: sh.name, kind: "polyline-longedge", r: &pl, size: math.Pi, zeroDim: true,
				replay: map[string]interface{}{"type": "polyline", "vertices": ptsJSON(sh.vs)}}
			for i := 0; i+1 < len(sh.vs); i++ {
				edges = append(edges, [2]s2.Point{sh.vs[i], sh.vs[i+1]})
			}
		}
		c.Class("family:" + tr.kind)
		ws := []s2.Point{}
		for _, e := range edges {
			ws = append(ws, edgeWitnesses(e[0], e[1])...)
		}
		// region predicate on the cells around every witness
		for _, w := range ws {
			leaf := s2.CellFromPoint(w).ID()
			for _, lv := range []int{30, 24, 16, 10, 6 + rng.Intn(4), 3} {
				id := leaf.Parent(lv)
				c.Eval(fmt.Sprintf("longedge %s %d", tr.name, uint64(id)), true)
				ok := tr.r.IntersectsCell(s2.CellFromCellID(id))
				if !ok {
					for _, nb := range id.AllNeighbors(lv) {
						if tr.r.IntersectsCell(s2.CellFromCellID(nb)) {
							ok = true
							break
						}
					}
				}
				if !ok {
					violateLimited(c, "IntersectsCell.unsafe:"+tr.kind,
						"no cell around an interior point of a long edge reports an intersection",
						map[string]interface{}{"region": tr.replay, "witness": []float64{w.X, w.Y, w.Z},
							"witness_latlng_deg": []float64{latOf(w) * 180 / math.Pi, lngOf(w) * 180 / math.Pi}, "level": lv}, 3)
				}
			}
		}
		// coverings must contain every witness
		rcs := []s2.RegionCoverer{{MinLevel: 0, MaxLevel: 30, LevelMod: 1, MaxCells: 8},
			{MinLevel: 0, MaxLevel: 8 + rng.Intn(5), LevelMod: 1, MaxCells: 64},
			{MinLevel: 2 + rng.Intn(3), MaxLevel: 10 + rng.Intn(5), LevelMod: 2, MaxCells: 100 + rng.Intn(100)}}
		for _, rc := range rcs {
			for _, cv := range []struct {
				name string
				ids  []s2.CellID
			}{{"Covering", rc.Covering(tr.r)}, {"CellUnion", rc.CellUnion(tr.r)}, {"FastCovering", rc.FastCovering(tr.r)}} {
				for _, w := range ws {
					if !covers(cv.ids, w, false) {
						violateLimited(c, cv.name+".misses-point", cv.name+" does not contain an interior point of a long edge ("+tr.kind+")",
							map[string]interface{}{"region": tr.replay, "options": cfgJSON(rc), "witness": []float64{w.X, w.Y, w.Z},
								"witness_latlng_deg": []float64{latOf(w) * 180 / math.Pi, lngOf(w) * 180 / math.Pi}}, 3)
						break
					}
				}
			}
		}
		// and one correspondence run per shape (tables stay small with few cells)
		if si%4 == 0 {
			rc := s2.RegionCoverer{MinLevel: 0, MaxLevel: 6 + rng.Intn(4), LevelMod: 1 + rng.Intn(2), MaxCells: 12}
			tr.members = func(rng *vkit.Rng, n int) ([]s2.Point, bool) { return ws, false }
			tr.boundary = func(rng *vkit.Rng, n int) []s2.Point { return ws }
			tr.size = 0.5 // keeps interior coverings shallow
			observe(c, rng, tr, rc, fmt.Sprintf("longedge %s #%d cfg{%d,%d,%d,%d}", tr.name, si, rc.MinLevel, rc.MaxLevel, rc.LevelMod, rc.MaxCells), true)
		}
	}
}
