package main

// bigCapFamily [S] (SoundI of Cap for large caps): caps of radius 45..179 degrees that come from outside
// a level-0..3 cell and reach 0.1..5 degrees into it across the middle of one edge.  For radii below 90
// degrees no cell vertex is in the cap and the cap centre is outside the cell, so only the edge test of
// Cap.intersects can see the intersection.  The witness lies on the geodesic from the cap centre through
// the edge midpoint, half-way into the reach; it is in the cap (exact chord oracle) and strictly inside
// the cell (own face/uv projection).
//
// containFamily [S] (SoundC of Rect and Cap, the ContainsCell analogue of the grazing family): regions
// that contain all four vertices of a level-0..2 cell but not the whole cell:
//   - rectangles that stop between the vertices' latitude and the bulge of an edge of a face cell, or
//     that contain the vertices of a polar face but not the pole;
//   - rectangles wider than 180 degrees whose excluded longitude gap lies inside the cell;
//   - caps larger than a hemisphere whose (small) complement lies inside the cell or pokes across the
//     middle of an edge.
// The witness is a point strictly inside the cell and strictly outside the region: ContainsCell must be
// false, and no cell of InteriorCovering / InteriorCellUnion may contain the witness.

import (
	"fmt"
	"math"

	"github.com/golang/geo/s1"
	"github.com/golang/geo/s2"
	"verifharness/internal/vkit"
)

const deg = math.Pi / 180

// sampleCells: the six faces and a few cells of levels 1..maxLevel.
func sampleCells(rng *vkit.Rng, maxLevel, perLevel int) []s2.Cell {
	cells := []s2.Cell{}
	for f := 0; f < 6; f++ {
		cells = append(cells, s2.CellFromCellID(s2.CellIDFromFace(f)))
	}
	for lv := 1; lv <= maxLevel; lv++ {
		for k := 0; k < perLevel; k++ {
			p, _ := pickCentre(rng)
			if k%2 == 0 {
				p = randPoint(rng)
			}
			cells = append(cells, s2.CellFromCellID(s2.CellFromPoint(p).ID().Parent(lv)))
		}
	}
	return cells
}

// outward: unit tangent at m pointing away from ctr.
func outward(m, ctr s2.Point) s2.Point {
	return s2.Point{Vector: m.Mul(m.Dot(ctr.Vector)).Sub(ctr.Vector).Normalize()}
}

func bigCapFamily(c *vkit.Collector, rng *vkit.Rng, budget int) {
	radii := []float64{45, 50, 55, 58, 59.9, 60, 60.1, 61, 62, 65, 70, 75, 80, 84, 85, 88, 89, 89.9, 90, 90.1, 95, 100, 120, 150, 179}
	covered := 3
	for ci, cell := range sampleCells(rng, 3, 2*mini(budget, 3)) {
		ctr := cell.Center()
		edges := []int{0, 1, 2, 3}
		depths := []float64{0.1, 1, 5}
		if cell.Level() > 0 {
			edges = []int{rng.Intn(4)}
			depths = []float64{[]float64{0.1, 1, 5}[ci%3] / float64(int(1)<<uint(cell.Level()))}
		}
		for _, k := range edges {
			m := s2.Point{Vector: cell.Vertex(k).Add(cell.Vertex((k + 1) & 3).Vector).Normalize()}
			u := outward(m, ctr)
			rs := append([]float64{}, radii...)
			rs = append(rs, rng.Range(45, 90), rng.Range(60, 90), rng.Range(90, 179))
			for _, rdeg := range rs {
				for _, d := range depths {
					theta := (rdeg - d) * deg
					cc := s2.Point{Vector: m.Mul(math.Cos(theta)).Add(u.Mul(math.Sin(theta))).Normalize()}
					w := s2.Point{Vector: m.Mul(math.Cos(d / 2 * deg)).Sub(u.Mul(math.Sin(d / 2 * deg))).Normalize()}
					if !strictlyInCell(cell, w) {
						continue
					}
					tr := capRegion(rng, cc, fmt.Sprintf("reach-L%d-edge%d", cell.Level(), k), float64(s1.ChordAngleFromAngle(s1.Angle(rdeg*deg))))
					tr.kind = "cap"
					grazeCheck(c, rng, tr, cell, w, &covered, fmt.Sprintf("bigcap r=%.1f depth=%.2g face%d L%d edge%d", rdeg, d, cell.Face(), cell.Level(), k))
				}
			}
		}
	}
}

// ---- ContainsCell safety ----

func containCheck(c *vkit.Collector, rng *vkit.Rng, tr *testRegion, cell s2.Cell, w s2.Point, count *int, tag string) {
	if tr.or == nil || !tr.or.strictOut(w) || !strictlyInCell(cell, w) {
		return
	}
	c.Class("family:contain-" + tr.kind)
	cc := tr.r.ContainsCell(cell)
	c.Eval(fmt.Sprintf("contain %s %s %d", tag, tr.name, uint64(cell.ID())), true)
	rep := map[string]interface{}{"site": tag, "region": tr.replay, "cell": fmt.Sprint(uint64(cell.ID())), "witness": []float64{w.X, w.Y, w.Z},
		"witness_latlng_deg": []float64{latOf(w) / deg, lngOf(w) / deg}}
	if cc {
		violateLimited(c, "ContainsCell.unsafe:"+tr.kind, "ContainsCell true although a witness point strictly inside the cell is outside the region", rep, 3)
	}
	if *count%5 == 0 || cc {
		leaf := s2.CellFromPoint(w).ID()
		for _, rc := range []s2.RegionCoverer{{MinLevel: 0, MaxLevel: cell.Level() + 1, LevelMod: 1, MaxCells: 40}, {MinLevel: 0, MaxLevel: cell.Level() + 3, LevelMod: 1 + rng.Intn(2), MaxCells: 12}} {
			rep["options"] = cfgJSON(rc)
			for _, cv := range []struct {
				name string
				ids  []s2.CellID
			}{{"InteriorCovering", rc.InteriorCovering(tr.r)}, {"InteriorCellUnion", rc.InteriorCellUnion(tr.r)}} {
				for _, id := range cv.ids {
					if id.RangeMin() <= leaf && leaf <= id.RangeMax() {
						rep["covering_cell"] = fmt.Sprint(uint64(id))
						violateLimited(c, "InteriorCovering.not-contained", cv.name+" returns a cell that contains a point outside the region ("+tr.kind+")", rep, 3)
						break
					}
				}
			}
		}
	}
	*count++
}

func inward(cell s2.Cell, p s2.Point, eps float64) s2.Point {
	return s2.Point{Vector: p.Mul(1 - eps).Add(cell.Center().Mul(eps)).Normalize()}
}

func containFamily(c *vkit.Collector, rng *vkit.Rng, budget int) {
	count := 0
	for ci, cell := range sampleCells(rng, 2, 2*mini(budget, 3)) {
		tag := fmt.Sprintf("face%d-L%d", cell.Face(), cell.Level())
		ctr := cell.Center()
		// the latitude / longitude box of the four vertices
		latLo, latHi := math.Pi/2, -math.Pi/2
		lngs := []float64{}
		for k := 0; k < 4; k++ {
			v := cell.Vertex(k)
			latLo, latHi = math.Min(latLo, latOf(v)), math.Max(latHi, latOf(v))
			lngs = append(lngs, lngOf(v))
		}
		polar := cell.Level() == 0 && (cell.Face() == 2 || cell.Face() == 5)
		witnesses := []s2.Point{ctr}
		for k := 0; k < 4; k++ {
			m := s2.Point{Vector: cell.Vertex(k).Add(cell.Vertex((k + 1) & 3).Vector).Normalize()}
			witnesses = append(witnesses, inward(cell, m, 0.02), inward(cell, m, 0.2))
		}
		if polar {
			witnesses = append(witnesses, llPoint(math.Copysign(89.5, ctr.Z), 17), llPoint(math.Copysign(70, ctr.Z), -100))
		}
		// (1) rectangles that contain the vertices with a margin but stop short of the rest of the cell
		for _, mg := range []float64{1e-6, 0.5 * deg, 4 * deg, 9 * deg} {
			lo, hi := math.Max(-math.Pi/2, latLo-mg), math.Min(math.Pi/2, latHi+mg)
			var rects []*testRegion
			if polar {
				rects = append(rects, rectRegion(rng, lo, hi, -math.Pi, math.Pi, "contain-vertices-"+tag))
			} else {
				lc := lngOf(ctr)
				half := 0.0
				for _, l := range lngs {
					half = math.Max(half, math.Abs(wrapLng(l-lc)))
				}
				rects = append(rects, rectRegion(rng, lo, hi, wrapLng(lc-half-mg), wrapLng(lc+half+mg), "contain-vertices-"+tag),
					rectRegion(rng, lo, hi, -math.Pi, math.Pi, "contain-vertices-band-"+tag))
				// (2) wide rectangles whose excluded longitude gap lies inside the cell
				for _, g := range []float64{0.2 * half, 0.02 * half, 1e-4} {
					off := (rng.Float() - 0.5) * half
					full := rectRegion(rng, math.Max(-math.Pi/2, latLo-0.3), math.Min(math.Pi/2, latHi+0.3), wrapLng(lc+off+g/2), wrapLng(lc+off-g/2), "contain-gap-"+tag)
					gw := s2.PointFromLatLng(s2.LatLng{Lat: s1.Angle(latOf(ctr)), Lng: s1.Angle(wrapLng(lc + off))})
					containCheck(c, rng, full, cell, gw, &count, tag+"-lng-gap")
				}
			}
			for _, tr := range rects {
				for _, w := range witnesses {
					containCheck(c, rng, tr, cell, w, &count, tag+"-vertex-box")
				}
			}
		}
		// (3) caps larger than a hemisphere whose complement lies in the cell or pokes across an edge middle
		size := s2.AvgEdgeMetric.Value(cell.Level())
		for _, frac := range []float64{0.3, 0.05, 0.005} {
			rho := frac * size
			mk := func(compCentre s2.Point) *testRegion {
				anti := s2.Point{Vector: compCentre.Mul(-1)}
				tr := capRegion(rng, anti, "contain-complement-"+tag, float64(s1.ChordAngleFromAngle(s1.Angle(math.Pi-rho))))
				tr.kind = "cap"
				return tr
			}
			containCheck(c, rng, mk(ctr), cell, ctr, &count, tag+"-complement-inside")
			k := (ci + int(frac*1000)) % 4
			m := s2.Point{Vector: cell.Vertex(k).Add(cell.Vertex((k + 1) & 3).Vector).Normalize()}
			u := outward(m, ctr)
			comp := s2.Point{Vector: m.Mul(math.Cos(rho / 2)).Add(u.Mul(math.Sin(rho / 2))).Normalize()} // half of it reaches into the cell
			w := s2.Point{Vector: m.Mul(math.Cos(rho / 4)).Sub(u.Mul(math.Sin(rho / 4))).Normalize()}
			containCheck(c, rng, mk(comp), cell, w, &count, tag+"-complement-across-edge")
		}
	}
}
