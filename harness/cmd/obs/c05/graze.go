package main

// Two structured families added after seeded changes were missed:
//
// latticeFamily: tiny regions (their CellUnionBound is deeper than MaxLevel) x LevelMod 2,3 x a
// MaxLevel that is not on the level lattice ((MaxLevel-MinLevel) mod LevelMod != 0) x MaxCells 4..16.
// This is the only way to drive normalizeCovering's first step (cut to MaxLevel, then adjust to the
// lattice) with LevelMod > 1; FastCovering, Covering and InteriorCovering all go through observe().
//
// grazeFamily [S]: SoundI of Rect and Cap where only an edge-vs-boundary test can see the
// intersection: a cell edge whose latitude has an interior extremum p (level-0 cells) or a cell vertex
// (levels 1..3), a witness w just inside the cell next to p, and a region that comes from outside the
// cell and reaches just past w (a lat-lng rectangle bounded by a parallel between w and the cell's
// interior; a cap centred beyond p).  w is in the region (oracle of regions.go) and strictly inside
// the cell (own face/uv projection), so IntersectsCell must be true and every covering must contain w.

import (
	"fmt"
	"math"

	"github.com/golang/geo/s1"
	"github.com/golang/geo/s2"
	"verifharness/internal/vkit"
)

func latticeFamily(c *vkit.Collector, rng *vkit.Rng, budget int) {
	type combo struct{ mod, rem, cells int }
	combos := []combo{{2, 1, 4}, {3, 2, 4}, {3, 1, 16}, {2, 1, 8}, {3, 2, 5}, {3, 1, 4}, {2, 1, 16}, {3, 2, 16}}
	regs := []*testRegion{}
	for k := 0; k < mini(budget, 3); k++ {
		p, pn := pickCentre(rng)
		regs = append(regs, pointRegion(p, pn))
		q, qn := pickCentre(rng)
		regs = append(regs, capRegion(rng, q, qn, float64(s1.ChordAngleFromAngle(s1.Angle(1e-7*(1+rng.Float()))))))
		q2, qn2 := pickCentre(rng)
		regs = append(regs, capRegion(rng, q2, qn2, float64(s1.ChordAngleFromAngle(s1.Angle(3e-6*(1+rng.Float()))))))
		for _, lv := range []int{30, 24} {
			id := s2.CellFromPoint(randPoint(rng)).ID().Parent(lv)
			regs = append(regs, cellUnionRegion(fmt.Sprintf("cell(L%d)", lv), "cell", []s2.CellID{id}, s2.CellFromCellID(id)))
		}
		q3, qn3 := pickCentre(rng)
		regs = append(regs, polylineRegion(rng, q3, qn3, 1e-6, 2+rng.Intn(3)))
	}
	n := 0
	for ri, tr := range regs {
		boundLevel := 30
		for _, id := range tr.r.CellUnionBound() {
			boundLevel = mini(boundLevel, id.Level())
		}
		for j := 0; j < 2; j++ {
			cb := combos[n%len(combos)]
			n++
			rc := s2.RegionCoverer{LevelMod: cb.mod, MaxCells: cb.cells, MinLevel: rng.Intn(5)}
			// MaxLevel below the bound's level and off the lattice by cb.rem
			span := maxi(1, (boundLevel-1-rc.MinLevel-cb.rem)/cb.mod)
			rc.MaxLevel = rc.MinLevel + cb.rem + cb.mod*rng.Intn(span)
			if rc.MaxLevel > 30 || (rc.MaxLevel-rc.MinLevel)%cb.mod == 0 {
				continue
			}
			c.Class("family:tiny-region-offlattice-maxlevel")
			label := fmt.Sprintf("lattice %s #%d cfg{%d,%d,%d,%d}", tr.name, ri, rc.MinLevel, rc.MaxLevel, rc.LevelMod, rc.MaxCells)
			observe(c, rng, tr, rc, label, j == 0)
		}
	}
}

// ---- grazing ----

// faceUV projects p on the cube face of its largest component (own implementation).
func faceUV(p s2.Point) (int, float64, float64) {
	ax, ay, az := math.Abs(p.X), math.Abs(p.Y), math.Abs(p.Z)
	switch {
	case ax >= ay && ax >= az:
		if p.X > 0 {
			return 0, p.Y / p.X, p.Z / p.X
		}
		return 3, p.Z / p.X, p.Y / p.X
	case ay >= az:
		if p.Y > 0 {
			return 1, -p.X / p.Y, p.Z / p.Y
		}
		return 4, p.Z / p.Y, -p.X / p.Y
	default:
		if p.Z > 0 {
			return 2, -p.X / p.Z, -p.Y / p.Z
		}
		return 5, -p.Y / p.Z, -p.X / p.Z
	}
}

// strictlyInCell: p is inside the cell with a margin of 1e-9 in (u,v).
func strictlyInCell(cell s2.Cell, p s2.Point) bool {
	f, u, v := faceUV(p)
	if f != cell.Face() {
		return false
	}
	b := cell.BoundUV()
	const m = 1e-9
	return u > b.X.Lo+m && u < b.X.Hi-m && v > b.Y.Lo+m && v < b.Y.Hi-m
}

func latOf(p s2.Point) float64 { return math.Atan2(p.Z, math.Sqrt(p.X*p.X+p.Y*p.Y)) }
func lngOf(p s2.Point) float64 { return math.Atan2(p.Y, p.X) }
func wrapLng(x float64) float64 {
	for x > math.Pi {
		x -= 2 * math.Pi
	}
	for x < -math.Pi {
		x += 2 * math.Pi
	}
	return x
}

// edgeExtrema returns the points of the arc a-b where the latitude is extremal: the interior critical
// point if the arc has one, otherwise nothing (interior=true), or the end points (interior=false).
func edgeExtremum(a, b s2.Point) (s2.Point, bool) {
	n := a.Cross(b.Vector).Normalize()
	z := s2.PointFromCoords(0, 0, 1)
	q := z.Sub(n.Mul(z.Dot(n)))
	if q.Norm() < 1e-6 {
		return s2.Point{}, false
	}
	for _, sgn := range []float64{1, -1} {
		p := s2.Point{Vector: q.Normalize().Mul(sgn)}
		if a.Cross(p.Vector).Dot(n) > 1e-6 && p.Cross(b.Vector).Dot(n) > 1e-6 {
			return p, true
		}
	}
	return s2.Point{}, false
}

func grazeFamily(c *vkit.Collector, rng *vkit.Rng, budget int) {
	type site struct {
		cell  s2.Cell
		p     s2.Point // extremal point of an edge, or a vertex
		hmax  float64  // longitude half-width available before the edge's end points
		tag   string
		level int
		west  bool // the cell edge (or an edge at the vertex) runs westward from vertex i to vertex i+1
	}
	sites := []site{}
	for f := 0; f < 6; f++ {
		cell := s2.CellFromCellID(s2.CellIDFromFace(f))
		for k := 0; k < 4; k++ {
			a, b := cell.Vertex(k), cell.Vertex((k+1)&3)
			if p, ok := edgeExtremum(a, b); ok {
				h := math.Min(math.Abs(wrapLng(lngOf(a)-lngOf(p))), math.Abs(wrapLng(lngOf(b)-lngOf(p))))
				if math.Abs(latOf(p)) > 1.5 { // polar: longitude meaningless
					continue
				}
				sites = append(sites, site{cell, p, h, fmt.Sprintf("face%d-edge%d", f, k), 0, wrapLng(lngOf(b)-lngOf(a)) < 0})
			}
		}
	}
	for lv := 1; lv <= 3; lv++ {
		for k := 0; k < 3*mini(budget, 4); k++ {
			cell := s2.CellFromCellID(s2.CellFromPoint(randPoint(rng)).ID().Parent(lv))
			vi := rng.Intn(4)
			v := cell.Vertex(vi)
			if math.Abs(latOf(v)) > 1.4 {
				continue
			}
			west := wrapLng(lngOf(cell.Vertex((vi+1)&3))-lngOf(v)) < 0 || wrapLng(lngOf(v)-lngOf(cell.Vertex((vi+3)&3))) < 0
			sites = append(sites, site{cell, v, 0.2 * s2.AvgEdgeMetric.Value(lv), fmt.Sprintf("L%d-vertex%d", lv, vi), lv, west})
		}
	}
	covered := 0
	for _, st := range sites {
		ctr := st.cell.Center()
		for _, eps := range []float64{3e-2, 3e-3, 1e-4} {
			w := s2.Point{Vector: st.p.Add(ctr.Sub(st.p.Vector).Mul(eps)).Normalize()}
			// keep the witness on p's meridian so that only the parallel matters
			w = s2.PointFromLatLng(s2.LatLng{Lat: s1.Angle(latOf(w)), Lng: s1.Angle(lngOf(st.p))})
			if !strictlyInCell(st.cell, w) {
				continue
			}
			lp, lw := latOf(st.p), latOf(w)
			if math.Abs(lw-lp) < 1e-7 {
				continue
			}
			sgn := 1.0
			if lw < lp {
				sgn = -1
			}
			near := lw + (lw - lp) // a bit further into the cell than w
			for _, far := range []float64{lp - sgn*0.27, -sgn * math.Pi / 2, lp - sgn*1e-3} {
				far = math.Max(-math.Pi/2, math.Min(math.Pi/2, far))
				for _, hf := range []float64{0.98, 0.3} {
					h := st.hmax * hf
					lo, hi := math.Min(near, far), math.Max(near, far)
					tr := rectRegion(rng, lo, hi, wrapLng(lngOf(st.p)-h), wrapLng(lngOf(st.p)+h), "graze-"+st.tag)
					grazeCheck(c, rng, tr, st.cell, w, &covered, st.tag)
				}
			}
			// a cap centred beyond p (outside the cell), reaching just past w
			for _, rho := range []float64{0.2, 0.02} {
				cc := s2.PointFromLatLng(s2.LatLng{Lat: s1.Angle(math.Max(-1.55, math.Min(1.55, lp-sgn*rho))), Lng: s1.Angle(lngOf(st.p))})
				rad := float64(cc.Distance(w)) * (1 + 1e-6)
				tr := capRegion(rng, cc, "graze-"+st.tag, float64(s1.ChordAngleFromAngle(s1.Angle(rad))))
				grazeCheck(c, rng, tr, st.cell, w, &covered, st.tag)
			}
		}
	}
}

// each kind is reported at most three times per run, so that one defect cannot crowd out the others
var reported = map[string]int{}

func violateLimited(c *vkit.Collector, kind, desc string, rep interface{}, limit int) {
	if reported[kind] < limit {
		reported[kind]++
		c.Violate(kind, desc, rep)
	}
}

func grazeCheck(c *vkit.Collector, rng *vkit.Rng, tr *testRegion, cell s2.Cell, w s2.Point, covered *int, tag string) {
	if tr.or == nil || !tr.or.strictIn(w) {
		return
	}
	c.Class("family:graze-" + tr.kind)
	ic := tr.r.IntersectsCell(cell)
	c.Eval(fmt.Sprintf("graze %s %d", tr.name, uint64(cell.ID())), true)
	rep := map[string]interface{}{"site": tag, "region": tr.replay, "cell": fmt.Sprint(uint64(cell.ID())), "witness": []float64{w.X, w.Y, w.Z},
		"witness_latlng_deg": []float64{latOf(w) * 180 / math.Pi, lngOf(w) * 180 / math.Pi}}
	if !ic {
		violateLimited(c, "IntersectsCell.unsafe:"+tr.kind, "IntersectsCell false although a witness point lies in the region and strictly inside the cell (boundary grazing a cell edge)", rep, 3)
	}
	// every covering must contain the witness; a few per site keep the run short
	if *covered%7 == 0 || !ic {
		for _, rc := range []s2.RegionCoverer{{MinLevel: 0, MaxLevel: 30, LevelMod: 1, MaxCells: 8}, {MinLevel: 0, MaxLevel: 3 + rng.Intn(4), LevelMod: 1 + rng.Intn(2), MaxCells: 1 + rng.Intn(6)}} {
			rep["options"] = cfgJSON(rc)
			for _, cv := range []struct {
				name string
				ids  []s2.CellID
			}{{"Covering", rc.Covering(tr.r)}, {"FastCovering", rc.FastCovering(tr.r)}} {
				if !covers(cv.ids, w, true) {
					violateLimited(c, cv.name+".misses-point", cv.name+" does not contain a witness point of the region ("+tr.kind+", boundary grazing a cell edge)", rep, 3)
				}
			}
		}
	}
	*covered++
}
