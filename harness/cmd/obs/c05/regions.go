package main

// Region generators for C05 with, for each region, membership oracles that do not use the
// region's own predicates: exact rational arithmetic (caps: squared chord length; loops and
// polygons: signs of 3x3 determinants), id-range logic (cells, cell unions), or float lat/lng
// with an explicit slack (rects).

import (
	"fmt"
	"math"
	"math/big"

	"github.com/golang/geo/r3"
	"github.com/golang/geo/s1"
	"github.com/golang/geo/s2"
	"verifharness/internal/vkit"
)

// tri is a one-sided answer.
type oracle struct {
	// strictIn: p is certainly a point of the region (with margin for the rounding of p itself).
	strictIn func(p s2.Point) bool
	// strictOut: p is certainly not a point of the region.
	strictOut func(p s2.Point) bool
}

type testRegion struct {
	name    string
	kind    string
	r       s2.Region
	size    float64 // angular extent (radians), used to keep MinLevel / interior MaxLevel affordable
	zeroDim bool    // no interior (points, polylines): interior coverings need a low MaxLevel
	or      *oracle // nil: no independent point oracle
	// members: points known to be in the region. exact=false: within 1e-15 of a region point
	members func(rng *vkit.Rng, n int) (pts []s2.Point, exact bool)
	// boundary: points near the boundary of the region (cells around them are tested for predicate safety)
	boundary func(rng *vkit.Rng, n int) []s2.Point
	// idUnion: for cell / cell-union regions, the cells (id-range oracle)
	idUnion []s2.CellID
	replay  interface{}
}

// ---- exact arithmetic ----

func rat(f float64) *big.Rat { return new(big.Rat).SetFloat64(f) }

// detSign returns the sign of det(a, b, c) = (a x b) . c, exactly.
func detSign(a, b, c s2.Point) int {
	ax, ay, az := rat(a.X), rat(a.Y), rat(a.Z)
	bx, by, bz := rat(b.X), rat(b.Y), rat(b.Z)
	cx, cy, cz := rat(c.X), rat(c.Y), rat(c.Z)
	m := func(x, y *big.Rat) *big.Rat { return new(big.Rat).Mul(x, y) }
	s := func(x, y *big.Rat) *big.Rat { return new(big.Rat).Sub(x, y) }
	crx := s(m(ay, bz), m(az, by))
	cry := s(m(az, bx), m(ax, bz))
	crz := s(m(ax, by), m(ay, bx))
	d := new(big.Rat).Add(new(big.Rat).Add(m(crx, cx), m(cry, cy)), m(crz, cz))
	return d.Sign()
}

// chord2 returns |a-b|^2 exactly.
func chord2(a, b s2.Point) *big.Rat {
	s := new(big.Rat)
	for _, d := range [][2]float64{{a.X, b.X}, {a.Y, b.Y}, {a.Z, b.Z}} {
		t := new(big.Rat).Sub(rat(d[0]), rat(d[1]))
		s.Add(s, t.Mul(t, t))
	}
	return s
}

func pointKey(p s2.Point) string {
	return fmt.Sprintf("%x,%x,%x", math.Float64bits(p.X), math.Float64bits(p.Y), math.Float64bits(p.Z))
}

func randPoint(rng *vkit.Rng) s2.Point {
	for {
		x, y, z := rng.Range(-1, 1), rng.Range(-1, 1), rng.Range(-1, 1)
		n := x*x + y*y + z*z
		if n > 1e-3 && n <= 1 {
			return s2.PointFromCoords(x, y, z)
		}
	}
}

// special centres: cube corners, face centres, edge midpoints, poles, antimeridian, plus random
func pickCentre(rng *vkit.Rng) (s2.Point, string) {
	switch rng.Intn(8) {
	case 0:
		sx, sy, sz := float64(2*rng.Intn(2)-1), float64(2*rng.Intn(2)-1), float64(2*rng.Intn(2)-1)
		return s2.PointFromCoords(sx, sy, sz), "cube-corner"
	case 1:
		v := [3]float64{}
		v[rng.Intn(3)] = float64(2*rng.Intn(2) - 1)
		return s2.PointFromCoords(v[0], v[1], v[2]), "face-centre/pole"
	case 2:
		v := [3]float64{float64(2*rng.Intn(2) - 1), float64(2*rng.Intn(2) - 1), float64(2*rng.Intn(2) - 1)}
		v[rng.Intn(3)] = 0
		return s2.PointFromCoords(v[0], v[1], v[2]), "cube-edge"
	case 3:
		return s2.PointFromLatLng(s2.LatLngFromDegrees(rng.Range(-80, 80), 180-rng.Range(0, 1e-3))), "antimeridian"
	case 4:
		return s2.PointFromLatLng(s2.LatLngFromDegrees(90-rng.Range(0, 1e-3), rng.Range(-180, 180))), "near-pole"
	default:
		return randPoint(rng), "random"
	}
}

// perp returns two unit vectors orthogonal to c and to each other.
func perp(c s2.Point) (s2.Point, s2.Point) {
	u := s2.Point{Vector: c.Ortho()}
	v := s2.Point{Vector: c.Cross(u.Vector).Normalize()}
	return u, v
}

// at returns the point at angle t from c in direction phi.
func at(c s2.Point, t, phi float64) s2.Point {
	u, v := perp(c)
	d := u.Mul(math.Cos(phi)).Add(v.Mul(math.Sin(phi)))
	return s2.Point{Vector: c.Mul(math.Cos(t)).Add(d.Mul(math.Sin(t))).Normalize()}
}

// ---- caps ----

func capRegion(rng *vkit.Rng, centre s2.Point, cname string, length2 float64) *testRegion {
	cp := s2.CapFromCenterChordAngle(centre, s1.ChordAngle(length2))
	r2 := rat(length2)
	full := length2 >= 4
	slackOf := func(d *big.Rat) *big.Rat { // 1e-15 * d + 1e-31: p and centre are unit only up to rounding
		s := new(big.Rat).Mul(d, big.NewRat(1, 1e15))
		return s.Add(s, new(big.Rat).SetFrac(big.NewInt(1), new(big.Int).Exp(big.NewInt(10), big.NewInt(31), nil)))
	}
	or := &oracle{
		strictIn: func(p s2.Point) bool {
			if full {
				return true
			}
			if length2 < 0 {
				return false
			}
			d := chord2(p, centre)
			return new(big.Rat).Add(d, slackOf(d)).Cmp(r2) < 0
		},
		strictOut: func(p s2.Point) bool {
			if full {
				return false
			}
			if length2 < 0 {
				return true
			}
			d := chord2(p, centre)
			return new(big.Rat).Sub(d, slackOf(d)).Cmp(r2) > 0
		},
	}
	ang := 2 * math.Asin(math.Min(1, 0.5*math.Sqrt(math.Max(0, length2))))
	tr := &testRegion{name: fmt.Sprintf("cap(%s,r=%.3g)", cname, ang), kind: "cap", r: cp, size: 2 * ang, or: or,
		replay: map[string]interface{}{"type": "cap", "centre": []float64{centre.X, centre.Y, centre.Z}, "length2": length2}}
	tr.members = func(rng *vkit.Rng, n int) ([]s2.Point, bool) {
		pts := []s2.Point{}
		if length2 < 0 {
			return pts, true
		}
		pts = append(pts, centre)
		for k := 0; k < 4*n && len(pts) < n; k++ {
			f := 1 - math.Pow(rng.Float(), 4) // concentrate near the rim
			if rng.Intn(4) == 0 {
				f = rng.Float()
			}
			p := at(centre, ang*f, rng.Range(0, 2*math.Pi))
			if or.strictIn(p) {
				pts = append(pts, p)
			}
		}
		return pts, true
	}
	tr.boundary = func(rng *vkit.Rng, n int) []s2.Point {
		pts := []s2.Point{}
		for k := 0; k < n; k++ {
			pts = append(pts, at(centre, ang, rng.Range(0, 2*math.Pi)))
		}
		return pts
	}
	return tr
}

// ---- lat-lng rectangles ----

func rectRegion(rng *vkit.Rng, latLo, latHi, lngLo, lngHi float64, tag string) *testRegion {
	rc := s2.Rect{Lat: r1Interval(latLo, latHi), Lng: s1.Interval{Lo: lngLo, Hi: lngHi}}
	const slack = 1e-14
	lngIn := func(x, sl float64) bool { // x in [lngLo-sl... ] shrunk (sl>0) or grown (sl<0)
		if lngLo == -math.Pi && lngHi == math.Pi {
			return true
		}
		if lngLo <= lngHi {
			return x >= lngLo+sl && x <= lngHi-sl
		}
		return x >= lngLo+sl || x <= lngHi-sl
	}
	latlng := func(p s2.Point) (float64, float64) {
		return math.Atan2(p.Z, math.Sqrt(p.X*p.X+p.Y*p.Y)), math.Atan2(p.Y, p.X)
	}
	or := &oracle{
		strictIn: func(p s2.Point) bool {
			if rc.IsEmpty() {
				return false
			}
			la, lo := latlng(p)
			if math.Abs(la) > math.Pi/2-1e-9 { // longitude is meaningless at the poles
				return latLo <= la-slack && la+slack <= latHi && lngLo == -math.Pi && lngHi == math.Pi
			}
			return la >= latLo+slack && la <= latHi-slack && lngIn(lo, slack)
		},
		strictOut: func(p s2.Point) bool {
			if rc.IsEmpty() {
				return true
			}
			la, lo := latlng(p)
			if la < latLo-slack || la > latHi+slack {
				return true
			}
			if math.Abs(la) > math.Pi/2-1e-9 {
				return false
			}
			return !lngIn(lo, -slack)
		},
	}
	lngLen := lngHi - lngLo
	if lngLen < 0 {
		lngLen += 2 * math.Pi
	}
	tr := &testRegion{name: fmt.Sprintf("rect(%s,lat[%.4g,%.4g],lng[%.4g,%.4g])", tag, latLo, latHi, lngLo, lngHi), kind: "rect", r: rc,
		size: math.Max(latHi-latLo, lngLen), or: or,
		replay: map[string]interface{}{"type": "rect", "lat": []float64{latLo, latHi}, "lng": []float64{lngLo, lngHi}}}
	pick := func(rng *vkit.Rng, edge bool) s2.Point {
		fa, fo := rng.Float(), rng.Float()
		if edge {
			switch rng.Intn(4) {
			case 0:
				fa = float64(rng.Intn(2))
			case 1:
				fo = float64(rng.Intn(2))
			default:
				fa, fo = float64(rng.Intn(2)), float64(rng.Intn(2))
			}
		}
		la := latLo + (latHi-latLo)*fa
		lo := lngLo + lngLen*fo
		if lo > math.Pi {
			lo -= 2 * math.Pi
		}
		return s2.PointFromLatLng(s2.LatLng{Lat: s1.Angle(la), Lng: s1.Angle(lo)})
	}
	tr.members = func(rng *vkit.Rng, n int) ([]s2.Point, bool) {
		pts := []s2.Point{}
		if rc.IsEmpty() {
			return pts, false
		}
		for k := 0; k < n; k++ {
			pts = append(pts, pick(rng, k%3 == 0)) // corners and edges are region points up to rounding
		}
		return pts, false
	}
	tr.boundary = func(rng *vkit.Rng, n int) []s2.Point {
		pts := []s2.Point{}
		if rc.IsEmpty() {
			return pts
		}
		for k := 0; k < n; k++ {
			pts = append(pts, pick(rng, true))
		}
		return pts
	}
	return tr
}

// ---- cells and cell unions (id-range oracle) ----

func cellUnionRegion(name, kind string, ids []s2.CellID, r s2.Region) *testRegion {
	sz := 0.0
	for _, id := range ids {
		sz = math.Max(sz, s2.MaxDiagMetric.Value(id.Level()))
	}
	if len(ids) > 1 {
		sz = math.Min(math.Pi, sz*math.Sqrt(float64(len(ids)))*2)
	}
	idsS := []string{}
	for _, id := range ids {
		idsS = append(idsS, fmt.Sprintf("%d", uint64(id)))
	}
	tr := &testRegion{name: name, kind: kind, r: r, size: sz, idUnion: ids, replay: map[string]interface{}{"type": kind, "ids": idsS}}
	tr.members = func(rng *vkit.Rng, n int) ([]s2.Point, bool) {
		pts := []s2.Point{}
		if len(ids) == 0 {
			return pts, true
		}
		for k := 0; k < n; k++ {
			pts = append(pts, cellInnerPoint(rng, s2.CellFromCellID(ids[rng.Intn(len(ids))]), k))
		}
		return pts, true
	}
	tr.boundary = func(rng *vkit.Rng, n int) []s2.Point {
		pts := []s2.Point{}
		if len(ids) == 0 {
			return pts
		}
		for k := 0; k < n; k++ {
			c := s2.CellFromCellID(ids[rng.Intn(len(ids))])
			pts = append(pts, c.Vertex(rng.Intn(4)))
		}
		return pts
	}
	return tr
}

// cellInnerPoint returns a point strictly inside the cell (margin >= 1e-3 of its size):
// k = 0 centre, 1..4 near a vertex, 5..8 near an edge midpoint, otherwise a random positive combination.
func cellInnerPoint(rng *vkit.Rng, c s2.Cell, k int) s2.Point {
	ctr := c.Center()
	var v r3.Vector
	switch {
	case k == 0:
		return ctr
	case k <= 4:
		v = c.Vertex(k - 1).Vector
	case k <= 8:
		v = c.Vertex(k - 5).Add(c.Vertex((k - 4) % 4).Vector).Normalize()
	default:
		w := [4]float64{}
		for i := range w {
			w[i] = 0.02 + rng.Float()
		}
		for i := 0; i < 4; i++ {
			v = v.Add(c.Vertex(i).Mul(w[i]))
		}
		return s2.Point{Vector: v.Normalize()}
	}
	return s2.Point{Vector: v.Mul(1 - 1e-3).Add(ctr.Mul(1e-3)).Normalize()}
}

// ---- loops and polygons (exact determinant signs) ----

// convexIn: p strictly to the left of every edge of a convex CCW loop.
func convexStrictIn(vs []s2.Point, p s2.Point) bool {
	for i := range vs {
		if detSign(vs[i], vs[(i+1)%len(vs)], p) <= 0 {
			return false
		}
	}
	return true
}
func convexStrictOut(vs []s2.Point, p s2.Point) bool {
	for i := range vs {
		if detSign(vs[i], vs[(i+1)%len(vs)], p) < 0 {
			return true
		}
	}
	return false
}
func isConvexCCW(vs []s2.Point) bool {
	n := len(vs)
	for i := range vs {
		for k := 0; k < n; k++ {
			if k == i || k == (i+1)%n {
				continue
			}
			if detSign(vs[i], vs[(i+1)%n], vs[k]) <= 0 {
				return false
			}
		}
	}
	return true
}

// star-shaped loops: union of the triangles (centre, v_i, v_i+1)
func inTriStrict(a, b, c, p s2.Point) bool {
	return detSign(a, b, p) > 0 && detSign(b, c, p) > 0 && detSign(c, a, p) > 0
}
func inTriClosed(a, b, c, p s2.Point) bool {
	return detSign(a, b, p) >= 0 && detSign(b, c, p) >= 0 && detSign(c, a, p) >= 0
}
func isStar(ctr s2.Point, vs []s2.Point) bool {
	for i := range vs {
		if detSign(ctr, vs[i], vs[(i+1)%len(vs)]) <= 0 {
			return false
		}
	}
	return true
}
func starStrictIn(ctr s2.Point, vs []s2.Point, p s2.Point) bool {
	for i := range vs {
		if inTriStrict(ctr, vs[i], vs[(i+1)%len(vs)], p) {
			return true
		}
	}
	return false
}
func starStrictOut(ctr s2.Point, vs []s2.Point, p s2.Point) bool {
	if ctr.Dot(p.Vector) < 0.2 { // the fan argument is used within the hemisphere of the centre only
		return false
	}
	for i := range vs {
		if inTriClosed(ctr, vs[i], vs[(i+1)%len(vs)], p) {
			return false
		}
	}
	return true
}

// ringPoints: n points around ctr at radius rad (alternating rad*inner for star shapes), CCW.
func ringPoints(ctr s2.Point, rad float64, n int, inner float64, phase float64) []s2.Point {
	vs := make([]s2.Point, n)
	for i := 0; i < n; i++ {
		r := rad
		if inner != 1 && i%2 == 1 {
			r = rad * inner
		}
		vs[i] = at(ctr, r, phase+2*math.Pi*float64(i)/float64(n))
	}
	return vs
}

func ptsJSON(vs []s2.Point) [][]float64 {
	out := [][]float64{}
	for _, v := range vs {
		out = append(out, []float64{v.X, v.Y, v.Z})
	}
	return out
}

func loopRegion(rng *vkit.Rng, ctr s2.Point, cname string, rad float64, n int, inner float64) *testRegion {
	vs := ringPoints(ctr, rad, n, inner, rng.Range(0, 1))
	if detSign(ctr, vs[0], vs[1]) < 0 { // make CCW as seen from outside
		for i, j := 0, len(vs)-1; i < j; i, j = i+1, j-1 {
			vs[i], vs[j] = vs[j], vs[i]
		}
	}
	l := s2.LoopFromPoints(vs)
	kind := "loop-convex"
	var or *oracle
	if inner == 1 && rad < 1.2 && isConvexCCW(vs) {
		or = &oracle{strictIn: func(p s2.Point) bool { return ctr.Dot(p.Vector) > 0 && convexStrictIn(vs, p) },
			strictOut: func(p s2.Point) bool { return ctr.Dot(p.Vector) <= 0 || convexStrictOut(vs, p) }}
	} else if rad < 1.2 && isStar(ctr, vs) {
		kind = "loop-star"
		or = &oracle{strictIn: func(p s2.Point) bool { return ctr.Dot(p.Vector) > 0.2 && starStrictIn(ctr, vs, p) },
			strictOut: func(p s2.Point) bool { return starStrictOut(ctr, vs, p) }}
	} else {
		kind = "loop-other"
	}
	tr := &testRegion{name: fmt.Sprintf("%s(%s,r=%.3g,n=%d)", kind, cname, rad, n), kind: kind, r: l, size: 2 * rad, or: or,
		replay: map[string]interface{}{"type": "loop", "vertices": ptsJSON(vs)}}
	tr.members = func(rng *vkit.Rng, nn int) ([]s2.Point, bool) { return polyMembers(rng, nn, ctr, vs, or), true }
	tr.boundary = func(rng *vkit.Rng, nn int) []s2.Point { return edgePoints(rng, nn, vs) }
	return tr
}

func polyMembers(rng *vkit.Rng, n int, ctr s2.Point, vs []s2.Point, or *oracle) []s2.Point {
	pts := []s2.Point{}
	if or == nil {
		return pts
	}
	for k := 0; k < 6*n && len(pts) < n; k++ {
		var p s2.Point
		switch k % 3 {
		case 0: // just inside a vertex
			v := vs[rng.Intn(len(vs))]
			p = s2.Point{Vector: v.Mul(1 - 1e-6).Add(ctr.Mul(1e-6)).Normalize()}
		case 1: // just inside an edge
			i := rng.Intn(len(vs))
			e := s2.Interpolate(rng.Float(), vs[i], vs[(i+1)%len(vs)])
			p = s2.Point{Vector: e.Mul(1 - 1e-6).Add(ctr.Mul(1e-6)).Normalize()}
		default:
			v := vs[rng.Intn(len(vs))]
			f := rng.Float()
			p = s2.Point{Vector: v.Mul(f).Add(ctr.Mul(1 - f)).Normalize()}
		}
		if or.strictIn(p) {
			pts = append(pts, p)
		}
	}
	return pts
}

func edgePoints(rng *vkit.Rng, n int, vs []s2.Point) []s2.Point {
	pts := []s2.Point{}
	for k := 0; k < n; k++ {
		i := rng.Intn(len(vs))
		if k%4 == 0 {
			pts = append(pts, vs[i])
		} else {
			pts = append(pts, s2.Interpolate(rng.Float(), vs[i], vs[(i+1)%len(vs)]))
		}
	}
	return pts
}

func polygonWithHole(rng *vkit.Rng, ctr s2.Point, cname string, rad float64, n int, holeFrac float64, m int) *testRegion {
	outer := ringPoints(ctr, rad, n, 1, rng.Range(0, 1))
	holeFrac *= math.Cos(math.Pi / float64(n)) // keep the hole inside the inscribed circle of the outer loop
	hole := ringPoints(ctr, rad*holeFrac, m, 1, rng.Range(0, 1))
	if detSign(ctr, outer[0], outer[1]) < 0 {
		for i, j := 0, len(outer)-1; i < j; i, j = i+1, j-1 {
			outer[i], outer[j] = outer[j], outer[i]
		}
	}
	if detSign(ctr, hole[0], hole[1]) < 0 {
		for i, j := 0, len(hole)-1; i < j; i, j = i+1, j-1 {
			hole[i], hole[j] = hole[j], hole[i]
		}
	}
	holeCW := make([]s2.Point, len(hole))
	for i := range hole {
		holeCW[i] = hole[len(hole)-1-i]
	}
	pg := s2.PolygonFromOrientedLoops([]*s2.Loop{s2.LoopFromPoints(outer), s2.LoopFromPoints(holeCW)})
	var or *oracle
	nested := true
	for _, h := range hole {
		nested = nested && convexStrictIn(outer, h)
	}
	if rad < 1.2 && isConvexCCW(outer) && isConvexCCW(hole) && nested {
		or = &oracle{
			strictIn: func(p s2.Point) bool {
				return ctr.Dot(p.Vector) > 0 && convexStrictIn(outer, p) && convexStrictOut(hole, p)
			},
			strictOut: func(p s2.Point) bool {
				return ctr.Dot(p.Vector) <= 0 || convexStrictOut(outer, p) || convexStrictIn(hole, p)
			}}
	}
	tr := &testRegion{name: fmt.Sprintf("polygon-hole(%s,r=%.3g,n=%d,hole=%.2g/%d)", cname, rad, n, holeFrac, m), kind: "polygon-hole", r: pg, size: 2 * rad, or: or,
		replay: map[string]interface{}{"type": "polygon", "outer": ptsJSON(outer), "holeCW": ptsJSON(holeCW)}}
	tr.members = func(rng *vkit.Rng, nn int) ([]s2.Point, bool) {
		pts := []s2.Point{}
		if or == nil {
			return pts, true
		}
		for k := 0; k < 8*nn && len(pts) < nn; k++ {
			var p s2.Point
			switch k % 4 {
			case 0:
				v := outer[rng.Intn(len(outer))]
				p = s2.Point{Vector: v.Mul(1 - 1e-6).Add(ctr.Mul(1e-6)).Normalize()}
			case 1: // just outside a hole vertex (i.e. inside the polygon)
				v := hole[rng.Intn(len(hole))]
				p = s2.Point{Vector: v.Mul(1 + 1e-6).Sub(ctr.Mul(1e-6)).Normalize()}
			case 2:
				i := rng.Intn(len(hole))
				e := s2.Interpolate(rng.Float(), hole[i], hole[(i+1)%len(hole)])
				p = s2.Point{Vector: e.Mul(1 + 1e-6).Sub(ctr.Mul(1e-6)).Normalize()}
			default:
				p = at(ctr, rad*(holeFrac+(1-holeFrac)*rng.Float()), rng.Range(0, 2*math.Pi))
			}
			if or.strictIn(p) {
				pts = append(pts, p)
			}
		}
		return pts, true
	}
	tr.boundary = func(rng *vkit.Rng, nn int) []s2.Point {
		return append(edgePoints(rng, nn/2, outer), edgePoints(rng, nn-nn/2, hole)...)
	}
	return tr
}

// ---- polylines and points ----

func polylineRegion(rng *vkit.Rng, ctr s2.Point, cname string, rad float64, n int) *testRegion {
	vs := []s2.Point{}
	for i := 0; i < n; i++ {
		vs = append(vs, at(ctr, rad*rng.Float(), rng.Range(0, 2*math.Pi)))
	}
	pl := s2.Polyline(vs)
	tr := &testRegion{name: fmt.Sprintf("polyline(%s,r=%.3g,n=%d)", cname, rad, n), kind: "polyline", r: &pl, size: 2 * rad, zeroDim: true,
		replay: map[string]interface{}{"type": "polyline", "vertices": ptsJSON(vs)}}
	tr.members = func(rng *vkit.Rng, nn int) ([]s2.Point, bool) {
		pts := append([]s2.Point{}, vs...)
		for len(pts) < nn && len(vs) > 1 {
			i := rng.Intn(len(vs) - 1)
			pts = append(pts, s2.Interpolate(rng.Float(), vs[i], vs[i+1]))
		}
		return pts, false
	}
	tr.boundary = func(rng *vkit.Rng, nn int) []s2.Point { p, _ := tr.members(rng, nn); return p }
	return tr
}

func pointRegion(p s2.Point, cname string) *testRegion {
	tr := &testRegion{name: "point(" + cname + ")", kind: "point", r: p, size: 0, zeroDim: true,
		replay: map[string]interface{}{"type": "point", "p": []float64{p.X, p.Y, p.Z}}}
	tr.members = func(rng *vkit.Rng, nn int) ([]s2.Point, bool) { return []s2.Point{p}, true }
	tr.boundary = func(rng *vkit.Rng, nn int) []s2.Point { return []s2.Point{p} }
	return tr
}
