package main

// Synthetic regions for the correspondence only: predicates that are arbitrary (hash-valued)
// functions of the cell id and arbitrary CellUnionBounds.  They need not describe any point set;
// they drive the coverer through tie orders of the priority queue, the greedy merging of
// normalizeCovering and its "very large covering" branch, which geometric regions rarely reach.

import (
	"fmt"

	"github.com/golang/geo/s2"
	"verifharness/internal/vkit"
)

type hashRegion struct {
	seed     uint64
	pI, pC   uint64 // out of 16
	bound    []s2.CellID
	maxDepth int
}

func mix(a, b uint64) uint64 {
	z := a ^ (b * 0x9E3779B97F4A7C15)
	z = (z ^ (z >> 30)) * 0xBF58476D1CE4E5B9
	z = (z ^ (z >> 27)) * 0x94D049BB133111EB
	return z ^ (z >> 31)
}
func (h *hashRegion) CapBound() s2.Cap              { return s2.FullCap() }
func (h *hashRegion) RectBound() s2.Rect            { return s2.FullRect() }
func (h *hashRegion) ContainsPoint(p s2.Point) bool { return false }
func (h *hashRegion) IntersectsCell(c s2.Cell) bool { return mix(h.seed, uint64(c.ID()))%16 < h.pI }
func (h *hashRegion) ContainsCell(c s2.Cell) bool   { return mix(h.seed+1, uint64(c.ID()))%16 < h.pC }
func (h *hashRegion) CellUnionBound() []s2.CellID   { return append([]s2.CellID{}, h.bound...) }

func randomBound(rng *vkit.Rng, maxLevel int) []s2.CellID {
	switch rng.Intn(4) {
	case 0:
		out := []s2.CellID{}
		for f := 0; f < 6; f++ {
			out = append(out, s2.CellIDFromFace(f))
		}
		return out
	case 1: // vertex neighbours, like Cap.CellUnionBound
		p, _ := pickCentre(rng)
		lv := rng.Intn(maxLevel + 1)
		return s2.CellFromPoint(p).ID().VertexNeighbors(lv)
	default: // unsorted, with duplicates and nesting
		n := 1 + rng.Intn(9)
		out := []s2.CellID{}
		p, _ := pickCentre(rng)
		base := s2.CellFromPoint(p).ID()
		for i := 0; i < n; i++ {
			lv := rng.Intn(maxLevel + 1)
			x := base.Parent(lv)
			if rng.Intn(2) == 0 && lv > 0 {
				nb := x.AllNeighbors(lv)
				x = nb[rng.Intn(len(nb))]
			}
			if rng.Intn(3) == 0 {
				x = s2.CellFromPoint(randPoint(rng)).ID().Parent(lv)
			}
			out = append(out, x)
		}
		return out
	}
}

func synthetic(c *vkit.Collector, rng *vkit.Rng, budget int) {
	n := 20 * budget
	for k := 0; k < n; k++ {
		h := &hashRegion{seed: rng.U64(), pI: uint64(8 + rng.Intn(9)), pC: uint64(rng.Intn(8))}
		rc := s2.RegionCoverer{MinLevel: rng.Intn(3), LevelMod: 1 + rng.Intn(3), MaxCells: []int{0, 1, 3, 5, 8, 13, 30, 100}[rng.Intn(8)]}
		rc.MaxLevel = rc.MinLevel + rng.Intn(4)
		if rng.Intn(8) == 0 {
			rc.MaxLevel = rng.Intn(3)
		}
		h.bound = randomBound(rng, mini(6, rc.MaxLevel+2))
		label := fmt.Sprintf("hash-region #%d cfg{%d,%d,%d,%d}", k, rc.MinLevel, rc.MaxLevel, rc.LevelMod, rc.MaxCells)
		c.Class("region:synthetic-hash")
		w := newRecorder(h, nil)
		cov := rc.Covering(w)
		fast := rc.FastCovering(w)
		c.Eval(label, true)
		fb := fallbackTerm(c, h.bound, rc, label)
		c.Check("Covering+FastCovering "+label,
			"(let ti := "+tableTerm(w.I, false)+" in let tc := "+tableTerm(w.C, false)+" in let b := "+idList(h.bound)+" in let fb := "+fb+" in let o := "+optsTerm(rc)+" in "+
				vkit.App("olist_eqb", "(Covering ti tc b fb o)", idList(cov))+" && "+
				vkit.App("olist_eqb", "(FastCovering b fb o)", idList(fast))+")")
		wi := newRecorder(h, nil)
		icov := rc.InteriorCovering(wi)
		c.Check("InteriorCovering "+label,
			"(let ti := "+tableTerm(wi.I, false)+" in let tc := "+tableTerm(wi.C, false)+" in let b := "+idList(h.bound)+" in let fb := "+fb+" in let o := "+optsTerm(rc)+" in "+
				vkit.App("olist_eqb", "(InteriorCovering ti tc b fb o)", idList(icov))+")")
	}
	// large bounds: the greedy merge of normalizeCovering and its "very large covering" branch
	m := 8 * budget
	for k := 0; k < m; k++ {
		p, _ := pickCentre(rng)
		lv := 1 + rng.Intn(5)
		base := s2.CellFromPoint(p).ID().Parent(lv)
		cu := s2.CellUnion{base}
		for _, nb := range base.AllNeighbors(lv) {
			if rng.Intn(2) == 0 {
				cu = append(cu, nb)
			}
		}
		cu.Normalize()
		bound := append(s2.CellUnion{}, cu...)
		bound.Denormalize(mini(30, lv+1+rng.Intn(3)), 1)
		if k%3 == 0 { // drop some cells so that siblings are incomplete
			nb := s2.CellUnion{}
			for _, x := range bound {
				if rng.Intn(5) != 0 {
					nb = append(nb, x)
				}
			}
			bound = nb
		}
		rc := s2.RegionCoverer{MinLevel: rng.Intn(lv + 2), MaxLevel: lv + rng.Intn(6), LevelMod: 1 + rng.Intn(3), MaxCells: []int{1, 2, 4, 8, 20, 50, -200}[rng.Intn(7)]}
		label := fmt.Sprintf("large-bound #%d n=%d cfg{%d,%d,%d,%d}", k, len(bound), rc.MinLevel, rc.MaxLevel, rc.LevelMod, rc.MaxCells)
		c.Class("region:synthetic-large-bound")
		region := append(s2.CellUnion{}, bound...)
		w := newRecorder(&region, bound)
		fast := rc.FastCovering(w)
		cov := rc.Covering(w)
		c.Eval(label, true)
		fb := fallbackTerm(c, bound, rc, label)
		c.Check("FastCovering+Covering "+label,
			"(let ti := "+tableTerm(w.I, false)+" in let tc := "+tableTerm(w.C, false)+" in let b := "+idList(bound)+" in let fb := "+fb+" in let o := "+optsTerm(rc)+" in "+
				vkit.App("olist_eqb", "(FastCovering b fb o)", idList(fast))+" && "+
				vkit.App("olist_eqb", "(Covering ti tc b fb o)", idList(cov))+")")
		// the bound is the region itself here, so both must cover every cell of it
		for _, x := range bound {
			if !leafRangeInside(fast, x) {
				c.Violate("FastCovering.misses-cell", "FastCovering does not cover a cell of the CellUnionBound it was given",
					map[string]interface{}{"bound": idsJSON(bound), "options": cfgJSON(rc), "cell": fmt.Sprint(uint64(x))})
				break
			}
			if !leafRangeInside(cov, x) {
				c.Violate("Covering.misses-cell", "Covering does not cover a cell of a cell-union region",
					map[string]interface{}{"bound": idsJSON(bound), "options": cfgJSON(rc), "cell": fmt.Sprint(uint64(x))})
				break
			}
		}
	}
}
