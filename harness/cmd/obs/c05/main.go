// Observer for C05 (region coverings).
//
// [T] Any s2.Region is wrapped in a recorder that logs the answers of IntersectsCell /
// ContainsCell per cell id and the CellUnionBound.  The Coq model of regioncoverer.go
// (Model/Coverer.v), run on the recorded tables, must return the identical cell list for
// Covering / CellUnion / InteriorCovering / InteriorCellUnion / FastCovering.
//
// [S] The property itself on the real code, with oracles that do not use the code under test:
// level limits of every returned cell, coverage of points known to be in the region, containment
// of interior-covering cells, one-sided safety of ContainsCell / IntersectsCell.
package main

import (
	"fmt"
	"math"
	"os"
	"sort"
	"strings"

	"github.com/golang/geo/r1"
	"github.com/golang/geo/s1"
	"github.com/golang/geo/s2"
	"verifharness/internal/vkit"
)

func main() { vkit.Main("C05", []string{"Gen.CellIDCov", "Model.Coverer"}, runC05) }

func r1Interval(lo, hi float64) r1.Interval { return r1.Interval{Lo: lo, Hi: hi} }

// ---- recorder ----

type recorder struct {
	r      s2.Region
	I, C   map[s2.CellID]bool
	bound  []s2.CellID // non-nil: overrides the region's CellUnionBound
	nondet bool
}

func newRecorder(r s2.Region, bound []s2.CellID) *recorder {
	return &recorder{r: r, I: map[s2.CellID]bool{}, C: map[s2.CellID]bool{}, bound: bound}
}
func (w *recorder) CapBound() s2.Cap                 { return w.r.CapBound() }
func (w *recorder) RectBound() s2.Rect               { return w.r.RectBound() }
func (w *recorder) ContainsPoint(p s2.Point) bool    { return w.r.ContainsPoint(p) }
func (w *recorder) IntersectsCell(c s2.Cell) bool {
	a := w.r.IntersectsCell(c)
	if old, ok := w.I[c.ID()]; ok && old != a {
		w.nondet = true
	}
	w.I[c.ID()] = a
	return a
}
func (w *recorder) ContainsCell(c s2.Cell) bool {
	a := w.r.ContainsCell(c)
	if old, ok := w.C[c.ID()]; ok && old != a {
		w.nondet = true
	}
	w.C[c.ID()] = a
	return a
}
func (w *recorder) CellUnionBound() []s2.CellID {
	if w.bound != nil {
		return append([]s2.CellID{}, w.bound...)
	}
	return w.r.CellUnionBound()
}

// ---- Coq printing ----

func idList(ids []s2.CellID) string {
	var b strings.Builder
	b.WriteString("[")
	for i, id := range ids {
		if i > 0 {
			b.WriteString(";")
		}
		fmt.Fprintf(&b, "0x%x", uint64(id))
	}
	b.WriteString("]%Z")
	return b.String()
}

// tableTerm: (table2 trues falses default).  The default (answer for a cell the implementation never asked
// about) is false for both predicates: a model that asks a different question than the code then drops
// the cell and the lists differ (with "true" the all-children-terminal shortcut can mask the difference).
func tableTerm(m map[s2.CellID]bool, dflt bool) string {
	var t, f []s2.CellID
	for k, v := range m {
		if v {
			t = append(t, k)
		} else {
			f = append(f, k)
		}
	}
	sort.Slice(t, func(i, j int) bool { return t[i] < t[j] })
	sort.Slice(f, func(i, j int) bool { return f[i] < f[j] })
	return vkit.App("table2", idList(t), idList(f), vkit.B(dflt))
}

func optsTerm(rc s2.RegionCoverer) string {
	return vkit.App("mkOpts", vkit.Z(int64(rc.MinLevel)), vkit.Z(int64(rc.MaxLevel)), vkit.Z(int64(rc.LevelMod)), vkit.Z(int64(rc.MaxCells)))
}

func clamp(rc s2.RegionCoverer) (minL, maxL, mod int) {
	minL = maxi(0, mini(30, rc.MinLevel))
	maxL = maxi(0, mini(30, rc.MaxLevel))
	mod = maxi(1, mini(3, rc.LevelMod))
	return
}
func mini(a, b int) int {
	if a < b {
		return a
	}
	return b
}
func maxi(a, b int) int {
	if a > b {
		return a
	}
	return b
}

// normalizePrefix replays the first three statements of coverer.normalizeCovering with the public
// API, to learn the argument with which the "very large covering" branch would call
// NewRegionCoverer().Covering (the only call the recorder cannot see).
func normalizePrefix(bound []s2.CellID, minL, maxL, mod int) s2.CellUnion {
	cu := s2.CellUnion(append([]s2.CellID{}, bound...))
	adjust := func(level int) int {
		if mod > 1 && level > minL {
			level -= (level - minL) % mod
		}
		return level
	}
	if maxL < 30 || mod > 1 {
		for i, ci := range cu {
			level := ci.Level()
			nl := adjust(mini(level, maxL))
			if nl != level {
				cu[i] = ci.Parent(nl)
			}
		}
	}
	cu.Normalize()
	if minL > 0 || mod > 1 {
		cu.Denormalize(minL, mod)
	}
	return cu
}

// branchTaken: does normalizeCovering, arrived at the prepared covering cu with these options, take
// its "very large covering" branch (rc.Covering(&covering) with the coverer's own options)?
func branchTaken(cu s2.CellUnion, rc s2.RegionCoverer) bool {
	excess := len(cu) - rc.MaxCells
	if excess <= 0 || rc.IsCanonical(cu) {
		return false
	}
	return excess*len(cu) > 10000
}

func fallbackTaken(bound []s2.CellID, rc s2.RegionCoverer) bool {
	minL, maxL, mod := clamp(rc)
	return branchTaken(normalizePrefix(bound, minL, maxL, mod), rc)
}

// tempOpts: the options of the temporary coverer of initialCandidates.
func tempOpts(rc s2.RegionCoverer) s2.RegionCoverer {
	_, maxL, _ := clamp(rc)
	return s2.RegionCoverer{MinLevel: 0, MaxLevel: maxL, LevelMod: 1, MaxCells: mini(4, rc.MaxCells)}
}

// fallbackTerm gives the model's nested coverer (cu_fallback) the one thing it cannot compute: the
// CellUnionBound (float geometry) of every cell union on which the "very large covering" branch
// re-runs the coverer.  The chain of nested runs is replayed with the public API: the branch covers
// cu with the same options; that run's initial candidates come from FastCovering with the
// temporary options on cu's CellUnionBound, which may take the branch again, and so on.
func fallbackTerm(c *vkit.Collector, bound []s2.CellID, rc s2.RegionCoverer, label string) string {
	entries := []string{}
	seen := map[string]bool{}
	chain := func(b []s2.CellID, o s2.RegionCoverer) {
		for depth := 0; depth < 60; depth++ {
			minL, maxL, mod := clamp(o)
			cu := normalizePrefix(b, minL, maxL, mod)
			if !branchTaken(cu, o) {
				return
			}
			k := idList(cu)
			if seen[k] {
				return
			}
			seen[k] = true
			cp := append(s2.CellUnion{}, cu...)
			cub := cp.CellUnionBound()
			entries = append(entries, vkit.Pair(k, idList(cub)))
			c.Class("large-covering-branch")
			if v, _ := c.Extra["max_branch_nesting"].(int); depth+1 > v {
				c.Extra["max_branch_nesting"] = depth + 1
			}
			b, o = cub, tempOpts(o)
		}
	}
	chain(bound, rc)
	chain(bound, tempOpts(rc))
	return vkit.App("cu_fallback", "fallback_depth", vkit.App("cubound_table", vkit.List(entries)))
}

// ---- configurations ----

func levelFor(size float64) int {
	if size <= 0 {
		return 30
	}
	return s2.MinWidthMetric.MaxLevel(size)
}

func configs(rng *vkit.Rng, tr *testRegion, n, budget int) []s2.RegionCoverer {
	base := levelFor(tr.size)
	hiMin := mini(30, base+3) // MinLevel above this makes the covering explode
	// FastCovering expands every cell of the CellUnionBound down to MinLevel: 4^(difference) cells each
	boundLevel := 30
	for _, id := range tr.r.CellUnionBound() {
		boundLevel = mini(boundLevel, id.Level())
	}
	hiMin = mini(hiMin, boundLevel+4)
	out := []s2.RegionCoverer{{MinLevel: 0, MaxLevel: 30, LevelMod: 1, MaxCells: 8}}
	cells := []int{0, 1, 3, 8, 100, 4, 2, 20, -1}
	if budget > 1 {
		cells = append(cells, 1000)
	}
	for len(out) < n {
		rc := s2.RegionCoverer{}
		rc.MaxCells = cells[rng.Intn(len(cells))]
		rc.LevelMod = 1 + rng.Intn(3)
		rc.MinLevel = rng.Intn(hiMin + 1)
		rc.MaxLevel = rc.MinLevel + rng.Intn(31-rc.MinLevel)
		if rng.Intn(2) == 0 {
			// MaxLevel close to the level of the region's own size, so that it binds
			// (mutations of the "level+levelMod > MaxLevel" tests are only visible then)
			rc.MaxLevel = mini(30, maxi(rc.MinLevel, base-1+rng.Intn(6)))
		}
		switch rng.Intn(10) {
		case 0: // MinLevel > MaxLevel
			// (every cell is first cut down to MaxLevel and then expanded to MinLevel: 4^(difference) cells each)
			rc.MaxLevel = maxi(0, rc.MinLevel-1-rng.Intn(3))
		case 1: // unclamped values
			rc.LevelMod = []int{0, -1, 4, 7}[rng.Intn(4)]
			rc.MaxLevel = []int{31, 40, 30}[rng.Intn(3)]
			rc.MinLevel = []int{-1, -5, 0}[rng.Intn(3)]
		case 2: // MaxLevel just above MinLevel, not a multiple of LevelMod
			rc.MaxLevel = mini(30, rc.MinLevel+rng.Intn(4))
		case 3:
			rc.MaxCells = []int{-3000, -5000, 50}[rng.Intn(3)]
		}
		if _, maxL, _ := clamp(rc); rc.MinLevel > mini(boundLevel, maxL)+4 {
			rc.MinLevel = mini(boundLevel, maxL) + 4
		}
		out = append(out, rc)
	}
	return out
}

// interiorOpts lowers MaxLevel so that an interior covering that finds few contained cells stays affordable.
func interiorOpts(rc s2.RegionCoverer, tr *testRegion) s2.RegionCoverer {
	base := levelFor(tr.size)
	lim := mini(30, base+4)
	if tr.zeroDim {
		lim = mini(30, base+2)
		if tr.size == 0 {
			lim = 30 // a point: one cell per level
		}
	}
	if rc.MaxLevel > lim {
		rc.MaxLevel = lim
	}
	if rc.MaxCells > 100 {
		rc.MaxCells = 100
	}
	return rc
}

// ---- the run ----

func runC05(c *vkit.Collector, rng *vkit.Rng, budget int) {
	corpus(c, rng)
	corpusRect(c, rng)
	regs := genRegions(c, rng, budget)
	nconf := 3 + mini(budget-1, 3)
	for ri, tr := range regs {
		c.Class("region:" + tr.kind)
		for ci, rc := range configs(rng, tr, nconf, budget) {
			label := fmt.Sprintf("%s #%d cfg{%d,%d,%d,%d}", tr.name, ri, rc.MinLevel, rc.MaxLevel, rc.LevelMod, rc.MaxCells)
			if os.Getenv("C05_TRACE") != "" {
				fmt.Fprintln(os.Stderr, label)
			}
			observe(c, rng, tr, rc, label, ci < 3)
		}
		predicateSafety(c, rng, tr, 24*mini(budget, 4))
	}
	latticeFamily(c, rng, budget)
	grazeFamily(c, rng, budget)
	longEdgeFamily(c, rng, budget)
	bigCapFamily(c, rng, budget)
	containFamily(c, rng, budget)
	synthetic(c, rng, budget)
	// heavy cases: 8 shards evaluate in parallel; deal the cases out by decreasing size so that the shards are balanced
	const shards = 8
	sort.SliceStable(c.Cases, func(i, j int) bool { return len(c.Cases[i].Term) > len(c.Cases[j].Term) })
	per := (len(c.Cases) + shards - 1) / shards
	dealt := make([]vkit.Case, 0, len(c.Cases))
	for k := 0; k < shards; k++ {
		for j := k; j < len(c.Cases); j += shards {
			dealt = append(dealt, c.Cases[j])
		}
	}
	c.Cases = dealt
	c.ShardSize = maxi(8, per)
}

// corpus: committed regression inputs, run first on every run.
func corpus(c *vkit.Collector, rng *vkit.Rng) {
	// FIXED FINDING (81ed250) FastCovering(default-coverer-fallback).levels: MinLevel 10, LevelMod 3, MaxCells -2600
	// used to return one level-15 cell ((15-10) mod 3 != 0); must pass now
	ctr := s2.PointFromCoords(0.325766071553077463107684, 0.298457980512092713176742, -0.897106069811991924112249)
	tr := capRegion(rng, ctr, "corpus-1", float64(s1.ChordAngleFromAngle(s1.Angle(6.960887510911511e-06))))
	observe(c, rng, tr, s2.RegionCoverer{MinLevel: 10, MaxLevel: 24, LevelMod: 3, MaxCells: -2600}, "corpus-1 "+tr.name, true)
}

// corpusRect: FIXED FINDING (38de577): Rect.IntersectsCell skipped every boundary test for a cell edge that
// runs westward (longitude span built with IntervalFromEndpoints).  This rectangle enters face 0 only across
// the top edge of the face; the witness (43.77 deg, 0) is in both.  Must pass under the generic kinds.
func corpusRect(c *vkit.Collector, rng *vkit.Rng) {
	tr := rectRegion(rng, 0.7426021925473859, 1.0553981633974483, -0.7696902001294993, 0.7696902001294993, "corpus-2")
	w := s2.PointFromCoords(0.7220744105045508, 0, 0.6918153985670638)
	covered := 0
	grazeCheck(c, rng, tr, s2.CellFromCellID(s2.CellIDFromFace(0)), w, &covered, "corpus-2")
	observe(c, rng, tr, s2.RegionCoverer{MinLevel: 0, MaxLevel: 3, LevelMod: 1, MaxCells: 2}, "corpus-2 "+tr.name, true)
}

func cfgJSON(rc s2.RegionCoverer) map[string]int {
	return map[string]int{"MinLevel": rc.MinLevel, "MaxLevel": rc.MaxLevel, "LevelMod": rc.LevelMod, "MaxCells": rc.MaxCells}
}

func idsJSON(ids []s2.CellID) []string {
	out := []string{}
	for _, id := range ids {
		out = append(out, fmt.Sprintf("%d", uint64(id)))
	}
	return out
}

func observe(c *vkit.Collector, rng *vkit.Rng, tr *testRegion, rc s2.RegionCoverer, label string, points bool) {
	minL, maxL, mod := clamp(rc)
	rep := func(extra map[string]interface{}) interface{} {
		m := map[string]interface{}{"region": tr.replay, "options": cfgJSON(rc)}
		for k, v := range extra {
			m[k] = v
		}
		return m
	}
	// exterior
	w := newRecorder(tr.r, nil)
	cov := rc.Covering(w)
	cu := rc.CellUnion(w)
	fast := rc.FastCovering(w)
	bound := w.CellUnionBound()
	c.Eval(label, len(cov) > 0)
	c.Sample(map[string]interface{}{"region": tr.name, "options": cfgJSON(rc), "covering_cells": len(cov), "queried_cells": len(w.I)})
	if v, _ := c.Extra["max_table"].(int); len(w.I) > v {
		c.Extra["max_table"] = len(w.I)
		c.Extra["max_table_case"] = label
	}
	if w.nondet {
		c.Violate("Region.nondeterministic", "a region predicate gave two answers for one cell", rep(nil))
	}
	fb := fallbackTerm(c, bound, rc, label)
	ti, tc := tableTerm(w.I, false), tableTerm(w.C, false)
	o := optsTerm(rc)
	c.Check("Covering+CellUnion+FastCovering "+label,
		"(let ti := "+ti+" in let tc := "+tc+" in let b := "+idList(bound)+" in let fb := "+fb+" in let o := "+o+" in "+
			vkit.App("olist_eqb", "(Covering ti tc b fb o)", idList(cov))+" && "+
			vkit.App("olist_eqb", "(CellUnion ti tc b fb o)", idList(cu))+" && "+
			vkit.App("olist_eqb", "(FastCovering b fb o)", idList(fast))+")")
	// interior
	irc := interiorOpts(rc, tr)
	iminL, imaxL, imod := clamp(irc)
	wi := newRecorder(tr.r, nil)
	icov := irc.InteriorCovering(wi)
	icu := irc.InteriorCellUnion(wi)
	c.Eval("interior "+label, len(icov) > 0)
	c.Check("InteriorCovering+InteriorCellUnion "+label,
		"(let ti := "+tableTerm(wi.I, false)+" in let tc := "+tableTerm(wi.C, false)+" in let b := "+idList(bound)+" in let fb := "+
			fallbackTerm(c, bound, irc, "interior "+label)+" in let o := "+optsTerm(irc)+" in "+
			vkit.App("olist_eqb", "(InteriorCovering ti tc b fb o)", idList(icov))+" && "+
			vkit.App("olist_eqb", "(InteriorCellUnion ti tc b fb o)", idList(icu))+")")

	// [S] level limits
	checkLevels(c, "Covering", cov, minL, maxL, mod, rep)
	if fallbackTaken(bound, rc) {
		// fixed finding (81ed250): that branch used to cover with NewRegionCoverer() defaults; the kind is kept
		c.Class("fast:large-covering-branch")
		checkLevels(c, "FastCovering(default-coverer-fallback)", fast, minL, maxL, mod, rep)
	} else {
		checkLevels(c, "FastCovering", fast, minL, maxL, mod, rep)
	}
	checkLevels(c, "InteriorCovering", icov, iminL, imaxL, imod, rep)
	for _, id := range cu {
		if !id.IsValid() || id.Level() > maxi(maxL, minL) {
			c.Violate("CellUnion.levels", "CellUnion returned a cell above MaxLevel", rep(map[string]interface{}{"cell": fmt.Sprint(uint64(id))}))
		}
	}
	// [S] coverage
	if points {
		pts, exact := tr.members(rng, 70)
		for _, p := range pts {
			for _, cv := range []struct {
				name string
				ids  []s2.CellID
			}{{"Covering", cov}, {"CellUnion", cu}, {"FastCovering", fast}} {
				if !covers(cv.ids, p, exact) {
					c.Violate(cv.name+".misses-point", cv.name+" does not contain a point of the region ("+tr.kind+")",
						rep(map[string]interface{}{"point": []float64{p.X, p.Y, p.Z}, "result": idsJSON(cv.ids)}))
				}
			}
		}
		c.Extra["member_points"] = addInt(c.Extra["member_points"], len(pts))
	}
	// [S] interior coverings are contained
	for _, list := range [][]s2.CellID{icov, icu} {
		for _, id := range list {
			if bad, p := cellNotInside(rng, tr, id); bad {
				c.Violate("InteriorCovering.not-contained", "a cell of an interior covering has a point outside the region ("+tr.kind+")",
					rep(map[string]interface{}{"cell": fmt.Sprint(uint64(id)), "point": []float64{p.X, p.Y, p.Z}}))
			}
		}
	}
}

func addInt(x interface{}, n int) int {
	if v, ok := x.(int); ok {
		return v + n
	}
	return n
}

func checkLevels(c *vkit.Collector, what string, ids []s2.CellID, minL, maxL, mod int, rep func(map[string]interface{}) interface{}) {
	hi := maxi(maxL, minL) // MinLevel takes priority when MinLevel > MaxLevel
	for _, id := range ids {
		bad := ""
		switch {
		case !id.IsValid():
			bad = "invalid cell id"
		case id.Level() < minL:
			bad = "level below MinLevel"
		case id.Level() > hi:
			bad = "level above MaxLevel"
		case (id.Level()-minL)%mod != 0:
			bad = "level violates LevelMod"
		}
		if bad != "" {
			c.Violate(what+".levels", what+": "+bad, rep(map[string]interface{}{"cell": fmt.Sprint(uint64(id)), "level": id.Level()}))
			return
		}
	}
}

// covers: is p (or, for inexact members, a point within one leaf cell of p) inside some cell of ids?
// The test is on leaf ids: p lies in the closed leaf cell CellIDFromPoint(p); a covering of p
// contains that leaf or, if p is on a leaf boundary or known only up to rounding, an adjacent leaf.
func covers(ids []s2.CellID, p s2.Point, exact bool) bool {
	leaf := s2.CellFromPoint(p).ID()
	in := func(x s2.CellID) bool {
		for _, id := range ids {
			if id.RangeMin() <= x && x <= id.RangeMax() {
				return true
			}
		}
		return false
	}
	if in(leaf) {
		return true
	}
	for _, nb := range leaf.AllNeighbors(30) {
		if in(nb) {
			return true
		}
	}
	return false
}

// cellNotInside looks for a point strictly inside the cell that is certainly outside the region.
func cellNotInside(rng *vkit.Rng, tr *testRegion, id s2.CellID) (bool, s2.Point) {
	if tr.idUnion != nil {
		// id-range oracle: every leaf of id must be in some cell of the union (unions here are normalized,
		// so a cell inside the union is inside one of its cells or is assembled from descendants)
		return !leafRangeInside(tr.idUnion, id), s2.CellFromCellID(id).Center()
	}
	if tr.zeroDim {
		return true, s2.CellFromCellID(id).Center() // a polyline or a point contains no cell
	}
	if tr.or == nil {
		return false, s2.Point{}
	}
	cell := s2.CellFromCellID(id)
	for k := 0; k < 13; k++ {
		p := cellInnerPoint(rng, cell, k)
		if tr.or.strictOut(p) {
			return true, p
		}
	}
	return false, s2.Point{}
}

// leafRangeInside: is [RangeMin(id), RangeMax(id)] covered by the leaf ranges of ids? (brute force, sorted sweep)
func leafRangeInside(ids []s2.CellID, id s2.CellID) bool {
	type iv struct{ lo, hi uint64 }
	ivs := []iv{}
	for _, x := range ids {
		ivs = append(ivs, iv{uint64(x.RangeMin()), uint64(x.RangeMax())})
	}
	sort.Slice(ivs, func(i, j int) bool { return ivs[i].lo < ivs[j].lo })
	need := uint64(id.RangeMin())
	end := uint64(id.RangeMax())
	for _, v := range ivs {
		if v.lo > need {
			break
		}
		if v.hi >= need {
			if v.hi >= end {
				return true
			}
			need = v.hi + 2 // leaf ids are odd: the next leaf after hi is hi+2
		}
	}
	return false
}

func leafRangeMeets(ids []s2.CellID, id s2.CellID) bool {
	for _, x := range ids {
		if x.RangeMin() <= id.RangeMax() && id.RangeMin() <= x.RangeMax() {
			return true
		}
	}
	return false
}

// predicateSafety attacks the second sentence of the property (and H-CLIP / H-CAPARITH / H-LATBOUND /
// H-JORDAN as used by the region predicates): cells of every size around boundary points.
func predicateSafety(c *vkit.Collector, rng *vkit.Rng, tr *testRegion, n int) {
	pts := tr.boundary(rng, n)
	mem, exact := tr.members(rng, n/2)
	for k, p := range append(pts, mem...) {
		isMember := k >= len(pts)
		leaf := s2.CellFromPoint(p).ID()
		lo := maxi(0, levelFor(tr.size)-2)
		level := lo + rng.Intn(31-lo)
		if rng.Intn(3) == 0 {
			level = rng.Intn(31)
		}
		cands := []s2.CellID{leaf.Parent(level)}
		if level > 0 && !isMember {
			cands = append(cands, leaf.Parent(level).AllNeighbors(level)...)
		}
		anyMeets := false
		for _, id := range cands {
			cell := s2.CellFromCellID(id)
			ic, cc := tr.r.IntersectsCell(cell), tr.r.ContainsCell(cell)
			c.Eval(fmt.Sprintf("pred %s %d", tr.name, uint64(id)), ic && !cc)
			if ic {
				anyMeets = true
			}
			rep := map[string]interface{}{"region": tr.replay, "cell": fmt.Sprint(uint64(id)), "IntersectsCell": ic, "ContainsCell": cc}
			if cc && !ic {
				c.Violate("Region.contains-but-not-intersects:"+tr.kind, "ContainsCell true while IntersectsCell false", rep)
			}
			if tr.idUnion != nil {
				if cc && !leafRangeInside(tr.idUnion, id) {
					c.Violate("ContainsCell.unsafe:"+tr.kind, "ContainsCell true but a leaf of the cell is outside the union", rep)
				}
				if !ic && leafRangeMeets(tr.idUnion, id) {
					c.Violate("IntersectsCell.unsafe:"+tr.kind, "IntersectsCell false but the cell shares a leaf with the union", rep)
				}
				continue
			}
			if tr.zeroDim && cc {
				c.Violate("ContainsCell.unsafe:"+tr.kind, "ContainsCell true for a region without interior", rep)
			}
			if tr.or == nil {
				continue
			}
			for j := 0; j < 13; j++ {
				q := cellInnerPoint(rng, cell, j)
				rep["point"] = []float64{q.X, q.Y, q.Z}
				if cc && tr.or.strictOut(q) {
					c.Violate("ContainsCell.unsafe:"+tr.kind, "ContainsCell true but a point strictly inside the cell is outside the region", rep)
					break
				}
				if !ic && tr.or.strictIn(q) {
					c.Violate("IntersectsCell.unsafe:"+tr.kind, "IntersectsCell false but a point strictly inside the cell is in the region", rep)
					break
				}
			}
		}
		// a cell around a region point (exactly, or within rounding: then one of the neighbours) must intersect
		if isMember || tr.zeroDim {
			ok := anyMeets
			if !ok && !(isMember && exact) {
				for _, id := range leaf.Parent(level).AllNeighbors(level) {
					if tr.r.IntersectsCell(s2.CellFromCellID(id)) {
						ok = true
					}
				}
			}
			if !ok {
				c.Violate("IntersectsCell.unsafe:"+tr.kind, "no cell around a point of the region reports an intersection",
					map[string]interface{}{"region": tr.replay, "point": []float64{p.X, p.Y, p.Z}, "level": level})
			}
		}
	}
}

// ---- region list ----

func genRegions(c *vkit.Collector, rng *vkit.Rng, budget int) []*testRegion {
	regs := []*testRegion{}
	rep := mini(budget, 6)
	// caps 1e-7 .. pi, plus empty / full / point caps
	radii := []float64{1e-7, 3e-6, 1e-4, 2e-3, 0.03, 0.4, 1.3, math.Pi / 2, 2.5, math.Pi}
	for k := 0; k < rep; k++ {
		for _, a := range radii {
			ctr, cn := pickCentre(rng)
			a2 := a * (1 + 0.3*rng.Float())
			if a == math.Pi || a == math.Pi/2 {
				a2 = a
			}
			regs = append(regs, capRegion(rng, ctr, cn, float64(s1.ChordAngleFromAngle(s1.Angle(a2)))))
		}
	}
	ctr, cn := pickCentre(rng)
	regs = append(regs, capRegion(rng, ctr, cn, -1), capRegion(rng, ctr, cn, 4), capRegion(rng, ctr, cn, 0))
	// rectangles
	for k := 0; k < rep; k++ {
		w := []float64{1e-6, 1e-3, 0.05, 0.7}[rng.Intn(4)]
		la := rng.Range(-1.3, 1.3)
		regs = append(regs,
			rectRegion(rng, la, math.Min(math.Pi/2, la+w*rng.Float()), math.Pi-w*rng.Float(), -math.Pi+w*rng.Float(), "antimeridian"),
			rectRegion(rng, math.Pi/2-w, math.Pi/2, -math.Pi, math.Pi, "north-cap"),
			rectRegion(rng, -math.Pi/2, -math.Pi/2+w*rng.Float(), rng.Range(-3, 0), rng.Range(0, 3), "south-pole-wedge"),
			rectRegion(rng, -w*rng.Float(), w*rng.Float(), math.Pi/4-w*rng.Float(), math.Pi/4+w*rng.Float(), "face-edge"),
			rectRegion(rng, rng.Range(-1.5, 0), rng.Range(0, 1.5), rng.Range(-3.1, 0), rng.Range(0, 3.1), "large"),
		)
	}
	regs = append(regs, rectRegion(rng, -math.Pi/2, math.Pi/2, -math.Pi, math.Pi, "full"),
		rectRegion(rng, 0.3, 0.3, 1, 1, "point"), rectRegion(rng, 0.2, 0.2, -1, 2, "parallel-segment"), rectRegion(rng, -0.4, 0.9, 2, 2, "meridian-segment"),
		rectRegion(rng, 1, 0, -math.Pi, math.Pi, "empty"))
	// cells and cell unions
	for k := 0; k < 3*rep; k++ {
		p, _ := pickCentre(rng)
		lv := []int{0, 1, 2, 5, 10, 17, 29, 30}[rng.Intn(8)]
		id := s2.CellFromPoint(p).ID().Parent(lv)
		regs = append(regs, cellUnionRegion(fmt.Sprintf("cell(L%d)", lv), "cell", []s2.CellID{id}, s2.CellFromCellID(id)))
	}
	for k := 0; k < 3*rep; k++ {
		p, _ := pickCentre(rng)
		n := 1 + rng.Intn(12)
		lv := rng.Intn(25)
		ids := []s2.CellID{}
		base := s2.CellFromPoint(p).ID().Parent(lv)
		for i := 0; i < n; i++ {
			x := base
			switch rng.Intn(3) {
			case 0:
				nb := base.AllNeighbors(lv)
				x = nb[rng.Intn(len(nb))]
			case 1:
				x = s2.CellFromPoint(randPoint(rng)).ID().Parent(lv + rng.Intn(3))
			}
			for d := rng.Intn(4); d > 0 && x.Level() < 30; d-- {
				x = x.Children()[rng.Intn(4)]
			}
			ids = append(ids, x)
		}
		cu := s2.CellUnion(ids)
		cu.Normalize()
		cp := append(s2.CellUnion{}, cu...)
		regs = append(regs, cellUnionRegion(fmt.Sprintf("cellunion(n=%d,L%d)", len(cu), lv), "cellunion", cu, &cp))
	}
	// loops, polygons with holes, polylines, points
	for k := 0; k < 2*rep; k++ {
		for j, rad := range []float64{1e-6, 1e-3, 0.1, 0.9} {
			ctr, cn := pickCentre(rng)
			r := rad * (1 + rng.Float())
			switch (j + k) % 4 { // every kind at two sizes per round
			case 0:
				regs = append(regs, loopRegion(rng, ctr, cn, r, 3+rng.Intn(9), 1))
			case 1:
				regs = append(regs, loopRegion(rng, ctr, cn, r, 2*(3+rng.Intn(6)), 0.3+0.5*rng.Float()))
			case 2:
				regs = append(regs, polygonWithHole(rng, ctr, cn, r, 4+rng.Intn(8), 0.2+0.6*rng.Float(), 3+rng.Intn(6)))
			default:
				regs = append(regs, polylineRegion(rng, ctr, cn, r, 2+rng.Intn(6)))
			}
		}
		p, pn := pickCentre(rng)
		regs = append(regs, pointRegion(p, pn))
	}
	regs = append(regs, &testRegion{name: "full-loop", kind: "loop-full", r: s2.FullLoop(), size: math.Pi,
		or:      &oracle{strictIn: func(s2.Point) bool { return true }, strictOut: func(s2.Point) bool { return false }},
		members: func(rng *vkit.Rng, n int) ([]s2.Point, bool) { return []s2.Point{randPoint(rng), randPoint(rng)}, true },
		boundary: func(rng *vkit.Rng, n int) []s2.Point { return []s2.Point{randPoint(rng)} }, replay: "FullLoop"},
		&testRegion{name: "empty-loop", kind: "loop-empty", r: s2.EmptyLoop(), size: 0.1,
			or:      &oracle{strictIn: func(s2.Point) bool { return false }, strictOut: func(s2.Point) bool { return true }},
			members: func(rng *vkit.Rng, n int) ([]s2.Point, bool) { return nil, true },
			boundary: func(rng *vkit.Rng, n int) []s2.Point { return []s2.Point{randPoint(rng)} }, replay: "EmptyLoop"})
	return regs
}
