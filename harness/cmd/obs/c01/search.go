package main

// [S] the property evaluated on the implementation against the reference model of ref.go.

import (
	"fmt"
	"math"
	"math/big"
	"sort"

	"github.com/golang/geo/s2"
	"verifharness/internal/vkit"
)

func hx(id s2.CellID) string { return fmt.Sprintf("%016x", uint64(id)) }

// searchID: level/face/pos/range/parent/children of one valid id against the leaf-interval model.
func (g *gen) searchID(id s2.CellID) {
	c := g.c
	r, _ := refDecode(uint64(id))
	rep := map[string]interface{}{"id": hx(id)}
	if !id.IsValid() {
		c.Violate("ID.IsValid", "a well-formed id is reported invalid", rep)
		return
	}
	if id.Level() != r.l || id.Face() != r.f || id.IsLeaf() != (r.l == 30) {
		c.Violate("ID.LevelFace", "Level/Face/IsLeaf disagree with the bit layout", rep)
	}
	lo, hi := r.leafRange()
	if uint64(id.RangeMin()) != lo || uint64(id.RangeMax()) != hi {
		c.Violate("ID.Range", "RangeMin/RangeMax are not the first/last leaf of the cell", rep)
	}
	if s2.CellIDFromFacePosLevel(id.Face(), id.Pos(), id.Level()) != id {
		c.Violate("ID.FacePosLevel", "CellIDFromFacePosLevel(Face, Pos, Level) is not the identity", rep)
	}
	// a position anywhere inside the cell's range must give the same cell
	if s2.CellIDFromFacePosLevel(id.Face(), id.RangeMin().Pos(), id.Level()) != id || s2.CellIDFromFacePosLevel(id.Face(), id.RangeMax().Pos(), id.Level()) != id {
		c.Violate("ID.FacePosLevel", "CellIDFromFacePosLevel of a position inside the cell is not the cell", rep)
	}
	for l := 0; l <= r.l; l++ {
		p := id.Parent(l)
		if uint64(p) != r.parent(l).id() {
			c.Violate("ID.Parent", fmt.Sprintf("Parent(%d) is not the level-%d ancestor", l, l), rep)
		}
		if !p.Contains(id) || !p.Intersects(id) || !id.Intersects(p) || (l < r.l && id.Contains(p)) {
			c.Violate("ID.ParentContains", "ancestor does not contain / intersect the cell", rep)
		}
		if l >= 1 && id.ChildPosition(l) != int(r.k>>uint(2*(r.l-l)))&3 {
			c.Violate("ID.ChildPosition", "ChildPosition disagrees with the position digits", rep)
		}
	}
	if r.l > 0 && s2.VerifC01ImmediateParent(id) != id.Parent(r.l-1) {
		c.Violate("ID.immediateParent", "immediateParent differs from Parent(level-1)", rep)
	}
	if r.l < 30 {
		ch := id.Children()
		prevMax := uint64(id.RangeMin()) - 2
		for q := 0; q < 4; q++ {
			if uint64(ch[q]) != r.child(q).id() || !ch[q].IsValid() || ch[q].Level() != r.l+1 || ch[q].Parent(r.l) != id {
				c.Violate("ID.Children", fmt.Sprintf("child %d is not the q-th quarter of the cell", q), rep)
			}
			if uint64(ch[q].RangeMin()) != prevMax+2 {
				c.Violate("ID.ChildrenPartition", "children ranges do not tile the parent's range in order", rep)
			}
			prevMax = uint64(ch[q].RangeMax())
		}
		if prevMax != uint64(id.RangeMax()) {
			c.Violate("ID.ChildrenPartition", "last child does not end at the parent's RangeMax", rep)
		}
		if id.ChildBegin() != ch[0] || id.ChildEnd() != ch[3].Next() || ch[0].Next() != ch[1] || ch[2].Prev() != ch[1] {
			c.Violate("ID.ChildIteration", "ChildBegin/Next/ChildEnd do not enumerate the children", rep)
		}
		// descendants at a deeper level: Begin, End, count by stepping (small spans only)
		dl := r.l + 1 + g.rng.Intn(3)
		if dl <= 30 {
			n := 0
			want := r.k << uint(2*(dl-r.l))
			okAll := true
			for x := id.ChildBeginAtLevel(dl); x != id.ChildEndAtLevel(dl) && n <= 64; x = x.Next() {
				if uint64(x) != (refCell{r.f, dl, want + uint64(n)}).id() {
					okAll = false
				}
				n++
			}
			if !okAll || n != 1<<uint(2*(dl-r.l)) {
				c.Violate("ID.ChildIterationAtLevel", "ChildBeginAtLevel..ChildEndAtLevel by Next does not enumerate the descendants in order", rep)
			}
		}
	}
	// (face, i, j, orientation) against the recursive curve
	f, i, j, o := s2.VerifC01FaceIJOrientation(id)
	ri, rj, ro := r.ij()
	sh := uint(30 - r.l)
	if f != r.f || int64(i)>>sh != ri || int64(j)>>sh != rj || o != ro {
		c.Violate("ID.FaceIJ", "faceIJOrientation disagrees with the recursive Hilbert curve", rep)
	}
	if s2.VerifC01CellIDFromFaceIJ(f, i, j).Parent(r.l) != id {
		c.Violate("ID.FaceIJRoundTrip", "cellIDFromFaceIJ(faceIJOrientation(c)).Parent(level) != c", rep)
	}
	// centre in (si,ti): exactly the centre of the reference square
	_, si, ti := s2.VerifC01CenterFaceSiTi(id)
	slo, shi, tlo, thi := r.square()
	if int64(si)*2 != slo+shi || int64(ti)*2 != tlo+thi {
		c.Violate("ID.Center", "centerFaceSiTi is not the centre of the cell", rep)
	}
	// token / string
	if s2.CellIDFromToken(id.ToToken()) != id || s2.CellIDFromString(id.String()) != id {
		c.Violate("ID.TextRoundTrip", "token or string form does not round-trip", rep)
	}
	if id.String() != refString(r) {
		c.Violate("ID.String", "String() is not face/child-positions", rep)
	}
}

func refString(r refCell) string {
	b := []byte{byte('0' + r.f), '/'}
	for lv := 1; lv <= r.l; lv++ {
		b = append(b, byte('0'+(r.k>>uint(2*(r.l-lv)))&3))
	}
	return string(b)
}

func (g *gen) searchPair(a, b s2.CellID) {
	ra, oka := refDecode(uint64(a))
	rb, okb := refDecode(uint64(b))
	if !oka || !okb {
		return
	}
	rep := map[string]interface{}{"a": hx(a), "b": hx(b)}
	if a.Contains(b) != ra.contains(rb) {
		g.c.Violate("Pair.Contains", "Contains disagrees with the ancestor relation", rep)
	}
	if a.Intersects(b) != (ra.contains(rb) || rb.contains(ra)) {
		g.c.Violate("Pair.Intersects", "Intersects is not 'one contains the other'", rep)
	}
	l, ok := a.CommonAncestorLevel(b)
	wantOK := ra.f == rb.f
	wantL := 0
	if wantOK {
		m := ra.l
		if rb.l < m {
			m = rb.l
		}
		for wantL = m; wantL > 0 && ra.parent(wantL) != rb.parent(wantL); wantL-- {
		}
	}
	if ok != wantOK || (ok && l != wantL) {
		g.c.Violate("Pair.CommonAncestorLevel", "CommonAncestorLevel is not the deepest common ancestor", rep)
	}
}

// searchAdvance: AdvanceWrap(n) is n steps on the cycle of 6*4^l cells; Advance clamps to [Begin, End].
func (g *gen) searchAdvance(a s2.CellID, steps int64) {
	r, ok := refDecode(uint64(a))
	if !ok {
		return
	}
	rep := map[string]interface{}{"id": hx(a), "steps": steps}
	per := new(big.Int).Lsh(big.NewInt(6), uint(2*r.l))
	idx := new(big.Int).Add(new(big.Int).Lsh(big.NewInt(int64(r.f)), uint(2*r.l)), new(big.Int).SetUint64(r.k))
	if s2.VerifC01DistanceFromBegin(a) != idx.Int64() {
		g.c.Violate("Advance.distanceFromBegin", "distanceFromBegin is not the index of the cell at its level", rep)
	}
	t := new(big.Int).Add(idx, big.NewInt(steps))
	w := new(big.Int).Mod(t, per) // Euclidean: in [0, per)
	fw := int(new(big.Int).Rsh(w, uint(2*r.l)).Int64())
	kw := new(big.Int).And(w, new(big.Int).Sub(new(big.Int).Lsh(big.NewInt(1), uint(2*r.l)), big.NewInt(1))).Uint64()
	if got := a.AdvanceWrap(steps); uint64(got) != (refCell{fw, r.l, kw}).id() {
		g.c.Violate("Advance.AdvanceWrap", "AdvanceWrap(n) is not n steps around the level's cycle", rep)
	}
	// Advance: clamp the target index to [0, per]; index == per is End (first id past face 5)
	if t.Sign() < 0 {
		t.SetInt64(0)
	}
	if t.Cmp(per) > 0 {
		t.Set(per)
	}
	var want uint64
	if t.Cmp(per) == 0 {
		want = uint64(6)<<61 + uint64(1)<<uint(2*(30-r.l))
	} else {
		fa := int(new(big.Int).Rsh(t, uint(2*r.l)).Int64())
		ka := new(big.Int).And(t, new(big.Int).Sub(new(big.Int).Lsh(big.NewInt(1), uint(2*r.l)), big.NewInt(1))).Uint64()
		want = (refCell{fa, r.l, ka}).id()
	}
	if got := a.Advance(steps); uint64(got) != want {
		g.c.Violate("Advance.Advance", "Advance(n) is not n steps clamped to [Begin, End]", rep)
	}
	if steps == 1 && a.NextWrap() != a.AdvanceWrap(1) || steps == -1 && a.PrevWrap() != a.AdvanceWrap(-1) {
		g.c.Violate("Advance.NextWrap", "NextWrap/PrevWrap differ from AdvanceWrap(+-1)", rep)
	}
}

func (g *gen) searchFromIJ(f, i, j int, id s2.CellID) {
	want := refFromIJ(f, 30, int64(i), int64(j)).id()
	rep := map[string]interface{}{"f": f, "i": i, "j": j}
	if uint64(id) != want {
		g.c.Violate("IJ.cellIDFromFaceIJ", "cellIDFromFaceIJ is not the leaf of the recursive Hilbert curve at (i,j)", rep)
	}
	ff, ii, jj, _ := s2.VerifC01FaceIJOrientation(id)
	if ff != f || ii != i || jj != j {
		g.c.Violate("IJ.RoundTrip", "faceIJOrientation(cellIDFromFaceIJ(f,i,j)) != (f,i,j)", rep)
	}
}

// searchWrap: (i,j) one step outside the face (after the clamp) must land on the leaf that is
// adjacent across that side in the cube model (H-WRAP attacked directly).
func (g *gen) searchWrap(f, i, j int) {
	M := 1 << 30
	cl := func(x int) int {
		if x < -1 {
			return -1
		}
		if x > M {
			return M
		}
		return x
	}
	ci, cj := cl(i), cl(j)
	got := s2.VerifC01CellIDFromFaceIJWrap(f, i, j)
	rep := map[string]interface{}{"f": f, "i": i, "j": j, "got": hx(got)}
	inI, inJ := ci >= 0 && ci < M, cj >= 0 && cj < M
	switch {
	case inI && inJ:
		if uint64(got) != refFromIJ(f, 30, int64(ci), int64(cj)).id() {
			g.c.Violate("Wrap.Inside", "cellIDFromFaceIJWrap inside the face differs from cellIDFromFaceIJ", rep)
		}
	case inI != inJ:
		// the leaf inside the face next to the side, and the side's two end points
		ni, nj := ci, cj
		if ni < 0 {
			ni = 0
		}
		if ni >= M {
			ni = M - 1
		}
		if nj < 0 {
			nj = 0
		}
		if nj >= M {
			nj = M - 1
		}
		inside := refFromIJ(f, 30, int64(ni), int64(nj))
		k := 0 // which edge of `inside` is on the face side: 0 down,1 right,2 up,3 left
		switch {
		case cj < 0:
			k = 0
		case ci >= M:
			k = 1
		case cj >= M:
			k = 2
		default:
			k = 3
		}
		want, ok := refEdgeNeighbor(inside, k)
		if !ok || uint64(got) != want {
			g.c.Violate("Wrap.Side", "cellIDFromFaceIJWrap just outside a face side is not the leaf adjacent across that side", rep)
		}
	default:
		// beyond a cube corner: any valid leaf touching that corner is acceptable
		r, ok := refDecode(uint64(got))
		var si, ti int64
		if ci >= M {
			si = 2 * int64(M)
		}
		if cj >= M {
			ti = 2 * int64(M)
		}
		if !ok || r.l != 30 || !r.closedContains(cubePoint(f, si, ti)) {
			g.c.Violate("Wrap.Corner", "cellIDFromFaceIJWrap beyond a cube corner is not a leaf at that corner", rep)
		}
	}
}

// exact value of stToUV at the grid coordinate i/2^30 (a rational): the quadratic transform
func exactGridUV(i int64) *big.Rat {
	s := big.NewRat(i, 1<<30)
	one, third, four := big.NewRat(1, 1), big.NewRat(1, 3), big.NewRat(4, 1)
	r := new(big.Rat)
	if s.Cmp(big.NewRat(1, 2)) >= 0 {
		r.Mul(s, s).Mul(r, four).Sub(r, one).Mul(r, third)
	} else {
		t := new(big.Rat).Sub(one, s)
		r.Mul(t, t).Mul(r, four).Sub(one, r).Mul(r, third)
	}
	return r
}

// searchUV attacks the numeric hypotheses of c01_leaf_contains_point_under_H on u in [-1,1]:
//   H-UVROUNDTRIP  |stToUV(uvToST(u)) - u| <= 4.5 * 2^-52
//   H-GRIDCELL     with s = uvToST(u), i = stToIJ(s): stToUV(i/2^30) <= stToUV(s) <= stToUV((i+1)/2^30)
// and their consequence as Cell.ContainsPoint tests it (margin 5 * 2^-52, float subtraction/addition),
// and, exactly, u within 6 * 2^-52 of the true uv-interval of the column.
func (g *gen) searchUV(u float64) {
	if !(u >= -1 && u <= 1) {
		return
	}
	s := s2.VerifC01UVToST(u)
	st := s2.VerifC01StToUV(s)
	i := s2.VerifC01StToIJ(s)
	lo, hi := s2.VerifC01StToUV(s2.VerifC01IJToSTMin(i)), s2.VerifC01StToUV(s2.VerifC01IJToSTMin(i+1))
	rep := map[string]interface{}{"u": u, "bits": fmt.Sprintf("%x", math.Float64bits(u)), "i": i}
	g.c.Eval("uv:"+fmt.Sprintf("%x", math.Float64bits(u)), true)
	ur := new(big.Rat).SetFloat64(u)
	d := new(big.Rat).Sub(new(big.Rat).SetFloat64(st), ur)
	if !(s >= 0 && s <= 1) || d.Abs(d).Cmp(new(big.Rat).SetFloat64(4.5*0x1p-52)) > 0 {
		g.c.Violate("Hyp.UVROUNDTRIP", "stToUV(uvToST(u)) differs from u by more than 4.5*2^-52 (or uvToST(u) outside [0,1])", rep)
	}
	if !(lo <= st && st <= hi && lo >= -1 && hi <= 1) {
		g.c.Violate("Hyp.GRIDCELL", "the uv-interval of column stToIJ(s) does not bracket stToUV(s)", rep)
	}
	// as Cell.ContainsPoint tests it (margin dblEpsilon): failures up to 4.5*2^-52 are the known
	// finding Cell.ContainsPoint.leafMargin, anything farther out is a different defect
	const margin = 0x1p-52
	if !(lo-margin <= u && u <= hi+margin) {
		if lo-4.5*margin <= u && u <= hi+4.5*margin {
			g.violate("Cell.ContainsPoint.leafMargin", "u is more than dblEpsilon (but at most 4.5*dblEpsilon) outside the uv-interval of its own leaf column", rep)
		} else {
			g.c.Violate("Hyp.UVROUNDTRIP.cell", "u is more than 4.5*2^-52 outside the float uv-interval of its own leaf column", rep)
		}
	}
	eps := new(big.Rat).SetFloat64(6 * 0x1p-52)
	if new(big.Rat).Add(ur, eps).Cmp(exactGridUV(int64(i))) < 0 || new(big.Rat).Sub(ur, eps).Cmp(exactGridUV(int64(i+1))) > 0 {
		g.c.Violate("Hyp.UVROUNDTRIP.exact", "u is more than 6*2^-52 outside the exact uv-interval of its own leaf column", rep)
	}
}

// searchPoint: the leaf is valid, is a leaf, its face is a face of maximal |coordinate|, and the
// exact (u,v) of p lies within 6*2^-52 of the exact uv-rectangle of the leaf and of every ancestor.
func (g *gen) searchPoint(pt s2.Point, leaf s2.CellID, f int) {
	x, y, z := pt.X, pt.Y, pt.Z
	rep := map[string]interface{}{"p": []float64{x, y, z}, "bits": fmt.Sprintf("%x/%x/%x", math.Float64bits(x), math.Float64bits(y), math.Float64bits(z)), "leaf": hx(leaf)}
	r, ok := refDecode(uint64(leaf))
	if !ok || r.l != 30 || !leaf.IsValid() || !leaf.IsLeaf() {
		g.c.Violate("Point.LeafValid", "cellIDFromPoint does not return a valid leaf", rep)
		return
	}
	if s2.CellFromPoint(pt).ID() != leaf {
		g.c.Violate("Point.LeafID", "CellFromPoint(p).ID() differs from cellIDFromPoint(p)", rep)
	}
	if !s2.CellFromPoint(pt).ContainsPoint(pt) {
		g.violate(containFailKind(pt, leaf, "Point.LeafContains"), "CellFromPoint(p).ContainsPoint(p) is false", rep)
	}
	co := [3]float64{x, y, z}
	ax := r.f % 3
	m := math.Max(math.Abs(x), math.Max(math.Abs(y), math.Abs(z)))
	if math.Abs(co[ax]) != m || (co[ax] < 0) != (r.f >= 3) {
		g.c.Violate("Point.Face", "the leaf's face is not a face of largest |coordinate| with the right sign", rep)
		return
	}
	// exact u, v on face r.f
	X, Y, Z := new(big.Rat).SetFloat64(x), new(big.Rat).SetFloat64(y), new(big.Rat).SetFloat64(z)
	neg := func(a *big.Rat) *big.Rat { return new(big.Rat).Neg(a) }
	var un, vn, w *big.Rat
	switch r.f {
	case 0:
		un, vn, w = Y, Z, X
	case 1:
		un, vn, w = neg(X), Z, Y
	case 2:
		un, vn, w = neg(X), neg(Y), Z
	case 3:
		un, vn, w = Z, Y, X
	case 4:
		un, vn, w = Z, neg(X), Y
	default:
		un, vn, w = neg(Y), neg(X), Z
	}
	U, V := new(big.Rat).Quo(un, w), new(big.Rat).Quo(vn, w)
	eps := new(big.Rat).SetFloat64(6 * 0x1p-52)
	for l := 30; l >= 0; l-- {
		a := r.parent(l)
		slo, shi, tlo, thi := a.square() // in 2^31 units; grid coordinate = s/2
		in := func(t *big.Rat, lo, hi int64) bool {
			return new(big.Rat).Add(t, eps).Cmp(exactGridUV(lo/2)) >= 0 && new(big.Rat).Sub(t, eps).Cmp(exactGridUV(hi/2)) <= 0
		}
		if !in(U, slo, shi) || !in(V, tlo, thi) {
			rep["level"] = l
			g.c.Violate("Point.ExactContains", "the exact (u,v) of p is more than 6*2^-52 outside the exact rectangle of an ancestor of its leaf", rep)
			break
		}
	}
}

// searchCurve: consecutive cells along the curve share an edge (whole levels 0..3, then
// structured windows at deep levels, including face changes and the wrap from face 5 to 0).
func (g *gen) searchCurve() {
	check := func(a s2.CellID) {
		b := a.NextWrap()
		ra, oka := refDecode(uint64(a))
		rb, okb := refDecode(uint64(b))
		g.c.Eval("curve:"+hx(a), true)
		if !oka || !okb || ra.l != rb.l || sharedCorners(ra, rb) != 2 {
			g.c.Violate("Curve.Continuity", "a cell and its successor along the curve do not share an edge", map[string]interface{}{"id": hx(a), "next": hx(b)})
		}
		if b.PrevWrap() != a {
			g.c.Violate("Curve.PrevNext", "PrevWrap(NextWrap(c)) != c", map[string]interface{}{"id": hx(a)})
		}
		// uses the implementation's own (i,j): squares of c and next are edge-adjacent on the same face
		fa, ia, ja, _ := s2.VerifC01FaceIJOrientation(a)
		fb, ib, jb, _ := s2.VerifC01FaceIJOrientation(b)
		if fa == fb {
			sh := uint(30 - ra.l)
			di, dj := (ia>>sh)-(ib>>sh), (ja>>sh)-(jb>>sh)
			if di*di+dj*dj != 1 {
				g.c.Violate("Curve.ContinuityIJ", "consecutive cells on one face are not one step apart in (i,j)", map[string]interface{}{"id": hx(a), "next": hx(b)})
			}
		}
	}
	maxL := 3
	if g.budget >= 8 {
		maxL = 6
	}
	for l := 0; l <= maxL; l++ {
		for f := 0; f < 6; f++ {
			for k := uint64(0); k < 1<<uint(2*l); k++ {
				check(mkID(f, l, k))
			}
		}
	}
	g.c.Class("curve:exhaustive-low-levels")
	for _, l := range []int{7, 12, 15, 16, 21, 29, 30} {
		n := uint64(1) << uint(2*l)
		for f := 0; f < 6; f++ {
			starts := []uint64{0, n - 3, n/2 - 2, n/4 - 2, 3*(n/4) - 2, g.rng.U64() & (n - 1), (0x5555555555555555 & (n - 1)) - 1, (0xAAAAAAAAAAAAAAAA & (n - 1)) - 1, (g.rng.U64() & (n - 1)) | 0xFF}
			for _, s := range starts {
				a := mkID(f, l, s%n)
				for q := 0; q < 4; q++ {
					check(a)
					a = a.NextWrap()
				}
			}
		}
		g.c.Class("curve:deep-windows")
	}
}

func sameSet(got []s2.CellID, want []uint64) bool {
	gs := make([]uint64, len(got))
	for i, x := range got {
		gs[i] = uint64(x)
	}
	sort.Slice(gs, func(a, b int) bool { return gs[a] < gs[b] })
	// dedupe
	out := gs[:0]
	for i, x := range gs {
		if i == 0 || x != gs[i-1] {
			out = append(out, x)
		}
	}
	if len(out) != len(want) {
		return false
	}
	for i := range out {
		if out[i] != want[i] {
			return false
		}
	}
	return true
}

// searchNeighbors: edge, vertex and all-neighbours against the cube model, [T] for the hand models.
func (g *gen) searchNeighbors(ids []s2.CellID) {
	// boundary position classes: cells along face sides and at cube corners at chosen levels
	var cs []s2.CellID
	for _, id := range ids {
		if _, ok := refDecode(uint64(id)); ok && (id.Level() <= 2 || g.rng.Intn(3) == 0) {
			cs = append(cs, id)
		}
	}
	for _, l := range []int{1, 2, 3, 15, 29, 30} {
		n := int64(1) << uint(l)
		pos := []int64{0, 1, n - 1, n - 2, n / 2, n/2 - 1}
		for f := 0; f < 6; f++ {
			for q := 0; q < 3*g.budget; q++ {
				i, j := pos[g.rng.Intn(len(pos))], pos[g.rng.Intn(len(pos))]
				if g.rng.Intn(3) == 0 {
					j = int64(g.rng.U64() % uint64(n))
				}
				if i < 0 || j < 0 || i >= n || j >= n {
					continue
				}
				if g.rng.Bool() {
					i, j = j, i
				}
				cs = append(cs, s2.CellID(refFromIJ(f, l, i, j).id()))
				g.c.Class(fmt.Sprintf("nbr:face-side/corner-L%d", l))
			}
		}
	}
	for _, id := range cs {
		r, _ := refDecode(uint64(id))
		rep := map[string]interface{}{"id": hx(id)}
		g.c.Eval("nbr:"+hx(id), true)
		// ---- edge neighbours
		en := id.EdgeNeighbors()
		for k := 0; k < 4; k++ {
			rn, ok := refDecode(uint64(en[k]))
			want, wok := refEdgeNeighbor(r, k)
			switch {
			case !ok || rn.l != r.l:
				g.c.Violate("Edge.Level", "an edge neighbour is not a valid cell of the cell's level", rep)
			case en[k].Intersects(id) || r.contains(rn) || rn.contains(r):
				g.c.Violate("Edge.Disjoint", "an edge neighbour intersects the cell", rep)
			case !wok || uint64(en[k]) != want:
				g.c.Violate("Edge.Adjacent", fmt.Sprintf("edge neighbour %d is not the cell across edge %d in the cube model", k, k), rep)
			}
			for k2 := 0; k2 < k; k2++ {
				if en[k] == en[k2] {
					g.c.Violate("Edge.Distinct", "two edge neighbours coincide", rep)
				}
			}
		}
		// ---- vertex neighbours (levels above the cell's)
		if r.l > 0 {
			lv := []int{r.l - 1, 0, g.rng.Intn(r.l)}
			for qi, l := range lv {
				if qi > 0 && l == lv[0] {
					continue
				}
				vn := id.VertexNeighbors(l)
				rep2 := map[string]interface{}{"id": hx(id), "level": l}
				g.c.Check(fmt.Sprintf("vertexnbr %s %d", hx(id), l), zlEq(vkit.App("VertexNeighbors", zc(id), zi(l)), cells(vn)))
				bad := false
				for a, x := range vn {
					rx, ok := refDecode(uint64(x))
					if !ok || rx.l != l {
						g.c.Violate("Vertex.Level", "a vertex neighbour is not a valid cell of the requested level", rep2)
						bad = true
					}
					for b := 0; b < a; b++ {
						if vn[b] == x {
							g.c.Violate("Vertex.Distinct", "two vertex neighbours coincide", rep2)
							bad = true
						}
					}
				}
				if !bad && (vn[0] != id.Parent(l) || !sameSet(vn, refVertexNeighbors(r, l))) {
					g.c.Violate("Vertex.Set", "vertex neighbours are not exactly the cells around the closest vertex of the ancestor", rep2)
				}
			}
		}
		// ---- all neighbours at the cell's level and below it
		for qi, l := range []int{r.l, r.l + 1, r.l + 2 + g.rng.Intn(3)} {
			if l > 30 || (qi == 2 && g.budget < 8 && g.rng.Intn(2) == 0) {
				continue
			}
			an := id.AllNeighbors(l)
			rep2 := map[string]interface{}{"id": hx(id), "level": l}
			g.c.Check(fmt.Sprintf("allnbr %s %d", hx(id), l), zlEq(vkit.App("AllNeighbors", zc(id), zi(l)), cells(an)))
			bad := false
			for _, x := range an {
				rx, ok := refDecode(uint64(x))
				switch {
				case !ok || rx.l != l:
					g.c.Violate("All.Level", "an all-neighbour is not a valid cell of the requested level", rep2)
					bad = true
				case x.Intersects(id) || r.contains(rx):
					g.c.Violate("All.Disjoint", "an all-neighbour intersects the cell", rep2)
					bad = true
				case !touches(r, rx):
					g.c.Violate("All.Touches", "an all-neighbour does not touch the cell in the cube model", rep2)
					bad = true
				}
			}
			if !bad && !sameSet(an, refAllNeighbors(r, l)) {
				g.c.Violate("All.Complete", "AllNeighbors is not exactly the set of cells of that level touching the cell from outside", rep2)
			}
		}
		if r.l > 0 && id.AllNeighbors(r.l-1) != nil {
			g.c.Violate("All.Nil", "AllNeighbors(level < cell level) is not nil", rep)
		}
	}
}

// containFailKind classifies a failed Cell(id).ContainsPoint(p) for an ancestor id of p's leaf:
// if p projects on the cell's face and its (u,v) lies outside the cell's uv bound by between
// 0.75 and 4.5 dblEpsilon, the cause is the st/uv round-trip error exceeding the dblEpsilon margin — the known
// finding Cell.ContainsPoint.leafMargin; anything else keeps the given kind (a different defect).
func containFailKind(pt s2.Point, id s2.CellID, kind string) string {
	f, _, _, _, uv := s2.VerifC01CellFields(s2.CellFromCellID(id))
	u, v, ok := s2.VerifC01FaceXYZToUV(f, pt)
	if !ok {
		return kind
	}
	out := func(x, lo, hi float64) *big.Rat {
		X := new(big.Rat).SetFloat64(x)
		a := new(big.Rat).Sub(new(big.Rat).SetFloat64(lo), X)
		b := new(big.Rat).Sub(X, new(big.Rat).SetFloat64(hi))
		if a.Cmp(b) < 0 {
			return b
		}
		return a
	}
	ex := out(u, uv.X.Lo, uv.X.Hi)
	if ey := out(v, uv.Y.Lo, uv.Y.Hi); ey.Cmp(ex) > 0 {
		ex = ey
	}
	// the unchanged code rejects only when the excess is above dblEpsilon (up to the rounding of
	// lo-dblEpsilon, at most 2^-54): a rejection with a smaller excess is a different defect
	if ex.Cmp(new(big.Rat).SetFloat64(4.5*0x1p-52)) <= 0 && ex.Cmp(new(big.Rat).SetFloat64(0.75*0x1p-52)) >= 0 {
		return "Cell.ContainsPoint.leafMargin"
	}
	return kind
}
