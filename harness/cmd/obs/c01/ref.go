package main

// Independent reference model used as the [S] oracle. Nothing here calls into
// golang/geo. A cell is (face f, level l, index k < 4^l along the curve of that
// face); its leaves are the 4^(30-l) consecutive leaf indices starting at
// k*4^(30-l). Geometry is the integer cube model: a point of face f is
// (si, ti) in [0, 2^31]^2 (so that cell centres are integers too), mapped
// linearly to the surface of the cube [-2^30, 2^30]^3.

import (
	"math/bits"
	"sort"
)

const (
	rMaxLevel = 30
	rW        = int64(1) << 30 // half edge of the cube in (si,ti) units
)

type refCell struct {
	f, l int
	k    uint64
}

// refDecode: own validity rule — face < 6, lowest set bit at an even position <= 60.
func refDecode(id uint64) (refCell, bool) {
	if id == 0 {
		return refCell{}, false
	}
	f := int(id >> 61)
	tz := bits.TrailingZeros64(id)
	if f > 5 || tz%2 != 0 || tz > 60 {
		return refCell{}, false
	}
	l := rMaxLevel - tz/2
	pos := id & (1<<61 - 1)
	k := pos >> uint(tz+1)
	return refCell{f, l, k}, true
}

func (c refCell) id() uint64 {
	sh := uint(2 * (rMaxLevel - c.l))
	return uint64(c.f)<<61 + (2*c.k+1)<<sh
}

// first and last leaf ids
func (c refCell) leafRange() (lo, hi uint64) {
	w := uint64(1) << uint(2*(rMaxLevel-c.l)) // number of leaves
	first := c.k * w
	last := first + w - 1
	return uint64(c.f)<<61 + 2*first + 1, uint64(c.f)<<61 + 2*last + 1
}

func (c refCell) parent(l int) refCell { return refCell{c.f, l, c.k >> uint(2*(c.l-l))} }
func (c refCell) child(q int) refCell  { return refCell{c.f, c.l + 1, 4*c.k + uint64(q)} }
func (c refCell) contains(d refCell) bool {
	return c.f == d.f && c.l <= d.l && d.k>>uint(2*(d.l-c.l)) == c.k
}

// ---- Hilbert curve, one level at a time, from its definition ----
// Orientation is a pair of flags (swap = 1, invert = 2). In the canonical
// orientation the four quadrants are visited in the order (0,0),(0,1),(1,1),(1,0).
// Swap transposes the square, invert rotates it by 180 degrees. The first
// quadrant is traversed transposed, the last anti-transposed (swap+invert).

var refCanon = [4][2]int{{0, 0}, {0, 1}, {1, 1}, {1, 0}}
var refChildFlip = [4]int{1, 0, 0, 3}

func refQuadrant(o, p int) (a, b int) {
	a, b = refCanon[p][0], refCanon[p][1]
	if o&1 != 0 {
		a, b = b, a
	}
	if o&2 != 0 {
		a, b = 1-a, 1-b
	}
	return
}

// ij returns the cell's coordinates at its own level (0 <= i,j < 2^l) and the
// orientation of the curve inside the cell.
func (c refCell) ij() (i, j int64, o int) {
	o = c.f & 1
	for lv := 1; lv <= c.l; lv++ {
		p := int(c.k>>uint(2*(c.l-lv))) & 3
		a, b := refQuadrant(o, p)
		i, j = 2*i+int64(a), 2*j+int64(b)
		o ^= refChildFlip[p]
	}
	return
}

// refFromIJ: the cell of face f, level l with coordinates (i, j) at that level.
func refFromIJ(f, l int, i, j int64) refCell {
	o := f & 1
	var k uint64
	for lv := 1; lv <= l; lv++ {
		a := int(i>>uint(l-lv)) & 1
		b := int(j>>uint(l-lv)) & 1
		p := -1
		for q := 0; q < 4; q++ {
			qa, qb := refQuadrant(o, q)
			if qa == a && qb == b {
				p = q
			}
		}
		k = 4*k + uint64(p)
		o ^= refChildFlip[p]
	}
	return refCell{f, l, k}
}

// ---- integer cube model ----

type xyz [3]int64

// cubePoint maps (face, si, ti) with si,ti in [0, 2^31] to the cube surface.
func cubePoint(f int, si, ti int64) xyz {
	u, v := si-rW, ti-rW
	switch f {
	case 0:
		return xyz{rW, u, v}
	case 1:
		return xyz{-u, rW, v}
	case 2:
		return xyz{-u, -v, rW}
	case 3:
		return xyz{-rW, -v, -u}
	case 4:
		return xyz{v, -rW, -u}
	}
	return xyz{v, u, -rW}
}

// onFace: if the cube-surface point p lies on the (closed) face f, its (si, ti) there.
func onFace(f int, p xyz) (si, ti int64, ok bool) {
	var u, v, w int64
	switch f {
	case 0:
		u, v, w = p[1], p[2], p[0]
	case 1:
		u, v, w = -p[0], p[2], p[1]
	case 2:
		u, v, w = -p[0], -p[1], p[2]
	case 3:
		u, v, w = -p[2], -p[1], -p[0]
	case 4:
		u, v, w = -p[2], p[0], -p[1]
	default:
		u, v, w = p[1], p[0], -p[2]
	}
	if w != rW || u < -rW || u > rW || v < -rW || v > rW {
		return 0, 0, false
	}
	return u + rW, v + rW, true
}

// square of a cell in (si,ti): [slo, shi] x [tlo, thi]
func (c refCell) square() (slo, shi, tlo, thi int64) {
	i, j, _ := c.ij()
	sz := int64(1) << uint(31-c.l)
	return i * sz, (i + 1) * sz, j * sz, (j + 1) * sz
}

// corners in the order (lo,lo), (hi,lo), (hi,hi), (lo,hi): edge k joins corner k and k+1
// (edge 0 = down, 1 = right, 2 = up, 3 = left).
func (c refCell) corners() [4]xyz {
	slo, shi, tlo, thi := c.square()
	return [4]xyz{cubePoint(c.f, slo, tlo), cubePoint(c.f, shi, tlo), cubePoint(c.f, shi, thi), cubePoint(c.f, slo, thi)}
}

func sharedCorners(a, b refCell) int {
	n := 0
	ca, cb := a.corners(), b.corners()
	for _, p := range ca {
		for _, q := range cb {
			if p == q {
				n++
			}
		}
	}
	return n
}

// closedContains: does the closed square of c (as a subset of the cube surface) contain p?
func (c refCell) closedContains(p xyz) bool {
	si, ti, ok := onFace(c.f, p)
	if !ok {
		return false
	}
	slo, shi, tlo, thi := c.square()
	return slo <= si && si <= shi && tlo <= ti && ti <= thi
}

// cellsAround: all cells of the given level that have the lattice point p as a corner
// (p must be a lattice point of that level), sorted by id, without duplicates.
func cellsAround(p xyz, l int) []uint64 {
	sz := int64(1) << uint(31-l)
	n := int64(1) << uint(l)
	set := map[uint64]bool{}
	for f := 0; f < 6; f++ {
		si, ti, ok := onFace(f, p)
		if !ok {
			continue
		}
		ci, cj := si/sz, ti/sz
		for _, di := range []int64{-1, 0} {
			for _, dj := range []int64{-1, 0} {
				i, j := ci+di, cj+dj
				if i < 0 || j < 0 || i >= n || j >= n {
					continue
				}
				set[refFromIJ(f, l, i, j).id()] = true
			}
		}
	}
	return sortedKeys(set)
}

func sortedKeys(set map[uint64]bool) []uint64 {
	out := make([]uint64, 0, len(set))
	for k := range set {
		out = append(out, k)
	}
	sort.Slice(out, func(a, b int) bool { return out[a] < out[b] })
	return out
}

// touches: a cell n of level >= c.l, not inside c, touches c iff one of its corners lies
// in the closed square of c (cells are aligned squares whose size divides that of c).
func touches(c, n refCell) bool {
	for _, p := range n.corners() {
		if c.closedContains(p) {
			return true
		}
	}
	return false
}

// refAllNeighbors: every cell of level l >= c.l that touches c and is not inside c.
func refAllNeighbors(c refCell, l int) []uint64 {
	slo, shi, tlo, thi := c.square()
	step := int64(1) << uint(31-l)
	set := map[uint64]bool{}
	add := func(si, ti int64) {
		for _, id := range cellsAround(cubePoint(c.f, si, ti), l) {
			n, _ := refDecode(id)
			if !c.contains(n) {
				set[id] = true
			}
		}
	}
	for s := slo; s <= shi; s += step {
		add(s, tlo)
		add(s, thi)
	}
	for t := tlo; t <= thi; t += step {
		add(slo, t)
		add(shi, t)
	}
	return sortedKeys(set)
}

// refEdgeNeighbor: the cell of c's level other than c that contains both ends of edge k of c.
func refEdgeNeighbor(c refCell, k int) (uint64, bool) {
	cs := c.corners()
	a := cellsAround(cs[k], c.l)
	b := cellsAround(cs[(k+1)%4], c.l)
	var out []uint64
	for _, x := range a {
		for _, y := range b {
			if x == y && x != c.id() {
				out = append(out, x)
			}
		}
	}
	if len(out) != 1 {
		return 0, false
	}
	return out[0], true
}

// refVertexNeighbors: cells of level l around the corner of c's level-l ancestor that is
// closest to c (c.l > l so that the corner is unique).
func refVertexNeighbors(c refCell, l int) []uint64 {
	p := c.parent(l)
	pslo, pshi, ptlo, pthi := p.square()
	cslo, cshi, ctlo, cthi := c.square()
	s, t := pslo, ptlo
	if cslo+cshi > pslo+pshi {
		s = pshi
	}
	if ctlo+cthi > ptlo+pthi {
		t = pthi
	}
	return cellsAround(cubePoint(c.f, s, t), l)
}
