package main

import (
	"fmt"
	"strings"

	"github.com/golang/geo/s2"
	"verifharness/internal/vkit"
)

func bytesTerm(s string) string {
	out := make([]string, len(s))
	for i := 0; i < len(s); i++ {
		out[i] = fmt.Sprintf("%d%%Z", s[i])
	}
	return vkit.List(out)
}

// own token rule: 16 hex digits, trailing zeros stripped, "X" for zero.
func refToken(id uint64) string {
	s := strings.TrimRight(fmt.Sprintf("%016x", id), "0")
	if s == "" {
		return "X"
	}
	return s
}

// own parse rule: at most 16 hex digits of either case, right-padded with zeros; anything else is 0.
func refFromToken(s string) uint64 {
	if len(s) == 0 || len(s) > 16 {
		return 0
	}
	var v uint64
	for i := 0; i < 16; i++ {
		var d uint64
		if i < len(s) {
			ch := s[i]
			switch {
			case ch >= '0' && ch <= '9':
				d = uint64(ch - '0')
			case ch >= 'a' && ch <= 'f':
				d = uint64(ch-'a') + 10
			case ch >= 'A' && ch <= 'F':
				d = uint64(ch-'A') + 10
			default:
				return 0
			}
		}
		v = v<<4 | d
	}
	return v
}

func (g *gen) textCases(ids []s2.CellID) {
	c := g.c
	var toks, strs []string
	for n, id := range ids {
		if n%3 != int(c.Seed%3) && g.budget < 8 && id.Level() > 2 {
			continue
		}
		tok, str := id.ToToken(), id.String()
		key := hx(id)
		c.Eval("text:"+key, true)
		c.Check("ToToken "+key, vkit.App("bytes_eqb", vkit.App("ToToken", zc(id)), bytesTerm(tok)))
		c.Check("String "+key, vkit.App("bytes_eqb", vkit.App("CellID_String", zc(id)), bytesTerm(str)))
		// [S] every uint64 round-trips through its token; the token is the documented one
		if tok != refToken(uint64(id)) || len(tok) > 16 || s2.CellIDFromToken(tok) != id {
			c.Violate("Text.TokenRoundTrip", "CellIDFromToken(ToToken(c)) != c or wrong token", map[string]interface{}{"id": key, "token": tok})
		}
		toks = append(toks, tok)
		strs = append(strs, str)
	}
	mut := func(s string) []string {
		out := []string{s, strings.ToUpper(s), s + "0", s + "00", "0" + s, s + "g", " " + s, s + " ", "+" + s, "-" + s, "0x" + s, s + "_"}
		if len(s) > 1 {
			out = append(out, s[:len(s)-1], s[1:], s[:len(s)/2]+"/"+s[len(s)/2:], s[:1]+"x"+s[1:])
		}
		return out
	}
	fixed := []string{"", "X", "x", "0", "00", "1", "f", "F", "ffffffffffffffff", "FFFFFFFFFFFFFFFF", "fffffffffffffffff", "0000000000000001", "00000000000000001",
		"10000000000000000", "8", "g", "/", "3/", "3", "6/", "5/", "0/0123", "0/4", "0/01230", "1/\x00", "/0", "00/", ":/", "//", "5/3333333333333333333333333333333",
		"5/333333333333333333333333333333", "2/1111111111111111111111111111111", "\xff/", "0/\xff", "0/3\x80"}
	seen := map[string]bool{}
	var all []string
	for _, s := range fixed {
		all = append(all, s)
	}
	for n, s := range toks {
		if n%16 == int(c.Seed%16) || g.budget >= 8 {
			all = append(all, mut(s)...)
		}
	}
	for n, s := range strs {
		if n%16 == int(c.Seed%16) || g.budget >= 8 {
			all = append(all, mut(s)...)
		}
	}
	for _, s := range all {
		if seen[s] {
			continue
		}
		seen[s] = true
		ft, fs := s2.CellIDFromToken(s), s2.CellIDFromString(s)
		c.Class("text:malformed-or-mutated")
		c.Eval("textin:"+s, true)
		c.Check(fmt.Sprintf("FromToken %q", s), vkit.App("Z.eqb", vkit.App("CellIDFromToken", bytesTerm(s)), zc(ft)))
		c.Check(fmt.Sprintf("FromString %q", s), vkit.App("Z.eqb", vkit.App("CellIDFromString", bytesTerm(s)), zc(fs)))
		if uint64(ft) != refFromToken(s) {
			c.Violate("Text.FromToken", "CellIDFromToken is not 'hex digits right-padded to 16, else 0'", map[string]interface{}{"s": s, "got": hx(ft)})
		}
		// FromString: 0, or a valid cell whose String() is s
		if fs != 0 && (!fs.IsValid() || fs.String() != s) {
			c.Violate("Text.FromString", "CellIDFromString returns a non-zero id that is not the valid cell printed as s", map[string]interface{}{"s": s, "got": hx(fs)})
		}
		if r, ok := parseRefString(s); ok != (fs != 0) || (ok && uint64(fs) != r.id()) {
			c.Violate("Text.FromString", "CellIDFromString disagrees with the face/child-digits grammar", map[string]interface{}{"s": s, "got": hx(fs)})
		}
	}
}

// grammar: [0-5] '/' [0-3]{0,30}
func parseRefString(s string) (refCell, bool) {
	if len(s) < 2 || len(s) > 32 || s[0] < '0' || s[0] > '5' || s[1] != '/' {
		return refCell{}, false
	}
	r := refCell{f: int(s[0] - '0')}
	for i := 2; i < len(s); i++ {
		if s[i] < '0' || s[i] > '3' {
			return refCell{}, false
		}
		r = r.child(int(s[i] - '0'))
	}
	return r, true
}
