// Observer for C01 — cell ids form a consistent, invertible quadtree along the Hilbert curve.
//
// [T] every function translated into Gen.CellIDFull (and the hand models
// Model.CellIDTables / Model.CellIDNbr / Model.CellIDText) is compared bit-exactly with the
// running implementation. [S] the property itself is evaluated on the implementation
// against the independent reference model of ref.go (leaf-interval model, one-level-at-a-
// time Hilbert curve, integer cube model) and exact rational arithmetic.
package main

import (
	"fmt"
	"math"

	"github.com/golang/geo/r2"
	"github.com/golang/geo/r3"
	"github.com/golang/geo/s2"
	"verifharness/internal/vkit"
)

func main() {
	vkit.Main("C01", []string{"Gen.CellIDFull", "Model.CellIDNbr", "Model.CellIDText", "Model.C01Obs"}, run)
}

func zi(i int) string       { return vkit.Z(int64(i)) }
func zu(u uint64) string    { return vkit.U(u) }
func zc(c s2.CellID) string { return vkit.U(uint64(c)) }
func b2i(b bool) int {
	if b {
		return 1
	}
	return 0
}
func zlist(xs ...string) string  { return vkit.List(xs) }
func zlEq(a, b string) string    { return vkit.App("zl_eqb", a, b) }
func flEq(a, b string) string    { return vkit.App("fl_eqb", a, b) }
func cells(cs []s2.CellID) string {
	out := make([]string, len(cs))
	for i, c := range cs {
		out[i] = zc(c)
	}
	return vkit.List(out)
}
func floats(fs ...float64) string {
	out := make([]string, len(fs))
	for i, f := range fs {
		out[i] = vkit.F(f)
	}
	return vkit.List(out)
}

func mkID(f, l int, k uint64) s2.CellID { return s2.CellID(refCell{f, l, k}.id()) }

// ---------------------------------------------------------------------------

type gen struct {
	c      *vkit.Collector
	rng    *vkit.Rng
	budget int
	known  int // occurrences of the known finding reported so far
}

// violate reports a violation; the known finding Cell.ContainsPoint.leafMargin is reported at
// most three times so that it cannot crowd out a different violation (the collector keeps 20).
func (g *gen) violate(kind, desc string, replay interface{}) {
	if kind == "Cell.ContainsPoint.leafMargin" {
		g.known++
		g.c.Extra["leafMargin_occurrences"] = g.known
		if g.known > 3 {
			return
		}
	}
	g.c.Violate(kind, desc, replay)
}

func run(c *vkit.Collector, rng *vkit.Rng, budget int) {
	g := &gen{c: c, rng: rng, budget: budget}
	g.tables()
	ids := g.idSet()
	for _, id := range ids {
		g.idCases(id)
	}
	g.pairCases(ids)
	g.advanceCases(ids)
	g.ijCases()
	g.floatCases()
	g.pointCases()
	g.textCases(ids)
	g.searchCurve()
	g.searchNeighbors(ids)
	g.searchVolume()
}

// searchVolume: many more [S]-only evaluations (no Coq cases): the numeric hypotheses
// H-UVROUNDTRIP / H-FACEUV / H-WRAP and the point property at boundary-targeted inputs.
func (g *gen) searchVolume() {
	n := 20000 * g.budget
	for q := 0; q < n; q++ {
		if q%2 == 0 {
			g.searchUV(g.jumpU())
		} else {
			g.searchUV(g.gridU())
		}
	}
	M := 1 << 30
	edge := []int{-1, M, 0, M - 1, 1, M - 2, M / 2, M/2 - 1}
	for q := 0; q < 4000*g.budget; q++ {
		f := g.rng.Intn(6)
		i, j := edge[g.rng.Intn(2)], g.rng.Intn(M)
		switch g.rng.Intn(4) {
		case 0:
			j = edge[g.rng.Intn(len(edge))]
		case 1:
			j = (g.rng.Intn(1<<uint(g.rng.Intn(31))) << uint(g.rng.Intn(8))) & (M - 1)
		}
		if g.rng.Bool() {
			i, j = j, i
		}
		g.c.Eval(fmt.Sprintf("wrapS:%d/%d/%d", f, i, j), true)
		g.searchWrap(f, i, j)
	}
	for q := 0; q < 3000*g.budget; q++ {
		f := g.rng.Intn(6)
		u, v := g.jumpU(), g.gridU()
		switch g.rng.Intn(3) {
		case 0:
			v = g.rng.Range(-1, 1)
		case 1:
			v = g.jumpU()
		}
		if g.rng.Bool() {
			u, v = v, u
		}
		r := s2.VerifC01FaceUVToXYZ(f, u, v)
		if g.rng.Intn(4) == 0 {
			r = r.Normalize()
		}
		pt := s2.Point{Vector: r}
		ff, uu, vv := s2.VerifC01XYZToFaceUV(r)
		leaf := s2.VerifC01CellIDFromPoint(pt)
		key := fmt.Sprintf("%x/%x/%x", math.Float64bits(r.X), math.Float64bits(r.Y), math.Float64bits(r.Z))
		g.c.Eval("pointS:"+key, true)
		// H-FACEUV: the projection on the chosen face succeeds with |u|,|v| <= 1
		pu, pv, ok := s2.VerifC01FaceXYZToUV(ff, pt)
		if !ok || pu != uu || pv != vv || !(math.Abs(uu) <= 1 && math.Abs(vv) <= 1) {
			g.c.Violate("Hyp.FACEUV", "projection of p on its own face fails or leaves [-1,1]", map[string]interface{}{"p": []float64{r.X, r.Y, r.Z}, "bits": key})
		}
		for l := 0; l <= 30; l++ {
			if !s2.CellFromCellID(leaf.Parent(l)).ContainsPoint(pt) {
				g.violate(containFailKind(pt, leaf.Parent(l), "Point.AncestorContains"), fmt.Sprintf("the level-%d ancestor of CellFromPoint(p) does not contain p", l),
					map[string]interface{}{"p": []float64{r.X, r.Y, r.Z}, "bits": key, "leaf": fmt.Sprintf("%016x", uint64(leaf)), "level": l})
				break
			}
		}
		g.searchPoint(pt, leaf, ff)
	}
}

// tables: all 2x1024 entries of the init()-built tables and the literal tables.
func (g *gen) tables() {
	lp, lij := s2.VerifC01LookupPos(), s2.VerifC01LookupIJ()
	a, b := make([]string, len(lp)), make([]string, len(lij))
	for i := range lp {
		a[i], b[i] = zi(lp[i]), zi(lij[i])
	}
	g.c.Check("table lookupPos", zlEq("s2_lookupPos", vkit.List(a)))
	g.c.Check("table lookupIJ", zlEq("s2_lookupIJ", vkit.List(b)))
	g.c.Eval("tables", true)
	// [S] the tables against the one-level-at-a-time reference curve: key iiiijjjjoo -> ppppppppoo
	for o := 0; o < 4; o++ {
		for i := 0; i < 16; i++ {
			for j := 0; j < 16; j++ {
				// walk 4 levels of the reference curve starting in orientation o
				oo, k := o, 0
				for lv := 3; lv >= 0; lv-- {
					aa, bb := (i>>uint(lv))&1, (j>>uint(lv))&1
					for q := 0; q < 4; q++ {
						qa, qb := refQuadrant(oo, q)
						if qa == aa && qb == bb {
							k = 4*k + q
							oo ^= refChildFlip[q]
							break
						}
					}
				}
				key := (i<<4+j)<<2 + o
				if lp[key] != k<<2+oo {
					g.c.Violate("Tables.lookupPos", "lookupPos disagrees with the recursive Hilbert curve", map[string]interface{}{"key": key, "got": lp[key], "want": k<<2 + oo})
				}
				if lij[k<<2+o] != (i<<4+j)<<2+oo {
					g.c.Violate("Tables.lookupIJ", "lookupIJ disagrees with the recursive Hilbert curve", map[string]interface{}{"key": k<<2 + o, "got": lij[k<<2+o], "want": (i<<4+j)<<2 + oo})
				}
			}
		}
	}
}

// idSet: exhaustive low levels (sharded in quick), structured deep ids, invalid ids.
func (g *gen) idSet() []s2.CellID {
	var ids []s2.CellID
	maxEx, shard := 3, 4
	if g.budget >= 8 {
		maxEx, shard = 4, 1
	}
	pick := int(g.c.Seed % uint64(shard))
	for l := 0; l <= maxEx; l++ {
		for f := 0; f < 6; f++ {
			for k := uint64(0); k < 1<<uint(2*l); k++ {
				if l >= 3 && shard > 1 && int(k+uint64(f))%shard != pick {
					continue
				}
				ids = append(ids, mkID(f, l, k))
				g.c.Class(fmt.Sprintf("id:exhaustive-L%d", l))
			}
		}
	}
	// structured deep ids
	levels := []int{4, 7, 8, 14, 15, 16, 22, 23, 28, 29, 30}
	for f := 0; f < 6; f++ {
		for _, l := range levels {
			n := uint64(1) << uint(2*l)
			pats := []uint64{0, n - 1, 1, n - 2, n / 2, n/2 - 1, 0x5555555555555555 & (n - 1), 0xAAAAAAAAAAAAAAAA & (n - 1), n / 4, 3*(n/4) - 1}
			for q := 0; q < g.budget; q++ {
				pats = append(pats, g.rng.U64()&(n-1))
			}
			for pi, k := range pats {
				if (pi+f+l)%3 != int(g.c.Seed%3) && g.budget < 8 && pi >= 2 {
					continue
				}
				ids = append(ids, mkID(f, l, k))
				g.c.Class("id:structured-deep")
			}
		}
	}
	// invalid and odd ids
	bad := []uint64{0, ^uint64(0), 1 << 63, 6 << 61, 6<<61 + 1, 7<<61 + 1<<60, 2, 8, 1<<61 + 2, 3<<61 + 1<<59, 0xFFFFFFFFFFFFFFFE,
		0xC000000000000000, 0xBFFFFFFFFFFFFFFF, 0xC000000000000001, 1, 0x1000000000000000, 0x0800000000000000}
	for q := 0; q < 6*g.budget; q++ {
		bad = append(bad, g.rng.U64())
	}
	for _, b := range bad {
		ids = append(ids, s2.CellID(b))
		g.c.Class("id:invalid-or-random")
	}
	return ids
}

func (g *gen) idCases(id s2.CellID) {
	c := g.c
	_, valid := refDecode(uint64(id))
	key := fmt.Sprintf("%016x", uint64(id))
	c.Eval("id:"+key, valid)
	ch := id.Children()
	c.Check("id "+key, zlEq(vkit.App("c01_id", zc(id)), zlist(
		zu(s2.VerifC01Lsb(id)), zi(id.Level()), zi(id.Face()), zu(id.Pos()),
		zi(b2i(id.IsValid())), zi(b2i(id.IsLeaf())), zi(b2i(s2.VerifC01IsFace(id))),
		zc(id.RangeMin()), zc(id.RangeMax()), zc(id.ChildBegin()), zc(id.ChildEnd()),
		zc(id.Next()), zc(id.Prev()), zc(id.NextWrap()), zc(id.PrevWrap()),
		vkit.Z(s2.VerifC01DistanceFromBegin(id)), zc(s2.VerifC01ImmediateParent(id)),
		zc(ch[0]), zc(ch[1]), zc(ch[2]), zc(ch[3]))))
	// per level
	lv := []int{id.Level()}
	if id.Level() > 0 {
		lv = append(lv, []int{id.Level() - 1, 0, g.rng.Intn(id.Level() + 1)}[g.rng.Intn(3)])
	}
	if id.Level() < 30 {
		lv = append(lv, []int{id.Level() + 1, 30, id.Level() + g.rng.Intn(31-id.Level())}[g.rng.Intn(3)])
	}
	seen := map[int]bool{}
	for _, l := range lv {
		if seen[l] {
			continue
		}
		seen[l] = true
		c.Check(fmt.Sprintf("idlevel %s %d", key, l), zlEq(vkit.App("c01_idlevel", zc(id), zi(l)), zlist(
			zc(id.Parent(l)), zi(id.ChildPosition(l)), zc(id.ChildBeginAtLevel(l)), zc(id.ChildEndAtLevel(l)),
			zc(s2.CellIDFromFacePosLevel(id.Face(), id.Pos(), l)), zu(s2.VerifC01LsbForLevel(l)), zi(s2.VerifC01SizeIJ(l)))))
	}
	// (face,i,j) and geometry-free cell fields
	f, i, j, o := s2.VerifC01FaceIJOrientation(id)
	f1, si, ti := s2.VerifC01FaceSiTi(id)
	f2, si2, ti2 := s2.VerifC01CenterFaceSiTi(id)
	cf, cl, co, cid, uv := s2.VerifC01CellFields(s2.CellFromCellID(id))
	c.Check("ij "+key, zlEq(vkit.App("c01_ij", zc(id)), zlist(zi(f), zi(i), zi(j), zi(o), zi(f1), zu(uint64(si)), zu(uint64(ti)),
		zi(f2), zi(si2), zi(ti2), zi(cf), zi(cl), zi(co), zc(cid))))
	c.Check("celluv "+key, flEq(vkit.App("c01_celluv", zc(id)), floats(uv.X.Lo, uv.X.Hi, uv.Y.Lo, uv.Y.Hi)))
	en := id.EdgeNeighbors()
	c.Check("edge "+key, zlEq(vkit.App("s2_CellID_EdgeNeighbors", zc(id)), cells(en[:])))
	if valid {
		g.searchID(id)
	}
}

func (g *gen) pairCases(ids []s2.CellID) {
	n := 500 * g.budget
	for q := 0; q < n; q++ {
		a := ids[g.rng.Intn(len(ids))]
		var b s2.CellID
		switch g.rng.Intn(6) {
		case 0:
			b = ids[g.rng.Intn(len(ids))]
			g.c.Class("pair:independent")
		case 1:
			b = a.Parent(g.rng.Intn(a.Level() + 1))
			g.c.Class("pair:ancestor")
		case 2:
			b = a.RangeMin()
			if g.rng.Bool() {
				b = a.RangeMax()
			}
			g.c.Class("pair:range-end")
		case 3:
			b = a.Next()
			if g.rng.Bool() {
				b = a.Prev()
			}
			g.c.Class("pair:adjacent-same-level")
		case 4:
			b = s2.CellID(uint64(a.RangeMax()) + 2)
			if g.rng.Bool() {
				b = s2.CellID(uint64(a.RangeMin()) - 2)
			}
			g.c.Class("pair:leaf-just-outside")
		default:
			b = a.Children()[g.rng.Intn(4)]
			if g.rng.Bool() && !b.IsLeaf() {
				b = b.Children()[g.rng.Intn(4)]
			}
			g.c.Class("pair:descendant")
		}
		if g.rng.Bool() {
			a, b = b, a
		}
		l, ok := a.CommonAncestorLevel(b)
		key := fmt.Sprintf("%016x/%016x", uint64(a), uint64(b))
		g.c.Eval("pair:"+key, true)
		g.c.Check("pair "+key, zlEq(vkit.App("c01_pair", zc(a), zc(b)), zlist(zi(b2i(a.Contains(b))), zi(b2i(a.Intersects(b))), zi(l), zi(b2i(ok)))))
		g.searchPair(a, b)
	}
}

func (g *gen) advanceCases(ids []s2.CellID) {
	n := 400 * g.budget
	for q := 0; q < n; q++ {
		a := ids[g.rng.Intn(len(ids))]
		l := a.Level()
		per := int64(6) << uint(2*l) // cells at this level (fits: l <= 30 gives 6*2^60)
		var st int64
		switch g.rng.Intn(10) {
		case 8: // whole laps plus exactly the distance to the last/first cell of the level
			if k := int64(1 + g.rng.Intn(3)); l <= 29 {
				st = k*per + per - s2.VerifC01DistanceFromBegin(a) + int64(g.rng.Intn(5)) - 3
			}
		case 9:
			if k := int64(1 + g.rng.Intn(3)); l <= 29 {
				st = -k*per - s2.VerifC01DistanceFromBegin(a) + int64(g.rng.Intn(5)) - 2
			}
		case 0:
			st = []int64{0, 1, -1, 2, -2}[g.rng.Intn(5)]
		case 1:
			st = int64(1) << uint(g.rng.Intn(63))
			if g.rng.Bool() {
				st = -st
			}
		case 2:
			st = per + int64(g.rng.Intn(3)) - 1
			if g.rng.Bool() {
				st = -st
			}
		case 3:
			st = []int64{math.MinInt64, math.MaxInt64, math.MinInt64 + 1, math.MaxInt64 - 1}[g.rng.Intn(4)]
		case 4: // exactly to the ends of the level
			st = -s2.VerifC01DistanceFromBegin(a) + int64(g.rng.Intn(3)) - 1
		case 5:
			st = per - s2.VerifC01DistanceFromBegin(a) + int64(g.rng.Intn(5)) - 2
		case 6:
			st = int64(g.rng.U64())
		default:
			st = int64(g.rng.Intn(2000)) - 1000
		}
		key := fmt.Sprintf("%016x/%d", uint64(a), st)
		g.c.Eval("adv:"+key, st != 0)
		g.c.Class("advance")
		g.c.Check("adv "+key, zlEq(vkit.App("c01_adv", zc(a), vkit.Z(st)), zlist(zc(a.AdvanceWrap(st)), zc(a.Advance(st)))))
		g.searchAdvance(a, st)
	}
}

// ijCases: cellIDFromFaceIJ / Wrap / Same on boundary classes of every face side.
func (g *gen) ijCases() {
	M := 1 << 30
	vals := []int{0, 1, 2, 3, M - 1, M - 2, M / 2, M/2 - 1, M/2 + 1, M / 4, 3 * M / 4, 0x15555555, 0x2AAAAAAA, 12345, 1 << 15, 1<<28 - 1, 1 << 28}
	for q := 0; q < 4*g.budget; q++ {
		vals = append(vals, g.rng.Intn(M))
	}
	for f := 0; f < 6; f++ {
		for q := 0; q < 25*g.budget; q++ {
			i, j := vals[g.rng.Intn(len(vals))], vals[g.rng.Intn(len(vals))]
			id := s2.VerifC01CellIDFromFaceIJ(f, i, j)
			key := fmt.Sprintf("%d/%d/%d", f, i, j)
			g.c.Eval("fromij:"+key, true)
			g.c.Class("ij:in-face")
			g.c.Check("fromij "+key, zlEq(vkit.App("c01_fromij", zi(f), zi(i), zi(j)), zlist(zc(id))))
			g.searchFromIJ(f, i, j, id)
		}
		// wrap: just outside each of the four sides, corners, far outside (clamped)
		out := []int{-1, M, -2, M + 1, -M, 2 * M, -(1 << 31), 1<<31 - 1}
		for q := 0; q < 25*g.budget; q++ {
			var i, j int
			switch g.rng.Intn(4) {
			case 0:
				i, j = out[g.rng.Intn(len(out))], vals[g.rng.Intn(len(vals))]
				g.c.Class("ij:wrap-i-side")
			case 1:
				i, j = vals[g.rng.Intn(len(vals))], out[g.rng.Intn(len(out))]
				g.c.Class("ij:wrap-j-side")
			case 2:
				i, j = out[g.rng.Intn(len(out))], out[g.rng.Intn(len(out))]
				g.c.Class("ij:wrap-corner")
			default:
				i, j = vals[g.rng.Intn(len(vals))], vals[g.rng.Intn(len(vals))]
				g.c.Class("ij:wrap-inside")
			}
			key := fmt.Sprintf("%d/%d/%d", f, i, j)
			g.c.Eval("wrap:"+key, true)
			g.c.Check("wrap "+key, zlEq(vkit.App("c01_wrap", zi(f), zi(i), zi(j)),
				zlist(zc(s2.VerifC01CellIDFromFaceIJWrap(f, i, j)), zc(s2.VerifC01CellIDFromFaceIJSame(f, i, j, false)))))
			g.searchWrap(f, i, j)
		}
	}
}

// floatCases: stToUV / uvToST / stToIJ / siTiToST / ijToSTMin around grid values.
func (g *gen) floatCases() {
	M := float64(1 << 30)
	n := 60 * g.budget
	for q := 0; q < n; q++ {
		l := g.rng.Intn(31)
		k := g.rng.Intn(1<<uint(l) + 1)
		i := k << uint(30-l)
		switch g.rng.Intn(6) {
		case 0:
			i = 0
		case 1:
			i = 1 << 30
		case 2:
			i = 1 << 29
		}
		s0 := float64(i) / M
		for _, d := range []int{0, 1, -1, 2, -3} {
			s := vkit.Ulps(s0, d)
			u := s2.VerifC01StToUV(s)
			key := fmt.Sprintf("%x", math.Float64bits(s))
			g.c.Eval("st:"+key, true)
			g.c.Class("float:grid-s±ulp")
			g.c.Check("st "+key, flEq(vkit.App("c01_st", vkit.F(s)), floats(u, s2.VerifC01UVToST(s))))
			g.c.Check("stz "+key, zlEq(vkit.App("c01_stz", vkit.F(s)), zlist(zi(s2.VerifC01StToIJ(s)))))
			// and the u value at the grid line ± ulps through the inverse
			uu := vkit.Ulps(u, d)
			g.c.Check("st(u) "+key, flEq(vkit.App("c01_st", vkit.F(uu)), floats(s2.VerifC01StToUV(uu), s2.VerifC01UVToST(uu))))
			g.c.Check("stz(uvToST u) "+key, zlEq(vkit.App("c01_stz", vkit.App("s2_uvToST", vkit.F(uu))), zlist(zi(s2.VerifC01StToIJ(s2.VerifC01UVToST(uu))))))
			g.searchUV(uu)
		}
		g.c.Check(fmt.Sprintf("si %d", i), flEq(vkit.App("c01_si", zi(2*i)), floats(s2.VerifC01SiTiToST(uint32(2*i)), s2.VerifC01IJToSTMin(2*i))))
	}
	for _, s := range []float64{0, math.Copysign(0, -1), 1, -1, 0.5, 2, -0.25, 1.5, 1e-300, -1e-300, 5e-324, 0.49999999999999994, 1 - 1e-16, 3.9, -3.9, 1e9, -1e9} {
		key := fmt.Sprintf("%x", math.Float64bits(s))
		g.c.Class("float:special")
		g.c.Check("st "+key, flEq(vkit.App("c01_st", vkit.F(s)), floats(s2.VerifC01StToUV(s), s2.VerifC01UVToST(s))))
		g.c.Check("stz "+key, zlEq(vkit.App("c01_stz", vkit.F(s)), zlist(zi(s2.VerifC01StToIJ(s)))))
	}
	for _, si := range []uint32{0, 1, 2, 1 << 31, 1<<31 + 1, 1<<31 - 1, 1<<32 - 1, 1 << 30} {
		g.c.Check(fmt.Sprintf("si %d", si), flEq(vkit.App("c01_si", zu(uint64(si))), floats(s2.VerifC01SiTiToST(si), s2.VerifC01IJToSTMin(int(si)))))
	}
}

// ---------------------------------------------------------------------------
// points

func (g *gen) gridU() float64 {
	l := g.rng.Intn(31)
	k := g.rng.Intn(1<<uint(l) + 1)
	if g.rng.Intn(4) == 0 { // near +-1, where 2^-52 is only 2 ulps
		k = 1<<uint(l) - g.rng.Intn(3)
		if g.rng.Bool() {
			k = g.rng.Intn(3)
		}
		if k < 0 {
			k = 0
		}
	}
	s := float64(k<<uint(30-l)) / float64(1<<30)
	return vkit.Ulps(s2.VerifC01StToUV(s), g.rng.Intn(7)-3)
}

// jumpU: a u right at a jump of u -> stToIJ(uvToST(u)) (found by bisection, the map is monotone),
// i.e. 2^30*uvToST(u) is within an ulp of an integer: this is where u is farthest outside the
// uv-interval of its own leaf column. Half of the draws come from |u| in [0.25, 0.5], where the
// excess exceeds dblEpsilon for about 3% of the columns.
func (g *gen) jumpU() float64 {
	M := 1 << 30
	var i int
	switch g.rng.Intn(4) {
	case 0, 1:
		lo, hi := int(0.2113*float64(M)), int(0.3536*float64(M))
		i = lo + g.rng.Intn(hi-lo)
		if g.rng.Bool() {
			i = M - i
		}
	case 2:
		l := g.rng.Intn(31)
		i = (1 + g.rng.Intn(1<<uint(l))) << uint(30-l)
		if i >= M {
			i = M - 1
		}
	default:
		i = 1 + g.rng.Intn(M-1)
	}
	ij := func(u float64) int { return s2.VerifC01StToIJ(s2.VerifC01UVToST(u)) }
	u0 := s2.VerifC01StToUV(float64(i) / float64(M))
	lo, hi := math.Max(u0-1e-13, -1), math.Min(u0+1e-13, 1)
	if !(ij(lo) < i && ij(hi) >= i) {
		return u0
	}
	for k := 0; k < 80; k++ {
		mid := lo + (hi-lo)/2
		if mid == lo || mid == hi {
			break
		}
		if ij(mid) >= i {
			hi = mid
		} else {
			lo = mid
		}
	}
	g.c.Class("u:jump-of-stToIJ∘uvToST")
	return []float64{lo, hi, vkit.Ulps(lo, -1), vkit.Ulps(hi, 1)}[g.rng.Intn(4)]
}

func (g *gen) pointSet() [][3]float64 {
	var ps [][3]float64
	add := func(x, y, z float64, class string) {
		if (x == 0 && y == 0 && z == 0) || math.IsNaN(x+y+z) || math.IsInf(x+y+z, 0) {
			return
		}
		ps = append(ps, [3]float64{x, y, z})
		g.c.Class("point:" + class)
	}
	nz := math.Copysign(0, -1)
	sg := []float64{1, -1}
	// fixed corpus: points for which CellFromPoint(p).ContainsPoint(p) was false on the unchanged
	// tree: known finding Cell.ContainsPoint.leafMargin (u is 1.25*dblEpsilon outside the leaf's own uv bound)
	for _, b := range [][3]uint64{{0x3fc7eb16c58621d8, 0xbfec3f608ffa12fd, 0x3fdb975da6a83768}, {0x3fbdcfd5bce2da59, 0xbfed378ae57d57b2, 0x3fd904c1fabf622e}} {
		add(math.Float64frombits(b[0]), math.Float64frombits(b[1]), math.Float64frombits(b[2]), "corpus:leafMargin")
	}
	for _, u := range []float64{-0.48838316906296292, -0.4599809319023768} {
		for f := 0; f < 6; f++ {
			r := s2.VerifC01FaceUVToXYZ(f, u, g.rng.Range(-1, 1))
			add(r.X, r.Y, r.Z, "corpus:leafMargin")
			r = s2.VerifC01FaceUVToXYZ(f, g.jumpU(), u)
			add(r.X, r.Y, r.Z, "corpus:leafMargin")
		}
	}
	// cube corners, edge midpoints, face centres, with +-0
	for _, x := range []float64{1, -1, 0, nz} {
		for _, y := range []float64{1, -1, 0, nz} {
			for _, z := range []float64{1, -1, 0, nz} {
				if g.rng.Intn(2) == 0 || g.budget >= 8 {
					add(x, y, z, "cube-corner/edge/centre,+-0")
				}
			}
		}
	}
	n := 90 * g.budget
	for q := 0; q < n; q++ {
		f := g.rng.Intn(6)
		// u or v on a grid line +- ulps, the other random or also on a grid line
		u, v := g.gridU(), g.rng.Range(-1, 1)
		if g.rng.Intn(2) == 0 {
			u = g.jumpU()
		}
		switch g.rng.Intn(4) {
		case 0:
			v = g.gridU()
		case 1:
			v = g.jumpU()
		}
		if g.rng.Bool() {
			u, v = v, u
		}
		r := s2.VerifC01FaceUVToXYZ(f, u, v)
		add(r.X, r.Y, r.Z, "grid-line±ulp")
		if g.rng.Intn(3) == 0 {
			sc := []float64{0.5, 3, 1e-3, 1e-160, 1e150, 7e-310, 0x1p-1060}[g.rng.Intn(7)]
			add(r.X*sc, r.Y*sc, r.Z*sc, "grid-line±ulp,scaled")
		}
		if g.rng.Intn(3) == 0 {
			nrm := r.Normalize()
			add(nrm.X, nrm.Y, nrm.Z, "grid-line±ulp,normalized")
		}
	}
	for q := 0; q < 12*g.budget; q++ {
		// face ties |x| = |y| (and = |z|), with neighbours
		a := g.rng.Range(0.1, 1)
		b := g.rng.Range(-1, 1) * a
		sx, sy, sz := sg[g.rng.Intn(2)], sg[g.rng.Intn(2)], sg[g.rng.Intn(2)]
		switch g.rng.Intn(5) {
		case 0:
			add(sx*a, sy*a, b, "face-tie")
		case 1:
			add(sx*a, b, sz*a, "face-tie")
		case 2:
			add(b, sy*a, sz*a, "face-tie")
		case 3:
			add(sx*a, sy*a, sz*a, "face-tie-3")
		default:
			add(sx*a, sy*vkit.Ulps(a, g.rng.Intn(3)-1), sz*vkit.Ulps(a, g.rng.Intn(3)-1), "face-tie±ulp")
		}
	}
	for q := 0; q < 10*g.budget; q++ {
		p := r3.Vector{X: g.rng.Range(-1, 1), Y: g.rng.Range(-1, 1), Z: g.rng.Range(-1, 1)}
		if g.rng.Bool() {
			p = p.Normalize()
		}
		add(p.X, p.Y, p.Z, "random")
		sc := []float64{5e-324, 1e-320, 1e-308, 1e300}[g.rng.Intn(4)]
		add(p.X*sc, p.Y*sc, p.Z*sc, "random,extreme-scale")
	}
	return ps
}

func (g *gen) pointCases() {
	for _, p := range g.pointSet() {
		x, y, z := p[0], p[1], p[2]
		pt := s2.Point{Vector: r3.Vector{X: x, Y: y, Z: z}}
		key := fmt.Sprintf("%x/%x/%x", math.Float64bits(x), math.Float64bits(y), math.Float64bits(z))
		f, u, v := s2.VerifC01XYZToFaceUV(pt.Vector)
		leaf := s2.VerifC01CellIDFromPoint(pt)
		g.c.Eval("point:"+key, true)
		g.c.Sample(map[string]interface{}{"type": "point", "p": p, "face": f, "u": u, "v": v, "leaf": fmt.Sprintf("%016x", uint64(leaf))})
		args := []string{vkit.F(x), vkit.F(y), vkit.F(z)}
		g.c.Check("point.z "+key, zlEq(vkit.App("c01_point_z", args...), zlist(zi(f), zi(s2.VerifC01Face(pt.Vector)), zc(leaf))))
		g.c.Check("point.uv "+key, flEq(vkit.App("c01_point_f", args...), floats(u, v)))
		// ContainsPoint of the leaf and of ancestors: a seeded third of the levels in [T], all 31 in [S]
		var lv, want []string
		for l := 0; l <= 30; l++ {
			cell := s2.CellFromCellID(leaf.Parent(l))
			in := cell.ContainsPoint(pt)
			if !in {
				g.violate(containFailKind(pt, leaf.Parent(l), "Point.AncestorContains"), fmt.Sprintf("the level-%d ancestor of CellFromPoint(p) does not contain p", l),
					map[string]interface{}{"p": p, "bits": key, "leaf": fmt.Sprintf("%016x", uint64(leaf)), "level": l})
			}
			if l == 30 || l == 0 || (l+int(g.c.Seed))%3 == 0 {
				lv = append(lv, zi(l))
				want = append(want, zi(b2i(in)))
			}
		}
		g.c.Check("point.contains "+key, zlEq(vkit.App("c01_point_contains", append(args, vkit.List(lv))...), vkit.List(want)))
		g.searchPoint(pt, leaf, f)
		// ContainsPoint of neighbouring / unrelated cells (both answers occur)
		for q := 0; q < 2; q++ {
			l := g.rng.Intn(31)
			other := leaf.Parent(l)
			switch g.rng.Intn(3) {
			case 0:
				other = other.Next()
			case 1:
				other = other.EdgeNeighbors()[g.rng.Intn(4)]
			default:
				other = other.Prev()
			}
			if !other.IsValid() {
				continue
			}
			in := s2.CellFromCellID(other).ContainsPoint(pt)
			g.c.Check(fmt.Sprintf("contains %016x %s", uint64(other), key), vkit.App("Z.eqb", vkit.App("c01_contains", append([]string{zc(other)}, args...)...), zi(b2i(in))))
		}
	}
	// faceUVToXYZ
	for f := -1; f < 7; f++ {
		u, v := g.rng.Range(-1, 1), g.rng.Range(-1, 1)
		r := s2.VerifC01FaceUVToXYZ(f, u, v)
		g.c.Check(fmt.Sprintf("faceUVToXYZ %d", f), flEq(vkit.App("c01_faceuv_xyz", zi(f), vkit.F(u), vkit.F(v)), floats(r.X, r.Y, r.Z)))
	}
}

var _ = r2.Point{}
