package main

import (
	"fmt"
	"sort"
	"strings"

	"github.com/golang/geo/s2"
	"verifharness/internal/vkit"
)

// tableSet collects, for one observed case, the answers of the predicates below the relation
// layer, keyed the way Model/RelTable.v looks them up.
type tableSet struct {
	cross, occw, contains, sub, bi, uf, psub, plng, pbi map[string]string
}

func newTables() *tableSet {
	m := func() map[string]string { return map[string]string{} }
	return &tableSet{m(), m(), m(), m(), m(), m(), m(), m(), m()}
}

func zkey(ids ...int64) string {
	s := make([]string, len(ids))
	for i, x := range ids {
		s[i] = vkit.Z(x)
	}
	return "[" + strings.Join(s, "; ") + "]"
}

func loopKeyIDs(v *lv) []int64 { return append([]int64{int64(v.kind)}, v.ids...) }
func pairKeyIDs(x, y *lv) []int64 {
	k := append([]int64{}, loopKeyIDs(x)...)
	k = append(k, -9)
	return append(k, loopKeyIDs(y)...)
}

func crossName(c s2.Crossing) string {
	switch c {
	case s2.Cross:
		return "Cross"
	case s2.MaybeCross:
		return "Maybe"
	}
	return "DoNotCross"
}

// addPair records everything the model may ask about the ordered pair (x, y).
func (t *tableSet) addPair(x, y *lv) {
	// CrossingSign for every edge pair, sparse (DoNotCross is the default)
	for i := 0; i < x.numEdges(); i++ {
		for j := 0; j < y.numEdges(); j++ {
			a, b, c, d := x.at(i), x.at(i+1), y.at(j), y.at(j+1)
			if s := s2.CrossingSign(a, b, c, d); s != s2.DoNotCross {
				t.cross[zkey(x.ids[i], x.ids[(i+1)%x.n()], y.ids[j], y.ids[(j+1)%y.n()])] = crossName(s)
			}
		}
	}
	// OrderedCCW around every shared vertex for all triples of the four neighbours
	for _, s := range sharedVertices(x, y) {
		nb := []int{0, 1, 2, 3}
		pt := []s2.Point{x.at(s.i - 1), x.at(s.i + 1), y.at(s.j - 1), y.at(s.j + 1)}
		n, m := x.n(), y.n()
		id := []int64{x.ids[(s.i-1+n)%n], x.ids[(s.i+1)%n], y.ids[(s.j-1+m)%m], y.ids[(s.j+1)%m]}
		v := x.at(s.i)
		for _, a := range nb {
			for _, b := range nb {
				for _, c := range nb {
					t.occw[zkey(id[a], id[b], id[c], x.ids[s.i])] = vkit.B(s2.OrderedCCW(pt[a], pt[b], pt[c], v))
				}
			}
		}
	}
	// ContainsPoint of the other loop's vertices 0 and 1
	for _, k := range []int{0, 1} {
		if k < y.n() {
			key := append([]int64{y.ids[k]}, loopKeyIDs(x)...)
			t.contains[zkey(key...)] = vkit.B(x.loop.ContainsPoint(y.at(k)))
		}
	}
	b := loopBounds(x, y)
	pk := zkey(pairKeyIDs(x, y)...)
	t.sub[pk], t.bi[pk], t.uf[pk] = vkit.B(b.sub), vkit.B(b.bi), vkit.B(b.uf)
}

func tblTerm(m map[string]string) string {
	keys := make([]string, 0, len(m))
	for k := range m {
		keys = append(keys, k)
	}
	sort.Strings(keys)
	xs := make([]string, len(keys))
	for i, k := range keys {
		xs[i] = "(" + k + ", " + m[k] + ")"
	}
	return "[" + strings.Join(xs, "; ") + "]"
}

func (t *tableSet) term() string {
	return vkit.App("mk_tables", tblTerm(t.cross), tblTerm(t.occw), tblTerm(t.contains), tblTerm(t.sub),
		tblTerm(t.bi), tblTerm(t.uf), tblTerm(t.psub), tblTerm(t.plng), tblTerm(t.pbi))
}

func loopTerm(v *lv) string {
	switch v.kind {
	case 0:
		return "t_empty"
	case 1:
		return "t_full"
	}
	return vkit.App("normal", zkey(v.ids...))
}

func b2z(b bool) int64 {
	if b {
		return 1
	}
	return 0
}

func safeInt(f func() int) (r int) {
	defer func() {
		if recover() != nil {
			r = -99
		}
	}()
	return f()
}
func safeBool(f func() bool) int64 {
	return int64(safeInt(func() int { return int(b2z(f())) }))
}

// relAnswers runs the real code on the ordered pair (x, y), in the order of rel_answers.
func relAnswers(x, y *lv) []int64 {
	out := []int64{
		safeBool(func() bool { return x.loop.Contains(y.loop) }),
		safeBool(func() bool { return x.loop.Intersects(y.loop) }),
	}
	skipBoundary := x.kind == 0 || y.kind == 0
	for _, hole := range []bool{false, true} {
		if skipBoundary || (y.kind == 1 && hole) {
			out = append(out, 7)
			continue
		}
		h := hole
		out = append(out, int64(safeInt(func() int { return s2.VerifC07CompareBoundary(x.loop, y.loop, h) })))
	}
	for _, rev := range []bool{false, true} {
		if skipBoundary || (y.kind == 1 && rev) {
			out = append(out, 7)
			continue
		}
		r := rev
		out = append(out, safeBool(func() bool { return s2.VerifC07ContainsNonCrossingBoundary(x.loop, y.loop, r) }))
	}
	out = append(out, safeBool(func() bool { return x.loop.ContainsNested(y.loop) }))
	return out
}

func zlist(xs []int64) string {
	s := make([]string, len(xs))
	for i, x := range xs {
		s[i] = vkit.Z(x)
	}
	return "[" + strings.Join(s, "; ") + "]"
}

func fmtIDs(v *lv) string { return fmt.Sprint(v.ids) }
