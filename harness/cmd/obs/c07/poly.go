package main

import (
	"bytes"
	"fmt"
	"strings"

	"github.com/golang/geo/s2"
	"verifharness/internal/vkit"
)

func loopsOf(vs [][]s2.Point) []*s2.Loop {
	out := make([]*s2.Loop, len(vs))
	for i, v := range vs {
		out[i] = s2.LoopFromPoints(append([]s2.Point{}, v...))
	}
	return out
}

// laminar: any two loops of the family are nested or disjoint (checked with the brute-force
// specification), and no edge is shared.
func laminar(pl *pool, ls []*lv) bool {
	for i := range ls {
		for j := range ls {
			if i == j {
				continue
			}
			if edgeCross(ls[i], ls[j]) {
				return false
			}
			for _, s := range sharedVertices(ls[i], ls[j]) {
				x, y := ls[i], ls[j]
				if x.at(s.i+1) == y.at(s.j+1) || x.at(s.i+1) == y.at(s.j-1) {
					return false // shared edge
				}
				if s2.WedgeIntersects(x.at(s.i-1), x.at(s.i), x.at(s.i+1), y.at(s.j-1), y.at(s.j+1)) &&
					!s2.WedgeContains(x.at(s.i-1), x.at(s.i), x.at(s.i+1), y.at(s.j-1), y.at(s.j+1)) &&
					!s2.WedgeContains(y.at(s.j-1), y.at(s.j), y.at(s.j+1), x.at(s.i-1), x.at(s.i+1)) {
					return false
				}
			}
		}
	}
	return true
}

// probe returns a vertex of loop i that is not a vertex of any other loop of the family.
func probe(ls []*lv, i int) (s2.Point, bool) {
	other := map[s2.Point]bool{}
	for j, l := range ls {
		if j != i {
			for _, p := range l.pts {
				other[p] = true
			}
		}
	}
	for _, p := range ls[i].pts {
		if !other[p] {
			return p, true
		}
	}
	return s2.Point{}, false
}

func memberPoly(ls []*lv, p s2.Point) bool {
	in := false
	for _, l := range ls {
		if member(l, p) {
			in = !in
		}
	}
	return in
}

func polyLvs(pl *pool, p *s2.Polygon) []*lv {
	out := []*lv{}
	for _, l := range p.Loops() {
		out = append(out, pl.mk(l))
	}
	return out
}

func polyTerm(p *s2.Polygon, ls []*lv) string {
	xs := []string{}
	for i, l := range ls {
		xs = append(xs, fmt.Sprintf("(%s, %d%%nat)", loopTerm(l), s2.VerifC07LoopDepth(p.Loop(i))))
	}
	return "[" + strings.Join(xs, "; ") + "]"
}

func polyKeyIDs(p *s2.Polygon, ls []*lv) []int64 {
	k := []int64{}
	for i, l := range ls {
		k = append(k, -8, int64(s2.VerifC07LoopDepth(p.Loop(i))))
		k = append(k, loopKeyIDs(l)...)
	}
	return k
}

func clonePolygon(p *s2.Polygon) *s2.Polygon {
	if p.IsFull() {
		return s2.FullPolygon()
	}
	ls := []*s2.Loop{}
	for _, l := range p.Loops() {
		ls = append(ls, s2.LoopFromPoints(append([]s2.Point{}, l.Vertices()...)))
	}
	if len(ls) == 0 {
		return &s2.Polygon{}
	}
	return s2.PolygonFromLoops(ls)
}

func invertedPolygon(p *s2.Polygon) *s2.Polygon {
	q := clonePolygon(p)
	q.Invert()
	return q
}

func doPolygons(c *vkit.Collector, rng *vkit.Rng, k int) {
	pl := newPool()
	var fam family
	var ls []*lv
	for {
		fam = familyGen(rng, 6)
		ls = nil
		for _, l := range loopsOf(fam.loops) {
			ls = append(ls, pl.mk(l))
		}
		if laminar(pl, ls) {
			break
		}
	}
	c.Class("family:" + fam.class)
	c.Class(fmt.Sprintf("family-size:%d", len(ls)))
	doNesting(c, rng, pl, fam, ls, true, nil)
	if len(ls) >= 2 {
		doHistory(c, rng, pl, fam, ls, k)
	}

	// a second polygon: a sub-family (shares whole loops with the first), another family, or one loop
	var other [][]s2.Point
	switch rng.Intn(4) {
	case 0, 1:
		for _, l := range fam.loops {
			if rng.Bool() {
				other = append(other, l)
			}
		}
		if len(other) == 0 {
			other = fam.loops[:1]
		}
	case 2:
		for {
			f2 := familyGen(rng, 4)
			l2 := []*lv{}
			for _, l := range loopsOf(f2.loops) {
				l2 = append(l2, pl.mk(l))
			}
			if laminar(pl, l2) {
				other = f2.loops
				break
			}
		}
	default:
		a, _, _ := pairGen(rng, 12)
		other = [][]s2.Point{a}
	}
	sub := [][]s2.Point{}
	for _, l := range fam.loops {
		if rng.Intn(4) != 0 {
			sub = append(sub, l)
		}
	}
	if len(sub) == 0 {
		sub = fam.loops[:1]
	}
	P := s2.PolygonFromLoops(loopsOf(sub))
	O := s2.PolygonFromLoops(loopsOf(other))
	doPolygonPair(c, rng, pl, P, O, fam.class, k%2 == 0)
	if k%3 == 0 {
		doDecodedPolygons(c, rng, pl, k)
	}

	// arbitrary (possibly crossing) loops through PolygonFromLoops: the nesting model must still agree
	if k%4 == 0 {
		a, b, _ := pairGen(rng, 12)
		d, _, _ := pairGen(rng, 12)
		arb := family{loops: [][]s2.Point{a, b, d}, class: "arbitrary loops"}
		al := []*lv{}
		for _, l := range loopsOf(arb.loops) {
			al = append(al, pl.mk(l))
		}
		doNesting(c, rng, pl, arb, al, false, nil)
	}
}

// doNesting: PolygonFromLoops on a shuffled order; depth = number of enclosing loops; pre-order.
// objs, if not nil, are the loop objects to pass (they may carry stale depths from earlier polygons or
// from Decode); otherwise fresh copies are made.
func doNesting(c *vkit.Collector, rng *vkit.Rng, pl *pool, fam family, ls []*lv, laminarFamily bool, objs []*s2.Loop) {
	n := len(ls)
	perm := shuffle(rng, n)
	in := make([]*s2.Loop, n)    // input slice, position = id in the model
	inLv := make([]*lv, n)
	stored := []string{}
	for pos, src := range perm {
		if objs != nil {
			in[pos] = objs[src]
		} else {
			in[pos] = clone(ls[src])
		}
		inLv[pos] = pl.mk(in[pos])
		d := s2.VerifC07LoopDepth(in[pos])
		if d != 0 {
			c.Class("nest: input loop with stale depth")
		}
		if d < 0 {
			d = 0
		}
		stored = append(stored, fmt.Sprintf("%d%%nat", d))
	}
	// ContainsNested matrix, recorded before construction
	rows := []string{}
	for i := 0; i < n; i++ {
		r := []string{}
		for j := 0; j < n; j++ {
			r = append(r, vkit.B(i != j && in[i].ContainsNested(in[j])))
		}
		rows = append(rows, "["+strings.Join(r, "; ")+"]")
	}
	idOf := map[*s2.Loop]int{}
	for i, l := range in {
		idOf[l] = i
	}
	p := s2.PolygonFromLoops(append([]*s2.Loop{}, in...))
	exp := []string{}
	order := []int{}
	depth := map[int]int{}
	for _, l := range p.Loops() {
		id := idOf[l]
		order = append(order, id)
		depth[id] = s2.VerifC07LoopDepth(l)
		exp = append(exp, fmt.Sprintf("(%d, %d)", id, depth[id]))
	}
	key := fmt.Sprintf("nest %s %v %v", fam.class, perm, coords(ls[0].pts))
	c.Eval(key, n > 1)
	c.Check(fmt.Sprintf("nest %s n=%d perm=%v", fam.class, n, perm),
		vkit.App("nest_check", "["+strings.Join(rows, "; ")+"]", fmt.Sprintf("%d%%nat", n), "["+strings.Join(stored, "; ")+"]", "(["+strings.Join(exp, "; ")+"] : list (nat * nat))"))
	if !laminarFamily {
		return
	}
	replay := map[string]interface{}{"class": fam.class, "perm": perm}
	lo := [][][3]float64{}
	for _, l := range inLv {
		lo = append(lo, coords(l.pts))
	}
	replay["loops_in_input_order"] = lo
	replay["stored_depths_before"] = stored
	if len(order) != n {
		c.Violate("Polygon.initNested.count", "PolygonFromLoops lost or duplicated a loop", replay)
		return
	}
	// the assembled polygon is well formed: accepted by Validate, non-empty bound, hasHoles = some odd depth
	if err := p.Validate(); err != nil {
		c.Violate("Polygon.initNested.validate", fmt.Sprintf("Validate rejects a polygon built from a laminar family of valid loops: %v (%s)", err, fam.class), replay)
	}
	if p.RectBound().IsEmpty() {
		c.Violate("Polygon.initNested.bound", "non-empty polygon has an empty bound ("+fam.class+")", replay)
	}
	anyOdd := false
	for _, d := range depth {
		if d%2 == 1 {
			anyOdd = true
		}
	}
	if s2.VerifC07PolygonHasHoles(p) != anyOdd {
		c.Violate("Polygon.initNested.hasHoles", fmt.Sprintf("hasHoles=%v but some loop has odd depth: %v (%s)", s2.VerifC07PolygonHasHoles(p), anyOdd, fam.class), replay)
	}
	// independent depth: number of other loops containing a private vertex
	pos := map[int]int{}
	for q, id := range order {
		pos[id] = q
	}
	for id := 0; id < n; id++ {
		pr, ok := probe(inLv, id)
		if !ok {
			continue
		}
		enclosing := []int{}
		for j := 0; j < n; j++ {
			if j != id && member(inLv[j], pr) {
				enclosing = append(enclosing, j)
			}
		}
		if depth[id] != len(enclosing) {
			c.Violate("Polygon.initNested.depth", fmt.Sprintf("loop %d has depth %d but %d other loops enclose it (%s)", id, depth[id], len(enclosing), fam.class), replay)
		}
		if in[id].IsHole() != (len(enclosing)%2 == 1) {
			c.Violate("Polygon.initNested.hole", fmt.Sprintf("loop %d: IsHole=%v but %d other loops enclose it (%s)", id, in[id].IsHole(), len(enclosing), fam.class), replay)
		}
		for _, j := range enclosing {
			if pos[j] > pos[id] {
				c.Violate("Polygon.initNested.order", fmt.Sprintf("loop %d is listed before its ancestor %d (%s)", id, j, fam.class), replay)
			}
		}
		// pre-order: the nearest preceding loop of depth-1 is the parent and must enclose it
		if depth[id] > 0 {
			for q := pos[id] - 1; q >= 0; q-- {
				if depth[order[q]] == depth[id]-1 {
					if !member(inLv[order[q]], pr) {
						c.Violate("Polygon.initNested.order", fmt.Sprintf("loop %d follows loop %d of depth-1 which does not enclose it (%s)", id, order[q], fam.class), replay)
					}
					break
				}
				if depth[order[q]] < depth[id]-1 {
					c.Violate("Polygon.initNested.order", fmt.Sprintf("loop %d is not in the subtree of a loop of depth-1 (%s)", id, fam.class), replay)
					break
				}
			}
		}
	}
	// PolygonFromOrientedLoops on another shuffle: holes given clockwise; same polygon expected
	perm2 := shuffle(rng, n)
	oriented := []*s2.Loop{}
	for _, src := range perm2 {
		l := clone(inLv[src])
		if depth[src]%2 == 1 {
			l.Invert()
		}
		oriented = append(oriented, l)
	}
	po := s2.PolygonFromOrientedLoops(oriented)
	if po.NumLoops() != n {
		c.Violate("Polygon.oriented.count", "PolygonFromOrientedLoops lost or duplicated a loop", replay)
		return
	}
	for _, l := range po.Loops() {
		found := false
		for id, orig := range in {
			if l.BoundaryEqual(orig) {
				found = true
				if s2.VerifC07LoopDepth(l) != depth[id] {
					c.Violate("Polygon.oriented.depth", fmt.Sprintf("PolygonFromOrientedLoops gives loop %d depth %d, PolygonFromLoops %d (%s)", id, s2.VerifC07LoopDepth(l), depth[id], fam.class), replay)
				}
			}
		}
		if !found {
			c.Violate("Polygon.oriented.loops", "PolygonFromOrientedLoops result has a loop that is not one of the inputs (as CCW loop) ("+fam.class+")", replay)
		}
	}
}

func doPolygonPair(c *vkit.Collector, rng *vkit.Rng, pl *pool, P, O *s2.Polygon, class string, coq bool) {
	iP, iO := invertedPolygon(P), invertedPolygon(O)
	type pv struct {
		name string
		p    *s2.Polygon
		ls   []*lv
	}
	mk := func(name string, p *s2.Polygon) pv { return pv{name, p, polyLvs(pl, p)} }
	vp := []pv{mk("P", P), mk("inv(P)", iP)}
	vo := []pv{mk("O", O), mk("inv(O)", iO)}
	inv := map[*s2.Polygon]*s2.Polygon{P: iP, iP: P, O: iO, iO: O}
	replay := map[string]interface{}{"class": class}
	for _, x := range append(append([]pv{}, vp...), vo...) {
		lo := [][][3]float64{}
		for _, l := range x.ls {
			lo = append(lo, coords(l.pts))
		}
		replay[x.name] = lo
	}
	c.Class(fmt.Sprintf("polypair:%d/%d loops", P.NumLoops(), O.NumLoops()))
	if s2.VerifC07PolygonHasHoles(P) || s2.VerifC07PolygonHasHoles(O) {
		c.Class("polypair:with holes")
	}
	var all []*lv
	for _, x := range vp[:1] {
		all = append(all, x.ls...)
	}
	all = append(all, vo[0].ls...)
	samples := sampleFrom(rng, all...)
	viol := func(kind, desc, xn, yn string) {
		r := map[string]interface{}{"X": xn, "Y": yn}
		for k, v := range replay {
			r[k] = v
		}
		report(c, kind, desc+" ["+class+", X="+xn+", Y="+yn+"]", r)
	}
	pairs := [][2]pv{}
	for _, x := range vp {
		for _, y := range vo {
			pairs = append(pairs, [2]pv{x, y}, [2]pv{y, x})
		}
	}
	for _, xy := range pairs {
		x, y := xy[0], xy[1]
		cont, isect := x.p.Contains(y.p), x.p.Intersects(y.p)
		c.Eval(fmt.Sprintf("poly %s %s %s %v", class, x.name, y.name, replay["P"]), x.p.NumLoops()+y.p.NumLoops() > 2)
		if isect != y.p.Intersects(x.p) {
			viol("Polygon.Intersects.sym", "X.Intersects(Y) != Y.Intersects(X)", x.name, y.name)
		}
		if isect != !inv[x.p].Contains(y.p) {
			viol("Polygon.Intersects.compl", "X.Intersects(Y) != !Inv(X).Contains(Y)", x.name, y.name)
		}
		if cont != inv[y.p].Contains(inv[x.p]) {
			viol("Polygon.Contains.compl", "X.Contains(Y) != Inv(Y).Contains(Inv(X))", x.name, y.name)
		}
		for _, p := range samples {
			mx, my := memberPoly(x.ls, p), memberPoly(y.ls, p)
			if cont && my && !mx {
				viol("Polygon.Contains.pointset", fmt.Sprintf("X.Contains(Y) but point %v of Y is outside X", [3]float64{p.X, p.Y, p.Z}), x.name, y.name)
				break
			}
			if !isect && mx && my {
				viol("Polygon.Intersects.pointset", fmt.Sprintf("!X.Intersects(Y) but point %v is in both", [3]float64{p.X, p.Y, p.Z}), x.name, y.name)
				break
			}
		}
		if coq {
			t := newTables()
			for _, a := range x.ls {
				for _, b := range y.ls {
					t.addPair(a, b)
					t.addPair(b, a)
				}
			}
			xb, xs := s2.VerifC07PolygonBounds(x.p)
			yb, ys := s2.VerifC07PolygonBounds(y.p)
			kxy := zkey(append(append(polyKeyIDs(x.p, x.ls), -7), polyKeyIDs(y.p, y.ls)...)...)
			kyx := zkey(append(append(polyKeyIDs(y.p, y.ls), -7), polyKeyIDs(x.p, x.ls)...)...)
			t.psub[kxy], t.psub[kyx] = vkit.B(xs.Contains(yb)), vkit.B(ys.Contains(xb))
			t.plng[kxy], t.plng[kyx] = vkit.B(xb.Lng.Union(yb.Lng).IsFull()), vkit.B(yb.Lng.Union(xb.Lng).IsFull())
			t.pbi[kxy], t.pbi[kyx] = vkit.B(xb.Intersects(yb)), vkit.B(yb.Intersects(xb))
			exp := []int64{b2z(cont), b2z(y.p.Contains(x.p)), b2z(isect), b2z(y.p.Intersects(x.p))}
			c.Check(fmt.Sprintf("polygons %s %s(%d loops) %s(%d loops)", class, x.name, x.p.NumLoops(), y.name, y.p.NumLoops()),
				vkit.App("poly_check", t.term(), polyTerm(x.p, x.ls), polyTerm(y.p, y.ls), zlist(exp)))
		}
	}
	for _, x := range append(append([]pv{}, vp...), vo...) {
		if !x.p.Contains(x.p) {
			viol("Polygon.Contains.refl", "!X.Contains(X)", x.name, x.name)
		}
		if !x.p.IsEmpty() && !x.p.Intersects(x.p) {
			viol("Polygon.Intersects.refl", "non-empty X does not intersect itself", x.name, x.name)
		}
	}
}

// decodedCopy round-trips a loop through Encode/Decode (the depth field travels along).
func decodedCopy(l *s2.Loop) *s2.Loop {
	var buf bytes.Buffer
	if err := l.Encode(&buf); err != nil {
		return nil
	}
	out := new(s2.Loop)
	if err := out.Decode(&buf); err != nil {
		return nil
	}
	return out
}

// doHistory: loops that have already served in a polygon (and so carry its depths) are re-used —
// the same *Loop, and copies obtained by Encode/Decode — alone and inside other sub-families, i.e.
// in different nesting positions. Every polygon so constructed must be as if built from fresh loops.
func doHistory(c *vkit.Collector, rng *vkit.Rng, pl *pool, fam family, ls []*lv, k int) {
	n := len(ls)
	used := make([]*s2.Loop, n)
	for i := range ls {
		used[i] = clone(ls[i])
	}
	first := s2.PolygonFromLoops(append([]*s2.Loop{}, used...)) // stamps the depths
	holes := 0
	decoded := make([]*s2.Loop, n)
	enc := make([][]byte, n) // the loops as encoded while members of [first]: depth included
	for i := range used {
		if used[i].IsHole() {
			holes++
		}
		var buf bytes.Buffer
		if err := used[i].Encode(&buf); err != nil {
			return
		}
		enc[i] = buf.Bytes()
		decoded[i] = decodeLoop(enc[i])
		if decoded[i] == nil {
			return
		}
	}
	if holes > 0 {
		c.Class("history: family with holes re-used")
	}
	// the other operand for the laws: a multi-loop polygon (fresh copy of the whole family), and two shells
	whole := clonePolygon(first)
	far := s2.Point{Vector: ls[0].pts[0].Mul(-1)}
	twoShells := s2.PolygonFromLoops([]*s2.Loop{clone(ls[rng.Intn(n)]), s2.LoopFromPoints(regularPts(far, 3, 5))})
	for i := 0; i < n; i++ {
		for v, obj := range []*s2.Loop{decoded[i], used[i]} {
			name := []string{"decoded copy", "same *Loop"}[v]
			one := family{loops: [][]s2.Point{fam.loops[i]}, class: "history/" + name + " of a former member, alone"}
			c.Class(one.class)
			staleHole := obj.IsHole()
			// (obj keeps its stale depth until PolygonFromLoops sees it)
			doNesting(c, rng, pl, one, []*lv{ls[i]}, true, []*s2.Loop{obj})
			if staleHole && (i+k)%2 == 0 {
				// relations of such a single-loop polygon against multi-loop polygons
				q := s2.PolygonFromLoops([]*s2.Loop{decodeLoop(enc[i])})
				other := whole
				if rng.Bool() {
					other = twoShells
				}
				doPolygonPair(c, rng, pl, q, other, one.class, false)
			}
		}
	}
	// sub-families in other nesting positions, built from loops carrying the depths of [first]
	for t := 0; t < 2; t++ {
		var subLs []*lv
		var subObj []*s2.Loop
		var subPts [][]s2.Point
		for i := 0; i < n; i++ {
			if rng.Bool() {
				cp := decodeLoop(enc[i]) // carries the depth it had in [first]
				subLs = append(subLs, ls[i])
				subObj = append(subObj, cp)
				subPts = append(subPts, fam.loops[i])
			}
		}
		if len(subLs) == 0 {
			continue
		}
		sf := family{loops: subPts, class: "history/sub-family of former members"}
		c.Class(sf.class)
		doNesting(c, rng, pl, sf, subLs, true, subObj)
	}
}

func decodeLoop(b []byte) *s2.Loop {
	out := new(s2.Loop)
	if err := out.Decode(bytes.NewReader(b)); err != nil {
		return nil
	}
	return out
}

// doDecodedPolygons: shell (+ hole) polygons on a ring grid with 8..100 vertices per loop, snapped or
// not, sent through Encode/Decode; the decoded polygon must be valid, carry sound cached rectangles
// and obey the laws against its original and against other polygons.
func doDecodedPolygons(c *vkit.Collector, rng *vkit.Rng, pl *pool, k int) {
	K := []int{8, 40, 64, 100}[rng.Intn(4)]
	nl := 1 + rng.Intn(3)
	g := newGrid(rng, K, nl+1, []float64{5, 30, 70}[rng.Intn(3)], false)
	var loops [][]s2.Point
	for i := 0; i < nl; i++ {
		v := g.ring(1, 0, constLevel(nl-i))
		if k%2 == 0 {
			v = snapPts(v)
		}
		if !validLoop(v) {
			return
		}
		loops = append(loops, v)
	}
	orig := s2.PolygonFromLoops(loopsOf(loops))
	dec, format := roundTrip(orig)
	if dec == nil {
		return
	}
	class := fmt.Sprintf("decoded polygon (%s, %d loops of %d vertices)", format, nl, K)
	c.Class("decoded polygon: " + format)
	replay := map[string]interface{}{"class": class}
	lo := [][][3]float64{}
	for _, l := range loops {
		lo = append(lo, coords(l))
	}
	replay["loops"] = lo
	if err := dec.Validate(); err != nil {
		c.Violate("Polygon.decoded.validate", fmt.Sprintf("Decode(Encode(P)) is not valid: %v [%s]", err, class), replay)
	}
	if bd, sub := s2.VerifC07PolygonBounds(dec); !sub.Contains(bd) {
		c.Violate("Polygon.subregionBound", fmt.Sprintf("decoded polygon: subregionBound %v does not contain bound %v [%s]", sub, bd, class), replay)
	}
	for i, l := range dec.Loops() {
		if bd, sub := s2.VerifC07LoopBounds(l); !sub.Contains(bd) {
			c.Violate("Loop.subregionBound", fmt.Sprintf("decoded polygon loop %d: subregionBound %v does not contain bound %v [%s]", i, sub, bd, class), replay)
		}
		if s2.VerifC07LoopDepth(l) != s2.VerifC07LoopDepth(orig.Loop(i)) || !l.Equal(orig.Loop(i)) {
			c.Violate("Polygon.decoded.loops", fmt.Sprintf("decoded loop %d differs from the original in vertices or depth [%s]", i, class), replay)
		}
	}
	// the decoded polygon and its original are the same region
	if !dec.Contains(orig) || !orig.Contains(dec) || !dec.Intersects(orig) {
		c.Violate("Polygon.decoded.same", fmt.Sprintf("P and Decode(Encode(P)) do not contain each other: dec.Contains(orig)=%v orig.Contains(dec)=%v [%s]", dec.Contains(orig), orig.Contains(dec), class), replay)
	}
	doPolygonPair(c, rng, pl, dec, orig, class, false)
	// against a small triangle inside the outer ring band and a sub-polygon
	inner := s2.PolygonFromLoops([]*s2.Loop{s2.LoopFromPoints(g.ring(K/3+1, 0, constLevel(0))[:3])})
	doPolygonPair(c, rng, pl, dec, inner, class, false)
	doPolygonPair(c, rng, pl, inner, dec, class, false)
}
