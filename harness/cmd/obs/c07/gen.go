package main

import (
	"math"

	"github.com/golang/geo/r3"
	"github.com/golang/geo/s1"
	"github.com/golang/geo/s2"
	"verifharness/internal/vkit"
)

// grid is a common vertex pool: K azimuths around a centre, L radius levels per azimuth.
// Loops drawn from one grid share vertices (same azimuth and level) and whole edges
// (consecutive azimuths, same levels) bit for bit.
type grid struct {
	c, u, w s2.Point
	K, L    int
	az      []float64 // strictly increasing azimuths in [0, 2pi)
	rad     []float64 // strictly increasing angular radii (radians), all < pi/2
	pts     [][]s2.Point
}

func randPoint(rng *vkit.Rng) s2.Point {
	for {
		v := r3.Vector{X: rng.Range(-1, 1), Y: rng.Range(-1, 1), Z: rng.Range(-1, 1)}
		if n := v.Norm2(); n > 0.01 && n < 1 {
			return s2.Point{Vector: v.Normalize()}
		}
	}
}

func newGrid(rng *vkit.Rng, K, L int, maxRadDeg float64, jitter bool) *grid {
	g := &grid{K: K, L: L}
	g.c = randPoint(rng)
	switch rng.Intn(6) { // some centres at poles / face centres / face edges
	case 0:
		g.c = s2.PointFromCoords(0, 0, 1)
	case 1:
		g.c = s2.PointFromCoords(1, 1, 0)
	}
	g.u = s2.Ortho(g.c)
	g.w = s2.Point{Vector: g.c.Cross(g.u.Vector).Normalize()}
	for k := 0; k < K; k++ {
		a := 2 * math.Pi * float64(k) / float64(K)
		if jitter {
			a += rng.Range(-0.3, 0.3) * 2 * math.Pi / float64(K)
		}
		g.az = append(g.az, a)
	}
	minRad := maxRadDeg / float64(2*L+2)
	for l := 0; l < L; l++ {
		g.rad = append(g.rad, (minRad+(maxRadDeg-minRad)*float64(l+1)/float64(L))*math.Pi/180)
	}
	g.pts = make([][]s2.Point, K)
	for k := 0; k < K; k++ {
		g.pts[k] = make([]s2.Point, L)
		for l := 0; l < L; l++ {
			g.pts[k][l] = g.at(g.az[k], g.rad[l])
		}
	}
	return g
}

func (g *grid) at(az, rad float64) s2.Point {
	dir := g.u.Mul(math.Cos(az)).Add(g.w.Mul(math.Sin(az)))
	return s2.Point{Vector: g.c.Mul(math.Cos(rad)).Add(dir.Mul(math.Sin(rad))).Normalize()}
}

// ring: one vertex per chosen azimuth, level by the given function (star-shaped about the centre).
func (g *grid) ring(step, offset int, level func(k int) int) []s2.Point {
	var out []s2.Point
	for k := offset; k < g.K; k += step {
		out = append(out, g.pts[k][level(k)])
	}
	return out
}

// sector: the centre followed by the azimuths k0..k1 (inclusive) at the given levels.
func (g *grid) sector(k0, k1 int, level func(k int) int) []s2.Point {
	out := []s2.Point{g.c}
	for k := k0; k <= k1; k++ {
		out = append(out, g.pts[k%g.K][level(k%g.K)])
	}
	return out
}

func regularPts(center s2.Point, radDeg float64, n int) []s2.Point {
	return append([]s2.Point{}, s2.RegularLoop(center, s1.Angle(radDeg*math.Pi/180), n).Vertices()...)
}

// withMidpoints inserts the (rounded) midpoint of every edge: nearly the same region, with
// vertices that are collinear up to rounding.
func withMidpoints(v []s2.Point) []s2.Point {
	var out []s2.Point
	for i := range v {
		a, b := v[i], v[(i+1)%len(v)]
		out = append(out, a, s2.Point{Vector: a.Add(b.Vector).Normalize()})
	}
	return out
}

func cellPts(id s2.CellID) []s2.Point {
	return append([]s2.Point{}, s2.LoopFromCell(s2.CellFromCellID(id)).Vertices()...)
}

func reversed(v []s2.Point) []s2.Point {
	out := make([]s2.Point, len(v))
	for i := range v {
		out[len(v)-1-i] = v[i]
	}
	return out
}

// validLoop: >= 3 distinct vertices, no two non-adjacent edges cross (brute force with the
// exact predicates), no duplicate vertices.
func validLoop(v []s2.Point) bool {
	n := len(v)
	if n < 3 {
		return false
	}
	seen := map[s2.Point]bool{}
	for _, p := range v {
		if seen[p] {
			return false
		}
		seen[p] = true
	}
	if s2.LoopFromPoints(v).Validate() != nil {
		return false
	}
	if n > 120 {
		return true // star-shaped by construction; the quadratic check is kept for small loops
	}
	for i := 0; i < n; i++ {
		for j := i + 1; j < n; j++ {
			if s2.CrossingSign(v[i], v[(i+1)%n], v[j], v[(j+1)%n]) == s2.Cross {
				return false
			}
		}
	}
	return true
}

// pairGen returns two vertex lists and the class name of the construction.
func pairGen(rng *vkit.Rng, maxN int) (a, b []s2.Point, class string) {
	for {
		a, b, class = pairGen1(rng, maxN)
		if validLoop(a) && validLoop(b) && len(a) <= maxN && len(b) <= maxN {
			return
		}
	}
}

func pairGen1(rng *vkit.Rng, maxN int) (a, b []s2.Point, class string) {
	small := maxN <= 60
	K := 6 + rng.Intn(10)
	if !small {
		K = 100 + rng.Intn(maxN-100+1)
	}
	maxRad := []float64{0.5, 8, 40, 85}[rng.Intn(4)]
	if !small {
		maxRad = []float64{30, 60, 85}[rng.Intn(3)]
	}
	switch rng.Intn(12) {
	case 0: // two rings on one grid, independent random levels: crossings and shared vertices
		g := newGrid(rng, K, 3, maxRad, rng.Bool())
		la, lb := randLevels(rng, K, 3), randLevels(rng, K, 3)
		return g.ring(1, 0, la), g.ring(1, 0, lb), "ring/ring random levels"
	case 1: // nested rings sharing 1..k vertices and runs of edges: A outer (levels 1..2), B inner (0..1)
		g := newGrid(rng, K, 3, maxRad, rng.Bool())
		p := rng.Intn(4)
		la := func(k int) int { return 2 - bit(rng, p) }
		lb := func(k int) int { return bit(rng, p) }
		ta, tb := tabulate(K, la), tabulate(K, lb)
		return g.ring(1, 0, ta), g.ring(1, 0, tb), "ring/ring nested touching"
	case 2: // strictly nested, different vertex counts, no shared vertices
		g := newGrid(rng, K, 4, maxRad, rng.Bool())
		return g.ring(1, 0, constLevel(3)), g.ring(1+rng.Intn(2), 0, constLevel(rng.Intn(2))), "ring/ring nested"
	case 3: // B uses a subset of A's vertices (every 2nd): shared vertices, B inside A
		g := newGrid(rng, K, 2, maxRad, rng.Bool())
		return g.ring(1, 0, constLevel(1)), g.ring(2, 0, constLevel(1)), "ring/subring"
	case 4: // two sectors of one grid: share the centre and possibly boundary rays / arcs
		g := newGrid(rng, K, 2, maxRad, false)
		k0 := rng.Intn(K)
		k1 := k0 + 1 + rng.Intn(K/2)
		k2 := k0 + rng.Intn(K/2+1)
		if rng.Intn(3) == 0 {
			k2 = k1 // adjacent sectors: the ray k1 is a shared edge in opposite directions
		}
		k3 := k2 + 1 + rng.Intn(K/2)
		lv := randLevels(rng, K, 2)
		return g.sector(k0, k1, lv), g.sector(k2, k3, lv), "sector/sector"
	case 5: // sector against ring
		g := newGrid(rng, K, 3, maxRad, false)
		k0 := rng.Intn(K)
		k1 := k0 + 1 + rng.Intn(K/2)
		return g.sector(k0, k1, randLevels(rng, K, 3)), g.ring(1, 0, randLevels(rng, K, 3)), "sector/ring"
	case 6: // regular loops in general position: disjoint, crossing, nested, > hemisphere
		c := randPoint(rng)
		d := s2.Point{Vector: c.Add(randPoint(rng).Mul(rng.Range(0, 1.2))).Normalize()}
		na, nb := 3+rng.Intn(K), 3+rng.Intn(K)
		if !small {
			na, nb = K, 100+rng.Intn(maxN-100+1)
		}
		return regularPts(c, rng.Range(1, 120), na), regularPts(d, rng.Range(1, 120), nb), "regular/regular"
	case 7: // concentric regular loops, same vertex count: nested or (equal radius) identical
		c := randPoint(rng)
		n := 3 + rng.Intn(K)
		if !small {
			n = K
		}
		r := rng.Range(1, 100)
		r2 := r * rng.Range(0.3, 1)
		if rng.Intn(4) == 0 {
			r2 = r
		}
		return regularPts(c, r, n), regularPts(c, r2, n), "concentric regular"
	case 8: // cells: a cell against its parent, child, sibling, edge neighbour, or a random cell
		lvl := 1 + rng.Intn(12)
		id := s2.CellIDFromFacePosLevel(rng.Intn(6), rng.U64()>>3, lvl)
		var other s2.CellID
		switch rng.Intn(6) {
		case 0:
			other = id.Parent(lvl - 1)
		case 1:
			other = id.Children()[rng.Intn(4)]
		case 2:
			other = id.Parent(lvl - 1).Children()[rng.Intn(4)]
		case 3:
			other = id.EdgeNeighbors()[rng.Intn(4)]
		case 4:
			other = id.Children()[rng.Intn(4)].Children()[rng.Intn(4)]
		default:
			other = id
		}
		return cellPts(id), cellPts(other), "cell/cell"
	case 9: // a loop against the same loop with edge midpoints inserted, or rotated start
		g := newGrid(rng, K, 2, maxRad, rng.Bool())
		v := g.ring(1, 0, randLevels(rng, K, 2))
		if rng.Bool() && 2*len(v) <= maxN {
			return withMidpoints(v), v, "loop/loop+midpoints"
		}
		s := rng.Intn(len(v))
		return v, append(append([]s2.Point{}, v[s:]...), v[:s]...), "loop/rotated self"
	case 10: // ring against a regular loop elsewhere
		g := newGrid(rng, K, 3, maxRad, true)
		d := s2.Point{Vector: g.c.Add(randPoint(rng).Mul(rng.Range(0, 1.5))).Normalize()}
		return g.ring(1, 0, randLevels(rng, K, 3)), regularPts(d, rng.Range(0.5, 100), 3+rng.Intn(K)), "ring/regular"
	default: // two rings whose level patterns interleave regularly: many crossings
		g := newGrid(rng, K, 3, maxRad, false)
		return g.ring(1, 0, func(k int) int { return 2 * (k % 2) }), g.ring(1, 0, constLevel(1)), "zigzag/ring"
	}
}

func bit(rng *vkit.Rng, p int) int {
	if rng.Intn(4) < p {
		return 1
	}
	return 0
}
func constLevel(l int) func(int) int { return func(int) int { return l } }
func tabulate(K int, f func(int) int) func(int) int {
	t := make([]int, K)
	for k := range t {
		t[k] = f(k)
	}
	return func(k int) int { return t[k] }
}
func randLevels(rng *vkit.Rng, K, L int) func(int) int {
	return tabulate(K, func(int) int { return rng.Intn(L) })
}

// ---- laminar families and polygons ----

// family is a list of loops (vertex lists, all oriented CCW around less than a hemisphere)
// in which any two loops are nested or disjoint and no two share an edge.
type family struct {
	loops [][]s2.Point
	class string
}

func familyGen(rng *vkit.Rng, maxLoops int) family {
	for {
		f := familyGen1(rng, maxLoops)
		ok := len(f.loops) >= 1
		for _, l := range f.loops {
			if !validLoop(l) {
				ok = false
			}
		}
		if ok {
			return f
		}
	}
}

func familyGen1(rng *vkit.Rng, maxLoops int) family {
	n := 1 + rng.Intn(maxLoops)
	switch rng.Intn(4) {
	case 0: // concentric rings on one grid, strictly decreasing levels; optionally touching at one vertex
		K := 4 + rng.Intn(8)
		g := newGrid(rng, K, n+1, []float64{2, 30, 80}[rng.Intn(3)], rng.Bool())
		f := family{class: "concentric rings"}
		touch := rng.Intn(3) == 0
		kt := rng.Intn(K)
		for i := 0; i < n; i++ {
			l := n - i
			lv := constLevel(l)
			if touch && i > 0 && i%2 == 1 {
				// this ring reaches out to the next larger ring at azimuth kt: one shared vertex
				lv = func(k int) int {
					if k == kt {
						return l + 1
					}
					return l
				}
				f.class = "concentric rings touching"
			}
			f.loops = append(f.loops, g.ring(1, 0, lv))
		}
		return f
	case 1: // a random tree of regular loops: children on a circle inside the parent
		f := family{class: "tree of regular loops"}
		var rec func(c s2.Point, rad float64, depth int)
		rec = func(c s2.Point, rad float64, depth int) {
			if len(f.loops) >= n {
				return
			}
			f.loops = append(f.loops, regularPts(c, rad, 3+rng.Intn(9)))
			if depth >= 4 {
				return
			}
			kids := rng.Intn(4)
			u := s2.Ortho(c)
			w := s2.Point{Vector: c.Cross(u.Vector).Normalize()}
			for k := 0; k < kids; k++ {
				az := 2 * math.Pi * (float64(k) + rng.Range(0, 0.2)) / float64(kids)
				dir := u.Mul(math.Cos(az)).Add(w.Mul(math.Sin(az)))
				r := rad * math.Pi / 180
				cc := s2.Point{Vector: c.Mul(math.Cos(r * 0.45)).Add(dir.Mul(math.Sin(r * 0.45))).Normalize()}
				if kids == 1 {
					cc = c
				}
				// regular n-gon of radius rad has inradius >= rad*cos(pi/3) = rad/2 ; child must stay inside
				rec(cc, rad*0.16, depth+1)
			}
		}
		for len(f.loops) < n {
			rec(randPoint(rng), rng.Range(1, 25), 0)
			if rng.Intn(2) == 0 {
				break
			}
		}
		// several roots may overlap when far apart is not guaranteed: keep only if pairwise laminar (checked by caller)
		return f
	case 2: // a cell and the four level+2 descendants around its centre (they share the centre vertex)
		lvl := 1 + rng.Intn(10)
		id := s2.CellIDFromFacePosLevel(rng.Intn(6), rng.U64()>>3, lvl)
		f := family{class: "cell and central descendants"}
		f.loops = append(f.loops, cellPts(id))
		kids := id.Children()
		count := map[s2.Point]int{}
		for _, k := range kids {
			for v := 0; v < 4; v++ {
				count[s2.CellFromCellID(k).Vertex(v)]++
			}
		}
		var center s2.Point
		found := false
		for p, c := range count {
			if c == 4 {
				center, found = p, true
			}
		}
		if !found {
			return f
		}
		for _, k := range kids {
			for _, gk := range k.Children() {
				c := s2.CellFromCellID(gk)
				for v := 0; v < 4; v++ {
					if c.Vertex(v) == center && len(f.loops) < n {
						f.loops = append(f.loops, cellPts(gk))
					}
				}
			}
		}
		return f
	default: // two or three separate trees of concentric rings far apart
		f := family{class: "separate shells with holes"}
		base := randPoint(rng)
		u := s2.Ortho(base)
		for s := 0; s < 3 && len(f.loops) < n; s++ {
			az := 2 * math.Pi * float64(s) / 3
			w := s2.Point{Vector: base.Cross(u.Vector).Normalize()}
			dir := u.Mul(math.Cos(az)).Add(w.Mul(math.Sin(az)))
			c := s2.Point{Vector: base.Mul(math.Cos(0.5)).Add(dir.Mul(math.Sin(0.5))).Normalize()}
			m := 1 + rng.Intn(3)
			for i := 0; i < m && len(f.loops) < n; i++ {
				f.loops = append(f.loops, regularPts(c, 12*math.Pow(0.5, float64(i)), 3+rng.Intn(8)))
			}
		}
		return f
	}
}

func shuffle(rng *vkit.Rng, n int) []int {
	p := make([]int, n)
	for i := range p {
		p[i] = i
	}
	for i := n - 1; i > 0; i-- {
		j := rng.Intn(i + 1)
		p[i], p[j] = p[j], p[i]
	}
	return p
}

// alignedPair: a large loop A with few long edges, one of which passes through the centre of a
// cell T that is the LAST (or FIRST) level-k descendant of an anchor cell P (face or level 1..3
// cell) — so T ends (begins) at exactly the same leaf as every index cell of A that contains it —
// and a small loop B around T's centre (shrunk/exact/enlarged cell square or a triangle, any start
// vertex). The index walk must then step back from B's cell to A's containing cell.
func alignedPair(rng *vkit.Rng) (a, b []s2.Point, class string) {
	P := s2.CellIDFromFace(rng.Intn(6))
	for j := rng.Intn(4); j > 0; j-- {
		c := rng.Intn(4)
		if rng.Bool() {
			c = 3 * rng.Intn(2) // first or last child: alignment propagates to the ancestors
		}
		P = P.Children()[c]
	}
	k := P.Level() + 1 + rng.Intn(11)
	var T s2.CellID
	class = "aligned: B at the END of a cell of A's index"
	if rng.Intn(3) == 0 {
		T = P.ChildBeginAtLevel(k)
		class = "aligned: B at the BEGINNING of a cell of A's index"
	} else {
		T = P.ChildEndAtLevel(k).Prev()
	}
	t := T.Point()
	cell := s2.CellFromCellID(T)
	scale := []float64{0.3, 0.5, 0.9, 1, 1.7}[rng.Intn(5)]
	rot := rng.Intn(4)
	for i := 0; i < 4; i++ {
		v := cell.Vertex((i + rot) % 4)
		b = append(b, s2.Point{Vector: t.Add(v.Sub(t.Vector).Mul(scale)).Normalize()})
	}
	if rng.Intn(3) == 0 {
		b = b[:3]
	}
	u := s2.Ortho(t)
	w := s2.Point{Vector: t.Cross(u.Vector).Normalize()}
	phi := rng.Range(0, 2*math.Pi)
	dir := u.Mul(math.Cos(phi)).Add(w.Mul(math.Sin(phi)))
	// shift the edge a little off the centre sometimes, staying inside the small loop
	off := t.Cross(dir).Normalize().Mul(rng.Range(-0.2, 0.2) * scale * cell.ExactArea() / math.Sqrt(cell.ExactArea()+1e-300))
	c0 := s2.Point{Vector: t.Add(off).Normalize()}
	al, be := rng.Range(0.3, 1.2), rng.Range(0.3, 1.2)
	p1 := s2.Point{Vector: c0.Mul(math.Cos(al)).Add(dir.Mul(math.Sin(al))).Normalize()}
	p2 := s2.Point{Vector: c0.Mul(math.Cos(be)).Sub(dir.Mul(math.Sin(be))).Normalize()}
	n := s2.Point{Vector: t.Cross(dir).Normalize()}
	q := s2.Point{Vector: n.Mul(math.Cos(0.3)).Add(randPoint(rng).Mul(0.3)).Normalize()}
	a = []s2.Point{p2, p1, q}
	if rng.Bool() { // a fourth vertex on the far side
		q2 := s2.Point{Vector: n.Mul(0.8).Sub(dir.Mul(0.9)).Add(randPoint(rng).Mul(0.1)).Normalize()}
		a = []s2.Point{p2, p1, q, q2}
	}
	if rng.Bool() {
		a = reversed(a)
	}
	return a, b, class
}
