package main

import (
	"github.com/golang/geo/s2"
)

// lv is one loop value under test together with its description for the Coq model:
// kind 0 = empty, 1 = full, 2 = normal; ids = vertex ids in the loop's current order.
type lv struct {
	loop *s2.Loop
	kind int
	pts  []s2.Point
	ids  []int64
}

// pool assigns ids to points (bit-exact equality); the special empty/full loop vertices
// get the ids the model uses (-1, -2).
type pool struct {
	ids map[s2.Point]int64
	pts []s2.Point
}

func newPool() *pool {
	e, f := s2.VerifC07SpecialPoints()
	return &pool{ids: map[s2.Point]int64{e: -1, f: -2}}
}
func (p *pool) id(x s2.Point) int64 {
	if i, ok := p.ids[x]; ok {
		return i
	}
	i := int64(len(p.pts))
	p.ids[x] = i
	p.pts = append(p.pts, x)
	return i
}

func (p *pool) mk(l *s2.Loop) *lv {
	v := &lv{loop: l, kind: 2}
	if l.IsEmpty() {
		v.kind = 0
	} else if l.IsFull() {
		v.kind = 1
	}
	v.pts = append([]s2.Point{}, l.Vertices()...)
	for _, x := range v.pts {
		v.ids = append(v.ids, p.id(x))
	}
	return v
}

// inverted returns a fresh loop with the same vertices, inverted by Loop.Invert.
func (p *pool) inverted(v *lv) *lv {
	var l *s2.Loop
	switch v.kind {
	case 0:
		l = s2.EmptyLoop()
	case 1:
		l = s2.FullLoop()
	default:
		l = s2.LoopFromPoints(append([]s2.Point{}, v.pts...))
	}
	l.Invert()
	return p.mk(l)
}

func (v *lv) n() int { return len(v.pts) }
func (v *lv) at(i int) s2.Point {
	n := len(v.pts)
	return v.pts[((i%n)+n)%n]
}
func (v *lv) numEdges() int {
	if v.kind != 2 {
		return 0
	}
	return len(v.pts)
}

// member: brute-force point membership, written here (crossing parity from the origin),
// independent of Loop.ContainsPoint's index path and of the relation code.
func member(v *lv, p s2.Point) bool {
	if v.kind == 0 {
		return false
	}
	if v.kind == 1 {
		return true
	}
	inside := v.loop.ContainsOrigin()
	o := s2.OriginPoint()
	for i := 0; i < v.n(); i++ {
		if s2.EdgeOrVertexCrossing(o, p, v.at(i), v.at(i+1)) {
			inside = !inside
		}
	}
	return inside
}

// ---- the specification of the relations, evaluated with the real predicates (brute force) ----

type sharedV struct{ i, j int } // X.at(i) == Y.at(j)

func sharedVertices(x, y *lv) []sharedV {
	if x.kind != 2 || y.kind != 2 {
		return nil
	}
	idx := map[s2.Point]int{}
	for j, p := range y.pts {
		idx[p] = j
	}
	var out []sharedV
	for i, p := range x.pts {
		if j, ok := idx[p]; ok {
			out = append(out, sharedV{i, j})
		}
	}
	return out
}

func edgeCross(x, y *lv) bool {
	for i := 0; i < x.numEdges(); i++ {
		c := s2.NewEdgeCrosser(x.at(i), x.at(i+1))
		for j := 0; j < y.numEdges(); j++ {
			if c.CrossingSign(y.at(j), y.at(j+1)) == s2.Cross {
				return true
			}
		}
	}
	return false
}

type bounds struct{ sub, bi, uf bool }

func loopBounds(x, y *lv) bounds {
	xb, xs := s2.VerifC07LoopBounds(x.loop)
	yb, _ := s2.VerifC07LoopBounds(y.loop)
	return bounds{sub: xs.Contains(yb), bi: xb.Intersects(yb), uf: xb.Union(yb).IsFull()}
}

func specCrossContains(x, y *lv) (crossing, shared bool) {
	sh := sharedVertices(x, y)
	for _, s := range sh {
		if !s2.WedgeContains(x.at(s.i-1), x.at(s.i), x.at(s.i+1), y.at(s.j-1), y.at(s.j+1)) {
			return true, true
		}
	}
	return edgeCross(x, y), len(sh) > 0
}

func specCrossIntersects(x, y *lv) (crossing, shared bool) {
	sh := sharedVertices(x, y)
	for _, s := range sh {
		if s2.WedgeIntersects(x.at(s.i-1), x.at(s.i), x.at(s.i+1), y.at(s.j-1), y.at(s.j+1)) {
			return true, true
		}
	}
	return edgeCross(x, y), len(sh) > 0
}

func specCrossCompare(x, y *lv, reverse bool) (crossing, shared, containsEdge bool) {
	sh := sharedVertices(x, y)
	cont, excl := false, false
	for _, s := range sh {
		if s2.VerifC07WedgeContainsSemiwedge(x.at(s.i-1), x.at(s.i), x.at(s.i+1), y.at(s.j+1), reverse) {
			cont = true
		} else {
			excl = true
		}
	}
	return edgeCross(x, y) || (cont && excl), len(sh) > 0, cont
}

func specContains(x, y *lv) bool {
	if !loopBounds(x, y).sub {
		return false
	}
	if x.kind != 2 || y.kind != 2 {
		return x.kind == 1 || y.kind == 0
	}
	cr, sh := specCrossContains(x, y)
	if cr {
		return false
	}
	if sh {
		return true
	}
	if !x.loop.ContainsPoint(y.at(0)) {
		return false
	}
	yb := loopBounds(y, x)
	if (yb.sub || yb.uf) && y.loop.ContainsPoint(x.at(0)) {
		return false
	}
	return true
}

func specIntersects(x, y *lv) bool {
	b := loopBounds(x, y)
	if !b.bi {
		return false
	}
	cr, sh := specCrossIntersects(x, y)
	if cr {
		return true
	}
	if sh {
		return false
	}
	if (b.sub || b.uf) && x.loop.ContainsPoint(y.at(0)) {
		return true
	}
	if loopBounds(y, x).sub && y.loop.ContainsPoint(x.at(0)) {
		return true
	}
	return false
}

func specCompare(x, y *lv, yHole bool) int {
	if !loopBounds(x, y).bi {
		return -1
	}
	if x.kind == 1 {
		return 1
	}
	if y.kind == 1 {
		return -1
	}
	cr, sh, cont := specCrossCompare(x, y, yHole)
	if cr {
		return 0
	}
	if sh {
		if cont {
			return 1
		}
		return -1
	}
	if x.loop.ContainsPoint(y.at(0)) {
		return 1
	}
	return -1
}

// specContainsCore: the Contains decision without any rectangle prefilter (contains_core of
// Proofs/C07_Relations.v), by brute force.
func specContainsCore(x, y *lv) bool {
	if x.kind != 2 || y.kind != 2 {
		return x.kind == 1 || y.kind == 0
	}
	cr, sh := specCrossContains(x, y)
	if cr {
		return false
	}
	if sh {
		return true
	}
	return x.loop.ContainsPoint(y.at(0)) && !y.loop.ContainsPoint(x.at(0))
}
