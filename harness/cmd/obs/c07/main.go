// Observer C07: loop and polygon containment/intersection obey point-set semantics.
//
// [S] on the real code, no oracle needed: Intersects symmetric; X.Contains(X), X.Intersects(X);
// X.Intersects(Y) == !Inv(X).Contains(Y); X.Contains(Y) == Inv(Y).Contains(Inv(X)); one-loop
// polygon answers == loop answers; the same for polygons with Polygon.Invert. With oracles
// written here: the relations' specification by brute force over all edge pairs and shared
// vertices (spec.go) against the index walk; point membership by crossing parity (member) for
// "Contains => no point of B outside A" and "!Intersects => no common point"; nesting depth =
// number of enclosing loops, parents before children.
// [T]: the Coq specification model (Model/Relations.v through Model/RelTable.v) is fed the
// answers of the real predicates below this layer and must give the same Contains / Intersects /
// compareBoundary / containsNonCrossingBoundary / ContainsNested answers as the Go code; Model/Nest.v
// on the recorded ContainsNested matrix must reproduce the loop order and depths.
package main

import (
	"bytes"
	"fmt"
	"strings"

	"github.com/golang/geo/s2"
	"verifharness/internal/vkit"
)

func main() { vkit.Main("C07", []string{"Model.Relations", "Model.Nest", "Model.RangeIter", "Model.RelTable"}, run) }

func coords(v []s2.Point) [][3]float64 {
	out := make([][3]float64, len(v))
	for i, p := range v {
		out[i] = [3]float64{p.X, p.Y, p.Z}
	}
	return out
}

type variant struct {
	name string
	v    *lv
}

func run(c *vkit.Collector, rng *vkit.Rng, budget int) {
	// small pairs: laws, specification, point sets, and the Coq model
	for k := 0; k < 70*budget; k++ {
		maxN := []int{8, 16, 16, 30, 60}[rng.Intn(5)]
		a, b, class := pairGen(rng, maxN)
		c.Class("pair:" + class)
		doPair(c, rng, s2.LoopFromPoints(a), s2.LoopFromPoints(b), class, k < 50*budget)
	}
	// large pairs (multi-cell indexes on both sides): Go-side checks only
	for k := 0; k < 10*budget; k++ {
		a, b, class := pairGen(rng, []int{150, 250, 400}[rng.Intn(3)])
		c.Class("bigpair:" + class)
		la, lb := s2.LoopFromPoints(a), s2.LoopFromPoints(b)
		doPair(c, rng, la, lb, "big "+class, false)
		doSeeks(c, la, lb, "big "+class)
	}
	// empty / full against everything
	for k := 0; k < 6*budget; k++ {
		a, _, class := pairGen(rng, 16)
		sp := []*s2.Loop{s2.EmptyLoop(), s2.FullLoop()}
		x := sp[rng.Intn(2)]
		c.Class("pair:special/" + class)
		doPair(c, rng, x, s2.LoopFromPoints(a), "special/"+class, true)
		if k%3 == 0 {
			doPair(c, rng, sp[rng.Intn(2)], sp[rng.Intn(2)], "special/special", true)
		}
	}
	// index alignment: small loops at the first / last descendant of a cell of the large loop's index
	for k := 0; k < 40*budget; k++ {
		a, b, class := alignedPair(rng)
		if !validLoop(a) || !validLoop(b) {
			continue
		}
		c.Class("pair:" + class)
		la, lb := s2.LoopFromPoints(a), s2.LoopFromPoints(b)
		doPair(c, rng, la, lb, class, k%4 == 0)
		doSeeks(c, la, lb, class)
		doSeeks(c, lb, la, class)
	}
	// decoded objects: loops and polygons that went through Encode/Decode (lossless, and compressed for
	// cell-centre-snapped vertices; < 64 and >= 64 vertices, where the bound travels in the encoding)
	for k := 0; k < 24*budget; k++ {
		maxN := []int{12, 30, 60, 150}[k%4]
		a, b, class := pairGen(rng, maxN)
		if k%3 != 2 {
			a, b = snapPts(a), snapPts(b)
			if !validLoop(a) || !validLoop(b) {
				continue
			}
		}
		la, fa := decodedLoop(a)
		lb, fb := s2.LoopFromPoints(b), "fresh"
		if k%2 == 0 {
			lb, fb = decodedLoop(b)
		}
		if la == nil || lb == nil {
			continue
		}
		class = fmt.Sprintf("decoded(%s,%s) %s", fa, fb, class)
		c.Class(fmt.Sprintf("decoded pair: A %s, B %s", fa, fb))
		if len(a) >= 64 {
			c.Class("decoded pair: A has >= 64 vertices")
		}
		doPair(c, rng, la, lb, class, maxN <= 30)
	}
	// bounds: B is A without one (nearly collinear) vertex, so the regions almost coincide and the
	// cached rectangles differ by rounding only; Contains must not depend on which is larger
	for k := 0; k < 600*budget; k++ {
		a, b := boundPair(rng)
		if a == nil {
			continue
		}
		c.Class("boundpair")
		doBoundPair(c, a, b)
	}
	// polygons: nesting discovery, relations
	for k := 0; k < 40*budget; k++ {
		doPolygons(c, rng, k)
	}
}

func sampleFrom(rng *vkit.Rng, vs ...*lv) []s2.Point {
	var out []s2.Point
	for _, v := range vs {
		if v.kind != 2 {
			continue
		}
		n := v.n()
		step := 1
		if n > 40 {
			step = n / 40
		}
		for i := 0; i < n; i += step {
			out = append(out, v.at(i), s2.Point{Vector: v.at(i).Add(v.at(i + 1).Vector).Normalize()})
		}
		for k := 0; k < 12; k++ {
			p := v.at(rng.Intn(n)).Mul(rng.Range(0.05, 1)).Add(v.at(rng.Intn(n)).Mul(rng.Range(0.05, 1))).Add(v.at(rng.Intn(n)).Mul(rng.Range(0.05, 1)))
			if p.Norm2() > 1e-6 {
				out = append(out, s2.Point{Vector: p.Normalize()})
			}
		}
	}
	for k := 0; k < 6; k++ {
		out = append(out, randPoint(rng))
	}
	return out
}

func doPair(c *vkit.Collector, rng *vkit.Rng, la, lb *s2.Loop, class string, coq bool) {
	pl := newPool()
	A, B := pl.mk(la), pl.mk(lb)
	iA, iB := pl.inverted(A), pl.inverted(B)
	va := []variant{{"A", A}, {"inv(A)", iA}}
	vb := []variant{{"B", B}, {"inv(B)", iB}}
	inv := map[*lv]*lv{A: iA, iA: A, B: iB, iB: B}
	replay := map[string]interface{}{"class": class, "A": coords(A.pts), "B": coords(B.pts), "kindA": A.kind, "kindB": B.kind}
	key := fmt.Sprintf("%s %v|%v", class, coords(A.pts), coords(B.pts))
	shared := len(sharedVertices(A, B))
	c.Eval(key, A.kind == 2 && B.kind == 2)
	c.Sample(map[string]interface{}{"class": class, "nA": A.n(), "nB": B.n(), "shared_vertices": shared,
		"A.Contains(B)": la.Contains(lb), "A.Intersects(B)": la.Intersects(lb)})
	if shared > 0 {
		c.Class("shared-vertices")
	}
	if A.kind == 2 && B.kind == 2 {
		// reach of the index walk: both indexes multi-cell means the cell-against-subcell paths run
		ca, cb := indexCells(la), indexCells(lb)
		if ca >= 16 && cb >= 16 {
			c.Class("index: both sides >= 16 cells")
		} else if ca > 1 && cb > 1 {
			c.Class("index: both sides multi-cell")
		} else if ca > 1 || cb > 1 {
			c.Class("index: one side multi-cell")
		} else {
			c.Class("index: single cells")
		}
	}
	samples := sampleFrom(rng, A, B)
	// the cached rectangles of every object under test: subregionBound must contain bound
	for _, x := range append(append([]variant{}, va...), vb...) {
		if bd, sub := s2.VerifC07LoopBounds(x.v.loop); !sub.Contains(bd) {
			report(c, "Loop.subregionBound", fmt.Sprintf("subregionBound %v does not contain bound %v [%s, X=%s]", sub, bd, class, x.name), replay)
		}
	}
	viol := func(kind, desc, xn, yn string) {
		r := map[string]interface{}{"X": xn, "Y": yn}
		for k, v := range replay {
			r[k] = v
		}
		report(c, kind, desc+" ["+class+", X="+xn+", Y="+yn+"]", r)
	}

	ordered := [][2]variant{}
	for _, x := range va {
		for _, y := range vb {
			ordered = append(ordered, [2]variant{x, y}, [2]variant{y, x})
		}
	}
	for _, xy := range ordered {
		x, y := xy[0].v, xy[1].v
		xn, yn := xy[0].name, xy[1].name
		cont, isect := x.loop.Contains(y.loop), x.loop.Intersects(y.loop)
		if cont {
			c.Class("answer:contains")
		}
		if isect {
			c.Class("answer:intersects")
		} else {
			c.Class("answer:disjoint")
		}
		// --- algebraic laws, directly on the implementation
		if isect != y.loop.Intersects(x.loop) {
			viol("Loop.Intersects.sym", "X.Intersects(Y) != Y.Intersects(X)", xn, yn)
		}
		if isect != !inv[x].loop.Contains(y.loop) {
			viol("Loop.Intersects.compl", "X.Intersects(Y) != !Inv(X).Contains(Y)", xn, yn)
		}
		if cont != inv[y].loop.Contains(inv[x].loop) {
			viol("Loop.Contains.compl", "X.Contains(Y) != Inv(Y).Contains(Inv(X))", xn, yn)
		}
		// one-loop polygons answer like their loops
		if x.kind != 0 && y.kind != 0 {
			px := s2.PolygonFromLoops([]*s2.Loop{clone(x)})
			py := s2.PolygonFromLoops([]*s2.Loop{clone(y)})
			if px.Contains(py) != cont || px.Intersects(py) != isect {
				viol("Polygon.single", "one-loop polygon answers differ from the loop answers", xn, yn)
			}
		}
		// --- the specification (brute force over all edge pairs / shared vertices) against the index walk
		if sc := specContains(x, y); sc != cont {
			viol("Loop.Contains.spec", fmt.Sprintf("Contains=%v, brute-force specification=%v", cont, sc), xn, yn)
		}
		// H_SUBREGION_sound attacked directly: the decision without the rectangle prefilter says
		// "contains" => the prefilter must let it through
		if specContainsCore(x, y) && !loopBounds(x, y).sub {
			viol("Loop.subregionBound.sound", "X contains Y by the boundary test but X.subregionBound does not contain Y.bound", xn, yn)
		}
		if si := specIntersects(x, y); si != isect {
			viol("Loop.Intersects.spec", fmt.Sprintf("Intersects=%v, brute-force specification=%v", isect, si), xn, yn)
		}
		if x.kind != 0 && y.kind != 0 {
			for _, hole := range []bool{false, true} {
				if y.kind == 1 && hole {
					continue
				}
				got := s2.VerifC07CompareBoundary(x.loop, y.loop, hole)
				if want := specCompare(x, y, hole); got != want {
					viol("Loop.compareBoundary.spec", fmt.Sprintf("compareBoundary(hole=%v)=%d, brute-force specification=%d", hole, got, want), xn, yn)
				}
			}
		}
		// --- point sets
		for _, p := range samples {
			mx, my := member(x, p), member(y, p)
			if cont && my && !mx {
				viol("Loop.Contains.pointset", fmt.Sprintf("X.Contains(Y) but point %v of Y is outside X", [3]float64{p.X, p.Y, p.Z}), xn, yn)
				break
			}
			if !isect && mx && my {
				viol("Loop.Intersects.pointset", fmt.Sprintf("!X.Intersects(Y) but point %v is in both", [3]float64{p.X, p.Y, p.Z}), xn, yn)
				break
			}
		}
	}
	for _, x := range append(va, vb...) {
		if !x.v.loop.Contains(x.v.loop) {
			viol("Loop.Contains.refl", "!X.Contains(X)", x.name, x.name)
		}
		if x.v.kind != 0 && !x.v.loop.Intersects(x.v.loop) {
			viol("Loop.Intersects.refl", "non-empty X does not intersect itself", x.name, x.name)
		}
		if x.v.kind == 0 && x.v.loop.Intersects(x.v.loop) {
			viol("Loop.Intersects.refl", "empty loop intersects itself", x.name, x.name)
		}
		// a fresh copy is contained in / contains the original (two distinct index objects)
		cp := clone(x.v)
		if !x.v.loop.Contains(cp) || !cp.Contains(x.v.loop) {
			viol("Loop.Contains.refl", "X and an identical copy do not contain each other", x.name, x.name)
		}
	}

	// --- [T] the Coq model on the recorded predicate answers
	if coq && A.n() <= 60 && B.n() <= 60 {
		t := newTables()
		var expected []int64
		for _, x := range va {
			for _, y := range vb {
				t.addPair(x.v, y.v)
				t.addPair(y.v, x.v)
				expected = append(expected, relAnswers(x.v, y.v)...)
				expected = append(expected, relAnswers(y.v, x.v)...)
			}
		}
		c.Check(fmt.Sprintf("pair %s nA=%d nB=%d A=%s B=%s", class, A.n(), B.n(), fmtIDs(A), fmtIDs(B)),
			vkit.App("pair_check", t.term(), loopTerm(A), loopTerm(B), zlist(expected)))
	}
}

func clone(v *lv) *s2.Loop {
	switch v.kind {
	case 0:
		return s2.EmptyLoop()
	case 1:
		return s2.FullLoop()
	}
	return s2.LoopFromPoints(append([]s2.Point{}, v.pts...))
}

// report forwards a violation found on the implementation.
func report(c *vkit.Collector, kind, desc string, replay interface{}) { c.Violate(kind, desc, replay) }

// boundPair: a small ring and the same ring with the midpoint of one edge inserted.
func boundPair(rng *vkit.Rng) (a, b []s2.Point) {
	var v []s2.Point
	if rng.Bool() {
		v = regularPts(randPoint(rng), rng.Range(0.05, 70), 3+rng.Intn(5))
	} else {
		K := 3 + rng.Intn(4)
		g := newGrid(rng, K, 2, []float64{0.01, 1, 20, 60}[rng.Intn(4)], rng.Bool())
		v = g.ring(1, 0, randLevels(rng, K, 2))
	}
	i := rng.Intn(len(v))
	m := s2.Point{Vector: v[i].Add(v[(i+1)%len(v)].Vector).Normalize()}
	w := append(append(append([]s2.Point{}, v[:i+1]...), m), v[i+1:]...)
	if !validLoop(v) || !validLoop(w) {
		return nil, nil
	}
	if rng.Bool() {
		return w, v
	}
	return v, w
}

// doBoundPair: the relation laws and the brute-force specification on (A, B), both orders.
func doBoundPair(c *vkit.Collector, a, b []s2.Point) {
	pl := newPool()
	A, B := pl.mk(s2.LoopFromPoints(a)), pl.mk(s2.LoopFromPoints(b))
	iA, iB := pl.inverted(A), pl.inverted(B)
	replay := map[string]interface{}{"class": "boundpair", "A": coords(A.pts), "B": coords(B.pts)}
	c.Eval(fmt.Sprintf("boundpair %v|%v", coords(A.pts), coords(B.pts)), true)
	for _, xy := range [][4]*lv{{A, B, iA, iB}, {B, A, iB, iA}, {iA, iB, A, B}, {iB, iA, B, A}} {
		x, y, ix, iy := xy[0], xy[1], xy[2], xy[3]
		cont, isect := x.loop.Contains(y.loop), x.loop.Intersects(y.loop)
		if sc := specContains(x, y); sc != cont {
			report(c, "Loop.Contains.spec", fmt.Sprintf("Contains=%v, brute-force specification=%v [boundpair]", cont, sc), replay)
		}
		// H_SUBREGION_sound attacked directly: the decision without the rectangle prefilter says
		// "contains" => the prefilter must let it through
		if specContainsCore(x, y) && !loopBounds(x, y).sub {
			report(c, "Loop.subregionBound.sound", "X contains Y by the boundary test but X.subregionBound does not contain Y.bound [boundpair]", replay)
		}
		if si := specIntersects(x, y); si != isect {
			report(c, "Loop.Intersects.spec", fmt.Sprintf("Intersects=%v, brute-force specification=%v [boundpair]", isect, si), replay)
		}
		if cont != iy.loop.Contains(ix.loop) {
			report(c, "Loop.Contains.compl", "X.Contains(Y) != Inv(Y).Contains(Inv(X)) [boundpair]", replay)
		}
		if isect != !ix.loop.Contains(y.loop) {
			report(c, "Loop.Intersects.compl", "X.Intersects(Y) != !Inv(X).Contains(Y) [boundpair]", replay)
		}
		if isect != y.loop.Intersects(x.loop) {
			report(c, "Loop.Intersects.sym", "X.Intersects(Y) != Y.Intersects(X) [boundpair]", replay)
		}
	}
}

// indexCells counts the cells of a fresh ShapeIndex of the loop.
func indexCells(l *s2.Loop) int {
	idx := s2.NewShapeIndex()
	idx.Add(l)
	n := 0
	for it := idx.Iterator(); !it.Done(); it.Next() {
		n++
	}
	return n
}

// doSeeks: rangeIterator.seekTo / seekBeyond over a's index against cells of b's index (at most
// 5), recorded for the Coq model of Model/RangeIter.v; and checked here against the documented
// contract by linear scan.
func doSeeks(c *vkit.Collector, a, b *s2.Loop, class string) {
	a.ContainsPoint(a.Vertex(0)) // make sure both indexes are built
	b.ContainsPoint(b.Vertex(0))
	ids := s2.VerifC07IndexCellIDs(a)
	nb := len(s2.VerifC07IndexCellIDs(b))
	if len(ids) == 0 || nb == 0 {
		return
	}
	zs := make([]string, len(ids))
	for i, id := range ids {
		zs[i] = vkit.U(uint64(id))
	}
	step := 1
	if nb > 4 {
		step = nb / 4
	}
	for pos := 0; pos < nb; pos += step {
		for _, beyond := range []bool{false, true} {
			tmin, tid, tmax, got := s2.VerifC07Seek(a, b, pos, beyond)
			// contract: seekTo = first cell with rangeMax >= target.rangeMin; seekBeyond = first with rangeMin > target.rangeMax
			want := len(ids)
			for i, id := range ids {
				if (!beyond && id.RangeMax() >= tmin) || (beyond && id.RangeMin() > tmax) {
					want = i
					break
				}
			}
			name := "seekTo"
			if beyond {
				name = "seekBeyond"
			}
			c.Eval(fmt.Sprintf("%s %v %v", name, ids, tid), true)
			if got != want {
				c.Violate("rangeIterator."+name, fmt.Sprintf("%s lands on position %d, the first cell that overlaps or follows the target is %d [%s]", name, got, want, class),
					map[string]interface{}{"index_cells": fmt.Sprint(ids), "target": []uint64{uint64(tmin), uint64(tid), uint64(tmax)}, "A": coords(a.Vertices()), "B": coords(b.Vertices())})
			}
			c.Check(fmt.Sprintf("%s cells=%d target=%x [%s]", name, len(ids), uint64(tid), class),
				vkit.App("seek_check", "["+strings.Join(zs, "; ")+"]", vkit.U(uint64(tmin)), vkit.U(uint64(tid)), vkit.U(uint64(tmax)), vkit.B(beyond), fmt.Sprintf("%d%%nat", got)))
		}
	}
}

// snapPts moves every vertex to the centre of its leaf cell (what snapping produces; such loops are
// written in the compressed format).
func snapPts(v []s2.Point) []s2.Point {
	out := make([]s2.Point, len(v))
	for i, p := range v {
		out[i] = s2.CellFromPoint(p).ID().Point()
	}
	return out
}

// roundTrip returns Decode(Encode(p)) and the format used ("compressed" / "lossless").
func roundTrip(p *s2.Polygon) (*s2.Polygon, string) {
	var buf bytes.Buffer
	if err := p.Encode(&buf); err != nil || buf.Len() == 0 {
		return nil, ""
	}
	format := "lossless"
	if buf.Bytes()[0] == 4 {
		format = "compressed"
	}
	q := &s2.Polygon{}
	if err := q.Decode(&buf); err != nil {
		return nil, ""
	}
	return q, format
}

// decodedLoop: the loop of the single-loop polygon after an Encode/Decode round trip.
func decodedLoop(v []s2.Point) (*s2.Loop, string) {
	q, format := roundTrip(s2.PolygonFromLoops([]*s2.Loop{s2.LoopFromPoints(append([]s2.Point{}, v...))}))
	if q == nil || q.NumLoops() != 1 {
		return nil, ""
	}
	return q.Loop(0), format
}
