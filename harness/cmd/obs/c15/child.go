package main

import (
	"bufio"
	"bytes"
	"encoding/binary"
	"encoding/json"
	"fmt"
	"hash/fnv"
	"io"
	"math"
	"os"
	"runtime"
	"runtime/debug"
	"strconv"
	"strings"
	"syscall"
	"time"

	"github.com/golang/geo/r3"
	"github.com/golang/geo/s2"
	cg "verifharness/internal/codecgen"
)

// childMain: the address-space limit comes from the parent (os.Args[2]); every decode that stays
// within the documented limits fits, anything that asks for more dies here, not in the host.
func childMain() {
	as := uint64(3 << 30)
	if len(os.Args) > 2 {
		if v, err := strconv.ParseUint(os.Args[2], 10, 64); err == nil && v > 0 {
			as = v
		}
	}
	lim := syscall.Rlimit{Cur: as, Max: as}
	syscall.Setrlimit(syscall.RLIMIT_AS, &lim)
	debug.SetGCPercent(50)
	in := bufio.NewReaderSize(os.Stdin, 1<<20)
	out := bufio.NewWriterSize(os.Stdout, 1<<20)
	readBlock := func() ([]byte, bool) {
		var l [4]byte
		if _, err := io.ReadFull(in, l[:]); err != nil {
			return nil, false
		}
		b := make([]byte, binary.LittleEndian.Uint32(l[:]))
		if _, err := io.ReadFull(in, b); err != nil {
			return nil, false
		}
		return b, true
	}
	for {
		// request: kind, number of earlier encodings the receiver is to be used for first, those
		// encodings, the input itself
		hdr := make([]byte, 2)
		if _, err := io.ReadFull(in, hdr); err != nil {
			return
		}
		var prev [][]byte
		for i := 0; i < int(hdr[1]); i++ {
			b, ok := readBlock()
			if !ok {
				return
			}
			prev = append(prev, b)
		}
		data, ok := readBlock()
		if !ok {
			return
		}
		t0 := time.Now()
		r := runOne(cg.Kind(hdr[0]), prev, data)
		if len(prev) > 0 && r.Out != "panic" {
			// the same bytes into a fresh receiver must give the same outcome, value and shape
			f := runOne(cg.Kind(hdr[0]), nil, data)
			switch {
			case f.Out != r.Out:
				r.ReuseDiff = fmt.Sprintf("outcome %s into a used receiver, %s into a fresh one", r.Out, f.Out)
			case f.Term != r.Term:
				r.ReuseDiff = "decoded fields differ from a fresh decode"
			case f.Sig != r.Sig:
				r.ReuseDiff = "edges / chains / derived state differ from a fresh decode: " + r.Sig + " vs " + f.Sig
			}
		}
		r.Millis = time.Since(t0).Milliseconds()
		if len(prev) == 0 && (r.Out == "ok" || r.Out == "err") && r.Millis < 300 {
			// the same bytes through readers that deliver them in chunks (no io.ByteReader)
			func() {
				defer func() {
					if p := recover(); p != nil {
						r.ReaderDiff = fmt.Sprint("panic through a chunked reader: ", p)
					}
				}()
				r.ReaderDiff = cg.ReaderKindDiff(cg.Kind(hdr[0]), data, uint64(len(data))*2654435761+7)
			}()
		}
		// garbage of one input must not count against the address-space cap of the next
		var ms runtime.MemStats
		runtime.ReadMemStats(&ms)
		if r.Millis > 200 || ms.HeapSys-ms.HeapReleased > 256<<20 {
			debug.FreeOSMemory()
		}
		js, _ := json.Marshal(r)
		out.Write(js)
		out.WriteByte('\n')
		out.Flush()
	}
}

var at string // the query being run, for the panic report

func runOne(k cg.Kind, prev [][]byte, data []byte) (res result) {
	var use func()
	func() {
		defer func() {
			if p := recover(); p != nil {
				res.Out, res.Msg = "panic", fmt.Sprint(p)
			}
		}()
		var err error
		rd := bytes.NewReader(data)
		switch k {
		case cg.KPoint:
			var v s2.Point
			for _, pb := range prev {
				_ = v.Decode(bytes.NewReader(pb))
			}
			if err = v.Decode(rd); err == nil {
				res.Term = cg.PointT(v)
				use = func() { useRegion(v); reencode(k, func(w *bytes.Buffer) error { return v.Encode(w) }) }
			}
		case cg.KCap:
			var v s2.Cap
			for _, pb := range prev {
				_ = v.Decode(bytes.NewReader(pb))
			}
			if err = v.Decode(rd); err == nil {
				res.Term = cg.CapT(v)
				use = func() { useRegion(v); reencode(k, func(w *bytes.Buffer) error { return v.Encode(w) }) }
			}
		case cg.KRect:
			var v s2.Rect
			for _, pb := range prev {
				_ = v.Decode(bytes.NewReader(pb))
			}
			if err = v.Decode(rd); err == nil {
				res.Term = cg.RectT(v)
				use = func() { useRegion(v); reencode(k, func(w *bytes.Buffer) error { return v.Encode(w) }) }
			}
		case cg.KCellID:
			var v s2.CellID
			for _, pb := range prev {
				_ = v.Decode(bytes.NewReader(pb))
			}
			if err = v.Decode(rd); err == nil {
				res.Term = cg.U64T(uint64(v))
				use = func() {
					at = "IsValid"
					_ = v.IsValid()
					at = "String"
					_ = v.String()
					reencode(k, func(w *bytes.Buffer) error { return v.Encode(w) })
				}
			}
		case cg.KCell:
			var v s2.Cell
			for _, pb := range prev {
				_ = v.Decode(bytes.NewReader(pb))
			}
			if err = v.Decode(rd); err == nil {
				res.Term = cg.U64T(uint64(v.ID()))
				use = func() { useRegion(v); reencode(k, func(w *bytes.Buffer) error { return v.Encode(w) }) }
			}
		case cg.KCellUnion:
			var v s2.CellUnion
			for _, pb := range prev {
				_ = v.Decode(bytes.NewReader(pb))
			}
			if err = v.Decode(rd); err == nil {
				res.Term = cg.CellIDsT(v)
				use = func() {
					at = "IsValid"
					_ = v.IsValid()
					useRegion(&v)
					reencode(k, func(w *bytes.Buffer) error { return v.Encode(w) })
				}
			}
		case cg.KPolyline:
			var v s2.Polyline
			for _, pb := range prev {
				_ = v.Decode(bytes.NewReader(pb))
			}
			if err = v.Decode(rd); err == nil {
				res.Term = cg.PointsT(v)
				if nonFinite(v) {
					res.Sub = "nonFinite."
				}
				use = func() {
					useRegion(&v)
					useShape(&v)
					reencode(k, func(w *bytes.Buffer) error { return v.Encode(w) })
				}
			}
		case cg.KLoop:
			v := new(s2.Loop)
			for _, pb := range prev {
				_ = v.Decode(bytes.NewReader(pb))
			}
			if err = v.Decode(rd); err == nil {
				res.Term = cg.LoopT(v)
				if nonFinite(v.Vertices()) {
					res.Sub = "nonFinite."
				}
				use = func() {
					useRegion(v)
					useShape(v)
					at = "Loop.Vertices"
					for _, p := range probePoints(v.Vertices()) {
						at = "Loop.ContainsPoint"
						_ = v.ContainsPoint(p)
					}
					reencode(k, func(w *bytes.Buffer) error { return v.Encode(w) })
				}
			}
		case cg.KPolygon:
			v := new(s2.Polygon)
			for _, pb := range prev {
				_ = v.Decode(bytes.NewReader(pb))
			}
			if err = v.Decode(rd); err == nil {
				loops, _, _, nv := s2.VerifC09PolygonFields(v)
				res.NV = int64(nv)
				res.HasNV = true
				if len(data) > 0 && data[0] == 4 {
					ts := make([]string, len(loops))
					for i, l := range loops {
						ts[i] = cg.CLoopT(l, true)
					}
					res.Term = "DCompressed [" + strings.Join(ts, "; ") + "]"
				} else {
					res.Term = "DLossless " + cg.PolygonT(v)
				}
				if v.IsFull() {
					res.Tag = "(full)"
				}
				for _, l := range loops {
					if nonFinite(l.Vertices()) {
						res.Sub = "nonFinite."
					}
				}
				use = func() {
					useRegion(v)
					useShape(v)
					at = "Polygon.NumLoops"
					for i := 0; i < v.NumLoops() && i < 40; i++ {
						at = "Polygon.Loop"
						l := v.Loop(i)
						at = "Polygon.Parent"
						_, _ = v.Parent(i)
						at = "Polygon.LastDescendant"
						_ = v.LastDescendant(i)
						at = "Polygon.loop.ContainsPoint"
						for _, p := range probePoints(l.Vertices()) {
							_ = l.ContainsPoint(p)
						}
					}
					reencode(k, func(w *bytes.Buffer) error { return v.Encode(w) })
				}
			}
		}
		if err != nil {
			res.Out, res.Msg = "err", err.Error()
		} else {
			res.Out = "ok"
		}
	}()
	if res.Out != "ok" || use == nil {
		return res
	}
	res.Use = "ok"
	useNote = ""
	shapeSig = ""
	func() {
		defer func() {
			if p := recover(); p != nil {
				res.Use, res.UseAt, res.UseMsg = "panic", at, fmt.Sprint(p)
			}
		}()
		use()
	}()
	res.Note = useNote
	res.Sig = shapeSig
	return res
}

// nonFinite reports a NaN or infinite coordinate among the vertices.
func nonFinite(vs []s2.Point) bool {
	for _, v := range vs {
		for _, c := range []float64{v.X, v.Y, v.Z} {
			if math.IsNaN(c) || math.IsInf(c, 0) {
				return true
			}
		}
	}
	return false
}

// reencode: a decoded value must re-encode without panicking (an error is allowed), and the
// re-encoding must decode again.
func reencode(k cg.Kind, f func(w *bytes.Buffer) error) {
	at = "Encode.panic"
	var b bytes.Buffer
	if err := f(&b); err != nil {
		return
	}
	at = "Encode.redecode.panic"
	if err := decodeKind(k, b.Bytes()); err != nil {
		useNote = "the re-encoding does not decode: " + err.Error()
	}
}

var useNote string

func decodeKind(k cg.Kind, data []byte) error {
	rd := bytes.NewReader(data)
	switch k {
	case cg.KPoint:
		var v s2.Point
		return v.Decode(rd)
	case cg.KCap:
		var v s2.Cap
		return v.Decode(rd)
	case cg.KRect:
		var v s2.Rect
		return v.Decode(rd)
	case cg.KCellID:
		var v s2.CellID
		return v.Decode(rd)
	case cg.KCell:
		var v s2.Cell
		return v.Decode(rd)
	case cg.KCellUnion:
		var v s2.CellUnion
		return v.Decode(rd)
	case cg.KPolyline:
		var v s2.Polyline
		return v.Decode(rd)
	case cg.KLoop:
		return new(s2.Loop).Decode(rd)
	}
	return new(s2.Polygon).Decode(rd)
}

var probeCells = func() []s2.Cell {
	var cs []s2.Cell
	for f := 0; f < 6; f++ {
		id := s2.CellIDFromFace(f)
		cs = append(cs, s2.CellFromCellID(id), s2.CellFromCellID(id.Children()[f%4]), s2.CellFromCellID(id.ChildBeginAtLevel(30)))
	}
	cs = append(cs, s2.CellFromCellID(s2.CellIDFromFace(2).ChildBeginAtLevel(12)))
	return cs
}()

func probePoints(vs []s2.Point) []s2.Point {
	ps := []s2.Point{
		{Vector: r3.Vector{X: 1, Y: 0, Z: 0}}, {Vector: r3.Vector{X: 0, Y: 0, Z: 1}}, {Vector: r3.Vector{X: 0, Y: 0, Z: -1}},
		s2.OriginPoint(), s2.PointFromCoords(1, 1, 1), s2.PointFromCoords(-1, 2, -3),
	}
	if len(vs) > 0 {
		ps = append(ps, vs[0], vs[len(vs)/2])
	}
	return ps
}

func useRegion(r s2.Region) {
	at = "CapBound"
	_ = r.CapBound()
	at = "RectBound"
	_ = r.RectBound()
	at = "CellUnionBound"
	_ = r.CellUnionBound()
	for _, c := range probeCells {
		at = "ContainsCell"
		_ = r.ContainsCell(c)
		at = "IntersectsCell"
		_ = r.IntersectsCell(c)
	}
	for _, p := range probePoints(nil) {
		at = "ContainsPoint"
		_ = r.ContainsPoint(p)
	}
}

var shapeSig string

func useShape(s s2.Shape) {
	at = "NumEdges"
	n := s.NumEdges()
	h := fnv.New64a()
	defer func() { shapeSig = fmt.Sprintf("edges=%d chains=%d hash=%x", n, s.NumChains(), h.Sum64()) }()
	for e := 0; e < n && e < 300; e++ {
		at = "Edge"
		ed := s.Edge(e)
		at = "ChainPosition"
		cp := s.ChainPosition(e)
		fmt.Fprintf(h, "%x %x %x %x %x %x %d %d;", math.Float64bits(ed.V0.X), math.Float64bits(ed.V0.Y), math.Float64bits(ed.V0.Z),
			math.Float64bits(ed.V1.X), math.Float64bits(ed.V1.Y), math.Float64bits(ed.V1.Z), cp.ChainID, cp.Offset)
		at = "ChainEdge"
		_ = s.ChainEdge(cp.ChainID, cp.Offset)
	}
	at = "NumChains"
	nc := s.NumChains()
	for i := 0; i < nc && i < 100; i++ {
		at = "Chain"
		ch := s.Chain(i)
		for j := 0; j < ch.Length && j < 50; j++ {
			at = "ChainEdge"
			_ = s.ChainEdge(i, j)
		}
	}
	at = "ReferencePoint"
	_ = s.ReferencePoint()
	at = "Dimension"
	_ = s.Dimension()
	at = "IsEmpty"
	_ = s.IsEmpty()
	at = "IsFull"
	_ = s.IsFull()
}
