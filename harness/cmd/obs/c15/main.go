// Observer for C15 "Decoding arbitrary bytes is total".
//
// Every Decode of s2 (Point, Cap, Rect, CellID, Cell, CellUnion, Polyline, Loop, Polygon) is run
// on valid encodings, their truncations, single-bit flips, count-field mutations, every version
// byte and random strings, in a CHILD PROCESS with an address-space limit and a watchdog, so that
// a panic, a fatal out-of-memory abort and a hang are all observable outcomes.  A value that
// decodes is then queried (containment, bounds, edges, chains, re-encoding).
//
// [T] outcome class (value / error) and, for a value, the decoded fields are compared with
//
//	decode_T of the Coq model (Model/Codec.v) on the same bytes.
//
// [S] any panic / abort / hang of the implementation, in Decode or in a query on the returned
//
//	value, is a violation (c.Violate) with the input as replay.
package main

import (
	"bufio"
	"bytes"
	"encoding/binary"
	"encoding/hex"
	"encoding/json"
	"fmt"
	"io"
	"math"
	"os"
	"os/exec"
	"path/filepath"
	"strings"
	"time"

	"github.com/golang/geo/s1"
	"github.com/golang/geo/s2"
	cg "verifharness/internal/codecgen"
	"verifharness/internal/vkit"
)

func main() {
	if len(os.Args) > 1 && os.Args[1] == "-child" {
		childMain()
		return
	}
	vkit.Main("C15", []string{"Base.Bytes", "Gen.Codec", "Model.Codec"}, run)
}

// reusePrev: for receiver-reuse inputs (keyed by their unique label), the encodings decoded into
// the same receiver before the input itself
var reusePrev = map[string][][]byte{}

type input struct {
	Kind  cg.Kind
	Data  []byte
	Label string
	Big   bool
}

type result struct {
	Out        string `json:"out"`  // ok | err | panic | abort | hang
	Msg        string `json:"msg"`  // panic message / error text
	Term       string `json:"term"` // Coq term of the decoded value (out == ok)
	Tag        string `json:"tag"`  // sub-class of the decoded value, part of the violation kind (before .use)
	Sub        string `json:"sub"`  // sub-class of the decoded value, part of the violation kind (after .use.)
	NV         int64  `json:"nv"`   // Polygon: the decoded numVertices field
	HasNV      bool   `json:"hasnv"`
	Sig        string `json:"sig"` // shape signature (edges, chains) of a decoded loop/polyline/polygon
	ReuseDiff  string `json:"reuseDiff"`
	ReaderDiff string `json:"readerDiff"` // decoding through a chunked reader differs from the bytes.Reader decode // decoding into a used receiver differs from a fresh decode
	Note       string `json:"note"`       // non-fatal finding of the use phase (re-encoding does not decode)
	Use        string `json:"use"`        // ok | panic
	UseAt      string `json:"useAt"`
	UseMsg     string `json:"useMsg"`
	Millis     int64  `json:"ms"`
}

// ---- parent side: one child at a time, one request at a time ----

type child struct {
	cmd   *exec.Cmd
	in    io.WriteCloser
	lines chan string
	errb  *bytes.Buffer
}

// Address-space caps of the child processes. An ordinary input may legitimately declare counts up
// to the documented limits (50e6 vertices = 1.2 GB), so the ordinary child gets 4 GB; the few
// deliberately large within-limit inputs run in a child of their own with 6 GB.
const (
	normalAS = 4 << 30
	bigAS    = 6 << 30
	// per-input watchdogs
	normalWatchdog = 6 * time.Second
	bigWatchdog    = 60 * time.Second
	retryWatchdog  = 20 * time.Second
	// after this many hangs / memory aborts / crashes of the child the remaining inputs are skipped:
	// the run already has its failing inputs and must end in bounded time
	maxAbnormal = 8
)

func startChild(as uint64) (*child, error) {
	cmd := exec.Command(os.Args[0], "-child", fmt.Sprint(as))
	in, err := cmd.StdinPipe()
	if err != nil {
		return nil, err
	}
	out, err := cmd.StdoutPipe()
	if err != nil {
		return nil, err
	}
	eb := &bytes.Buffer{}
	cmd.Stderr = eb
	if err := cmd.Start(); err != nil {
		return nil, err
	}
	ch := make(chan string, 4)
	go func() {
		r := bufio.NewReaderSize(out, 1<<20)
		for {
			ln, err := r.ReadString('\n')
			if len(ln) > 0 && err == nil {
				ch <- ln
			}
			if err != nil {
				close(ch)
				return
			}
		}
	}()
	return &child{cmd, in, ch, eb}, nil
}

func (c *child) kill() {
	c.cmd.Process.Kill()
	c.cmd.Wait()
}

func tail(s string, n int) string {
	if len(s) > n {
		return s[:n]
	}
	return s
}

// ask sends one input to a child and waits for its answer under the watchdog. The child is
// dead (nil) afterwards if it crashed, ran out of memory or was killed by the watchdog.
func ask(ch *child, inp input, limit time.Duration) (result, *child) {
	block := func(b []byte) {
		var l [4]byte
		binary.LittleEndian.PutUint32(l[:], uint32(len(b)))
		ch.in.Write(l[:])
		ch.in.Write(b)
	}
	prev := reusePrev[inp.Label]
	ch.in.Write([]byte{byte(inp.Kind), byte(len(prev))})
	for _, pb := range prev {
		block(pb)
	}
	block(inp.Data)
	select {
	case ln, ok := <-ch.lines:
		if !ok {
			ch.cmd.Wait()
			msg := ch.errb.String()
			out := "abort"
			if strings.Contains(msg, "out of memory") || strings.Contains(msg, "cannot allocate memory") {
				out = "memory"
			}
			return result{Out: out, Msg: tail(msg, 400)}, nil
		}
		var r result
		if err := json.Unmarshal([]byte(ln), &r); err != nil {
			ch.kill()
			return result{Out: "abort", Msg: "unparsable child output: " + tail(ln, 200)}, nil
		}
		return r, ch
	case <-time.After(limit):
		ch.kill()
		return result{Out: "hang", Msg: fmt.Sprintf("no answer within %v", limit)}, nil
	}
}

// runAll feeds the inputs to child processes, one request at a time, each under a watchdog and an
// address-space cap. A dead or silent child yields memory / abort / hang for the input it was
// working on and a fresh child continues with the next input. The whole run is bounded: after
// maxAbnormal such outcomes, or past the deadline, the remaining inputs are skipped.
func runAll(inputs []input, deadline time.Time) []result {
	res := make([]result, len(inputs))
	var ch *child
	defer func() {
		if ch != nil {
			ch.kill()
		}
	}()
	abnormal := 0
	for i, inp := range inputs {
		if abnormal >= maxAbnormal || time.Now().After(deadline) {
			res[i] = result{Out: "skipped"}
			continue
		}
		if inp.Big {
			big, err := startChild(bigAS)
			if err != nil {
				fmt.Fprintln(os.Stderr, "cannot start child:", err)
				os.Exit(2)
			}
			var alive *child
			res[i], alive = ask(big, inp, bigWatchdog)
			if alive != nil {
				alive.kill()
			} else {
				abnormal++
			}
			continue
		}
		if ch == nil {
			var err error
			ch, err = startChild(normalAS)
			if err != nil {
				fmt.Fprintln(os.Stderr, "cannot start child:", err)
				os.Exit(2)
			}
		}
		res[i], ch = ask(ch, inp, normalWatchdog)
		if ch == nil && res[i].Out == "hang" {
			// a loaded machine can make an innocent decode miss the short watchdog: a hang counts
			// only if it repeats in a fresh child under a longer one
			retry, err := startChild(normalAS)
			if err == nil {
				var alive *child
				res[i], alive = ask(retry, inp, retryWatchdog)
				if alive != nil {
					alive.kill()
					continue
				}
			}
		}
		if ch == nil {
			abnormal++
		}
	}
	return res
}

// ---- inputs ----

func encodeKind(rng *vkit.Rng, k cg.Kind) ([]byte, string) {
	var b []byte
	class := ""
	switch k {
	case cg.KPoint:
		p := cg.AnyPoint(rng)
		b, _ = cg.Enc(func(w *bytes.Buffer) error { return p.Encode(w) })
	case cg.KCap:
		v := cg.AnyCap(rng)
		b, _ = cg.Enc(func(w *bytes.Buffer) error { return v.Encode(w) })
	case cg.KRect:
		v := cg.AnyRect(rng)
		b, _ = cg.Enc(func(w *bytes.Buffer) error { return v.Encode(w) })
	case cg.KCellID, cg.KCell:
		v := cg.AnyCellID(rng)
		b, _ = cg.Enc(func(w *bytes.Buffer) error { return v.Encode(w) })
	case cg.KCellUnion:
		cu := make(s2.CellUnion, rng.Intn(5))
		for i := range cu {
			cu[i] = cg.CellAt(rng, rng.Intn(6), rng.Intn(31), 0)
		}
		b, _ = cg.Enc(func(w *bytes.Buffer) error { return cu.Encode(w) })
	case cg.KPolyline:
		pl := make(s2.Polyline, rng.Intn(5))
		for i := range pl {
			pl[i] = cg.UnitPoint(rng)
		}
		b, _ = cg.Enc(func(w *bytes.Buffer) error { return pl.Encode(w) })
	case cg.KLoop:
		var l *s2.Loop
		for {
			l, class = cg.GenLoop(rng)
			if l.NumVertices() <= 9 {
				break
			}
		}
		b, _ = cg.Enc(func(w *bytes.Buffer) error { return l.Encode(w) })
	case cg.KPolygon:
		var p *s2.Polygon
		for {
			p, class = cg.GenPolygon(rng)
			if _, _, _, nv := s2.VerifC09PolygonFields(p); nv <= 24 {
				break
			}
		}
		b, _ = cg.Enc(func(w *bytes.Buffer) error { return p.Encode(w) })
	}
	return b, class
}

func regressionInputs() []input {
	uv := func(v uint64) []byte {
		var t [10]byte
		return t[:binary.PutUvarint(t[:], v)]
	}
	cat := func(parts ...[]byte) []byte {
		var out []byte
		for _, p := range parts {
			out = append(out, p...)
		}
		return out
	}
	f64 := func(x float64) []byte {
		var t [8]byte
		binary.LittleEndian.PutUint64(t[:], math.Float64bits(x))
		return t[:]
	}
	nanTriangle := cat(f64(1), f64(0), f64(0), f64(0), f64(math.NaN()), f64(0), f64(0), f64(0), f64(1))
	// a compressed polygon with one loop of three level-0 vertices and one off-centre entry whose index is idx
	offc := func(idx uint64) []byte {
		return cat([]byte{4, 0}, uv(1), uv(3), uv(3*6+0), uv(0), uv(0), uv(1), uv(idx), make([]byte, 24), uv(0), uv(0))
	}
	encLoop := func(l *s2.Loop) []byte {
		b, _ := cg.Enc(func(w *bytes.Buffer) error { return l.Encode(w) })
		return b
	}
	encRect := func(r s2.Rect) []byte {
		b, _ := cg.Enc(func(w *bytes.Buffer) error { return r.Encode(w) })
		return b
	}
	u32 := func(n uint32) []byte {
		var t [4]byte
		binary.LittleEndian.PutUint32(t[:], n)
		return t[:]
	}
	// lossless (version 1) polygons the Go encoder itself never writes (it uses the compressed
	// format for them) but other implementations and hand-written inputs do
	lossless := func(hasHoles byte, bound s2.Rect, loops ...*s2.Loop) []byte {
		b := cat([]byte{1, 1, hasHoles}, u32(uint32(len(loops))))
		for _, l := range loops {
			b = append(b, encLoop(l)...)
		}
		return append(b, encRect(bound)...)
	}
	tri := s2.LoopFromPoints([]s2.Point{s2.PointFromCoords(1, 0, 0), s2.PointFromCoords(0, 1, 0), s2.PointFromCoords(0, 0, 1)})
	return []input{
		{cg.KPolygon, lossless(0, s2.EmptyRect()), "lossless: empty polygon (no loops)", false},
		{cg.KPolygon, lossless(0, s2.FullRect(), s2.FullLoop()), "lossless: full polygon", false},
		{cg.KPolygon, lossless(0, s2.EmptyRect(), s2.EmptyLoop()), "lossless: polygon with the empty loop", false},
		{cg.KPolygon, lossless(0, s2.FullRect(), s2.FullLoop(), s2.EmptyLoop()), "lossless: full and empty loop", false},
		{cg.KPolygon, lossless(1, tri.RectBound(), tri, s2.EmptyLoop()), "lossless: triangle and empty loop", false},
		{cg.KPolygon, lossless(0, tri.RectBound(), s2.FullLoop(), tri), "lossless: full loop and triangle", false},
		{cg.KPolygon, lossless(0, tri.RectBound(), tri), "lossless: triangle", false},
		{cg.KPolygon, []byte{4, 30, 1, 4}, "face runs: input ends before the face-run table", false},
		{cg.KPolygon, []byte{4, 30, 1, 4, 12}, "face runs: input ends inside the face-run table", false},
		{cg.KPolygon, []byte{4, 30, 1, 4, 0}, "face runs: run with count 0", false},
		{cg.KPolygon, []byte{4, 30, 1, 4, 5, 0, 0, 0, 0}, "face runs: run with count 0 on face 5", false},
		{cg.KPolygon, []byte{4, 30, 1, 4, 12, 0, 24, 1, 1, 1}, "face runs: count 0 between valid runs", false},
		{cg.KPolygon, []byte{4, 30, 1, 4, 0x80}, "face runs: unterminated varint", false},
		{cg.KPolygon, cat([]byte{4, 1}, uv(1<<40)), "regress:fb9db6b nloops=2^40", false},
		{cg.KPolygon, cat([]byte{4, 1}, uv(1<<63)), "regress:fb9db6b nloops=2^63", false},
		{cg.KPolygon, cat([]byte{4, 1}, uv(cg.MaxLoops+1)), "regress:fb9db6b nloops=limit+1", false},
		{cg.KPolygon, offc(1 << 63), "regress:c81b203 offcentre idx=2^63", false},
		{cg.KPolygon, offc(1<<64 - 1), "regress:c81b203 offcentre idx=2^64-1", false},
		{cg.KPolygon, offc(3), "regress:c81b203 offcentre idx=len", false},
		{cg.KPolygon, offc(2), "offcentre idx=len-1 (valid)", false},
		{cg.KCellUnion, cat([]byte{1}, bytes.Repeat([]byte{0xff}, 8)), "regress:1dec9aa ncells=-1", false},
		{cg.KCellUnion, cat([]byte{1}, []byte{0, 0, 0, 0, 0, 0, 0, 0x80}), "regress:1dec9aa ncells=-2^63", false},
		{cg.KPolyline, []byte{2, 0, 0, 0, 0}, "regress:1468f2c polyline bad version", false},
		{cg.KPolyline, []byte{1, 1, 0, 0, 0, 1, 2, 3}, "regress:1468f2c polyline truncated", false},
		{cg.KPolyline, []byte{}, "regress:1468f2c polyline empty input", false},
		{cg.KLoop, cat([]byte{1, 0, 0, 0, 0, 1, 0, 0, 0, 0, 1}, make([]byte, 32)), "regress:3565354 loop with 0 vertices", false},
		{cg.KLoop, cat([]byte{1, 3, 0, 0, 0}, nanTriangle, []byte{0, 0, 0, 0, 0, 1}, make([]byte, 32)), "regress:4fc5f5f loop with a NaN coordinate", false},
		{cg.KPolyline, cat([]byte{1, 3, 0, 0, 0}, nanTriangle), "regress:4fc5f5f polyline with a NaN coordinate", false},
		{cg.KPolygon, cat([]byte{1, 1, 0, 1, 0, 0, 0}, []byte{1, 3, 0, 0, 0}, nanTriangle, []byte{0, 0, 0, 0, 0, 1}, make([]byte, 32), []byte{1}, make([]byte, 32)), "regress:4fc5f5f polygon with a NaN coordinate", false},
		{cg.KPolygon, cat([]byte{4, 0}, uv(1), uv(3), uv(3*6+0), uv(0), uv(0), uv(1), uv(1), f64(math.NaN()), f64(0), f64(1), uv(0), uv(0)), "regress:4fc5f5f compressed polygon, off-centre NaN", false},
		{cg.KCell, []byte{0x48, 0xbc, 0xdc, 0x5c, 0x22, 0xc0, 0x5b, 0xf4}, "regress:8beed88 cell id with face 7", false},
		{cg.KCellUnion, cat([]byte{1, 1, 0, 0, 0, 0, 0, 0, 0}, []byte{0x48, 0xbc, 0xdc, 0x5c, 0x22, 0xc0, 0x5b, 0xf4}), "regress:847439f cell union with an invalid id", false},
		{cg.KCellUnion, cat([]byte{1, 2, 0, 0, 0, 0, 0, 0, 0}, []byte{0, 0, 0, 0, 0, 0, 0, 0x10}, make([]byte, 8)), "regress:847439f cell union with id 0", false},
		{cg.KPolygon, cat([]byte{1, 1, 0, 1, 0, 0, 0}, []byte{1, 0, 0, 0, 0, 1, 0, 0, 0, 0, 1}, make([]byte, 32), []byte{1}, make([]byte, 32)), "polygon with one 0-vertex loop", false},
		{cg.KPolygon, cat([]byte{4, 30}, uv(1), uv(0), uv(0), uv(3), uv(5)), "compressed polygon, 0-vertex loop", false},
		{cg.KPolygon, cat([]byte{4, 30}, uv(1), uv(0), uv(0), uv(2), uv(5), []byte{1}, make([]byte, 32)), "compressed polygon, 0-vertex loop with bound", false},
	}
}

// corpusInputs reads corpus/C15/*.txt (lines "<Type> <hex> <label>"); the observer runs in harness/.
func corpusInputs() []input {
	var ins []input
	files, _ := filepath.Glob("../corpus/C15/*.txt")
	for _, f := range files {
		data, err := os.ReadFile(f)
		if err != nil {
			continue
		}
		for _, ln := range strings.Split(string(data), "\n") {
			fs := strings.Fields(ln)
			if len(fs) < 2 || strings.HasPrefix(ln, "#") {
				continue
			}
			b, err := hex.DecodeString(fs[1])
			if err != nil {
				continue
			}
			for k, name := range cg.KindNames {
				if name == fs[0] {
					ins = append(ins, input{cg.Kind(k), b, "corpus " + strings.Join(fs[2:], " "), false})
				}
			}
		}
	}
	return ins
}

// fieldInputs: every float64 field of a Rect and of a Cap replaced by non-finite and out-of-range
// values, on every run (not seed dependent): Rect.Decode must refuse an invalid rectangle, and a
// Cap that decodes must answer its queries.
func fieldInputs() []input {
	vals := []float64{math.NaN(), math.Inf(1), math.Inf(-1), 1e300, -1e300, 5, -5, math.Nextafter(math.Pi, 4), -math.Nextafter(math.Pi, 4),
		math.Nextafter(math.Pi/2, 2), math.Float64frombits(0xFFF0000000000001), 4.0000001, -1e-320, 0, math.Copysign(0, -1)}
	le := func(x float64) []byte {
		var t [8]byte
		binary.LittleEndian.PutUint64(t[:], math.Float64bits(x))
		return t[:]
	}
	var ins []input
	rects := []s2.Rect{s2.FullRect(), s2.EmptyRect(), s2.RectFromLatLng(s2.LatLngFromDegrees(10, 20)).AddPoint(s2.LatLngFromDegrees(30, -170))}
	for ri, r := range rects {
		base, _ := cg.Enc(func(w *bytes.Buffer) error { return r.Encode(w) })
		for f := 0; f < 4; f++ {
			for vi, v := range vals {
				m := append([]byte{}, base...)
				copy(m[1+8*f:], le(v))
				ins = append(ins, input{cg.KRect, m, fmt.Sprintf("Rect field%d=value%d base%d", f, vi, ri), false})
			}
		}
	}
	caps := []s2.Cap{s2.FullCap(), s2.EmptyCap(), s2.CapFromCenterAngle(s2.PointFromCoords(1, 2, 3), 0.5)}
	for ci, cp := range caps {
		base, _ := cg.Enc(func(w *bytes.Buffer) error { return cp.Encode(w) })
		for f := 0; f < 4; f++ {
			for vi, v := range vals {
				m := append([]byte{}, base...)
				copy(m[8*f:], le(v))
				ins = append(ins, input{cg.KCap, m, fmt.Sprintf("Cap field%d=value%d base%d", f, vi, ci), false})
			}
		}
	}
	// all fields non-finite at once, and a huge non-unit centre
	ins = append(ins, input{cg.KCap, bytes.Repeat(le(math.NaN()), 4), "Cap all NaN", false},
		input{cg.KCap, bytes.Repeat(le(math.Inf(1)), 4), "Cap all +Inf", false},
		input{cg.KCap, append(bytes.Repeat(le(1e308), 3), le(2)...), "Cap huge centre", false},
		input{cg.KCap, append(bytes.Repeat(le(0), 3), le(1)...), "Cap zero centre", false},
		input{cg.KRect, append([]byte{1}, bytes.Repeat(le(math.NaN()), 4)...), "Rect all NaN", false})
	return ins
}

// reuseInputs: a second (and third) encoding decoded into a receiver that already holds a decoded
// value: all ordered pairs of a pool of shapes per type (many loops -> few loops, long -> short,
// compressed <-> lossless, full / empty <-> ordinary, an error after a success). The outcome, the
// decoded fields and the edge / chain structure must be those of a fresh decode.
func reuseInputs(c *vkit.Collector, rng *vkit.Rng) []input {
	enc := func(f func(w *bytes.Buffer) error) []byte { b, _ := cg.Enc(f); return b }
	snapped := func(lat, lng, radius float64, n int) *s2.Loop {
		reg := s2.RegularLoop(s2.PointFromLatLng(s2.LatLngFromDegrees(lat, lng)), s1.Angle(radius)*s1.Degree, n)
		vs := make([]s2.Point, n)
		for i, v := range reg.Vertices() {
			vs[i] = s2.CellFromPoint(v).ID().Point()
		}
		return s2.LoopFromPoints(vs)
	}
	polyBytes := func(p *s2.Polygon) []byte { return enc(func(w *bytes.Buffer) error { return p.Encode(w) }) }
	var many, many20 []*s2.Loop
	for i := 0; i < 13; i++ {
		many = append(many, snapped(10, float64(10*i), 1, 4))
	}
	for i := 0; i < 20; i++ {
		many20 = append(many20, s2.RegularLoop(s2.PointFromLatLng(s2.LatLngFromDegrees(-30, float64(12*i))), s1.Angle(1)*s1.Degree, 3+i%4))
	}
	tri := s2.LoopFromPoints([]s2.Point{s2.PointFromCoords(1, 0, 0), s2.PointFromCoords(0, 1, 0), s2.PointFromCoords(0, 0, 1)})
	trunc := func(b []byte) []byte { return b[:len(b)*2/3] }
	pools := map[cg.Kind][][]byte{}
	polys := [][]byte{
		polyBytes(s2.PolygonFromLoops(many)),                                                            // 13 loops, compressed
		polyBytes(s2.PolygonFromLoops(many20)),                                                          // 20 loops, lossless
		polyBytes(s2.PolygonFromLoops([]*s2.Loop{snapped(-20, 40, 2, 10)})),                             // one long loop, compressed
		polyBytes(s2.PolygonFromLoops([]*s2.Loop{snapped(-20, 40, 5, 70)})),                             // one loop with an encoded bound
		polyBytes(s2.PolygonFromLoops([]*s2.Loop{s2.RegularLoop(s2.PointFromCoords(1, 1, 1), 0.2, 9)})), // lossless
		polyBytes(s2.PolygonFromLoops([]*s2.Loop{snapped(40, -100, 8, 12), snapped(40, -100, 3, 5)})),   // shell + hole
		polyBytes(s2.FullPolygon()), polyBytes(&s2.Polygon{}), polyBytes(s2.PolygonFromLoops([]*s2.Loop{tri})),
	}
	polys = append(polys, trunc(polys[0]), trunc(polys[1]), []byte{9, 9})
	pools[cg.KPolygon] = polys
	loopB := func(l *s2.Loop) []byte { return enc(func(w *bytes.Buffer) error { return l.Encode(w) }) }
	loops := [][]byte{loopB(snapped(0, 0, 3, 40)), loopB(tri), loopB(s2.EmptyLoop()), loopB(s2.FullLoop()), loopB(s2.RegularLoop(s2.PointFromCoords(0, 1, 1), 0.5, 7))}
	pools[cg.KLoop] = append(loops, trunc(loops[0]), []byte{7})
	pl := func(n int) []byte {
		p := make(s2.Polyline, n)
		for i := range p {
			p[i] = cg.UnitPoint(rng)
		}
		return enc(func(w *bytes.Buffer) error { return p.Encode(w) })
	}
	pools[cg.KPolyline] = [][]byte{pl(9), pl(2), pl(0), pl(1), trunc(pl(6))}
	cu := func(n int) []byte {
		u := make(s2.CellUnion, n)
		for i := range u {
			u[i] = cg.CellAt(rng, i%6, 3+i%20, 0)
		}
		return enc(func(w *bytes.Buffer) error { return u.Encode(w) })
	}
	pools[cg.KCellUnion] = [][]byte{cu(12), cu(1), cu(0), trunc(cu(5))}
	simple := func(k cg.Kind) [][]byte {
		var out [][]byte
		for i := 0; i < 3; i++ {
			b, _ := encodeKind(rng, k)
			out = append(out, b)
		}
		return append(out, trunc(out[0]))
	}
	for _, k := range []cg.Kind{cg.KPoint, cg.KCap, cg.KRect, cg.KCellID, cg.KCell} {
		pools[k] = simple(k)
	}
	var ins []input
	for k := cg.Kind(0); k < cg.NumKinds; k++ {
		pool := pools[k]
		for i, a := range pool {
			for j, b := range pool {
				lab := fmt.Sprintf("%s reuse %d->%d", cg.KindNames[k], i, j)
				reusePrev[lab] = [][]byte{a}
				ins = append(ins, input{Kind: k, Data: b, Label: lab})
				c.Class("receiver-reuse")
			}
		}
		// a third decode
		for t := 0; t < 6 && len(pool) > 2; t++ {
			a, b, d := pool[rng.Intn(len(pool))], pool[rng.Intn(len(pool))], pool[rng.Intn(len(pool))]
			lab := fmt.Sprintf("%s reuse twice #%d", cg.KindNames[k], t)
			reusePrev[lab] = [][]byte{a, b}
			ins = append(ins, input{Kind: k, Data: d, Label: lab})
			c.Class("receiver-reuse")
		}
	}
	return ins
}

// continuationInputs: "error in part k, well-formed continuation" (seed independent). The part that
// must be rejected is followed by parts that are well-formed and valid on their own (valid bound
// Rects, finite unit vertices, valid cell ids), in three layouts: the bad part complete; the bad
// part cut right after the offending field; cut and followed by a Rect. An error must stick: a
// decoder that resumes on the continuation returns a half-built value.
func continuationInputs() []input {
	f64 := func(x float64) []byte {
		var t [8]byte
		binary.LittleEndian.PutUint64(t[:], math.Float64bits(x))
		return t[:]
	}
	u32 := func(n uint32) []byte {
		var t [4]byte
		binary.LittleEndian.PutUint32(t[:], n)
		return t[:]
	}
	u64 := func(n uint64) []byte {
		var t [8]byte
		binary.LittleEndian.PutUint64(t[:], n)
		return t[:]
	}
	cat := func(parts ...[]byte) []byte {
		var out []byte
		for _, p := range parts {
			out = append(out, p...)
		}
		return out
	}
	rectB := func(r s2.Rect) []byte { b, _ := cg.Enc(func(w *bytes.Buffer) error { return r.Encode(w) }); return b }
	full := rectB(s2.FullRect())
	badRect := cat([]byte{1}, f64(2), f64(3), f64(0), f64(1)) // lat beyond pi/2
	pts := func(k int) []byte {
		tri := [][3]float64{{1, 0, 0}, {0, 1, 0}, {0, 0, 1}, {-1, 0, 0}, {0, -1, 0}}
		var b []byte
		for i := 0; i < 3; i++ {
			p := tri[(i+k)%5]
			b = cat(b, f64(p[0]), f64(p[1]), f64(p[2]))
		}
		return b
	}
	goodLoop := func(k int) []byte { return cat([]byte{1}, u32(3), pts(k), []byte{0}, u32(uint32(k%2)), full) }
	type bad struct {
		name       string
		whole, cut []byte // the bad loop complete / cut right after the offending field
	}
	badLoops := func(k int) []bad {
		nanPts := cat(f64(math.NaN()), pts(k)[8:])
		infPts := cat(pts(k)[:16], f64(math.Inf(-1)))
		return []bad{
			{"count=2^32-1", cat([]byte{1}, u32(0xFFFFFFFF), pts(k), []byte{0}, u32(0), full), cat([]byte{1}, u32(0xFFFFFFFF))},
			{"count=limit+1", cat([]byte{1}, u32(cg.MaxVertices+1), pts(k), []byte{0}, u32(0), full), cat([]byte{1}, u32(cg.MaxVertices+1))},
			{"version=2", cat([]byte{2}, u32(3), pts(k), []byte{0}, u32(0), full), []byte{2}},
			{"version=0", cat([]byte{0}, u32(3), pts(k), []byte{0}, u32(0), full), []byte{0}},
			{"NaN coordinate", cat([]byte{1}, u32(3), nanPts, []byte{0}, u32(0), full), cat([]byte{1}, u32(3), f64(math.NaN()))},
			{"-Inf coordinate", cat([]byte{1}, u32(3), infPts, []byte{0}, u32(0), full), cat([]byte{1}, u32(3), infPts)},
			{"invalid bound", cat([]byte{1}, u32(3), pts(k), []byte{0}, u32(0), badRect), cat([]byte{1}, u32(3), pts(k), []byte{0}, u32(0), badRect)},
			{"bound version=3", cat([]byte{1}, u32(3), pts(k), []byte{0}, u32(0), []byte{3}, full[1:]), cat([]byte{1}, u32(3), pts(k), []byte{0}, u32(0), []byte{3})},
		}
	}
	var ins []input
	add := func(k cg.Kind, data []byte, label string) {
		ins = append(ins, input{Kind: k, Data: data, Label: cg.KindNames[k] + " continuation: " + label})
	}
	// Loop: the bad loop alone, cut, and cut + a Rect (which a forgetful decoder takes for the bound)
	for _, b := range badLoops(0) {
		add(cg.KLoop, b.whole, b.name+" (whole)")
		add(cg.KLoop, b.cut, b.name+" (cut)")
		add(cg.KLoop, cat(b.cut, full), b.name+" (cut, then a Rect)")
		add(cg.KLoop, cat(b.cut, goodLoop(1)), b.name+" (cut, then a loop)")
	}
	// Polygon, lossless format, 2..4 loops, the bad one in every position
	for nl := 2; nl <= 4; nl++ {
		for k := 0; k < nl; k++ {
			for _, b := range badLoops(k) {
				for layout, part := range [][]byte{b.whole, b.cut, cat(b.cut, full)} {
					data := cat([]byte{1, 1, 0}, u32(uint32(nl)))
					for i := 0; i < nl; i++ {
						if i == k {
							data = append(data, part...)
						} else {
							data = append(data, goodLoop(i)...)
						}
					}
					data = append(data, full...)
					add(cg.KPolygon, data, fmt.Sprintf("lossless %d loops, loop %d %s, layout %d", nl, k, b.name, layout))
				}
			}
		}
		// a bad polygon header followed by well-formed loops
		body := []byte{}
		for i := 0; i < nl; i++ {
			body = append(body, goodLoop(i)...)
		}
		add(cg.KPolygon, cat([]byte{1, 1, 0}, u32(cg.MaxLoops+1), body, full), fmt.Sprintf("lossless nloops=limit+1 then %d loops", nl))
		add(cg.KPolygon, cat([]byte{1, 1, 0}, u32(uint32(nl)), body, badRect), fmt.Sprintf("lossless %d loops, invalid polygon bound", nl))
	}
	// Polygon, compressed format: a valid encoding with unsnapped vertices, poisoned in loop k
	for nl := 2; nl <= 4; nl++ {
		var loops []*s2.Loop
		for i := 0; i < nl; i++ {
			reg := s2.RegularLoop(s2.PointFromCoords(1, float64(i), 0.5), 0.05, 8)
			vs := make([]s2.Point, 8)
			for j, v := range reg.Vertices() {
				vs[j] = s2.CellFromPoint(v).ID().Parent(20).Point()
				if j == 3 {
					vs[j] = v // one off-centre vertex per loop
				}
			}
			loops = append(loops, s2.VerifC09LoopRaw(vs, false, i%2, s2.FullRect()))
		}
		p := s2.VerifC09PolygonRaw(loops, false, s2.FullRect())
		enc, _ := cg.Enc(func(w *bytes.Buffer) error { return p.Encode(w) })
		if len(enc) == 0 || enc[0] != 4 {
			continue
		}
		li, ci := 0, 0
		coords := cg.CoordOffsets(cg.KPolygon, enc)
		for _, fld := range cg.Annotate(cg.KPolygon, enc) {
			switch fld.Name {
			case "Loop.compressed.nvertices":
				add(cg.KPolygon, cg.MutateField(enc, fld, cg.MaxVertices+1), fmt.Sprintf("compressed %d loops, loop %d count=limit+1", nl, li))
				add(cg.KPolygon, cg.MutateField(enc, fld, 1<<63), fmt.Sprintf("compressed %d loops, loop %d count=2^63", nl, li))
				li++
			case "offCentreIndex":
				add(cg.KPolygon, cg.MutateField(enc, fld, 8), fmt.Sprintf("compressed %d loops, off-centre index = nvertices (#%d)", nl, ci))
				ci++
			}
		}
		for j, off := range coords {
			if j%3 == 0 {
				m := append([]byte{}, enc...)
				binary.LittleEndian.PutUint64(m[off:], math.Float64bits(math.NaN()))
				add(cg.KPolygon, m, fmt.Sprintf("compressed %d loops, off-centre NaN coordinate (#%d)", nl, j/3))
			}
		}
	}
	// Polyline: a NaN / Inf coordinate in vertex k, later vertices fine; count beyond the limit
	for k := 0; k < 3; k++ {
		body := cat(pts(0), pts(1))
		m := append([]byte{}, body...)
		copy(m[24*k:], f64(math.NaN()))
		add(cg.KPolyline, cat([]byte{1}, u32(6), m), fmt.Sprintf("NaN in vertex %d", k))
		copy(m[24*k:], f64(math.Inf(1)))
		add(cg.KPolyline, cat([]byte{1}, u32(6), m), fmt.Sprintf("+Inf in vertex %d", k))
	}
	add(cg.KPolyline, cat([]byte{1}, u32(cg.MaxVertices+1), pts(0)), "count=limit+1 then vertices")
	add(cg.KPolyline, cat([]byte{3}, u32(3), pts(0)), "version=3 then vertices")
	// CellUnion: an invalid id in position k, valid ids after it; count beyond the limit
	valid := []uint64{uint64(s2.CellIDFromFace(0)), uint64(s2.CellIDFromFace(3).Children()[1]), uint64(s2.CellIDFromFace(5).ChildBeginAtLevel(30))}
	for k := 0; k < 3; k++ {
		for _, badID := range []uint64{0, 0xF45BC0225CDCBC48, 0xFFFFFFFFFFFFFFFF, 0x1000000000000002} {
			data := cat([]byte{1}, u64(3))
			for i := 0; i < 3; i++ {
				if i == k {
					data = append(data, u64(badID)...)
				} else {
					data = append(data, u64(valid[i])...)
				}
			}
			add(cg.KCellUnion, data, fmt.Sprintf("invalid id %#x in position %d", badID, k))
		}
	}
	add(cg.KCellUnion, cat([]byte{1}, u64(cg.MaxCells+1), u64(valid[0]), u64(valid[1])), "count=limit+1 then ids")
	add(cg.KCellUnion, cat([]byte{2}, u64(2), u64(valid[0]), u64(valid[1])), "version=2 then ids")
	return ins
}

func buildInputs(c *vkit.Collector, rng *vkit.Rng, budget int) []input {
	ins := append(corpusInputs(), regressionInputs()...)
	ins = append(ins, fieldInputs()...)
	for _, ci := range continuationInputs() {
		ins = append(ins, ci)
		c.Class("error-then-well-formed-continuation")
	}
	ins = append(ins, reuseInputs(c, rng)...)
	for _, e := range cg.LargeEncodings(rng) {
		ins = append(ins, input{Kind: e.Kind, Data: e.Data, Label: cg.KindNames[e.Kind] + " " + e.Label})
		c.Class("valid(large, > 4096 bytes)")
	}
	c.Extra["corpus_inputs"] = len(ins) - len(regressionInputs())
	add := func(k cg.Kind, data []byte, label string, big bool) {
		ins = append(ins, input{k, data, cg.KindNames[k] + " " + label, big})
	}
	perKind := 3 * budget
	for k := cg.Kind(0); k < cg.NumKinds; k++ {
		// count mutations that stay within the documented limit but are large: at most [budget]
		// of them per type and run (each may take seconds and up to 1.2 GB in the child)
		var bigs []input
		for r := 0; r < perKind; r++ {
			b, class := encodeKind(rng, k)
			add(k, b, "valid "+class, false)
			c.Class("valid")
			// truncations at every length (sampled beyond 160 bytes)
			for n := 0; n < len(b); n++ {
				if n > 160 && rng.Intn(8) != 0 {
					continue
				}
				add(k, b[:n], fmt.Sprintf("truncated@%d/%d", n, len(b)), false)
				c.Class("truncated")
			}
			// one extra trailing byte must not matter
			add(k, append(append([]byte{}, b...), 0xAA), "trailing-byte", false)
			// single-bit flips: every bit of the first 12 bytes, then sampled
			for bit := 0; bit < 8*len(b); bit++ {
				if bit >= 96 && rng.Intn(24) != 0 {
					continue
				}
				m := append([]byte{}, b...)
				m[bit/8] ^= 1 << uint(bit%8)
				add(k, m, fmt.Sprintf("bitflip@%d", bit), false)
				c.Class("bitflip")
			}
			// count fields
			for _, mu := range cg.FieldMutations(k, b) {
				if mu.Big {
					bigs = append(bigs, input{k, mu.Data, cg.KindNames[k] + " count " + mu.Label, true})
					continue
				}
				c.Class("count-mutation")
				add(k, mu.Data, "count "+mu.Label, false)
			}
			// vertex coordinates replaced by NaN / infinities (refused since 4fc5f5f)
			for _, mu := range cg.CoordMutations(k, b, rng.Intn) {
				add(k, mu.Data, mu.Label, false)
				c.Class("nonfinite-coordinate")
			}
			// version bytes
			if r == 0 && len(b) > 0 {
				for v := 0; v < 256; v++ {
					m := append([]byte{}, b...)
					m[0] = byte(v)
					add(k, m, fmt.Sprintf("version=%d", v), false)
					c.Class("version-byte")
				}
			}
		}
		if k == cg.KPolygon {
			// a few larger valid polygons (64+ vertices: encoded bounds), decoded as they are: the
			// mutation families above stay on small encodings so that the case files stay small
			for r := 0; r < 2*budget; r++ {
				p, class := cg.GenPolygon(rng)
				b, _ := cg.Enc(func(w *bytes.Buffer) error { return p.Encode(w) })
				add(k, b, "valid(large) "+class, false)
				c.Class("valid")
			}
		}
		for q := 0; q < budget && len(bigs) > 0; q++ {
			j := rng.Intn(len(bigs))
			ins = append(ins, bigs[j])
			bigs = append(bigs[:j], bigs[j+1:]...)
			c.Class("count-mutation-within-limit(run)")
		}
		for range bigs {
			c.Class("count-mutation-within-limit(skipped)")
		}
		// random strings
		for r := 0; r < 12*budget; r++ {
			n := rng.Intn(48)
			m := make([]byte, n)
			for i := range m {
				switch rng.Intn(4) {
				case 0:
					m[i] = []byte{0, 1, 4, 0x80, 0xff, 0x7f, 30, 31}[rng.Intn(8)]
				default:
					m[i] = byte(rng.U64())
				}
			}
			if n > 0 && rng.Bool() {
				m[0] = []byte{1, 4}[rng.Intn(2)]
			}
			add(k, m, "random", false)
			c.Class("random")
		}
	}
	return ins
}

// ---- the run ----

func coqDecode(k cg.Kind, data []byte) (fn, eq string) {
	switch k {
	case cg.KPoint:
		return "decode_point", "point_eqb"
	case cg.KCap:
		return "decode_cap", "cap_eqb"
	case cg.KRect:
		return "decode_rect", "rect_eqb"
	case cg.KCellID:
		return "decode_cellid", "Z.eqb"
	case cg.KCell:
		return "decode_cell", "Z.eqb"
	case cg.KCellUnion:
		return "decode_cellunion", "(list_eqb Z.eqb)"
	case cg.KPolyline:
		return "decode_polyline", "(list_eqb point_eqb)"
	case cg.KLoop:
		return "decode_loop", "loop_eqb"
	}
	return "decode_polygon", "dpolygon_matches"
}

func run(c *vkit.Collector, rng *vkit.Rng, budget int) {
	ins := buildInputs(c, rng, budget)
	t0 := time.Now()
	secs := 100 * budget
	if secs > 600 {
		secs = 600
	}
	deadline := t0.Add(time.Duration(secs) * time.Second)
	res := runAll(ins, deadline)
	skipped := 0
	outcomes := map[string]int{}
	var slowest int64
	for i, inp := range ins {
		r := res[i]
		kn := cg.KindNames[inp.Kind]
		if r.Out == "skipped" {
			skipped++
			continue
		}
		outcomes[kn+":"+r.Out]++
		if r.Millis > slowest {
			slowest = r.Millis
		}
		hexIn := hex.EncodeToString(inp.Data)
		c.Eval(fmt.Sprintf("%d:%s", inp.Kind, hexIn), r.Out == "ok" || len(inp.Data) > 0)
		rep := map[string]interface{}{"type": kn, "input_hex": tail(hexIn, 2000), "label": inp.Label, "detail": tail(r.Msg, 300)}
		if prev := reusePrev[inp.Label]; len(prev) > 0 {
			var ph []string
			for _, pb := range prev {
				ph = append(ph, tail(hex.EncodeToString(pb), 1200))
			}
			rep["decoded_before_into_the_same_receiver_hex"] = ph
		}
		if r.ReaderDiff != "" {
			rep2 := map[string]interface{}{"type": kn, "input_hex": tail(hexIn, 2000), "input_len": len(inp.Data), "label": inp.Label, "detail": r.ReaderDiff}
			c.Violate(kn+".Decode.readerKind.differs", r.ReaderDiff, rep2)
		}
		fn, eq := coqDecode(inp.Kind, inp.Data)
		bt := cg.InZ(cg.BytesT(inp.Data))
		switch r.Out {
		case "ok":
			c.Check(kn+" ok "+inp.Label, vkit.App("result_eqb "+eq, vkit.App(fn, bt), vkit.App("Ok", cg.InZ(r.Term))))
			if r.HasNV {
				// the cached vertex count the encoder's format choice relies on
				c.Check(kn+" numVertices "+inp.Label, vkit.App("Z.eqb", vkit.App("dpolygon_num_vertices", cg.InZ(r.Term)), vkit.Z(r.NV)))
			}
			if r.ReuseDiff != "" {
				rep["detail"] = r.ReuseDiff
				c.Violate(kn+".Decode.reuse.differs", r.ReuseDiff, rep)
			}
			if r.Note != "" {
				rep["detail"] = r.Note
				c.Violate(kn+r.Tag+".use.Encode.undecodable", r.Note, rep)
			}
			if r.Use != "ok" {
				rep["query"] = r.UseAt
				rep["detail"] = tail(r.UseMsg, 300)
				kind := kn + r.Tag + ".use." + r.Sub + r.UseAt
				if !strings.HasSuffix(kind, ".panic") {
					kind += ".panic"
				}
				c.Violate(kind, "a decoded value panics when queried: "+tail(r.UseMsg, 120), rep)
			}
		case "err":
			if r.ReuseDiff != "" {
				rep["detail"] = r.ReuseDiff
				c.Violate(kn+".Decode.reuse.differs", r.ReuseDiff, rep)
			}
			c.Check(kn+" err "+inp.Label, vkit.App("Z.eqb", vkit.App("result_class", vkit.App(fn, bt)), "1%Z"))
		default:
			// panic, abort (child died: fatal error / out of memory), hang
			c.Check(kn+" "+r.Out+" "+inp.Label, vkit.App("Z.eqb", vkit.App("result_class", vkit.App(fn, bt)), "2%Z"))
			c.Violate(kn+".Decode."+r.Out, "Decode outcome "+r.Out+": "+tail(r.Msg, 160), rep)
		}
		if i < 6 || (r.Out == "ok" && len(c.Samples) < 8 && i%97 == 0) {
			c.Sample(map[string]interface{}{"type": kn, "label": inp.Label, "input_hex": tail(hexIn, 120), "outcome": r.Out, "use": r.Use})
		}
		if inp.Big {
			c.Extra[fmt.Sprintf("within_limit:%d:%s", i, inp.Label)] = map[string]interface{}{"outcome": r.Out, "ms": r.Millis}
		}
	}
	c.Extra["skipped_after_failures_or_deadline"] = skipped
	c.Extra["outcomes"] = outcomes
	c.Extra["child_runs"] = len(ins)
	c.Extra["child_wall_s"] = time.Since(t0).Seconds()
	c.Extra["slowest_decode_ms"] = slowest
}
