package main

import (
	"fmt"
	"math"
	"strings"

	"github.com/golang/geo/s2"
	"verifharness/internal/vkit"
)

// ---- vertex tokens <-> points (the accessors never look at coordinates) ----

const (
	tokEmpty = 1000001 // the vertex of s2.EmptyLoop()
	tokFull  = 1000002 // the vertex of s2.FullLoop()
)

var tokOf = map[s2.Point]int{}
var ptOf = map[int]s2.Point{}

func init() {
	tokOf[s2.EmptyLoop().Vertex(0)] = tokEmpty
	tokOf[s2.FullLoop().Vertex(0)] = tokFull
}

// pt returns the point standing for token k (distinct tokens, distinct points).
func pt(k int) s2.Point {
	if p, ok := ptOf[k]; ok {
		return p
	}
	// a fine spiral in the northern hemisphere; injective on the range used
	lat := 5.0 + 70.0*float64(k%9973)/9973.0
	lng := -170.0 + 340.0*float64((k*7919)%10007)/10007.0
	p := s2.PointFromLatLng(s2.LatLngFromDegrees(lat, lng))
	if old, dup := tokOf[p]; dup && old != k {
		panic("token collision")
	}
	ptOf[k] = p
	tokOf[p] = k
	return p
}
func pts(toks []int) []s2.Point {
	out := make([]s2.Point, len(toks))
	for i, k := range toks {
		out[i] = pt(k)
	}
	return out
}
func tok(p s2.Point) int {
	if k, ok := tokOf[p]; ok {
		return k
	}
	return -2 // a point that is no vertex of the shape
}

// ---- observation table of one shape (mirrors Model/Shapes.v [dump]) ----

type resEdge struct {
	panicked bool
	a, b     int
	e        s2.Edge
}
type resZZ struct {
	panicked bool
	a, b     int
}

func callEdge(f func() s2.Edge) (r resEdge) {
	defer func() {
		if recover() != nil {
			r = resEdge{panicked: true}
		}
	}()
	e := f()
	return resEdge{false, tok(e.V0), tok(e.V1), e}
}
func callZZ(f func() (int, int)) (r resZZ) {
	defer func() {
		if recover() != nil {
			r = resZZ{panicked: true}
		}
	}()
	a, b := f()
	return resZZ{false, a, b}
}
func callInt(f func() int) (v int, panicked bool) {
	defer func() {
		if recover() != nil {
			v, panicked = 0, true
		}
	}()
	return f(), false
}

func (r resEdge) coq() string {
	if r.panicked {
		return "Panic"
	}
	return fmt.Sprintf("(Ok (%d, %d))", r.a, r.b)
}
func (r resZZ) coq() string {
	if r.panicked {
		return "Panic"
	}
	return fmt.Sprintf("(Ok (%d, %d))", r.a, r.b)
}

type chainDump struct {
	chain resZZ
	edges []resEdge
}
type shapeDump struct {
	numEdges, numChains int
	edges               []resEdge // e = -1 .. numEdges
	positions           []resZZ   // e = -1 .. numEdges
	chains              []chainDump
}

func dumpShape(s s2.Shape) shapeDump {
	d := shapeDump{}
	d.numEdges, _ = callInt(s.NumEdges)
	d.numChains, _ = callInt(s.NumChains)
	for e := -1; e <= d.numEdges; e++ {
		e := e
		d.edges = append(d.edges, callEdge(func() s2.Edge { return s.Edge(e) }))
		d.positions = append(d.positions, callZZ(func() (int, int) { p := s.ChainPosition(e); return p.ChainID, p.Offset }))
	}
	for i := -1; i <= d.numChains; i++ {
		i := i
		cd := chainDump{chain: callZZ(func() (int, int) { c := s.Chain(i); return c.Start, c.Length })}
		n := 0
		if !cd.chain.panicked {
			n = cd.chain.b
		}
		for j := -1; j <= n; j++ {
			j := j
			cd.edges = append(cd.edges, callEdge(func() s2.Edge { return s.ChainEdge(i, j) }))
		}
		d.chains = append(d.chains, cd)
	}
	return d
}

// flat is the table in the flat encoding of Model/Shapes.v [encode_dump].
func (d shapeDump) flat() []int64 {
	code := func(panicked bool, a, b int) int64 {
		if panicked {
			return 0
		}
		if a < -2 || b < -2 || a >= 1<<22-2 || b >= 1<<22-2 {
			panic("value outside the range of the flat encoding")
		}
		return int64(a+2)*4194304 + int64(b+2)
	}
	out := []int64{int64(d.numEdges), int64(d.numChains)}
	for _, e := range d.edges {
		out = append(out, code(e.panicked, e.a, e.b))
	}
	for _, p := range d.positions {
		out = append(out, code(p.panicked, p.a, p.b))
	}
	for _, c := range d.chains {
		out = append(out, code(c.chain.panicked, c.chain.a, c.chain.b))
		for _, e := range c.edges {
			out = append(out, code(e.panicked, e.a, e.b))
		}
	}
	return out
}

// hash2 mirrors Model/Shapes.v [hash2] (arithmetic mod 2^31; uint64 wrap-around is compatible).
func hash2(l []int64) (uint64, uint64) {
	const mask = 1<<31 - 1
	h1, h2 := uint64(7), uint64(11)
	for _, x := range l {
		h1 = (h1*1000003 + uint64(x) + 12345) & mask
		h2 = (h2*69069 + uint64(x) + 12345) & mask
	}
	return h1, h2
}

func zlist(xs []int) string {
	if len(xs) >= 2 {
		consecutive := true
		for i := 1; i < len(xs); i++ {
			if xs[i] != xs[i-1]+1 {
				consecutive = false
				break
			}
		}
		if consecutive {
			return fmt.Sprintf("(zrange_up %d %d)", xs[0], xs[0]+len(xs))
		}
	}
	s := make([]string, len(xs))
	for i, x := range xs {
		s[i] = fmt.Sprint(x)
	}
	return "[" + strings.Join(s, "; ") + "]"
}

// ---- [S] the contract of s2.Shape on a real value (independent of the model) ----

// checkContract evaluates the contract of the Shape interface on s; typ names the Go type.
func checkContract(c *vkit.Collector, typ string, s s2.Shape, replay interface{}) {
	bad := func(acc, desc string) {
		c.Violate(typ+"."+acc, desc, replay)
	}
	ne, p1 := callInt(s.NumEdges)
	nc, p2 := callInt(s.NumChains)
	if p1 || p2 || ne < 0 || nc < 0 {
		bad("NumEdges", "NumEdges/NumChains panics or is negative")
		return
	}
	type ch struct{ start, length int }
	chains := make([]ch, nc)
	next := 0
	for i := 0; i < nc; i++ {
		i := i
		r := callZZ(func() (int, int) { c := s.Chain(i); return c.Start, c.Length })
		if r.panicked {
			bad("Chain", fmt.Sprintf("Chain(%d) panics", i))
			return
		}
		chains[i] = ch{r.a, r.b}
		if r.a != next || r.b < 0 {
			bad("Chain", fmt.Sprintf("chains do not tile [0,NumEdges): Chain(%d) = {%d,%d}, expected start %d", i, r.a, r.b, next))
			return
		}
		next = r.a + r.b
	}
	if next != ne {
		bad("Chain", fmt.Sprintf("chains end at %d but NumEdges = %d", next, ne))
		return
	}
	for e := 0; e < ne; e++ {
		e := e
		ed := callEdge(func() s2.Edge { return s.Edge(e) })
		if ed.panicked {
			bad("Edge", fmt.Sprintf("Edge(%d) panics, NumEdges = %d", e, ne))
			return
		}
		pos := callZZ(func() (int, int) { p := s.ChainPosition(e); return p.ChainID, p.Offset })
		if pos.panicked {
			bad("ChainPosition", fmt.Sprintf("ChainPosition(%d) panics", e))
			return
		}
		if pos.a < 0 || pos.a >= nc || pos.b < 0 || pos.b >= chains[pos.a].length || chains[pos.a].start+pos.b != e {
			bad("ChainPosition", fmt.Sprintf("ChainPosition(%d) = (%d,%d) is not the position of edge %d", e, pos.a, pos.b, e))
			return
		}
		ce := callEdge(func() s2.Edge { return s.ChainEdge(pos.a, pos.b) })
		if ce.panicked {
			bad("ChainEdge", fmt.Sprintf("ChainEdge(ChainPosition(%d)) = ChainEdge(%d,%d) panics", e, pos.a, pos.b))
			return
		}
		if ce.e != ed.e {
			bad("ChainEdge", fmt.Sprintf("ChainEdge(ChainPosition(%d)) = ChainEdge(%d,%d) differs from Edge(%d)", e, pos.a, pos.b, e))
			return
		}
	}
	for i := 0; i < nc; i++ {
		for j := 0; j < chains[i].length; j++ {
			i, j := i, j
			e := chains[i].start + j
			ce := callEdge(func() s2.Edge { return s.ChainEdge(i, j) })
			if ce.panicked {
				bad("ChainEdge", fmt.Sprintf("ChainEdge(%d,%d) panics", i, j))
				return
			}
			ed := callEdge(func() s2.Edge { return s.Edge(e) })
			if ed.panicked || ed.e != ce.e {
				bad("ChainEdge", fmt.Sprintf("ChainEdge(%d,%d) differs from Edge(%d)", i, j, e))
				return
			}
			pos := callZZ(func() (int, int) { p := s.ChainPosition(e); return p.ChainID, p.Offset })
			if pos.panicked || pos.a != i || pos.b != j {
				bad("ChainPosition", fmt.Sprintf("ChainPosition(Chain(%d).Start+%d) is not (%d,%d)", i, j, i, j))
				return
			}
		}
	}
}

// ---- one shape: [T] + [S] ----

var shapeCount = map[string]int{}

// Correspondence cases are emitted in groups of groupSize shapes of one type (one Coq term
// [forallb id [...]] per group): coqc elaborates many short lists much faster than one long one.
const groupSize = 1

var groupTerms = map[string][]string{}
var groupFirst = map[string]string{}

func groupAdd(c *vkit.Collector, typ, label, term string) {
	if len(groupTerms[typ]) == 0 {
		groupFirst[typ] = label
	}
	groupTerms[typ] = append(groupTerms[typ], term)
	if len(groupTerms[typ]) >= groupSize {
		groupFlush(c, typ, label)
	}
}
func groupFlush(c *vkit.Collector, typ, last string) {
	if len(groupTerms[typ]) == 0 {
		return
	}
	c.Check(fmt.Sprintf("%d shapes from {%s} to {%s}", len(groupTerms[typ]), groupFirst[typ], last),
		"(forallb (fun b : bool => b) ["+strings.Join(groupTerms[typ], "; ")+"])%Z")
	groupTerms[typ] = nil
}
func groupFlushAll(c *vkit.Collector) {
	for typ := range groupTerms {
		groupFlush(c, typ, "end")
	}
}

func observe(c *vkit.Collector, typ, key, coqOps string, s s2.Shape, contractApplies bool, replay interface{}) {
	d := dumpShape(s)
	c.Eval(typ+":"+key, d.numEdges > 0)
	c.Class("shape:" + typ)
	shapeCount[typ]++
	fl := d.flat()
	h1, h2 := hash2(fl)
	term := fmt.Sprintf("(hash_eqb (encode_dump (dump %s)) %d %d)", coqOps, h1, h2)
	groupAdd(c, typ, typ+" "+key, term)
	if contractApplies {
		checkContract(c, typ, s, replay)
	}
	if shapeCount[typ] == 3 {
		c.Sample(map[string]interface{}{"type": typ, "shape": replay, "NumEdges": d.numEdges, "NumChains": d.numChains})
	}
}

func seqToks(base, n int) []int {
	out := make([]int, n)
	for i := range out {
		out[i] = base + i
	}
	return out
}

func obsPointVector(c *vkit.Collector, toks []int) {
	pv := s2.PointVector(pts(toks))
	observe(c, "PointVector", zlist(toks), "(pv_ops "+zlist(toks)+")", &pv, true, map[string]interface{}{"type": "PointVector", "tokens": toks})
}
func obsLaxPolyline(c *vkit.Collector, toks []int) {
	observe(c, "LaxPolyline", zlist(toks), "(lax_polyline_ops "+zlist(toks)+")", s2.LaxPolylineFromPoints(pts(toks)), true, map[string]interface{}{"type": "LaxPolyline", "tokens": toks})
}
func obsPolyline(c *vkit.Collector, toks []int) {
	pl := s2.Polyline(pts(toks))
	observe(c, "Polyline", zlist(toks), "(polyline_ops "+zlist(toks)+")", &pl, true, map[string]interface{}{"type": "Polyline", "tokens": toks})
}
func obsLaxLoop(c *vkit.Collector, toks []int) {
	observe(c, "LaxLoop", zlist(toks), "(lax_loop_ops (lax_loop_from_points "+zlist(toks)+"))", s2.LaxLoopFromPoints(pts(toks)), true, map[string]interface{}{"type": "LaxLoop", "tokens": toks})
}

// loopSpec describes one s2.Loop: its tokens; for one token, whether it is the full loop.
type loopSpec struct {
	toks  []int
	full  bool
	depth int
}

func (ls loopSpec) build() (*s2.Loop, []int) {
	if len(ls.toks) == 1 {
		if ls.full {
			return s2.FullLoop(), []int{tokFull}
		}
		return s2.EmptyLoop(), []int{tokEmpty}
	}
	return s2.LoopFromPoints(pts(ls.toks)), ls.toks
}
func coqLoop(l *s2.Loop, toks []int, depth int) string {
	return fmt.Sprintf("(mkLoop %s %s %d)", zlist(toks), vkit.B(l.ContainsOrigin()), depth)
}
func obsLoop(c *vkit.Collector, ls loopSpec) {
	l, toks := ls.build()
	observe(c, "Loop", fmt.Sprint(toks), "(loop_ops "+coqLoop(l, toks, 0)+")", l, true, map[string]interface{}{"type": "Loop", "tokens": toks})
}

// polygonValid: the loop checks of Polygon.Validate (no empty loop, full loop only alone).
func polygonValid(loops []*s2.Loop) bool {
	for _, l := range loops {
		if l.IsEmpty() || (l.IsFull() && len(loops) > 1) {
			return false
		}
	}
	return true
}
func obsPolygonRaw(c *vkit.Collector, specs []loopSpec) {
	loops := make([]*s2.Loop, len(specs))
	depths := make([]int, len(specs))
	terms := make([]string, len(specs))
	key := []string{}
	for i, sp := range specs {
		l, toks := sp.build()
		loops[i], depths[i] = l, sp.depth
		terms[i] = coqLoop(l, toks, sp.depth)
		key = append(key, fmt.Sprintf("%d/%d", len(toks), sp.depth))
	}
	valid := polygonValid(loops)
	p := s2.VerifC06PolygonRaw(loops, depths)
	cls := "Polygon"
	if !valid {
		c.Class("shape:Polygon(rejected by Validate: model compared, contract not required)")
	}
	observe(c, cls, fmt.Sprintf("%d:%s:%d", len(specs), strings.Join(key, ","), specs0(specs)), "(polygon_ops (polygon_init 12 ["+strings.Join(terms, "; ")+"]))", p, valid,
		map[string]interface{}{"type": "Polygon(raw)", "loops": specs2json(specs)})
}
func specs0(specs []loopSpec) int {
	if len(specs) == 0 || len(specs[0].toks) == 0 {
		return 0
	}
	return specs[0].toks[0]
}
func specs2json(specs []loopSpec) interface{} {
	out := []interface{}{}
	for _, s := range specs {
		out = append(out, map[string]interface{}{"tokens": s.toks, "full": s.full, "depth": s.depth})
	}
	return out
}
func obsLaxPolygon(c *vkit.Collector, loops [][]int) {
	ps := make([][]s2.Point, len(loops))
	terms := make([]string, len(loops))
	for i, l := range loops {
		ps[i] = pts(l)
		terms[i] = zlist(l)
	}
	t := "[" + strings.Join(terms, "; ") + "]"
	observe(c, "LaxPolygon", t, "(lax_polygon_ops (lax_polygon_from_points "+t+"))", s2.LaxPolygonFromPoints(ps), true,
		map[string]interface{}{"type": "LaxPolygon", "loops": loops})
}

// sizesEnum enumerates all tuples of k sizes drawn from choices.
func sizesEnum(k int, choices []int, f func([]int)) {
	cur := make([]int, k)
	var rec func(int)
	rec = func(i int) {
		if i == k {
			f(append([]int(nil), cur...))
			return
		}
		for _, s := range choices {
			cur[i] = s
			rec(i + 1)
		}
	}
	rec(0)
}

func runShapes(c *vkit.Collector, rng *vkit.Rng, budget int) {
	// (1) exhaustive structures: single-chain types with 0..6 vertices
	for n := 0; n <= 6; n++ {
		t := seqToks(1, n)
		obsPointVector(c, t)
		obsLaxPolyline(c, t)
		obsPolyline(c, t)
		obsLaxLoop(c, t)
		if n == 1 {
			obsLoop(c, loopSpec{toks: t, full: false})
			obsLoop(c, loopSpec{toks: t, full: true})
		} else {
			obsLoop(c, loopSpec{toks: t})
		}
	}
	// (2) exhaustive: LaxPolygon with 0..4 loops of 0..4 vertices each (empty loops included)
	for k := 0; k <= 4; k++ {
		sizesEnum(k, []int{0, 1, 2, 3, 4}, func(sz []int) {
			loops := make([][]int, k)
			base := 1
			for i, n := range sz {
				loops[i] = seqToks(base, n)
				base += n
			}
			obsLaxPolygon(c, loops)
		})
	}
	// (3) exhaustive: Polygon (raw loops) with 0..3 loops of {0,2,3,4} vertices and every depth parity, 4 loops
	//     with one random depth pattern; the full polygon and the empty loop alone; plus a sample of polygons
	//     holding a one-vertex (empty/full) loop beside others (rejected by Validate: model compared only).
	for k := 0; k <= 4; k++ {
		sizesEnum(k, []int{0, 2, 3, 4}, func(sz []int) {
			patterns := 1 << uint(k)
			pick := []int{}
			if k <= 3 {
				for m := 0; m < patterns; m++ {
					pick = append(pick, m)
				}
			} else {
				pick = []int{rng.Intn(patterns)}
			}
			for _, m := range pick {
				specs := make([]loopSpec, k)
				base := 1
				for i, n := range sz {
					specs[i] = loopSpec{toks: seqToks(base, n), depth: (m >> uint(i)) & 1}
					base += n
				}
				obsPolygonRaw(c, specs)
			}
		})
	}
	obsPolygonRaw(c, []loopSpec{{toks: []int{1}, full: true}})
	obsPolygonRaw(c, []loopSpec{{toks: []int{1}, full: false}})
	for it := 0; it < 120; it++ {
		k := 2 + rng.Intn(3)
		specs := make([]loopSpec, k)
		base := 1
		one := rng.Intn(k)
		for i := range specs {
			n := []int{0, 1, 2, 3, 4}[rng.Intn(5)]
			if i == one {
				n = 1
			}
			specs[i] = loopSpec{toks: seqToks(base, n), full: rng.Bool(), depth: rng.Intn(2)}
			base += n
		}
		obsPolygonRaw(c, specs)
	}
	// (4) geometric polygons through PolygonFromLoops (nesting computed by the library)
	geometricPolygons(c, rng)
	// (5) random large shapes, up to 10^3 vertices; polygons beyond maxLinearSearchLoops
	for it := 0; it < 6*budget; it++ {
		n := []int{7, 33, 100, 257, 1000}[rng.Intn(5)]
		if it == 0 {
			n = 1000
		}
		t := seqToks(1+rng.Intn(50), n)
		switch it % 5 {
		case 0:
			obsPointVector(c, t)
		case 1:
			obsLaxPolyline(c, t)
		case 2:
			obsPolyline(c, t)
		case 3:
			obsLaxLoop(c, t)
		case 4:
			obsLoop(c, loopSpec{toks: t})
		}
	}
	for it := 0; it < 10*budget; it++ {
		k := 2 + rng.Intn(40)
		if it%3 == 0 {
			k = 11 + rng.Intn(4) // around maxLinearSearchLoops = 12
		}
		loops := make([][]int, k)
		specs := make([]loopSpec, k)
		base := 1
		for i := 0; i < k; i++ {
			n := []int{0, 0, 2, 3, 3, 4, 5, 9, 40}[rng.Intn(9)]
			loops[i] = seqToks(base, n)
			specs[i] = loopSpec{toks: loops[i], depth: rng.Intn(3)}
			base += n
		}
		obsLaxPolygon(c, loops)
		obsPolygonRaw(c, specs)
	}
	groupFlushAll(c)
	c.Extra["shapes_observed"] = shapeCount
}

// geometricPolygons: disjoint and nested triangles/quads given to PolygonFromLoops; the observed
// loop order, depths and originInside go into the model term.
func geometricPolygons(c *vkit.Collector, rng *vkit.Rng) {
	mk := func(latc, lngc, r float64, n int) []s2.Point {
		out := make([]s2.Point, n)
		for i := range out {
			a := 2 * math.Pi * float64(i) / float64(n)
			out[i] = s2.PointFromLatLng(s2.LatLngFromDegrees(latc+r*math.Sin(a), lngc+r*math.Cos(a)))
		}
		return out
	}
	next := 500000
	for _, cfg := range [][2]int{{1, 0}, {2, 0}, {3, 1}, {5, 2}, {13, 0}, {14, 3}, {20, 5}} {
		nShell, nHoles := cfg[0], cfg[1]
		var loops []*s2.Loop
		for i := 0; i < nShell; i++ {
			nv := 3 + rng.Intn(3)
			loops = append(loops, s2.LoopFromPoints(mk(10, float64(-150+15*i), 4, nv)))
			if i < nHoles {
				loops = append(loops, s2.LoopFromPoints(mk(10, float64(-150+15*i), 1.5, 3+rng.Intn(2))))
			}
		}
		// shuffle the input order
		for i := len(loops) - 1; i > 0; i-- {
			j := rng.Intn(i + 1)
			loops[i], loops[j] = loops[j], loops[i]
		}
		p := s2.PolygonFromLoops(loops)
		terms := []string{}
		for i := 0; i < p.NumLoops(); i++ {
			l := p.Loop(i)
			toks := make([]int, l.NumVertices())
			for j := range toks {
				v := l.Vertex(j)
				if _, ok := tokOf[v]; !ok {
					tokOf[v] = next
					next++
				}
				toks[j] = tokOf[v]
			}
			d := 0
			if l.IsHole() {
				d = 1
			}
			terms = append(terms, coqLoop(l, toks, d))
		}
		observe(c, "Polygon", fmt.Sprintf("geometric %d shells %d holes", nShell, nHoles), "(polygon_ops (polygon_init 12 ["+strings.Join(terms, "; ")+"]))", p, true,
			map[string]interface{}{"type": "Polygon(PolygonFromLoops)", "shells": nShell, "holes": nHoles})
		lp := s2.LaxPolygonFromPolygon(p)
		checkContract(c, "LaxPolygon", lp, map[string]interface{}{"type": "LaxPolygonFromPolygon", "shells": nShell, "holes": nHoles})
	}
}
