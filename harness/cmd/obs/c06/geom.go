package main

import (
	"math/big"

	"github.com/golang/geo/r2"
	"github.com/golang/geo/s2"
)

// Exact / conservative test "does the geodesic edge AB come within max-norm distance T (in the
// (u,v) coordinates of a cube face) of a uv-rectangle on that face?". Independent of the
// library's clipping code.
//
// In the face's (u,v,w) frame (a signed permutation of x,y,z, hence exact) the points of the
// edge are the central projections of the chord P(t) = A + t(B-A), t in [0,1], with w(P) > 0,
// to (u/w, v/w). "P(t) projects into [ulo,uhi] x [vlo,vhi]" is the conjunction of four
// inequalities linear in t, so the set of such t is an interval computed exactly in big.Rat.

// uvw returns the coordinates of p in the (u,v,w) frame of the face (s2/stuv.go faceXYZtoUVW).
func uvw(face int, p s2.Point) [3]float64 {
	switch face {
	case 0:
		return [3]float64{p.Y, p.Z, p.X}
	case 1:
		return [3]float64{-p.X, p.Z, p.Y}
	case 2:
		return [3]float64{-p.X, -p.Y, p.Z}
	case 3:
		return [3]float64{-p.Z, -p.Y, -p.X}
	case 4:
		return [3]float64{-p.Z, p.X, -p.Y}
	default:
		return [3]float64{p.Y, p.X, -p.Z}
	}
}

// nearFloat: float64 version with a generous margin; false means "clearly not within margin".
func nearFloat(face int, a, b s2.Point, r r2.Rect, margin float64) bool {
	A, B := uvw(face, a), uvw(face, b)
	lo, hi := 0.0, 1.0
	const slack = 1e-11
	add := func(c0, c1 float64) bool { // c0 + c1 t >= -slack
		c0 += slack
		switch {
		case c1 > 0:
			if t := -c0 / c1; t > lo {
				lo = t
			}
		case c1 < 0:
			if t := -c0 / c1; t < hi {
				hi = t
			}
		default:
			if c0 < 0 {
				return false
			}
		}
		return lo <= hi+1e-9
	}
	ulo, uhi, vlo, vhi := r.X.Lo-margin, r.X.Hi+margin, r.Y.Lo-margin, r.Y.Hi+margin
	dU, dV, dW := B[0]-A[0], B[1]-A[1], B[2]-A[2]
	if !add(A[0]-ulo*A[2], dU-ulo*dW) || !add(uhi*A[2]-A[0], uhi*dW-dU) ||
		!add(A[1]-vlo*A[2], dV-vlo*dW) || !add(vhi*A[2]-A[1], vhi*dW-dV) {
		return false
	}
	w0, w1 := A[2]+lo*dW, A[2]+hi*dW
	return w0 > -1e-9 || w1 > -1e-9
}

func rat(f float64) *big.Rat { return new(big.Rat).SetFloat64(f) }

// nearExact: exact version. margin may be negative (shrunken rectangle).
func nearExact(face int, a, b s2.Point, r r2.Rect, margin float64) bool {
	Af, Bf := uvw(face, a), uvw(face, b)
	var A, D [3]*big.Rat
	for i := 0; i < 3; i++ {
		A[i] = rat(Af[i])
		D[i] = new(big.Rat).Sub(rat(Bf[i]), A[i])
	}
	m := rat(margin)
	ulo := new(big.Rat).Sub(rat(r.X.Lo), m)
	uhi := new(big.Rat).Add(rat(r.X.Hi), m)
	vlo := new(big.Rat).Sub(rat(r.Y.Lo), m)
	vhi := new(big.Rat).Add(rat(r.Y.Hi), m)
	if ulo.Cmp(uhi) > 0 || vlo.Cmp(vhi) > 0 {
		return false
	}
	lo, hi := new(big.Rat), big.NewRat(1, 1)
	ok := true
	add := func(c0, c1 *big.Rat) {
		switch c1.Sign() {
		case 1:
			t := new(big.Rat).Quo(new(big.Rat).Neg(c0), c1)
			if t.Cmp(lo) > 0 {
				lo = t
			}
		case -1:
			t := new(big.Rat).Quo(new(big.Rat).Neg(c0), c1)
			if t.Cmp(hi) < 0 {
				hi = t
			}
		default:
			if c0.Sign() < 0 {
				ok = false
			}
		}
	}
	mul := func(x, y *big.Rat) *big.Rat { return new(big.Rat).Mul(x, y) }
	sub := func(x, y *big.Rat) *big.Rat { return new(big.Rat).Sub(x, y) }
	add(sub(A[0], mul(ulo, A[2])), sub(D[0], mul(ulo, D[2])))
	add(sub(mul(uhi, A[2]), A[0]), sub(mul(uhi, D[2]), D[0]))
	add(sub(A[1], mul(vlo, A[2])), sub(D[1], mul(vlo, D[2])))
	add(sub(mul(vhi, A[2]), A[1]), sub(mul(vhi, D[2]), D[1]))
	if !ok || lo.Cmp(hi) > 0 {
		return false
	}
	w0 := new(big.Rat).Add(A[2], mul(lo, D[2]))
	w1 := new(big.Rat).Add(A[2], mul(hi, D[2]))
	return w0.Sign() > 0 || w1.Sign() > 0
}

// edgeNearCell: exact decision whether edge (a,b) comes within margin of the uv-rectangle of the
// cell (on the cell's face), with a float prefilter.
func edgeNearCell(cell s2.Cell, a, b s2.Point, margin float64) bool {
	f := cell.Face()
	r := cell.BoundUV()
	pre := margin
	if pre < 0 {
		pre = 0
	}
	if !nearFloat(f, a, b, r, pre+1e-9) {
		return false
	}
	return nearExact(f, a, b, r, margin)
}

// bruteContains: parity of EdgeOrVertexCrossing over every edge from the shape's reference point.
func bruteContains(sh *idxShape, p s2.Point) bool {
	if sh.dim != 2 {
		return false
	}
	if sh.ref.Point == p {
		return sh.ref.Contained
	}
	inside := sh.ref.Contained
	cr := s2.NewEdgeCrosser(sh.ref.Point, p)
	for _, e := range sh.edges {
		if cr.EdgeOrVertexCrossing(e.V0, e.V1) {
			inside = !inside
		}
	}
	return inside
}

// bruteModel: what each vertex model means, by examining every edge.
func bruteModel(sh *idxShape, model s2.VertexModel, p s2.Point) bool {
	isV := sh.vertices[p]
	switch model {
	case s2.VertexModelClosed:
		if isV {
			return true
		}
	case s2.VertexModelOpen:
		if isV {
			return false
		}
	}
	return bruteContains(sh, p)
}
