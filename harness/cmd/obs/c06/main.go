// Observer for property C06: "Spatial-index queries return exactly what brute force over all
// edges returns; every shape exposes one edge set".
//
//	shapes.go  (a) the six Shape accessors of the seven shape types: [T] against Model/Shapes.v,
//	           [S] the Shape contract checked directly on the real values (a panic is a violation)
//	index.go   (b) ShapeIndex contents and the queries over it against brute force
package main

import (
	"verifharness/internal/vkit"
)

func main() { vkit.Main("C06", []string{"Gen.CellIDCov", "Model.Shapes", "Model.Index"}, run) }

func run(c *vkit.Collector, rng *vkit.Rng, budget int) {
	// vkit's streams for seeds k and k+1 are the same sequence shifted by one draw; re-seed from a
	// mixed output so that different seeds give unrelated inputs (still a function of VERIF_SEED only)
	rng = vkit.NewRng(rng.U64() ^ 0xC06C06C06)
	runShapes(c, rng, budget)
	runIndex(c, rng, budget)
}
