package main

import (
	"fmt"
	"os"
	"sort"

	"github.com/golang/geo/r3"
	"github.com/golang/geo/s1"
	"github.com/golang/geo/s2"
	"verifharness/internal/vkit"
)

// idxShape is one shape of a collection with what the brute-force side needs.
type idxShape struct {
	shape    s2.Shape
	typ      string
	dim      int
	clean    bool // a valid polygon without degenerate loops: vertex queries are meaningful under every model
	removed  bool // removed from the index by ShapeIndex.Remove (its id stays reserved)
	edges    []s2.Edge
	ref      s2.ReferencePoint
	vertices map[s2.Point]bool
	desc     interface{}
}

// panicNote collects accessor panics met while caching a shape's edges (reported by the caller).
var panicNote []string

func newIdxShape(sh s2.Shape, typ string, clean bool, desc interface{}) *idxShape {
	s := &idxShape{shape: sh, typ: typ, dim: sh.Dimension(), clean: clean, vertices: map[s2.Point]bool{}, desc: desc}
	for e := 0; e < sh.NumEdges(); e++ {
		e := e
		r := callEdge(func() s2.Edge { return sh.Edge(e) })
		if r.panicked {
			panicNote = append(panicNote, fmt.Sprintf("%s.Edge(%d) panics with NumEdges = %d", typ, e, sh.NumEdges()))
			break
		}
		ed := r.e
		s.edges = append(s.edges, ed)
		s.vertices[ed.V0] = true
		s.vertices[ed.V1] = true
	}
	if s.dim == 2 {
		s.ref = sh.ReferencePoint()
	}
	return s
}

// ---- generators ----

func randPoint(rng *vkit.Rng) s2.Point {
	for {
		v := r3.Vector{X: rng.Range(-1, 1), Y: rng.Range(-1, 1), Z: rng.Range(-1, 1)}
		if n := v.Norm2(); n > 0.01 && n <= 1 {
			return s2.Point{Vector: v.Normalize()}
		}
	}
}

// interesting centres: random, cube corners, cube edge midpoints, face centres, poles
func pickCenter(rng *vkit.Rng) s2.Point {
	switch rng.Intn(6) {
	case 0:
		s := func() float64 {
			if rng.Bool() {
				return 1
			}
			return -1
		}
		return s2.Point{Vector: r3.Vector{X: s(), Y: s(), Z: s()}.Normalize()}
	case 1:
		c := [3]float64{1, 1, 0}
		k := rng.Intn(3)
		c[k], c[2] = c[2], c[k]
		if rng.Bool() {
			c[(k+1)%3] = -c[(k+1)%3]
		}
		return s2.Point{Vector: r3.Vector{X: c[0], Y: c[1], Z: c[2]}.Normalize()}
	case 2:
		return s2.CellFromCellID(s2.CellIDFromFace(rng.Intn(6))).Center()
	default:
		return randPoint(rng)
	}
}

func pickRadius(rng *vkit.Rng) s1.Angle {
	return s1.Angle([]float64{1e-7, 1e-4, 1e-3, 0.01, 0.05, 0.2, 0.5, 1.0}[rng.Intn(8)] * (0.5 + rng.Float()))
}

func ulpPerturb(rng *vkit.Rng, p s2.Point, k int) s2.Point {
	d := func(x float64) float64 { return vkit.Ulps(x, rng.Intn(2*k+1)-k) }
	return s2.Point{Vector: r3.Vector{X: d(p.X), Y: d(p.Y), Z: d(p.Z)}}
}

func ringPoints(center s2.Point, radius s1.Angle, n int) []s2.Point {
	return append([]s2.Point(nil), s2.RegularLoop(center, radius, n).Vertices()...)
}
func reversed(p []s2.Point) []s2.Point {
	out := make([]s2.Point, len(p))
	for i := range p {
		out[len(p)-1-i] = p[i]
	}
	return out
}

type collection struct {
	kind    string
	history []string // index lifecycle so far: Add / Build / Remove / Reset steps
	shapes  []*idxShape
	index   *s2.ShapeIndex
}

func (c *collection) add(sh s2.Shape, typ string, clean bool, desc interface{}) *idxShape {
	s := newIdxShape(sh, typ, clean, desc)
	c.shapes = append(c.shapes, s)
	return s
}
func (c *collection) anyRemoved() bool {
	for _, s := range c.shapes {
		if s.removed {
			return true
		}
	}
	return false
}
func (c *collection) numEdges() int {
	n := 0
	for _, s := range c.shapes {
		n += len(s.edges)
	}
	return n
}
func (c *collection) somePoints(rng *vkit.Rng, n int) []s2.Point {
	var all []s2.Point
	for _, s := range c.shapes {
		for _, e := range s.edges {
			all = append(all, e.V0)
		}
	}
	var out []s2.Point
	for i := 0; i < n && len(all) > 0; i++ {
		out = append(out, all[rng.Intn(len(all))])
	}
	return out
}

func ptsDesc(p []s2.Point) [][3]float64 {
	out := make([][3]float64, 0, len(p))
	for i, q := range p {
		if i >= 12 {
			break
		}
		out = append(out, [3]float64{q.X, q.Y, q.Z})
	}
	return out
}

// addRandomShape adds one shape of a random type around a centre.
func addRandomShape(c *collection, rng *vkit.Rng, center s2.Point, radius s1.Angle, maxN int) {
	ns := []int{3, 4, 5, 8, 16, 33, 40, 64, 200, 1000}
	n := ns[rng.Intn(len(ns))]
	if maxN >= 1000 && rng.Bool() {
		n = []int{200, 400, 1000}[rng.Intn(3)]
	}
	for n > maxN && n > 3 {
		n = ns[rng.Intn(len(ns))]
	}
	desc := func(typ string) map[string]interface{} {
		return map[string]interface{}{"type": typ, "center": [3]float64{center.X, center.Y, center.Z}, "radius": float64(radius), "n": n}
	}
	switch rng.Intn(9) {
	case 0:
		c.add(s2.PolygonFromLoops([]*s2.Loop{s2.RegularLoop(center, radius, n)}), "Polygon", true, desc("Polygon"))
	case 1:
		c.add(s2.RegularLoop(center, radius, n), "Loop", true, desc("Loop"))
	case 2: // polygon with a hole, as LaxPolygon
		c.add(s2.LaxPolygonFromPoints([][]s2.Point{ringPoints(center, radius, n), reversed(ringPoints(center, radius/3, 3+rng.Intn(6)))}), "LaxPolygon", true, desc("LaxPolygon(ring+hole)"))
	case 3: // LaxPolygon with degenerate loops (a point loop and a sibling pair) beside a ring
		a, b := s2.Interpolate(0.3, center, ringPoints(center, radius, 4)[0]), s2.Interpolate(0.6, center, ringPoints(center, radius, 4)[1])
		c.add(s2.LaxPolygonFromPoints([][]s2.Point{ringPoints(center, radius, n), {a}, {a, b}, {}}), "LaxPolygon", false, desc("LaxPolygon(ring+degenerate loops)"))
	case 4:
		c.add(s2.LaxLoopFromPoints(ringPoints(center, radius, n)), "LaxLoop", true, desc("LaxLoop"))
	case 5, 6: // polyline: random walk, sometimes a repeated vertex (degenerate edge)
		m := n
		if m > 300 {
			m = 300
		}
		pts := []s2.Point{center}
		for i := 1; i < m; i++ {
			prev := pts[len(pts)-1]
			if rng.Intn(10) == 0 {
				pts = append(pts, prev)
				continue
			}
			d := s2.Point{Vector: prev.Add(randPoint(rng).Mul(float64(radius) * 0.3)).Normalize()}
			pts = append(pts, d)
		}
		if rng.Bool() {
			c.add(s2.LaxPolylineFromPoints(pts), "LaxPolyline", true, desc("LaxPolyline"))
		} else {
			pl := s2.Polyline(pts)
			c.add(&pl, "Polyline", true, desc("Polyline"))
		}
	default: // points: random ones near the centre plus vertices of the shapes so far
		pts := c.somePoints(rng, 1+rng.Intn(6))
		for i := 0; i < 1+rng.Intn(8); i++ {
			pts = append(pts, s2.Point{Vector: center.Add(randPoint(rng).Mul(float64(radius))).Normalize()})
		}
		pv := s2.PointVector(pts)
		c.add(&pv, "PointVector", true, desc("PointVector"))
	}
}

// cellBoundaryShapes: vertices on / within 4 ulp of the boundaries of a cell at some level.
func cellBoundaryShapes(c *collection, rng *vkit.Rng) {
	level := []int{0, 1, 2, 3, 5, 10, 14, 20, 26, 30}[rng.Intn(10)]
	id := s2.CellFromPoint(pickCenter(rng)).ID().Parent(level)
	cell := s2.CellFromCellID(id)
	var v [4]s2.Point
	for k := 0; k < 4; k++ {
		v[k] = cell.Vertex(k)
	}
	desc := map[string]interface{}{"type": "cell-boundary", "cell": uint64(id), "level": level}
	// a polyline along the boundary with points on the sides, perturbed by <= 4 ulp
	var line []s2.Point
	for k := 0; k < 4; k++ {
		line = append(line, ulpPerturb(rng, v[k], 4), ulpPerturb(rng, s2.Interpolate(rng.Float(), v[k], v[(k+1)%4]), 4))
	}
	c.add(s2.LaxPolylineFromPoints(line), "LaxPolyline", true, desc)
	// the cell itself and one neighbour as polygons (edges exactly on cell boundaries, shared vertices)
	c.add(s2.PolygonFromCell(cell), "Polygon", true, desc)
	nb := id.EdgeNeighbors()
	c.add(s2.PolygonFromCell(s2.CellFromCellID(nb[rng.Intn(4)])), "Polygon", true, desc)
	// a loop through the perturbed corners
	c.add(s2.LaxLoopFromPoints([]s2.Point{ulpPerturb(rng, v[0], 4), ulpPerturb(rng, v[1], 4), ulpPerturb(rng, v[2], 4), ulpPerturb(rng, v[3], 4)}), "LaxLoop", true, desc)
	// points on corners, sides and the centre
	pv := s2.PointVector{v[0], ulpPerturb(rng, v[1], 4), s2.Interpolate(0.5, v[2], v[3]), cell.Center(), ulpPerturb(rng, cell.Center(), 2)}
	c.add(&pv, "PointVector", true, desc)
	// edges along the sides of the four children (inside the cell, on child boundaries)
	if level < 30 {
		ch := s2.CellFromCellID(id.Children()[rng.Intn(4)])
		var line2 []s2.Point
		for k := 0; k < 4; k++ {
			line2 = append(line2, ulpPerturb(rng, ch.Vertex(k), 3))
		}
		line2 = append(line2, line2[0])
		c.add(s2.LaxPolylineFromPoints(line2), "LaxPolyline", true, desc)
	}
}

// cellCentreShapes: a triangle with one vertex exactly at the centre of a cell (levels 2..28, any
// face) and the other two at the centres of two adjacent children, so that shrink-to-fit makes that
// cell the index cell: the vertex is then the start point of the query's crossing segment. Also
// a polyline through the centres and an edge passing (to within rounding) through the centre.
func cellCentreShapes(c *collection, rng *vkit.Rng) {
	level := 2 + rng.Intn(27)
	face := rng.Intn(6)
	id := s2.CellFromPoint(faceCentre(rng, face)).ID().Parent(level)
	kids := id.Children()
	a := id.Point()
	k := rng.Intn(4)
	b, d := kids[k].Point(), kids[(k+1)%4].Point()
	verts := []s2.Point{a, b, d}
	if !s2.Sign(a, b, d) {
		verts = []s2.Point{a, d, b}
	}
	desc := map[string]interface{}{"type": "triangle with a vertex at a cell centre", "cell": fmt.Sprintf("%x", uint64(id)), "level": level, "face": face}
	switch rng.Intn(3) {
	case 0:
		c.add(s2.LaxPolygonFromPoints([][]s2.Point{verts}), "LaxPolygon", true, desc)
	case 1:
		c.add(s2.PolygonFromLoops([]*s2.Loop{s2.LoopFromPoints(verts)}), "Polygon", true, desc)
	default:
		c.add(s2.LaxLoopFromPoints(verts), "LaxLoop", true, desc)
	}
	switch rng.Intn(3) {
	case 0: // a polyline from a child centre to the cell centre and on to another child centre
		c.add(s2.LaxPolylineFromPoints([]s2.Point{b, a, kids[(k+2)%4].Point()}), "LaxPolyline", true, desc)
	case 1: // an edge whose interior passes through the cell centre (up to rounding)
		dir := randPoint(rng).Mul(0.2 * s2.AvgEdgeMetric.Value(level))
		c.add(s2.LaxPolylineFromPoints([]s2.Point{{Vector: a.Add(dir).Normalize()}, {Vector: a.Sub(dir).Normalize()}}), "LaxPolyline", true, desc)
	default: // points at the centres
		pv := s2.PointVector{a, kids[(k+3)%4].Point()}
		c.add(&pv, "PointVector", true, desc)
	}
}

// multiFaceShapes: edges spanning 3-4 cube faces.
func multiFaceShapes(c *collection, rng *vkit.Rng) {
	ll := func(lat, lng float64) s2.Point { return s2.PointFromLatLng(s2.LatLngFromDegrees(lat, lng)) }
	j := func() float64 { return rng.Range(-3, 3) }
	line := []s2.Point{ll(10+j(), -170+j()), ll(-5+j(), -60+j()), ll(20+j(), 50+j()), ll(-30+j(), 160+j()), ll(80+j(), 10+j()), ll(-80+j(), 100+j())}
	c.add(s2.LaxPolylineFromPoints(line), "LaxPolyline", true, map[string]interface{}{"type": "multi-face polyline", "points": ptsDesc(line)})
	// a large triangle (edges of ~120 degrees)
	tri := []s2.Point{ll(60+j(), j()), ll(-30+j(), -100+j()), ll(-30+j(), 100+j())}
	c.add(s2.LaxLoopFromPoints(tri), "LaxLoop", true, map[string]interface{}{"type": "large triangle", "points": ptsDesc(tri)})
	// a big regular loop (radius 80 degrees) with many vertices
	c.add(s2.RegularLoop(pickCenter(rng), s1.Angle(1.4), 40+rng.Intn(60)), "Loop", true, map[string]interface{}{"type": "large loop"})
}

func genCollection(rng *vkit.Rng, kind int) *collection {
	c := &collection{}
	switch kind {
	case 0: // small mixed (also used for the correspondence with the Coq query model)
		c.kind = "small mixed"
		center := pickCenter(rng)
		radius := pickRadius(rng)
		for i, n := 0, 1+rng.Intn(5); i < n; i++ {
			ctr := center
			if rng.Intn(3) == 0 {
				ctr = s2.Point{Vector: center.Add(randPoint(rng).Mul(float64(radius))).Normalize()}
			}
			addRandomShape(c, rng, ctr, radius*s1.Angle(0.5+rng.Float()), 40)
		}
	case 1: // large mixed, up to 12 shapes / 3000 edges, overlapping
		c.kind = "large mixed"
		center := pickCenter(rng)
		radius := pickRadius(rng)
		for i, n := 0, 1+rng.Intn(12); i < n && c.numEdges() < 2200; i++ {
			ctr := center
			if rng.Intn(2) == 0 {
				ctr = s2.Point{Vector: center.Add(randPoint(rng).Mul(2 * float64(radius))).Normalize()}
			}
			addRandomShape(c, rng, ctr, radius*s1.Angle(0.3+1.5*rng.Float()), 1000)
		}
	case 2:
		c.kind = "cell boundaries"
		cellBoundaryShapes(c, rng)
		if rng.Bool() {
			cellBoundaryShapes(c, rng)
		}
	case 3:
		c.kind = "multi-face"
		multiFaceShapes(c, rng)
		addRandomShape(c, rng, pickCenter(rng), pickRadius(rng), 64)
	case 6: // vertices exactly at cell centres, small enough that the index cell is that cell
		c.kind = "vertex at cell centre"
		for i, n := 0, 2+rng.Intn(4); i < n; i++ {
			cellCentreShapes(c, rng)
		}
	case 5: // about 10^4 edges (thorough and search tiers)
		c.kind = "huge"
		center := pickCenter(rng)
		radius := pickRadius(rng)
		for c.numEdges() < 9000 && len(c.shapes) < 12 {
			ctr := s2.Point{Vector: center.Add(randPoint(rng).Mul(2 * float64(radius))).Normalize()}
			addRandomShape(c, rng, ctr, radius*s1.Angle(0.3+1.5*rng.Float()), 1000)
		}
	default: // no edges at all / only points / a single degenerate shape
		c.kind = "degenerate"
		switch rng.Intn(3) {
		case 0:
			pv := s2.PointVector{}
			c.add(&pv, "PointVector", true, "empty PointVector")
		case 1:
			p := pickCenter(rng)
			pv := s2.PointVector{p, p, ulpPerturb(rng, p, 1)}
			c.add(&pv, "PointVector", true, "repeated point")
			c.add(s2.LaxPolylineFromPoints([]s2.Point{p, p}), "LaxPolyline", true, "degenerate polyline")
		default:
			c.add(s2.LaxPolygonFromPoints([][]s2.Point{{}}), "LaxPolygon", false, "full LaxPolygon (one empty loop)")
			pv := s2.PointVector{randPoint(rng)}
			c.add(&pv, "PointVector", true, "one point")
		}
	}
	c.index = s2.NewShapeIndex()
	for _, s := range c.shapes {
		c.index.Add(s.shape)
	}
	return c
}

func (c *collection) replay(extra map[string]interface{}) map[string]interface{} {
	sh := []interface{}{}
	for _, s := range c.shapes {
		sh = append(sh, map[string]interface{}{"type": s.typ, "edges": len(s.edges), "desc": s.desc, "removed": s.removed})
	}
	out := map[string]interface{}{"collection": c.kind, "shapes": sh}
	if len(c.history) > 0 {
		out["history"] = c.history
	}
	for k, v := range extra {
		out[k] = v
	}
	return out
}

func p3(p s2.Point) [3]float64 { return [3]float64{p.X, p.Y, p.Z} }

// ---- structural invariants of the dump, completeness, containsCenter ----

const missMargin = 9e-16 // < (faceClipErrorUVCoord+edgeClipErrorUVCoord)/2 ~ cellPadding/4

func checkDump(c *vkit.Collector, rng *vkit.Rng, col *collection, cells []s2.VerifCell) {
	for i, cell := range cells {
		rp := func(m map[string]interface{}) map[string]interface{} {
			m["cell"] = fmt.Sprintf("%x", uint64(cell.ID))
			return col.replay(m)
		}
		if !cell.ID.IsValid() {
			c.Violate("ShapeIndex.cells", "invalid cell id in the index", rp(map[string]interface{}{}))
		}
		if i > 0 && !(cells[i-1].ID.RangeMax() < cell.ID.RangeMin()) {
			c.Violate("ShapeIndex.cells", "index cells not increasing / not disjoint", rp(map[string]interface{}{"prev": fmt.Sprintf("%x", uint64(cells[i-1].ID))}))
		}
		if len(cell.Shapes) == 0 {
			c.Violate("ShapeIndex.cell", "index cell without any clipped shape", rp(map[string]interface{}{}))
		}
		present := map[int32]*s2.VerifClipped{}
		for k := range cell.Shapes {
			cl := &cell.Shapes[k]
			if cl.ShapeID >= 0 && int(cl.ShapeID) < len(col.shapes) && col.shapes[cl.ShapeID].removed {
				c.Violate("ShapeIndex.cell", "index cell lists a shape that was removed from the index", rp(map[string]interface{}{"shapeID": cl.ShapeID}))
				continue
			}
			if cl.ShapeID < 0 || int(cl.ShapeID) >= len(col.shapes) || (k > 0 && cell.Shapes[k-1].ShapeID >= cl.ShapeID) {
				c.Violate("ShapeIndex.cell", "clipped shape ids out of range or not increasing", rp(map[string]interface{}{"shapeID": cl.ShapeID}))
				continue
			}
			present[cl.ShapeID] = cl
			sh := col.shapes[cl.ShapeID]
			for j, e := range cl.Edges {
				if e < 0 || e >= len(sh.edges) || (j > 0 && cl.Edges[j-1] >= e) {
					c.Violate("ShapeIndex.clipped.edges", "clipped edge ids out of range or not strictly increasing", rp(map[string]interface{}{"shapeID": cl.ShapeID, "edges": cl.Edges}))
					break
				}
			}
			if len(cl.Edges) == 0 && !cl.ContainsCenter {
				c.Violate("ShapeIndex.cell", "clipped shape with no edge that does not contain the centre", rp(map[string]interface{}{"shapeID": cl.ShapeID}))
			}
			if sh.dim != 2 && cl.ContainsCenter {
				c.Violate("ShapeIndex.containsCenter", "containsCenter set for a shape without interior", rp(map[string]interface{}{"shapeID": cl.ShapeID}))
			}
		}
	}
	// completeness and containsCenter: all cells if few, else a sample that always includes the
	// first/last cells
	pick := map[int]bool{}
	if len(cells) <= 150 {
		for i := range cells {
			pick[i] = true
		}
	} else {
		for len(pick) < 150 {
			pick[rng.Intn(len(cells))] = true
		}
		pick[0], pick[len(cells)-1] = true, true
	}
	for i := range cells {
		if !pick[i] {
			continue
		}
		cell := cells[i]
		s2cell := s2.CellFromCellID(cell.ID)
		center := cell.ID.Point()
		byShape := map[int32]*s2.VerifClipped{}
		for k := range cell.Shapes {
			byShape[cell.Shapes[k].ShapeID] = &cell.Shapes[k]
		}
		for sid, sh := range col.shapes {
			if sh.removed {
				continue
			}
			cl := byShape[int32(sid)]
			listed := map[int]bool{}
			cc := false
			if cl != nil {
				cc = cl.ContainsCenter
				for _, e := range cl.Edges {
					listed[e] = true
				}
			}
			for e, ed := range sh.edges {
				if listed[e] {
					continue
				}
				c.Eval("", false)
				if edgeNearCell(s2cell, ed.V0, ed.V1, missMargin) {
					if os.Getenv("VERIF_C06_DEBUG") != "" {
						r := s2cell.BoundUV()
						fmt.Fprintf(os.Stderr, "MISS cell %x face %d level %d uv [%g,%g]x[%g,%g] shape %d edge %d %v -> %v\n", uint64(cell.ID), cell.ID.Face(), cell.ID.Level(), r.X.Lo, r.X.Hi, r.Y.Lo, r.Y.Hi, sid, e, ed.V0, ed.V1)
						for _, oc := range cells {
							for _, ocl := range oc.Shapes {
								if int(ocl.ShapeID) == sid {
									for _, oe := range ocl.Edges {
										if oe == e {
											rr := s2.CellFromCellID(oc.ID).BoundUV()
											fmt.Fprintf(os.Stderr, "   listed in %x face %d level %d uv [%g,%g]x[%g,%g]\n", uint64(oc.ID), oc.ID.Face(), oc.ID.Level(), rr.X.Lo, rr.X.Hi, rr.Y.Lo, rr.Y.Hi)
										}
									}
								}
							}
						}
					}
					c.Violate("ShapeIndex.completeness", fmt.Sprintf("edge %d of shape %d passes within %.1e (uv) of index cell %x but the cell does not list it", e, sid, missMargin, uint64(cell.ID)),
						col.replay(map[string]interface{}{"cell": fmt.Sprintf("%x", uint64(cell.ID)), "shapeID": sid, "edge": e, "v0": p3(ed.V0), "v1": p3(ed.V1)}))
				}
			}
			if sh.dim == 2 {
				if want := bruteContains(sh, center); want != cc {
					c.Violate("ShapeIndex.containsCenter", fmt.Sprintf("containsCenter = %v for shape %d in cell %x, brute force at the centre says %v", cc, sid, uint64(cell.ID), want),
						col.replay(map[string]interface{}{"cell": fmt.Sprintf("%x", uint64(cell.ID)), "shapeID": sid}))
				}
			}
		}
	}
}

// ---- queries against brute force ----

func queryPoints(rng *vkit.Rng, col *collection, cells []s2.VerifCell, n int) (pts []s2.Point, isVertexPoint []bool) {
	add := func(p s2.Point, v bool) { pts = append(pts, p); isVertexPoint = append(isVertexPoint, v) }
	var allEdges []s2.Edge
	for _, s := range col.shapes {
		allEdges = append(allEdges, s.edges...)
	}
	for i := 0; i < n && len(allEdges) > 0; i++ {
		e := allEdges[rng.Intn(len(allEdges))]
		add(e.V0, true)
		add(s2.Interpolate(0.5, e.V0, e.V1), false)
		add(s2.Interpolate(rng.Float(), e.V0, e.V1), false)
		add(ulpPerturb(rng, e.V1, 2), false)
	}
	for i := 0; i < n && len(cells) > 0; i++ {
		id := cells[rng.Intn(len(cells))].ID
		add(id.Point(), false)
		add(s2.CellFromCellID(id).Vertex(rng.Intn(4)), false)
		// a point just outside / inside the cell near a corner
		add(ulpPerturb(rng, s2.CellFromCellID(id).Vertex(rng.Intn(4)), 3), false)
	}
	for i := 0; i < n; i++ {
		add(randPoint(rng), false)
		if len(allEdges) > 0 {
			e := allEdges[rng.Intn(len(allEdges))]
			add(s2.Point{Vector: e.V0.Add(randPoint(rng).Mul(e.V0.Sub(e.V1.Vector).Norm() * 2)).Normalize()}, false)
		}
	}
	return
}

var models = []s2.VertexModel{s2.VertexModelOpen, s2.VertexModelSemiOpen, s2.VertexModelClosed}
var modelName = map[s2.VertexModel]string{s2.VertexModelOpen: "Open", s2.VertexModelSemiOpen: "SemiOpen", s2.VertexModelClosed: "Closed"}

// vertexAtCentreTotal counts (index cell, vertex) coincidences met by the queries of a run.
var vertexAtCentreTotal int

func checkContainsQueries(c *vkit.Collector, rng *vkit.Rng, col *collection, cells []s2.VerifCell, n int) {
	pts, _ := queryPoints(rng, col, cells, n)
	// the centres of ALL index cells (the start point of the query's crossing segment: a degenerate
	// segment) and ALL vertices, when the collection is small enough
	vertexAtCentre := 0
	if len(cells) <= 400 {
		for _, cell := range cells {
			ctr := cell.ID.Point()
			pts = append(pts, ctr)
			for _, sh := range col.shapes {
				if !sh.removed && sh.vertices[ctr] {
					vertexAtCentre++
					break
				}
			}
		}
	}
	if col.numEdges() <= 400 {
		for _, sh := range col.shapes {
			for _, e := range sh.edges {
				pts = append(pts, e.V0, e.V1)
			}
		}
	}
	if vertexAtCentre > 0 {
		c.Class("index: has a vertex that is the centre of its index cell")
		vertexAtCentreTotal += vertexAtCentre
	}
	for _, model := range models {
		q := s2.NewContainsPointQuery(col.index, model)
		for _, p := range pts {
			anyWant, skipAny := false, false
			wantSet := map[int]bool{}
			for sid, sh := range col.shapes {
				if sh.removed {
					continue
				}
				if !sh.clean && sh.vertices[p] {
					skipAny = true // vertex of a degenerate polygon: containment at that vertex is not defined by parity
					continue
				}
				want := bruteModel(sh, model, p)
				got := q.ShapeContains(sh.shape, p)
				c.Eval(fmt.Sprintf("contains:%s:%d:%v", modelName[model], sid, p), true)
				if got != want {
					c.Violate("ContainsPointQuery.ShapeContains", fmt.Sprintf("model %s, shape %d (%s): index says %v, brute force over all edges says %v", modelName[model], sid, sh.typ, got, want),
						col.replay(map[string]interface{}{"model": modelName[model], "shapeID": sid, "p": p3(p), "isVertex": sh.vertices[p]}))
				}
				if want {
					anyWant = true
					wantSet[sid] = true
				}
			}
			if skipAny {
				continue
			}
			if got := q.Contains(p); got != anyWant {
				c.Violate("ContainsPointQuery.Contains", fmt.Sprintf("model %s: Contains says %v, brute force says %v", modelName[model], got, anyWant),
					col.replay(map[string]interface{}{"model": modelName[model], "p": p3(p)}))
			}
			gotShapes := q.ContainingShapes(p)
			gotSet := map[int]bool{}
			for _, gs := range gotShapes {
				for sid, sh := range col.shapes {
					if sh.shape == gs {
						gotSet[sid] = true
					}
				}
			}
			if len(gotSet) != len(wantSet) || len(gotShapes) != len(wantSet) {
				c.Violate("ContainsPointQuery.ContainingShapes", fmt.Sprintf("model %s: ContainingShapes returns %d shapes, brute force %d", modelName[model], len(gotShapes), len(wantSet)),
					col.replay(map[string]interface{}{"model": modelName[model], "p": p3(p)}))
			}
		}
	}
}

func bruteCrossings(sh *idxShape, a, b s2.Point, all bool) []int {
	var out []int
	for e, ed := range sh.edges {
		sign := s2.CrossingSign(a, b, ed.V0, ed.V1)
		if sign == s2.Cross || (all && sign == s2.MaybeCross) {
			out = append(out, e)
		}
	}
	return out
}
func sameInts(a, b []int) bool {
	if len(a) != len(b) {
		return false
	}
	for i := range a {
		if a[i] != b[i] {
			return false
		}
	}
	return true
}

func queryEdges(rng *vkit.Rng, col *collection, cells []s2.VerifCell, n int) [][2]s2.Point {
	var out [][2]s2.Point
	var allEdges []s2.Edge
	for _, s := range col.shapes {
		allEdges = append(allEdges, s.edges...)
	}
	for i := 0; i < n; i++ {
		if len(cells) > 0 {
			// through / between cell corners, along cell sides and diagonals
			c1 := s2.CellFromCellID(cells[rng.Intn(len(cells))].ID)
			c2 := s2.CellFromCellID(cells[rng.Intn(len(cells))].ID)
			out = append(out, [2]s2.Point{c1.Vertex(rng.Intn(4)), c2.Vertex(rng.Intn(4))})
			out = append(out, [2]s2.Point{c1.Vertex(0), c1.Vertex(2)})
			out = append(out, [2]s2.Point{c1.Vertex(1), c1.Vertex(2)})
			out = append(out, [2]s2.Point{ulpPerturb(rng, c1.Vertex(3), 3), c2.Center()})
		}
		if len(allEdges) > 0 {
			e1, e2 := allEdges[rng.Intn(len(allEdges))], allEdges[rng.Intn(len(allEdges))]
			out = append(out, [2]s2.Point{e1.V0, e2.V1}) // shares vertices with shape edges
			out = append(out, [2]s2.Point{s2.Interpolate(0.5, e1.V0, e1.V1), s2.Interpolate(0.3, e2.V0, e2.V1)})
			out = append(out, [2]s2.Point{e1.V0, e1.V1}) // coincides with an edge
			d := e1.V0.Sub(e1.V1.Vector).Norm()*3 + 1e-9
			out = append(out, [2]s2.Point{s2.Point{Vector: e1.V0.Add(randPoint(rng).Mul(d)).Normalize()}, s2.Point{Vector: e1.V1.Add(randPoint(rng).Mul(d)).Normalize()}})
		}
		out = append(out, [2]s2.Point{randPoint(rng), randPoint(rng)}) // long, several faces
	}
	return out
}

func checkCrossingQueries(c *vkit.Collector, rng *vkit.Rng, col *collection, cells []s2.VerifCell, n int) {
	q := s2.NewCrossingEdgeQuery(col.index)
	for _, ab := range queryEdges(rng, col, cells, n) {
		a, b := ab[0], ab[1]
		if a.Vector == b.Mul(-1) || a == b {
			continue
		}
		for _, all := range []bool{true, false} {
			ct := s2.CrossingTypeInterior
			name := "Interior"
			if all {
				ct, name = s2.CrossingTypeAll, "All"
			}
			wantMap := map[int][]int{}
			for sid, sh := range col.shapes {
				if sh.removed {
					continue
				}
				want := bruteCrossings(sh, a, b, all)
				if len(want) > 0 {
					wantMap[sid] = want
				}
				got := q.Crossings(a, b, sh.shape, ct)
				c.Eval(fmt.Sprintf("crossings:%s:%d:%v:%v", name, sid, a, b), len(want) > 0)
				if !sameInts(got, want) {
					c.Violate("CrossingEdgeQuery.Crossings", fmt.Sprintf("type %s, shape %d (%s, %d edges): index returns %d edges, brute force over all edges %d", name, sid, sh.typ, len(sh.edges), len(got), len(want)),
						col.replay(map[string]interface{}{"type": name, "shapeID": sid, "a": p3(a), "b": p3(b), "got": got, "want": want}))
				}
				if all {
					cands := s2.VerifC06Candidates(q, a, b, sh.shape)
					cs := map[int]bool{}
					for _, e := range cands {
						cs[e] = true
					}
					for _, e := range want {
						if !cs[e] {
							c.Violate("CrossingEdgeQuery.candidates", fmt.Sprintf("shape %d: edge %d crosses or touches the query edge but is not a candidate", sid, e),
								col.replay(map[string]interface{}{"shapeID": sid, "a": p3(a), "b": p3(b), "edge": e}))
							break
						}
					}
				}
			}
			em := q.CrossingsEdgeMap(a, b, ct)
			gotMap := map[int][]int{}
			for shp, edges := range em {
				for sid, sh := range col.shapes {
					if sh.shape == shp {
						gotMap[sid] = edges
					}
				}
			}
			okMap := len(gotMap) == len(wantMap) && len(em) == len(wantMap)
			for sid, w := range wantMap {
				if !sameInts(gotMap[sid], w) {
					okMap = false
				}
			}
			if !okMap {
				c.Violate("CrossingEdgeQuery.CrossingsEdgeMap", fmt.Sprintf("type %s: edge map differs from brute force over all shapes (%d vs %d shapes with crossings)", name, len(em), len(wantMap)),
					col.replay(map[string]interface{}{"type": name, "a": p3(a), "b": p3(b)}))
			}
		}
	}
}

// ---- Loop / Polygon: index path of ContainsPoint, ContainsCell, IntersectsCell ----

type cellRegion interface {
	ContainsCell(s2.Cell) bool
	IntersectsCell(s2.Cell) bool
	ContainsPoint(s2.Point) bool
}

func checkRegion(c *vkit.Collector, rng *vkit.Rng, name string, reg cellRegion, own *s2.ShapeIndex, sh *idxShape, n int, desc interface{}) {
	const clear = 1e-12
	// points
	var pts []s2.Point
	for i := 0; i < n; i++ {
		e := sh.edges[rng.Intn(len(sh.edges))]
		pts = append(pts, e.V0, s2.Interpolate(0.5, e.V0, e.V1), ulpPerturb(rng, e.V1, 2), randPoint(rng),
			s2.Point{Vector: e.V0.Add(randPoint(rng).Mul(e.V0.Sub(e.V1.Vector).Norm() * 3)).Normalize()})
	}
	for _, p := range pts {
		c.Eval(fmt.Sprintf("%s.ContainsPoint:%v", name, p), true)
		if got, want := reg.ContainsPoint(p), bruteContains(sh, p); got != want {
			c.Violate(name+".ContainsPoint", fmt.Sprintf("%d vertices: index path says %v, brute force over all edges says %v", len(sh.edges), got, want),
				map[string]interface{}{"shape": desc, "p": p3(p)})
		}
	}
	// checkCell compares ContainsCell / IntersectsCell of one target with the brute-force decision:
	// exact (both directions) when no edge comes within 1e-12 of the cell or an edge passes through
	// its interior; one-sided when an edge only grazes the boundary.
	checkCell := func(id s2.CellID, where string) {
		level := id.Level()
		cell := s2.CellFromCellID(id)
		nearOut, nearIn := false, false
		for _, ed := range sh.edges {
			if edgeNearCell(cell, ed.V0, ed.V1, clear) {
				nearOut = true
				if edgeNearCell(cell, ed.V0, ed.V1, -clear) {
					nearIn = true
					break
				}
			}
		}
		centerIn := bruteContains(sh, cell.Center())
		gotC, gotI := reg.ContainsCell(cell), reg.IntersectsCell(cell)
		c.Eval(fmt.Sprintf("%s.Cell:%x", name, uint64(id)), true)
		rp := map[string]interface{}{"shape": desc, "cell": fmt.Sprintf("%x", uint64(id)), "level": level, "where": where, "ContainsCell": gotC, "IntersectsCell": gotI, "centerInside": centerIn}
		switch {
		case nearIn: // an edge passes through the interior of the cell
			if gotC {
				c.Violate(name+".ContainsCell", "ContainsCell true although a boundary edge passes through the cell", rp)
			}
			if !gotI {
				c.Violate(name+".IntersectsCell", "IntersectsCell false although a boundary edge passes through the cell", rp)
			}
		case !nearOut: // no edge within 1e-12 of the cell: the cell is entirely inside or outside
			if gotC != centerIn {
				c.Violate(name+".ContainsCell", fmt.Sprintf("no edge near the cell, centre inside = %v, ContainsCell = %v", centerIn, gotC), rp)
			}
			if gotI != centerIn {
				c.Violate(name+".IntersectsCell", fmt.Sprintf("no edge near the cell, centre inside = %v, IntersectsCell = %v", centerIn, gotI), rp)
			}
		default: // an edge grazes the boundary: only the one-sided guarantees
			if gotC && !centerIn {
				c.Violate(name+".ContainsCell", "ContainsCell true but the cell centre is outside", rp)
			}
			if !gotI && centerIn {
				c.Violate(name+".IntersectsCell", "IntersectsCell false but the cell centre is inside", rp)
			}
		}
	}
	// cells: around vertices and edge midpoints at levels from coarse to fine
	for i := 0; i < n; i++ {
		e := sh.edges[rng.Intn(len(sh.edges))]
		base := []s2.Point{e.V0, s2.Interpolate(0.5, e.V0, e.V1), randPoint(rng), sh.ref.Point}[rng.Intn(4)]
		edgeLevel := s2.AvgEdgeMetric.ClosestLevel(e.V0.Distance(e.V1).Radians() + 1e-12)
		level := edgeLevel - 3 + rng.Intn(8)
		if rng.Intn(4) == 0 {
			level = rng.Intn(8)
		}
		if level < 0 {
			level = 0
		}
		if level > 30 {
			level = 30
		}
		id := s2.CellFromPoint(base).ID().Parent(level)
		if rng.Intn(3) == 0 {
			id = id.EdgeNeighbors()[rng.Intn(4)]
		}
		checkCell(id, "near the boundary")
	}
	// cells of the shape's own index: the index cells themselves (edge-free interior cells always),
	// their parents and children - where the LocateCellID relation changes
	if own != nil {
		cells := own.VerifCells()
		var edgeFree, withEdges []s2.CellID
		for _, cell := range cells {
			ne := 0
			for _, cl := range cell.Shapes {
				ne += len(cl.Edges)
			}
			if ne == 0 {
				edgeFree = append(edgeFree, cell.ID)
			} else {
				withEdges = append(withEdges, cell.ID)
			}
		}
		c.Class(fmt.Sprintf("region:%s index has edge-free interior cells: %v", name, len(edgeFree) > 0))
		var targets []s2.CellID
		for i, id := range edgeFree {
			if i >= 24 {
				break
			}
			targets = append(targets, id)
			if id.Level() < 30 {
				ch := id.Children()
				targets = append(targets, ch[0], ch[1], ch[2], ch[3])
			}
			if id.Level() > 0 {
				targets = append(targets, id.Parent(id.Level()-1))
			}
		}
		for i := 0; i < 3*n && len(withEdges) > 0; i++ {
			id := withEdges[rng.Intn(len(withEdges))]
			targets = append(targets, id)
			if id.Level() < 30 {
				targets = append(targets, id.Children()[rng.Intn(4)])
			}
			if id.Level() > 0 {
				targets = append(targets, id.Parent(id.Level()-1))
			}
			targets = append(targets, id.EdgeNeighbors()[rng.Intn(4)])
		}
		for _, id := range targets {
			checkCell(id, "own index")
		}
	}
}

// relBudget bounds the number of loops/polygons whose cell relations go to the Coq model per run.
var relBudget = map[string]int{}

// correspondCellRelations: [T] Loop/Polygon.ContainsCell / IntersectsCell vs Model/Index.v
// contains_cell / intersects_cell over the shape's own index; the crossing predicates and the
// padded clipping test of boundaryApproxIntersects are tables of the implementation's values.
func correspondCellRelations(c *vkit.Collector, rng *vkit.Rng, name string, reg cellRegion, own *s2.ShapeIndex, sh *idxShape) {
	if relBudget[name] <= 0 || len(sh.edges) > 90 {
		return
	}
	cells := own.VerifCells()
	if len(cells) > 60 {
		return
	}
	relBudget[name]--
	toks := map[s2.Point]int{}
	next := 2
	tk := func(q s2.Point) int {
		if t, ok := toks[q]; ok {
			return t
		}
		toks[q] = next
		next++
		return next - 1
	}
	es := make([]string, len(sh.edges))
	for j, e := range sh.edges {
		es[j] = fmt.Sprintf("(%d, %d)", tk(e.V0), tk(e.V1))
	}
	var terms []string
	it := own.Iterator()
	var edgeFree []s2.CellID
	for _, cell := range cells {
		ne := 0
		for _, cl := range cell.Shapes {
			ne += len(cl.Edges)
		}
		if ne == 0 {
			edgeFree = append(edgeFree, cell.ID)
		}
	}
	for n := 0; n < 16; n++ {
		var t s2.CellID
		base := cells[rng.Intn(len(cells))].ID
		if n < 3 && n < len(edgeFree) {
			base = edgeFree[n] // the index cell is the target itself (n%5 == 0) or its child / parent
		}
		switch n % 5 {
		case 0:
			t = base
		case 1:
			if base.Level() < 30 {
				t = base.Children()[rng.Intn(4)]
			} else {
				t = base
			}
		case 2:
			if base.Level() > 0 {
				t = base.Parent(rng.Intn(base.Level() + 1))
			} else {
				t = base
			}
		case 3:
			t = s2.CellFromPoint(sh.edges[rng.Intn(len(sh.edges))].V0).ID().Parent(base.Level())
			if base.Level() < 28 {
				t = s2.CellFromPoint(sh.edges[rng.Intn(len(sh.edges))].V0).ID().Parent(base.Level() + 2)
			}
		default:
			t = s2.CellFromPoint(randPoint(rng)).ID().Parent(rng.Intn(12))
		}
		target := s2.CellFromCellID(t)
		var st, vt, at []string
		if it.LocateCellID(t) == s2.Indexed {
			pos := posOf(cells, it.CellID())
			center := it.CellID().Point()
			seen := map[[2]int]bool{}
			for _, cl := range cells[pos].Shapes {
				for _, e := range cl.Edges {
					ed := sh.edges[e]
					k := [2]int{tk(ed.V0), tk(ed.V1)}
					if seen[k] {
						continue
					}
					seen[k] = true
					sign := s2.CrossingSign(center, target.Center(), ed.V0, ed.V1)
					st = append(st, fmt.Sprintf("((%d, %d), %s)", k[0], k[1], signName(sign)))
					vc := false
					if sign == s2.MaybeCross {
						vc = s2.VertexCrossing(center, target.Center(), ed.V0, ed.V1)
					}
					vt = append(vt, fmt.Sprintf("((%d, %d), %s)", k[0], k[1], vkit.B(vc)))
					at = append(at, fmt.Sprintf("((%d, %d), %s)", k[0], k[1], vkit.B(s2.VerifC06ApproxMeets(ed.V0, ed.V1, target))))
				}
			}
		}
		gotC, gotI := reg.ContainsCell(target), reg.IntersectsCell(target)
		terms = append(terms, fmt.Sprintf("(let st := [%s] in let vt := [%s] in let am := [%s] in let cc := (fun id : Z => if id =? %d then 0 else 1) in (option_beq Bool.eqb (contains_cell Z (tab_sign st) (tab_vc vt) cc (tab_meets am) shp idx %d) (Some %s)) && (option_beq Bool.eqb (intersects_cell Z (tab_sign st) (tab_vc vt) cc (tab_meets am) shp idx %d) (Some %s)))",
			joinSemi(st), joinSemi(vt), joinSemi(at), uint64(t), uint64(t), vkit.B(gotC), uint64(t), vkit.B(gotI)))
	}
	c.Eval("T:cellrel:"+name+fmt.Sprint(len(sh.edges), len(cells)), true)
	c.Check(fmt.Sprintf("%s ContainsCell/IntersectsCell model (%d edges, %d index cells)", name, len(sh.edges), len(cells)),
		fmt.Sprintf("(let idx := %s in let shp := mkQShape 2 [%s] in forallb (fun b : bool => b) [%s])%%Z", coqIndex(cells), joinSemi(es), joinSemi(terms)))
}

func checkRegions(c *vkit.Collector, rng *vkit.Rng, budget int) {
	for it := 0; it < 16*budget; it++ {
		n := []int{33, 40, 64, 100, 300, 1000}[rng.Intn(6)]
		if it < 4 {
			n = 33 + rng.Intn(8)
		}
		center, radius := pickCenter(rng), pickRadius(rng)
		desc := map[string]interface{}{"center": p3(center), "radius": float64(radius), "n": n}
		if it%2 == 0 {
			l := s2.RegularLoop(center, radius, n)
			c.Class("region:Loop")
			lsh := newIdxShape(l, "Loop", true, desc)
			checkRegion(c, rng, "Loop", l, s2.VerifC06LoopIndex(l), lsh, 12, desc)
			correspondCellRelations(c, rng, "Loop", l, s2.VerifC06LoopIndex(l), lsh)
		} else {
			// a shell alone, or with a hole (half or a sixth of the radius; the hole has > 32 vertices too)
			loops := []*s2.Loop{s2.RegularLoop(center, radius, n)}
			switch (it / 2) % 3 {
			case 0:
				loops = append(loops, s2.RegularLoop(center, radius/2, 33+rng.Intn(10)))
				desc["hole"] = 0.5
			case 2:
				loops = append(loops, s2.RegularLoop(center, radius/6, 33+rng.Intn(10)))
				desc["hole"] = 1.0 / 6
			}
			p := s2.PolygonFromLoops(loops)
			c.Class("region:Polygon")
			psh := newIdxShape(p, "Polygon", true, desc)
			checkRegion(c, rng, "Polygon", p, s2.VerifC06PolygonIndex(p), psh, 12, desc)
			correspondCellRelations(c, rng, "Polygon", p, s2.VerifC06PolygonIndex(p), psh)
		}
	}
}

// ---- [T] the Coq query model on small indexes ----

func coqIndex(cells []s2.VerifCell) string {
	cs := make([]string, len(cells))
	for i, cell := range cells {
		cl := make([]string, len(cell.Shapes))
		for k, s := range cell.Shapes {
			cl[k] = fmt.Sprintf("mkClipped %d %s %s", s.ShapeID, vkit.B(s.ContainsCenter), zlist(s.Edges))
		}
		cs[i] = fmt.Sprintf("(%d, [%s])", uint64(cell.ID), joinSemi(cl))
	}
	return "[" + joinSemi(cs) + "]"
}
func joinSemi(xs []string) string {
	out := ""
	for i, x := range xs {
		if i > 0 {
			out += "; "
		}
		out += x
	}
	return out
}
func signName(s s2.Crossing) string {
	switch s {
	case s2.Cross:
		return "Cross"
	case s2.MaybeCross:
		return "MaybeCross"
	}
	return "DoNotCross"
}

func posOf(cells []s2.VerifCell, id s2.CellID) int {
	i := sort.Search(len(cells), func(i int) bool { return cells[i].ID >= id })
	if i < len(cells) && cells[i].ID == id {
		return i
	}
	return -1
}

// tBudget bounds the number of indexes given to the Coq query model per run (elaborating an index
// value and its shapes is the expensive part of the correspondence).
var tBudget int

// okBudget bounds the number of indexes whose structural well-formedness Coq decides per run.
var okBudget int

// correspondIndexOk: [T] Coq decides the structural part of index_ok (Model/Index.v index_okb, with
// the reflection lemma Proofs/C06_IndexOk.v index_okb_sound) on the dumped index value.
func correspondIndexOk(c *vkit.Collector, col *collection, cells []s2.VerifCell) {
	ids := 0
	for _, cell := range cells {
		for _, cl := range cell.Shapes {
			ids += len(cl.Edges) + 3
		}
	}
	if okBudget <= 0 || len(cells) > 80 || ids > 700 {
		return
	}
	okBudget--
	ne := make([]int, len(col.shapes))
	for i, sh := range col.shapes {
		ne[i] = len(sh.edges)
		if sh.removed {
			ne[i] = 0
		}
	}
	c.Eval("T:index_okb:"+col.kind+fmt.Sprint(len(cells), ids), len(cells) > 0)
	c.Check(fmt.Sprintf("index_okb %s (%d cells)", col.kind, len(cells)), fmt.Sprintf("(index_okb %s %s)%%Z", zlistPlain(ne), coqIndex(cells)))
}

func zlistPlain(xs []int) string {
	ss := make([]string, len(xs))
	for i, x := range xs {
		ss[i] = fmt.Sprint(x)
	}
	return "[" + joinSemi(ss) + "]"
}

func correspondIndex(c *vkit.Collector, rng *vkit.Rng, col *collection, cells []s2.VerifCell, n int) {
	correspondIndexOk(c, col, cells)
	if len(cells) > 24 || col.numEdges() > 48 || tBudget <= 0 || col.anyRemoved() {
		return
	}
	tBudget--
	idx := coqIndex(cells)
	ids := make([]string, len(cells))
	for i, cell := range cells {
		ids[i] = fmt.Sprint(uint64(cell.ID))
	}
	cellList := "[" + joinSemi(ids) + "]"
	it := col.index.Iterator()
	// (1) RangeMin/RangeMax and LocatePoint / LocateCellID
	var terms []string
	for _, cell := range cells {
		terms = append(terms, fmt.Sprintf("((range_min %d =? %d) && (range_max %d =? %d))", uint64(cell.ID), uint64(cell.ID.RangeMin()), uint64(cell.ID), uint64(cell.ID.RangeMax())))
	}
	pts, _ := queryPoints(rng, col, cells, n)
	// first the index-cell centres that are vertices (query point = start of the crossing segment)
	var front []s2.Point
	for _, cell := range cells {
		ctr := cell.ID.Point()
		for _, sh := range col.shapes {
			if !sh.removed && sh.vertices[ctr] {
				front = append(front, ctr)
				break
			}
		}
	}
	pts = append(front, pts...)
	for _, p := range pts {
		target := s2.CellFromPoint(p).ID()
		want := "None"
		if it.LocatePoint(p) {
			want = fmt.Sprintf("(Some %d)", posOf(cells, it.CellID()))
		}
		terms = append(terms, fmt.Sprintf("(option_beq Z.eqb (locate_point cells %d) %s)", uint64(target), want))
	}
	var targets []s2.CellID
	for i := 0; i < 3*n; i++ {
		var t s2.CellID
		if len(cells) > 0 && rng.Intn(4) != 0 {
			t = cells[rng.Intn(len(cells))].ID
			switch rng.Intn(5) {
			case 0:
				if t.Level() > 0 {
					t = t.Parent(rng.Intn(t.Level() + 1))
				}
			case 1:
				if t.Level() < 30 {
					t = t.Children()[rng.Intn(4)]
				}
			case 2:
				t = t.EdgeNeighbors()[rng.Intn(4)]
			case 3:
				t = t.Next()
			}
		} else {
			t = s2.CellFromPoint(randPoint(rng)).ID().Parent(rng.Intn(31))
		}
		if t.IsValid() {
			targets = append(targets, t)
		}
	}
	for _, t := range targets {
		rel := it.LocateCellID(t)
		want := "Disjoint"
		switch rel {
		case s2.Indexed:
			want = fmt.Sprintf("(Indexed %d)", posOf(cells, it.CellID()))
		case s2.Subdivided:
			want = fmt.Sprintf("(Subdivided %d)", posOf(cells, it.CellID()))
		}
		terms = append(terms, fmt.Sprintf("(relation_eqb (locate_cellid cells %d) %s)", uint64(t), want))
	}
	c.Eval("T:locate:"+col.kind+fmt.Sprint(len(cells)), len(cells) > 0)
	c.Check("index locate "+col.kind, fmt.Sprintf("(let cells := %s in forallb (fun b : bool => b) [%s])%%Z", cellList, joinSemi(terms)))

	// (2) shapeContains through the model: points are tokens (p = 0, centre = 1, vertices >= 2 by identity),
	//     the geometric predicates are tables of the values the implementation's predicates returned
	shapesTerm := func(tk func(s2.Point) int) string {
		ss := make([]string, len(col.shapes))
		for i, sh := range col.shapes {
			es := make([]string, len(sh.edges))
			for j, e := range sh.edges {
				es[j] = fmt.Sprintf("(%d, %d)", tk(e.V0), tk(e.V1))
			}
			ss[i] = fmt.Sprintf("mkQShape %d [%s]", sh.dim, joinSemi(es))
		}
		return "[" + joinSemi(ss) + "]"
	}
	qterms := []string{}
	for qi, p := range pts {
		if qi%3 != 0 && qi > 12 {
			continue
		}
		target := s2.CellFromPoint(p).ID()
		if !it.LocatePoint(p) {
			continue
		}
		center := it.CellID().Point()
		toks := map[s2.Point]int{p: 0}
		if _, ok := toks[center]; !ok {
			toks[center] = 1
		}
		next := 2
		tk := func(q s2.Point) int {
			if t, ok := toks[q]; ok {
				return t
			}
			toks[q] = next
			next++
			return next - 1
		}
		shapes := shapesTerm(tk)
		// tables over the edges of the located cell
		var st, vt []string
		seen := map[[2]int]bool{}
		pos := posOf(cells, it.CellID())
		for _, cl := range cells[pos].Shapes {
			sh := col.shapes[cl.ShapeID]
			for _, e := range cl.Edges {
				ed := sh.edges[e]
				k := [2]int{tk(ed.V0), tk(ed.V1)}
				if seen[k] {
					continue
				}
				seen[k] = true
				st = append(st, fmt.Sprintf("((%d, %d), %s)", k[0], k[1], signName(s2.CrossingSign(center, p, ed.V0, ed.V1))))
				vc := false
				if s2.CrossingSign(center, p, ed.V0, ed.V1) == s2.MaybeCross {
					vc = s2.VertexCrossing(center, p, ed.V0, ed.V1)
				}
				vt = append(vt, fmt.Sprintf("((%d, %d), %s)", k[0], k[1], vkit.B(vc)))
			}
		}
		var per []string
		for _, model := range models {
			q := s2.NewContainsPointQuery(col.index, model)
			for sid, sh := range col.shapes {
				got := q.ShapeContains(sh.shape, p)
				per = append(per, fmt.Sprintf("(Bool.eqb (query_shape_contains Z Z.eqb (tab_sign st) (tab_vc vt) (fun _ => %d) (fun _ => %d) VertexModel%s shapes idx %d 0) %s)",
					tk(center), uint64(target), modelName[model], sid, vkit.B(got)))
			}
		}
		qterms = append(qterms, fmt.Sprintf("(let shapes := %s in let st := [%s] in let vt := [%s] in forallb (fun b : bool => b) [%s])", shapes, joinSemi(st), joinSemi(vt), joinSemi(per)))
		if len(qterms) >= 4 {
			break
		}
	}
	if len(qterms) > 0 {
		c.Eval("T:contains:"+col.kind+fmt.Sprint(len(cells)), true)
		c.Check("index contains-query "+col.kind, fmt.Sprintf("(let idx := %s in forallb (fun b : bool => b) [%s])%%Z", idx, joinSemi(qterms)))
	}

	// (3) CrossingEdgeQuery candidates for shapes beyond the brute-force threshold
	cq := s2.NewCrossingEdgeQuery(col.index)
	cterms := []string{}
	for _, ab := range queryEdges(rng, col, cells, 2) {
		a, b := ab[0], ab[1]
		if a == b || a.Vector == b.Mul(-1) {
			continue
		}
		visited := s2.VerifC06VisitedCells(cq, a, b)
		vpos := make([]int, len(visited))
		for i, id := range visited {
			vpos[i] = posOf(cells, id)
		}
		for sid, sh := range col.shapes {
			if len(sh.edges) <= 27 {
				continue
			}
			cands := s2.VerifC06Candidates(cq, a, b, sh.shape)
			cterms = append(cterms, fmt.Sprintf("(list_eqb Z.eqb (crossing_candidates idx %s %d) %s)", zlist(vpos), sid, zlist(cands)))
		}
	}
	if len(cterms) > 0 {
		c.Eval("T:candidates:"+col.kind+fmt.Sprint(len(cells)), true)
		c.Check("index crossing-candidates "+col.kind, fmt.Sprintf("(let idx := %s in forallb (fun b : bool => b) [%s])%%Z", idx, joinSemi(cterms)))
	}
}

func runIndex(c *vkit.Collector, rng *vkit.Rng, budget int) {
	kinds := []int{0, 1, 2, 6, 3, 2, 1, 4, 0, 6, 1, 3, 0, 2, 6, 0}
	nCollections := 80 * budget
	tBudget = 6 * budget
	okBudget = 12 * budget
	relBudget["Loop"], relBudget["Polygon"] = 2*budget, 2*budget
	maxEdges, maxCells := 0, 0
	for it := 0; it < nCollections; it++ {
		kind := kinds[it%len(kinds)]
		if budget > 1 && it%40 == 7 {
			kind = 5
		}
		runOneCollection(c, rng, it, kind, &maxEdges, &maxCells)
	}
	okBudget = 4 * budget // Coq also decides index_okb on dumps taken after updates
	runRemoveRegression(c, rng, &maxEdges, &maxCells)
	for it := 0; it < 6*budget; it++ {
		runLifecycle(c, rng, it, &maxEdges, &maxCells)
	}
	checkRegionsSafely(c, rng, budget)
	c.Extra["index_cells_whose_centre_is_a_vertex"] = vertexAtCentreTotal
	c.Extra["index_max_edges"] = maxEdges
	c.Extra["index_max_cells"] = maxCells
}

// safely runs f; a panic of the implementation is a violation of the property (no query may
// crash on a well-formed collection), reported with the collection as replay.
func safely(c *vkit.Collector, what string, replay func() interface{}, f func()) {
	defer func() {
		if r := recover(); r != nil {
			c.Violate("panic:"+what, fmt.Sprintf("the implementation panicked: %v", r), replay())
		}
	}()
	f()
}

func checkRegionsSafely(c *vkit.Collector, rng *vkit.Rng, budget int) {
	safely(c, "Loop/Polygon cell queries", func() interface{} { return "regular loops / polygons (see generator)" }, func() { checkRegions(c, rng, budget) })
}

func runOneCollection(c *vkit.Collector, rng *vkit.Rng, it, kind int, maxEdgesP, maxCellsP *int) {
	var col *collection
	safely(c, "building the collection", func() interface{} { return map[string]interface{}{"kind": kind, "iteration": it} }, func() { col = genCollection(rng, kind) })
	if col == nil {
		return
	}
	for _, n := range panicNote {
		c.Violate("Shape.Edge", n, col.replay(map[string]interface{}{}))
	}
	panicNote = nil
	validateAndQuery(c, rng, col, it, maxEdgesP, maxCellsP)
}

// validateAndQuery dumps the index as it is now (applying pending updates), validates the dump
// (structure, completeness, containsCenter) and compares every query with brute force.
func validateAndQuery(c *vkit.Collector, rng *vkit.Rng, col *collection, it int, maxEdgesP, maxCellsP *int) {
	safely(c, "index build and queries", func() interface{} { return col.replay(map[string]interface{}{}) }, func() {
		cells := col.index.VerifCells()
		c.Class("index:" + col.kind)
		c.Class(fmt.Sprintf("index: %d shapes", len(col.shapes)))
		if col.numEdges() > *maxEdgesP {
			*maxEdgesP = col.numEdges()
		}
		if len(cells) > *maxCellsP {
			*maxCellsP = len(cells)
		}
		c.Eval(fmt.Sprintf("index:%d:%d:%d:%d", it, col.numEdges(), len(cells), len(col.history)), col.numEdges() > 0)
		if it < 3 {
			c.Sample(col.replay(map[string]interface{}{"edges": col.numEdges(), "cells": len(cells)}))
		}
		checkDump(c, rng, col, cells)
		nq := 8
		if col.numEdges() > 1000 {
			nq = 4
		}
		checkContainsQueries(c, rng, col, cells, nq)
		checkCrossingQueries(c, rng, col, cells, nq/2+1)
		correspondIndex(c, rng, col, cells, 6)
	})
}

// ---- index lifecycles: Add, query, Add more, query, Remove, query, Reset, Add, query ----

// faceCentre returns a point near the centre of a cube face.
func faceCentre(rng *vkit.Rng, face int) s2.Point {
	ctr := s2.CellFromCellID(s2.CellIDFromFace(face)).Center()
	return s2.Point{Vector: ctr.Add(randPoint(rng).Mul(0.3 * rng.Float())).Normalize()}
}

func (col *collection) addToIndex(rng *vkit.Rng, center s2.Point, radius s1.Angle, maxN int, what string) {
	before := len(col.shapes)
	addRandomShape(col, rng, center, radius, maxN)
	for _, sh := range col.shapes[before:] {
		col.index.Add(sh.shape)
	}
	col.history = append(col.history, fmt.Sprintf("Add %s (%s, %d edges)", what, col.shapes[len(col.shapes)-1].typ, len(col.shapes[len(col.shapes)-1].edges)))
}

// runRemoveRegression is the replay of the defect repaired by ecc132d (KNOWN_FINDINGS
// ShapeIndex.Remove.reindexBound), run first in every run: Add a, b, c; Remove(a); then c must
// still contain its centre; a later Add must be indexed; and with a single live shape whose id is
// not 0 CrossingsEdgeMap must not dereference a nil shape. Every stage is also validated in full.
func runRemoveRegression(c *vkit.Collector, rng *vkit.Rng, maxEdgesP, maxCellsP *int) {
	col := &collection{kind: "lifecycle (regression ecc132d)", index: s2.NewShapeIndex()}
	ll := func(lat, lng float64) s2.Point { return s2.PointFromLatLng(s2.LatLngFromDegrees(lat, lng)) }
	centres := []s2.Point{ll(0, 0), ll(0, 90), ll(0, 180), ll(60, -90)}
	add := func(k int) {
		l := s2.RegularLoop(centres[k], s1.Angle(0.1), 8)
		col.add(l, "Loop", true, map[string]interface{}{"type": "Loop", "center": p3(centres[k]), "radius": 0.1, "n": 8})
		col.index.Add(l)
		col.history = append(col.history, fmt.Sprintf("Add 8-gon %d", k))
	}
	remove := func(k int) {
		col.index.Remove(col.shapes[k].shape)
		col.shapes[k].removed = true
		col.history = append(col.history, fmt.Sprintf("Remove shape %d", k))
	}
	expect := func(stage string) {
		col.history = append(col.history, "query ("+stage+")")
		safely(c, "regression "+stage, func() interface{} { return col.replay(map[string]interface{}{}) }, func() {
			q := s2.NewContainsPointQuery(col.index, s2.VertexModelSemiOpen)
			for k, sh := range col.shapes {
				if sh.removed {
					continue
				}
				c.Eval(fmt.Sprintf("regression:%s:%d", stage, k), true)
				if !q.ShapeContains(sh.shape, centres[k]) {
					c.Violate("ShapeIndex.Remove.reindexBound", fmt.Sprintf("%s: live shape %d no longer contains its own centre through the index", stage, k),
						col.replay(map[string]interface{}{"shapeID": k, "p": p3(centres[k])}))
				}
			}
			a, b := centres[0], centres[3]
			_ = s2.NewCrossingEdgeQuery(col.index).CrossingsEdgeMap(a, b, s2.CrossingTypeAll)
		})
		validateAndQuery(c, rng, col, 2000+len(col.history), maxEdgesP, maxCellsP)
	}
	c.Class("index-lifecycle regression (ecc132d)")
	add(0)
	add(1)
	add(2)
	expect("built")
	remove(0)
	expect("after Remove(a)")
	add(3)
	expect("after Remove(a), Add(d)")
	remove(1)
	remove(3)
	expect("one live shape with id 2")
}

func runLifecycle(c *vkit.Collector, rng *vkit.Rng, it int, maxEdgesP, maxCellsP *int) {
	col := &collection{kind: "lifecycle", index: s2.NewShapeIndex()}
	stage := func(name string) {
		col.history = append(col.history, "query ("+name+")")
		c.Class("index-lifecycle stage: " + name)
		for _, n := range panicNote {
			c.Violate("Shape.Edge", n, col.replay(map[string]interface{}{}))
		}
		panicNote = nil
		validateAndQuery(c, rng, col, 1000+it, maxEdgesP, maxCellsP)
	}
	safely(c, "index lifecycle", func() interface{} { return col.replay(map[string]interface{}{}) }, func() {
		// first batch on a middle face, so that later additions sort both before and after its cells
		f0 := 1 + rng.Intn(4)
		radius := pickRadius(rng)
		if radius < 0.01 {
			radius = 0.05
		}
		for i, n := 0, 1+rng.Intn(3); i < n; i++ {
			col.addToIndex(rng, faceCentre(rng, f0), radius, 200, fmt.Sprintf("on face %d", f0))
		}
		if rng.Intn(4) != 0 {
			stage("first build")
		} // else: the first build happens with the second batch pending as well
		// second batch: faces 0 and 5 (cell ids below and above everything so far), and one overlapping
		col.addToIndex(rng, faceCentre(rng, 0), radius, 200, "on face 0")
		col.addToIndex(rng, faceCentre(rng, 5), radius, 200, "on face 5")
		if rng.Bool() {
			col.addToIndex(rng, faceCentre(rng, f0), radius, 64, fmt.Sprintf("overlapping on face %d", f0))
		}
		stage("after adding to a built index")
		// Remove one or two shapes: in even lifecycles the highest live ids (the ids stay contiguous),
		// in odd ones any shape
		for k := 0; k < 1+rng.Intn(2); k++ {
			live := []int{}
			for i, sh := range col.shapes {
				if !sh.removed {
					live = append(live, i)
				}
			}
			if len(live) <= 1 {
				break
			}
			i := live[len(live)-1]
			if it%2 == 1 {
				i = live[rng.Intn(len(live))]
			}
			col.index.Remove(col.shapes[i].shape)
			col.shapes[i].removed = true
			col.history = append(col.history, fmt.Sprintf("Remove shape %d", i))
		}
		stage("after Remove")
		if rng.Bool() {
			col.addToIndex(rng, faceCentre(rng, rng.Intn(6)), radius, 100, "after Remove")
			stage("after Remove and Add")
		}
		// Reset and start again with the same index object
		col.index.Reset()
		col.shapes = nil
		col.history = append(col.history, "Reset")
		col.addToIndex(rng, faceCentre(rng, rng.Intn(6)), radius, 100, "after Reset")
		stage("after Reset")
		col.addToIndex(rng, faceCentre(rng, rng.Intn(6)), radius, 100, "to the rebuilt index")
		stage("after Reset, build, Add")
	})
}
