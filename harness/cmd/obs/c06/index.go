package main

import "verifharness/internal/vkit"

func runIndex(c *vkit.Collector, rng *vkit.Rng, budget int) {}
