package main

import (
	"bytes"
	"fmt"
	"math"

	"github.com/golang/geo/s1"
	"github.com/golang/geo/s2"
)

// Polygon measures against the ACTUAL nesting, recomputed from geometry: every loop is rebuilt as a
// fresh Loop from its vertices (interior on the left, no stored depth), the depth of loop i is the
// number of other fresh loops containing one of its vertices, the polygon is the set of points
// contained by an odd number of loops, and
//   Area = sum (-1)^depth_i Area_i ,  Centroid = sum (-1)^depth_i Centroid_i .
// Nothing of this oracle reads Loop.depth / Sign / IsHole.
func (st *state) checkPolygonGeo(label string, p *s2.Polygon) (area float64, cen s2.Point) {
	c := st.c
	n := p.NumLoops()
	fresh := make([]*s2.Loop, n)
	for i := 0; i < n; i++ {
		fresh[i] = s2.LoopFromPoints(append([]s2.Point{}, p.Loop(i).Vertices()...))
	}
	depth := make([]int, n)
	var wantA, tol float64
	var wantC [3]float64
	rep := map[string]interface{}{"scenario": label, "loops": n}
	var lv []interface{}
	for i := 0; i < n; i++ {
		for j := 0; j < n; j++ {
			if j != i && fresh[j].ContainsPoint(fresh[i].Vertex(0)) {
				depth[i]++
			}
		}
		sgn := 1.0
		if depth[i]%2 == 1 {
			sgn = -1
		}
		wantA += sgn * fresh[i].Area()
		cv := fresh[i].Centroid()
		wantC[0] += sgn * cv.X
		wantC[1] += sgn * cv.Y
		wantC[2] += sgn * cv.Z
		tol += areaTol(fresh[i].NumVertices())
		lv = append(lv, replay("", fresh[i].Vertices(), map[string]interface{}{"geometric_depth": depth[i], "stored_depth": s2.VerifC18Depth(p.Loop(i))})["vertices_hexfloat"])
		if p.Loop(i).IsHole() != (depth[i]%2 == 1) || (p.Loop(i).Sign() < 0) != (depth[i]%2 == 1) {
			c.Violate("Polygon.loopDepth", "a loop's Sign/IsHole disagrees with its actual nesting depth in the polygon", map[string]interface{}{"scenario": label, "loop": i, "geometric_depth": depth[i], "stored_depth": s2.VerifC18Depth(p.Loop(i)), "loops": n})
		}
	}
	rep["loop_vertices_hexfloat"] = lv
	c.Evals++
	area, cen = p.Area(), p.Centroid()
	rep["area"], rep["want_area"] = area, wantA
	if math.IsNaN(area) || area < -tol || area > 4*math.Pi+tol {
		c.Violate("Polygon.Area.range", "polygon area outside [0,4*pi]", rep)
	}
	if math.Abs(area-wantA) > tol {
		c.Violate("Polygon.Area.nesting", "polygon area is not the sum of loop areas signed by the actual nesting (shells minus holes)", rep)
	}
	if math.Abs(cen.X-wantC[0]) > tol || math.Abs(cen.Y-wantC[1]) > tol || math.Abs(cen.Z-wantC[2]) > tol {
		rep["centroid"], rep["want_centroid"] = []float64{cen.X, cen.Y, cen.Z}, wantC[:]
		c.Violate("Polygon.Centroid.nesting", "polygon centroid is not the sum of loop centroids signed by the actual nesting", rep)
	}
	// containment of probe points (between the boundaries) against the odd-count rule; and the area must
	// be positive when a probe is inside, below 4*pi when one is outside
	anyIn, anyOut := false, false
	for i := 0; i < n; i++ {
		v := fresh[i].Vertices()
		ctr := s2.Point{Vector: fresh[i].Centroid().Normalize()}
		for _, t := range []float64{0.23, 0.71, 1.0} {
			q := s2.Interpolate(t, s2.Interpolate(0.5, v[0], v[1]), ctr)
			cnt, near := 0, false
			for j := 0; j < n; j++ {
				w := fresh[j].Vertices()
				for e := range w {
					if float64(s2.DistanceFromSegment(q, w[e], w[(e+1)%len(w)])) < 1e-3*float64(q.Distance(v[0])) {
						near = true
					}
				}
				if fresh[j].ContainsPoint(q) {
					cnt++
				}
			}
			if near {
				continue
			}
			c.Evals++
			in := p.ContainsPoint(q)
			if in != (cnt%2 == 1) {
				c.Violate("Polygon.ContainsPoint.nesting", "ContainsPoint disagrees with the odd-count rule over the polygon's loops", map[string]interface{}{"scenario": label, "point": []float64{q.X, q.Y, q.Z}, "contains": in, "loops_containing": cnt})
			}
			if in {
				anyIn = true
			} else {
				anyOut = true
			}
		}
	}
	if (anyIn && !(area > 0)) || (anyOut && !(area < 4*math.Pi)) {
		c.Violate("Polygon.Area.containment", "polygon area is <= 0 although it contains probe points (or >= 4*pi although it misses some)", rep)
	}
	return area, cen
}

// reusedPolygons: one-loop and multi-loop polygons built from loops that already served in another
// polygon (as shell, hole or island), directly, through Loop.Encode/Decode, and taken from an inverted
// polygon; disjoint decomposition land + lake = shell for areas and centroids.
func (st *state) reusedPolygons(budget int) {
	c, rng := st.c, st.rng
	mk := func(ctr s2.Point, r float64, n int) *s2.Loop { return s2.RegularLoop(ctr, s1.Angle(r), n) }
	codec := func(l *s2.Loop) *s2.Loop {
		var buf bytes.Buffer
		if err := l.Encode(&buf); err != nil {
			return nil
		}
		out := new(s2.Loop)
		if err := out.Decode(&buf); err != nil {
			return nil
		}
		return out
	}
	for k := 0; k < 6*budget; k++ {
		ctr := randPoint(rng)
		r := []float64{1e-4, 0.05, 0.6, 1.2}[k%4]
		ns, nh, ni := 3+rng.Intn(7), 3+rng.Intn(6), 3+rng.Intn(5)
		// the hole lies inside the inscribed circle of the shell, the island inside that of the hole
		inr := func(r float64, n int) float64 { return math.Atan(math.Tan(r) * math.Cos(math.Pi/float64(n))) }
		rh := inr(r, ns) * rng.Range(0.5, 0.85)
		ri := inr(rh, nh) * rng.Range(0.3, 0.8)
		build := func() (s, h, i *s2.Loop) { return mk(ctr, r, ns), mk(ctr, rh, nh), mk(ctr, ri, ni) }
		c.Class("polygon reuse scenario")
		tag := func(s string) string { return fmt.Sprintf("%s (r=%.0e, k=%d)", s, r, k) }

		// the decomposition with fresh loops
		S, H, I := build()
		land := s2.PolygonFromLoops([]*s2.Loop{S, H, I})
		if land.Validate() != nil {
			c.Class("rejected(invalid) polygon reuse scenario")
			continue
		}
		landA, landC := st.checkPolygonGeo(tag("land = shell - hole + island"), land)
		s0, _, _ := build()
		shellA, shellC := st.checkPolygonGeo(tag("shell"), s2.PolygonFromLoops([]*s2.Loop{s0}))
		tol := 3 * (areaTol(ns) + areaTol(nh) + areaTol(ni))
		additive := func(name string, lakeA float64, lakeC s2.Point) {
			if math.Abs(landA+lakeA-shellA) > tol {
				c.Violate("Polygon.Area.additivity", "area(land) + area(lake) != area(shell) for a disjoint decomposition", map[string]interface{}{"scenario": tag(name), "land": landA, "lake": lakeA, "shell": shellA, "tol": tol})
			}
			if math.Abs(landC.X+lakeC.X-shellC.X) > tol || math.Abs(landC.Y+lakeC.Y-shellC.Y) > tol || math.Abs(landC.Z+lakeC.Z-shellC.Z) > tol {
				c.Violate("Polygon.Centroid.additivity", "centroid(land) + centroid(lake) != centroid(shell) for a disjoint decomposition", map[string]interface{}{"scenario": tag(name), "land": []float64{landC.X, landC.Y, landC.Z}, "lake": []float64{lakeC.X, lakeC.Y, lakeC.Z}, "shell": []float64{shellC.X, shellC.Y, shellC.Z}, "tol": tol})
			}
		}
		{ // control: lake from fresh loops
			_, h, i := build()
			a, cc := st.checkPolygonGeo(tag("lake = hole - island, fresh loops"), s2.PolygonFromLoops([]*s2.Loop{h, i}))
			additive("fresh lake", a, cc)
		}
		{ // lake from the very loops of `land` (multi-loop path), then each of them alone (one-loop path)
			a, cc := st.checkPolygonGeo(tag("lake = hole - island, loops reused from land"), s2.PolygonFromLoops([]*s2.Loop{H, I}))
			additive("reused lake", a, cc)
		}
		{ // the hole of a polygon reused as the only loop of a new polygon; same for the island (depth 2)
			S, H, I = build()
			s2.PolygonFromLoops([]*s2.Loop{S, H, I})
			ha, hc := st.checkPolygonGeo(tag("one loop: the hole (depth 1) of another polygon, reused directly"), s2.PolygonFromLoops([]*s2.Loop{H}))
			ia, ic := st.checkPolygonGeo(tag("one loop: the island (depth 2) of another polygon, reused directly"), s2.PolygonFromLoops([]*s2.Loop{I}))
			additive("hole alone - island alone", ha-ia, s2.Point{Vector: hc.Sub(ic.Vector)})
		}
		{ // through Encode/Decode (the encoding stores the depth)
			S, H, I = build()
			s2.PolygonFromLoops([]*s2.Loop{S, H, I})
			if dh, di := codec(H), codec(I); dh != nil && di != nil {
				ha, hc := st.checkPolygonGeo(tag("one loop: decoded copy of a hole (depth 1)"), s2.PolygonFromLoops([]*s2.Loop{dh}))
				ia, ic := st.checkPolygonGeo(tag("one loop: decoded copy of an island (depth 2)"), s2.PolygonFromLoops([]*s2.Loop{di}))
				additive("decoded hole - decoded island", ha-ia, s2.Point{Vector: hc.Sub(ic.Vector)})
				if dh2, di2 := codec(H), codec(I); dh2 != nil && di2 != nil {
					st.checkPolygonGeo(tag("two loops: decoded hole and island"), s2.PolygonFromLoops([]*s2.Loop{dh2, di2}))
				}
			} else {
				c.Class("loop codec failed")
			}
		}
		{ // loops of an inverted polygon, together and alone
			S, H, _ = build()
			q := s2.PolygonFromLoops([]*s2.Loop{S, H})
			qa, _ := st.checkPolygonGeo(tag("annulus"), q)
			q.Invert()
			ia, _ := st.checkPolygonGeo(tag("inverted annulus"), q)
			if math.Abs(qa+ia-4*math.Pi) > tol {
				c.Violate("Polygon.Area.complement", "area(polygon) + area(inverted polygon) != 4*pi", map[string]interface{}{"scenario": tag("annulus"), "area": qa, "inverted": ia})
			}
			var ls []*s2.Loop
			for i := 0; i < q.NumLoops(); i++ {
				ls = append(ls, q.Loop(i))
			}
			for i, l := range ls {
				st.checkPolygonGeo(tag(fmt.Sprintf("one loop: loop %d of an inverted polygon", i)), s2.PolygonFromLoops([]*s2.Loop{l}))
			}
			// and the same with a hole-with-island polygon inverted
			S, H, I = build()
			q = s2.PolygonFromLoops([]*s2.Loop{S, H, I})
			q.Invert()
			st.checkPolygonGeo(tag("inverted land"), q)
			ls = nil
			for i := 0; i < q.NumLoops(); i++ {
				ls = append(ls, q.Loop(i))
			}
			for i, l := range ls {
				st.checkPolygonGeo(tag(fmt.Sprintf("one loop: loop %d of an inverted 3-loop polygon", i)), s2.PolygonFromLoops([]*s2.Loop{l}))
			}
		}
	}
}
