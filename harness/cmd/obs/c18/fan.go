package main

import (
	"math"

	"github.com/golang/geo/r3"
	"github.com/golang/geo/s1"
	"github.com/golang/geo/s2"
	"verifharness/internal/vkit"
)

// fanBranches replays the control flow of Loop.surfaceIntegralFloat64 on a vertex list (for
// labelling the evidence only — the values compared are the implementation's) and counts how
// often each origin-switching case is taken:
//   keep   : the leading edge (O,V_i+1) is stable, origin unchanged
//   move   : origin == V_0 and V_i+1 nearly antipodal -> origin = normalize(V_0 x V_i)
//   revert : origin already moved, V_i stable w.r.t. V_0 -> origin = V_0 again
//   third  : origin already moved, (O,V_i+1) and (V_0,V_i) both antipodal pairs -> origin = V_0 x O
//   closing: origin != V_0 at the end (one more triangle)
type fanCov struct{ keep, move, revert, third, closing, calls int }

func fanBranches(v []s2.Point) fanCov {
	const maxLength = math.Pi - 1e-5
	var fc fanCov
	origin := v[0]
	for i := 1; i+1 < len(v); i++ {
		if float64(v[i+1].Angle(origin.Vector)) > maxLength {
			old := origin
			if origin == v[0] {
				origin = s2.Point{Vector: v[0].PointCross(v[i]).Normalize()}
				fc.move++
			} else if float64(v[i].Angle(v[0].Vector)) < maxLength {
				origin = v[0]
				fc.revert++
			} else {
				origin = s2.Point{Vector: v[0].Cross(old.Vector)}
				fc.third++
				fc.calls++
			}
			fc.calls++
		} else {
			fc.keep++
		}
		fc.calls++
	}
	if origin != v[0] {
		fc.closing++
		fc.calls++
	}
	return fc
}

// randomFrame returns a random rotation (orthonormal right-handed frame).
func randomFrame(rng *vkit.Rng) [3]r3.Vector {
	z := randPoint(rng)
	x := s2.Point{Vector: z.Cross(randPoint(rng).Vector).Normalize()}
	y := s2.Point{Vector: z.Cross(x.Vector).Normalize()}
	return [3]r3.Vector{x.Vector, y.Vector, z.Vector}
}

func inFrame(f [3]r3.Vector, x, y, z float64) s2.Point {
	return s2.Point{Vector: f[0].Mul(x).Add(f[1].Mul(y)).Add(f[2].Mul(z)).Normalize()}
}

func jiggle(rng *vkit.Rng, p s2.Point, eps float64) s2.Point {
	if eps == 0 {
		return p
	}
	return s2.Point{Vector: p.Add(r3.Vector{X: rng.Range(-eps, eps), Y: rng.Range(-eps, eps), Z: rng.Range(-eps, eps)}).Normalize()}
}

// fanLoops: loops with pairs of (nearly) antipodal non-adjacent vertices, which drive the
// triangle fan of surfaceIntegralFloat64/Point through all its origin-switching cases.
// processLoop then runs every rotation and the inverse of each.
func fanLoops(rng *vkit.Rng, reps int) []genLoop {
	type c3 [3]float64
	h := math.Sqrt(0.5)
	bases := []struct {
		name string
		p    []c3
	}{
		// x -> y -> -x -> -z : all edges 90 degrees, area 3*pi; two antipodal pairs (third case)
		{"fan x,y,-x,-z", []c3{{1, 0, 0}, {0, 1, 0}, {-1, 0, 0}, {0, 0, -1}}},
		// half the equator, then the lower half of the xz great circle in two steps (revert to V0)
		{"fan x,y,-x,w,-z", []c3{{1, 0, 0}, {0, 1, 0}, {-1, 0, 0}, {-h, 0, -h}, {0, 0, -1}}},
		// subdivided variants (shift the indices at which the cases fire)
		{"fan x,xy,y,-x,-z", []c3{{1, 0, 0}, {h, h, 0}, {0, 1, 0}, {-1, 0, 0}, {0, 0, -1}}},
		{"fan x,y,yx,-x,-z,zx", []c3{{1, 0, 0}, {0, 1, 0}, {-h, h, 0}, {-1, 0, 0}, {0, 0, -1}, {h, 0, -h}}},
		{"fan x,y,-x,-z,zx", []c3{{1, 0, 0}, {0, 1, 0}, {-1, 0, 0}, {0, 0, -1}, {h, 0, -h}}},
		// the lune the other way round and a three-quarter sphere with a detour
		{"fan x,-z,-x,y", []c3{{1, 0, 0}, {0, 0, -1}, {-1, 0, 0}, {0, 1, 0}}},
		{"fan x,y,-x,-y", []c3{{1, 0, 0}, {0, 1, 0}, {-1, 0, 0}, {0, -1, 0}}},
		{"fan x,y,-x,-z,-y(z)", []c3{{1, 0, 0}, {0, 1, 0}, {-1, 0, 0}, {0, 0, -1}, {0, -h, -h}}},
		{"fan x,y,z,-x,-y,-z", []c3{{1, 0, 0}, {0, 1, 0}, {0, 0, 1}, {-1, 0, 0}, {0, -1, 0}, {0, 0, -1}}},
	}
	var out []genLoop
	for rep := 0; rep < reps; rep++ {
		for _, b := range bases {
			for _, eps := range []float64{0, 1e-6, 3e-6} {
				f := [3]r3.Vector{{X: 1}, {Y: 1}, {Z: 1}}
				if eps != 0 || rep > 0 {
					f = randomFrame(rng)
				}
				if rep == 0 && eps == 1e-6 { // perturbed but axis aligned
					f = [3]r3.Vector{{X: 1}, {Y: 1}, {Z: 1}}
				}
				v := make([]s2.Point, len(b.p))
				for i, c := range b.p {
					v[i] = jiggle(rng, inFrame(f, c[0], c[1], c[2]), eps)
				}
				out = append(out, genLoop{b.name, v, false, false, ""})
			}
		}
	}
	return out
}

// chevron: a thin bent sliver a0 -> M -> a1 -> M' with arms of 115..172 degrees; the signed
// triangle sum of such loops is a cancellation of large triangle areas and rounds to a few
// 1e-15 of either sign — the band in which Area relies on turningAngleMaxError + IsNormalized.
func chevron(rng *vkit.Rng) []s2.Point {
	m := randPoint(rng)
	d1 := s2.Point{Vector: m.Cross(randPoint(rng).Vector).Normalize()}
	d2 := s2.Rotate(d1, m, s1.Angle(rng.Range(0.3, 2.9)))
	l1, l2 := rng.Range(2.0, 3.0), rng.Range(2.0, 3.0)
	a0 := s2.Point{Vector: m.Mul(math.Cos(l1)).Add(d1.Mul(math.Sin(l1))).Normalize()}
	a1 := s2.Point{Vector: m.Mul(math.Cos(l2)).Add(d2.Mul(math.Sin(l2))).Normalize()}
	bis := s2.Point{Vector: d1.Add(d2.Vector).Normalize()}
	delta := math.Ldexp(1, -rng.Intn(23)-28) // 4e-9 .. 9e-16; chains that self-intersect after rounding are rejected by simple()
	if rng.Intn(10) < 7 {
		// true area (~delta) at the scale of the rounding noise of the triangle sum: 9e-16 .. 3e-14
		delta = math.Ldexp(rng.Range(1, 2), -rng.Intn(5)-46)
	}
	if rng.Bool() {
		delta = -delta
	}
	m2 := s2.Point{Vector: m.Add(bis.Mul(delta)).Normalize()}
	v := []s2.Point{a0, m, a1, m2}
	if rng.Intn(3) == 0 { // five vertices: split one arm
		v = []s2.Point{a0, s2.Interpolate(0.5, a0, m), m, a1, m2}
	}
	if rng.Bool() {
		v = rev(v)
	}
	return rot(v, rng.Intn(len(v)))
}

// arrowhead: a thin arrow head lying along a great circle, (0,0) -> (-eps, L) -> (0, delta) -> (+eps, L)
// in (lat,lng) of a random frame: both arms (100..170 degrees) nearly coincide, so the fan consists of
// long skinny triangles of both signs (Girard branch of PointArea) that almost cancel.
func arrowhead(rng *vkit.Rng) []s2.Point {
	f := randomFrame(rng)
	if rng.Intn(4) == 0 {
		f = [3]r3.Vector{{X: 1}, {Y: 1}, {Z: 1}}
	}
	eps := math.Pow(10, -6-9*rng.Float())
	delta := math.Pow(10, -4-9*rng.Float())
	L := rng.Range(100, 170) * math.Pi / 180
	at := func(lat, lng float64) s2.Point {
		return inFrame(f, math.Cos(lat)*math.Cos(lng), math.Cos(lat)*math.Sin(lng), math.Sin(lat))
	}
	v := []s2.Point{at(0, 0), at(-eps, L), at(0, delta), at(eps, L)}
	if rng.Intn(4) == 0 {
		v = []s2.Point{at(0, 0), at(-eps/2, L/2), at(-eps, L), at(0, delta), at(eps, L)}
	}
	if rng.Intn(4) == 0 {
		v = rev(v)
	}
	return rot(v, rng.Intn(len(v)))
}

// chevronLoops keeps the candidates whose raw signed triangle sum falls in the ambiguity band of
// Area (|raw| or |4pi - |raw|| below 3e-14) plus a small sample of the rest.
func chevronLoops(rng *vkit.Rng, candidates int) (out []genLoop, inBand int) {
	for k := 0; k < candidates; k++ {
		v := chevron(rng)
		class := "thin chevron (arms 115..172 deg)"
		if k%2 == 1 {
			v, class = arrowhead(rng), "thin arrowhead (arms 100..170 deg)"
		}
		l := s2.LoopFromPoints(append([]s2.Point{}, v...))
		raw := s2.VerifC18SurfaceIntegralFloat64(l, s2.SignedArea)
		a := math.Abs(raw)
		band := (a > 0 && a < 3e-14) || math.Abs(a-4*math.Pi) < 3e-14
		if band && !simple(v) {
			continue
		}
		if band {
			inBand++
		}
		if band || k%50 == 0 {
			out = append(out, genLoop{class, v, true, false, ""})
		}
	}
	return out, inBand
}
