package main

import (
	"encoding/json"
	"fmt"
	"math"
	"os"
	"os/exec"
	"path/filepath"
	"strconv"
	"time"
)

// High-precision oracle, independent of the code under test: the Gauss-Bonnet theorem
// evaluated with mpmath at 60 digits on the exact values of the float64 vertices:
//   area = 2*pi - sum_i turn_i ,  turn_i = atan2( B.((AxB)x(BxC))/|B| , (AxB).(BxC) )
// reduced to [0, 4*pi).  One subprocess per run, time-boxed.
const oracleScript = `
import sys, json
import mpmath as mp
mp.mp.dps = 60
def cross(a,b): return [a[1]*b[2]-a[2]*b[1], a[2]*b[0]-a[0]*b[2], a[0]*b[1]-a[1]*b[0]]
def dot(a,b): return a[0]*b[0]+a[1]*b[1]+a[2]*b[2]
data = json.load(open(sys.argv[1]))
out = []
for L in data:
    P = [[mp.mpf(float.fromhex(x)) for x in p] for p in L["pts"]]
    n = len(P)
    tot = mp.mpf(0)
    ok = True
    for i in range(n):
        A, B, C = P[i-1], P[i], P[(i+1) % n]
        u, v = cross(A, B), cross(B, C)
        s = dot(B, cross(u, v)) / mp.sqrt(dot(B, B))
        c = dot(u, v)
        if s == 0 and c == 0:
            ok = False
            break
        tot += mp.atan2(s, c)
    if not ok:
        out.append({"id": L["id"], "area": None})
        continue
    area = 2*mp.pi - tot
    four = 4*mp.pi
    while area < 0: area += four
    while area >= four: area -= four
    out.append({"id": L["id"], "area": mp.nstr(area, 40)})
json.dump(out, open(sys.argv[2], "w"))
`

func outDir() string {
	args := os.Args[1:]
	for i := 0; i+1 < len(args); i += 2 {
		if args[i] == "-out" {
			return args[i+1]
		}
	}
	return "."
}

func (st *state) runOracle() {
	c := st.c
	if len(st.reqs) == 0 {
		return
	}
	dir := outDir()
	os.MkdirAll(dir, 0o755)
	in, out, py := filepath.Join(dir, "oracle_in.json"), filepath.Join(dir, "oracle_out.json"), filepath.Join(dir, "oracle.py")
	data, _ := json.Marshal(st.reqs)
	os.WriteFile(in, data, 0o644)
	os.WriteFile(py, []byte(oracleScript), 0o644)
	os.Remove(out)
	cmd := exec.Command("python3-vt", py, in, out)
	done := make(chan error, 1)
	t0 := time.Now()
	if err := cmd.Start(); err != nil {
		c.Extra["oracle"] = "unavailable: " + err.Error()
		return
	}
	go func() { done <- cmd.Wait() }()
	select {
	case err := <-done:
		if err != nil {
			c.Extra["oracle"] = "failed: " + err.Error()
			return
		}
	case <-time.After(120 * time.Second):
		cmd.Process.Kill()
		c.Extra["oracle"] = "timed out"
		return
	}
	var res []struct {
		ID   int     `json:"id"`
		Area *string `json:"area"`
	}
	raw, err := os.ReadFile(out)
	if err != nil || json.Unmarshal(raw, &res) != nil {
		c.Extra["oracle"] = "unreadable output"
		return
	}
	compared := 0
	for _, r := range res {
		if r.Area == nil || r.ID < 0 || r.ID >= len(st.reqs) {
			continue
		}
		q := st.reqs[r.ID]
		want, err := strconv.ParseFloat(*r.Area, 64)
		if err != nil {
			continue
		}
		compared++
		c.Evals++
		// compare modulo 4*pi: a degenerate loop may legitimately be assigned 0 or 4*pi by the
		// symbolic perturbation while the exact area of its vertex chain is the other one
		d := math.Abs(q.area - want)
		if d2 := math.Abs(d - 4*math.Pi); d2 < d {
			d = d2
		}
		tol := areaTol(q.n)
		if e := d / tol; e > st.maxOraErr {
			st.maxOraErr = e
		}
		if (q.class == "tiny-triangle 1e-14sr" || q.class == "regular r=1e-07") && want > 0 && q.area > 0 && q.area < 1 {
			if rel := math.Abs(q.area-want) / want; rel > st.maxRelTiny {
				st.maxRelTiny = rel
			}
		}
		if d > tol {
			c.Violate("Loop.Area.oracle", "Area differs from the 60-digit Gauss-Bonnet value beyond the documented error", replay(q.class, q.v, map[string]interface{}{"area": q.area, "oracle": *r.Area, "tol": tol}))
		}
	}
	c.Extra["oracle"] = fmt.Sprintf("mpmath 60 digits, %d loops compared in %.1fs", compared, time.Since(t0).Seconds())
}
