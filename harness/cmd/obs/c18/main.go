// Observer C18: area, curvature (turning angle) and centroid of loops and polygons.
//
// [T] bit-exact correspondence of the translated leaves (GirardArea, Angle, centroids) and of
// the hand-written model (TurnAngle, PointArea, CanonicalFirstVertex, TurningAngle,
// turningAngleMaxError, Area incl. which branch decided, Centroid, polygon sums).  The
// orientation predicate is a parameter of the model: every RobustSign value the Go run used
// is passed as a table.
//
// [S] on the real implementation: invariance claims need no oracle (TurningAngle bit-identical
// under every rotation of the vertex list, exactly negated by Invert); Area(L)+Area(inverse L)
// = 4*pi, Area independent of the start vertex, fan-triangulation additivity, agreement of
// "area near 0 / near 4*pi" with ContainsPoint on points far from the boundary, polygon
// area/centroid as signed sums, and areas against an mpmath Gauss-Bonnet oracle (60 digits).
package main

import (
	"fmt"
	"math"
	"strings"

	"github.com/golang/geo/r3"
	"github.com/golang/geo/s1"
	"github.com/golang/geo/s2"
	"verifharness/internal/vkit"
)

func main() { vkit.Main("C18", []string{"Gen.Area", "Model.LoopMeasures"}, run) }

// ---- Coq terms ----
func vec(v r3.Vector) string { return vkit.App("mk_r3_Vector", vkit.F(v.X), vkit.F(v.Y), vkit.F(v.Z)) }
func pt(p s2.Point) string   { return vkit.App("mk_s2_Point", vec(p.Vector)) }
func pts(ps []s2.Point) string {
	xs := make([]string, len(ps))
	for i, p := range ps {
		xs[i] = pt(p)
	}
	return vkit.List(xs)
}
func feq(term string, f float64) string { return vkit.App("fbiteq", term, vkit.F(f)) }

// table of observed RobustSign values
type sigTab struct {
	seen map[[9]uint64]bool
	ents []string
}

func newTab() *sigTab { return &sigTab{seen: map[[9]uint64]bool{}} }
func key9(a, b, c s2.Point) [9]uint64 {
	return [9]uint64{math.Float64bits(a.X), math.Float64bits(a.Y), math.Float64bits(a.Z), math.Float64bits(b.X), math.Float64bits(b.Y), math.Float64bits(b.Z),
		math.Float64bits(c.X), math.Float64bits(c.Y), math.Float64bits(c.Z)}
}
func (t *sigTab) add(a, b, c s2.Point) {
	k := key9(a, b, c)
	if t.seen[k] {
		return
	}
	t.seen[k] = true
	t.ents = append(t.ents, "("+pt(a)+", "+pt(b)+", "+pt(c)+", "+vkit.Z(int64(s2.RobustSign(a, b, c)))+")")
}
func (t *sigTab) addLoop(v []s2.Point) {
	n := len(v)
	for i := 0; i < n; i++ {
		a, b, c := v[(i+n-1)%n], v[i], v[(i+1)%n]
		t.add(a, b, c)
		t.add(c, b, a)
	}
}
func (t *sigTab) term() string { return vkit.App("rs_of_table", vkit.List(t.ents)) }

func loopTerm(v []s2.Point, originInside bool, depth int, lng float64) string {
	return vkit.App("mk_loop", pts(v), vkit.B(originInside), vkit.Z(int64(depth)), vkit.F(lng))
}

// ---- documented error budget ----
// PointArea/GirardArea: "The maximum error is about 5e-15" per triangle; the surface integral
// sums at most 2N triangles ("in theory it could be as high as 2*N"), Area itself uses
// turningAngleMaxError = 11.25*dblEpsilon*N ~ 2.5e-15*N as its ambiguity band. We allow
// 1e-14*N + 1e-14 per area value (2N triangles * 5e-15), with a 1e-6 relative margin.
const fanRelBound = 1e-6

func areaTol(n int) float64 { return (1e-14*float64(n) + 1e-14) * (1 + 1e-6) }

type genLoop struct {
	class string
	v     []s2.Point
	degen bool // true area is (nearly) 0 or 4*pi by construction: run the containment check
	conv  bool // convex and small enough for the fan triangulation check
	sfx   string // suffix of the violation kinds (".underflow" for vertices closer than ~1e-150: separate finding class)
}

func rot(v []s2.Point, k int) []s2.Point {
	n := len(v)
	out := make([]s2.Point, n)
	for i := range out {
		out[i] = v[(i+k)%n]
	}
	return out
}
func rev(v []s2.Point) []s2.Point {
	n := len(v)
	out := make([]s2.Point, n)
	for i := range out {
		out[i] = v[n-1-i]
	}
	return out
}
func bitsEq(a, b float64) bool { return math.Float64bits(a) == math.Float64bits(b) }

func randPoint(rng *vkit.Rng) s2.Point {
	for {
		x, y, z := rng.Range(-1, 1), rng.Range(-1, 1), rng.Range(-1, 1)
		if n2 := x*x + y*y + z*z; n2 > 0.01 && n2 <= 1 {
			return s2.PointFromCoords(x, y, z)
		}
	}
}

func ulpPoint(p s2.Point, kx, ky, kz int) s2.Point {
	return s2.Point{Vector: r3.Vector{X: vkit.Ulps(p.X, kx), Y: vkit.Ulps(p.Y, ky), Z: vkit.Ulps(p.Z, kz)}}
}

func generate(rng *vkit.Rng, budget int) []genLoop {
	var out []genLoop
	add := func(class string, v []s2.Point, degen, conv bool) {
		out = append(out, genLoop{class, v, degen, conv, ""})
	}
	radii := []float64{1e-7, 3e-6, 1e-4, 1e-3, 0.01, 0.1, 0.5, 1.0, 1.5, math.Pi/2 - 1e-9, math.Pi / 2}
	for rep := 0; rep < budget; rep++ {
		// regular loops of every size class
		for _, r := range radii {
			n := 3 + rng.Intn(9)
			add(fmt.Sprintf("regular r=%.0e", r), s2.RegularLoop(randPoint(rng), s1.Angle(r), n).Vertices(), false, r < 1.5)
		}
		// 1e-14 sr triangles
		for k := 0; k < 4; k++ {
			add("tiny-triangle 1e-14sr", s2.RegularLoop(randPoint(rng), s1.Angle(1e-7*rng.Range(0.5, 2)), 3).Vertices(), true, true)
		}
		// zero-area slivers: three nearly collinear points, the middle one k ulps off the arc
		for k := 0; k < 10; k++ {
			a := randPoint(rng)
			d := []float64{1e-6, 1e-3, 0.3, 1.5, 2.5}[rng.Intn(5)]
			b := s2.InterpolateAtDistance(s1.Angle(d), a, randPoint(rng))
			m := s2.Interpolate(rng.Range(0.2, 0.8), a, b)
			m = ulpPoint(m, rng.Intn(7)-3, rng.Intn(7)-3, rng.Intn(7)-3)
			v := []s2.Point{a, m, b}
			if rng.Bool() {
				v = []s2.Point{a, b, m}
			}
			add("sliver-ulps", v, true, false)
		}
		// zero-area slivers (A, point of the arc AB, B) with semiperimeter below 3e-4 (l'Huilier branch of
		// PointArea, where the product of the four tangents may round to a tiny negative number), and small
		// quadrilaterals with a redundant midpoint vertex; every start vertex via the rotations below
		for k := 0; k < 8; k++ {
			a := randPoint(rng)
			d := []float64{1e-7, 1e-6, 1e-5, 1e-4, 2.5e-4}[rng.Intn(5)]
			b := s2.InterpolateAtDistance(s1.Angle(d), a, randPoint(rng))
			t := 0.5
			if rng.Bool() {
				t = rng.Range(0.05, 0.95)
			}
			m := s2.Interpolate(t, a, b)
			if rng.Intn(3) == 0 {
				m = ulpPoint(m, rng.Intn(3)-1, rng.Intn(3)-1, rng.Intn(3)-1)
			}
			v := []s2.Point{a, m, b}
			if rng.Bool() {
				v = rev(v)
			}
			add("sliver A,mid,B small", v, true, false)
		}
		for k := 0; k < 4; k++ {
			q := s2.RegularLoop(randPoint(rng), s1.Angle([]float64{1e-6, 1e-5, 1e-4, 2e-4}[k]), 4).Vertices()
			e := rng.Intn(4)
			var v []s2.Point
			for i := 0; i < 4; i++ {
				v = append(v, q[i])
				if i == e {
					v = append(v, s2.Interpolate(0.5, q[i], q[(i+1)%4]))
				}
			}
			add("small quad + redundant midpoint", v, false, true)
		}
		// exactly collinear vertices on a coordinate great circle (determinant exactly zero)
		for k := 0; k < 4; k++ {
			t0, t1, t2 := rng.Range(0, 0.5), rng.Range(0.6, 1.2), rng.Range(1.3, 2)
			mk := func(t float64) s2.Point {
				switch k % 3 {
				case 0:
					return s2.Point{Vector: r3.Vector{X: math.Cos(t), Y: math.Sin(t), Z: 0}}
				case 1:
					return s2.Point{Vector: r3.Vector{X: 0, Y: math.Cos(t), Z: math.Sin(t)}}
				}
				return s2.Point{Vector: r3.Vector{X: math.Sin(t), Y: 0, Z: math.Cos(t)}}
			}
			v := []s2.Point{mk(t0), mk(t1), mk(t2)}
			if rng.Bool() {
				v = rev(v)
			}
			add("sliver-exact-collinear", v, true, false)
		}
		// loops with an edge close to 180 degrees
		for k := 0; k < 4; k++ {
			a := randPoint(rng)
			far := []float64{math.Pi - 1e-4, math.Pi - 1.7e-4, math.Pi - 1e-5, math.Pi - 3e-6, 3.0}[rng.Intn(5)]
			b := s2.InterpolateAtDistance(s1.Angle(far), a, randPoint(rng))
			c := s2.Point{Vector: a.Cross(b.Vector).Normalize()}
			if rng.Bool() {
				add("edge~180 triangle", []s2.Point{a, b, c}, false, false)
			} else {
				d := s2.Interpolate(0.5, a, c)
				add("edge~180 quad", []s2.Point{a, b, c, d}, false, false)
			}
		}
		// through the poles / on coordinate planes / origin switching in the surface integral
		np, sp := s2.Point{Vector: r3.Vector{X: 0, Y: 0, Z: 1}}, s2.Point{Vector: r3.Vector{X: 0, Y: 0, Z: -1}}
		px, py := s2.Point{Vector: r3.Vector{X: 1, Y: 0, Z: 0}}, s2.Point{Vector: r3.Vector{X: 0, Y: 1, Z: 0}}
		mx, my := s2.Point{Vector: r3.Vector{X: -1, Y: 0, Z: 0}}, s2.Point{Vector: r3.Vector{X: 0, Y: -1, Z: 0}}
		add("octant through north pole", []s2.Point{np, px, py}, false, true)
		add("equator 4 points (great circle)", []s2.Point{px, py, mx, my}, false, false)
		add("meridian through both poles", []s2.Point{np, px, sp, mx}, false, false)
		add("pole-to-pole lune", []s2.Point{np, px, sp, s2.PointFromCoords(1, rng.Range(0.1, 2), 0)}, false, false)
		add("northern hemisphere 5", s2.RegularLoop(np, s1.Angle(math.Pi/2), 5).Vertices(), false, false)
		add("near-hemisphere around pole", s2.RegularLoop(np, s1.Angle(math.Pi/2-1e-15*rng.Range(0, 3)), 4+rng.Intn(4)).Vertices(), false, false)
		add("antipodal-ish quad", []s2.Point{px, s2.PointFromCoords(0, 1, 1e-3), s2.PointFromCoords(-1, 1e-6, 1e-6), s2.PointFromCoords(0, -1, -1e-3)}, false, false)
		// star shapes
		for k := 0; k < 3; k++ {
			m := 3 + rng.Intn(6)
			ctr := randPoint(rng)
			r := []float64{1e-5, 0.05, 0.8}[k]
			outer := s2.RegularLoop(ctr, s1.Angle(r), 2*m).Vertices()
			inner := s2.RegularLoop(ctr, s1.Angle(r*rng.Range(0.2, 0.7)), 2*m).Vertices()
			v := make([]s2.Point, 2*m)
			for i := range v {
				if i%2 == 0 {
					v[i] = outer[i]
				} else {
					v[i] = inner[i]
				}
			}
			add("star", v, false, false)
		}
		// random spherical polygons: vertices sorted by angle around a centre with random radii (simple by construction)
		for k := 0; k < 4; k++ {
			m := 4 + rng.Intn(8)
			ctr := randPoint(rng)
			base := s2.RegularLoop(ctr, 1, m).Vertices()
			scale := []float64{1e-6, 1e-2, 0.5, 1.2}[k]
			v := make([]s2.Point, m)
			for i := range v {
				v[i] = s2.InterpolateAtDistance(s1.Angle(scale*rng.Range(0.3, 1)), ctr, base[i])
			}
			add("radial-random", v, false, false)
		}
		// underflow scale: valid loops (Validate()==nil) whose vertices are 1e-300..1e-160 apart, so that
		// PointCross products are tiny and the products inside Angle underflow
		for k := 0; k < 3; k++ {
			d := []float64{1e-200, 1e-300, 1e-170, 3e-162}[rng.Intn(4)]
			e := []float64{1e-200, 1e-300, 1e-170, 3e-162}[rng.Intn(4)]
			var v []s2.Point
			switch k {
			case 0:
				v = []s2.Point{{Vector: r3.Vector{X: 1}}, {Vector: r3.Vector{X: 1, Y: d}}, {Vector: r3.Vector{X: 1, Z: e}}}
			case 1:
				v = []s2.Point{{Vector: r3.Vector{Z: 1}}, {Vector: r3.Vector{X: d, Z: 1}}, {Vector: r3.Vector{X: d, Y: e, Z: 1}}, {Vector: r3.Vector{Y: e, Z: 1}}}
			default:
				v = []s2.Point{{Vector: r3.Vector{Y: -1}}, {Vector: r3.Vector{X: d, Y: -1, Z: -e}}, {Vector: r3.Vector{X: -e, Y: -1, Z: d}}}
			}
			if rng.Bool() {
				v = rev(v)
			}
			out = append(out, genLoop{"underflow-scale loop (model correspondence only)", v, true, false, ".underflow"})
		}
		// larger loops
		add("regular n=100", s2.RegularLoop(randPoint(rng), s1.Angle(rng.Range(0.01, 1.2)), 100).Vertices(), false, true)
		if rep == 0 {
			add("regular n=400", s2.RegularLoop(randPoint(rng), s1.Angle(rng.Range(1e-4, 1.0)), 400).Vertices(), false, true)
			add("regular n=400 tiny", s2.RegularLoop(randPoint(rng), s1.Angle(1e-6), 400).Vertices(), false, true)
			// up to 10^4 vertices ([S] only)
			add("regular n=2000", s2.RegularLoop(randPoint(rng), s1.Angle(rng.Range(1e-3, 1.4)), 2000).Vertices(), false, true)
			add("regular n=10000", s2.RegularLoop(randPoint(rng), s1.Angle(rng.Range(1e-2, 1.0)), 10000).Vertices(), false, true)
		}
	}
	// appended last (the random stream of everything above is unchanged).
	// many vertices AND tiny: the area (3e-14 .. 3e-13 sr) is below turningAngleMaxError(n), so the final
	// orientation re-check of Loop.Area is the branch that decides; the triangle sum must survive it
	add("regular n=1000 tiny r=1e-7", s2.RegularLoop(randPoint(rng), s1.Angle(1e-7), 1000).Vertices(), false, true)
	add("regular n=1000 tiny r=3e-7", s2.RegularLoop(randPoint(rng), s1.Angle(3e-7), 1000).Vertices(), false, true)
	return out
}

type oracleReq struct {
	ID    int        `json:"id"`
	Pts   [][]string `json:"pts"`
	class string
	area  float64
	n     int
	v     []s2.Point
}

type state struct {
	c         *vkit.Collector
	rng       *vkit.Rng
	reqs      []*oracleReq
	maxSumErr float64 // max |A + A' - 4pi| / tol observed
	maxRotErr float64
	maxFanErr float64
	maxFanRel float64
	maxOraErr float64
	maxRelTiny float64
	maxGBErr  float64
	maxCenErr float64
	rejected  int
	fan       fanCov // branch coverage of the triangle fan over all loops, rotations and inverses evaluated
	fanLoopsWith map[string]int
	fanReplicaMismatch int
	areaDecisions map[string]int
}

// simple reports that no two vertices coincide and no two non-adjacent edges cross (exact predicates).
// Loop.Validate in the Go port does not check this (its findAnyCrossing call is still a TODO), and a
// self-intersecting vertex chain is not a loop in the sense of the property. Brute force, n <= 64.
func simple(v []s2.Point) bool {
	n := len(v)
	if n > 64 {
		return true // generators of large loops are simple by construction
	}
	for i := 0; i < n; i++ {
		for j := i + 1; j < n; j++ {
			if v[i] == v[j] {
				return false
			}
			if j == i+1 || (i == 0 && j == n-1) {
				continue
			}
			if s2.CrossingSign(v[i], v[(i+1)%n], v[j], v[(j+1)%n]) == s2.Cross {
				return false
			}
		}
	}
	return true
}

// centroidOf returns Loop.Centroid() together with a tolerance for comparing it with the centroid of
// another vertex order. TrueCentroid has no documented error bound; it divides each side length s by
// sin(s), whose absolute error grows like eps/(pi-s)^2 for sides close to 180 degrees, so the
// tolerance is areaTol(n) + 4e-15/(pi - longest triangle side used by the fan)^2 (derived, not documented).
func centroidOf(l *s2.Loop) (s2.Point, float64) {
	maxSide := 0.0
	s2.VerifC18SurfaceIntegralPoint(l, func(a, b, c s2.Point) s2.Point {
		for _, d := range []float64{float64(a.Distance(b)), float64(b.Distance(c)), float64(c.Distance(a))} {
			if d > maxSide {
				maxSide = d
			}
		}
		return s2.Point{}
	})
	gap := math.Pi - maxSide
	if gap < 1e-9 {
		gap = 1e-9
	}
	return l.Centroid(), areaTol(l.NumVertices()) + 4e-15/(gap*gap)
}

// noteFan accumulates the branch coverage of the surface-integral fan for one vertex order.
func (st *state) noteFan(l *s2.Loop) {
	v := l.Vertices()
	if len(v) < 3 {
		return
	}
	if _, br := areaBranch(s2.VerifC18SurfaceIntegralFloat64(l, s2.SignedArea), s2.VerifC18TurningAngleMaxError(l), l.IsNormalized); true {
		st.areaDecisions[[]string{"keep the triangle sum", "sum < maxError and not normalized -> 4*pi", "sum > 4*pi-maxError and normalized -> 0"}[br]]++
	}
	fc := fanBranches(v)
	calls := 0
	s2.VerifC18SurfaceIntegralFloat64(l, func(a, b, c s2.Point) float64 { calls++; return 0 })
	if calls != fc.calls {
		st.fanReplicaMismatch++
	}
	st.fan.keep += fc.keep
	st.fan.move += fc.move
	st.fan.revert += fc.revert
	st.fan.third += fc.third
	st.fan.closing += fc.closing
	if fc.move > 0 {
		st.fanLoopsWith["move to V0xVi"]++
	}
	if fc.revert > 0 {
		st.fanLoopsWith["revert to V0"]++
	}
	if fc.third > 0 {
		st.fanLoopsWith["third case (V0 x O)"]++
	}
	if fc.closing > 0 {
		st.fanLoopsWith["closing triangle"]++
	}
	if fc.move+fc.revert+fc.third == 0 {
		st.fanLoopsWith["keep origin only"]++
	}
}

func replay(class string, v []s2.Point, extra map[string]interface{}) map[string]interface{} {
	ps := make([][]string, len(v))
	for i, p := range v {
		ps[i] = []string{fmt.Sprintf("%x", p.X), fmt.Sprintf("%x", p.Y), fmt.Sprintf("%x", p.Z)}
	}
	m := map[string]interface{}{"class": class, "vertices_hexfloat": ps, "go": "s2.LoopFromPoints(pts)"}
	for k, x := range extra {
		m[k] = x
	}
	return m
}

// farPoints returns points at least minDist (radians) away from every edge of the loop.
func farPoints(rng *vkit.Rng, v []s2.Point, count int, minDist float64) []s2.Point {
	var out []s2.Point
	for tries := 0; len(out) < count && tries < 40*count; tries++ {
		p := randPoint(rng)
		ok := true
		for i := range v {
			if float64(s2.DistanceFromSegment(p, v[i], v[(i+1)%len(v)])) < minDist {
				ok = false
				break
			}
		}
		if ok {
			out = append(out, p)
		}
	}
	return out
}

// area decision replica (only to label which branch decided; the value compared is l.Area()).
func areaBranch(raw, maxErr float64, norm func() bool) (float64, int) {
	area := raw
	if area < 0 {
		area += 4 * math.Pi
	}
	if area > 4*math.Pi {
		area = 4 * math.Pi
	}
	if area < 0 {
		area = 0
	}
	if area < maxErr && !norm() {
		return 4 * math.Pi, 1
	} else if area > (4*math.Pi-maxErr) && norm() {
		return 0, 2
	}
	return area, 0
}

// corrInvert: the model's Invert applied to the loop as observed before the call must give the
// vertices and originInside observed after the call.
func (st *state) corrInvert(label string, before, after *s2.Loop) {
	L := loopTerm(before.Vertices(), before.ContainsOrigin(), 0, before.RectBound().Lng.Length())
	st.c.Check("Invert "+label, fmt.Sprintf("(let r := Invert %s %s in list_eqb s2_Point_eqbits (lp_vs r) %s && Bool.eqb (lp_origin_inside r) %s)",
		vkit.F(after.RectBound().Lng.Length()), L, pts(after.Vertices()), vkit.B(after.ContainsOrigin())))
}

// corrLoop emits the [T] cases of one loop object.
func (st *state) corrLoop(label string, l *s2.Loop) {
	c := st.c
	v := append([]s2.Point{}, l.Vertices()...)
	n := len(v)
	tab := newTab()
	tab.addLoop(v)
	f := func(a, b, c s2.Point) float64 { tab.add(a, b, c); return s2.SignedArea(a, b, c) }
	raw := s2.VerifC18SurfaceIntegralFloat64(l, f)
	maxErr := s2.VerifC18TurningAngleMaxError(l)
	lng := l.RectBound().Lng.Length()
	L := loopTerm(v, l.ContainsOrigin(), 0, lng)
	RS := tab.term()
	i0, dir := l.CanonicalFirstVertex()
	c.Check("CanonicalFirstVertex "+label, fmt.Sprintf("(let r := CanonicalFirstVertex %s in Z.eqb (fst r) %s && Z.eqb (snd r) %s)", pts(v), vkit.Z(int64(i0)), vkit.Z(int64(dir))))
	c.Check("TurningAngle "+label, feq(vkit.App("TurningAngle", RS, L), l.TurningAngle()))
	c.Check("turningAngleMaxError "+label, feq(vkit.App("turningAngleMaxError", L), maxErr))
	c.Check("IsNormalized "+label, vkit.App("Bool.eqb", vkit.App("IsNormalized", RS, L), vkit.B(l.IsNormalized())))
	area := l.Area()
	var br int
	if n == 1 {
		br = 3
	} else {
		var want float64
		want, br = areaBranch(raw, maxErr, l.IsNormalized)
		if !bitsEq(want, area) {
			br = -1 // the replica does not explain Area(): the case below will fail and show it
		}
	}
	c.Class(fmt.Sprintf("area-branch %d", br))
	c.Check("surfaceIntegralFloat64(SignedArea) "+label, feq(vkit.App("surfaceIntegralFloat64", vkit.App("SignedArea", RS), L), raw))
	c.Check("Area+branch "+label, fmt.Sprintf("(let r := Area_branch %s %s in fbiteq (fst r) %s && Z.eqb (snd r) %s)", RS, L, vkit.F(area), vkit.Z(int64(br))))
	c.Check("Centroid "+label, vkit.App("s2_Point_eqbits", vkit.App("Centroid", L), pt(l.Centroid())))
}

func (st *state) processLoop(g genLoop, full bool) {
	c, rng := st.c, st.rng
	v := g.v
	n := len(v)
	l := s2.LoopFromPoints(append([]s2.Point{}, v...))
	if err := l.Validate(); err != nil || !simple(v) {
		st.rejected++
		c.Class("rejected(invalid): " + g.class)
		return
	}
	c.Class(g.class)
	key := fmt.Sprintf("%s %x %x %d", g.class, math.Float64bits(v[0].X), math.Float64bits(v[1].Y), n)
	if g.sfx == ".underflow" {
		// outside the property's domain (area ~1e-400 sr, vertex separations < 1e-160): the model must still
		// reproduce the implementation bit for bit, but no property sentence is evaluated on these
		c.Eval(key, false)
		st.corrLoop(key, l)
		li := s2.LoopFromPoints(append([]s2.Point{}, v...))
		li.Invert()
		st.corrLoop(key+" inverted", li)
		return
	}
	ta, area := l.TurningAngle(), l.Area()
	c.Eval(key, true)
	c.Sample(map[string]interface{}{"class": g.class, "n": n, "turning_angle": ta, "area": area})
	tol := areaTol(n)
	i0, dir := l.CanonicalFirstVertex()
	if area < 0 || area > 4*math.Pi || math.IsNaN(area) {
		c.Violate("Loop.Area.range"+g.sfx, "Area outside [0,4pi]", replay(g.class, v, map[string]interface{}{"area": area}))
	}

	st.noteFan(l)
	cen, cenTol0 := centroidOf(l)
	// ---- Gauss-Bonnet self-consistency: Area = 2*pi - TurningAngle (mod 4*pi) within both error bounds
	{
		d := math.Abs(area - (2*math.Pi - ta))
		if d2 := math.Abs(d - 4*math.Pi); d2 < d {
			d = d2
		}
		gbTol := tol + s2.VerifC18TurningAngleMaxError(l)*(1+1e-6) + 8*2.220446049250313e-16
		if e := d / gbTol; e > st.maxGBErr {
			st.maxGBErr = e
		}
		if d > gbTol {
			c.Violate("Loop.Area.gaussbonnet"+g.sfx, "Area differs from 2*pi - TurningAngle beyond the documented errors of both", replay(g.class, v, map[string]interface{}{"area": area, "turning_angle": ta, "tol": gbTol}))
		}
	}
	// ---- rotations: TurningAngle bit-identical, same canonical start, Area within tolerance
	var ks []int
	if n <= 12 {
		for k := 1; k < n; k++ {
			ks = append(ks, k)
		}
	} else {
		ks = []int{1, n - 1, n / 2, 1 + rng.Intn(n-1), 1 + rng.Intn(n-1)}
	}
	for _, k := range ks {
		rv := rot(v, k)
		lr := s2.LoopFromPoints(rv)
		c.Evals++
		if tr := lr.TurningAngle(); !bitsEq(tr, ta) {
			c.Violate("Loop.TurningAngle.rotate"+g.sfx, "TurningAngle changes when the vertex list is rotated", replay(g.class, v, map[string]interface{}{"k": k, "turning_angle": fmt.Sprintf("%x", ta), "rotated": fmt.Sprintf("%x", tr)}))
		}
		ir, dr := lr.CanonicalFirstVertex()
		if dr != dir || (ir+k)%n != i0%n {
			c.Violate("Loop.CanonicalFirstVertex.rotate"+g.sfx, "canonical first vertex is not the same geometric vertex/direction after rotation", replay(g.class, v, map[string]interface{}{"k": k, "first": i0, "dir": dir, "rot_first": ir, "rot_dir": dr}))
		}
		st.noteFan(lr)
		cr, cenTol1 := centroidOf(lr)
		cenTol := (cenTol0 + cenTol1) / 2
		if math.Abs(cr.X-cen.X) > 2*cenTol || math.Abs(cr.Y-cen.Y) > 2*cenTol || math.Abs(cr.Z-cen.Z) > 2*cenTol {
			c.Violate("Loop.Centroid.rotate"+g.sfx, "Centroid depends on the starting vertex beyond the documented error", replay(g.class, v, map[string]interface{}{"k": k, "centroid": []float64{cen.X, cen.Y, cen.Z}, "rotated": []float64{cr.X, cr.Y, cr.Z}, "tol": 2 * cenTol}))
		} else if e := math.Max(math.Abs(cr.X-cen.X), math.Max(math.Abs(cr.Y-cen.Y), math.Abs(cr.Z-cen.Z))) / (2 * cenTol); e > st.maxCenErr {
			st.maxCenErr = e
		}
		ar := lr.Area()
		if e := math.Abs(ar-area) / (2 * tol); e > st.maxRotErr {
			st.maxRotErr = e
		}
		if math.Abs(ar-area) > 2*tol {
			c.Violate("Loop.Area.rotate"+g.sfx, "Area depends on the starting vertex beyond the documented error", replay(g.class, v, map[string]interface{}{"k": k, "area": area, "rotated_area": ar, "tol": 2 * tol}))
		}
	}

	// ---- inversion: exact negation of the turning angle; areas sum to 4*pi
	li := s2.LoopFromPoints(append([]s2.Point{}, v...))
	li.Invert()
	tai, areaI := li.TurningAngle(), li.Area()
	st.noteFan(li)
	// the integral of position over the whole sphere is 0: the (area-weighted) centroid of the complement is the negation
	ci, cenTol1 := centroidOf(li)
	cenTol := (cenTol0 + cenTol1) / 2
	if math.Abs(ci.X+cen.X) > 2*cenTol || math.Abs(ci.Y+cen.Y) > 2*cenTol || math.Abs(ci.Z+cen.Z) > 2*cenTol {
		c.Violate("Loop.Centroid.invert"+g.sfx, "Centroid of the inverted loop is not the negation within the documented error", replay(g.class, v, map[string]interface{}{"centroid": []float64{cen.X, cen.Y, cen.Z}, "inverted": []float64{ci.X, ci.Y, ci.Z}, "tol": 2 * cenTol}))
	}
	if !bitsEq(tai, -ta) {
		c.Violate("Loop.TurningAngle.invert"+g.sfx, "TurningAngle of the inverted loop is not the exact negation", replay(g.class, v, map[string]interface{}{"turning_angle": fmt.Sprintf("%x", ta), "inverted": fmt.Sprintf("%x", tai)}))
	}
	lrev := s2.LoopFromPoints(rev(v))
	if tr := lrev.TurningAngle(); !bitsEq(tr, -ta) {
		c.Violate("Loop.TurningAngle.invert"+g.sfx, "TurningAngle of the reversed vertex list is not the exact negation", replay(g.class, v, map[string]interface{}{"turning_angle": fmt.Sprintf("%x", ta), "reversed": fmt.Sprintf("%x", tr)}))
	}
	ii, di := li.CanonicalFirstVertex()
	if di != -dir || (n-1-ii%n)%n != i0%n {
		c.Violate("Loop.CanonicalFirstVertex.invert"+g.sfx, "canonical first vertex of the inverted loop is not the same geometric vertex with opposite direction", replay(g.class, v, map[string]interface{}{"first": i0, "dir": dir, "inv_first": ii, "inv_dir": di}))
	}
	if li.ContainsOrigin() == l.ContainsOrigin() {
		c.Violate("Loop.Invert.originInside"+g.sfx, "Invert did not flip ContainsOrigin", replay(g.class, v, nil))
	}
	if e := math.Abs(area+areaI-4*math.Pi) / (2 * tol); e > st.maxSumErr {
		st.maxSumErr = e
	}
	if math.Abs(area+areaI-4*math.Pi) > 2*tol {
		c.Violate("Loop.Area.complement"+g.sfx, "Area(L)+Area(inverse L) differs from 4*pi beyond the documented error", replay(g.class, v, map[string]interface{}{"area": area, "inverse_area": areaI, "tol": 2 * tol}))
	}
	if !l.IsNormalized() && !li.IsNormalized() {
		c.Violate("Loop.IsNormalized.pair"+g.sfx, "neither the loop nor its inverse is normalized", replay(g.class, v, nil))
	}

	// ---- containment consistency (degenerate and tiny loops): far points are inside iff the area is near 4*pi
	if g.degen {
		for _, pair := range []struct {
			l *s2.Loop
			a float64
			w string
		}{{l, area, "loop"}, {li, areaI, "inverse"}} {
			big := pair.a > 2*math.Pi
			if pair.a > 1e-6 && pair.a < 4*math.Pi-1e-6 {
				c.Violate("Loop.Area.degenerate"+g.sfx, "a (nearly) degenerate loop has an area far from both 0 and 4*pi", replay(g.class, v, map[string]interface{}{"which": pair.w, "area": pair.a}))
			}
			for _, p := range farPoints(rng, v, 12, 0.05) {
				c.Evals++
				if pair.l.ContainsPoint(p) != big {
					c.Violate("Loop.Area.containment"+g.sfx, "area near 0/4*pi disagrees with ContainsPoint of a point far from the boundary", replay(g.class, v, map[string]interface{}{"which": pair.w, "area": pair.a, "point": []float64{p.X, p.Y, p.Z}, "contains": pair.l.ContainsPoint(p)}))
					break
				}
			}
		}
	}

	// ---- fan triangulation of a convex loop
	if g.conv && n >= 3 && area < 2*math.Pi {
		sum, comp := 0.0, 0.0
		for i := 1; i+1 < n; i++ {
			y := s2.PointArea(v[0], v[i], v[i+1]) - comp
			t := sum + y
			comp = (t - sum) - y
			sum = t
		}
		if e := math.Abs(sum-area) / tol; e > st.maxFanErr {
			st.maxFanErr = e
		}
		// small non-degenerate convex loops: "good relative accuracy even for small loops" (doc comment of Loop.Area);
		// the bound 1e-6 is nine orders of magnitude above the largest relative difference measured on the unchanged code (1.4e-15)
		if !g.degen && sum > 1e-18 && sum < 1e-9 {
			if e := math.Abs(sum-area) / sum; e > st.maxFanRel {
				st.maxFanRel = e
			}
			if math.Abs(sum-area) > fanRelBound*sum {
				c.Violate("Loop.Area.triangulation.relative"+g.sfx, "Area of a small non-degenerate convex loop differs from the sum of the fan triangle areas by more than 1e-6 of it", replay(g.class, v, map[string]interface{}{"area": area, "fan_sum": sum, "relative_bound": fanRelBound}))
			}
		}
		if math.Abs(sum-area) > tol {
			c.Violate("Loop.Area.triangulation"+g.sfx, "Area differs from the sum of the fan triangle areas beyond the documented error", replay(g.class, v, map[string]interface{}{"area": area, "fan_sum": sum, "tol": tol}))
		}
	}

	// ---- oracle request (Gauss-Bonnet in 60 digits)
	if n <= 120 {
		r := &oracleReq{ID: len(st.reqs), class: g.class, area: area, n: n, v: v}
		for _, p := range v {
			r.Pts = append(r.Pts, []string{fmt.Sprintf("%x", p.X), fmt.Sprintf("%x", p.Y), fmt.Sprintf("%x", p.Z)})
		}
		st.reqs = append(st.reqs, r)
	}

	// ---- [T]
	if full {
		st.corrLoop(key, l)
		st.corrLoop(key+" inverted", li)
		st.corrInvert(key, l, li)
		if strings.HasPrefix(g.class, "fan ") {
			// [T] at every start vertex: the origin-switching cases fire only for some rotations
			for k := 1; k < n; k++ {
				st.corrLoop(fmt.Sprintf("%s rot%d", key, k), s2.LoopFromPoints(rot(v, k)))
			}
		} else if n <= 12 {
			st.corrLoop(key+" rot1", s2.LoopFromPoints(rot(v, 1+rng.Intn(n-1))))
		}
	}
}

func (st *state) triangles(budget int) {
	c, rng := st.c, st.rng
	for k := 0; k < 80*budget; k++ {
		var a, b, cc s2.Point
		switch k % 8 {
		case 0:
			a, b, cc = randPoint(rng), randPoint(rng), randPoint(rng)
		case 1: // small
			a = randPoint(rng)
			d := math.Ldexp(1, -rng.Intn(40)-3)
			b = s2.InterpolateAtDistance(s1.Angle(d), a, randPoint(rng))
			cc = s2.InterpolateAtDistance(s1.Angle(d*rng.Range(0.3, 1)), a, randPoint(rng))
		case 2: // long and skinny (Girard branch)
			a = randPoint(rng)
			b = s2.InterpolateAtDistance(s1.Angle(rng.Range(0.5, 3)), a, randPoint(rng))
			m := s2.Interpolate(rng.Range(0.1, 0.9), a, b)
			cc = s2.InterpolateAtDistance(s1.Angle(math.Ldexp(1, -rng.Intn(30)-5)), m, randPoint(rng))
		case 3: // two equal / all equal / antipodal
			a = randPoint(rng)
			b = a
			cc = randPoint(rng)
			if rng.Bool() {
				cc = s2.Point{Vector: a.Mul(-1)}
			}
		case 4: // nearly collinear, ulps apart
			a = randPoint(rng)
			b = s2.InterpolateAtDistance(s1.Angle(rng.Range(1e-3, 2)), a, randPoint(rng))
			cc = ulpPoint(s2.Interpolate(0.5, a, b), rng.Intn(5)-2, rng.Intn(5)-2, rng.Intn(5)-2)
		case 5: // axis points, shared coordinates (zeros in the differences)
			ax := []s2.Point{{Vector: r3.Vector{X: 1}}, {Vector: r3.Vector{Y: 1}}, {Vector: r3.Vector{Z: 1}}, {Vector: r3.Vector{X: -1}}, s2.PointFromCoords(1, 1, 0), s2.PointFromCoords(0, 1, 1), s2.PointFromCoords(1, 0, -1)}
			a, b, cc = ax[rng.Intn(len(ax))], ax[rng.Intn(len(ax))], ax[rng.Intn(len(ax))]
		case 7: // around the s >= 3e-4 switch between l'Huilier and Girard, as collinear as rounding allows
			a = randPoint(rng)
			d := []float64{2.9e-4, 3.1e-4, 6e-4, 1e-3, 2e-3, 2.9e-3, 3.1e-3, 1e-2}[rng.Intn(8)]
			b = s2.InterpolateAtDistance(s1.Angle(d), a, randPoint(rng))
			cc = ulpPoint(s2.Interpolate(rng.Range(0.3, 0.7), a, b), rng.Intn(3)-1, rng.Intn(3)-1, rng.Intn(3)-1)
		case 6: // underflow scale: points 5e-324..1e-160 apart
			tiny := []float64{0, 1e-300, -1e-300, 1e-200, -1e-200, 1e-162, 3e-162, -1e-162, 5e-324, -5e-324}
			a = s2.Point{Vector: r3.Vector{X: 1}}
			b = s2.Point{Vector: r3.Vector{X: 1, Y: tiny[rng.Intn(len(tiny))], Z: tiny[rng.Intn(len(tiny))]}}
			cc = s2.Point{Vector: r3.Vector{X: 1, Y: tiny[rng.Intn(len(tiny))], Z: tiny[rng.Intn(len(tiny))]}}
		}
		c.Class(fmt.Sprintf("triangle kind %d", k%8))
		key := fmt.Sprintf("tri %x %x %x", math.Float64bits(a.X), math.Float64bits(b.Y), math.Float64bits(cc.Z))
		c.Eval(key, true)
		A, B, C := pt(a), pt(b), pt(cc)
		tab := newTab()
		tab.add(a, b, cc)
		tab.add(cc, b, a)
		RS := tab.term()
		c.Check("PointArea "+key, feq(vkit.App("PointArea", A, B, C), s2.PointArea(a, b, cc)))
		c.Check("GirardArea "+key, feq(vkit.App("s2_GirardArea", A, B, C), s2.GirardArea(a, b, cc)))
		c.Check("Angle "+key, feq(vkit.App("s2_Angle", A, B, C), float64(s2.Angle(a, b, cc))))
		c.Check("TurnAngle "+key, feq(vkit.App("TurnAngle", RS, A, B, C), float64(s2.TurnAngle(a, b, cc))))
		c.Check("TurnAngle rev "+key, feq(vkit.App("TurnAngle", RS, C, B, A), float64(s2.TurnAngle(cc, b, a))))
		c.Check("SignedArea "+key, feq(vkit.App("SignedArea", RS, A, B, C), s2.SignedArea(a, b, cc)))
		c.Check("TrueCentroid "+key, vkit.App("s2_Point_eqbits", vkit.App("s2_TrueCentroid", A, B, C), pt(s2.TrueCentroid(a, b, cc))))
		c.Check("PlanarCentroid "+key, vkit.App("s2_Point_eqbits", vkit.App("s2_PlanarCentroid", A, B, C), pt(s2.PlanarCentroid(a, b, cc))))
		c.Check("EdgeTrueCentroid "+key, vkit.App("s2_Point_eqbits", vkit.App("s2_EdgeTrueCentroid", A, B), pt(s2.EdgeTrueCentroid(a, b))))
		// [S] symmetry claims of the doc comments, on the implementation
		if x, y := s2.Angle(a, b, cc), s2.Angle(cc, b, a); !bitsEq(float64(x), float64(y)) && !(math.IsNaN(float64(x)) && math.IsNaN(float64(y))) {
			c.Violate("Angle.symmetry", "Angle(a,b,c) != Angle(c,b,a)", map[string]interface{}{"a": []float64{a.X, a.Y, a.Z}, "b": []float64{b.X, b.Y, b.Z}, "c": []float64{cc.X, cc.Y, cc.Z}})
		}
		// (k%8 == 6: points closer than 1e-160 are outside the property's domain — PointCross products underflow there
		// and TurnAngle(a,b,c) = -0 vs TurnAngle(c,b,a) = pi is observed; only the model correspondence is checked)
		if a != b && b != cc && a != cc && k%8 != 6 {
			if x, y := s2.TurnAngle(a, b, cc), s2.TurnAngle(cc, b, a); !bitsEq(float64(x), -float64(y)) {
				c.Violate("TurnAngle.reverse", "TurnAngle(a,b,c) != -TurnAngle(c,b,a) for distinct points", map[string]interface{}{"a": []string{fmt.Sprintf("%x", a.X), fmt.Sprintf("%x", a.Y), fmt.Sprintf("%x", a.Z)}, "b": []string{fmt.Sprintf("%x", b.X), fmt.Sprintf("%x", b.Y), fmt.Sprintf("%x", b.Z)}, "c": []string{fmt.Sprintf("%x", cc.X), fmt.Sprintf("%x", cc.Y), fmt.Sprintf("%x", cc.Z)}, "abc": fmt.Sprintf("%x", float64(x)), "cba": fmt.Sprintf("%x", float64(y))})
			}
		}
		if pa := s2.PointArea(a, b, cc); pa < 0 || pa > 2*math.Pi*(1+1e-12) {
			c.Violate("PointArea.range", "PointArea outside [0,2pi]", map[string]interface{}{"a": []float64{a.X, a.Y, a.Z}, "b": []float64{b.X, b.Y, b.Z}, "c": []float64{cc.X, cc.Y, cc.Z}, "area": pa})
		}
	}
}

func (st *state) polygons(budget int) {
	c, rng := st.c, st.rng
	for k := 0; k < 6*budget; k++ {
		ctr := randPoint(rng)
		scale := []float64{1e-4, 0.05, 0.6}[k%3]
		nl := 2 + rng.Intn(3)
		var loops []*s2.Loop
		// concentric shells and holes, plus (sometimes) a disjoint second shell
		for j := 0; j < nl; j++ {
			r := scale * float64(nl-j) / float64(nl)
			lp := s2.RegularLoop(ctr, s1.Angle(r), 3+rng.Intn(6))
			loops = append(loops, lp)
		}
		if rng.Bool() {
			loops = append(loops, s2.RegularLoop(s2.Point{Vector: ctr.Mul(-1)}, s1.Angle(scale/3), 4))
		}
		p := s2.PolygonFromLoops(loops)
		if p.Validate() != nil {
			c.Class("rejected(invalid) polygon")
			continue
		}
		c.Class(fmt.Sprintf("polygon %d loops", p.NumLoops()))
		st.checkPolygonGeo(fmt.Sprintf("nested regular loops k=%d", k), p)
		c.Eval(fmt.Sprintf("poly %d %x", k, math.Float64bits(ctr.X)), true)
		tab := newTab()
		var lts []string
		// independent signed sums (Neumaier-compensated; shells minus holes by nesting depth parity)
		sum, comp := 0.0, 0.0
		var cen [3]float64
		var absSum float64
		for i := 0; i < p.NumLoops(); i++ {
			lp := p.Loop(i)
			v := lp.Vertices()
			tab.addLoop(v)
			s2.VerifC18SurfaceIntegralFloat64(lp, func(a, b, c s2.Point) float64 { tab.add(a, b, c); return 0 })
			depth := s2.VerifC18Depth(lp)
			lts = append(lts, loopTerm(v, lp.ContainsOrigin(), depth, lp.RectBound().Lng.Length()))
			sgn := 1.0
			if depth%2 != 0 {
				sgn = -1
			}
			if (sgn < 0) != lp.IsHole() || (sgn < 0) != (lp.Sign() < 0) {
				c.Violate("Loop.Sign", "Sign/IsHole disagree with the parity of the nesting depth", map[string]interface{}{"depth": depth})
			}
			x := sgn * lp.Area()
			absSum += math.Abs(x)
			t := sum + x
			if math.Abs(sum) >= math.Abs(x) {
				comp += (sum - t) + x
			} else {
				comp += (x - t) + sum
			}
			sum = t
			cv := lp.Centroid()
			cen[0] += sgn * cv.X
			cen[1] += sgn * cv.Y
			cen[2] += sgn * cv.Z
		}
		want := sum + comp
		got := p.Area()
		if math.Abs(got-want) > 4e-16*absSum*float64(p.NumLoops()) {
			c.Violate("Polygon.Area", "polygon area is not the sum of shell areas minus hole areas", map[string]interface{}{"got": got, "want": want, "loops": p.NumLoops()})
		}
		gc := p.Centroid()
		for d, x := range []float64{gc.X, gc.Y, gc.Z} {
			if math.Abs(x-cen[d]) > 1e-15*float64(p.NumLoops())*(math.Abs(cen[d])+absSum) {
				c.Violate("Polygon.Centroid", "polygon centroid is not the signed sum of loop centroids", map[string]interface{}{"got": []float64{gc.X, gc.Y, gc.Z}, "want": cen[:]})
				break
			}
		}
		RS := tab.term()
		c.Check(fmt.Sprintf("Polygon.Area %d", k), feq(vkit.App("PolygonArea", RS, vkit.List(lts)), got))
		c.Check(fmt.Sprintf("Polygon.Centroid %d", k), vkit.App("s2_Point_eqbits", vkit.App("PolygonCentroid", vkit.List(lts)), pt(gc)))
	}
}

// san replaces non-finite floats (which encoding/json rejects) by strings, recursively.
func san(v interface{}) interface{} {
	switch x := v.(type) {
	case float64:
		if math.IsNaN(x) || math.IsInf(x, 0) {
			return fmt.Sprint(x)
		}
		return x
	case []float64:
		out := make([]interface{}, len(x))
		for i, e := range x {
			out[i] = san(e)
		}
		return out
	case []interface{}:
		out := make([]interface{}, len(x))
		for i, e := range x {
			out[i] = san(e)
		}
		return out
	case map[string]interface{}:
		out := map[string]interface{}{}
		for k, e := range x {
			out[k] = san(e)
		}
		return out
	}
	return v
}

func run(c *vkit.Collector, rng *vkit.Rng, budget int) {
	defer func() {
		for i := range c.Violations {
			c.Violations[i].Replay = san(c.Violations[i].Replay)
		}
		for i := range c.Samples {
			c.Samples[i] = san(c.Samples[i])
		}
		for k, e := range c.Extra {
			c.Extra[k] = san(e)
		}
	}()
	st := &state{c: c, rng: rng, fanLoopsWith: map[string]int{}, areaDecisions: map[string]int{}}
	// empty and full loops
	for _, sp := range []struct {
		name string
		l    *s2.Loop
	}{{"empty", s2.EmptyLoop()}, {"full", s2.FullLoop()}} {
		c.Class(sp.name)
		c.Eval(sp.name, true)
		ta, ar := sp.l.TurningAngle(), sp.l.Area()
		st.corrLoop(sp.name, sp.l)
		inv := s2.LoopFromPoints(append([]s2.Point{}, sp.l.Vertices()...))
		inv.Invert()
		st.corrLoop(sp.name+" inverted", inv)
		st.corrInvert(sp.name, sp.l, inv)
		if !bitsEq(inv.TurningAngle(), -ta) {
			c.Violate("Loop.TurningAngle.invert", "empty/full loop: inverted turning angle is not the negation", sp.name)
		}
		if ar+inv.Area() != 4*math.Pi {
			c.Violate("Loop.Area.complement", "empty/full loop: areas do not sum to 4*pi", sp.name)
		}
	}
	// loops that drive the triangle fan through all its origin-switching cases: always with [T]
	for _, g := range fanLoops(rng, budget) {
		st.processLoop(g, true)
	}
	// thin chevrons in the ambiguity band of Area: [S] on all, [T] on the first few
	chev, inBand := chevronLoops(rng, 1500*budget)
	for i, g := range chev {
		st.processLoop(g, i < 6*budget)
	}
	c.Extra["thin chevrons"] = fmt.Sprintf("%d candidates, %d with the raw triangle sum within 3e-14 of 0 or +-4*pi, %d evaluated", 1500*budget, inBand, len(chev))
	gens := generate(rng, 3*budget)
	corrBudget := 70 * budget
	for i, g := range gens {
		full := corrBudget > 0 && (len(g.v) <= 40 || i%2 == 0) && len(g.v) <= 400
		if len(g.v) > 40 && full {
			corrBudget -= 5
		}
		if full {
			corrBudget--
		}
		st.processLoop(g, full)
	}
	st.triangles(budget)
	st.polygons(budget)
	st.reusedPolygons(budget)
	st.runOracle()
	c.Extra["max |A+A'-4pi| / tol"] = st.maxSumErr
	c.Extra["max |A-A_rot| / tol"] = st.maxRotErr
	c.Extra["max |A-fan| / tol"] = st.maxFanErr
	c.Extra["max |A-fan| / fan for small non-degenerate convex loops (bound 1e-6)"] = st.maxFanRel
	c.Extra["max |A-oracle| / tol"] = st.maxOraErr
	c.Extra["max |A-(2pi-TurningAngle)| / tol"] = st.maxGBErr
	c.Extra["max |Centroid-Centroid_rot| / tol"] = st.maxCenErr
	c.Extra["fan branch coverage (decisions over all evaluated vertex orders)"] = map[string]int{"keep origin": st.fan.keep, "move to V0xVi": st.fan.move, "revert to V0": st.fan.revert, "third case (V0 x O)": st.fan.third, "closing triangle": st.fan.closing}
	c.Extra["fan branch coverage (vertex orders reaching the case)"] = st.fanLoopsWith
	c.Extra["fan replica/implementation call-count mismatches"] = st.fanReplicaMismatch
	c.Extra["Area decision reached (all evaluated vertex orders)"] = st.areaDecisions
	c.Extra["max relative error of tiny loops vs oracle"] = st.maxRelTiny
	c.Extra["tolerance"] = "per area value (1e-14*N + 1e-14)*(1+1e-6): 2N triangles x 5e-15 (PointArea/GirardArea doc); sums and differences of two areas use twice that"
	c.Extra["rejected_invalid_loops"] = st.rejected
}
