# High-precision (mpmath, 60 digits) oracle for the C20 observer. One batch per run.
# in : JSON list of requests; out: JSON list of answers (strings of decimal numbers).
import json, sys
from mpmath import mp, mpf, sqrt, asin, atan2, exp, pi, floor, sin, cos, tanh
mp.dps = 60

def F(x):  # exact value of a float64 given as hex string or number
    return mpf(float.fromhex(x)) if isinstance(x, str) else mpf(x)
def V(v): return [F(v[0]), F(v[1]), F(v[2])]
def dot(a, b): return a[0]*b[0] + a[1]*b[1] + a[2]*b[2]
def cross(a, b): return [a[1]*b[2]-a[2]*b[1], a[2]*b[0]-a[0]*b[2], a[0]*b[1]-a[1]*b[0]]
def norm(a): return sqrt(dot(a, a))
def unit(a):
    n = norm(a); return [a[0]/n, a[1]/n, a[2]/n]
def ang(a, b): return atan2(norm(cross(a, b)), dot(a, b))
def rem(x, w):  # IEEE remainder on reals
    n = floor(x / w + mpf(1)/2)
    r = x - n*w
    return r
def unproject(kind, scale, x, y):
    lng = rem(x, 2*scale) * pi / scale
    if kind == "pc":
        lat = y * pi / scale
    else:
        lat = asin(tanh(pi / scale * y))   # = asin((k-1)/(k+1)), k = exp(2*pi*y/scale); defined for y = +-inf
    return [cos(lng)*cos(lat), sin(lng)*cos(lat), sin(lat)]
def dist_edge(p, c, d):
    n = cross(c, d)
    if norm(n) == 0:
        return min(ang(p, c), ang(p, d))
    m = unit(n)
    q = [p[i] - dot(p, m)*m[i] for i in range(3)]
    if norm(q) > 0 and dot(cross(c, q), m) >= 0 and dot(cross(q, d), m) >= 0:
        return asin(min(mpf(1), abs(dot(p, m))))
    return min(ang(p, c), ang(p, d))

def answer(r):
    t = r["t"]
    if t == "dev":       # min distance from Unproject(x) to any of the geodesic edges
        p = unproject(r["proj"], F(r["scale"]), F(r["x"][0]), F(r["x"][1]))
        return min(dist_edge(p, unit(V(e[0])), unit(V(e[1]))) for e in r["edges"])
    if t == "ptedge":    # min distance from the point to any of the edges
        p = unit(V(r["p"]))
        return min(dist_edge(p, unit(V(e[0])), unit(V(e[1]))) for e in r["edges"])
    if t == "unproj":    # angle between Unproject(x) and the given point
        p = unproject(r["proj"], F(r["scale"]), F(r["x"][0]), F(r["x"][1]))
        return ang(p, unit(V(r["p"])))
    if t == "deg":       # distance of lat/lng (degrees * 10^e) from the integers
        p = unit(V(r["p"])); e = int(r["e"])
        lat = atan2(p[2], sqrt(p[0]*p[0] + p[1]*p[1])) * 180 / pi * mpf(10)**e
        lng = atan2(p[1], p[0]) * 180 / pi * mpf(10)**e
        coslat = sqrt(p[0]*p[0] + p[1]*p[1])
        return max(abs(lat - floor(lat + mpf(1)/2)), abs(lng - floor(lng + mpf(1)/2)) * coslat)
    raise ValueError(t)

reqs = json.load(open(sys.argv[1]))
out = []
for r in reqs:
    try:
        out.append(mp.nstr(answer(r), 30))
    except Exception as ex:
        out.append("error:" + str(ex))
json.dump(out, open(sys.argv[2], "w"))
