package main

import (
	"fmt"
	"math"
	"os"

	"github.com/golang/geo/r2"
	"github.com/golang/geo/r3"
	"github.com/golang/geo/s1"
	"github.com/golang/geo/s2"
	"verifharness/internal/vkit"
)

// ---- the projections as mathematics (harness side, float64; mpmath re-evaluates flagged cases) ----

func myUnproject(merc bool, scale float64, p r2.Point) r3.Vector {
	lng := math.Remainder(p.X, 2*scale) * (math.Pi / scale)
	lat := p.Y * (math.Pi / scale)
	if merc {
		lat = math.Asin(math.Tanh(lat))
	}
	return r3.Vector{X: math.Cos(lng) * math.Cos(lat), Y: math.Sin(lng) * math.Cos(lat), Z: math.Sin(lat)}
}
func lerp(t float64, a, b r2.Point) r2.Point {
	return r2.Point{X: a.X + t*(b.X-a.X), Y: a.Y + t*(b.Y-a.Y)}
}
func projName(merc bool) string {
	if merc {
		return "merc"
	}
	return "pc"
}

const tolRel = 1e-6    // relative slack on every tolerance
const tolAbs = 4e-15   // absolute slack for coordinate rounding of unit vectors (radians)

// maximise f over [0,1]: n uniform samples, then golden-section refinement around the best
func maximise(f func(float64) float64, n int) (float64, float64) {
	bt, bv := 0.0, math.Inf(-1)
	for k := 0; k <= n; k++ {
		t := float64(k) / float64(n)
		if v := f(t); v > bv {
			bt, bv = t, v
		}
	}
	lo, hi := math.Max(0, bt-1/float64(n)), math.Min(1, bt+1/float64(n))
	g := (math.Sqrt(5) - 1) / 2
	x1, x2 := hi-g*(hi-lo), lo+g*(hi-lo)
	f1, f2 := f(x1), f(x2)
	for it := 0; it < 30; it++ {
		if f1 < f2 {
			lo, x1, f1 = x1, x2, f2
			x2 = lo + g*(hi-lo)
			f2 = f(x2)
		} else {
			hi, x2, f2 = x2, x1, f1
			x1 = hi - g*(hi-lo)
			f1 = f(x1)
		}
	}
	for _, t := range []float64{x1, x2} {
		if v := f(t); v > bv {
			bt, bv = t, v
		}
	}
	return bt, bv
}

// wrapDestination on the implementation: the result is b moved by a whole number of wraps, at most half a
// wrap from a (up to rounding of the final addition), and b itself when wrapping is off or not needed
func searchWrap(c *vkit.Collector, rng *vkit.Rng, budget int) bool {
	ok := true
	for k := 0; k < 300*budget; k++ {
		w := r2.Point{X: rng.Pick([]float64{0, 360, 2, 2 * math.Pi, math.Ldexp(1, 31), rng.Range(0.5, 1000)}), Y: rng.Pick([]float64{0, 0, 180, rng.Range(0.5, 100)})}
		m := math.Max(w.X, 1)
		a := r2.Point{X: rng.Range(-3, 3) * m, Y: rng.Range(-300, 300)}
		b := r2.Point{X: rng.Range(-3, 3) * m, Y: rng.Range(-300, 300)}
		if rng.Intn(4) == 0 {
			b.X = a.X + rng.Pick([]float64{0.5, -0.5, 0.49999999, 0.50000001, 1, -1.5})*w.X
		}
		r := s2.VerifC20WrapDestination(a, b, w)
		c.Eval(fmt.Sprintf("S.wrap:%x:%x:%x", math.Float64bits(w.X), math.Float64bits(a.X), math.Float64bits(b.X)), w.X > 0 && math.Abs(b.X-a.X) > 0.5*w.X)
		rep := map[string]interface{}{"wrap": []float64{w.X, w.Y}, "a": []float64{a.X, a.Y}, "b": []float64{b.X, b.Y}, "result": []float64{r.X, r.Y}}
		one := func(wd, av, bv, rv float64) string {
			if !(wd > 0) || math.Abs(bv-av) <= 0.5*wd {
				if rv != bv {
					return "b modified although no wrapping is required"
				}
				return ""
			}
			eps := 4e-16 * (math.Abs(av) + math.Abs(bv) + wd)
			if math.Abs(math.Remainder(rv-bv, wd)) > eps {
				return "result is not b moved by a whole number of wraps"
			}
			if math.Abs(rv-av) > 0.5*wd+eps {
				return "result is more than half a wrap from a"
			}
			return ""
		}
		for _, msg := range []string{one(w.X, a.X, b.X, r.X), one(w.Y, a.Y, b.Y, r.Y)} {
			if msg != "" {
				ok = false
				c.Violate("wrapDestination", msg, rep)
			}
		}
	}
	return ok
}

func searchTessellation(c *vkit.Collector, rng *vkit.Rng, budget int, o *oracle) {
	maxLen, maxRatio := 0, 0.0
	for k := 0; k < 220*budget; k++ {
		merc := k%2 == 1
		scale := pickScale(rng)
		tol := pickTol(rng)
		var pr s2.Projection
		if merc {
			pr = s2.NewMercatorProjection(scale)
		} else {
			pr = s2.NewPlateCarreeProjection(scale)
		}
		tess := s2.NewEdgeTessellator(pr, s1.Angle(tol))
		a, b := pickEdge(rng, c, tol, merc)
		if a.Add(b.Vector).Norm() < 1e-3 {
			continue // (nearly) antipodal endpoints do not define an edge
		}
		bound := tol*(1+tolRel) + tolAbs
		wrap := 2 * scale
		rep := map[string]interface{}{"projection": projName(merc), "scale": scale, "tolerance": tol,
			"a": []float64{a.X, a.Y, a.Z}, "b": []float64{b.X, b.Y, b.Z}, "a_hex": hv(a), "b_hex": hv(b)}
		key := fmt.Sprintf("%s %x %g %x %x", projName(merc), math.Float64bits(scale), tol, math.Float64bits(a.X), math.Float64bits(b.Y))
		if k%4 < 2 {
			// ---- sphere -> plane ----
			vs := tess.AppendProjected(a, b, nil)
			c.Eval("S.tessP:"+key, len(vs) > 2)
			if len(vs) > maxLen {
				maxLen = len(vs)
			}
			c.Sample(map[string]interface{}{"type": "AppendProjected", "input": rep, "vertices": len(vs)})
			rep["direction"] = "AppendProjected"
			pa, pb := pr.Project(a), pr.Project(b)
			if len(vs) < 2 || vs[0] != pa {
				c.Violate("EdgeTessellator.AppendProjected.endpoints", "chain does not start at Project(a)", rep)
				continue
			}
			last := vs[len(vs)-1]
			if last.Y != pb.Y || math.Abs(math.Remainder(last.X-pb.X, wrap)) > 8e-16*wrap {
				c.Violate("EdgeTessellator.AppendProjected.endpoints", "chain does not end at Project(b) modulo the wrap distance", rep)
			}
			worstV, worstX := 0.0, r2.Point{}
			for i := 0; i+1 < len(vs); i++ {
				if math.Abs(vs[i+1].X-vs[i].X) > 0.5*wrap*(1+1e-15) {
					c.Violate("EdgeTessellator.AppendProjected.wrap", "consecutive vertices more than half a wrap apart", rep)
					break
				}
				va, vb := vs[i], vs[i+1]
				t, v := maximise(func(t float64) float64 { return distEdge(myUnproject(merc, scale, lerp(t, va, vb)), a.Vector, b.Vector) }, 32)
				if v > worstV {
					worstV, worstX = v, lerp(t, va, vb)
				}
			}
			if r := worstV / math.Max(tol, 1e-13); r > maxRatio {
				maxRatio = r
			}
			if os.Getenv("C20_DEBUG") != "" && worstV > 1.3*math.Max(tol, 1e-13) {
				fmt.Fprintf(os.Stderr, "P ratio %g %v len %d worstX %v\n", worstV/tol, rep, len(vs), worstX)
			}
			if worstV > bound*0.98 {
				rep["worst_planar_point"] = []float64{worstX.X, worstX.Y}
				rep["float64_deviation"] = worstV
				o.add(pending{req: map[string]interface{}{"t": "dev", "proj": projName(merc), "scale": hx(scale), "x": []string{hx(worstX.X), hx(worstX.Y)}, "edges": hedges([][2]s2.Point{{a, b}})},
					bound: math.Max(tol, 1e-13)*(1+tolRel) + tolAbs, kind: "EdgeTessellator.tolerance",
					desc: fmt.Sprintf("AppendProjected (%s, scale %g, tolerance %g): a point of the output chain is farther than the tolerance from the input edge", projName(merc), scale, tol),
					replay: rep, approx: worstV, exceedsFloat: worstV > bound})
			}
		} else {
			// ---- plane -> sphere ----
			pa, pb := pr.Project(a), pr.Project(b)
			vs := tess.AppendUnprojected(pa, pb, nil)
			c.Eval("S.tessU:"+key, len(vs) > 2)
			if len(vs) > maxLen {
				maxLen = len(vs)
			}
			rep["direction"] = "AppendUnprojected"
			rep["pa"], rep["pb"] = []float64{pa.X, pa.Y}, []float64{pb.X, pb.Y}
			if len(vs) < 2 || vs[0] != pr.Unproject(pa) || vs[len(vs)-1] != pr.Unproject(pb) {
				c.Violate("EdgeTessellator.AppendUnprojected.endpoints", "chain does not start/end at the unprojected endpoints", rep)
				continue
			}
			// the planar edge takes the short way round
			pbw := pb
			if math.Abs(pb.X-pa.X) > 0.5*wrap {
				pbw.X = pa.X + math.Remainder(pb.X-pa.X, wrap)
			}
			n := 32 * (len(vs) - 1)
			if n > 40000 {
				n = 40000
			}
			j := 0
			minDist := func(p r3.Vector, lo, hi int) (float64, int) {
				bv, bj := math.Inf(1), lo
				for e := lo; e <= hi; e++ {
					if e < 0 || e+1 >= len(vs) {
						continue
					}
					if d := distEdge(p, vs[e].Vector, vs[e+1].Vector); d < bv {
						bv, bj = d, e
					}
				}
				return bv, bj
			}
			worstV, worstT, worstJ := 0.0, 0.0, 0
			for s := 0; s <= n; s++ {
				t := float64(s) / float64(n)
				p := myUnproject(merc, scale, lerp(t, pa, pbw))
				d, e := minDist(p, j-3, j+3)
				j = e
				if d > worstV {
					worstV, worstT, worstJ = d, t, e
				}
			}
			// refine around the worst sample, then take the true minimum over all output edges there
			tt, _ := maximise(func(u float64) float64 {
				t := math.Max(0, math.Min(1, worstT+(2*u-1)/float64(n)))
				d, _ := minDist(myUnproject(merc, scale, lerp(t, pa, pbw)), worstJ-3, worstJ+3)
				return d
			}, 16)
			worstT = math.Max(0, math.Min(1, worstT+(2*tt-1)/float64(n)))
			x := lerp(worstT, pa, pbw)
			worstV, worstJ = minDist(myUnproject(merc, scale, x), 0, len(vs)-2)
			if r := worstV / math.Max(tol, 1e-13); r > maxRatio {
				maxRatio = r
			}
			if os.Getenv("C20_DEBUG") != "" && worstV > 1.3*math.Max(tol, 1e-13) {
				fmt.Fprintf(os.Stderr, "U ratio %g %v len %d worstT %v\n", worstV/tol, rep, len(vs), worstT)
			}
			if worstV > bound*0.98 {
				es := [][2]s2.Point{}
				for e := worstJ - 6; e <= worstJ+6; e++ {
					if e >= 0 && e+1 < len(vs) {
						es = append(es, [2]s2.Point{vs[e], vs[e+1]})
					}
				}
				rep["worst_planar_point"] = []float64{x.X, x.Y}
				rep["float64_deviation"] = worstV
				o.add(pending{req: map[string]interface{}{"t": "dev", "proj": projName(merc), "scale": hx(scale), "x": []string{hx(x.X), hx(x.Y)}, "edges": hedges(es)},
					bound: math.Max(tol, 1e-13)*(1+tolRel) + tolAbs, kind: "EdgeTessellator.tolerance",
					desc: fmt.Sprintf("AppendUnprojected (%s, scale %g, tolerance %g): a point of the input edge is farther than the tolerance from the output chain", projName(merc), scale, tol),
					replay: rep, approx: worstV, exceedsFloat: worstV > bound})
			}
		}
	}
	c.Extra["tess_max_chain_len"] = maxLen
	c.Extra["tess_max_deviation_over_tolerance_float64"] = maxRatio
}

func searchRoundTrip(c *vkit.Collector, rng *vkit.Rng, budget int, o *oracle) {
	for k := 0; k < 400*budget; k++ {
		merc := k%2 == 1
		scale := pickScale(rng)
		var pr s2.Projection
		maxLat, angBound := 89.9, 1e-14
		if merc {
			pr = s2.NewMercatorProjection(scale)
			maxLat, angBound = 85, 1e-12
		} else {
			pr = s2.NewPlateCarreeProjection(scale)
		}
		p := randPoint(rng)
		if rng.Intn(3) == 0 {
			p = degPoint(rng.Pick([]float64{0, maxLat, -maxLat, 45}), rng.Pick([]float64{180, -180, 179.999999, 0, 90}))
		}
		if ll := s2.LatLngFromPoint(p); math.Abs(ll.Lat.Degrees()) > maxLat {
			continue
		}
		q := pr.Project(p)
		back := pr.Unproject(q)
		c.Eval(fmt.Sprintf("rt:%s:%x:%x", projName(merc), math.Float64bits(scale), math.Float64bits(p.X)), true)
		rep := map[string]interface{}{"projection": projName(merc), "scale": scale, "p": []float64{p.X, p.Y, p.Z}, "p_hex": hv(p)}
		if d := vang(back.Vector, p.Vector); d > angBound {
			c.Violate("Projection.roundtrip", fmt.Sprintf("Unproject(Project(p)) is %g rad from p (%s, scale %g)", d, projName(merc), scale), rep)
		}
		// Project agrees with the mathematical projection (checked through its inverse at high precision)
		if d := vang(myUnproject(merc, scale, q), p.Vector); d > angBound/2 {
			o.add(pending{req: map[string]interface{}{"t": "unproj", "proj": projName(merc), "scale": hx(scale), "x": []string{hx(q.X), hx(q.Y)}, "p": hv(p)},
				bound: angBound, kind: "Projection.Project", desc: "Project(p) is not the projection of p", replay: rep, approx: d, exceedsFloat: d > angBound})
		}
		// plane -> sphere -> plane
		pt := r2.Point{X: scale * rng.Range(-1, 1), Y: scale * rng.Range(-0.49, 0.49)}
		pt2 := pr.Project(pr.Unproject(pt))
		lim := 64 * 2.3e-16 * scale
		if merc {
			lim = 1e-11 * scale
			if math.Abs(pt.Y) > scale*0.9 {
				continue
			}
		}
		if math.Abs(math.Remainder(pt2.X-pt.X, 2*scale)) > lim/math.Max(1e-3, math.Cos(pt.Y*math.Pi/scale)) || math.Abs(pt2.Y-pt.Y) > lim {
			c.Violate("Projection.roundtrip", fmt.Sprintf("Project(Unproject(q)) differs from q by (%g,%g) (%s, scale %g)", pt2.X-pt.X, pt2.Y-pt.Y, projName(merc), scale),
				map[string]interface{}{"projection": projName(merc), "scale": scale, "q": []float64{pt.X, pt.Y}})
		}
	}
}

// poleBound: what "within rounding" means for the Mercator round trip at colatitude d (radians from the
// nearer pole). y = atanh(sin lat) is formed from 1 -+ sin(lat) = d^2/2, so one ulp of sin(lat) moves d by
// ~1.1e-16/d; below d ~ 1.5e-8 the point maps to Y = +-Inf and comes back as the pole itself.
func poleBound(d float64) float64 {
	return math.Max(1e-12, math.Min(1e-15/math.Max(d, 1e-300), 5e-8))
}

func badPoint(p s2.Point) bool {
	n := p.Norm2()
	return math.IsNaN(n) || math.Abs(n-1) > 1e-14
}

// searchPoles: the round trip at and near both poles, and Unproject of planar points whose y is +-Inf or so
// large that exp overflows/underflows (Mercator), at scales 180, pi, 1e6 and others, both projections.
func searchPoles(c *vkit.Collector, rng *vkit.Rng, budget int, o *oracle) {
	scales := []float64{180, math.Pi, 1e6, 1, math.Ldexp(1, 30)}
	for _, merc := range []bool{false, true} {
		for _, scale := range scales {
			var pr s2.Projection
			if merc {
				pr = s2.NewMercatorProjection(scale)
			} else {
				pr = s2.NewPlateCarreeProjection(scale)
			}
			// ---- sphere -> plane -> sphere at and near the poles ----
			for _, sgn := range []float64{1, -1} {
				ds := []float64{0}
				for e := 6; e <= 15; e++ {
					ds = append(ds, math.Pow(10, -float64(e)), math.Pow(10, -float64(e))*rng.Range(1, 10))
				}
				for r := 0; r < budget; r++ {
					ds = append(ds, math.Pow(10, -rng.Range(5, 9)), math.Ldexp(1, -26)*rng.Range(0.5, 2))
				}
				for _, d := range ds {
					lng := rng.Range(-math.Pi, math.Pi)
					p := s2.Point{Vector: r3.Vector{X: math.Sin(d) * math.Cos(lng), Y: math.Sin(d) * math.Sin(lng), Z: sgn * math.Cos(d)}}
					if d == 0 {
						p = s2.Point{Vector: r3.Vector{X: 0, Y: 0, Z: sgn}}
					}
					c.Class("roundtrip:pole")
					c.Eval(fmt.Sprintf("pole:%s:%g:%g:%g", projName(merc), scale, sgn, d), true)
					q := pr.Project(p)
					back := pr.Unproject(q)
					rep := map[string]interface{}{"projection": projName(merc), "scale": scale, "p": []float64{p.X, p.Y, p.Z}, "p_hex": hv(p),
						"colatitude": d, "projected": []string{fmt.Sprint(q.X), fmt.Sprint(q.Y)}, "back": []string{fmt.Sprint(back.X), fmt.Sprint(back.Y), fmt.Sprint(back.Z)}}
					if badPoint(back) {
						c.Violate("Projection.roundtrip", fmt.Sprintf("Unproject(Project(p)) is not a unit-length point (%v) for p %g rad from a pole (%s, scale %g)", back.Vector, d, projName(merc), scale), rep)
						continue
					}
					bound := 1e-14
					if merc {
						bound = poleBound(d)
					}
					if e := vang(back.Vector, p.Vector); e > bound {
						c.Violate("Projection.roundtrip", fmt.Sprintf("Unproject(Project(p)) is %g rad from p, %g rad from a pole (%s, scale %g; rounding allows %g)", e, d, projName(merc), scale, bound), rep)
					}
				}
			}
			// ---- plane -> sphere for y at the poles and beyond the exp range ----
			ys := []float64{scale / 2, -scale / 2}
			if merc {
				ys = []float64{math.Inf(1), math.Inf(-1), math.MaxFloat64, -math.MaxFloat64, 1e300, -1e300}
				for _, yp := range []float64{354.9, 355, 356, 400, 709.7 / 2, 709.8 / 2, 710.0 / 2, 745.0 / 2, 746.0 / 2, 18, 19, 20, 36.7, 37, 100, rng.Range(15, 400)} {
					ys = append(ys, yp*scale/math.Pi, -yp*scale/math.Pi)
				}
			}
			for _, y := range ys {
				pt := r2.Point{X: scale * rng.Range(-1, 1), Y: y}
				c.Class("unproject:extreme-y")
				c.Eval(fmt.Sprintf("extremeY:%s:%g:%g", projName(merc), scale, y), true)
				u := pr.Unproject(pt)
				rep := map[string]interface{}{"projection": projName(merc), "scale": scale, "q": []string{fmt.Sprint(pt.X), fmt.Sprint(pt.Y)},
					"q_hex": []string{hx(pt.X), hx(pt.Y)}, "result": []string{fmt.Sprint(u.X), fmt.Sprint(u.Y), fmt.Sprint(u.Z)}}
				if badPoint(u) {
					c.Violate("Projection.Unproject", fmt.Sprintf("Unproject((x,%g)) is not a unit-length point: %v (%s, scale %g)", y, u.Vector, projName(merc), scale), rep)
					continue
				}
				want := myUnproject(merc, scale, pt)
				d := math.Acos(math.Min(1, math.Abs(want.Z)))
				if math.Abs(want.Z) > 0.5 {
					d = math.Asin(math.Min(1, math.Hypot(want.X, want.Y)))
				}
				bound := 1e-14
				if merc {
					bound = poleBound(d)
				}
				if math.IsInf(y, 0) || math.Abs(y) >= 400*scale/math.Pi {
					// exp overflows/underflows: the answer is the pole itself (up to cos(pi/2) = 6e-17)
					bound = 1e-15
				}
				if e := vang(u.Vector, want); e > bound/2 {
					o.add(pending{req: map[string]interface{}{"t": "unproj", "proj": projName(merc), "scale": hx(scale), "x": []string{hx(pt.X), hx(pt.Y)}, "p": hv(u)},
						bound: bound, kind: "Projection.Unproject", desc: fmt.Sprintf("Unproject((x,%g)) is farther from the true point than rounding allows (%s, scale %g)", y, projName(merc), scale),
						replay: rep, approx: e, exceedsFloat: e > bound})
				}
			}
		}
	}
}

func searchSubsample(c *vkit.Collector, rng *vkit.Rng, budget int, o *oracle) {
	for k := 0; k < 500*budget; k++ {
		n := rng.Intn(40)
		var pl s2.Polyline
		step := math.Pow(10, -rng.Range(0.3, 7))
		if n > 0 {
			pl = randPolyline(rng, c, n, step)
		}
		tol := rng.Pick([]float64{0, -1, 1e-13, step * 0.1, step, step * 3, step * 30, 1})
		if rng.Bool() {
			tol = step * math.Pow(10, rng.Range(-3, 2))
		}
		checkSubsample(c, o, pl, tol, fmt.Sprintf("S.sub:%d:%g:%d", n, tol, k))
	}
	searchSubsampleUlps(c, rng, budget, o)
}

// checkSubsample evaluates the property's sentence about SubsampleVertices on one polyline
func checkSubsample(c *vkit.Collector, o *oracle, pl s2.Polyline, tol float64, key string) []int {
	n := len(pl)
	idx := pl.SubsampleVertices(s1.Angle(tol))
	ct := math.Max(tol, 0)
	c.Eval(key, len(idx) < n && n > 2 || n == 2)
	pts := [][]float64{}
	for _, p := range pl {
		pts = append(pts, []float64{p.X, p.Y, p.Z})
	}
	rep := map[string]interface{}{"polyline": pts, "tolerance": tol, "result": idx}
	if n == 0 {
		if len(idx) != 0 {
			c.Violate("Polyline.SubsampleVertices.shape", "non-empty result for an empty polyline", rep)
		}
		return idx
	}
	bad := ""
	if len(idx) == 0 || idx[0] != 0 {
		bad = "result does not start with index 0"
	}
	for i := 0; bad == "" && i+1 < len(idx); i++ {
		if idx[i+1] <= idx[i] || idx[i+1] >= n {
			bad = "indices not strictly increasing within range"
		} else if pl[idx[i]] == pl[idx[i+1]] {
			bad = "two consecutive emitted vertices are equal"
		}
	}
	if bad == "" {
		e := idx[len(idx)-1]
		if e != n-1 && pl[e] != pl[n-1] {
			bad = "last vertex not preserved"
		}
		if pl[0] != pl[n-1] && len(idx) < 2 {
			bad = "distinct first and last vertices are not both preserved"
		}
	}
	if bad != "" {
		c.Violate("Polyline.SubsampleVertices.shape", bad, rep)
		return idx
	}
	if tol <= 0 && n > 0 {
		// tolerance clamped at 0: only exact duplicates / collinear-in-order vertices may go; checked by the bound below with tol 0
	}
	// every dropped vertex within the tolerance of the simplified edge it belongs to
	bound := ct*(1+tolRel) + tolAbs
	segEnd := append(append([]int{}, idx...), n-1)
	for s := 0; s+1 < len(segEnd); s++ {
		i0, i1 := segEnd[s], segEnd[s+1]
		e1 := i1
		if s+2 == len(segEnd) { // the tail after the last emitted vertex collapses onto it
			e1 = i0
		}
		for v := i0 + 1; v < i1; v++ {
			d := distEdge(pl[v].Vector, pl[i0].Vector, pl[e1].Vector)
			d2 := float64(s2.DistanceFromSegment(pl[v], pl[i0], pl[e1]))
			// s2.DistanceFromSegment goes through chord angles (absolute error ~1.5e-8); it only nominates
			if d > bound*0.98 || d2 > bound*1.05+5e-8 {
				r := map[string]interface{}{"polyline": pts, "tolerance": tol, "result": idx, "dropped": v, "segment": []int{i0, e1}, "float64_distance": d, "s2_DistanceFromSegment": d2}
				o.add(pending{req: map[string]interface{}{"t": "ptedge", "p": hv(pl[v]), "edges": hedges([][2]s2.Point{{pl[i0], pl[e1]}})},
					bound: bound, kind: "Polyline.SubsampleVertices.tolerance",
					desc: fmt.Sprintf("dropped vertex %d is farther than the tolerance %g from the simplified edge (%d,%d)", v, ct, i0, e1), replay: r, approx: d, exceedsFloat: d > bound})
			}
		}
	}
	return idx
}

// A point a few ulps (1e-16..1e-15 rad) from p: distinct for Go's ==, equal for Point.ApproxEqual.
func ulpNeighbour(rng *vkit.Rng, p s2.Point) s2.Point {
	q := p
	for tries := 0; tries < 8 && q == p; tries++ {
		bump := func(x float64) float64 {
			k := 1 + rng.Intn(8)
			if rng.Bool() {
				k = -k
			}
			if math.Abs(x) < 0.25 { // at a pole / on the antimeridian the small coordinate moves absolutely
				return x + float64(k)*1.1e-16
			}
			return vkit.Ulps(x, k)
		}
		switch rng.Intn(4) {
		case 0:
			q.X = bump(p.X)
		case 1:
			q.Y = bump(p.Y)
		case 2:
			q.Z = bump(p.Z)
		default:
			q.X, q.Y = bump(p.X), bump(p.Y)
		}
	}
	return q
}

// searchSubsampleUlps: polylines whose first, middle or last step is only 1-8 ulps long (3e-16..1e-15 rad),
// incl. two-vertex polylines, at the poles, on the antimeridian and after back-tracks; tolerances 1e-13..0.5 deg.
// Such a vertex is a different point (Go ==), so when it is the last one it must be kept.
func searchSubsampleUlps(c *vkit.Collector, rng *vkit.Rng, budget int, o *oracle) {
	for k := 0; k < 160*budget; k++ {
		pl, tol := ulpPolyline(rng, c)
		checkSubsample(c, o, pl, tol, fmt.Sprintf("S.subulp:%d:%g:%d", len(pl), tol, k))
	}
}

func ulpPolyline(rng *vkit.Rng, c *vkit.Collector) (s2.Polyline, float64) {
	var a s2.Point
	switch rng.Intn(5) {
	case 0:
		c.Class("polyline:ulp-step@pole")
		a = s2.Point{Vector: r3.Vector{X: 0, Y: 0, Z: rng.Pick([]float64{1, -1})}}
	case 1:
		c.Class("polyline:ulp-step@antimeridian")
		lat := rng.Range(-1.5, 1.5)
		a = s2.Point{Vector: r3.Vector{X: -math.Cos(lat), Y: rng.Pick([]float64{0, math.Copysign(0, -1), 1.2e-16, -1.2e-16}), Z: math.Sin(lat)}}
	default:
		c.Class("polyline:ulp-step")
		a = randPoint(rng)
	}
	step := math.Pow(10, -rng.Range(0.5, 6))
	b := nearPoint(rng, a, step*rng.Range(0.3, 1))
	d := nearPoint(rng, b, step*rng.Range(0.3, 1))
	e := nearPoint(rng, d, step*rng.Range(0.3, 1))
	u := func(p s2.Point) s2.Point { return ulpNeighbour(rng, p) }
	var pl s2.Polyline
	switch rng.Intn(10) {
	case 0:
		pl = s2.Polyline{a, u(a)} // two vertices a few ulps apart
	case 1:
		pl = s2.Polyline{b, d, a, u(a)} // tiny last step after a corner (at the pole / antimeridian when a is)
	case 2:
		pl = s2.Polyline{a, b, u(a)} // back-track ending a few ulps from the start
	case 3:
		pl = s2.Polyline{b, a, d, u(a)} // back-track to an ulp-neighbour of an earlier vertex, at the end
	case 4:
		pl = s2.Polyline{a, u(a), b, d} // tiny first step
	case 5:
		pl = s2.Polyline{b, a, u(a), d, e} // tiny step in the middle
	case 6:
		a2 := u(a)
		pl = s2.Polyline{a, a2, u(a2), u(a)} // nothing but ulp steps
	case 7:
		pl = s2.Polyline{b, d, e, a, a, u(a)} // exact duplicate, then an ulp step, at the end
	case 8:
		pl = s2.Polyline{a, u(a), a} // closes exactly; the middle vertex differs
	default:
		pl = s2.Polyline{d, b, a, u(a), u(a)}
	}
	tol := math.Pow(10, rng.Range(-13, math.Log10(0.5*math.Pi/180)))
	if rng.Intn(6) == 0 {
		tol = rng.Pick([]float64{1e-13, 0.5 * math.Pi / 180, 0, 1e-15, 1})
	}
	return pl, tol
}

func searchSnap(c *vkit.Collector, rng *vkit.Rng, budget int, o *oracle) {
	check := func(name string, level int, sf s2.CellIDSnapper) {
		radius := float64(sf.SnapRadius())
		for _, p := range snapPoints(rng, c, level) {
			q := sf.SnapPoint(p)
			c.Eval(fmt.Sprintf("S.cellsnap:%s:%x", name, math.Float64bits(p.X)), true)
			rep := map[string]interface{}{"snapper": name, "level": level, "p": []float64{p.X, p.Y, p.Z}, "p_hex": hv(p), "snap_radius": radius}
			d := vang(p.Vector, q.Vector)
			if d > radius*(1-1e-9)-1e-15 {
				rep["float64_distance"] = d
				o.add(pending{req: map[string]interface{}{"t": "ptedge", "p": hv(p), "edges": hedges([][2]s2.Point{{q, q}})},
					bound: radius, kind: map[bool]string{true: "NewCellIDSnapper.radius", false: "CellIDSnapper.SnapPoint.radius"}[name == "NewCellIDSnapper"],
					desc: fmt.Sprintf("%s moves a point by more than SnapRadius() = %g", name, radius), replay: rep, approx: d, exceedsFloat: d > radius})
			}
			// on the grid: q is the centre of a level-`level` cell, and it is the cell that contains p
			if s2.CellFromPoint(q).ID().Parent(level).Point() != q {
				c.Violate("CellIDSnapper.SnapPoint.grid", name+": result is not the centre of a cell of its level", rep)
			}
			if s2.CellFromPoint(q).ID().Parent(level) != s2.CellFromPoint(p).ID().Parent(level) {
				c.Violate("CellIDSnapper.SnapPoint.grid", name+": result is not in the cell containing the input", rep)
			}
		}
	}
	check("NewCellIDSnapper", s2.MaxLevel, s2.NewCellIDSnapper())
	for level := 0; level <= 30; level++ {
		for r := 0; r < budget; r++ {
			check(fmt.Sprintf("CellIDSnapperForLevel(%d)", level), level, s2.CellIDSnapperForLevel(level))
		}
	}
	for e := 0; e <= 10; e++ {
		sf := s2.NewIntLatLngSnapper(e)
		radius := float64(sf.SnapRadius())
		unit := math.Pow(10, -float64(e)) // degrees
		for r := 0; r < 3*budget; r++ {
			ps := snapPoints(rng, c, rng.Intn(31))
			// the far corner of a grid square (half a unit off in both coordinates), where the move is largest
			la, lo := math.Floor(rng.Range(-89, 89)/unit)*unit, math.Floor(rng.Range(-179, 179)/unit)*unit
			ps = append(ps, degPoint(la+unit*0.4999999, lo+unit*0.4999999), degPoint(unit*0.4999999, lo+unit*0.5000001))
			for _, p := range ps {
				q := sf.SnapPoint(p)
				c.Eval(fmt.Sprintf("S.llsnap:%d:%x", e, math.Float64bits(p.X)), true)
				rep := map[string]interface{}{"snapper": "IntLatLngSnapper", "exponent": e, "p": []float64{p.X, p.Y, p.Z}, "p_hex": hv(p), "snap_radius": radius,
					"p_latlng_deg": []float64{s2.LatLngFromPoint(p).Lat.Degrees(), s2.LatLngFromPoint(p).Lng.Degrees()},
					"q_latlng_deg": []float64{s2.LatLngFromPoint(q).Lat.Degrees(), s2.LatLngFromPoint(q).Lng.Degrees()}}
				d := vang(p.Vector, q.Vector)
				if d > radius*(1-1e-9)-1e-15 {
					rep["float64_distance"] = d
					o.add(pending{req: map[string]interface{}{"t": "ptedge", "p": hv(p), "edges": hedges([][2]s2.Point{{q, q}})},
						bound: radius, kind: "IntLatLngSnapper.SnapPoint", desc: fmt.Sprintf("IntLatLngSnapper(%d) moves a point by more than SnapRadius() = %g", e, radius), replay: rep, approx: d, exceedsFloat: d > radius})
				}
				// on the grid of 10^-e degrees: k*fl(10^-e) -> radians -> unit vector costs a few ulps of the angle
				// (<= ~1.1e-15 rad at |lng| = pi, i.e. 6.5e-14 deg), hence 10^e*2e-13 grid units of slack;
				// longitudes are compared along the parallel
				thr := 1e-9 + math.Pow(10, float64(e))*2e-13
				ll := s2.LatLngFromPoint(q)
				fl, fg := ll.Lat.Degrees()/unit, ll.Lng.Degrees()/unit
				off := math.Max(math.Abs(fl-math.RoundToEven(fl)), math.Abs(fg-math.RoundToEven(fg))*math.Cos(ll.Lat.Radians()))
				if off > thr/4 {
					o.add(pending{req: map[string]interface{}{"t": "deg", "p": hv(q), "e": e}, bound: thr, kind: "IntLatLngSnapper.SnapPoint",
						desc: fmt.Sprintf("IntLatLngSnapper(%d): result is not on the grid of 10^-%d degrees", e, e), replay: rep, approx: off, exceedsFloat: off > 2*thr})
				}
			}
		}
	}
}
