package main

import (
	_ "embed"
	"encoding/json"
	"fmt"
	"math"
	"os"
	"os/exec"
	"path/filepath"
	"strconv"
	"time"

	"github.com/golang/geo/r3"
	"github.com/golang/geo/s2"
)

//go:embed oracle.py
var oraclePy []byte

// A pending candidate: float64 arithmetic says the bound is exceeded (or is within 5% of it);
// the mpmath answer decides. bound already includes the documented slack.
type pending struct {
	req          map[string]interface{}
	bound        float64
	kind, desc   string
	replay       interface{}
	approx       float64
	exceedsFloat bool
}

type oracle struct {
	dir   string
	queue []pending
	max   int
	used  map[string]int
}

func hx(f float64) string { return strconv.FormatFloat(f, 'x', -1, 64) }
func hv(p s2.Point) []string {
	return []string{hx(p.X), hx(p.Y), hx(p.Z)}
}
func hedges(es [][2]s2.Point) [][][]string {
	out := [][][]string{}
	for _, e := range es {
		out = append(out, [][]string{hv(e[0]), hv(e[1])})
	}
	return out
}

func outDir() string {
	for i := 1; i+1 < len(os.Args); i++ {
		if os.Args[i] == "-out" {
			return os.Args[i+1]
		}
	}
	return "."
}

// add queues a candidate; every kind has its own quota so that one noisy kind cannot starve the others
func (o *oracle) add(p pending) {
	if o.used == nil {
		o.used = map[string]int{}
	}
	if o.used[p.kind] < o.max {
		o.used[p.kind]++
		o.queue = append(o.queue, p)
	}
}

// resolve runs the batch; returns for each queued candidate the high-precision value (NaN if unavailable).
func (o *oracle) resolve() ([]float64, string) {
	res := make([]float64, len(o.queue))
	for i := range res {
		res[i] = math.NaN()
	}
	if len(o.queue) == 0 {
		return res, "no candidates"
	}
	os.MkdirAll(o.dir, 0o755)
	script := filepath.Join(o.dir, "oracle.py")
	in, out := filepath.Join(o.dir, "oracle_in.json"), filepath.Join(o.dir, "oracle_out.json")
	os.WriteFile(script, oraclePy, 0o644)
	os.Remove(out)
	reqs := []map[string]interface{}{}
	for _, p := range o.queue {
		reqs = append(reqs, p.req)
	}
	data, _ := json.Marshal(reqs)
	os.WriteFile(in, data, 0o644)
	cmd := exec.Command("python3-vt", script, in, out)
	done := make(chan error, 1)
	if err := cmd.Start(); err != nil {
		return res, "python3-vt unavailable: " + err.Error()
	}
	go func() { done <- cmd.Wait() }()
	select {
	case err := <-done:
		if err != nil {
			return res, "oracle failed: " + err.Error()
		}
	case <-time.After(120 * time.Second):
		cmd.Process.Kill()
		return res, "oracle timed out"
	}
	var ans []string
	b, err := os.ReadFile(out)
	if err != nil || json.Unmarshal(b, &ans) != nil || len(ans) != len(res) {
		return res, "oracle output unreadable"
	}
	for i, a := range ans {
		if v, err := strconv.ParseFloat(a, 64); err == nil {
			res[i] = v
		}
	}
	return res, fmt.Sprintf("mpmath 60 digits, %d candidates", len(res))
}

// ---- float64 geometry of the harness (independent of the code under test) ----

func vdot(a, b r3.Vector) float64 { return a.X*b.X + a.Y*b.Y + a.Z*b.Z }
func vcross(a, b r3.Vector) r3.Vector {
	return r3.Vector{X: a.Y*b.Z - a.Z*b.Y, Y: a.Z*b.X - a.X*b.Z, Z: a.X*b.Y - a.Y*b.X}
}
func vnorm(a r3.Vector) float64 { return math.Sqrt(vdot(a, a)) }
func vunit(a r3.Vector) r3.Vector {
	n := vnorm(a)
	return r3.Vector{X: a.X / n, Y: a.Y / n, Z: a.Z / n}
}
func vang(a, b r3.Vector) float64 { return math.Atan2(vnorm(vcross(a, b)), vdot(a, b)) }

// distEdge is the angle from p to the geodesic edge cd (all roughly unit).
func distEdge(p, c, d r3.Vector) float64 {
	// (c+d) x (d-c) = 2 c x d, but stable for nearby endpoints (d-c is exact by Sterbenz' lemma)
	n := vcross(r3.Vector{X: c.X + d.X, Y: c.Y + d.Y, Z: c.Z + d.Z}, r3.Vector{X: d.X - c.X, Y: d.Y - c.Y, Z: d.Z - c.Z})
	if vnorm(n) == 0 {
		return math.Min(vang(p, c), vang(p, d))
	}
	m := vunit(n)
	h := vdot(p, m)
	q := r3.Vector{X: p.X - h*m.X, Y: p.Y - h*m.Y, Z: p.Z - h*m.Z}
	if vnorm(q) > 0 && vdot(vcross(c, q), m) >= 0 && vdot(vcross(q, d), m) >= 0 {
		return math.Asin(math.Min(1, math.Abs(h)/vnorm(p)))
	}
	return math.Min(vang(p, c), vang(p, d))
}
