// Observer for C20 (approximation operators stay within their declared tolerance).
// [T] bit-exact correspondence of the translated/modelled functions; [S] the property itself on
// the real implementation with harness-side geometry, every flagged candidate re-evaluated
// with mpmath at 60 digits before it is reported.
package main

import (
	"fmt"
	"math"

	"github.com/golang/geo/r2"
	"github.com/golang/geo/r3"
	"github.com/golang/geo/s1"
	"github.com/golang/geo/s2"
	"verifharness/internal/vkit"
)

func main() { vkit.Main("C20", []string{"Gen.Approx", "Model.Approx"}, run) }

// ---- Coq terms ----
func ptTerm(p s2.Point) string {
	return vkit.App("mk_s2_Point", vkit.App("mk_r3_Vector", vkit.F(p.X), vkit.F(p.Y), vkit.F(p.Z)))
}
func r2Term(p r2.Point) string { return vkit.App("mk_r2_Point", vkit.F(p.X), vkit.F(p.Y)) }
func pcTerm(scale float64) string {
	return vkit.App("pc_projection", vkit.App("new_plate_carree", vkit.F(scale)))
}
func ptList(ps []s2.Point) string {
	xs := []string{}
	for _, p := range ps {
		xs = append(xs, ptTerm(p))
	}
	return vkit.List(xs)
}
func r2List(ps []r2.Point) string {
	xs := []string{}
	for _, p := range ps {
		xs = append(xs, r2Term(p))
	}
	return vkit.List(xs)
}
func zList(is []int) string {
	xs := []string{}
	for _, i := range is {
		xs = append(xs, vkit.Z(int64(i)))
	}
	return vkit.List(xs)
}
// fuel for a chain of n vertices: the recursion is nearly balanced; by tessellation_result_independent_of_fuel
// any fuel that suffices gives the result of fuel 64, and a small one keeps a disagreeing case cheap
func fuelFor(n int) string {
	f := 8
	for m := n; m > 0; m >>= 1 {
		f++
	}
	return fmt.Sprintf("%d%%nat", f)
}

func someEq(eq, model, obs string) string {
	return fmt.Sprintf("(match %s with Some l => list_eqb %s l %s | None => false end)", model, eq, obs)
}

// ---- generators ----
func randPoint(rng *vkit.Rng) s2.Point {
	for {
		v := r3.Vector{X: rng.Range(-1, 1), Y: rng.Range(-1, 1), Z: rng.Range(-1, 1)}
		if n := v.Norm2(); n > 1e-4 && n <= 1 {
			return s2.Point{Vector: v.Normalize()}
		}
	}
}
func degPoint(lat, lng float64) s2.Point { return s2.PointFromLatLng(s2.LatLngFromDegrees(lat, lng)) }

// a point at angle d from p in a random direction
func nearPoint(rng *vkit.Rng, p s2.Point, d float64) s2.Point {
	o := s2.Ortho(p)
	o2 := s2.Point{Vector: p.Cross(o.Vector)}
	th := rng.Range(0, 2*math.Pi)
	dir := o.Mul(math.Cos(th)).Add(o2.Mul(math.Sin(th)))
	return s2.Point{Vector: p.Mul(math.Cos(d)).Add(dir.Mul(math.Sin(d))).Normalize()}
}

func pickScale(rng *vkit.Rng) float64 {
	switch rng.Intn(7) {
	case 0:
		return 1
	case 1:
		return 180
	case 2:
		return math.Pi
	case 3:
		return math.Ldexp(1, 30)
	case 4:
		return math.Ldexp(1, rng.Intn(31))
	default:
		return math.Exp(rng.Range(0, 30*math.Ln2))
	}
}
func pickTol(rng *vkit.Rng) float64 {
	switch rng.Intn(8) {
	case 0:
		return 1e-13
	case 1:
		return 1
	default:
		return math.Pow(10, -rng.Range(0, 13))
	}
}

// an edge of the class named; length limited so that the chain stays small for small tolerances
func pickEdge(rng *vkit.Rng, c *vkit.Collector, tol float64, merc bool) (s2.Point, s2.Point) {
	maxLen := math.Min(3.1, 600*math.Sqrt(tol))
	l := maxLen * rng.Float()
	maxLat := 89.9
	if merc {
		maxLat = 88
	}
	switch rng.Intn(6) {
	case 0: // antimeridian
		c.Class("edge:antimeridian")
		lat := rng.Range(-80, 80)
		ld := math.Min(l*180/math.Pi, 170)
		f := rng.Float()
		return degPoint(lat, 180-ld*f), degPoint(math.Max(-maxLat, math.Min(maxLat, lat+rng.Range(-1, 1)*ld)), -180+ld*(1-f))
	case 1: // equator crossing with opposite latitudes: the inflection case of the file comment
		c.Class("edge:equator-symmetric")
		lat := math.Min(l*90/math.Pi, 80) * rng.Float()
		lng := rng.Range(-180, 180)
		return degPoint(lat, lng), degPoint(-lat, lng+math.Min(l*90/math.Pi, 170)*rng.Float())
	case 2: // near a pole
		c.Class("edge:near-pole")
		s := 1.0
		if rng.Bool() {
			s = -1
		}
		a := degPoint(s*rng.Range(maxLat-5, maxLat), rng.Range(-180, 180))
		b := nearPoint(rng, a, math.Min(l, 0.08))
		if ll := s2.LatLngFromPoint(b); math.Abs(ll.Lat.Degrees()) > maxLat {
			b = degPoint(s*maxLat, ll.Lng.Degrees())
		}
		return a, b
	case 3: // same latitude (parallel): the classic worst case for plate carree
		c.Class("edge:parallel")
		lat := rng.Range(-maxLat+5, maxLat-5)
		lng := rng.Range(-180, 180)
		return degPoint(lat, lng), degPoint(lat, lng+math.Min(l*180/math.Pi, 175))
	default:
		c.Class("edge:random")
		a := randPoint(rng)
		if ll := s2.LatLngFromPoint(a); math.Abs(ll.Lat.Degrees()) > maxLat-3 {
			a = degPoint(ll.Lat.Degrees()/2, ll.Lng.Degrees())
		}
		b := nearPoint(rng, a, l)
		if ll := s2.LatLngFromPoint(b); math.Abs(ll.Lat.Degrees()) > maxLat {
			b = degPoint(math.Copysign(maxLat, ll.Lat.Degrees()), ll.Lng.Degrees())
		}
		return a, b
	}
}

func run(c *vkit.Collector, rng *vkit.Rng, budget int) {
	o := &oracle{dir: outDir(), max: 25 * budget}
	corrConsts(c)
	corrProjections(c, rng, budget)
	// a wrong wrapDestination makes the tessellator recurse without end (Go stack overflow): check it first
	wrapOK := searchWrap(c, rng, budget)
	if wrapOK {
		corrTessellation(c, rng, budget)
	}
	corrSubsample(c, rng, budget)
	corrSubsampleClamp(c, rng, budget)
	corrSubsampleUlps(c, rng, budget)
	corrSnap(c, rng, budget)
	if wrapOK {
		searchTessellation(c, rng, budget, o)
	}
	searchRoundTrip(c, rng, budget, o)
	searchPoles(c, rng, budget, o)
	corrMercator(c, rng, budget)
	searchSubsample(c, rng, budget, o)
	searchSnap(c, rng, budget, o)
	// high-precision decision on every queued candidate
	hp, note := o.resolve()
	c.Extra["oracle"] = note
	confirmed, cleared, undecided := 0, 0, 0
	for i, p := range o.queue {
		switch {
		case math.IsNaN(hp[i]):
			undecided++
			if p.exceedsFloat && p.approx > p.bound*1.01 {
				// mpmath unavailable: report only what float64 arithmetic shows clear of the bound by 1%
				c.Violate(p.kind, p.desc+fmt.Sprintf(" (float64 estimate %.6g > bound %.6g; high-precision oracle unavailable)", p.approx, p.bound), p.replay)
			}
		case hp[i] > p.bound:
			confirmed++
			c.Violate(p.kind, p.desc+fmt.Sprintf(" (high-precision value %.12g > bound %.12g)", hp[i], p.bound), p.replay)
		default:
			cleared++
		}
	}
	c.Extra["oracle_confirmed"], c.Extra["oracle_cleared"], c.Extra["oracle_undecided"] = confirmed, cleared, undecided
}

// ================= [T] =================

func corrConsts(c *vkit.Collector) {
	t1, t2, sc, mt := s2.VerifC20TessConsts()
	c.Check("tess consts", fmt.Sprintf("(fbiteq tess_t1 %s && fbiteq tess_t2 %s && fbiteq tess_scale %s && fbiteq tess_min_tol %s && fbiteq f_pi %s && fbiteq f_pi_2 %s)",
		vkit.F(t1), vkit.F(t2), vkit.F(sc), vkit.F(mt), vkit.F(math.Pi), vkit.F(math.Pi/2)))
	for _, tol := range []float64{0, -1, 1e-14, 1e-13, 1.0000001e-13, 1e-9, 1e-3, 1, 3, 4, math.Inf(1)} {
		e := s2.NewEdgeTessellator(s2.NewPlateCarreeProjection(1), s1.Angle(tol))
		c.Check(fmt.Sprintf("scaledTolerance %g", tol), vkit.App("fbiteq", vkit.App("scaledTolerance", vkit.F(tol)), vkit.F(float64(s2.VerifC20ScaledTolerance(e)))))
	}
}

func corrProjections(c *vkit.Collector, rng *vkit.Rng, budget int) {
	for k := 0; k < 120*budget; k++ {
		scale := pickScale(rng)
		pr := s2.NewPlateCarreeProjection(scale)
		var p s2.Point
		switch rng.Intn(5) {
		case 0:
			p = degPoint(rng.Pick([]float64{90, -90, 89.999999, 0, 45}), rng.Pick([]float64{180, -180, 179.9999999, 0, 90, -90}))
		case 1:
			p = s2.Point{Vector: r3.Vector{X: rng.Pick([]float64{0, 1, -1, 1e-300}), Y: rng.Pick([]float64{0, math.Copysign(0, -1), 1, -1e-17}), Z: rng.Pick([]float64{0, 1, -1, 1e-17})}}
		default:
			p = randPoint(rng)
		}
		q := pr.Project(p)
		key := fmt.Sprintf("pc %x %x %x %x", math.Float64bits(scale), math.Float64bits(p.X), math.Float64bits(p.Y), math.Float64bits(p.Z))
		c.Eval("proj:"+key, true)
		c.Check("pc.Project "+key, vkit.App("r2_Point_eqbits", vkit.App("proj_project", pcTerm(scale), ptTerm(p)), r2Term(q)))
		// a planar point, possibly outside the principal range (wrapping) but small enough for the trig model
		pt := r2.Point{X: scale * rng.Range(-3, 3), Y: scale * rng.Range(-0.5, 0.5)}
		if rng.Intn(4) == 0 {
			pt = r2.Point{X: scale * rng.Pick([]float64{1, -1, 3, 0, 0.5}), Y: scale * rng.Pick([]float64{0.5, -0.5, 0, 0.25})}
		}
		u := pr.Unproject(pt)
		c.Check("pc.Unproject "+key, vkit.App("s2_Point_eqbits", vkit.App("proj_unproject", pcTerm(scale), r2Term(pt)), ptTerm(u)))
		f := rng.Pick([]float64{0.5, 0.31215691082248312, 0, 1, 0.25, -0.5, 1.5})
		c.Check("pc.Interpolate "+key, vkit.App("r2_Point_eqbits", vkit.App("proj_interpolate", pcTerm(scale), vkit.F(f), r2Term(q), r2Term(pt)), r2Term(pr.Interpolate(f, q, pt))))
		c.Check("pc.WrapDestination "+key, vkit.App("r2_Point_eqbits", vkit.App("wrapDestination", vkit.App("proj_wrap", pcTerm(scale)), r2Term(q), r2Term(pt)), r2Term(pr.WrapDestination(q, pt))))
		// wrapDestination itself, both axes, wrapping off, negative wrap, ties at exactly half a wrap
		w := r2.Point{X: rng.Pick([]float64{0, 360, 2, -360, 2 * scale}), Y: rng.Pick([]float64{0, 0, 180, 1})}
		a := r2.Point{X: rng.Range(-400, 400), Y: rng.Range(-200, 200)}
		b := r2.Point{X: rng.Range(-400, 400), Y: rng.Range(-200, 200)}
		if rng.Intn(3) == 0 {
			b = r2.Point{X: a.X + rng.Pick([]float64{0.5, -0.5, 1.5, 1}) * w.X, Y: a.Y + rng.Pick([]float64{0.5, -0.5, 1}) * w.Y}
		}
		c.Check("wrapDestination "+key, vkit.App("r2_Point_eqbits", vkit.App("wrapDestination", r2Term(w), r2Term(a), r2Term(b)), r2Term(s2.VerifC20WrapDestination(a, b, w))))
	}
}

// Mercator [T]: math.Log / math.Exp are amd64 assembly without a model, so the one value each call produces is
// recomputed here exactly as the Go code does and handed to the model as a constant function; everything
// else (Sin, Asin, Remainder, the overflow branch, the multiplications) is bit-exact model against code.
func corrMercator(c *vkit.Collector, rng *vkit.Rng, budget int) {
	for k := 0; k < 60*budget; k++ {
		scale := rng.Pick([]float64{180, math.Pi, 1e6, 1, math.Ldexp(1, 30)})
		if rng.Intn(3) == 0 {
			scale = pickScale(rng)
		}
		pr := s2.NewMercatorProjection(scale)
		toRad := math.Pi / scale
		mT := vkit.App("new_plate_carree", vkit.F(scale))
		var y float64
		switch rng.Intn(6) {
		case 0:
			y = rng.Pick([]float64{math.Inf(1), math.Inf(-1), math.MaxFloat64, -1e300})
		case 1:
			y = rng.Pick([]float64{354.8, 354.9, 355, 400, -372, -373, -400, 18.5, 37}) * scale / math.Pi
		case 2:
			y = rng.Pick([]float64{0, math.Copysign(0, -1), 1e-300, -1e-17}) * scale
		default:
			y = scale * rng.Range(-3, 3)
		}
		pt := r2.Point{X: scale * rng.Range(-3, 3), Y: y}
		kk := math.Exp(2 * toRad * pt.Y)
		ll := pr.ToLatLng(pt)
		c.Class(map[bool]string{true: "mercator:exp-overflow/underflow", false: "mercator:finite"}[math.IsInf(kk, 0) || kk == 0])
		c.Eval(fmt.Sprintf("merc.ToLatLng:%x:%x", math.Float64bits(scale), math.Float64bits(pt.Y)), true)
		c.Check(fmt.Sprintf("merc.ToLatLng scale=%g y=%g", scale, pt.Y), vkit.App("s2_LatLng_eqbits",
			vkit.App("merc_ToLatLng", fmt.Sprintf("(fun _ => %s)", vkit.F(kk)), mT, r2Term(pt)),
			vkit.App("mk_s2_LatLng", vkit.F(float64(ll.Lat)), vkit.F(float64(ll.Lng)))))
		u := pr.Unproject(pt)
		c.Check(fmt.Sprintf("merc.Unproject scale=%g y=%g", scale, pt.Y), vkit.App("s2_Point_eqbits",
			vkit.App("proj_unproject", vkit.App("merc_projection", "(fun x => x)", fmt.Sprintf("(fun _ => %s)", vkit.F(kk)), mT), r2Term(pt)), ptTerm(u)))
		// FromLatLng, incl. the poles (log of +Inf and of 0)
		lat := rng.Range(-math.Pi/2, math.Pi/2)
		if rng.Intn(3) == 0 {
			lat = rng.Pick([]float64{math.Pi / 2, -math.Pi / 2, vkit.Ulps(math.Pi/2, -1), 1.5707963, 0, -1.57079632679})
		}
		in := s2.LatLng{Lat: s1.Angle(lat), Lng: s1.Angle(rng.Range(-math.Pi, math.Pi))}
		sinPhi := math.Sin(lat)
		lg := math.Log((1 + sinPhi) / (1 - sinPhi))
		q := pr.FromLatLng(in)
		c.Check(fmt.Sprintf("merc.FromLatLng scale=%g lat=%g", scale, lat), vkit.App("r2_Point_eqbits",
			vkit.App("merc_FromLatLng", fmt.Sprintf("(fun _ => %s)", vkit.F(lg)), mT, vkit.App("mk_s2_LatLng", vkit.F(lat), vkit.F(float64(in.Lng)))), r2Term(q)))
	}
}

func corrTessellation(c *vkit.Collector, rng *vkit.Rng, budget int) {
	for k := 0; k < 40*budget; k++ {
		scale := pickScale(rng)
		tol := math.Max(pickTol(rng), 1e-6)
		pr := s2.NewPlateCarreeProjection(scale)
		tess := s2.NewEdgeTessellator(pr, s1.Angle(tol))
		a, b := pickEdge(rng, c, tol/100, false)
		key := fmt.Sprintf("%x %g #%d", math.Float64bits(scale), tol, k)
		pa, pb := pr.Project(a), pr.WrapDestination(pr.Project(a), pr.Project(b))
		est := s2.VerifC20EstimateMaxError(tess, pa, a, pb, b)
		c.Check("estimateMaxError "+key, vkit.App("fbiteq", vkit.App("estimateMaxError", pcTerm(scale), r2Term(pa), ptTerm(a), r2Term(pb), ptTerm(b)), vkit.F(float64(est))))
		thr := vkit.App("scaledTolerance", vkit.F(tol))
		if k%2 == 0 {
			vs := tess.AppendProjected(a, b, nil)
			if len(vs) <= 260 {
				c.Eval("tessP:"+key, len(vs) > 2)
				c.Check("AppendProjected "+key, someEq("r2_Point_eqbits", vkit.App("AppendProjected", fuelFor(len(vs)), pcTerm(scale), thr, ptTerm(a), ptTerm(b), "[]"), r2List(vs)))
				// appending to a non-empty chain wraps the first vertex relative to the last one
				pre := []r2.Point{{X: pa.X + 2*scale*float64(rng.Intn(3)-1), Y: pa.Y}}
				vs2 := tess.AppendProjected(a, b, append([]r2.Point{}, pre...))
				c.Check("AppendProjected(nonempty) "+key, someEq("r2_Point_eqbits", vkit.App("AppendProjected", fuelFor(len(vs2)), pcTerm(scale), thr, ptTerm(a), ptTerm(b), r2List(pre)), r2List(vs2)))
			}
		} else {
			qa := pa
			qb := pr.Project(b)
			vs := tess.AppendUnprojected(qa, qb, nil)
			if len(vs) <= 260 {
				c.Eval("tessU:"+key, len(vs) > 2)
				c.Check("AppendUnprojected "+key, someEq("s2_Point_eqbits", vkit.App("AppendUnprojected", fuelFor(len(vs)), pcTerm(scale), thr, r2Term(qa), r2Term(qb), "[]"), ptList(vs)))
			}
		}
	}
}

func randPolyline(rng *vkit.Rng, c *vkit.Collector, n int, step float64) s2.Polyline {
	pl := s2.Polyline{randPoint(rng)}
	dirBase := rng.Range(0, 2*math.Pi)
	for len(pl) < n {
		last := pl[len(pl)-1]
		switch rng.Intn(10) {
		case 0: // duplicate vertex
			c.Class("polyline:duplicate")
			pl = append(pl, last)
		case 1: // back-track to an earlier vertex
			c.Class("polyline:backtrack")
			pl = append(pl, pl[rng.Intn(len(pl))])
		case 2: // long edge
			c.Class("polyline:long-edge")
			pl = append(pl, nearPoint(rng, last, rng.Range(1.2, 3)))
		case 3: // tiny wiggle
			pl = append(pl, nearPoint(rng, last, step*1e-3*rng.Float()))
		default: // roughly straight ahead with jitter
			o := s2.Ortho(last)
			o2 := s2.Point{Vector: last.Cross(o.Vector)}
			th := dirBase + rng.Range(-0.3, 0.3)
			dir := o.Mul(math.Cos(th)).Add(o2.Mul(math.Sin(th)))
			d := step * rng.Range(0.2, 1)
			pl = append(pl, s2.Point{Vector: last.Mul(math.Cos(d)).Add(dir.Mul(math.Sin(d))).Normalize()})
		}
	}
	return pl
}

func corrSubsample(c *vkit.Collector, rng *vkit.Rng, budget int) {
	for k := 0; k < 60*budget; k++ {
		n := rng.Intn(12)
		var pl s2.Polyline
		if n > 0 {
			step := math.Pow(10, -rng.Range(0.3, 6))
			pl = randPolyline(rng, c, n, step)
		}
		tol := rng.Pick([]float64{0, -1, 1e-13, 1e-7, 1e-4, 1e-2, 0.1, 1, 2})
		if rng.Bool() {
			tol = math.Pow(10, -rng.Range(0, 8))
		}
		idx := pl.SubsampleVertices(s1.Angle(tol))
		key := fmt.Sprintf("n=%d tol=%g #%d", n, tol, k)
		c.Eval("subsample:"+key, len(idx) < n)
		c.Check("SubsampleVertices "+key, someEq("Z.eqb", vkit.App("SubsampleVertices", ptList(pl), vkit.F(tol)), zList(idx)))
		if n > 1 {
			i0 := rng.Intn(n - 1)
			ct := math.Max(tol, 0)
			c.Check("findEndVertex "+key, vkit.App("Z.eqb", vkit.App("findEndVertex", ptList(pl), vkit.F(ct), vkit.Z(int64(i0))), vkit.Z(int64(s2.VerifC20FindEndVertex(pl, s1.Angle(ct), i0)))))
			dx, dy := s2.VerifC20FrameDirection(pl[i0], pl[i0+1])
			c.Check("frame "+key, fmt.Sprintf("(fbiteq (r3_Vector_Dot (s2_Point_Vector (frame_col0 %s)) (s2_Point_Vector %s)) %s && fbiteq (r3_Vector_Dot (s2_Point_Vector (frame_col1 %s)) (s2_Point_Vector %s)) %s)",
				ptTerm(pl[i0]), ptTerm(pl[i0+1]), vkit.F(dx), ptTerm(pl[i0]), ptTerm(pl[i0+1]), vkit.F(dy)))
		}
	}
}

// negative tolerances must behave exactly like tolerance 0 (the clamp): visible on repeated vertices,
// where tolerance 0 keeps the one-point wedge and a negative tolerance would empty it
func corrSubsampleClamp(c *vkit.Collector, rng *vkit.Rng, budget int) {
	for k := 0; k < 30*budget; k++ {
		a := randPoint(rng)
		b := nearPoint(rng, a, math.Pow(10, -rng.Range(0.5, 4)))
		d := nearPoint(rng, b, math.Pow(10, -rng.Range(0.5, 4)))
		pls := []s2.Polyline{{a, b, b}, {a, b, b, d}, {a, a, b, b, d, d}, {a, b, b, b, a}, {a, b, d, d, b}}
		pl := pls[rng.Intn(len(pls))]
		tol := rng.Pick([]float64{-1, -1e-9, -1e-3, -1e-300, math.Copysign(0, -1), 0, -0.5, math.Inf(-1)})
		idx := pl.SubsampleVertices(s1.Angle(tol))
		idx0 := pl.SubsampleVertices(0)
		c.Class("polyline:repeated-vertex/negative-tolerance")
		c.Eval(fmt.Sprintf("clamp:%d:%g:%d", len(pl), tol, k), true)
		if fmt.Sprint(idx) != fmt.Sprint(idx0) {
			c.Violate("Polyline.SubsampleVertices.clamp", fmt.Sprintf("tolerance %g gives %v, tolerance 0 gives %v", tol, idx, idx0), map[string]interface{}{"polyline": pl, "tolerance": fmt.Sprint(tol)})
		}
		c.Check(fmt.Sprintf("SubsampleVertices(clamp) tol=%g #%d", tol, k), someEq("Z.eqb", vkit.App("SubsampleVertices", ptList(pl), vkit.F(tol)), zList(idx)))
	}
}

// [T] on polylines with steps of a few ulps (Go's != keeps such a vertex, ApproxEqual would not)
func corrSubsampleUlps(c *vkit.Collector, rng *vkit.Rng, budget int) {
	for k := 0; k < 40*budget; k++ {
		pl, tol := ulpPolyline(rng, c)
		idx := pl.SubsampleVertices(s1.Angle(tol))
		c.Eval(fmt.Sprintf("subulp:%d:%g:%d", len(pl), tol, k), true)
		c.Check(fmt.Sprintf("SubsampleVertices(ulp steps) n=%d tol=%g #%d", len(pl), tol, k), someEq("Z.eqb", vkit.App("SubsampleVertices", ptList(pl), vkit.F(tol)), zList(idx)))
	}
}

func snapPoints(rng *vkit.Rng, c *vkit.Collector, level int) []s2.Point {
	ps := []s2.Point{randPoint(rng)}
	// cell corners and edge midpoints (farthest from the centre), face boundaries, poles, +-180
	id := s2.CellFromPoint(randPoint(rng)).ID().Parent(level)
	cell := s2.CellFromCellID(id)
	v := cell.Vertex(rng.Intn(4))
	c.Class("snap:cell-corner")
	ps = append(ps, v, nearPoint(rng, v, 1e-9*rng.Float()))
	c.Class("snap:face-corner/boundary")
	s := 1 / math.Sqrt(3)
	ps = append(ps, s2.Point{Vector: r3.Vector{X: s, Y: rng.Pick([]float64{s, -s}), Z: rng.Pick([]float64{s, -s})}},
		s2.Point{Vector: r3.Vector{X: 1, Y: 1, Z: rng.Range(-1, 1)}.Normalize()})
	c.Class("snap:pole/antimeridian")
	ps = append(ps, degPoint(rng.Pick([]float64{90, -90, 89.9999999, -89.99}), rng.Range(-180, 180)),
		degPoint(rng.Range(-90, 90), rng.Pick([]float64{180, -180, 179.99999999, -179.5})))
	return ps
}

// snapSome: five of the adversarial points per unit of budget
func snapSome(rng *vkit.Rng, c *vkit.Collector, level, budget int) []s2.Point {
	out := []s2.Point{}
	for r := 0; r < budget; r++ {
		ps := snapPoints(rng, c, level)
		off := rng.Intn(len(ps))
		for k := 0; k < 5; k++ {
			out = append(out, ps[(off+k)%len(ps)])
		}
	}
	return out
}

func corrSnap(c *vkit.Collector, rng *vkit.Rng, budget int) {
	dl, dr := s2.VerifC20CellIDSnapperFields(s2.NewCellIDSnapper())
	c.Check("NewCellIDSnapper", vkit.App("s2_CellIDSnapper_eqbits", "s2_NewCellIDSnapper", vkit.App("mk_s2_CellIDSnapper", vkit.Z(int64(dl)), vkit.F(float64(dr)))))
	for level := 0; level <= 30; level++ {
		sf := s2.CellIDSnapperForLevel(level)
		l, r := s2.VerifC20CellIDSnapperFields(sf)
		c.Check(fmt.Sprintf("CellIDSnapperForLevel %d", level), vkit.App("s2_CellIDSnapper_eqbits", vkit.App("s2_CellIDSnapperForLevel", vkit.Z(int64(level))), vkit.App("mk_s2_CellIDSnapper", vkit.Z(int64(l)), vkit.F(float64(r)))))
		for _, rr := range []float64{float64(r), vkit.Ulps(float64(r), -1), float64(r) * 1.5, float64(r) * 2.1} {
			c.Check(fmt.Sprintf("levelForMaxSnapRadius %d", level), vkit.App("Z.eqb", vkit.App("s2_CellIDSnapper_levelForMaxSnapRadius", "s2_NewCellIDSnapper", vkit.F(rr)), vkit.Z(int64(s2.VerifC20LevelForMaxSnapRadius(s1.Angle(rr))))))
		}
		for _, p := range snapSome(rng, c, level, budget) {
			q := sf.SnapPoint(p)
			c.Eval(fmt.Sprintf("cellsnap:%d:%x", level, math.Float64bits(p.X)), true)
			c.Check(fmt.Sprintf("CellIDSnapper.SnapPoint level %d", level), vkit.App("s2_Point_eqbits", vkit.App("cellid_snap", vkit.Z(int64(level)), ptTerm(p)), ptTerm(q)))
		}
	}
	for e := 0; e <= 10; e++ {
		sf := s2.NewIntLatLngSnapper(e)
		ex, r, from, to := s2.VerifC20IntLatLngSnapperFields(sf)
		sfT := vkit.App("s2_NewIntLatLngSnapper", vkit.Z(int64(e)))
		c.Check(fmt.Sprintf("NewIntLatLngSnapper %d", e), vkit.App("s2_IntLatLngSnapper_eqbits", sfT, vkit.App("mk_s2_IntLatLngSnapper", vkit.Z(int64(ex)), vkit.F(float64(r)), vkit.F(float64(from)), vkit.F(float64(to)))))
		for _, p := range snapSome(rng, c, rng.Intn(31), budget) {
			q := sf.SnapPoint(p)
			c.Eval(fmt.Sprintf("llsnap:%d:%x", e, math.Float64bits(p.X)), true)
			c.Check(fmt.Sprintf("IntLatLngSnapper.SnapPoint e=%d", e), vkit.App("s2_Point_eqbits", vkit.App("s2_IntLatLngSnapper_SnapPoint", sfT, ptTerm(p)), ptTerm(q)))
		}
	}
	// math.RoundToEven (translated from the toolchain): bit-exact, ties, large values, signed zeros
	for k := 0; k < 150*budget; k++ {
		var x float64
		switch rng.Intn(5) {
		case 0:
			x = float64(rng.Intn(2000)-1000) + 0.5
		case 1:
			x = rng.Range(-1, 1) * math.Pow(10, rng.Range(-3, 13))
		case 2:
			x = vkit.Ulps(float64(rng.Intn(100))+0.5, rng.Intn(3)-1)
		case 3:
			x = rng.Pick([]float64{0, math.Copysign(0, -1), 0.5, -0.5, 0.49999999999999994, 1.5, 2.5, 4503599627370495.5, 4503599627370496, 9e15, -6e15})
			// |x| >= 2^53 is left out: the translated code then shifts by a wrapped-around count (0 in Go), which
			// Base/GoPrim.go_shr evaluates by iterating the count (does not terminate in practice)
		default:
			x = rng.Range(-1e6, 1e6)
		}
		c.Check(fmt.Sprintf("RoundToEven %x", math.Float64bits(x)), vkit.App("fbiteq", vkit.App("math_RoundToEven", vkit.F(x)), vkit.F(math.RoundToEven(x))))
	}
}
