package main

// [S] checks of s2.CellIndex (range / non-empty-range / contents iterators) and of
// s2intersect.Find against the leaf-interval oracle.

import (
	"fmt"
	"math/bits"
	"sort"
	"strings"

	"github.com/golang/geo/s2"
	"github.com/golang/geo/s2/s2intersect"
)

type cl struct {
	id    uint64
	label int32
}

func sortCL(v []cl) []cl {
	out := append([]cl{}, v...)
	sort.Slice(out, func(i, j int) bool {
		if out[i].id != out[j].id {
			return out[i].id < out[j].id
		}
		return out[i].label < out[j].label
	})
	return out
}
func eqCL(a, b []cl) bool {
	if len(a) != len(b) {
		return false
	}
	for i := range a {
		if a[i] != b[i] {
			return false
		}
	}
	return true
}
func clRep(v []cl) []string {
	out := make([]string, len(v))
	for i, p := range v {
		out[i] = fmt.Sprintf("0x%016x:%d", p.id, p.label)
	}
	return out
}

// covering: the added pairs whose cell contains the given leaf, as a sorted multiset
func covering(pairs []cl, leaf uint64) []cl {
	var out []cl
	for _, p := range pairs {
		if oLeafMin(p.id) <= leaf && leaf <= oLeafMax(p.id) {
			out = append(out, p)
		}
	}
	return sortCL(out)
}

type rangeObs struct {
	start, limit uint64
	empty        bool
	want         []cl
}

func (s *S) index1() {
	c, g := s.c, s.g
	// ---- input: (cell, label) pairs ----
	var pairs []cl
	class := ""
	switch g.n(6) {
	case 0:
		class = "one-label-per-cell"
		ids, _ := g.union(40)
		for i, id := range ids {
			pairs = append(pairs, cl{id, int32(i)})
		}
	case 1:
		class = "few-labels(duplicate pairs)"
		ids, _ := g.union(40)
		for _, id := range ids {
			pairs = append(pairs, cl{id, int32(g.n(3))})
		}
	case 2:
		class = "several-labels-per-cell"
		ids, _ := g.union(15)
		for _, id := range ids {
			for k, n := 0, 1+g.n(4); k < n; k++ {
				pairs = append(pairs, cl{id, int32(g.n(4))})
			}
		}
	case 3:
		class = "labelled-unions"
		d := 2
		base := g.cellUpTo(28)
		for l, n := 0, 2+g.n(4); l < n; l++ {
			for _, id := range canonical(g.tinySet(base, d)) {
				pairs = append(pairs, cl{id, int32(l)})
			}
		}
	case 4:
		class = "nested-chains"
		for k, n := 0, 1+g.n(4); k < n; k++ {
			for _, id := range g.unionOf("chain", 12) {
				pairs = append(pairs, cl{id, int32(g.n(5))})
			}
		}
	default:
		class = "empty-or-tiny"
		for k, n := 0, g.n(3); k < n; k++ {
			pairs = append(pairs, cl{g.cell(g.level()), int32(g.n(2))})
		}
	}
	if len(pairs) > 60 {
		pairs = pairs[:60]
	}
	c.Class("index:" + class)
	c.Eval(keyOfCL("index", pairs), len(pairs) >= 2)
	rep := map[string]interface{}{"pairs(cell:label)": clRep(pairs), "class": class}
	s.cur = rep

	method := "Add"
	defer func() {
		if r := recover(); r != nil {
			c.Violate("CellIndex."+method+".panic", fmt.Sprintf("panic in legal use of the cell index: %v", r), rep)
		}
	}()
	idx := &s2.CellIndex{}
	var added []cl // in the order Add was called
	if g.n(2) == 0 {
		for _, p := range pairs {
			idx.Add(s2.CellID(p.id), p.label)
			added = append(added, p)
		}
	} else {
		// AddCellUnion per label (same multiset of pairs)
		byLabel := map[int32][]uint64{}
		var labels []int32
		for _, p := range pairs {
			if _, ok := byLabel[p.label]; !ok {
				labels = append(labels, p.label)
			}
			byLabel[p.label] = append(byLabel[p.label], p.id)
		}
		for _, l := range labels {
			idx.AddCellUnion(toCU(byLabel[l]), l)
			for _, id := range byLabel[l] {
				added = append(added, cl{id, l})
			}
		}
	}
	method = "Build"
	idx.Build()
	method = "correspondence"
	s.tIndex(idx, added)
	all := sortCL(pairs)

	// ---- (a) the plain range iterator enumerates consecutive leaf ranges from the first leaf
	// to the sentinel; contents of each range = pairs whose cell contains the range ----
	method = "RangeIterator"
	r := s2.NewCellIndexRangeIterator(idx)
	var ranges []rangeObs
	for r.Begin(); !r.Done(); r.Next() {
		ranges = append(ranges, rangeObs{start: uint64(r.StartID()), limit: uint64(r.LimitID()), empty: r.IsEmpty()})
		if len(ranges) > 2*len(pairs)+4 {
			c.Violate("CellIndex.RangeIterator", "more leaf ranges than cell boundaries", rep)
			return
		}
	}
	if uint64(r.StartID()) != sentinelLeaf || !r.IsEmpty() {
		c.Violate("CellIndex.RangeIterator", "StartID() of a done iterator is not the end sentinel (or IsEmpty() false when done)", rep)
	}
	if len(ranges) == 0 || ranges[0].start != firstLeaf || ranges[len(ranges)-1].limit != sentinelLeaf {
		c.Violate("CellIndex.RangeIterator", "the ranges do not run from the first leaf cell to the end sentinel", rep)
		return
	}
	for k := range ranges {
		rg := &ranges[k]
		if rg.start >= rg.limit || rg.start&1 == 0 || rg.limit&1 == 0 || (k > 0 && ranges[k-1].limit != rg.start) {
			c.Violate("CellIndex.RangeIterator", "leaf ranges are not consecutive, non-empty, leaf-aligned", rep)
			return
		}
		rg.want = covering(pairs, rg.start)
		if !eqCL(rg.want, covering(pairs, rg.limit-2)) {
			c.Violate("CellIndex.RangeIterator", fmt.Sprintf("range [%x,%x) is not homogeneous: first and last leaf are covered by different pairs", rg.start, rg.limit), rep)
			return
		}
		for _, p := range pairs {
			for _, bnd := range []uint64{oLeafMin(p.id), oLeafMax(p.id) + 2} {
				if rg.start < bnd && bnd < rg.limit {
					c.Violate("CellIndex.RangeIterator", fmt.Sprintf("a cell boundary %x lies strictly inside range [%x,%x)", bnd, rg.start, rg.limit), rep)
					return
				}
			}
		}
		if rg.empty != (len(rg.want) == 0) {
			c.Violate("CellIndex.RangeIterator", fmt.Sprintf("IsEmpty()=%v on range [%x,%x) covered by %d pairs", rg.empty, rg.start, rg.limit, len(rg.want)), rep)
		}
	}
	N := len(ranges)

	// contents of every range with a fresh iterator, and with one iterator + Clear()
	method = "ContentsIterator"
	readAll := func(ci *s2.CellIndexContentsIterator, r *s2.CellIndexRangeIterator) []cl {
		var got []cl
		for ci.StartUnion(r); !ci.Done(); ci.Next() {
			got = append(got, cl{uint64(ci.CellID()), ci.Label()})
			if len(got) > len(pairs)+1 {
				break
			}
		}
		return got
	}
	cleared := s2.NewCellIndexContentsIterator(idx)
	k := 0
	for r.Begin(); !r.Done(); r.Next() {
		fresh := readAll(s2.NewCellIndexContentsIterator(idx), r)
		if !eqCL(sortCL(fresh), ranges[k].want) {
			c.Violate("CellIndex.Contents", fmt.Sprintf("fresh contents iterator on range [%x,%x): got %v, want %v", ranges[k].start, ranges[k].limit, clRep(sortCL(fresh)), clRep(ranges[k].want)), rep)
			return
		}
		cleared.Clear()
		if got := readAll(cleared, r); !eqCL(sortCL(got), ranges[k].want) {
			c.Violate("CellIndex.Contents", fmt.Sprintf("contents iterator after Clear() on range [%x,%x): got %v, want %v", ranges[k].start, ranges[k].limit, clRep(sortCL(got)), clRep(ranges[k].want)), rep)
			return
		}
		k++
	}
	// decreasing order with a shared iterator: documented to fall back to full reporting of at
	// least every pair ("each result will be reported at least once")
	{
		shared := s2.NewCellIndexContentsIterator(idx)
		var seen []cl
		r.Finish()
		for r.Prev() {
			seen = append(seen, readAll(shared, r)...)
		}
		have := map[cl]int{}
		for _, p := range seen {
			have[p]++
		}
		for _, p := range all {
			if have[p] == 0 {
				c.Violate("CellIndex.Contents", "a (cell,label) pair is never reported in a decreasing sweep with a shared contents iterator", rep)
				break
			}
		}
	}

	// (a') union sweeps with ONE shared contents iterator over increasing ranges: every pair
	// that covers a visited range is reported exactly once in total
	sweep := func(name string, visit func(k int) bool, it *s2.CellIndexRangeIterator) {
		shared := s2.NewCellIndexContentsIterator(idx)
		var got, want []cl
		wantSet := map[int]bool{}
		for it.Begin(); !it.Done(); it.Next() {
			k := sort.Search(N, func(i int) bool { return ranges[i].start >= uint64(it.StartID()) })
			if k >= N || ranges[k].start != uint64(it.StartID()) {
				c.Violate("CellIndex."+name, "iterator positioned at an unknown range", rep)
				return
			}
			if !visit(k) {
				continue
			}
			part := readAll(shared, it)
			for _, p := range part {
				if !(oLeafMin(p.id) <= ranges[k].start && ranges[k].limit-2 <= oLeafMax(p.id)) {
					c.Violate("CellIndex."+name, "a reported (cell,label) pair does not cover the current range", rep)
					return
				}
			}
			got = append(got, part...)
			for i, p := range pairs {
				if oLeafMin(p.id) <= ranges[k].start && ranges[k].start <= oLeafMax(p.id) {
					wantSet[i] = true
				}
			}
		}
		for i, p := range pairs {
			if wantSet[i] {
				want = append(want, p)
			}
		}
		if !eqCL(sortCL(got), sortCL(want)) {
			c.Violate("CellIndex."+name, fmt.Sprintf("increasing sweep with a shared contents iterator: got %v, want each covering pair exactly once %v", clRep(sortCL(got)), clRep(sortCL(want))), rep)
		}
	}
	sweep("UnionSweep", func(int) bool { return true }, s2.NewCellIndexRangeIterator(idx))
	sweep("UnionSweep", func(int) bool { return true }, s2.NewCellIndexNonEmptyRangeIterator(idx))
	skip := make([]bool, N)
	for i := range skip {
		skip[i] = g.n(3) == 0
	}
	sweep("UnionSweep", func(k int) bool { return !skip[k] }, s2.NewCellIndexRangeIterator(idx))

	// ---- (b) the non-empty iterator visits exactly the non-empty ranges, in order ----
	method = "NonEmptyRangeIterator"
	var nonEmpty []int // indices into ranges
	for k := range ranges {
		if len(ranges[k].want) > 0 {
			nonEmpty = append(nonEmpty, k)
		}
	}
	ne := s2.NewCellIndexNonEmptyRangeIterator(idx)
	j := 0
	for ne.Begin(); !ne.Done(); ne.Next() {
		if j >= len(nonEmpty) || uint64(ne.StartID()) != ranges[nonEmpty[j]].start || uint64(ne.LimitID()) != ranges[nonEmpty[j]].limit || ne.IsEmpty() {
			c.Violate("CellIndex.NonEmptyRangeIterator", "the non-empty range iterator does not visit exactly the non-empty ranges in order", rep)
			return
		}
		j++
	}
	if j != len(nonEmpty) {
		c.Violate("CellIndex.NonEmptyRangeIterator", "the non-empty range iterator stops before the last non-empty range", rep)
		return
	}

	// ---- Seek / Prev / Next / Advance / Finish against the enumeration ----
	method = "Seek"
	it := s2.NewCellIndexRangeIterator(idx)
	it2 := s2.NewCellIndexNonEmptyRangeIterator(idx)
	at := func(x *s2.CellIndexRangeIterator, k int) bool { // positioned at ranges[k] (k == N: done)
		if k == N {
			return x.Done() && uint64(x.StartID()) == sentinelLeaf
		}
		return !x.Done() && uint64(x.StartID()) == ranges[k].start && uint64(x.LimitID()) == ranges[k].limit
	}
	nextNonEmpty := func(k int) int { // first non-empty range index >= k, or N
		for ; k < N; k++ {
			if len(ranges[k].want) > 0 {
				return k
			}
		}
		return N
	}
	prevNonEmpty := func(k int) int { // last non-empty range index < k, or -1
		for k--; k >= 0; k-- {
			if len(ranges[k].want) > 0 {
				return k
			}
		}
		return -1
	}
	step := 1
	if N > 40 {
		step = 3
	}
	for k := g.n(step); k < N; k += step {
		targets := []uint64{ranges[k].start, ranges[k].limit - 2}
		if span := (ranges[k].limit - ranges[k].start) / 2; span > 2 {
			targets = append(targets, ranges[k].start+2*(g.r.U64()%span))
		}
		for _, tg := range targets {
			desc := fmt.Sprintf("target leaf %x in range #%d [%x,%x)", tg, k, ranges[k].start, ranges[k].limit)
			method = "Seek"
			it.Seek(s2.CellID(tg))
			if !at(it, k) {
				c.Violate("CellIndex.Seek", "Seek does not position the range iterator at the range containing the target: "+desc, rep)
				return
			}
			it2.Seek(s2.CellID(tg))
			nk := nextNonEmpty(k)
			if !at(it2, nk) {
				c.Violate("CellIndex.Seek", "Seek on the non-empty iterator is not at the first non-empty range at or after the target: "+desc, rep)
				return
			}
			method = "Prev"
			ok := it.Prev()
			if ok != (k > 0) || (ok && !at(it, k-1)) || (!ok && !at(it, k)) {
				c.Violate("CellIndex.Prev", "Prev on the range iterator: wrong result or position after "+desc, rep)
				return
			}
			if ok {
				it.Next()
				if !at(it, k) {
					c.Violate("CellIndex.Next", "Next after Prev does not return to the range: "+desc, rep)
					return
				}
			}
			pk := prevNonEmpty(nk)
			ok = it2.Prev()
			if ok != (pk >= 0) || (ok && !at(it2, pk)) || (!ok && !at(it2, nk)) {
				c.Violate("CellIndex.Prev", "Prev on the non-empty iterator: wrong result or position after "+desc, rep)
				return
			}
			method = "Advance"
			it.Seek(s2.CellID(tg))
			n := g.n(N + 2)
			ok = it.Advance(n)
			if ok != (k+n < N) || (ok && !at(it, k+n)) || (!ok && !at(it, k)) {
				c.Violate("CellIndex.Advance", fmt.Sprintf("Advance(%d) wrong result or position after %s", n, desc), rep)
				return
			}
		}
	}
	method = "Finish"
	it.Begin()
	it.Finish()
	it2.Begin()
	it2.Finish()
	if !at(it, N) || !at(it2, N) {
		c.Violate("CellIndex.Finish", "Finish does not leave the iterator done at the end sentinel", rep)
	}
	if ok := it.Prev(); ok != (N > 0) || !at(it, N-1) {
		c.Violate("CellIndex.Prev", "Prev from the done position does not reach the last range", rep)
	}
	c.Sample(map[string]interface{}{"op": "CellIndex", "class": class, "pairs": len(pairs), "ranges": N, "non_empty": len(nonEmpty)})
}

func keyOfCL(tag string, pairs []cl) string {
	ids := make([]uint64, 0, 2*len(pairs))
	for _, p := range pairs {
		ids = append(ids, p.id, uint64(p.label))
	}
	return keyOf(tag, ids)
}

// ---- s2intersect.Find ----
//
// Documented semantics (doc comment of Find and TestFind/TestFindLeaves/TestEmptyOutput): Find
// normalizes its inputs and returns disjoint intersections: the Intersection with Indices S
// (|S| >= 2, sorted) holds exactly the cells covered by precisely the unions in S and by no
// other input union ("each area of the Venn diagram receives only one label"); only index
// sets with a non-empty region are returned; no index set is returned twice; each
// Intersection cell union is normalized.  That is what is compared against the leaf sets.
func (s *S) find1() { s.findCase(nil) }

// findFixed: small fixed inputs that every run checks first.
func (s *S) findFixed() {
	p := faceCell(0)
	k := kids(p)
	a := uint64(0x6b12b00000000001)
	b := nextSame(a)
	for _, in := range [][][]uint64{
		{{p}, {p}, {k[0], k[1]}, {k[2], k[3]}}, // {0,1} has no exclusive region
		{{a, b}, {a, b}, {a}, {b}},
		{{p}, {k[1]}},
		{{k[0], k[1]}, {k[1], k[2]}, {k[2], k[3]}},
		{{a}, {b}},
		{{}, {a}},
	} {
		s.findCase(in)
	}
}

func (s *S) findCase(fixed [][]uint64) {
	g := s.g
	n := 2 + g.n(5)
	sel := g.n(5)
	if fixed != nil {
		n, sel = len(fixed), -1
	}
	raw := make([][]uint64, n)
	class := ""
	switch sel {
	case -1:
		class = "fixed"
		copy(raw, fixed)
	case 0, 1:
		class = "tiny-same-base"
		d := 2 + g.n(2)
		base := g.cellUpTo(30 - d)
		for i := range raw {
			raw[i] = canonical(g.tinySet(base, d))
		}
	case 2:
		class = "tiny-mixed-bases"
		base := g.cellUpTo(26)
		for i := range raw {
			b := base
			switch g.n(4) {
			case 0:
				b = kids(base)[g.n(4)]
			case 1:
				if !oIsFace(base) {
					b = par(base)
				}
			case 2:
				if q := nextSame(base); oValid(q) {
					b = q
				}
			}
			raw[i] = canonical(g.tinySet(b, 2))
		}
	case 3:
		class = "related-unions"
		raw[0], _ = g.union(20)
		for i := 1; i < n; i++ {
			src := raw[g.n(i)]
			for _, id := range src {
				if g.n(3) != 0 {
					raw[i] = g.relatives(id, raw[i], 1)
				}
			}
			raw[i] = trunc(raw[i], 30)
		}
	default:
		class = "independent(+faces)"
		for i := range raw {
			raw[i], _ = g.union(15)
			if g.n(4) == 0 {
				raw[i] = append(raw[i], faceCell(g.n(6)))
			}
		}
	}
	roughInput := fixed == nil && g.n(3) == 0
	s.findCheck(raw, class, roughInput)
}

// idxKey: an injective key for a sorted index list (with separators).
func idxKey(is []int) string {
	var b strings.Builder
	for _, i := range is {
		fmt.Fprintf(&b, "%d,", i)
	}
	return b.String()
}

// exclusiveRegions: for every index set S with |S| >= 2, the leaves covered by exactly the
// sets in S.  One sweep over the elementary segments between all interval end points; works
// for any number of sets (the brute force over 2^n masks does not beyond ~20).
func exclusiveRegions(sets []lset) (map[string]lset, map[string][]int) {
	var pts []uint64
	for _, st := range sets {
		for _, x := range st {
			pts = append(pts, x.lo, x.hi)
		}
	}
	sort.Slice(pts, func(i, j int) bool { return pts[i] < pts[j] })
	raw := map[string][]iv{}
	idx := map[string][]int{}
	for k := 0; k+1 < len(pts); k++ {
		lo, hi := pts[k], pts[k+1]
		if lo == hi {
			continue
		}
		var mem []int
		for i, st := range sets {
			if st.hasPos(lo) {
				mem = append(mem, i)
			}
		}
		if len(mem) < 2 {
			continue
		}
		key := idxKey(mem)
		raw[key] = append(raw[key], iv{lo, hi})
		idx[key] = mem
	}
	out := map[string]lset{}
	for key, ivs := range raw {
		out[key] = mkset(ivs)
	}
	return out, idx
}

// findCheck runs Find on the unions with the given cells and compares with the oracle.
func (s *S) findCheck(raw [][]uint64, class string, roughInput bool) {
	c, g := s.c, s.g
	n := len(raw)
	sets := make([]lset, n)
	in := make([]s2.CellUnion, n)
	shown := make([][]string, n)
	for i := range raw {
		sets[i] = fromCells(raw[i])
		v := canonical(sets[i])
		if roughInput {
			v = g.roughen(v, 60)
		}
		in[i] = toCU(v)
		shown[i] = hexs(v)
	}
	c.Class("find:" + class)
	rep := map[string]interface{}{"unions": shown, "class": class}
	s.cur = rep
	want, wantIdx := exclusiveRegions(sets)
	if n <= 12 {
		// cross-check the sweep oracle with the definition (all 2^n index sets)
		cnt := 0
		for mask := uint(1); mask < 1<<uint(n); mask++ {
			if bits.OnesCount(mask) < 2 {
				continue
			}
			var region, outside lset
			first := true
			var mem []int
			for i := 0; i < n; i++ {
				if mask>>uint(i)&1 == 1 {
					mem = append(mem, i)
					if first {
						region, first = sets[i], false
					} else {
						region = region.inter(sets[i])
					}
				} else {
					outside = outside.union(sets[i])
				}
			}
			if e := region.minus(outside); len(e) > 0 {
				cnt++
				if w, ok := want[idxKey(mem)]; !ok || !w.equal(e) {
					panic("C11 observer: exclusiveRegions disagrees with the definition")
				}
			}
		}
		if cnt != len(want) {
			panic("C11 observer: exclusiveRegions reports a region the definition does not have")
		}
	}
	c.Eval(keyOf("find", raw...), len(want) > 0)
	var got []s2intersect.Intersection
	given := make([][]uint64, n) // Find sorts the callers' slices in place: keep what was passed
	for i := range in {
		given[i] = fromCU(in[i])
	}
	if p, msg := try(func() { got = s2intersect.Find(in) }); p {
		c.Violate("s2intersect.Find.panic", "Find panicked: "+msg, rep)
		return
	}
	s.tFind(given, got)
	seen := map[string]bool{}
	for _, x := range got {
		okIdx := len(x.Indices) >= 2
		for k, i := range x.Indices {
			if i < 0 || i >= n || (k > 0 && x.Indices[k-1] >= i) {
				okIdx = false
				break
			}
		}
		if !okIdx {
			c.Violate("s2intersect.Find", fmt.Sprintf("returned Indices %v are not >=2 strictly increasing valid indices", x.Indices), rep)
			return
		}
		key := idxKey(x.Indices)
		if seen[key] {
			c.Violate("s2intersect.Find", fmt.Sprintf("index set %v returned twice", x.Indices), rep)
			return
		}
		seen[key] = true
		cells := fromCU(x.Intersection)
		w, has := want[key]
		switch {
		case !has && len(cells) == 0:
			// reported once per run (with the minimal fixed input of findFixed when it reproduces)
			if s.emptyFindReported {
				break
			}
			s.emptyFindReported = true
			c.Violate("s2intersect.Find.emptyIntersection", fmt.Sprintf("Find returns index set %v with an EMPTY cell union (no leaf is covered by exactly these unions)", x.Indices), rep)
		case !has:
			c.Violate("s2intersect.Find", fmt.Sprintf("index set %v returned with cells although no leaf is covered by exactly these unions", x.Indices), rep)
		case !fromCells(cells).equal(w):
			c.Violate("s2intersect.Find", fmt.Sprintf("cells returned for index set %v are not exactly the leaves covered by precisely these unions", x.Indices), rep)
		case !eqIDs(cells, canonical(w)):
			c.Violate("s2intersect.Find", fmt.Sprintf("cells returned for index set %v are not normalized", x.Indices), rep)
		}
	}
	for key := range want {
		if !seen[key] {
			c.Violate("s2intersect.Find", fmt.Sprintf("index set %v has a non-empty exclusive region but is not returned", wantIdx[key]), rep)
			break
		}
	}
	c.Sample(map[string]interface{}{"op": "Find", "class": class, "unions": len(shown), "index_sets_returned": len(got)})
}

// parses: every way to read the digit string d as a strictly increasing list of decimal
// numbers < n without leading zeros (the index sets whose concatenated digits are d).
func parses(d string, n int) [][]int {
	var out [][]int
	var rec func(pos int, last int, acc []int)
	rec = func(pos int, last int, acc []int) {
		if pos == len(d) {
			out = append(out, append([]int{}, acc...))
			return
		}
		v := 0
		for q := pos; q < len(d) && q < pos+3; q++ {
			if q > pos && d[pos] == '0' {
				break
			}
			v = v*10 + int(d[q]-'0')
			if v >= n {
				break
			}
			if v > last {
				rec(q+1, v, append(acc, v))
			}
		}
	}
	rec(0, -1, nil)
	return out
}

// findMany: 11..40 unions (multi-digit indices) built from disjoint "atoms": every chosen
// index set S gets atoms covered by exactly the unions in S, so many different index sets
// occur at once.  The chosen sets include whole families with the same concatenated decimal
// digits ({0,1,2} / {0,12}; {1,2,3} / {12,3} / {1,23}; ...), permutations of digits, sets that
// are prefixes/extensions of each other, and random sets; some atoms belong to one union only.
func (s *S) findMany() {
	g := s.g
	n := 11 + g.n(30)
	if g.n(3) == 0 {
		n = 13 + g.n(12)
	}
	var fams [][]int
	addFam := func(set []int) {
		if len(set) < 1 {
			return
		}
		fams = append(fams, set)
	}
	// digit-collision families: all parses of the digits of a few small seed sets
	for k := 0; k < 3+g.n(4); k++ {
		var seed []int
		v := g.n(3)
		for len(seed) < 2+g.n(3) && v < n {
			seed = append(seed, v)
			v += 1 + g.n(3)
		}
		d := ""
		for _, x := range seed {
			d += fmt.Sprint(x)
		}
		for _, ps := range parses(d, n) {
			addFam(ps)
		}
	}
	for _, fx := range [][]int{{0, 1, 2}, {0, 12}, {1, 2, 3}, {12, 3}, {1, 23}, {1, 11}, {1, 2}, {12, 13}, {1, 21, 3}, {1, 2, 13}} {
		ok := true
		for _, x := range fx {
			if x >= n {
				ok = false
			}
		}
		if ok && g.n(4) != 0 {
			addFam(fx)
		}
	}
	// random sets, some nested in each other
	for k := 0; k < 4+g.n(8); k++ {
		var set []int
		for i := 0; i < n; i++ {
			if g.n(n) < 2+g.n(3) {
				set = append(set, i)
			}
		}
		addFam(set)
		if len(set) > 2 && g.n(2) == 0 {
			addFam(set[:len(set)-1])
		}
	}
	// dedupe by exact set: two atoms with the same set are fine but keep the count bounded
	if len(fams) > 60 {
		fams = fams[:60]
	}
	// atoms: distinct cells three levels below a base (64 of them), in random order
	base := g.cellUpTo(24)
	var atoms []uint64
	for _, a := range kids(base) {
		for _, b := range kids(a) {
			for _, cc := range kids(b) {
				atoms = append(atoms, cc)
			}
		}
	}
	atoms = g.shuffle(atoms)
	raw := make([][]uint64, n)
	for k, set := range fams {
		if k >= len(atoms) {
			break
		}
		a := atoms[k]
		// sometimes only part of the atom (a descendant), so regions are not whole cells
		if g.n(4) == 0 {
			a = g.descend(a, 1+g.n(2), g.n(3))
		}
		for _, i := range set {
			raw[i] = append(raw[i], a)
		}
	}
	s.findCheck(raw, "many-unions-atoms", g.n(4) == 0)
}
