// Observer for property C11 "cell-union algebra is exact set algebra on leaf cells".
//
//	[S] every operation of s2.CellUnion (Normalize, union, intersection, difference, containment
//	    and intersection tests, Denormalize, LeafCellsCovered, CellUnionFromRange / MaxTile),
//	    the CellIndex range/contents iterators and s2intersect.Find are run on the real
//	    implementation and compared with the leaf-interval oracle of oracle.go.
//	[T] the same calls (plus un-normalized / unsorted inputs and the single-id leaf functions)
//	    are emitted as Coq terms comparing Model/CellUnion.v and Gen/CellID.v with the observed
//	    results; CellIndex.Build, histories of the range and contents iterators and
//	    s2intersect.Find are compared with Model/CellIndex.v and Model/Intersect.v.
package main

import (
	"verifharness/internal/vkit"
)

func main() { vkit.Main("C11", []string{"Gen.CellID", "Model.CellUnion", "Model.CellIndex", "Model.Intersect"}, run) }

func run(c *vkit.Collector, rng *vkit.Rng, budget int) {
	// vkit.NewRng(k) and NewRng(k+1) are the SAME splitmix64 stream shifted by one output, and
	// generators that consume a data-dependent number of values re-synchronize after a few
	// draws (seeds 1,2,3 then give identical runs).  Re-key once through the mixed output so
	// that different seeds land at unrelated positions of the stream; still a pure function
	// of the run's seed.
	rng = vkit.NewRng(rng.U64())
	selfTestOracle(rng.U64)
	g := &G{r: rng, c: c}
	// correspondence quotas: q(quick, per) = the quick-tier count, and per*budget for the thorough
	// and search tiers (the volume lives there; the quick tier keeps every category and class).
	q := func(quick, per int) int {
		if budget <= 1 {
			return quick
		}
		return per * budget
	}
	t := &T{c: c, used: map[string]int{}, cap: map[string]int{
		"union": q(80, 200), "union-big": q(12, 30), "invalid-union": q(25, 45),
		"pair-norm": q(45, 110), "pair-raw": q(55, 150), "pair-norm-big": q(5, 10), "pair-raw-big": q(6, 15),
		"denorm": q(30, 60), "range": q(30, 110), "maxtile": q(120, 250),
		"ci-build": q(60, 130), "ci-build-big": q(6, 15), "ci-range": q(120, 260), "ci-access": q(10, 15),
		"ci-contents": q(120, 260), "find": q(28, 80), "find-big": q(3, 8), "find-many": q(2, 3),
	}}
	s := &S{c: c, g: g, t: t}

	s.leafFns(budget)
	s.siblings(budget)

	for k := 0; k < 6000*budget; k++ {
		s.guard("CellUnion.Normalize", func() {
			in, class := g.union(60)
			s.union1(in, class)
			if k%4 == 0 {
				s.denorm1(in, class)
			}
		})
	}
	s.guard("CellUnion.IsValid", func() { s.invalidUnions(150 * budget) })
	for k := 0; k < 6000*budget; k++ {
		s.guard("CellUnion.binary", func() {
			x, y, class := g.pair(60)
			s.pair1(x, y, class, k%3 == 0)
		})
	}
	for k := 0; k < 3000*budget; k++ {
		s.guard("CellUnion.FromRange", s.range1)
	}
	for k := 0; k < 6000*budget; k++ {
		s.guard("CellID.MaxTile", s.maxTile1)
	}
	for k := 0; k < 1000*budget; k++ {
		s.guard("CellIndex", s.index1)
	}
	s.guard("s2intersect.Find", s.findFixed)
	for k := 0; k < 1500*budget; k++ {
		s.guard("s2intersect.Find", s.find1)
	}
	for k := 0; k < 400*budget; k++ {
		s.guard("s2intersect.Find", s.findMany)
	}
	t.flush()
	c.Extra["correspondence_cases_by_category"] = t.used
}
