package main

// [T] correspondence of s2.CellIndex (Build, range iterator, contents iterator) with
// Model/CellIndex.v and of s2intersect.Find with Model/Intersect.v.

import (
	"fmt"
	"sort"
	"strings"

	"github.com/golang/geo/s2"
	"github.com/golang/geo/s2/s2intersect"
	"verifharness/internal/vkit"
)

func tuple(xs ...string) string { return "(" + strings.Join(xs, ", ") + ")" }

// addsTerm: [(cell, label); ...]
func addsTerm(ps []cl) string {
	xs := make([]string, len(ps))
	for i, p := range ps {
		xs[i] = tuple(hz(p.id), vkit.Z(int64(p.label)))
	}
	return vkit.List(xs)
}

type indexDump struct {
	cells    []uint64
	labels   []int32
	parents  []int32
	starts   []uint64
	contents []int32
}

func (d *indexDump) tree() string {
	xs := make([]string, len(d.cells))
	for i := range d.cells {
		xs[i] = tuple(hz(d.cells[i]), vkit.Z(int64(d.labels[i])), vkit.Z(int64(d.parents[i])))
	}
	return vkit.List(xs)
}
func (d *indexDump) ranges() string {
	xs := make([]string, len(d.starts))
	for i := range d.starts {
		xs[i] = tuple(hz(d.starts[i]), vkit.Z(int64(d.contents[i])))
	}
	return vkit.List(xs)
}

func (s *S) tIndex(idx *s2.CellIndex, added []cl) {
	t, g := s.t, s.g
	var d indexDump
	d.cells, d.labels, d.parents, d.starts, d.contents = s2.VerifC11CellIndexDump(idx)
	nNodes := len(d.starts) // number of range nodes, the last one is the sentinel
	if nNodes < 2 {
		return // not a built index (only under a mutation); the [S] checks report it
	}
	key := keyOfCL("", added)

	// ---- Build ----
	cat := "ci-build"
	if len(added) > 24 {
		cat = "ci-build-big"
	}
	if t.ok(cat) {
		t.check("CellIndex.Build "+key, vkit.App("build_eqb", vkit.App("ci_Build", addsTerm(added)), tuple(d.tree(), d.ranges())))
	}
	if len(added) > 12 {
		return // histories repeat the whole tree / range list: keep those terms small
	}
	TREE, RANGES := d.tree(), d.ranges()

	// seek targets: valid leaves at and around the range boundaries, first/last leaf, random
	target := func() uint64 {
		for {
			var l uint64
			switch g.n(6) {
			case 0:
				l = firstLeaf
			case 1:
				l = lastLeaf
			case 2:
				l = uint64(s2.CellIDFromFacePosLevel(g.n(6), g.r.U64()&(1<<61-1), 30))
			default:
				l = d.starts[g.n(nNodes)] + 2*uint64(g.n(3)) - 2
			}
			if oValid(l) && l&1 == 1 {
				return l
			}
		}
	}

	// ---- range iterator histories ----
	for rep := 0; rep < 2; rep++ {
		if !t.ok("ci-range") {
			break
		}
		nonEmpty := g.n(2) == 0
		var it *s2.CellIndexRangeIterator
		if nonEmpty {
			it = s2.NewCellIndexNonEmptyRangeIterator(idx)
		} else {
			it = s2.NewCellIndexRangeIterator(idx)
		}
		var ops, obs []string
		do := func(op string, f func() bool) {
			ret := f()
			ops = append(ops, op)
			obs = append(obs, tuple(vkit.Z(int64(s2.VerifC11RangeIterPos(it))), vkit.B(ret)))
		}
		void := func(f func()) func() bool { return func() bool { f(); return true } }
		seek := func() {
			tg := target()
			do(vkit.App("OpSeek", hz(tg)), void(func() { it.Seek(s2.CellID(tg)) }))
		}
		advance := func() {
			remaining := nNodes - 1 - s2.VerifC11RangeIterPos(it)
			k := 0
			switch g.n(5) {
			case 0:
				k = 0
			case 1:
				k = remaining - 1 // the largest step that succeeds
			case 2:
				k = remaining // just too large
			case 3:
				k = nNodes + 3
			default:
				k = g.n(nNodes + 1)
			}
			if k < 0 {
				k = 0
			}
			do(vkit.App("OpAdvance", vkit.Z(int64(k))), func() bool { return it.Advance(k) })
		}
		panicked, _ := try(func() {
			// scripted openings: Prev at the beginning, Prev from done, Prev after a seek (across
			// runs of empty ranges for the non-empty iterator), then random legal operations
			switch g.n(5) {
			case 0:
				do("OpBegin", void(it.Begin))
				do("OpPrev", it.Prev)
			case 1:
				do("OpFinish", void(it.Finish))
				do("OpPrev", it.Prev)
				do("OpPrev", it.Prev)
			case 2:
				seek()
				do("OpPrev", it.Prev)
				do("OpPrev", it.Prev)
			case 3:
				do("OpBegin", void(it.Begin))
				for !it.Done() && len(ops) < 2*nNodes+4 {
					do("OpNext", void(it.Next))
				}
				do("OpPrev", it.Prev)
			default:
				seek()
			}
			for k, n := 0, 3+g.n(8); k < n; k++ {
				switch g.n(8) {
				case 0:
					do("OpBegin", void(it.Begin))
				case 1:
					do("OpFinish", void(it.Finish))
				case 2, 3:
					if !it.Done() {
						do("OpNext", void(it.Next))
					} else {
						do("OpPrev", it.Prev)
					}
				case 4:
					do("OpPrev", it.Prev)
				case 5:
					seek()
				default:
					advance()
				}
			}
		})
		if panicked {
			// the model is total: a panic of the implementation in a legal history is a disagreement
			t.check(fmt.Sprintf("CellIndex.RangeIterator(nonEmpty=%v) %s PANIC after %s", nonEmpty, key, strings.Join(ops, ",")), "false")
			continue
		}
		t.check(fmt.Sprintf("CellIndex.RangeIterator(nonEmpty=%v) %s %s", nonEmpty, key, strings.Join(ops, ",")),
			vkit.App("list_eqb", "posb_eqb", vkit.App("ri_run", RANGES, vkit.B(nonEmpty), vkit.Z(0), vkit.List(ops)), vkit.List(obs)))
	}

	// ---- accessors at a position ----
	if t.ok("ci-access") {
		it := s2.NewCellIndexRangeIterator(idx)
		p := g.n(nNodes)
		if g.n(4) == 0 {
			p = nNodes - 1
		}
		s2.VerifC11RangeIterSetPos(it, p)
		P := vkit.Z(int64(p))
		t.check(fmt.Sprintf("CellIndex.StartID %s @%d", key, p), eqZ(vkit.App("ri_StartID", RANGES, P), hz(uint64(it.StartID()))))
		t.check(fmt.Sprintf("CellIndex.IsEmpty %s @%d", key, p), eqB(vkit.App("ri_IsEmpty", RANGES, P), it.IsEmpty()))
		t.check(fmt.Sprintf("CellIndex.Done %s @%d", key, p), eqB(vkit.App("ri_Done", RANGES, P), it.Done()))
		if p < nNodes-1 {
			t.check(fmt.Sprintf("CellIndex.LimitID %s @%d", key, p), eqZ(vkit.App("ri_LimitID", RANGES, P), hz(uint64(it.LimitID()))))
		}
	}

	// ---- contents iterator histories: ONE shared iterator ----
	for rep := 0; rep < 2; rep++ {
		if !t.ok("ci-contents") {
			break
		}
		var poss []int // -1 = Clear
		switch g.n(6) {
		case 0: // increasing sweep over every range and the sentinel
			for p := 0; p < nNodes; p++ {
				poss = append(poss, p)
			}
		case 1: // increasing with repeats and gaps
			for p := 0; p < nNodes; p++ {
				switch g.n(3) {
				case 0:
					poss = append(poss, p, p)
				case 1:
					poss = append(poss, p)
				}
			}
		case 2: // increasing, then a backward move, then increasing again
			a, b := g.n(nNodes), g.n(nNodes)
			if a > b {
				a, b = b, a
			}
			for p := a; p <= b; p++ {
				poss = append(poss, p)
			}
			for p := g.n(b + 1); p < nNodes; p += 1 + g.n(2) {
				poss = append(poss, p)
			}
		case 3: // decreasing sweep
			for p := nNodes - 1; p >= 0; p-- {
				poss = append(poss, p)
			}
		case 4: // sweeps separated by Clear
			for p := 0; p < nNodes; p += 1 + g.n(2) {
				poss = append(poss, p)
			}
			poss = append(poss, -1)
			for p := g.n(nNodes); p < nNodes; p++ {
				poss = append(poss, p)
			}
		default: // random order, random Clear
			for k, n := 0, 2+g.n(10); k < n; k++ {
				if g.n(6) == 0 {
					poss = append(poss, -1)
				} else {
					poss = append(poss, g.n(nNodes))
				}
			}
		}
		if len(poss) > 16 {
			poss = poss[:16]
		}
		if len(poss) == 0 {
			poss = []int{g.n(nNodes)}
		}
		r := s2.NewCellIndexRangeIterator(idx)
		ci := s2.NewCellIndexContentsIterator(idx)
		var ops, reports []string
		panicked, _ := try(func() {
			for _, p := range poss {
				if p < 0 {
					ci.Clear()
					ops = append(ops, "CClear")
					reports = append(reports, "[]")
					continue
				}
				s2.VerifC11RangeIterSetPos(r, p)
				var got []string
				for ci.StartUnion(r); !ci.Done(); ci.Next() {
					got = append(got, tuple(hz(uint64(ci.CellID())), vkit.Z(int64(ci.Label()))))
					if len(got) > len(d.cells)+1 {
						panic("contents iterator does not finish")
					}
				}
				ops = append(ops, vkit.App("CVisit", vkit.Z(int64(p))))
				reports = append(reports, vkit.List(got))
			}
		})
		if panicked {
			t.check(fmt.Sprintf("CellIndex.ContentsIterator %s PANIC after %s", key, strings.Join(ops, ",")), "false")
			continue
		}
		t.check(fmt.Sprintf("CellIndex.ContentsIterator %s %s", key, strings.Join(ops, ",")),
			vkit.App("reports_eqb", vkit.App("ci_run", TREE, RANGES, "ci_new", vkit.List(ops)), vkit.List(reports)))
	}
}

// tFind: the observed entries, sorted lexicographically by index set, against the model.
func (s *S) tFind(given [][]uint64, got []s2intersect.Intersection) {
	total := 0
	for _, u := range given {
		total += len(u)
	}
	cat := "find"
	if len(given) > 4 || total > 16 {
		cat = "find-big"
	}
	if len(given) > 10 {
		// many unions (multi-digit indices): the model's Find is slow, keep a few moderate ones
		cat = "find-many"
		if len(given) > 16 || total > 45 {
			return
		}
	} else if len(given) > 6 || total > 60 {
		return
	}
	if !s.t.ok(cat) {
		return
	}
	es := append([]s2intersect.Intersection{}, got...)
	sort.SliceStable(es, func(i, j int) bool {
		a, b := es[i].Indices, es[j].Indices
		for k := 0; k < len(a) && k < len(b); k++ {
			if a[k] != b[k] {
				return a[k] < b[k]
			}
		}
		return len(a) < len(b)
	})
	ents := make([]string, len(es))
	for i, e := range es {
		idx := make([]string, len(e.Indices))
		for k, v := range e.Indices {
			idx[k] = vkit.Z(int64(v))
		}
		ents[i] = tuple(vkit.List(idx), zl(fromCU(e.Intersection)))
	}
	ins := make([]string, len(given))
	for i, u := range given {
		ins[i] = zl(u)
	}
	s.t.check(lbl("s2intersect.Find", given...), vkit.App("entries_eqb", vkit.App("sort_entries", vkit.App("s2i_Find", vkit.List(ins))), vkit.List(ents)))
}
