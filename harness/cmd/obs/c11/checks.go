package main

// [S] checks of s2.CellUnion / CellID.MaxTile against the leaf-interval oracle, and the
// [T] correspondence terms for Model/CellUnion.v emitted for the same inputs.

import (
	"fmt"
	"hash/fnv"
	"sort"
	"time"

	"github.com/golang/geo/s2"
	"verifharness/internal/vkit"
)

type S struct {
	hung bool
	c    *vkit.Collector
	g *G
	t *T

	emptyFindReported bool
	cellTestsBroken   bool // ContainsCellID/IntersectsCellID seen wrong on a leaf: Difference may not terminate

	cur interface{} // input of the case being evaluated (replay of a hang)
}

// guard runs one case; if the implementation does not come back (a loop that no longer
// terminates) the case is reported as a violation and the run is cut short: the stuck goroutine
// is abandoned, nothing else is evaluated.
func (s *S) guard(phase string, f func()) bool {
	if s.hung {
		return false
	}
	done := make(chan struct{})
	go func() {
		defer close(done)
		f()
	}()
	select {
	case <-done:
		return true
	case <-time.After(20 * time.Second):
		s.hung = true
		s.c.Violate(phase+".hang", "the implementation did not return within 20 s on this input (non-terminating loop?)", s.cur)
		return false
	}
}

// T rations the correspondence cases per category.
type T struct {
	c    *vkit.Collector
	used map[string]int
	cap  map[string]int
	buf  []vkit.Case
}

// check buffers one correspondence case; flush hands them to the collector interleaved, so that
// the expensive categories are spread evenly over the shards that coqc compiles in parallel.
func (t *T) check(label, term string) { t.buf = append(t.buf, vkit.Case{Label: label, Term: term}) }
func (t *T) flush() {
	n := len(t.buf)
	if n == 0 {
		return
	}
	gcd := func(a, b int) int {
		for b != 0 {
			a, b = b, a%b
		}
		return a
	}
	stride := int(float64(n)*0.6180339887) | 1
	for gcd(stride, n) != 1 {
		stride += 2
	}
	for k := 0; k < n; k++ {
		cs := t.buf[(k*stride)%n]
		t.c.Check(cs.Label, cs.Term)
	}
	t.buf = nil
}

func (t *T) ok(cat string) bool {
	if t.used[cat] < t.cap[cat] {
		t.used[cat]++
		return true
	}
	return false
}
func (t *T) left(cat string) int { return t.cap[cat] - t.used[cat] }

func hexs(ids []uint64) []string {
	out := make([]string, len(ids))
	for i, c := range ids {
		out[i] = fmt.Sprintf("0x%016x", c)
	}
	return out
}
func toCU(ids []uint64) s2.CellUnion {
	out := make(s2.CellUnion, len(ids))
	for i, c := range ids {
		out[i] = s2.CellID(c)
	}
	return out
}
func fromCU(cu s2.CellUnion) []uint64 {
	out := make([]uint64, len(cu))
	for i, c := range cu {
		out[i] = uint64(c)
	}
	return out
}
func keyOf(tag string, lists ...[]uint64) string {
	h := fnv.New64a()
	for _, l := range lists {
		for _, c := range l {
			var b [8]byte
			for i := 0; i < 8; i++ {
				b[i] = byte(c >> (8 * uint(i)))
			}
			h.Write(b[:])
		}
		h.Write([]byte{0xff})
	}
	return fmt.Sprintf("%s:%016x", tag, h.Sum64())
}

// try runs f and reports whether it panicked.
func try(f func()) (panicked bool, msg string) {
	defer func() {
		if r := recover(); r != nil {
			panicked, msg = true, fmt.Sprint(r)
		}
	}()
	f()
	return
}

// ---- Coq term helpers ----

// hz prints a uint64 as a hexadecimal Z literal (Coq parses these about twice as fast as the
// 19-digit decimal ones, and parsing dominates the compile time of the case files).
func hz(u uint64) string { return fmt.Sprintf("0x%x%%Z", u) }
func zl(ids []uint64) string {
	xs := make([]string, len(ids))
	for i, c := range ids {
		xs[i] = hz(c)
	}
	return vkit.List(xs)
}
func eqL(a, b string) string { return vkit.App("list_eqb", "Z.eqb", a, b) }
func eqB(a string, b bool) string {
	return vkit.App("Bool.eqb", a, vkit.B(b))
}
func eqZ(a, b string) string { return vkit.App("Z.eqb", a, b) }
func lbl(op string, lists ...[]uint64) string {
	s := op
	n := 0
	for _, l := range lists {
		n += len(l)
	}
	if n <= 10 {
		for _, l := range lists {
			s += fmt.Sprintf(" %x", l)
		}
		return s
	}
	return keyOf(op, lists...)
}

// ---- oracle point queries (binary search on the interval list) ----

func (a lset) containsIv(r iv) bool {
	i := sort.Search(len(a), func(i int) bool { return a[i].hi > r.lo })
	return i < len(a) && a[i].lo <= r.lo && r.hi <= a[i].hi
}
func (a lset) intersectsIv(r iv) bool {
	i := sort.Search(len(a), func(i int) bool { return a[i].hi > r.lo })
	return i < len(a) && a[i].lo < r.hi
}

// ---- Normalize / IsValid / IsNormalized / LeafCellsCovered ----

// splitOne replaces one non-leaf cell of a normalized list by its four children: sorted,
// disjoint, but not normalized.
func (s *S) splitOne(norm []uint64) []uint64 {
	var cand []int
	for i, c := range norm {
		if oLsb(c) > 1 {
			cand = append(cand, i)
		}
	}
	if len(cand) == 0 {
		return norm
	}
	i := cand[s.g.n(len(cand))]
	k := kids(norm[i])
	out := append([]uint64{}, norm[:i]...)
	out = append(out, k[:]...)
	return append(out, norm[i+1:]...)
}

func (s *S) checkValidity(v []uint64, what string) {
	vu := toCU(v)
	if got, want := vu.IsValid(), oIsValidUnion(v); got != want {
		s.c.Violate("CellUnion.IsValid", fmt.Sprintf("IsValid()=%v but valid+sorted+disjoint is %v (%s)", got, want, what), map[string]interface{}{"ids": hexs(v)})
	}
	if got, want := vu.IsNormalized(), oIsNormalizedUnion(v); got != want {
		s.c.Violate("CellUnion.IsNormalized", fmt.Sprintf("IsNormalized()=%v but the definition gives %v (%s)", got, want, what), map[string]interface{}{"ids": hexs(v)})
	}
}

func (s *S) union1(in []uint64, class string) []uint64 {
	c := s.c
	set := fromCells(in)
	want := canonical(set)
	rep := map[string]interface{}{"ids": hexs(in), "class": class}
	s.cur = rep
	u := toCU(in)
	u.Normalize()
	got := fromCU(u)
	srt := sortedCopy(in)
	c.Eval(keyOf("norm", in), len(in) >= 2 && !eqIDs(want, srt))
	if !fromCells(got).equal(set) {
		c.Violate("CellUnion.Normalize", "Normalize changed the set of covered leaf cells", rep)
	} else if !eqIDs(got, want) {
		c.Violate("CellUnion.Normalize", "Normalize result is not the unique sorted, non-overlapping, sibling-merged form", rep)
	}
	if !u.IsNormalized() || !u.IsValid() {
		c.Violate("CellUnion.Normalize", "result of Normalize is not IsNormalized()/IsValid()", rep)
	}
	u2 := toCU(got)
	u2.Normalize()
	if !eqIDs(fromCU(u2), got) {
		c.Violate("CellUnion.Normalize", "Normalize is not idempotent", rep)
	}
	// IsValid / IsNormalized against their definitions on arbitrary lists
	s.checkValidity(in, "raw input")
	s.checkValidity(srt, "sorted input")
	s.checkValidity(want, "canonical form")
	split := s.splitOne(want)
	s.checkValidity(split, "canonical form with one cell split in four")
	// LeafCellsCovered on the normalized form
	wu := toCU(want)
	if n := wu.LeafCellsCovered(); n < 0 || uint64(n) != set.count() {
		c.Violate("CellUnion.LeafCellsCovered", fmt.Sprintf("LeafCellsCovered()=%d, the leaf set has %d cells", n, set.count()), rep)
	}
	c.Sample(map[string]interface{}{"op": "Normalize", "class": class, "in": hexs(in), "out": hexs(got)})

	// [T]
	t := s.t
	cat := "union"
	if len(in) > 16 {
		cat = "union-big"
	}
	if t.ok(cat) {
		for _, v := range [][]uint64{in, srt} {
			vu := toCU(v)
			vu.Normalize()
			s.t.check(lbl("Normalize", v), eqL(vkit.App("cu_Normalize", zl(v)), zl(fromCU(vu))))
			if len(in) > 16 {
				break
			}
		}
		for k, v := range [][]uint64{in, srt, split} {
			if len(in) > 16 && k == 0 {
				continue
			}
			vu := toCU(v)
			s.t.check(lbl("IsValid", v), eqB(vkit.App("cu_IsValid", zl(v)), vu.IsValid()))
			s.t.check(lbl("IsNormalized", v), eqB(vkit.App("cu_IsNormalized", zl(v)), vu.IsNormalized()))
		}
		iu := toCU(in)
		s.t.check(lbl("LeafCellsCovered", in), eqZ(vkit.App("cu_LeafCellsCovered", zl(in)), vkit.Z(iu.LeafCellsCovered())))
	}
	return want
}

// lists that contain invalid ids: IsValid / IsNormalized must reject them
func (s *S) invalidUnions(n int) {
	bad := s.g.invalidIDs()
	for k := 0; k < n; k++ {
		base, _ := s.g.union(8)
		v := canonical(fromCells(base))
		if s.g.n(3) == 0 {
			v = s.splitOne(v)
		}
		b := bad[s.g.n(len(bad))]
		i := s.g.n(len(v) + 1)
		v = append(append(append([]uint64{}, v[:i]...), b), v[i:]...)
		if s.g.n(2) == 0 {
			v = sortedCopy(v)
		}
		s.c.Class("union:with-invalid-id")
		s.c.Eval(keyOf("inv", v), true)
		s.checkValidity(v, "list with an invalid id")
		if s.t.ok("invalid-union") {
			vu := toCU(v)
			s.t.check(lbl("IsValid", v), eqB(vkit.App("cu_IsValid", zl(v)), vu.IsValid()))
			s.t.check(lbl("IsNormalized", v), eqB(vkit.App("cu_IsNormalized", zl(v)), vu.IsNormalized()))
		}
	}
}

// ---- binary operations ----

func (s *S) pair1(xraw, yraw []uint64, class string, fullProbes bool) {
	c, g := s.c, s.g
	sx, sy := fromCells(xraw), fromCells(yraw)
	x, y := canonical(sx), canonical(sy)
	rep := map[string]interface{}{"x": hexs(x), "y": hexs(y), "class": class}
	repRaw := map[string]interface{}{"x": hexs(xraw), "y": hexs(yraw), "class": class}
	s.cur = repRaw
	sI, sD, sD2, sU := sx.inter(sy), sx.minus(sy), sy.minus(sx), sx.union(sy)
	c.Eval(keyOf("pair", x, y), len(x)+len(y) >= 2 && len(sI) > 0)

	// union (raw inputs: FromUnion normalizes)
	if got := fromCU(s2.CellUnionFromUnion(toCU(xraw), toCU(yraw))); !eqIDs(got, canonical(sU)) {
		c.Violate("CellUnion.Union", "CellUnionFromUnion is not the normalized union of the leaf sets", repRaw)
	}
	if g.n(4) == 0 {
		zraw, _ := g.union(20)
		got := fromCU(s2.CellUnionFromUnion(toCU(xraw), toCU(yraw), toCU(zraw)))
		if !eqIDs(got, canonical(sU.union(fromCells(zraw)))) {
			c.Violate("CellUnion.Union", "CellUnionFromUnion of three unions is not the normalized union of the leaf sets",
				map[string]interface{}{"x": hexs(xraw), "y": hexs(yraw), "z": hexs(zraw)})
		}
	}
	// intersection, both argument orders
	for o := 0; o < 2; o++ {
		a, b, r := x, y, rep
		if o == 1 {
			a, b = y, x
			r = map[string]interface{}{"x": hexs(y), "y": hexs(x), "class": class}
		}
		var got []uint64
		if p, msg := try(func() { got = fromCU(s2.CellUnionFromIntersection(toCU(a), toCU(b))) }); p {
			c.Violate("CellUnion.Intersection.panic", "CellUnionFromIntersection panicked on normalized inputs: "+msg, r)
		} else if !fromCells(got).equal(sI) {
			c.Violate("CellUnion.Intersection", "CellUnionFromIntersection does not cover exactly the common leaf cells", r)
		} else if !eqIDs(got, canonical(sI)) {
			c.Violate("CellUnion.Intersection", "CellUnionFromIntersection result is not normalized", r)
		}
	}
	// difference, both orders.  cellUnionDifferenceInternal recurses into the children of a cell
	// that "intersects but is not contained"; if ContainsCellID and IntersectsCellID ever disagree
	// on a LEAF the recursion never ends (fatal stack overflow, not recoverable).  So the leaf
	// cells at the boundaries of all cells involved are probed first, and Difference is not
	// called any more once these two tests have been seen to be wrong.
	for o := 0; o < 2 && !s.cellTestsBroken; o++ {
		a, b, sb := x, y, sy
		if o == 1 {
			a, b, sb = y, x, sx
		}
		ub := toCU(b)
		for _, cell := range append(append([]uint64{}, a...), b...) {
			for _, l := range []uint64{oLeafMin(cell), oLeafMax(cell), oLeafMin(cell) - 2, oLeafMax(cell) + 2} {
				if !oValid(l) {
					continue
				}
				in := sb.hasPos(l >> 1)
				if ub.ContainsCellID(s2.CellID(l)) != in || ub.IntersectsCellID(s2.CellID(l)) != in {
					s.cellTestsBroken = true
					c.Violate("CellUnion.ContainsCellID", fmt.Sprintf("ContainsCellID/IntersectsCellID of a leaf cell disagree with membership (%v)", in),
						map[string]interface{}{"x": hexs(b), "id": fmt.Sprintf("0x%016x", l)})
				}
			}
		}
	}
	for o := 0; o < 2 && !s.cellTestsBroken; o++ {
		a, b, want, r := x, y, sD, rep
		if o == 1 {
			a, b, want = y, x, sD2
			r = map[string]interface{}{"x": hexs(y), "y": hexs(x), "class": class}
		}
		got := fromCU(s2.CellUnionFromDifference(toCU(a), toCU(b)))
		if !fromCells(got).equal(want) {
			c.Violate("CellUnion.Difference", "CellUnionFromDifference does not cover exactly the leaf cells of x outside y", r)
		} else if !eqIDs(got, canonical(want)) {
			c.Violate("CellUnion.Difference", "CellUnionFromDifference of normalized inputs is not normalized (the source comment claims it is)", r)
		}
	}
	// Contains / Intersects
	ux, uy := toCU(x), toCU(y)
	if got, want := ux.Contains(uy), sy.subsetOf(sx); got != want {
		c.Violate("CellUnion.Contains", fmt.Sprintf("x.Contains(y)=%v, leaf sets say %v", got, want), rep)
	}
	if got, want := uy.Contains(ux), sx.subsetOf(sy); got != want {
		c.Violate("CellUnion.Contains", fmt.Sprintf("y.Contains(x)=%v, leaf sets say %v", got, want), rep)
	}
	if got, want := ux.Intersects(uy), len(sI) > 0; got != want {
		c.Violate("CellUnion.Intersects", fmt.Sprintf("x.Intersects(y)=%v, leaf sets say %v", got, want), rep)
	}
	if got, want := uy.Intersects(ux), len(sI) > 0; got != want {
		c.Violate("CellUnion.Intersects", fmt.Sprintf("y.Intersects(x)=%v, leaf sets say %v", got, want), rep)
	}
	c.Sample(map[string]interface{}{"op": "pair", "class": class, "x": hexs(x), "y": hexs(y), "intersection": hexs(canonical(sI)), "x-y": hexs(canonical(sD))})

	// probes
	var probes []uint64
	if fullProbes {
		for _, cell := range x {
			probes = append(probes, cell, nextSame(cell), prevSame(cell))
			if oLsb(cell) > 1 {
				k := kids(cell)
				probes = append(probes, k[:]...)
			}
			for l := 0; l < oLevel(cell); l++ {
				probes = append(probes, parAt(cell, l))
			}
		}
	}
	probes = append(probes, y...)
	probes = append(probes, g.probes(x, 6)...)
	for _, id := range probes {
		if !oValid(id) {
			continue
		}
		s.probe1(x, sx, id)
	}

	// [T]: the same operations on the normalized pair and on the raw (unsorted, un-normalized) pair
	t := s.t
	for v := 0; v < 2; v++ {
		a, b, cat := x, y, "pair-norm"
		if v == 1 {
			a, b, cat = xraw, yraw, "pair-raw"
		}
		if len(a) > 14 || len(b) > 14 {
			cat += "-big"
		}
		if !t.ok(cat) {
			continue
		}
		s.tPair(a, b)
		ps := g.probes(a, 2)
		if len(b) > 0 {
			ps = append(ps, b[g.n(len(b))])
		}
		for _, id := range ps {
			if oValid(id) {
				s.tProbe(a, id)
			}
		}
	}
}

func (s *S) tPair(a, b []uint64) {
	A, B := zl(a), zl(b)
	s.t.check(lbl("FromUnion", a, b), eqL(vkit.App("cu_FromUnion", vkit.List([]string{A, B})), zl(fromCU(s2.CellUnionFromUnion(toCU(a), toCU(b))))))
	if s.g.n(4) == 0 {
		z, _ := s.g.union(6)
		s.t.check(lbl("FromUnion3", a, b, z), eqL(vkit.App("cu_FromUnion", vkit.List([]string{A, B, zl(z)})), zl(fromCU(s2.CellUnionFromUnion(toCU(a), toCU(b), toCU(z))))))
	}
	var got []uint64
	if p, _ := try(func() { got = fromCU(s2.CellUnionFromIntersection(toCU(a), toCU(b))) }); !p {
		s.t.check(lbl("FromIntersection", a, b), eqL(vkit.App("cu_FromIntersection", A, B), zl(got)))
	}
	if s.cellTestsBroken {
		// skip: see pair1
	} else if p, _ := try(func() { got = fromCU(s2.CellUnionFromDifference(toCU(a), toCU(b))) }); !p && len(got) <= 400 {
		s.t.check(lbl("FromDifference", a, b), eqL(vkit.App("cu_FromDifference", A, B), zl(got)))
	}
	ua, ub := toCU(a), toCU(b)
	var r bool
	if p, _ := try(func() { r = ua.Contains(ub) }); !p {
		s.t.check(lbl("Contains", a, b), eqB(vkit.App("cu_Contains", A, B), r))
	}
	if p, _ := try(func() { r = ua.Intersects(ub) }); !p {
		s.t.check(lbl("Intersects", a, b), eqB(vkit.App("cu_Intersects", A, B), r))
	}
}

func (s *S) tProbe(a []uint64, id uint64) {
	A, I := zl(a), hz(id)
	ua := toCU(a)
	var r bool
	if p, _ := try(func() { r = ua.ContainsCellID(s2.CellID(id)) }); !p {
		s.t.check(lbl(fmt.Sprintf("ContainsCellID %x", id), a), eqB(vkit.App("cu_ContainsCellID", A, I), r))
	}
	if p, _ := try(func() { r = ua.IntersectsCellID(s2.CellID(id)) }); !p {
		s.t.check(lbl(fmt.Sprintf("IntersectsCellID %x", id), a), eqB(vkit.App("cu_IntersectsCellID", A, I), r))
	}
	var got []uint64
	if p, _ := try(func() { got = fromCU(s2.CellUnionFromIntersectionWithCellID(toCU(a), s2.CellID(id))) }); !p {
		s.t.check(lbl(fmt.Sprintf("FromIntersectionWithCellID %x", id), a), eqL(vkit.App("cu_FromIntersectionWithCellID", A, I), zl(got)))
	}
	// lowerBound(begin, end, id) on a random window 0 <= begin <= end <= len
	e := s.g.n(len(a) + 1)
	b := s.g.n(e + 1)
	probe := id
	if s.g.n(2) == 0 {
		probe = oLeafMin(id)
	}
	var lb int
	if p, _ := try(func() { lb = s2.VerifC11LowerBound(toCU(a), b, e, s2.CellID(probe)) }); !p {
		s.t.check(lbl(fmt.Sprintf("lowerBound %d %d %x", b, e, probe), a),
			eqZ(vkit.App("cu_lowerBound", A, vkit.Z(int64(b)), vkit.Z(int64(e)), hz(probe)), vkit.Z(int64(lb))))
	}
}

// probe1: ContainsCellID / IntersectsCellID / ContainsCell / IntersectsCell /
// CellUnionFromIntersectionWithCellID of a NORMALIZED union x (leaf set sx) with one valid id.
func (s *S) probe1(x []uint64, sx lset, id uint64) {
	c := s.c
	r := oIv(id)
	ux := toCU(x)
	rep := map[string]interface{}{"x": hexs(x), "id": fmt.Sprintf("0x%016x", id)}
	wantC, wantI := sx.containsIv(r), sx.intersectsIv(r)
	c.Eval(keyOf("probe", x, []uint64{id}), len(x) >= 2 && wantI)
	if got := ux.ContainsCellID(s2.CellID(id)); got != wantC {
		c.Violate("CellUnion.ContainsCellID", fmt.Sprintf("ContainsCellID=%v, leaf sets say %v", got, wantC), rep)
	}
	if got := ux.IntersectsCellID(s2.CellID(id)); got != wantI {
		c.Violate("CellUnion.IntersectsCellID", fmt.Sprintf("IntersectsCellID=%v, leaf sets say %v", got, wantI), rep)
	}
	if s.g.n(8) == 0 {
		cell := s2.CellFromCellID(s2.CellID(id))
		if ux.ContainsCell(cell) != wantC || ux.IntersectsCell(cell) != wantI {
			c.Violate("CellUnion.ContainsCell", "ContainsCell/IntersectsCell disagree with the leaf sets", rep)
		}
	}
	want := canonical(sx.inter(lset{r}))
	got := fromCU(s2.CellUnionFromIntersectionWithCellID(ux, s2.CellID(id)))
	if !eqIDs(got, want) {
		c.Violate("CellUnion.IntersectionWithCellID", "CellUnionFromIntersectionWithCellID is not the normalized intersection with the cell", rep)
	}
}

// ---- Denormalize ----

func oDenormLevel(level, minLevel, levelMod int) int {
	nl := level
	if nl < minLevel {
		nl = minLevel
	}
	// smallest level >= nl with (level - minLevel) a multiple of levelMod, capped at 30
	for levelMod > 1 && nl < 30 && (nl-minLevel)%levelMod != 0 {
		nl++
	}
	return nl
}

func (s *S) denorm1(in []uint64, class string) {
	c, g := s.c, s.g
	x := canonical(fromCells(in))
	if len(x) == 0 || len(x) > 30 {
		return
	}
	lo := 30
	for _, id := range x {
		if oLevel(id) < lo {
			lo = oLevel(id)
		}
	}
	minLevel := g.n(lo + 4)
	if g.n(4) == 0 {
		minLevel = g.n(31)
	}
	if minLevel > 30 {
		minLevel = 30
	}
	levelMod := 1 + g.n(3)
	var want []uint64
	total := 0
	for _, id := range x {
		nl := oDenormLevel(oLevel(id), minLevel, levelMod)
		if nl-oLevel(id) > 5 {
			return // keep the expansion small
		}
		total += 1 << uint(2*(nl-oLevel(id)))
		if total > 2000 {
			return
		}
		r := oIv(id)
		size := uint64(1) << uint(2*(30-nl))
		for p := r.lo; p < r.hi; p += size {
			want = append(want, cellAt(p, size))
		}
	}
	rep := map[string]interface{}{"x": hexs(x), "minLevel": minLevel, "levelMod": levelMod}
	s.cur = rep
	u := toCU(x)
	u.Denormalize(minLevel, levelMod)
	got := fromCU(u)
	c.Class("denormalize:" + class)
	c.Eval(keyOf(fmt.Sprintf("denorm%d/%d", minLevel, levelMod), x), len(got) != len(x))
	if !fromCells(got).equal(fromCells(x)) {
		c.Violate("CellUnion.Denormalize", "Denormalize changed the covered leaf cells", rep)
	}
	for _, id := range got {
		l := oLevel(id)
		if !oValid(id) || (l < 30 && (l < minLevel || (l-minLevel)%levelMod != 0)) {
			c.Violate("CellUnion.Denormalize", "Denormalize left a cell violating minLevel/levelMod", rep)
			break
		}
	}
	if !eqIDs(got, want) {
		c.Violate("CellUnion.Denormalize", "Denormalize output is not: each cell replaced by its descendants at the first admissible level", rep)
	}
	if s.t.left("denorm") > 0 && len(x) <= 8 {
		// [T] also with level_mod outside 1..3 (0, 4, 5): the code accepts it
		lm := levelMod
		if g.n(3) == 0 {
			lm = []int{0, 4, 5}[g.n(3)]
		}
		total := 0
		for _, id := range x {
			// mirror of the implementation's level rule, only to bound the output size
			nl := oLevel(id)
			if nl < minLevel {
				nl = minLevel
			}
			if lm > 1 {
				nl += (30 - (nl - minLevel)) % lm
			}
			if nl > 30 {
				nl = 30
			}
			if nl-oLevel(id) > 4 {
				total += 1 << 20
			} else {
				total += 1 << uint(2*(nl-oLevel(id)))
			}
		}
		if total <= 150 && s.t.ok("denorm") {
			u := toCU(x)
			u.Denormalize(minLevel, lm)
			s.t.check(lbl(fmt.Sprintf("Denormalize %d %d", minLevel, lm), x),
				eqL(vkit.App("cu_Denormalize", zl(x), vkit.Z(int64(minLevel)), vkit.Z(int64(lm))), zl(fromCU(u))))
		}
	}
}

// ---- CellUnionFromRange / MaxTile ----

// boundary leaves of interesting cells: first leaf, last leaf, leaf after the last
func (g *G) leafNear(c uint64) uint64 {
	var l uint64
	switch g.n(7) {
	case 0:
		l = oLeafMin(c)
	case 1:
		l = oLeafMax(c)
	case 2:
		l = oLeafMax(c) + 2
	case 3:
		l = oLeafMin(c) - 2
	case 4:
		l = oLeafMin(c) + 2*uint64(g.n(6))
	case 5:
		l = oLeafMax(c) - 2*uint64(g.n(6))
	default:
		l = oLeafMin(c) + 2*(g.r.U64()%oLsb(c))
	}
	if l != sentinelLeaf && !oValid(l) {
		return oLeafMin(c)
	}
	return l
}

func (s *S) range1() {
	c, g := s.c, s.g
	var b, e uint64
	class := ""
	switch g.n(7) {
	case 0:
		class = "random-leaves"
		b, e = g.cell(30), g.cell(30)
	case 1:
		class = "same-cell-boundaries"
		p := g.cell(g.level())
		b, e = g.leafNear(p), g.leafNear(p)
	case 2:
		class = "near-cells"
		p := g.cell(g.level())
		q := g.relatives(p, nil, 1)
		if len(q) == 0 {
			q = []uint64{p}
		}
		b, e = g.leafNear(p), g.leafNear(q[0])
	case 3:
		class = "to-sentinel"
		b, e = g.leafNear(g.cell(g.level())), sentinelLeaf
	case 4:
		class = "from-first-leaf"
		b, e = firstLeaf, g.leafNear(g.cell(g.level()))
	case 5:
		class = "faces"
		b = oLeafMin(faceCell(g.n(6)))
		e = oLeafMax(faceCell(g.n(6))) + 2
		if g.n(3) == 0 {
			b, e = firstLeaf, sentinelLeaf
		}
	default:
		class = "short"
		b = g.leafNear(g.cell(g.level()))
		e = b + 2*uint64(g.n(40))
		if e != sentinelLeaf && !oValid(e) {
			e = b
		}
	}
	if b > e {
		b, e = e, b
	}
	if b == sentinelLeaf {
		b = e
	}
	c.Class("range:" + class)
	want := canonical(lset{{b >> 1, e >> 1}})
	if b == e {
		want = []uint64{}
	}
	rep := map[string]interface{}{"begin": fmt.Sprintf("0x%016x", b), "end": fmt.Sprintf("0x%016x", e)}
	s.cur = rep
	got := fromCU(s2.CellUnionFromRange(s2.CellID(b), s2.CellID(e)))
	c.Eval(fmt.Sprintf("range:%x:%x", b, e), len(want) >= 2)
	if !fromCells(got).equal(mkset([]iv{{b >> 1, e >> 1}})) {
		c.Violate("CellUnion.FromRange", "CellUnionFromRange does not cover exactly [begin,end)", rep)
	} else if !eqIDs(got, want) {
		c.Violate("CellUnion.FromRange", "CellUnionFromRange is not the minimal (normalized) tiling of the range", rep)
	}
	if len(got) <= 130 && s.t.ok("range") {
		s.t.check(fmt.Sprintf("FromRange %x %x", b, e), eqL(vkit.App("cu_FromRange", hz(b), hz(e)), zl(got)))
	}
}

func (s *S) maxTile1() {
	c, g := s.c, s.g
	id := g.cell(g.level())
	var limit uint64
	class := ""
	switch g.n(6) {
	case 0:
		class = "random"
		limit = g.cell(g.level())
	case 1:
		class = "leaf-limit-near"
		limit = g.leafNear(id)
	case 2:
		class = "leaf-limit-near-ancestor"
		limit = g.leafNear(parAt(id, g.n(oLevel(id)+1)))
	case 3:
		class = "relative-limit"
		q := g.relatives(id, nil, 1)
		if len(q) == 0 {
			q = []uint64{id}
		}
		limit = q[0]
	case 4:
		class = "sentinel-limit"
		limit = sentinelLeaf
	default:
		class = "end-of-aligned-block"
		// id starts an aligned block; limit is the last leaf of (or first leaf after) an ancestor
		// with the same start: parent.RangeMax() == limit is the boundary of the grow loop
		id = g.descend(g.cellUpTo(26), 1+g.n(4), 0)
		anc := id
		for k := g.n(4); k > 0 && !oIsFace(anc) && oLeafMin(par(anc)) == oLeafMin(id); k-- {
			anc = par(anc)
		}
		limit = oLeafMax(anc)
		if g.n(2) == 0 {
			limit += 2
		}
		if limit != sentinelLeaf && !oValid(limit) {
			limit = oLeafMax(anc)
		}
	}
	c.Class("maxtile:" + class)
	s.cur = map[string]interface{}{"id": fmt.Sprintf("0x%016x", id), "limit": fmt.Sprintf("0x%016x", limit)}
	got := uint64(s2.CellID(id).MaxTile(s2.CellID(limit)))
	start := oLeafMin(id) >> 1
	lim := oLeafMin(limit) >> 1
	var want uint64
	if start >= lim {
		want = limit
	} else {
		size := uint64(1)
		for size < faceSize {
			n := size << 2
			if start%n != 0 || n > lim-start {
				break
			}
			size = n
		}
		want = cellAt(start, size)
	}
	c.Eval(fmt.Sprintf("maxtile:%x:%x", id, limit), start < lim)
	if got != want {
		c.Violate("CellID.MaxTile", fmt.Sprintf("MaxTile=%x, the largest cell starting at id.RangeMin() and ending before limit.RangeMin() (or limit) is %x", got, want),
			map[string]interface{}{"id": fmt.Sprintf("0x%016x", id), "limit": fmt.Sprintf("0x%016x", limit)})
	}
	if s.t.ok("maxtile") {
		s.t.check(fmt.Sprintf("MaxTile %x %x", id, limit), eqZ(vkit.App("cu_MaxTile", hz(id), hz(limit)), hz(got)))
	}
}
