package main

// Single-id leaf functions of s2/cellid.go and areSiblings: [T] correspondence with the
// translated definitions in Gen/CellID.v (including invalid ids, where the functions are
// still total bit arithmetic), and cheap [S] sanity checks on valid ids.

import (
	"fmt"

	"github.com/golang/geo/s2"
	"verifharness/internal/vkit"
)

func (s *S) leafFns(budget int) {
	c, g := s.c, s.g
	var ids []uint64
	for i := 0; i < 26*budget; i++ {
		ids = append(ids, g.cell(g.level()))
	}
	ids = append(ids, firstLeaf, lastLeaf, faceCell(0), faceCell(5), oLeafMax(faceCell(2)), oLeafMin(faceCell(3)))
	nValid := len(ids)
	ids = append(ids, g.invalidIDs()...)
	for k, id := range ids {
		valid := k < nValid
		if valid {
			c.Class("id:valid")
		} else {
			c.Class("id:invalid")
		}
		ci := s2.CellID(id)
		I := hz(id)
		tag := fmt.Sprintf(" %x", id)
		c.Eval("id:"+tag, true)
		chk := func(name, term string) { s.t.check(name+tag, term) }
		chk("lsb", eqZ(vkit.App("s2_CellID_lsb", I), hz(s2.VerifC11Lsb(ci))))
		chk("Level", eqZ(vkit.App("s2_CellID_Level", I), vkit.Z(int64(ci.Level()))))
		chk("Face", eqZ(vkit.App("s2_CellID_Face", I), vkit.Z(int64(ci.Face()))))
		chk("IsValid", eqB(vkit.App("s2_CellID_IsValid", I), ci.IsValid()))
		chk("IsLeaf", eqB(vkit.App("s2_CellID_IsLeaf", I), ci.IsLeaf()))
		chk("isFace", eqB(vkit.App("s2_CellID_isFace", I), s2.VerifC11IsFace(ci)))
		chk("RangeMin", eqZ(vkit.App("s2_CellID_RangeMin", I), hz(uint64(ci.RangeMin()))))
		chk("RangeMax", eqZ(vkit.App("s2_CellID_RangeMax", I), hz(uint64(ci.RangeMax()))))
		chk("immediateParent", eqZ(vkit.App("s2_CellID_immediateParent", I), hz(uint64(s2.VerifC11ImmediateParent(ci)))))
		chk("ChildBegin", eqZ(vkit.App("s2_CellID_ChildBegin", I), hz(uint64(ci.ChildBegin()))))
		chk("ChildEnd", eqZ(vkit.App("s2_CellID_ChildEnd", I), hz(uint64(ci.ChildEnd()))))
		chk("Next", eqZ(vkit.App("s2_CellID_Next", I), hz(uint64(ci.Next()))))
		chk("Prev", eqZ(vkit.App("s2_CellID_Prev", I), hz(uint64(ci.Prev()))))
		ch := ci.Children()
		chk("Children", eqL(vkit.App("s2_CellID_Children", I), zl([]uint64{uint64(ch[0]), uint64(ch[1]), uint64(ch[2]), uint64(ch[3])})))
		lv := g.n(31)
		L := vkit.Z(int64(lv))
		chk(fmt.Sprintf("Parent@%d", lv), eqZ(vkit.App("s2_CellID_Parent", I, L), hz(uint64(ci.Parent(lv)))))
		chk(fmt.Sprintf("ChildBeginAtLevel@%d", lv), eqZ(vkit.App("s2_CellID_ChildBeginAtLevel", I, L), hz(uint64(ci.ChildBeginAtLevel(lv)))))
		chk(fmt.Sprintf("ChildEndAtLevel@%d", lv), eqZ(vkit.App("s2_CellID_ChildEndAtLevel", I, L), hz(uint64(ci.ChildEndAtLevel(lv)))))
		chk(fmt.Sprintf("lsbForLevel@%d", lv), eqZ(vkit.App("s2_lsbForLevel", L), hz(s2.VerifC11LsbForLevel(lv))))
		// a second id: relative, random or invalid
		var other uint64
		switch {
		case !valid || g.n(5) == 0:
			other = ids[g.n(len(ids))]
		default:
			rel := g.relatives(id, nil, 1)
			if len(rel) == 0 {
				rel = []uint64{id}
			}
			other = rel[0]
		}
		O := hz(other)
		oc := s2.CellID(other)
		s.t.check(fmt.Sprintf("Contains %x %x", id, other), eqB(vkit.App("s2_CellID_Contains", I, O), ci.Contains(oc)))
		s.t.check(fmt.Sprintf("Intersects %x %x", id, other), eqB(vkit.App("s2_CellID_Intersects", I, O), ci.Intersects(oc)))

		if !valid {
			if ci.IsValid() != oValid(id) {
				c.Violate("CellID.IsValid", "IsValid disagrees with: face < 6 and lowest set bit at an even position <= 60", fmt.Sprintf("0x%016x", id))
			}
			continue
		}
		// [S] leaf functions on valid ids against the leaf-interval reading of an id
		rep := fmt.Sprintf("0x%016x", id)
		r := oIv(id)
		if !ci.IsValid() || uint64(ci.RangeMin()) != posLeaf(r.lo) || uint64(ci.RangeMax()) != posLeaf(r.hi-1) || ci.Level() != oLevel(id) ||
			ci.IsLeaf() != (r.hi-r.lo == 1) || ci.Face() != int(r.lo/faceSize) {
			c.Violate("CellID.Range", "IsValid/RangeMin/RangeMax/Level/IsLeaf/Face disagree with the leaf interval of the id", rep)
		}
		if oLsb(id) > 1 {
			// the four children partition the cell, in order
			p := r.lo
			for _, k := range ch {
				kr := oIv(uint64(k))
				if kr.lo != p || kr.hi-kr.lo != (r.hi-r.lo)/4 {
					c.Violate("CellID.Children", "Children do not partition the cell into four equal consecutive ranges", rep)
					break
				}
				p = kr.hi
			}
			if uint64(ci.ChildBegin()) != uint64(ch[0]) || uint64(ci.ChildEnd()) != uint64(ch[3].Next()) {
				c.Violate("CellID.Children", "ChildBegin/ChildEnd disagree with Children", rep)
			}
		}
		if !oIsFace(id) {
			pr := oIv(uint64(s2.VerifC11ImmediateParent(ci)))
			if !(pr.lo <= r.lo && r.hi <= pr.hi && pr.hi-pr.lo == 4*(r.hi-r.lo) && pr.lo%(pr.hi-pr.lo) == 0) {
				c.Violate("CellID.Parent", "immediateParent is not the aligned cell of four times the size containing the id", rep)
			}
		}
		if oValid(other) {
			or := oIv(other)
			if ci.Contains(oc) != (r.lo <= or.lo && or.hi <= r.hi) || ci.Intersects(oc) != (r.lo < or.hi && or.lo < r.hi) {
				c.Violate("CellID.Contains", "Contains/Intersects of two ids disagree with their leaf intervals", []string{rep, fmt.Sprintf("0x%016x", other)})
			}
		}
		if nx := uint64(ci.Next()); oValid(nx) && (oIv(nx).lo != r.hi || oLsb(nx) != oLsb(id)) {
			c.Violate("CellID.Next", "Next is not the following cell of the same level", rep)
		}
	}
}

// areSiblings: [S] on distinct valid ids (the documented precondition) vs "the four children of
// one cell"; [T] on everything, also repeated ids.
func (s *S) siblings(budget int) {
	c, g := s.c, s.g
	for k := 0; k < siblingsN(budget); k++ {
		var q [4]uint64
		class := ""
		switch g.n(12) {
		case 0:
			class = "true-siblings"
			q = kids(g.cellUpTo(29))
		case 1:
			class = "true-siblings-permuted"
			ks := kids(g.cellUpTo(29))
			v := g.shuffle(ks[:])
			copy(q[:], v)
		case 2, 3:
			class = "xor-nearmiss"
			v := g.unionOf("xor-nearmiss", 4)
			if len(v) != 4 {
				continue
			}
			if g.n(2) == 0 {
				v = sortedCopy(v)
			}
			copy(q[:], v)
		case 4:
			class = "straddle4"
			copy(q[:], g.unionOf("straddle4", 4))
		case 5:
			class = "adjacent-nonsibling"
			copy(q[:], g.unionOf("adjacent-nonsibling", 4)[:4])
		case 6:
			class = "repeated-ids"
			ks := kids(g.cellUpTo(29))
			a, b := ks[g.n(4)], ks[g.n(4)]
			if g.n(3) == 0 {
				b = g.cell(g.level())
			}
			q = [][4]uint64{{a, a, b, b}, {a, b, a, b}, {a, b, b, a}, {a, a, a, a}}[g.n(4)]
		case 7:
			class = "faces"
			f := []int{0, 1, 2, 3, 4, 5}
			for i := 5; i > 0; i-- {
				j := g.n(i + 1)
				f[i], f[j] = f[j], f[i]
			}
			if g.n(2) == 0 {
				f = []int{0, 1, 2, 3}
			}
			q = [4]uint64{faceCell(f[0]), faceCell(f[1]), faceCell(f[2]), faceCell(f[3])}
		case 8:
			class = "three-children+parent-or-grandchild"
			p := g.cellUpTo(28)
			ks := kids(p)
			q = ks
			if g.n(2) == 0 {
				q[g.n(4)] = p
			} else {
				i := g.n(4)
				q[i] = kids(ks[i])[g.n(4)]
			}
		case 9:
			class = "level-1-children-of-a-face"
			q = kids(faceCell(g.n(6)))
		case 10:
			class = "leaf-siblings"
			q = kids(g.cell(29))
		default:
			class = "random"
			for i := range q {
				q[i] = g.cell(g.level())
			}
		}
		c.Class("areSiblings:" + class)
		got := s2.VerifC11AreSiblings(s2.CellID(q[0]), s2.CellID(q[1]), s2.CellID(q[2]), s2.CellID(q[3]))
		distinct := q[0] != q[1] && q[0] != q[2] && q[0] != q[3] && q[1] != q[2] && q[1] != q[3] && q[2] != q[3]
		c.Eval(fmt.Sprintf("sib:%x", q), q[0]^q[1]^q[2] == q[3])
		if distinct {
			if want := oFourChildren(q[0], q[1], q[2], q[3]); got != want {
				c.Violate("CellUnion.areSiblings", fmt.Sprintf("areSiblings=%v on distinct ids, four-children-of-one-cell is %v", got, want), hexs(q[:]))
			}
		}
		s.t.check(fmt.Sprintf("areSiblings %x", q), eqB(vkit.App("s2_areSiblings", hz(q[0]), hz(q[1]), hz(q[2]), hz(q[3])), got))
	}
}

// siblingsN: number of areSiblings quadruples (quick keeps every construction class)
func siblingsN(budget int) int {
	if budget <= 1 {
		return 120
	}
	return 240 * budget
}
