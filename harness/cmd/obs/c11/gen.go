package main

// Input generators for C11.  All randomness comes from the run's single Rng.  Generators only
// build VALID cell ids (except invalidIDs, used for the single-id leaf functions and
// IsValid/IsNormalized).  The id arithmetic here (kids/par/...) is written out by hand so the
// generators do not depend on the functions under test either.

import (
	"fmt"
	"sort"

	"github.com/golang/geo/s2"
	"verifharness/internal/vkit"
)

type G struct {
	r *vkit.Rng
	c *vkit.Collector
}

func (g *G) n(k int) int { return g.r.Intn(k) }

func kids(c uint64) [4]uint64 {
	l := oLsb(c)
	q := l >> 2
	var ch [4]uint64
	for k := uint64(0); k < 4; k++ {
		ch[k] = c - l + q + k*(q<<1)
	}
	return ch
}
func par(c uint64) uint64 { n := oLsb(c) << 2; return (c & -n) | n }
func parAt(c uint64, level int) uint64 {
	l := uint64(1) << uint(2*(30-level))
	return (c & -l) | l
}
func nextSame(c uint64) uint64 { return c + oLsb(c)<<1 }
func prevSame(c uint64) uint64 { return c - oLsb(c)<<1 }
func faceCell(f int) uint64    { return uint64(f)<<61 | faceSize }

// level with a bias to the extremes
func (g *G) level() int {
	switch g.n(10) {
	case 0:
		return 0
	case 1:
		return 30
	case 2:
		return 1
	case 3:
		return 29
	}
	return g.n(31)
}

// cell: random face / 61-bit position at the given level; position biased to the ends of a face.
func (g *G) cell(level int) uint64 {
	pos := g.r.U64() & (1<<61 - 1)
	switch g.n(8) {
	case 0:
		pos = 0
	case 1:
		pos = 1<<61 - 1
	}
	return uint64(s2.CellIDFromFacePosLevel(g.n(6), pos, level))
}

// cellUpTo: a cell of level <= maxLevel (so that maxLevel-level deeper levels exist below it)
func (g *G) cellUpTo(maxLevel int) uint64 {
	if g.n(4) == 0 {
		return g.cell(maxLevel) // the deeper levels then end exactly at the leaf level
	}
	l := g.level()
	if l > maxLevel {
		l = g.n(maxLevel + 1)
	}
	return g.cell(l)
}

func (g *G) shuffle(ids []uint64) []uint64 {
	for i := len(ids) - 1; i > 0; i-- {
		j := g.n(i + 1)
		ids[i], ids[j] = ids[j], ids[i]
	}
	return ids
}

func (g *G) descend(c uint64, steps int, mode int) uint64 {
	for s := 0; s < steps && oLsb(c) > 1; s++ {
		k := g.n(4)
		switch mode {
		case 0:
			k = 0
		case 3:
			k = 3
		case 2:
			k = 2 + g.n(2) // upper half
		case 1:
			k = g.n(2) // lower half
		}
		c = kids(c)[k]
	}
	return c
}

// expand: cells whose union is exactly p; each child is kept or expanded again (depth levels).
func (g *G) expand(p uint64, depth int, prob int) []uint64 {
	if depth == 0 || oLsb(p) == 1 {
		return []uint64{p}
	}
	var out []uint64
	for _, k := range kids(p) {
		if g.n(prob) == 0 {
			out = append(out, g.expand(k, depth-1, prob)...)
		} else {
			out = append(out, k)
		}
	}
	return out
}

// cascade: 3 children + recursion into one child, depth levels deep, ending with 4 children:
// merging the deepest group must cascade all the way up to p.
func (g *G) cascade(p uint64, depth int) []uint64 {
	k := kids(p)
	if depth <= 1 || oLsb(k[0]) == 1 {
		return k[:]
	}
	w := g.n(4)
	if g.n(3) == 0 {
		w = 3 // the cascade is then triggered by the very last cell in sorted order
	}
	var out []uint64
	for i := 0; i < 4; i++ {
		if i == w {
			out = append(out, g.cascade(k[i], depth-1)...)
		} else {
			out = append(out, k[i])
		}
	}
	return out
}

func trunc(ids []uint64, n int) []uint64 {
	if len(ids) > n {
		return ids[:n]
	}
	return ids
}

// tinySet: a random subset of the 4^d equal units below base, as intervals of leaf positions.
// Adjacent/abutting/one-unit runs are frequent, which is what stresses the boundary handling.
func (g *G) tinySet(base uint64, d int) lset {
	r := oIv(base)
	nUnits := uint64(1) << uint(2*d)
	unit := (r.hi - r.lo) / nUnits
	var ivs []iv
	p := uint64(g.n(4))
	if g.n(3) == 0 {
		p = 0
	}
	dense := g.n(3)
	for p < nUnits {
		ln := uint64(1 + g.n(6))
		if dense == 0 {
			ln = uint64(1 + g.n(2))
		} else if dense == 2 && g.n(3) == 0 {
			ln = uint64(1 + g.n(int(nUnits)))
		}
		q := p + ln
		if q > nUnits {
			q = nUnits
		}
		ivs = append(ivs, iv{r.lo + p*unit, r.lo + q*unit})
		p = q + uint64(g.n(5)) // gap 0 = abutting runs (coalesce)
		if dense == 0 {
			p = q + uint64(1+g.n(2))
		}
	}
	return mkset(ivs)
}

// roughen: same leaf set, but un-normalized: some cells split into children (recursively),
// duplicates and contained descendants added, order shuffled.
func (g *G) roughen(ids []uint64, maxN int) []uint64 {
	out := []uint64{}
	for _, c := range ids {
		switch g.n(6) {
		case 0:
			out = append(out, g.expand(c, 1+g.n(2), 2)...)
		case 1:
			out = append(out, c, c)
		case 2:
			out = append(out, c, g.descend(c, 1+g.n(3), g.n(5)))
		default:
			out = append(out, c)
		}
	}
	if len(out) > maxN {
		return g.shuffle(append([]uint64{}, ids...))
	}
	return g.shuffle(out)
}

// ---- single-union generator classes ----

var unionClasses = []string{"random", "cluster", "siblings", "sixteen", "three+four", "cascade", "cascade-broken",
	"face-cascade", "faces", "chain", "dups", "adjacent-nonsibling", "straddle4", "xor-nearmiss", "extremes",
	"tiny-normal", "tiny-rough", "mixture", "empty-or-one"}

func (g *G) unionOf(class string, maxN int) []uint64 {
	var out []uint64
	switch class {
	case "random":
		for i, n := 0, g.n(maxN+1); i < n; i++ {
			out = append(out, g.cell(g.level()))
		}
	case "cluster":
		// random cells 0..depth levels below one base: frequent containment, duplicates,
		// complete sibling groups and multi-level cascades
		depth := 1 + g.n(3)
		base := g.cellUpTo(30 - depth)
		for i, n := 0, 2+g.n(maxN-1); i < n; i++ {
			d := 1 + g.n(depth)
			if g.n(12) == 0 {
				d = 0
			}
			out = append(out, g.descend(base, d, 4))
		}
	case "siblings":
		for grp := 0; grp < 1+g.n(3); grp++ {
			k := kids(g.cellUpTo(29))
			out = append(out, k[:]...)
		}
	case "sixteen":
		for _, k := range kids(g.cellUpTo(28)) {
			kk := kids(k)
			out = append(out, kk[:]...)
		}
	case "three+four":
		p := g.cellUpTo(28)
		w := g.n(4)
		for i, k := range kids(p) {
			if i == w {
				kk := kids(k)
				out = append(out, kk[:]...)
			} else {
				out = append(out, k)
			}
		}
	case "cascade":
		depth := 2 + g.n(12)
		out = g.cascade(g.cellUpTo(28), depth)
	case "cascade-broken":
		// a cascade with one cell removed / replaced by a descendant / by a non-sibling neighbour
		out = g.cascade(g.cellUpTo(28), 2+g.n(6))
		i := g.n(len(out))
		switch g.n(3) {
		case 0:
			out = append(out[:i], out[i+1:]...)
		case 1:
			if oLsb(out[i]) > 1 {
				out[i] = g.descend(out[i], 1+g.n(2), 4)
			}
		case 2:
			if q := nextSame(nextSame(nextSame(nextSame(out[i])))); oValid(q) {
				out[i] = q
			}
		}
	case "face-cascade":
		// cascades that end in a whole face, with the other faces present or not
		f := g.n(6)
		if g.n(2) == 0 {
			out = g.cascade(faceCell(f), 1+g.n(14))
		} else {
			out = g.expand(faceCell(f), 1+g.n(3), 3)
		}
		for o := 0; o < 6; o++ {
			if o != f && g.n(2) == 0 {
				out = append(out, faceCell(o))
			}
		}
	case "faces":
		// whole faces: all six, the first four (XOR of faces 0,1,2 is face 3), random subsets
		switch g.n(4) {
		case 0:
			for f := 0; f < 6; f++ {
				out = append(out, faceCell(f))
			}
		case 1:
			for f := 0; f < 4; f++ {
				out = append(out, faceCell(f))
			}
		case 2:
			for f := 0; f < 6; f++ {
				if g.n(2) == 0 {
					out = append(out, faceCell(f))
				} else {
					out = append(out, g.expand(faceCell(f), 1, 4)...)
				}
			}
		default:
			for f := 0; f < 6; f++ {
				if g.n(3) != 0 {
					out = append(out, faceCell(f))
				}
			}
		}
	case "chain":
		c := g.cell(g.level())
		out = append(out, c)
		for i, n := 0, 1+g.n(6); i < n; i++ {
			if g.n(2) == 0 {
				out = append(out, parAt(c, g.n(oLevel(c)+1)))
			} else {
				out = append(out, g.descend(c, 1+g.n(6), g.n(5)))
			}
		}
	case "dups":
		base := g.unionOf(unionClasses[g.n(8)], maxN/2)
		out = append(out, base...)
		for _, c := range base {
			if g.n(2) == 0 {
				out = append(out, c)
			}
		}
	case "adjacent-nonsibling":
		// children 1,2,3 of p then child 0 of the next cell at p's level
		p := g.cellUpTo(29)
		q := nextSame(p)
		if !oValid(q) {
			q, p = p, prevSame(p)
		}
		kp, kq := kids(p), kids(q)
		out = []uint64{kp[1], kp[2], kp[3], kq[0]}
		if g.n(2) == 0 {
			out = append(out, kq[1], kq[2], kq[3]) // ... and now q's children are complete
		}
		if g.n(3) == 0 {
			out = append(out, kp[0])
		}
	case "straddle4":
		// 4 consecutive same-level cells that straddle a parent boundary
		p := g.cellUpTo(29)
		q := nextSame(p)
		if !oValid(q) {
			q, p = p, prevSame(p)
		}
		kp, kq := kids(p), kids(q)
		s := 1 + g.n(3)
		all := append(kp[:], kq[:]...)
		out = append(out, all[s:s+4]...)
	case "xor-nearmiss":
		// a,b under parent P1 and c,d under parent P2 != P1 with child positions {0,1,2,3}:
		// a^b^c == d holds although they are not siblings.  P2 is a sibling of P1 or differs from
		// it in one higher bit pair.
		for tries := 0; tries < 20 && out == nil; tries++ {
			p1 := g.cellUpTo(29)
			if oIsFace(p1) && g.n(4) != 0 {
				continue
			}
			var p2 uint64
			if g.n(2) == 0 && !oIsFace(p1) {
				p2 = kids(par(p1))[g.n(4)]
			} else {
				// flip one bit pair (or face bits) above p1's own child-position bits
				lvl := oLevel(p1)
				m := g.n(lvl + 1) // level whose child-position bits are flipped; 0 = face bits
				if m == 0 {
					p2 = p1 ^ uint64(1+g.n(7))<<61
				} else {
					p2 = p1 ^ uint64(1+g.n(3))<<uint(2*(30-m)+1)
				}
			}
			if p2 == p1 || !oValid(p2) {
				continue
			}
			k1, k2 := kids(p1), kids(p2)
			perm := [][4]int{{0, 1, 2, 3}, {0, 2, 1, 3}, {0, 3, 1, 2}, {2, 3, 0, 1}, {1, 3, 0, 2}, {1, 2, 0, 3}}[g.n(6)]
			out = []uint64{k1[perm[0]], k1[perm[1]], k2[perm[2]], k2[perm[3]]}
		}
	case "extremes":
		// first / last cell of a face at several levels, first / last leaf of the id space
		cands := []uint64{firstLeaf, lastLeaf}
		f := g.n(6)
		first, last := oLeafMin(faceCell(f)), oLeafMax(faceCell(f))
		for l := 0; l <= 30; l++ {
			cands = append(cands, parAt(first, l), parAt(last, l))
		}
		for i, n := 0, 1+g.n(10); i < n; i++ {
			out = append(out, cands[g.n(len(cands))])
		}
	case "tiny-normal":
		d := 2 + g.n(2)
		out = canonical(g.tinySet(g.cellUpTo(30-d), d))
	case "tiny-rough":
		d := 2 + g.n(2)
		out = g.roughen(canonical(g.tinySet(g.cellUpTo(30-d), d)), maxN)
	case "mixture":
		for i, n := 0, 2+g.n(3); i < n; i++ {
			out = append(out, g.unionOf(unionClasses[g.n(len(unionClasses)-2)], maxN/2)...)
		}
	case "empty-or-one":
		if g.n(2) == 0 {
			out = []uint64{g.cell(g.level())}
		}
	default:
		panic("unknown class " + class)
	}
	out = trunc(out, maxN)
	for _, c := range out {
		if !oValid(c) {
			panic(fmt.Sprintf("generator %s produced invalid id %x", class, c))
		}
	}
	return out
}

// union picks a class, records it, and returns the ids in shuffled order.
func (g *G) union(maxN int) ([]uint64, string) {
	class := unionClasses[g.n(len(unionClasses))]
	g.c.Class("union:" + class)
	return g.shuffle(g.unionOf(class, maxN)), class
}

// ---- related pairs ----

var pairClasses = []string{"independent", "related", "children-subset", "nest0", "nest3", "nest-upper", "skip-pattern",
	"before", "tiny-pair", "tiny-pair-shifted", "same", "one-empty", "face-vs-small"}

// relatives of one cell: the cells a set operation can confuse it with
func (g *G) relatives(c uint64, out []uint64, k int) []uint64 {
	for i := 0; i < k; i++ {
		switch g.n(13) {
		case 0:
			out = append(out, c)
		case 1:
			out = append(out, g.descend(c, 1+g.n(3), 0))
		case 2:
			out = append(out, g.descend(c, 1+g.n(3), 3))
		case 3:
			out = append(out, g.descend(c, 1+g.n(3), 4))
		case 4:
			out = append(out, parAt(c, g.n(oLevel(c)+1)))
		case 5:
			if !oIsFace(c) {
				out = append(out, kids(par(c))[g.n(4)])
			}
		case 6:
			if q := nextSame(c); oValid(q) {
				out = append(out, q)
			}
		case 7:
			if q := prevSame(c); oValid(q) {
				out = append(out, q)
			}
		case 8:
			// the leaf just before / after c's range, or an ancestor of it a few levels up
			var l uint64
			if g.n(2) == 0 {
				l = oLeafMin(c) - 2
			} else {
				l = oLeafMax(c) + 2
			}
			if oValid(l) {
				out = append(out, parAt(l, 30-g.n(4)))
			}
		case 9:
			for _, kc := range kids(c) {
				if oLsb(c) > 1 && g.n(2) == 0 {
					out = append(out, kc)
				}
			}
		case 10:
			if q := nextSame(c); oValid(q) && !oIsFace(q) {
				out = append(out, par(q))
			}
		case 11:
			out = append(out, g.descend(c, 1+g.n(3), 2)) // upper half: id > centre
		case 12:
			out = append(out, g.descend(c, 1+g.n(3), 1)) // lower half
		}
	}
	return out
}

func (g *G) pair(maxN int) (x, y []uint64, class string) {
	class = pairClasses[g.n(len(pairClasses))]
	g.c.Class("pair:" + class)
	switch class {
	case "independent":
		x, _ = g.union(maxN)
		y, _ = g.union(maxN)
	case "related":
		x, _ = g.union(maxN / 2)
		for _, c := range x {
			if g.n(3) != 0 {
				y = g.relatives(c, y, 1+g.n(3))
			}
		}
		if g.n(4) == 0 {
			y = append(y, g.cell(g.level()))
		}
	case "children-subset":
		x, _ = g.union(maxN / 3)
		for _, c := range x {
			for _, k := range kids(c) {
				if oLsb(c) > 1 && g.n(3) != 0 {
					y = append(y, k)
				}
			}
		}
	case "nest0", "nest3", "nest-upper":
		// y cells first; x cells nested inside them along child position 0.. / 3.. / upper half,
		// plus x cells in the gaps before/after (these are skipped over by lowerBound)
		mode := map[string]int{"nest0": 0, "nest3": 3, "nest-upper": 2}[class]
		y, _ = g.union(maxN / 3)
		for _, c := range y {
			if g.n(4) != 0 {
				x = append(x, g.descend(c, 1+g.n(4), mode))
			}
			if g.n(3) == 0 {
				x = g.relatives(c, x, 1)
			}
		}
		if g.n(2) == 0 {
			x, y = y, x
		}
	case "skip-pattern":
		// for each group: big cell B in one union; in the other a cell D entirely before B,
		// then cells in the upper half of B (D is skipped, B must be put back), or cells in the
		// lower half of B right after D (must not be skipped)
		for grp, ng := 0, 1+g.n(4); grp < ng; grp++ {
			b := g.cellUpTo(27)
			var before []uint64
			if l := oLeafMin(b) - 2; oValid(l) {
				for i, n := 0, 1+g.n(3); i < n; i++ {
					before = append(before, parAt(l-uint64(i)*8, 30-g.n(3)))
				}
			}
			var inside []uint64
			for i, n := 0, 1+g.n(3); i < n; i++ {
				inside = append(inside, g.descend(b, 1+g.n(3), 1+g.n(2)))
			}
			switch g.n(3) {
			case 0: // x = {b}, y = before + inside
				x = append(x, b)
				y = append(append(y, before...), inside...)
			case 1: // y = before + {b}, x = inside
				y = append(append(y, before...), b)
				x = append(x, inside...)
			default: // both have cells before
				x = append(append(x, before...), inside...)
				y = append(append(y, before...), b)
			}
		}
		if g.n(2) == 0 {
			x, y = y, x
		}
	case "before":
		base := g.cellUpTo(26)
		nb := nextSame(base)
		if !oValid(nb) {
			nb, base = base, prevSame(base)
		}
		for i, n := 0, g.n(maxN/2); i < n; i++ {
			x = append(x, g.descend(base, 1+g.n(4), 4))
		}
		for i, n := 0, g.n(maxN/2); i < n; i++ {
			y = append(y, g.descend(nb, 1+g.n(4), 4))
		}
		if g.n(2) == 0 {
			x, y = y, x
		}
	case "tiny-pair":
		d := 2 + g.n(2)
		base := g.cellUpTo(30 - d)
		x = canonical(g.tinySet(base, d))
		y = canonical(g.tinySet(base, d))
	case "tiny-pair-shifted":
		// y lives in a sub-cell / the parent / the neighbour of x's universe
		d := 2
		base := g.cellUpTo(27)
		x = canonical(g.tinySet(base, d+g.n(2)))
		switch g.n(3) {
		case 0:
			y = canonical(g.tinySet(kids(base)[g.n(4)], d))
		case 1:
			if !oIsFace(base) {
				y = canonical(g.tinySet(par(base), d))
			}
		case 2:
			if q := nextSame(base); oValid(q) {
				y = canonical(g.tinySet(q, d))
			}
		}
	case "same":
		x, _ = g.union(maxN)
		y = append([]uint64{}, x...)
		if g.n(2) == 0 && len(y) > 0 {
			i := g.n(len(y))
			y = append(y[:i], y[i+1:]...)
		}
	case "one-empty":
		x, _ = g.union(maxN)
		if g.n(2) == 0 {
			x, y = y, x
		}
		if g.n(6) == 0 {
			x, y = nil, nil
		}
	case "face-vs-small":
		for f := 0; f < 6; f++ {
			if g.n(2) == 0 {
				x = append(x, faceCell(f))
			}
		}
		y, _ = g.union(maxN / 2)
		if g.n(2) == 0 {
			x, y = y, x
		}
	}
	x, y = trunc(x, maxN), trunc(y, maxN)
	if g.n(4) != 0 {
		g.shuffle(x)
		g.shuffle(y)
	}
	for _, c := range append(append([]uint64{}, x...), y...) {
		if !oValid(c) {
			panic(fmt.Sprintf("pair generator %s produced invalid id %x", class, c))
		}
	}
	return x, y, class
}

// probes for ContainsCellID / IntersectsCellID around a union
func (g *G) probes(x []uint64, k int) []uint64 {
	var out []uint64
	for i := 0; i < k; i++ {
		if len(x) == 0 || g.n(6) == 0 {
			out = append(out, g.cell(g.level()))
			continue
		}
		out = g.relatives(x[g.n(len(x))], out, 1)
	}
	return out
}

// ---- ids for the single-id leaf functions ----

func (g *G) invalidIDs() []uint64 {
	out := []uint64{0, ^uint64(0), 6<<61 | faceSize, 7<<61 | faceSize, sentinelLeaf, 1 << 63, 1 << 62, 1 << 61, 2, 8, 3 << 60,
		6<<61 | 1, 7<<61 | 5, 5<<61 | 2, 1<<61 | 1<<59}
	for i := 0; i < 6; i++ {
		// lsb at an odd bit position
		c := g.r.U64()
		b := uint(2*g.n(31) + 1)
		c = (c &^ (uint64(1)<<(b+1) - 1)) | 1<<b
		out = append(out, c)
	}
	for i := 0; i < 4; i++ {
		// face 6 or 7 with a well-placed lsb
		c := g.cell(g.level())
		out = append(out, c&(1<<61-1)|uint64(6+g.n(2))<<61)
	}
	return out
}

func sortedCopy(ids []uint64) []uint64 {
	out := append([]uint64{}, ids...)
	sort.Slice(out, func(i, j int) bool { return out[i] < out[j] })
	return out
}
