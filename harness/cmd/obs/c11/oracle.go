package main

// Independent oracle for property C11: the leaf-interval model of cell unions.
//
// Nothing in this file calls the code under test (no s2 import at all).  A cell id c with
// lsb = c & -c covers the closed interval of leaf ids [c-(lsb-1), c+(lsb-1)].  Leaf ids are
// odd; the leaf id l sits at "leaf position" l>>1, so cell c covers the half-open interval of
// positions [(c-lsb)/2, (c+lsb)/2), which has length lsb = 4^(30-level).  The whole id space is
// positions [0, 6*2^60); face k is [k*2^60, (k+1)*2^60).

import (
	"fmt"
	"math/bits"
	"sort"
)

const (
	faceSize     = uint64(1) << 60
	numPos       = uint64(6) << 60
	firstLeaf    = uint64(1)
	lastLeaf     = uint64(6)<<61 - 1
	sentinelLeaf = uint64(6)<<61 | 1 // CellIDFromFace(5).ChildEndAtLevel(30)
)

func oLsb(c uint64) uint64 { return c & -c }

// oValid: face < 6 and the lowest set bit is at an even position <= 60.
func oValid(c uint64) bool {
	if c == 0 || c>>61 >= 6 {
		return false
	}
	tz := bits.TrailingZeros64(c)
	return tz%2 == 0 && tz <= 60
}
func oLevel(c uint64) int      { return 30 - bits.TrailingZeros64(c)/2 }
func oLeafMin(c uint64) uint64 { return c - (oLsb(c) - 1) }
func oLeafMax(c uint64) uint64 { return c + (oLsb(c) - 1) }
func oIsFace(c uint64) bool    { return oLsb(c) == faceSize }

type iv struct{ lo, hi uint64 } // half-open, in leaf positions

func oIv(c uint64) iv { l := oLsb(c); return iv{(c - l) >> 1, (c + l) >> 1} }

// cellAt is the cell of size `size` (a power of 4) starting at position p (p divisible by size).
func cellAt(p, size uint64) uint64 { return p<<1 + size }
func posLeaf(p uint64) uint64      { return p<<1 | 1 }

// lset is a set of leaf positions: sorted, pairwise disjoint, non-adjacent, non-empty intervals.
type lset []iv

func mkset(ivs []iv) lset {
	tmp := make([]iv, 0, len(ivs))
	for _, x := range ivs {
		if x.lo < x.hi {
			tmp = append(tmp, x)
		}
	}
	sort.Slice(tmp, func(i, j int) bool {
		if tmp[i].lo != tmp[j].lo {
			return tmp[i].lo < tmp[j].lo
		}
		return tmp[i].hi < tmp[j].hi
	})
	var out lset
	for _, x := range tmp {
		if n := len(out); n > 0 && x.lo <= out[n-1].hi {
			if x.hi > out[n-1].hi {
				out[n-1].hi = x.hi
			}
			continue
		}
		out = append(out, x)
	}
	return out
}

func fromCells(ids []uint64) lset {
	ivs := make([]iv, 0, len(ids))
	for _, c := range ids {
		ivs = append(ivs, oIv(c))
	}
	return mkset(ivs)
}

func (a lset) union(b lset) lset {
	return mkset(append(append([]iv{}, a...), b...))
}

func (a lset) inter(b lset) lset {
	var out []iv
	i, j := 0, 0
	for i < len(a) && j < len(b) {
		lo, hi := a[i].lo, a[i].hi
		if b[j].lo > lo {
			lo = b[j].lo
		}
		if b[j].hi < hi {
			hi = b[j].hi
		}
		if lo < hi {
			out = append(out, iv{lo, hi})
		}
		if a[i].hi < b[j].hi {
			i++
		} else {
			j++
		}
	}
	return mkset(out)
}

func (a lset) minus(b lset) lset {
	var out []iv
	j := 0
	for _, x := range a {
		lo := x.lo
		for j < len(b) && b[j].hi <= lo {
			j++
		}
		for k := j; k < len(b) && b[k].lo < x.hi; k++ {
			if b[k].lo > lo {
				out = append(out, iv{lo, b[k].lo})
			}
			if b[k].hi > lo {
				lo = b[k].hi
			}
		}
		if lo < x.hi {
			out = append(out, iv{lo, x.hi})
		}
	}
	return mkset(out)
}

func (a lset) equal(b lset) bool {
	if len(a) != len(b) {
		return false
	}
	for i := range a {
		if a[i] != b[i] {
			return false
		}
	}
	return true
}
func (a lset) subsetOf(b lset) bool   { return len(a.minus(b)) == 0 }
func (a lset) intersects(b lset) bool { return len(a.inter(b)) > 0 }
func (a lset) count() uint64 {
	var n uint64
	for _, x := range a {
		n += x.hi - x.lo
	}
	return n
}
func (a lset) hasPos(p uint64) bool {
	i := sort.Search(len(a), func(i int) bool { return a[i].hi > p })
	return i < len(a) && a[i].lo <= p
}

// canonical is the unique normalized cell list of a leaf set: at each position the largest
// aligned cell that fits in the interval (cells of size 4^k, k <= 30, start divisible by the
// size, hence never crossing a face boundary).  These are exactly the maximal cells contained
// in the set, in increasing order.
func canonical(s lset) []uint64 {
	out := []uint64{}
	for _, x := range s {
		p := x.lo
		for p < x.hi {
			size := uint64(1)
			for size < faceSize {
				n := size << 2
				if p%n != 0 || n > x.hi-p {
					break
				}
				size = n
			}
			out = append(out, cellAt(p, size))
			p += size
		}
	}
	return out
}

// oIsValidUnion: all ids valid, sorted with pairwise disjoint leaf ranges.
func oIsValidUnion(ids []uint64) bool {
	for i, c := range ids {
		if !oValid(c) {
			return false
		}
		if i > 0 && oLeafMax(ids[i-1]) >= oLeafMin(c) {
			return false
		}
	}
	return true
}

// oFourChildren: a,b,c,d (distinct, valid) are the four children of one cell.
func oFourChildren(a, b, c, d uint64) bool {
	if oIsFace(a) || oLsb(a) != oLsb(b) || oLsb(a) != oLsb(c) || oLsb(a) != oLsb(d) {
		return false
	}
	if a == b || a == c || a == d || b == c || b == d || c == d {
		return false
	}
	n := oLsb(a) << 2
	p := (a & -n) | n
	return (b&-n)|n == p && (c&-n)|n == p && (d&-n)|n == p
}

// oIsNormalizedUnion: valid union and no four elements are the four children of one cell
// (in a sorted disjoint list such elements are necessarily consecutive).
func oIsNormalizedUnion(ids []uint64) bool {
	if !oIsValidUnion(ids) {
		return false
	}
	for i := 3; i < len(ids); i++ {
		if oFourChildren(ids[i-3], ids[i-2], ids[i-1], ids[i]) {
			return false
		}
	}
	return true
}

func eqIDs(a, b []uint64) bool {
	if len(a) != len(b) {
		return false
	}
	for i := range a {
		if a[i] != b[i] {
			return false
		}
	}
	return true
}

// selfTestOracle cross-checks the interval code against bitmaps on a 64-position universe and
// the canonical form against a brute-force enumeration of maximal cells.  It panics on any
// disagreement: an oracle defect must never be reported as a violation of the library.
func selfTestOracle(next func() uint64) {
	const base = uint64(5)<<60 + 3<<40 // arbitrary position divisible by 64, inside face 5
	toSet := func(m uint64) lset {
		var ivs []iv
		for p := uint64(0); p < 64; p++ {
			if m>>p&1 == 1 {
				ivs = append(ivs, iv{base + p, base + p + 1})
			}
		}
		return mkset(ivs)
	}
	toMask := func(s lset) uint64 {
		var m uint64
		for _, x := range s {
			for p := x.lo; p < x.hi; p++ {
				m |= 1 << (p - base)
			}
		}
		return m
	}
	for k := 0; k < 400; k++ {
		ma, mb := next(), next()
		switch k % 5 {
		case 1:
			ma &= next()
			mb &= next() & next()
		case 2:
			ma |= next()
			mb |= next() | next()
		case 3:
			mb = ma
		case 4:
			mb = ^ma
		}
		a, b := toSet(ma), toSet(mb)
		if toMask(a) != ma || toMask(a.union(b)) != ma|mb || toMask(a.inter(b)) != ma&mb || toMask(a.minus(b)) != ma&^mb ||
			a.subsetOf(b) != (ma&^mb == 0) || a.intersects(b) != (ma&mb != 0) || a.equal(b) != (ma == mb) ||
			a.count() != uint64(bits.OnesCount64(ma)) {
			panic(fmt.Sprintf("oracle self-test: interval algebra wrong on %x %x", ma, mb))
		}
		for i := 1; i < len(a); i++ {
			if a[i-1].hi >= a[i].lo {
				panic("oracle self-test: set not coalesced")
			}
		}
		// brute force: the normalized form is the set of maximal contained cells, i.e. every
		// aligned cell (sizes 1,4,16,64) that lies in the set while its parent does not
		full := func(p, size uint64) uint64 {
			if size >= 64 {
				return ^uint64(0)
			}
			return (uint64(1)<<size - 1) << p
		}
		var maxCells []uint64
		for _, size := range []uint64{1, 4, 16, 64} {
			for p := uint64(0); p < 64; p += size {
				if f := full(p, size); ma&f != f {
					continue
				}
				if size < 64 {
					ps := size * 4
					if pf := full(p-p%ps, ps); ma&pf == pf {
						continue
					}
				}
				maxCells = append(maxCells, cellAt(base+p, size))
			}
		}
		sort.Slice(maxCells, func(i, j int) bool { return maxCells[i] < maxCells[j] })
		got := canonical(a)
		if !eqIDs(got, maxCells) || !fromCells(got).equal(a) {
			panic(fmt.Sprintf("oracle self-test: canonical form wrong on %x", ma))
		}
		for _, c := range got {
			if !oValid(c) {
				panic("oracle self-test: canonical produced an invalid id")
			}
		}
	}
	// a few absolute facts
	if c := canonical(lset{{0, numPos}}); len(c) != 6 || c[0] != 1<<60 || c[5] != 5<<61|1<<60 {
		panic("oracle self-test: whole sphere is not the six faces")
	}
	if oIv(lastLeaf) != (iv{numPos - 1, numPos}) || oIv(firstLeaf) != (iv{0, 1}) || sentinelLeaf>>1 != numPos {
		panic("oracle self-test: leaf positions")
	}
}
