// racer: the free-running rounds of the C14 observer, meant to be built with -race.
// usage: racer <seed> <rounds> <seconds>   (prints one JSON line; race reports go to stderr)
package main

import (
	"encoding/json"
	"fmt"
	"os"
	"strconv"
	"time"

	"verifharness/cmd/obs/c14/stress"
	"verifharness/internal/vkit"
)

func main() {
	seed, _ := strconv.ParseUint(os.Args[1], 10, 64)
	rounds, _ := strconv.Atoi(os.Args[2])
	secs, _ := strconv.Atoi(os.Args[3])
	rng := vkit.NewRng(seed)
	deadline := time.Now().Add(time.Duration(secs) * time.Second)
	var fails []stress.Failure
	evals, done := 0, 0
	for done < rounds && time.Now().Before(deadline) {
		f, e, _ := stress.Rounds(rng, 1)
		fails = append(fails, f...)
		evals += e
		done++
	}
	b, _ := json.Marshal(map[string]interface{}{"rounds": done, "evals": evals, "fails": fails})
	fmt.Println(string(b))
}
